/-
Shared definitions for the GC-safety theorems (C11 with DeleteNodes passes).

`NL H t`        the hashes of all non-empty subtree OCCURRENCES of the spec tree `t` (with multiplicity, pre-order)
`Distinct H t`  no two live positions hold nodes with equal hash, and no node hashes to 32 zero bytes (the key a nil
                hash is padded to by DeleteNodes) or to the hash of the empty string (the hash of an absent child) — the per-time form of `NoSharedContent`, the complement of the matcher
                of finding C11-F2
`cl H n t`      the hashes of the occurrences of `t` that the in-memory trie `n` holds as CLEAN nodes or references —
                the part of `t` that the next Commit will NOT write again and that storage therefore has to keep
`dirtyCached n` the cached (possibly stale, possibly nil) hash fields of the dirty nodes of `n` — what the next Commit
                will queue as superseded
`dirtyHashes H n t`  the current hashes of the occurrences held by dirty nodes — what the next Commit will write
-/
import Verif.Lemmas.WmptHistoryInv
import Verif.Lemmas.WmptImport
namespace Verif.Wmpt

def zeros32 : Bytes := List.replicate 32 0

section
variable (H : Bytes → Bytes)

def NL : PT → List Bytes
  | .none => []
  | .value v w => [PT.hash H (.value v w)]
  | .short k c => PT.hash H (.short k c) :: NL c
  | .branch f => PT.hash H (.branch f) :: allNib.flatMap (fun i => NL (f i))

def Distinct (t : PT) : Prop := (zeros32 :: emptyHash H :: NL H t).Nodup

def cl : WN → PT → List Bytes
  | .hashRef _ _, t => NL H t
  | .value _ _ _ d, t => if d then [] else NL H t
  | .short _ _ c d _, t => if d then cl c t.shortChild else NL H t
  | .routing _ ch _ d _, t => if d then allNib.flatMap (fun i => cl (ch i) (t.kid i)) else NL H t
  | _, _ => []

def dirtyHashes : WN → PT → List Bytes
  | .value _ _ _ d, t => if d then [PT.hash H t] else []
  | .short _ _ c d _, t => (if d then [PT.hash H t] else []) ++ dirtyHashes c t.shortChild
  | .routing _ ch _ d _, t => (if d then [PT.hash H t] else []) ++ allNib.flatMap (fun i => dirtyHashes (ch i) (t.kid i))
  | _, _ => []

end

def dirtyCached : WN → List Bytes
  | .value h _ _ d => if d then [h] else []
  | .short _ h c d _ => (if d then [h] else []) ++ dirtyCached c
  | .routing h ch _ d _ => (if d then [h] else []) ++ allNib.flatMap (fun i => dirtyCached (ch i))
  | _ => []

/-- a queued hash is nil or a 32-byte hash -/
def StaleOK (h : Bytes) : Prop := h = [] ∨ h.length = 32

/-- histories with GC passes -/
def HOp.plainGC : HOp → Prop
  | .upd _ _ _ => True | .del _ => True | .root => True | .commit _ => True | .gc => True | _ => False

/-- the spec trie of the last commit of a history (`.none` before the first one) -/
def committedRun : List HOp → PT
  | ops => (ops.foldl (fun (acc : PT × PT) op =>
      match op with
      | .commit _ => (specStep acc.1 op, specStep acc.1 op)
      | _ => (specStep acc.1 op, acc.2)) (PT.none, PT.none)).2

/-- The GC invariant: `ts` = spec trie of the live trie, `tc` = spec trie of the last commit. -/
structure GInv (H : Bytes → Bytes) (st : HState) (ts tc : PT) : Prop where
  hasDb : st.t.hasDb = true
  stored : StoredAll H st.t.store tc
  rep : Rep H (fun x => PT.Sub x tc) st.t.root ts
  notNil : st.t.root.isNil = false
  proper : Proper st.t.root
  upDirty : RepMore.UpDirty st.t.root
  noEmp : RepOps.NoEmp st.t.root
  uniform : Uniform 64 ts
  uniformC : Uniform 64 tc
  /-- nothing queued for deletion is a node of the last committed trie -/
  queues : ∀ h ∈ st.t.tempDeleted ++ st.t.deleted, pad32 h ∉ NL H tc
  /-- nothing that the next commit will queue is a node the live trie still holds clean -/
  stale : ∀ h ∈ st.t.pending ++ dirtyCached st.t.root, pad32 h ∉ cl H st.t.root ts
  lens : ∀ h ∈ st.t.tempDeleted ++ st.t.pending ++ dirtyCached st.t.root, StaleOK h
  lensD : ∀ h ∈ st.t.deleted, h.length = 32

end Verif.Wmpt
