/-
Map semantics of `PT.insert` / `PT.delete` on uniform spec trees (all keys of one length): the trie is a finite
map from keys to (value, weight).  Core Lean only.
-/
import Verif.Model.WmptSpecOps
import Verif.Lemmas.WmptSpec
namespace Verif.Wmpt

/-! ### nibbles -/

theorem nb_toNat (i : Nib) : (nb i).toNat = i.val := by
  have := i.isLt
  simp [nb]
  omega

theorem nibOf_nb (i : Nib) : nibOf (nb i) = some i := by
  have h : (nb i).toNat < 16 := by rw [nb_toNat]; exact i.isLt
  simp only [nibOf, h, dite_true, Option.some.injEq]
  exact Fin.ext (nb_toNat i)

theorem nb_injective : Function.Injective nb := by
  intro i j h
  have := congrArg UInt8.toNat h
  rw [nb_toNat, nb_toNat] at this
  exact Fin.ext this

theorem nb_inj {i j : Nib} : nb i = nb j ↔ i = j := nb_injective.eq_iff

theorem map_nb_inj {a b : List Nib} : a.map nb = b.map nb ↔ a = b :=
  List.map_inj_right (fun _ _ h => nb_injective h)

theorem exists_nibs (sk : Bytes) (h : ∀ b ∈ sk, b.toNat < 16) : ∃ s : List Nib, sk = s.map nb := by
  induction sk with
  | nil => exact ⟨[], rfl⟩
  | cons b tl ih =>
    obtain ⟨s, hs⟩ := ih (fun x hx => h x (List.mem_cons_of_mem _ hx))
    have hb := h b List.mem_cons_self
    refine ⟨⟨b.toNat, hb⟩ :: s, ?_⟩
    simp [hs, nb]

theorem map_nb_nibble (s : List Nib) : ∀ b ∈ s.map nb, b.toNat < 16 := by
  intro b hb
  obtain ⟨i, _, rfl⟩ := List.mem_map.mp hb
  rw [nb_toNat]; exact i.isLt

theorem drop_len_succ {α} (l : List α) (x : α) (r : List α) : (l ++ x :: r).drop (l.length + 1) = r := by
  induction l with
  | nil => rfl
  | cons y ys ih => simp

/-! ### commonPrefix -/

theorem cp_prefix (s K2 : List Nib) : commonPrefix (s.map nb) ((s ++ K2).map nb) = s.length := by
  induction s with
  | nil => cases K2 <;> simp [commonPrefix]
  | cons x xs ih => simpa [commonPrefix] using ih

theorem cp_split (a s' K' : List Nib) (i1 i2 : Nib) (h : i1 ≠ i2) :
    commonPrefix ((a ++ i1 :: s').map nb) ((a ++ i2 :: K').map nb) = a.length := by
  induction a with
  | nil => simp [commonPrefix, nb_inj, h]
  | cons x xs ih => simpa [commonPrefix] using ih

theorem cp_cases (s K : List Nib) (h : s.length ≤ K.length) :
    (∃ K2, K = s ++ K2) ∨
    (∃ a i1 s' i2 K', s = a ++ i1 :: s' ∧ K = a ++ i2 :: K' ∧ i1 ≠ i2) := by
  induction s generalizing K with
  | nil => exact .inl ⟨K, rfl⟩
  | cons x xs ih =>
    cases K with
    | nil => simp at h
    | cons y ys =>
      by_cases hxy : x = y
      · subst hxy
        rcases ih ys (by simpa using h) with ⟨K2, rfl⟩ | ⟨a, i1, s', i2, K', rfl, rfl, hne⟩
        · exact .inl ⟨K2, rfl⟩
        · exact .inr ⟨x :: a, i1, s', i2, K', rfl, rfl, hne⟩
      · exact .inr ⟨[], x, xs, y, ys, rfl, rfl, hxy⟩

/-! ### uniform trees -/

/-- value or branch: what a short node may point to -/
def PT.isVB : PT → Prop
  | .value _ _ => True
  | .branch _ => True
  | _ => False

/-- all values at depth exactly `n` (a short node counts its key length, a branch 1); short keys are non-empty
nibble strings and point to a value or a branch -/
def Uniform : Nat → PT → Prop
  | _, .none => True
  | n, .value _ _ => n = 0
  | n, .short sk c => sk ≠ [] ∧ (∀ b ∈ sk, b.toNat < 16) ∧ sk.length ≤ n ∧ c.isVB ∧ Uniform (n - sk.length) c
  | n, .branch ch => 0 < n ∧ ∀ i, Uniform (n - 1) (ch i)

theorem uniform_none (n : Nat) : Uniform n .none := by simp [Uniform]

theorem Uniform.cast {n m : Nat} {t : PT} (h : Uniform n t) (e : n = m) : Uniform m t := e ▸ h

/-- a uniform short node, with the key as nibbles -/
theorem uniform_short_iff {n : Nat} {s : List Nib} {c : PT} :
    Uniform n (.short (s.map nb) c) ↔ s ≠ [] ∧ s.length ≤ n ∧ c.isVB ∧ Uniform (n - s.length) c := by
  simp only [Uniform, List.length_map, ne_eq, List.map_eq_nil_iff]
  constructor
  · rintro ⟨h1, _, h3, h4, h5⟩; exact ⟨h1, h3, h4, h5⟩
  · rintro ⟨h1, h3, h4, h5⟩; exact ⟨h1, map_nb_nibble s, h3, h4, h5⟩

namespace PT

/-! ### lookup equations -/

theorem lookup_short (s : List Nib) (c : PT) (q : List Nib) :
    lookup (.short (s.map nb) c) q = if s <+: q then lookup c (q.drop s.length) else Option.none := by
  have : (s.length ≤ q.length ∧ (q.map nb).take s.length = s.map nb) ↔ s <+: q := by
    rw [← List.map_take, map_nb_inj, List.prefix_iff_eq_take]
    constructor
    · rintro ⟨_, h⟩; exact h.symm
    · intro h; refine ⟨?_, h.symm⟩
      have := congrArg List.length h
      simp at this; omega
  simp only [lookup, this, List.length_map]

theorem lookup_short_append (s q2 : List Nib) (c : PT) :
    lookup (.short (s.map nb) c) (s ++ q2) = lookup c q2 := by
  simp [lookup_short]

theorem lookup_mkShort (s : List Nib) (c : PT) (q : List Nib) :
    lookup (mkShort (s.map nb) c) q = if s <+: q then lookup c (q.drop s.length) else Option.none := by
  unfold mkShort
  by_cases h : s = []
  · subst h; simp
  · simp [h, lookup_short]

theorem lookup_branch_cons (ch : Nib → PT) (j : Nib) (qs : List Nib) :
    lookup (.branch ch) (j :: qs) = lookup (ch j) qs := by simp [lookup]

theorem lookup_none (q : List Nib) : lookup .none q = Option.none := by simp [lookup]

/-! ### insert equations -/

theorem insert_short_eq (sk : Bytes) (c : PT) (key : List Nib) (hk : key ≠ []) (v : Bytes) (w : Nat) :
    insert (.short sk c) key v w =
      (let kb := key.map nb
       let p := commonPrefix sk kb
       if p = sk.length then .short sk (insert c (key.drop p) v w)
       else
         match nibOf (sk.getD p 0), key[p]? with
         | some i1, some i2 =>
           let br := PT.branch (updP (updP noChP i1 (mkShort (sk.drop (p + 1)) c)) i2 (mkShort (kb.drop (p + 1)) (.value v w)))
           if p = 0 then br else .short (kb.take p) br
         | _, _ => .short sk c) := by
  cases key with
  | nil => exact absurd rfl hk
  | cons k ks => rfl

theorem insert_short_prefix (s K2 : List Nib) (hs : s ≠ []) (c : PT) (v : Bytes) (w : Nat) :
    insert (.short (s.map nb) c) (s ++ K2) v w = .short (s.map nb) (insert c K2 v w) := by
  rw [insert_short_eq _ _ _ (by simp [hs])]
  simp only [cp_prefix]
  simp

theorem insert_short_split (a s' K' : List Nib) (i1 i2 : Nib) (h : i1 ≠ i2) (c : PT) (v : Bytes) (w : Nat) :
    insert (.short ((a ++ i1 :: s').map nb) c) (a ++ i2 :: K') v w =
      mkShort (a.map nb)
        (.branch (updP (updP noChP i1 (mkShort (s'.map nb) c)) i2 (mkShort (K'.map nb) (.value v w)))) := by
  rw [insert_short_eq _ _ _ (by simp)]
  simp only [cp_split _ _ _ _ _ h]
  have h1 : a.length ≠ ((a ++ i1 :: s').map nb).length := by simp
  simp only [h1, if_false]
  have h2 : ((a ++ i1 :: s').map nb).getD a.length 0 = nb i1 := by simp [List.getD]
  have h3 : (a ++ i2 :: K')[a.length]? = some i2 := by simp
  rw [h2, h3, nibOf_nb]
  simp only
  have h4 : ((a ++ i1 :: s').map nb).drop (a.length + 1) = s'.map nb := by
    rw [← List.map_drop, drop_len_succ]
  have h5 : ((a ++ i2 :: K').map nb).drop (a.length + 1) = K'.map nb := by
    rw [← List.map_drop, drop_len_succ]
  have h6 : ((a ++ i2 :: K').map nb).take a.length = a.map nb := by simp
  rw [h4, h5, h6]
  by_cases ha : a = []
  · subst ha; simp [mkShort]
  · have : a.length ≠ 0 := by simpa using ha
    simp [ha, this, mkShort]

/-! ### insert: uniformity -/

theorem uniform_mkShort {m : Nat} {s : List Nib} {c : PT} (hl : s.length ≤ m) (hc : c.isVB)
    (hu : Uniform (m - s.length) c) : Uniform m (mkShort (s.map nb) c) := by
  unfold mkShort
  by_cases h : s = []
  · subst h; simpa using hu
  · simp only [List.map_eq_nil_iff, h, if_false]
    exact uniform_short_iff.mpr ⟨h, hl, hc, hu⟩

theorem isVB_insert {n : Nat} {t : PT} {key : List Nib} (hu : Uniform n t) (hvb : t.isVB) (hk : key.length = n)
    (v : Bytes) (w : Nat) : (insert t key v w).isVB := by
  cases t with
  | none => simp [isVB] at hvb
  | short sk c => simp [isVB] at hvb
  | value vv vw =>
    simp only [Uniform] at hu
    subst hu
    have : key = [] := List.eq_nil_of_length_eq_zero hk
    subst this
    simp only [insert]
    split <;> simp [isVB]
  | branch ch =>
    simp only [Uniform] at hu
    cases key with
    | nil => simp at hk; omega
    | cons k ks => simp [insert, isVB]

theorem insert_uniform {n : Nat} {t : PT} {key : List Nib} (hu : Uniform n t) (hk : key.length = n)
    (v : Bytes) (w : Nat) : Uniform n (insert t key v w) := by
  induction t generalizing n key with
  | none =>
    cases key with
    | nil => simp at hk; subst hk; simp [insert, Uniform]
    | cons k ks =>
      simp only [insert]
      subst hk
      exact uniform_short_iff.mpr ⟨by simp, by simp, by simp [isVB], by simp [Uniform]⟩
  | value vv vw =>
    simp only [Uniform] at hu
    subst hu
    have : key = [] := List.eq_nil_of_length_eq_zero hk
    subst this
    simp only [insert]
    split <;> simp [Uniform]
  | short sk c ih =>
    obtain ⟨s, rfl⟩ := exists_nibs sk hu.2.1
    obtain ⟨hs, hle, hvb, huc⟩ := uniform_short_iff.mp hu
    rcases cp_cases s key (by omega) with ⟨K2, rfl⟩ | ⟨a, i1, s', i2, K', rfl, rfl, hne⟩
    · rw [insert_short_prefix _ _ hs]
      have hk2 : K2.length = n - s.length := by simp at hk; omega
      exact uniform_short_iff.mpr ⟨hs, hle, isVB_insert huc hvb hk2 v w, ih huc hk2⟩
    · rw [insert_short_split _ _ _ _ _ hne]
      simp only [List.length_append, List.length_cons] at hk hle huc
      refine uniform_mkShort (by omega) (by simp [isVB]) ?_
      refine ⟨by omega, fun i => ?_⟩
      unfold updP
      by_cases h2 : i = i2
      · simp only [h2, if_true]
        exact uniform_mkShort (by omega) (by simp [isVB]) (by simp [Uniform]; omega)
      · simp only [h2, if_false]
        by_cases h1 : i = i1
        · simp only [h1, if_true]
          exact uniform_mkShort (by omega) hvb (huc.cast (by omega))
        · simp [h1, noChP, Uniform]
  | branch ch ih =>
    simp only [Uniform] at hu
    cases key with
    | nil => simp at hk; omega
    | cons k ks =>
      simp only [insert]
      refine ⟨hu.1, fun i => ?_⟩
      unfold updP
      by_cases h : i = k
      · simp only [h, if_true]
        exact ih k (hu.2 k) (by simp at hk; omega)
      · simp only [h, if_false]; exact hu.2 i

/-! ### insert: map semantics -/

/-- the binding stored by `insert key v w` given the previous binding of `key`: re-inserting the same value keeps
the old weight (`if bytes.Equal(v.value, newVal) return 0, v`) -/
def insVal (old : Option (Bytes × Nat)) (v : Bytes) (w : Nat) : Bytes × Nat :=
  match old with
  | some (v', w') => if v' = v then (v', w') else (v, w)
  | Option.none => (v, w)

theorem insert_lookup {n : Nat} {t : PT} {key q : List Nib} (hu : Uniform n t) (hk : key.length = n)
    (hq : q.length = n) (v : Bytes) (w : Nat) :
    lookup (insert t key v w) q = if q = key then some (insVal (lookup t key) v w) else lookup t q := by
  induction t generalizing n key q with
  | none =>
    cases key with
    | nil =>
      simp at hk; subst hk
      have : q = [] := List.eq_nil_of_length_eq_zero hq
      subst this
      simp [insert, lookup, insVal]
    | cons k ks =>
      simp only [insert]
      rw [lookup_short]
      by_cases h : q = k :: ks
      · subst h; simp [lookup, insVal]
      · have : ¬ (k :: ks) <+: q := fun hp => h (hp.eq_of_length (by omega)).symm
        simp [h, this, lookup]
  | value vv vw =>
    simp only [Uniform] at hu
    subst hu
    have : key = [] := List.eq_nil_of_length_eq_zero hk
    subst this
    have : q = [] := List.eq_nil_of_length_eq_zero hq
    subst this
    simp only [insert, lookup, insVal]
    split <;> simp [lookup]
  | short sk c ih =>
    obtain ⟨s, rfl⟩ := exists_nibs sk hu.2.1
    obtain ⟨hs, hle, hvb, huc⟩ := uniform_short_iff.mp hu
    rcases cp_cases s key (by omega) with ⟨K2, rfl⟩ | ⟨a, i1, s', i2, K', rfl, rfl, hne⟩
    · rw [insert_short_prefix _ _ hs, lookup_short, lookup_short_append, lookup_short]
      have hk2 : K2.length = n - s.length := by simp at hk; omega
      by_cases hp : s <+: q
      · obtain ⟨q2, rfl⟩ := hp
        have hq2 : q2.length = n - s.length := by simp at hq; omega
        simp [ih huc hk2 hq2]
      · have : q ≠ s ++ K2 := fun h => hp (h ▸ List.prefix_append _ _)
        simp [hp, this]
    · rw [insert_short_split _ _ _ _ _ hne, lookup_mkShort, lookup_short, lookup_short]
      simp only [List.length_append, List.length_cons] at hk hle huc
      by_cases hp : a <+: q
      · obtain ⟨q2, rfl⟩ := hp
        cases q2 with
        | nil => simp at hq; omega
        | cons j qs =>
          have hqs : qs.length = K'.length := by simp at hq; omega
          have e1 : (a ++ i1 :: s' <+: a ++ i2 :: K') ↔ False := by
            simp [List.prefix_append_right_inj, List.cons_prefix_cons, hne]
          have e2 : (a ++ i1 :: s' <+: a ++ j :: qs) ↔ (i1 = j ∧ s' <+: qs) := by
            simp [List.prefix_append_right_inj, List.cons_prefix_cons]
          have e3 : (a ++ j :: qs = a ++ i2 :: K') ↔ (j = i2 ∧ qs = K') := by simp
          have e4 : (a ++ j :: qs).drop (a ++ i1 :: s').length = qs.drop s'.length := by
            rw [List.length_append, List.length_cons, ← Nat.add_assoc, ← List.drop_drop]; simp
          simp only [List.prefix_append, if_true, List.drop_left, lookup_branch_cons, e1, e2, e3, e4, if_false]
          unfold updP
          by_cases h2 : j = i2
          · subst h2
            have : ¬ i1 = j := hne
            simp only [if_true, true_and, this, false_and, if_false, lookup_mkShort]
            by_cases hqk : qs = K'
            · subst hqk; simp [lookup, insVal]
            · have : ¬ K' <+: qs := fun hp => hqk (hp.eq_of_length hqs.symm).symm
              simp [hqk, this]
          · simp only [h2, if_false, false_and]
            by_cases h1 : j = i1
            · subst h1
              simp [lookup_mkShort]
            · have : ¬ i1 = j := fun h => h1 h.symm
              simp [h1, this, noChP, lookup]
      · have h1 : ¬ (a ++ i1 :: s') <+: q := fun h => hp ((List.prefix_append _ _).trans h)
        have h2 : q ≠ a ++ i2 :: K' := fun h => hp (h ▸ List.prefix_append _ _)
        simp [hp, h1, h2]
  | branch ch ih =>
    simp only [Uniform] at hu
    cases key with
    | nil => simp at hk; omega
    | cons k ks =>
      cases q with
      | nil => simp at hq; omega
      | cons j qs =>
        simp only [List.length_cons] at hk hq
        simp only [insert, lookup_branch_cons]
        unfold updP
        by_cases h : j = k
        · subst h
          simp [ih j (hu.2 j) (show ks.length = n - 1 by omega) (show qs.length = n - 1 by omega)]
        · simp [h]

/-! ### delete equations -/

theorem delete_short_split (a s' K' : List Nib) (i1 i2 : Nib) (h : i1 ≠ i2) (c : PT) :
    delete (.short ((a ++ i1 :: s').map nb) c) (a ++ i2 :: K') = Option.none := by
  simp only [delete, cp_split _ _ _ _ _ h]
  simp

theorem delete_short_prefix (s K2 : List Nib) (c : PT) :
    delete (.short (s.map nb) c) (s ++ K2) =
      if K2 = [] then some .none
      else match delete c K2 with
        | Option.none => Option.none
        | some (.short ck cc) => some (.short (s.map nb ++ ck) cc)
        | some n' => some (.short (s.map nb) n') := by
  simp only [delete, cp_prefix]
  by_cases h : K2 = []
  · subst h; simp
  · have : ¬ s.length = s.length + K2.length := by
      have : K2.length ≠ 0 := by simpa using h
      omega
    simp only [List.length_map, Nat.lt_irrefl, if_false, List.length_append, this, h, List.drop_left]
    cases delete c K2 with
    | none => rfl
    | some t'' => cases t'' <;> rfl

/-- the short node replacing a branch whose only remaining child is `ch pos` -/
def collapse (ch : Nib → PT) (pos : Nib) : PT :=
  match ch pos with
  | .short ck cc => .short (nb pos :: ck) cc
  | c => .short [nb pos] c

theorem delete_branch_cons (ch : Nib → PT) (k : Nib) (ks : List Nib) :
    delete (.branch ch) (k :: ks) =
      (delete (ch k) ks).map (fun r =>
        if !r.isNone then .branch (updP ch k r)
        else match sole (updP ch k r) with
          | Option.none => .branch (updP ch k r)
          | some pos => collapse (updP ch k r) pos) := by
  simp only [delete]
  cases h : delete (ch k) ks with
  | none => rfl
  | some r =>
    simp only [Option.map_some]
    by_cases hr : r.isNone
    · simp only [hr, Bool.not_true, Bool.false_eq_true, if_false]
      cases hs : sole (updP ch k r) with
      | none => rfl
      | some pos =>
        simp only [collapse]
        split <;> simp_all
    · simp [hr]

theorem delete_branch_ne (ch : Nib → PT) (key : List Nib) : delete (.branch ch) key ≠ some .none := by
  cases key with
  | nil => simp [delete]
  | cons k ks =>
    rw [delete_branch_cons]
    cases delete (ch k) ks with
    | none => simp
    | some r =>
      simp only [Option.map_some, ne_eq, Option.some.injEq]
      split
      · simp
      · split
        · simp
        · simp only [collapse]; split <;> simp

theorem isNone_iff (t : PT) : t.isNone = true ↔ t = .none := by
  cases t <;> simp [isNone]

theorem sole_spec {ch : Nib → PT} {pos : Nib} (h : sole ch = some pos) :
    ch pos ≠ .none ∧ ∀ j, j ≠ pos → ch j = .none := by
  unfold sole at h
  split at h
  · rename_i i hf
    simp only [Option.some.injEq] at h
    subst h
    constructor
    · have : i ∈ allNib.filter (fun i => !(ch i).isNone) := by rw [hf]; simp
      have := (List.mem_filter.mp this).2
      intro hc; simp [hc, isNone] at this
    · intro j hj
      by_cases hc : ch j = .none
      · exact hc
      · have : j ∈ allNib.filter (fun i => !(ch i).isNone) := by
          refine List.mem_filter.mpr ⟨List.mem_finRange j, ?_⟩
          have : (ch j).isNone ≠ true := fun h => hc ((isNone_iff _).mp h)
          simpa using this
        rw [hf] at this
        simp at this
        exact absurd this hj
  · simp at h

/-! ### delete: uniformity and map semantics -/

theorem lookup_short_short (s s2 : List Nib) (cc : PT) (q : List Nib) :
    lookup (.short ((s ++ s2).map nb) cc) q = lookup (.short (s.map nb) (.short (s2.map nb) cc)) q := by
  rw [lookup_short, lookup_short]
  by_cases hp : s <+: q
  · obtain ⟨q2, rfl⟩ := hp
    simp [lookup_short, List.prefix_append_right_inj]
  · have : ¬ (s ++ s2) <+: q := fun h => hp ((List.prefix_append _ _).trans h)
    simp [hp, this]

theorem lookup_short_one (pos : Nib) (ch : Nib → PT) (hn : ∀ j, j ≠ pos → ch j = .none) (q : List Nib) :
    lookup (.short ([pos].map nb) (ch pos)) q = lookup (.branch ch) q := by
  rw [lookup_short]
  cases q with
  | nil => simp [lookup]
  | cons j qs =>
    by_cases h : j = pos
    · subst h; simp [lookup]
    · simp [List.cons_prefix_cons, Ne.symm h, lookup, hn j h]

theorem collapse_spec {n : Nat} {ch : Nib → PT} {pos : Nib} (hu : Uniform n (.branch ch))
    (hs : sole ch = some pos) :
    Uniform n (collapse ch pos) ∧ ∀ q, lookup (collapse ch pos) q = lookup (.branch ch) q := by
  obtain ⟨hne, hn⟩ := sole_spec hs
  simp only [Uniform] at hu
  have hup := hu.2 pos
  have key := lookup_short_one pos ch hn
  unfold collapse
  cases hc : ch pos with
  | none => exact absurd hc hne
  | value vv vw =>
    rw [hc] at hup key
    exact ⟨(uniform_short_iff (s := [pos])).mpr ⟨by simp, by simp; omega, by simp [isVB], by simpa using hup⟩, key⟩
  | branch ch2 =>
    rw [hc] at hup key
    exact ⟨(uniform_short_iff (s := [pos])).mpr ⟨by simp, by simp; omega, by simp [isVB], by simpa using hup⟩, key⟩
  | short ck cc =>
    rw [hc] at hup key
    obtain ⟨s2, rfl⟩ := exists_nibs ck hup.2.1
    obtain ⟨h1, h2, h3, h4⟩ := uniform_short_iff.mp hup
    refine ⟨(uniform_short_iff (s := pos :: s2)).mpr
      ⟨by simp, by simp; omega, h3, h4.cast (by simp; omega)⟩, fun q => ?_⟩
    rw [← key q]; exact lookup_short_short [pos] s2 cc q

theorem delete_spec {n : Nat} {t : PT} {key : List Nib} (hu : Uniform n t) (hk : key.length = n) :
    (delete t key = Option.none ∧ lookup t key = Option.none) ∨
    (∃ t', delete t key = some t' ∧ lookup t key ≠ Option.none ∧ Uniform n t' ∧
      ∀ q : List Nib, q.length = n → lookup t' q = if q = key then Option.none else lookup t q) := by
  induction t generalizing n key with
  | none => left; simp [delete, lookup]
  | value vv vw =>
    simp only [Uniform] at hu
    subst hu
    have : key = [] := List.eq_nil_of_length_eq_zero hk
    subst this
    right
    refine ⟨.none, by simp [delete], by simp [lookup], uniform_none 0, fun q hq => ?_⟩
    have : q = [] := List.eq_nil_of_length_eq_zero hq
    subst this
    simp [lookup]
  | short sk c ih =>
    obtain ⟨s, rfl⟩ := exists_nibs sk hu.2.1
    obtain ⟨hs, hle, hvb, huc⟩ := uniform_short_iff.mp hu
    rcases cp_cases s key (by omega) with ⟨K2, rfl⟩ | ⟨a, i1, s', i2, K', rfl, rfl, hne⟩
    · have hk2 : K2.length = n - s.length := by simp at hk; omega
      rw [delete_short_prefix, lookup_short_append]
      by_cases hK : K2 = []
      · subst hK
        right
        have hn : n - s.length = 0 := by simpa using hk2.symm
        rw [hn] at huc
        refine ⟨.none, by simp, ?_, uniform_none n, fun q hq => ?_⟩
        · cases c with
          | none => simp [isVB] at hvb
          | short _ _ => simp [isVB] at hvb
          | value vv vw => simp [lookup]
          | branch ch => simp [Uniform] at huc
        · rw [lookup_none, lookup_short]
          by_cases hqs : q = s ++ []
          · simp [hqs]
          · have : ¬ s <+: q := fun hp => hqs (by simpa using (hp.eq_of_length (by simp at hk; omega)).symm)
            simp [this]
      · simp only [hK, if_false]
        -- the common step: replacing `c` by `t''` below the short node
        have step : ∀ t'' : PT, (∀ q2 : List Nib, q2.length = n - s.length →
              lookup t'' q2 = if q2 = K2 then Option.none else lookup c q2) →
            ∀ q : List Nib, q.length = n → lookup (.short (s.map nb) t'') q =
              if q = s ++ K2 then Option.none else lookup (.short (s.map nb) c) q := by
          intro t'' h q hq
          rw [lookup_short, lookup_short]
          by_cases hp : s <+: q
          · obtain ⟨q2, rfl⟩ := hp
            have hq2 : q2.length = n - s.length := by simp at hq; omega
            simp [h q2 hq2]
          · have : q ≠ s ++ K2 := fun h => hp (h ▸ List.prefix_append _ _)
            simp [hp, this]
        rcases ih huc hk2 with ⟨hd, hl⟩ | ⟨t'', hd, hl, hu'', hlk⟩
        · left; rw [hd]; exact ⟨rfl, hl⟩
        · right
          rw [hd]
          cases t'' with
          | short ck cc =>
            obtain ⟨s2, rfl⟩ := exists_nibs ck hu''.2.1
            obtain ⟨h1, h2, h3, h4⟩ := uniform_short_iff.mp hu''
            refine ⟨_, rfl, hl, ?_, fun q hq => ?_⟩
            · rw [← List.map_append]
              exact uniform_short_iff.mpr ⟨by simp [hs], by simp; omega, h3, h4.cast (by simp; omega)⟩
            · rw [← List.map_append, lookup_short_short]
              exact step _ hlk q hq
          | none =>
            exfalso
            cases c with
            | none => simp [isVB] at hvb
            | short _ _ => simp [isVB] at hvb
            | value vv vw =>
              simp only [Uniform] at huc
              have : K2.length ≠ 0 := by simpa using hK
              omega
            | branch ch => exact delete_branch_ne ch K2 hd
          | value vv vw =>
            exact ⟨_, rfl, hl, uniform_short_iff.mpr ⟨hs, hle, by simp [isVB], hu''⟩, step _ hlk⟩
          | branch ch2 =>
            exact ⟨_, rfl, hl, uniform_short_iff.mpr ⟨hs, hle, by simp [isVB], hu''⟩, step _ hlk⟩
    · left
      rw [delete_short_split _ _ _ _ _ hne, lookup_short]
      have : ¬ (a ++ i1 :: s') <+: (a ++ i2 :: K') := by
        simp [List.prefix_append_right_inj, List.cons_prefix_cons, hne]
      simp [this]
  | branch ch ih =>
    have hu0 := hu
    simp only [Uniform] at hu
    cases key with
    | nil => simp at hk; omega
    | cons k ks =>
      simp only [List.length_cons] at hk
      have hks : ks.length = n - 1 := by omega
      rw [delete_branch_cons, lookup_branch_cons]
      rcases ih k (hu.2 k) hks with ⟨hd, hl⟩ | ⟨r, hd, hl, hur, hlk⟩
      · left; rw [hd]; exact ⟨rfl, hl⟩
      · right
        rw [hd]
        have hub : Uniform n (.branch (updP ch k r)) := by
          refine ⟨hu.1, fun i => ?_⟩
          unfold updP
          by_cases h : i = k
          · simp only [h, if_true]; exact hur
          · simp only [h, if_false]; exact hu.2 i
        have hlb : ∀ q : List Nib, q.length = n → lookup (.branch (updP ch k r)) q =
            if q = k :: ks then Option.none else lookup (.branch ch) q := by
          intro q hq
          cases q with
          | nil => simp at hq; omega
          | cons j qs =>
            simp only [List.length_cons] at hq
            simp only [lookup_branch_cons]
            unfold updP
            by_cases h : j = k
            · subst h
              simp [hlk qs (by omega)]
            · simp [h]
        refine ⟨_, rfl, hl, ?_⟩
        dsimp only
        split
        · exact ⟨hub, hlb⟩
        · split
          · exact ⟨hub, hlb⟩
          · rename_i pos hsole
            obtain ⟨h1, h2⟩ := collapse_spec hub hsole
            exact ⟨h1, fun q hq => by rw [h2 q]; exact hlb q hq⟩

end PT

/-! ### main statements -/

section Main
variable {n : Nat} {t : PT} {key q : List Nib}

/-- 1. insert keeps the tree uniform -/
theorem uniform_insert (hu : Uniform n t) (hk : key.length = n) (v : Bytes) (w : Nat) :
    Uniform n (t.insert key v w) := PT.insert_uniform hu hk v w

/-- 2. insert is a map update (with `PT.insVal`: an equal value keeps the old weight) -/
theorem lookup_insert_insVal (hu : Uniform n t) (hk : key.length = n) (hq : q.length = n) (v : Bytes) (w : Nat) :
    (t.insert key v w).lookup q = if q = key then some (PT.insVal (t.lookup key) v w) else t.lookup q :=
  PT.insert_lookup hu hk hq v w

theorem insVal_eq (old : Option (Bytes × Nat)) (v : Bytes) (w : Nat) :
    PT.insVal old v w = if old.map (·.1) = some v then old.get! else (v, w) := by
  cases old with
  | none => simp [PT.insVal]
  | some p =>
    obtain ⟨v', w'⟩ := p
    simp only [PT.insVal, Option.map_some, Option.some.injEq, Option.get!_some]

theorem lookup_insert (hu : Uniform n t) (hk : key.length = n) (hq : q.length = n) (v : Bytes) (w : Nat) :
    (t.insert key v w).lookup q =
      if q = key then some (if (t.lookup key).map (·.1) = some v then (t.lookup key).get! else (v, w))
      else t.lookup q := by
  rw [lookup_insert_insVal hu hk hq, insVal_eq]

theorem lookup_insert_other (hu : Uniform n t) (hk : key.length = n) (hq : q.length = n) (hne : q ≠ key)
    (v : Bytes) (w : Nat) : (t.insert key v w).lookup q = t.lookup q := by
  rw [lookup_insert_insVal hu hk hq, if_neg hne]

/-- the inserted key is bound to `(v, w)` unless it was bound to the same value before -/
theorem lookup_insert_same (hu : Uniform n t) (hk : key.length = n) (v : Bytes) (w : Nat)
    (hold : ∀ w', t.lookup key ≠ some (v, w')) : (t.insert key v w).lookup key = some (v, w) := by
  rw [lookup_insert_insVal hu hk hk, if_pos rfl]
  cases h : t.lookup key with
  | none => simp [PT.insVal]
  | some p =>
    obtain ⟨v', w'⟩ := p
    have : v' ≠ v := fun e => hold w' (by rw [h, e])
    simp [PT.insVal, this]

/-- re-inserting the value already bound keeps the old binding (and its weight) -/
theorem lookup_insert_eq_value (hu : Uniform n t) (hk : key.length = n) (v : Bytes) (w w' : Nat)
    (hold : t.lookup key = some (v, w')) : (t.insert key v w).lookup key = some (v, w') := by
  rw [lookup_insert_insVal hu hk hk, if_pos rfl, hold]
  simp [PT.insVal]

/-- the value component after insert is always `v` -/
theorem lookup_insert_value (hu : Uniform n t) (hk : key.length = n) (v : Bytes) (w : Nat) :
    ((t.insert key v w).lookup key).map (·.1) = some v := by
  rw [lookup_insert_insVal hu hk hk, if_pos rfl]
  cases h : t.lookup key with
  | none => simp [PT.insVal]
  | some p =>
    obtain ⟨v', w'⟩ := p
    by_cases e : v' = v <;> simp [PT.insVal, e]

/-- 3. delete reports not-found exactly for absent keys -/
theorem delete_none_iff (hu : Uniform n t) (hk : key.length = n) :
    t.delete key = none ↔ t.lookup key = none := by
  rcases PT.delete_spec hu hk with ⟨hd, hl⟩ | ⟨t', hd, hl, _, _⟩
  · simp [hd, hl]
  · simp [hd, hl]

/-- 4. delete keeps the tree uniform and removes exactly `key` -/
theorem uniform_delete {t' : PT} (hu : Uniform n t) (hk : key.length = n) (hd : t.delete key = some t') :
    Uniform n t' := by
  rcases PT.delete_spec hu hk with ⟨hd', _⟩ | ⟨t'', hd', _, h, _⟩
  · rw [hd'] at hd; cases hd
  · rw [hd'] at hd; cases hd; exact h

theorem lookup_delete {t' : PT} (hu : Uniform n t) (hk : key.length = n) (hq : q.length = n)
    (hd : t.delete key = some t') : t'.lookup q = if q = key then none else t.lookup q := by
  rcases PT.delete_spec hu hk with ⟨hd', _⟩ | ⟨t'', hd', _, _, h⟩
  · rw [hd'] at hd; cases hd
  · rw [hd'] at hd; cases hd; exact h q hq

theorem delete_isSome_iff (hu : Uniform n t) (hk : key.length = n) :
    (t.delete key).isSome ↔ (t.lookup key).isSome := by
  rcases PT.delete_spec hu hk with ⟨hd, hl⟩ | ⟨t', hd, hl, _, _⟩
  · simp [hd, hl]
  · simp [hd, Option.isSome_iff_ne_none, hl]

end Main

/-- only keys of length `n` are bound in a uniform tree -/
theorem lookup_length {n : Nat} {t : PT} {q : List Nib} {r : Bytes × Nat} (hu : Uniform n t)
    (hl : t.lookup q = some r) : q.length = n := by
  induction t generalizing n q with
  | none => simp [PT.lookup] at hl
  | value vv vw =>
    simp only [Uniform] at hu
    cases q with
    | nil => simp [hu]
    | cons j qs => simp [PT.lookup] at hl
  | short sk c ih =>
    obtain ⟨s, rfl⟩ := exists_nibs sk hu.2.1
    obtain ⟨hs, hle, hvb, huc⟩ := uniform_short_iff.mp hu
    rw [PT.lookup_short] at hl
    by_cases hp : s <+: q
    · obtain ⟨q2, rfl⟩ := hp
      simp only [List.prefix_append, if_true, List.drop_left] at hl
      have := ih huc hl
      simp; omega
    · simp [hp] at hl
  | branch ch ih =>
    simp only [Uniform] at hu
    cases q with
    | nil => simp [PT.lookup] at hl
    | cons j qs =>
      rw [PT.lookup_branch_cons] at hl
      have := ih j (hu.2 j) hl
      simp; omega

/-! ### entries versus lookup -/

theorem mem_entries_iff {n : Nat} {t : PT} (hu : Uniform n t) (k v : Bytes) (w : Nat) :
    (k, v, w) ∈ t.entries ↔ ∃ key : List Nib, key.length = n ∧ k = key.map nb ∧ t.lookup key = some (v, w) := by
  induction t generalizing n k with
  | none => simp [PT.entries, PT.lookup]
  | value vv vw =>
    simp only [Uniform] at hu
    subst hu
    simp only [PT.entries, List.mem_singleton, Prod.mk.injEq]
    constructor
    · rintro ⟨rfl, rfl, rfl⟩; exact ⟨[], rfl, rfl, by simp [PT.lookup]⟩
    · rintro ⟨key, hk, rfl, hl⟩
      have : key = [] := List.eq_nil_of_length_eq_zero hk
      subst this
      simp only [PT.lookup, Option.some.injEq, Prod.mk.injEq] at hl
      exact ⟨rfl, hl.1.symm, hl.2.symm⟩
  | short sk c ih =>
    obtain ⟨s, rfl⟩ := exists_nibs sk hu.2.1
    obtain ⟨hs, hle, hvb, huc⟩ := uniform_short_iff.mp hu
    simp only [PT.entries, List.mem_map]
    constructor
    · rintro ⟨⟨k', v', w'⟩, hm, he⟩
      simp only [Entry.prepend, Prod.mk.injEq] at he
      obtain ⟨rfl, rfl, rfl⟩ := he
      obtain ⟨key', hk', rfl, hl'⟩ := (ih huc k').mp hm
      exact ⟨s ++ key', by simp; omega, by simp, by rw [PT.lookup_short_append]; exact hl'⟩
    · rintro ⟨key, hk, rfl, hl⟩
      rw [PT.lookup_short] at hl
      by_cases hp : s <+: key
      · obtain ⟨key', rfl⟩ := hp
        simp only [List.prefix_append, if_true, List.drop_left] at hl
        refine ⟨(key'.map nb, v, w), (ih huc _).mpr ⟨key', by simp at hk; omega, rfl, hl⟩, ?_⟩
        simp [Entry.prepend]
      · simp [hp] at hl
  | branch ch ih =>
    simp only [Uniform] at hu
    simp only [PT.entries, List.mem_flatMap, List.mem_map]
    constructor
    · rintro ⟨i, _, ⟨k', v', w'⟩, hm, he⟩
      simp only [Entry.prepend, Prod.mk.injEq] at he
      obtain ⟨rfl, rfl, rfl⟩ := he
      obtain ⟨key', hk', rfl, hl'⟩ := (ih i (hu.2 i) k').mp hm
      exact ⟨i :: key', by simp; omega, by simp, by rw [PT.lookup_branch_cons]; exact hl'⟩
    · rintro ⟨key, hk, rfl, hl⟩
      cases key with
      | nil => simp [PT.lookup] at hl
      | cons i key' =>
        rw [PT.lookup_branch_cons] at hl
        refine ⟨i, List.mem_finRange i, (key'.map nb, v, w),
          (ih i (hu.2 i) _).mpr ⟨key', by simp at hk; omega, rfl, hl⟩, ?_⟩
        simp [Entry.prepend]

theorem keys_prepend (sk : Bytes) (es : List Entry) :
    (es.map (Entry.prepend sk)).map (·.1) = (es.map (·.1)).map (sk ++ ·) := by
  simp [List.map_map, Function.comp_def, Entry.prepend]

theorem nodup_keys_prepend (sk : Bytes) (es : List Entry) (h : (es.map (·.1)).Nodup) :
    ((es.map (Entry.prepend sk)).map (·.1)).Nodup := by
  rw [keys_prepend]
  exact List.Pairwise.map _ (fun a b hab => by simpa using hab) h

/-- the keys of the entry list are pairwise distinct (no uniformity needed) -/
theorem entries_keys_nodup (t : PT) : (t.entries.map (·.1)).Nodup := by
  induction t with
  | none => simp [PT.entries]
  | value vv vw => simp [PT.entries]
  | short sk c ih => exact nodup_keys_prepend sk _ ih
  | branch ch ih =>
    simp only [PT.entries, List.map_flatMap]
    unfold List.Nodup
    rw [List.pairwise_flatMap]
    refine ⟨fun i _ => nodup_keys_prepend [nb i] _ (ih i), ?_⟩
    refine (List.nodup_finRange 16).imp ?_
    intro i j hij x hx y hy
    rw [keys_prepend] at hx hy
    obtain ⟨x', _, rfl⟩ := List.mem_map.mp hx
    obtain ⟨y', _, rfl⟩ := List.mem_map.mp hy
    intro h
    simp only [List.cons_append, List.nil_append, List.cons.injEq] at h
    exact hij (nb_injective h.1)

end Verif.Wmpt
