import Verif.Lemmas.StateCacheBasic
/-! Value-parametricity of the state-cache model, as explicit naturality lemmas: mapping a function over every stored
value commutes with every operation (`Sys.step_map`), and maps compose (`Sys.map_map`). Used by the reference-heap
argument of C07 (separation). -/
set_option linter.unusedSectionVars false
namespace Verif.SC

section Assoc
variable {α β γ : Type} [DecidableEq α]

def amap (g : β → γ) (l : List (α × β)) : List (α × γ) := l.map (fun p => (p.1, g p.2))

@[simp] theorem amap_nil (g : β → γ) : amap g ([] : List (α × β)) = [] := rfl
@[simp] theorem amap_cons (g : β → γ) (a : α) (b : β) (r : List (α × β)) :
    amap g ((a, b) :: r) = (a, g b) :: amap g r := rfl

@[simp] theorem alookup_amap (g : β → γ) (l : List (α × β)) (k : α) :
    alookup (amap g l) k = (alookup l k).map g := by
  induction l with
  | nil => rfl
  | cons p r ih =>
    obtain ⟨a, b⟩ := p
    simp only [amap_cons, alookup_cons]
    by_cases h : a = k <;> simp [h, ih]

@[simp] theorem aerase_amap (g : β → γ) (l : List (α × β)) (k : α) :
    aerase (amap g l) k = amap g (aerase l k) := by
  unfold aerase amap
  rw [List.filter_map]
  rfl

@[simp] theorem aset_amap (g : β → γ) (l : List (α × β)) (k : α) (v : β) :
    aset (amap g l) k (g v) = amap g (aset l k v) := by
  unfold aset; simp

@[simp] theorem amap_length (g : β → γ) (l : List (α × β)) : (amap g l).length = l.length := by
  unfold amap; simp

theorem amap_amap {δ : Type} (g : β → γ) (h : γ → δ) (l : List (α × β)) : amap h (amap g l) = amap (h ∘ g) l := by
  unfold amap; simp [List.map_map, Function.comp_def]

theorem amap_dropLast (g : β → γ) (l : List (α × β)) : amap g l.dropLast = (amap g l).dropLast := by
  unfold amap; simp [List.map_dropLast]

end Assoc

namespace LRU
variable {κ ν ν' : Type} [DecidableEq κ]

def map (g : ν → ν') (l : LRU κ ν) : LRU κ ν' := ⟨l.cap, amap g l.items⟩

@[simp] theorem map_empty (g : ν → ν') (cap : Nat) : (LRU.empty cap : LRU κ ν).map g = LRU.empty cap := rfl

theorem get_map (g : ν → ν') (l : LRU κ ν) (k : κ) :
    (l.map g).get k = ((l.get k).1.map g, (l.get k).2.map g) := by
  unfold get map
  simp only [alookup_amap]
  cases h : alookup l.items k with
  | none => simp
  | some v => simp

theorem add_map (g : ν → ν') (l : LRU κ ν) (k : κ) (v : ν) :
    (l.map g).add k (g v) = ((l.add k v).1.map g, (l.add k v).2) := by
  unfold add map
  simp only [alookup_amap, amap_length]
  cases h : alookup l.items k with
  | some w => simp
  | none =>
    simp only [Option.map_none]
    by_cases hc : l.items.length + 1 > l.cap
    · simp only [hc, if_true]
      rw [← amap_cons, ← amap_dropLast]
    · simp only [hc, if_false]; simp

theorem containsOrAdd_map (g : ν → ν') (l : LRU κ ν) (k : κ) (v : ν) :
    (l.map g).containsOrAdd k (g v) = ((l.containsOrAdd k v).1.map g, (l.containsOrAdd k v).2) := by
  unfold containsOrAdd
  have : alookup (l.map g).items k = (alookup l.items k).map g := by unfold map; simp
  rw [this]
  cases h : alookup l.items k with
  | some w => simp
  | none => simp only [Option.map_none]; exact add_map g l k v

theorem map_map {ν'' : Type} (g : ν → ν') (h : ν' → ν'') (l : LRU κ ν) : (l.map g).map h = l.map (h ∘ g) := by
  unfold map; simp [amap_amap]

end LRU

variable {H K B V W : Type} [DecidableEq H] [DecidableEq K] [DecidableEq B]

def Entry.map (f : V → W) : Entry V → Entry W
  | .val v => .val (f v)
  | .tomb => .tomb

@[simp] theorem Entry.result_map (f : V → W) (e : Entry V) : (e.map f).result = e.result.map f := by
  cases e <;> rfl

theorem Entry.map_map {X : Type} (f : V → W) (g : W → X) (e : Entry V) : (e.map f).map g = e.map (g ∘ f) := by
  cases e <;> rfl

def SC.map (f : V → W) (sc : SC K B V) : SC K B W :=
  { capK := sc.capK, maxDepth := sc.maxDepth, cache := amap (LRU.map (Entry.map f)) sc.cache,
    links := sc.links, evictions := sc.evictions, entryEv := sc.entryEv }

def RPc.map (f : V → W) : RPc B V → RPc B W
  | .cache => .cache
  | .link c n => .link c n
  | .entry c n l => .entry c n l
  | .memo e => .memo (e.map f)
  | .done r => .done (r.map f)

def Reader.map (f : V → W) (r : Reader K B V) : Reader K B W := ⟨r.key, r.blk, r.pc.map f⟩

theorem Reader.stepSC_map (f : V → W) (sc : SC K B V) (r : Reader K B V) :
    (r.map f).stepSC (sc.map f) = (r.stepSC sc).map f := by
  unfold Reader.stepSC Reader.map SC.map
  cases hpc : r.pc with
  | cache => rfl
  | link c n => rfl
  | entry c n l =>
    simp only [RPc.map, alookup_amap]
    cases hm : alookup sc.cache r.key with
    | none => rfl
    | some m =>
      simp only [Option.map_some, LRU.get_map]
      rw [← aset_amap]
  | memo e =>
    simp only [RPc.map, alookup_amap]
    cases hm : alookup sc.cache r.key with
    | none => rfl
    | some m =>
      simp only [Option.map_some, LRU.containsOrAdd_map]
      rw [← aset_amap]
  | done v => rfl

theorem Reader.stepPc_map (f : V → W) (sc : SC K B V) (r : Reader K B V) :
    (r.map f).stepPc (sc.map f) = (r.stepPc sc).map f := by
  unfold Reader.stepPc Reader.map SC.map
  cases hpc : r.pc with
  | cache =>
    simp only [RPc.map, alookup_amap]
    cases alookup sc.cache r.key <;> rfl
  | link c n => rfl
  | entry c n l =>
    simp only [RPc.map, alookup_amap]
    cases hm : alookup sc.cache r.key with
    | none => rfl
    | some m =>
      simp only [Option.map_some, LRU.get_map]
      cases (m.get c).2 with
      | some e =>
        simp only [Option.map_some]
        by_cases hcb : c = r.blk <;> simp [hcb, RPc.map]
      | none =>
        simp only [Option.map_none]
        cases l with
        | none => rfl
        | some p => simp only; split <;> rfl
  | memo e => simp [RPc.map]
  | done v => rfl

theorem Reader.map_pc_done (f : V → W) (r : Reader K B V) :
    (∃ v, (r.map f).pc = .done v) ↔ ∃ v, r.pc = .done v := by
  unfold Reader.map
  cases r.pc <;> simp [RPc.map]

theorem Reader.run_map (f : V → W) (n : Nat) (sc : SC K B V) (r : Reader K B V) :
    Reader.run n (sc.map f) (r.map f) = ((Reader.run n sc r).1.map f, (Reader.run n sc r).2.map f) := by
  induction n generalizing sc r with
  | zero => rfl
  | succ n ih =>
    by_cases hd : ∃ v, r.pc = .done v
    · obtain ⟨v, hv⟩ := hd
      obtain ⟨w, hw⟩ := (Reader.map_pc_done f r).mpr ⟨v, hv⟩
      rw [Reader.run_of_done _ _ _ hv, Reader.run_of_done _ _ _ hw]
    · have hnd : ∀ v, r.pc ≠ .done v := fun v hv => hd ⟨v, hv⟩
      have hnd' : ∀ v, (r.map f).pc ≠ .done v := fun v hv => hd ((Reader.map_pc_done f r).mp ⟨v, hv⟩)
      rw [Reader.run_succ _ _ _ hnd, Reader.run_succ _ _ _ hnd']
      have : ({ r.map f with pc := (r.map f).stepPc (sc.map f) } : Reader K B W)
          = ({ r with pc := r.stepPc sc } : Reader K B V).map f := by
        rw [Reader.stepPc_map]; rfl
      rw [Reader.stepSC_map, this]
      exact ih _ _

theorem SC.get_map (f : V → W) (sc : SC K B V) (k : K) (b : B) :
    (sc.map f).get k b = ((sc.get k b).1.map f, (sc.get k b).2.map f) := by
  unfold SC.get
  have : (Reader.init k b : Reader K B W) = (Reader.init k b : Reader K B V).map f := rfl
  have hmd : (sc.map f).maxDepth = sc.maxDepth := rfl
  simp only [hmd, this, Reader.run_map]
  congr 1
  unfold Reader.result Reader.map
  cases (Reader.run (2 * sc.maxDepth + 4) sc (Reader.init k b)).2.pc <;> rfl

/-! ### the committer -/

def CPc.map (f : V → W) : CPc K B V → CPc K B W
  | .start => .start
  | .linkcheck => .linkcheck
  | .keyGet t => .keyGet (amap (Entry.map f) t)
  | .keyAdd fr t => .keyAdd fr (amap (Entry.map f) t)
  | .keyPut fr t => .keyPut (fr.map (LRU.map (Entry.map f))) (amap (Entry.map f) t)
  | .publish => .publish
  | .done b => .done b

def Committer.map (f : V → W) (c : Committer K B V) : Committer K B W :=
  ⟨c.hash, c.prev, amap (Entry.map f) c.writes, c.pc.map f⟩

theorem CPc.next_map (f : V → W) (t : List (K × Entry V)) :
    (CPc.next (amap (Entry.map f) t) : CPc K B W) = (CPc.next t : CPc K B V).map f := by
  cases t with
  | nil => rfl
  | cons a t => obtain ⟨k, e⟩ := a; rfl

theorem Committer.stepSC_map (f : V → W) (sc : SC K B V) (c : Committer K B V) :
    (c.map f).stepSC (sc.map f) = (c.stepSC sc).map f := by
  unfold Committer.map
  cases hpc : c.pc with
  | start => unfold Committer.stepSC; simp [CPc.map, hpc] <;> rfl
  | linkcheck => unfold Committer.stepSC; simp [CPc.map, hpc] <;> rfl
  | keyGet t => unfold Committer.stepSC; simp [CPc.map, hpc] <;> rfl
  | publish => unfold Committer.stepSC; simp [CPc.map, hpc] <;> rfl
  | done b => unfold Committer.stepSC; simp [CPc.map, hpc] <;> rfl
  | keyAdd fr t =>
    cases t with
    | nil => unfold Committer.stepSC; simp [CPc.map, hpc] <;> (cases fr <;> rfl)
    | cons a t =>
      obtain ⟨k, e⟩ := a
      cases fr with
      | true =>
        unfold Committer.stepSC
        simp only [CPc.map, hpc, amap_cons]
        have := LRU.add_map (κ := B) (Entry.map f) (LRU.empty sc.capK) c.hash e
        simp only [LRU.map_empty] at this
        unfold SC.map
        simp only [this]
      | false =>
        unfold Committer.stepSC
        simp only [CPc.map, hpc, amap_cons]
        unfold SC.map
        simp only [alookup_amap]
        cases hm : alookup sc.cache k with
        | none => rfl
        | some m =>
          simp only [Option.map_some, LRU.add_map]
          rw [← aset_amap]
  | keyPut fr t =>
    cases t with
    | nil => unfold Committer.stepSC; simp [CPc.map, hpc] <;> (cases fr <;> rfl)
    | cons a t =>
      obtain ⟨k, e⟩ := a
      cases fr with
      | none => unfold Committer.stepSC; simp [CPc.map, hpc] <;> rfl
      | some m =>
        unfold Committer.stepSC
        simp only [CPc.map, hpc, amap_cons, Option.map_some]
        unfold SC.map
        simp only
        rw [← aset_amap]

theorem Committer.stepPc_map (f : V → W) (sc : SC K B V) (c : Committer K B V) :
    (c.map f).stepPc (sc.map f) = (c.stepPc sc).map f := by
  unfold Committer.map
  cases hpc : c.pc with
  | start => unfold Committer.stepPc; simp [CPc.map, hpc]
  | linkcheck =>
    unfold Committer.stepPc; simp only [CPc.map, hpc]
    have : (sc.map f).links = sc.links := rfl
    rw [this]
    cases (sc.links.get c.hash).2 with
    | some _ => rfl
    | none => exact CPc.next_map f c.writes
  | keyGet t =>
    cases t with
    | nil => unfold Committer.stepPc; simp [CPc.map, hpc]
    | cons a t =>
      obtain ⟨k, e⟩ := a
      unfold Committer.stepPc; simp only [CPc.map, hpc, amap_cons]
      unfold SC.map; simp only [alookup_amap]
      cases alookup sc.cache k <;> rfl
  | keyAdd fr t =>
    cases t with
    | nil => unfold Committer.stepPc; simp [CPc.map, hpc]
    | cons a t =>
      obtain ⟨k, e⟩ := a
      cases fr with
      | true =>
        unfold Committer.stepPc; simp only [CPc.map, hpc, amap_cons]
        have := LRU.add_map (κ := B) (Entry.map f) (LRU.empty sc.capK) c.hash e
        simp only [LRU.map_empty] at this
        have hc : (sc.map f).capK = sc.capK := rfl
        rw [hc, this]; rfl
      | false => unfold Committer.stepPc; simp [CPc.map, hpc]
  | keyPut fr t =>
    cases t with
    | nil => unfold Committer.stepPc; simp [CPc.map, hpc]
    | cons a t =>
      obtain ⟨k, e⟩ := a
      unfold Committer.stepPc; simp only [CPc.map, hpc, amap_cons]
      exact CPc.next_map f t
  | publish => unfold Committer.stepPc; simp [CPc.map, hpc]
  | done b => unfold Committer.stepPc; simp [CPc.map, hpc]

theorem Committer.map_pc_done (f : V → W) (c : Committer K B V) :
    (∃ b, (c.map f).pc = .done b) ↔ ∃ b, c.pc = .done b := by
  unfold Committer.map
  cases c.pc <;> simp [CPc.map]

theorem Committer.run_of_done' (n : Nat) (sc : SC K B V) (c : Committer K B V) {b : Bool} (h : c.pc = .done b) :
    Committer.run n sc c = (sc, c) := by
  cases n with
  | zero => rfl
  | succ n => unfold Committer.run; rw [h]

theorem Committer.run_succ' (n : Nat) (sc : SC K B V) (c : Committer K B V) (h : ∀ b, c.pc ≠ .done b) :
    Committer.run (n + 1) sc c = Committer.run n (c.stepSC sc) { c with pc := c.stepPc sc } := by
  conv => lhs; unfold Committer.run
  split
  · rename_i b hb; exact absurd hb (h b)
  · rfl

theorem Committer.run_map (f : V → W) (n : Nat) (sc : SC K B V) (c : Committer K B V) :
    Committer.run n (sc.map f) (c.map f) = ((Committer.run n sc c).1.map f, (Committer.run n sc c).2.map f) := by
  induction n generalizing sc c with
  | zero => rfl
  | succ n ih =>
    by_cases hd : ∃ b, c.pc = .done b
    · obtain ⟨b, hb⟩ := hd
      obtain ⟨w, hw⟩ := (Committer.map_pc_done f c).mpr ⟨b, hb⟩
      rw [Committer.run_of_done' _ _ _ hb, Committer.run_of_done' _ _ _ hw]
    · have hnd : ∀ b, c.pc ≠ .done b := fun b hb => hd ⟨b, hb⟩
      have hnd' : ∀ b, (c.map f).pc ≠ .done b := fun b hb => hd ((Committer.map_pc_done f c).mp ⟨b, hb⟩)
      rw [Committer.run_succ' _ _ _ hnd, Committer.run_succ' _ _ _ hnd']
      have : ({ c.map f with pc := (c.map f).stepPc (sc.map f) } : Committer K B W)
          = ({ c with pc := c.stepPc sc } : Committer K B V).map f := by
        rw [Committer.stepPc_map]; rfl
      rw [Committer.stepSC_map, this]
      exact ih _ _

theorem SC.commit_map (f : V → W) (sc : SC K B V) (hash prev : B) (writes : List (K × Entry V)) :
    (sc.map f).commit hash prev (amap (Entry.map f) writes)
      = ((sc.commit hash prev writes).1.map f, (sc.commit hash prev writes).2) := by
  unfold SC.commit
  have : (⟨hash, prev, amap (Entry.map f) writes, .linkcheck⟩ : Committer K B W)
      = (⟨hash, prev, writes, .linkcheck⟩ : Committer K B V).map f := rfl
  simp only [amap_length, this, Committer.run_map]
  congr 1
  unfold Committer.map
  cases (Committer.run (3 * writes.length + 5) sc ⟨hash, prev, writes, .linkcheck⟩).2.pc with
  | done b => cases b <;> rfl
  | _ => rfl

/-! ### layers -/

def BC.map (f : V → W) (bc : BC K B V) : BC K B W := ⟨bc.hash, bc.prev, amap (Entry.map f) bc.cache, bc.committed⟩

def TC.map (f : V → W) (tc : TC H K B V) : TC H K B W := ⟨tc.main, amap (Entry.map f) tc.cache⟩

def Sys.map (f : V → W) (s : Sys H K B V) : Sys H K B W :=
  ⟨s.sc.map f, amap (BC.map f) s.bcs, amap (TC.map f) s.tcs⟩

def Op.map (f : V → W) : Op H K B V → Op H K B W
  | .blk h a b => .blk h a b
  | .bhash h a => .bhash h a
  | .txn t h => .txn t h
  | .qtxn t b => .qtxn t b
  | .tset t k v => .tset t k (f v)
  | .trem t k => .trem t k
  | .tget t k => .tget t k
  | .tcommit t => .tcommit t
  | .bset h k v => .bset h k (f v)
  | .bget h k => .bget h k
  | .bcommit h => .bcommit h
  | .qget b k => .qget b k
  | .sget k b => .sget k b
  | .srem k => .srem k

def Out.map (f : V → W) : Out V → Out W
  | .ok => .ok
  | .hit v => .hit (f v)
  | .miss => .miss
  | .panic => .panic
  | .bad => .bad

theorem Out.ofOption_map (f : V → W) (r : Option V) : Out.ofOption (r.map f) = (Out.ofOption r).map f := by
  cases r <;> rfl

theorem BC.get_map (f : V → W) (sc : SC K B V) (bc : BC K B V) (k : K) :
    (bc.map f).get (sc.map f) k = ((bc.get sc k).1.map f, (bc.get sc k).2.map f) := by
  unfold BC.get BC.map
  simp only [alookup_amap]
  cases alookup bc.cache k with
  | some e => simp
  | none => simp only [Option.map_none]; exact SC.get_map f sc k bc.base

theorem BC.commit_map (f : V → W) (sc : SC K B V) (bc : BC K B V) :
    (bc.map f).commit (sc.map f) = ((bc.commit sc).1.map f, (bc.commit sc).2.map f) := by
  unfold BC.commit BC.map
  simp only [SC.commit_map]
  cases (sc.commit bc.hash bc.prev bc.cache).2 <;> rfl

theorem foldl_setValue_map (f : V → W) (l : List (K × Entry V)) (bc : BC K B V) :
    (amap (Entry.map f) l).foldl (fun b p => b.setValue p.1 p.2) (bc.map f)
      = (l.foldl (fun b p => b.setValue p.1 p.2) bc).map f := by
  induction l generalizing bc with
  | nil => rfl
  | cons p r ih =>
    obtain ⟨k, e⟩ := p
    simp only [amap_cons, List.foldl_cons]
    have : (bc.map f).setValue k (e.map f) = (bc.setValue k e).map f := by
      unfold BC.setValue BC.map; simp only; rw [← aset_amap]
    rw [this]; exact ih _

theorem Sys.step_map (f : V → W) (s : Sys H K B V) (op : Op H K B V) :
    (s.map f).step (op.map f) = (((s.step op).1).map f, ((s.step op).2).map f) := by
  cases op with
  | blk h a b =>
    simp only [Sys.step, Op.map, Sys.map, Out.map]
    have : (⟨a, b, [], false⟩ : BC K B W) = (⟨a, b, [], false⟩ : BC K B V).map f := rfl
    rw [this, aset_amap]
  | bhash h a =>
    simp only [Sys.step, Op.map, Sys.map, alookup_amap]
    cases hb : alookup s.bcs h with
    | none => rfl
    | some bc =>
      simp only [Option.map_some, Out.map]
      have : ({ bc.map f with hash := a } : BC K B W) = ({ bc with hash := a } : BC K B V).map f := rfl
      rw [this, aset_amap]
  | txn t h =>
    simp only [Sys.step, Op.map, Sys.map, alookup_amap]
    cases hb : alookup s.bcs h with
    | none => rfl
    | some bc =>
      simp only [Option.map_some, Out.map]
      have : (⟨.block h, []⟩ : TC H K B W) = (⟨.block h, []⟩ : TC H K B V).map f := rfl
      rw [this, aset_amap]
  | qtxn t b =>
    simp only [Sys.step, Op.map, Sys.map, Out.map]
    have : (⟨.query b, []⟩ : TC H K B W) = (⟨.query b, []⟩ : TC H K B V).map f := rfl
    rw [this, aset_amap]
  | tset t k v =>
    simp only [Sys.step, Op.map, Sys.map, alookup_amap]
    cases ht : alookup s.tcs t with
    | none => rfl
    | some tc =>
      simp only [Option.map_some, Out.map]
      have : ({ tc.map f with cache := aset (tc.map f).cache k (.val (f v)) } : TC H K B W)
          = ({ tc with cache := aset tc.cache k (.val v) } : TC H K B V).map f := by
        unfold TC.map; simp only
        have : (Entry.val (f v) : Entry W) = (Entry.val v).map f := rfl
        rw [this, aset_amap]
      rw [this, aset_amap]
  | trem t k =>
    simp only [Sys.step, Op.map, Sys.map, alookup_amap]
    cases ht : alookup s.tcs t with
    | none => rfl
    | some tc =>
      simp only [Option.map_some, Out.map]
      have : ({ tc.map f with cache := aset (tc.map f).cache k .tomb } : TC H K B W)
          = ({ tc with cache := aset tc.cache k .tomb } : TC H K B V).map f := by
        unfold TC.map; simp only
        have : (Entry.tomb : Entry W) = (Entry.tomb : Entry V).map f := rfl
        rw [this, aset_amap]
      rw [this, aset_amap]
  | tget t k =>
    simp only [Sys.step, Op.map, Sys.map, alookup_amap]
    cases ht : alookup s.tcs t with
    | none => rfl
    | some tc =>
      simp only [Option.map_some, TC.map, alookup_amap]
      cases he : alookup tc.cache k with
      | some e => simp only [Option.map_some, Entry.result_map, Out.ofOption_map]
      | none =>
        simp only [Option.map_none]
        cases hm : tc.main with
        | block h =>
          simp only [alookup_amap]
          cases hb : alookup s.bcs h with
          | none => rfl
          | some bc =>
            simp only [Option.map_some, BC.get_map, Out.ofOption_map]

        | query b =>
          simp only [SC.get_map, Out.ofOption_map]

  | tcommit t =>
    simp only [Sys.step, Op.map, Sys.map, alookup_amap]
    cases ht : alookup s.tcs t with
    | none => rfl
    | some tc =>
      simp only [Option.map_some, TC.map]
      cases hm : tc.main with
      | block h =>
        simp only [alookup_amap]
        cases hb : alookup s.bcs h with
        | none => rfl
        | some bc =>
          simp only [Option.map_some, foldl_setValue_map, Out.map]
          have : (⟨Main.block h, []⟩ : TC H K B W) = (⟨Main.block h, []⟩ : TC H K B V).map f := rfl
          rw [this, aset_amap, aset_amap]
      | query b =>
        simp only
        cases tc.cache with
        | nil => rfl
        | cons a r => obtain ⟨k, e⟩ := a; rfl
  | bset h k v =>
    simp only [Sys.step, Op.map, Sys.map, alookup_amap]
    cases hb : alookup s.bcs h with
    | none => rfl
    | some bc =>
      simp only [Option.map_some, Out.map]
      have : (bc.map f).set k (f v) = (bc.set k v).map f := by
        unfold BC.set BC.map; simp only
        have : (Entry.val (f v) : Entry W) = (Entry.val v).map f := rfl
        rw [this, aset_amap]
      rw [this, aset_amap]
  | bget h k =>
    simp only [Sys.step, Op.map, Sys.map, alookup_amap]
    cases hb : alookup s.bcs h with
    | none => rfl
    | some bc =>
      simp only [Option.map_some, BC.get_map, Out.ofOption_map]

  | bcommit h =>
    simp only [Sys.step, Op.map, Sys.map, alookup_amap]
    cases hb : alookup s.bcs h with
    | none => rfl
    | some bc =>
      simp only [Option.map_some, BC.commit_map, Out.map]
      rw [aset_amap]
  | qget b k => simp only [Sys.step, Op.map, Sys.map, SC.get_map, Out.ofOption_map]
  | sget k b => simp only [Sys.step, Op.map, Sys.map, SC.get_map, Out.ofOption_map]
  | srem k =>
    simp only [Sys.step, Op.map, Sys.map, Out.map]
    have : (s.sc.map f).remove k = (s.sc.remove k).map f := by
      unfold SC.remove SC.map
      simp only [alookup_amap]
      cases alookup s.sc.cache k with
      | none => rfl
      | some m => simp only [Option.map_some]; rw [aerase_amap]
    rw [this]

/-! ### maps compose -/

theorem SC.map_map {X : Type} (f : V → W) (g : W → X) (sc : SC K B V) : (sc.map f).map g = sc.map (g ∘ f) := by
  unfold SC.map
  simp only [amap_amap]
  congr 1
  unfold amap
  apply List.map_congr_left
  intro p _
  simp only [Function.comp, LRU.map_map]
  congr 2
  funext e
  exact Entry.map_map f g e

theorem Sys.map_map {X : Type} (f : V → W) (g : W → X) (s : Sys H K B V) : (s.map f).map g = s.map (g ∘ f) := by
  have hE : (Entry.map g ∘ Entry.map f : Entry V → Entry X) = Entry.map (g ∘ f) := by
    funext e; exact Entry.map_map f g e
  unfold Sys.map
  simp only [SC.map_map, amap_amap]
  congr 1
  · unfold amap
    apply List.map_congr_left
    intro p _
    simp only [Function.comp, BC.map, amap_amap, hE]
  · unfold amap
    apply List.map_congr_left
    intro p _
    simp only [Function.comp, TC.map, amap_amap, hE]

end Verif.SC
