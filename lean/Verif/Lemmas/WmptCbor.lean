/-
Round trip of the CBOR layer of the weighted trie (`Verif.Model.WmptCbor`, the model of fxamacker/cbor for the persisted
structs of `core/util/wmpt/type.go`): what the encoder writes, the decoder reads back unchanged.

Main results (the only hypotheses are that every length / weight fits the 64-bit CBOR argument):
  * `decHead_head`     : the initial byte + argument written by `head` is read back by `decHead` (all five widths);
  * `decBase_encBase`  : `decBase (encBase p) = some p` for every `PBase` with `PBaseWF p` — any subset of the five optional
                         fields, nil child entries (CBOR null), the empty-map `nilNode` marker;
                         `decBase_encBase_branch / _value / _short / _nil / _hash` are the five honest single-kind shapes;
  * `decItem_encBase`  : the fuel-explicit form: `decItem` with any fuel ≥ encoded length + 3 reads `encBase p` followed by
                         arbitrary bytes, leaves exactly those bytes, and `asBase` of the item is `p`;
  * `decTrie_encTrie`  : `decTrie (encTrie ps) = some (ps.map some)` (`ps = []` is `arr [null]` and decodes to `[]`).

Method: `Dec d e i` = "the non-empty bytes `e` decode to item `i` with any fuel ≥ d, whatever follows"; `DecL d es is` is
the same for a run of consecutive items inside `decItems`, in continuation form so that runs compose (`DecL.cons`,
`DecL.append`). `decItems` burns one unit of fuel per sibling and `decItem` one per nesting level, so the fuel needed is
the encoded length plus the nesting depth; `decTop` supplies `2 * length + 2`, which always covers it.
-/
import Verif.Model.WmptCbor
namespace Verif.Wmpt.Cbor
open Verif.Wmpt

theorem beN1 (n : Nat) : beN 1 n = [UInt8.ofNat (n % 256)] := by
  simp [beN, List.range, List.range.loop]
theorem beN2 (n : Nat) : beN 2 n = [UInt8.ofNat ((n >>> 8) % 256), UInt8.ofNat (n % 256)] := by
  simp [beN, List.range, List.range.loop]
theorem beN4 (n : Nat) : beN 4 n = [UInt8.ofNat ((n >>> 24) % 256), UInt8.ofNat ((n >>> 16) % 256),
    UInt8.ofNat ((n >>> 8) % 256), UInt8.ofNat (n % 256)] := by
  simp [beN, List.range, List.range.loop]
theorem beN8 (n : Nat) : beN 8 n = [UInt8.ofNat ((n >>> 56) % 256), UInt8.ofNat ((n >>> 48) % 256),
    UInt8.ofNat ((n >>> 40) % 256), UInt8.ofNat ((n >>> 32) % 256),
    UInt8.ofNat ((n >>> 24) % 256), UInt8.ofNat ((n >>> 16) % 256),
    UInt8.ofNat ((n >>> 8) % 256), UInt8.ofNat (n % 256)] := by
  simp [beN, List.range, List.range.loop]

theorem length_beN (k n : Nat) : (beN k n).length = k := by simp [beN]

theorem natOfBytes_beN1 (n : Nat) (h : n < 256) : natOfBytes (beN 1 n) = n := by
  simp [beN1, natOfBytes]; omega
theorem natOfBytes_beN2 (n : Nat) (h : n < 65536) : natOfBytes (beN 2 n) = n := by
  simp [beN2, natOfBytes, Nat.shiftRight_eq_div_pow]; omega
theorem natOfBytes_beN4 (n : Nat) (h : n < 4294967296) : natOfBytes (beN 4 n) = n := by
  simp [beN4, natOfBytes, Nat.shiftRight_eq_div_pow]; omega
theorem natOfBytes_beN8 (n : Nat) (h : n < 2^64) : natOfBytes (beN 8 n) = n := by
  simp [beN8, natOfBytes, Nat.shiftRight_eq_div_pow]; omega

theorem decHead_ext (m a k n : Nat) (rest : Bytes) (hm : m < 8) (ha : 24 ≤ a) (ha' : a < 32)
    (hk : k = (if a = 24 then 1 else if a = 25 then 2 else if a = 26 then 4 else if a = 27 then 8 else 0))
    (hk0 : k ≠ 0) (hn : natOfBytes (beN k n) = n) :
    decHead (UInt8.ofNat (m * 32 + a) :: (beN k n ++ rest)) = some (m, n, rest) := by
  have h1 : (UInt8.ofNat (m * 32 + a)).toNat = m * 32 + a := by
    simp; omega
  have hd : (m * 32 + a) / 32 = m := by omega
  have hmod : (m * 32 + a) % 32 = a := by omega
  simp only [decHead, h1, hd, hmod]
  rw [if_neg (by omega), ← hk, if_neg hk0]
  have hl : ¬ (beN k n ++ rest).length < k := by simp [length_beN]
  rw [if_neg hl]
  have : List.take k (beN k n ++ rest) = beN k n := by
    rw [List.take_append_of_le_length (by simp [length_beN])]; simp [List.take_of_length_le, length_beN]
  have h2 : List.drop k (beN k n ++ rest) = rest := by
    rw [List.drop_append_of_le_length (by simp [length_beN])]; simp [List.drop_of_length_le, length_beN]
  rw [this, h2, hn]

theorem decHead_head (m n : Nat) (rest : Bytes) (hm : m < 8) (hn : n < 2^64) :
    decHead (head m n ++ rest) = some (m, n, rest) := by
  unfold head
  split
  · rename_i h
    have h1 : (UInt8.ofNat (m * 32 + n)).toNat = m * 32 + n := by simp; omega
    have hd : (m * 32 + n) / 32 = m := by omega
    have hmod : (m * 32 + n) % 32 = n := by omega
    simp only [List.cons_append, List.nil_append, decHead, h1, hd, hmod, if_pos h]
  · split
    · exact decHead_ext m 24 1 n rest hm (by omega) (by omega) (by simp) (by simp) (natOfBytes_beN1 n (by omega))
    · split
      · exact decHead_ext m 25 2 n rest hm (by omega) (by omega) (by simp) (by simp) (natOfBytes_beN2 n (by omega))
      · split
        · exact decHead_ext m 26 4 n rest hm (by omega) (by omega) (by simp) (by simp) (natOfBytes_beN4 n (by omega))
        · exact decHead_ext m 27 8 n rest hm (by omega) (by omega) (by simp) (by simp) (natOfBytes_beN8 n (by omega))

theorem head_length_pos (m n : Nat) : 1 ≤ (head m n).length := by
  unfold head; split <;> (try split) <;> (try split) <;> (try split) <;> simp

theorem length_head_le (m n : Nat) : (head m n).length ≤ 9 := by
  unfold head; split <;> (try split) <;> (try split) <;> (try split) <;> simp [length_beN]

def Dec (d : Nat) (e : Bytes) (i : Item) : Prop :=
  1 ≤ e.length ∧ ∀ fuel rest, d ≤ fuel → decItem fuel (e ++ rest) = some (i, rest)

def DecL (d : Nat) (es : List Bytes) (is : List Item) : Prop :=
  es.length ≤ es.flatten.length ∧ ∀ fuel m tail, d ≤ fuel → m ≤ tail.length →
    decItems fuel (es.length + m) (es.flatten ++ tail) =
      (decItems (fuel - es.length) m tail).map (fun lr => (is ++ lr.1, lr.2))

theorem Dec.mono {d d' e i} (h : Dec d e i) (hd : d ≤ d') : Dec d' e i :=
  ⟨h.1, fun fuel rest hf => h.2 fuel rest (by omega)⟩

theorem DecL.mono {d d' es is} (h : DecL d es is) (hd : d ≤ d') : DecL d' es is :=
  ⟨h.1, fun fuel m tail hf hm => h.2 fuel m tail (by omega) hm⟩

theorem dec_uint (n : Nat) (hn : n < 2^64) : Dec 1 (uint n) (.uint n) := by
  refine ⟨head_length_pos 0 n, fun fuel rest hf => ?_⟩
  obtain ⟨f, rfl⟩ : ∃ f, fuel = f + 1 := ⟨fuel - 1, by omega⟩
  simp [decItem, uint, decHead_head 0 n rest (by omega) hn]

theorem dec_bstr (b : Bytes) (hb : b.length < 2^64) : Dec 1 (bstr b) (.bstr b) := by
  refine ⟨by have := head_length_pos 2 b.length; simp [bstr]; omega, fun fuel rest hf => ?_⟩
  obtain ⟨f, rfl⟩ : ∃ f, fuel = f + 1 := ⟨fuel - 1, by omega⟩
  simp [decItem, bstr, List.append_assoc, decHead_head 2 b.length (b ++ rest) (by omega) hb]

theorem dec_null : Dec 1 null (.simple 22) := by
  refine ⟨by simp [null], fun fuel rest hf => ?_⟩
  obtain ⟨f, rfl⟩ : ∃ f, fuel = f + 1 := ⟨fuel - 1, by omega⟩
  simp [decItem, null, decHead]


theorem DecL.nil : DecL 0 [] [] := by
  refine ⟨by simp, fun fuel m tail _ _ => ?_⟩
  cases h : decItems fuel m tail <;> simp [h]

theorem DecL.cons {d1 d2 e i es is} (h1 : Dec d1 e i) (h2 : DecL d2 es is) :
    DecL (max d1 d2 + 1) (e :: es) (i :: is) := by
  refine ⟨by have := h1.1; have := h2.1; simp only [List.length_cons, List.flatten_cons, List.length_append]; omega,
    fun fuel m tail hf hm => ?_⟩
  obtain ⟨f, rfl⟩ : ∃ f, fuel = f + 1 := ⟨fuel - 1, by omega⟩
  have hlen : ¬ (e ++ (es.flatten ++ tail)).length < es.length + m + 1 := by
    have := h1.1; have := h2.1; simp only [List.length_append]; omega
  have e1 : (e :: es).length + m = (es.length + m) + 1 := by simp; omega
  have e2 : f + 1 - (e :: es).length = f - es.length := by simp
  rw [e1, e2, List.flatten_cons, List.append_assoc, decItems, if_neg hlen,
    h1.2 f (es.flatten ++ tail) (by omega)]
  simp only
  rw [h2.2 f m tail (by omega) hm]
  cases decItems (f - es.length) m tail <;> simp

theorem DecL.append {d1 d2 es1 is1 es2 is2} (h1 : DecL d1 es1 is1) (h2 : DecL d2 es2 is2) :
    DecL (max d1 (d2 + es1.length)) (es1 ++ es2) (is1 ++ is2) := by
  refine ⟨by have := h1.1; have := h2.1; simp only [List.length_append, List.flatten_append]; omega,
    fun fuel m tail hf hm => ?_⟩
  have e1 : (es1 ++ es2).length + m = es1.length + (es2.length + m) := by simp; omega
  have e2 : fuel - (es1 ++ es2).length = fuel - es1.length - es2.length := by simp; omega
  rw [e1, e2, List.flatten_append, List.append_assoc,
    h1.2 fuel (es2.length + m) (es2.flatten ++ tail) (by omega) (by have := h2.1; simp only [List.length_append]; omega),
    h2.2 (fuel - es1.length) m tail (by omega) hm]
  cases decItems (fuel - es1.length - es2.length) m tail <;> simp

theorem DecL.run {d es is} (h : DecL d es is) (fuel : Nat) (rest : Bytes) (hf : d ≤ fuel) :
    decItems fuel es.length (es.flatten ++ rest) = some (is, rest) := by
  have := h.2 fuel 0 rest hf (by omega)
  simp only [Nat.add_zero] at this
  rw [this]
  cases h' : fuel - es.length <;> simp [decItems]

theorem dec_arr {d es is} (h : DecL d es is) (hn : es.length < 2^64) : Dec (d + 1) (arr es) (.arr is) := by
  refine ⟨by have := head_length_pos 4 es.length; simp [arr]; omega, fun fuel rest hf => ?_⟩
  obtain ⟨f, rfl⟩ : ∃ f, fuel = f + 1 := ⟨fuel - 1, by omega⟩
  simp [decItem, arr, List.append_assoc, decHead_head 4 es.length _ (by omega) hn, h.run f rest (by omega)]

theorem dec_map {d es is} (n : Nat) (h : DecL d es is) (hlen : es.length = 2 * n) (hn : n < 2^64) :
    Dec (d + 1) (head 5 n ++ es.flatten) (.map (pairUp is)) := by
  refine ⟨by have := head_length_pos 5 n; simp; omega, fun fuel rest hf => ?_⟩
  obtain ⟨f, rfl⟩ : ∃ f, fuel = f + 1 := ⟨fuel - 1, by omega⟩
  have := h.run f rest (by omega)
  rw [hlen] at this
  simp [decItem, List.append_assoc, decHead_head 5 n _ (by omega) hn, this]


/-! ### The persisted shapes -/

def childItem (c : Bytes) : Item := if c = [] then .simple 22 else .bstr c
def branchItem (b : PBranch) : Item := .arr [.bstr b.hash, .arr (b.children.map childItem)]
def valueItem (v : PValue) : Item := .arr [.bstr v.value, .bstr v.hash, .uint v.weight]
def shortItem (s : PShort) : Item := .arr [.bstr s.key, .bstr s.hash, .bstr s.value]
def hashItem (h : PHash) : Item := .arr [.bstr h.hash, .uint h.weight]

def PBranchWF (b : PBranch) : Prop :=
  b.hash.length < 2^64 ∧ b.children.length < 2^64 ∧ ∀ c ∈ b.children, c.length < 2^64
def PValueWF (v : PValue) : Prop := v.value.length < 2^64 ∧ v.hash.length < 2^64 ∧ v.weight < 2^64
def PShortWF (s : PShort) : Prop := s.key.length < 2^64 ∧ s.hash.length < 2^64 ∧ s.value.length < 2^64
def PHashWF (h : PHash) : Prop := h.hash.length < 2^64 ∧ h.weight < 2^64

/-- every length and weight of the structure fits the 64-bit CBOR argument -/
def PBaseWF (p : PBase) : Prop :=
  (∀ b, p.branch = some b → PBranchWF b) ∧ (∀ v, p.value = some v → PValueWF v) ∧
  (∀ s, p.short = some s → PShortWF s) ∧ (∀ h, p.hashNode = some h → PHashWF h)

theorem dec_child (c : Bytes) (hc : c.length < 2^64) : Dec 1 (childBstr c) (childItem c) := by
  unfold childBstr childItem
  split
  · exact dec_null
  · exact dec_bstr c hc

theorem decl_children (cs : List Bytes) (h : ∀ c ∈ cs, c.length < 2^64) :
    DecL (cs.length + 1) (cs.map childBstr) (cs.map childItem) := by
  induction cs with
  | nil => exact DecL.nil.mono (by omega)
  | cons c tl ih =>
    have h1 := dec_child c (h c (by simp))
    have h2 := ih (fun c hc => h c (by simp [hc]))
    exact (DecL.cons h1 h2).mono (by simp only [List.length_cons]; omega)

theorem arr_length (es : List Bytes) : (arr es).length = (head 4 es.length).length + es.flatten.length := by
  simp [arr]

theorem dec_branch (b : PBranch) (h : PBranchWF b) : Dec (b.children.length + 5) (encBranch b) (branchItem b) := by
  obtain ⟨hh, hn, hc⟩ := h
  have h1 := decl_children b.children hc
  have h2 := dec_arr h1 (by simpa using hn)
  have h3 := DecL.cons (dec_bstr b.hash hh) (DecL.cons h2 DecL.nil)
  exact (dec_arr h3 (by simp)).mono (by omega)

theorem dec_value (v : PValue) (h : PValueWF v) : Dec 5 (encValue v) (valueItem v) := by
  obtain ⟨h1, h2, h3⟩ := h
  have := DecL.cons (dec_bstr v.value h1) (DecL.cons (dec_bstr v.hash h2) (DecL.cons (dec_uint v.weight h3) DecL.nil))
  exact (dec_arr this (by simp)).mono (by omega)

theorem dec_short (s : PShort) (h : PShortWF s) : Dec 5 (encShort s) (shortItem s) := by
  obtain ⟨h1, h2, h3⟩ := h
  have := DecL.cons (dec_bstr s.key h1) (DecL.cons (dec_bstr s.hash h2) (DecL.cons (dec_bstr s.value h3) DecL.nil))
  exact (dec_arr this (by simp)).mono (by omega)

theorem dec_hash (x : PHash) (h : PHashWF x) : Dec 4 (encHash x) (hashItem x) := by
  obtain ⟨h1, h2⟩ := h
  have := DecL.cons (dec_bstr x.hash h1) (DecL.cons (dec_uint x.weight h2) DecL.nil)
  exact (dec_arr this (by simp)).mono (by omega)

theorem dec_emptyMap : Dec 1 [0xa0] (.map []) := by
  have := dec_map 0 DecL.nil (by simp) (by omega)
  simpa [head, pairUp] using this


theorem encBranch_length (b : PBranch) (h : PBranchWF b) : b.children.length + 3 ≤ (encBranch b).length := by
  have h1 := (decl_children b.children h.2.2).1
  have h2 := head_length_pos 4 (b.children.map childBstr).length
  have h3 := head_length_pos 4 [bstr b.hash, arr (b.children.map childBstr)].length
  have h4 := (dec_bstr b.hash h.1).1
  simp only [List.length_map] at h1
  simp only [encBranch, arr_length, List.flatten_cons, List.flatten_nil, List.length_append, List.append_nil]
  omega

theorem encValue_length (v : PValue) : 4 ≤ (encValue v).length := by
  have h1 := head_length_pos 4 (0 + 1 + 1 + 1)
  have h2 := head_length_pos 2 v.value.length
  have h3 := head_length_pos 2 v.hash.length
  have h4 := head_length_pos 0 v.weight
  simp only [encValue, arr_length, bstr, uint, List.flatten_cons, List.flatten_nil, List.length_append, List.append_nil,
    List.length_cons, List.length_nil]
  omega

theorem encShort_length (s : PShort) : 4 ≤ (encShort s).length := by
  have h1 := head_length_pos 4 (0 + 1 + 1 + 1)
  have h2 := head_length_pos 2 s.key.length
  have h3 := head_length_pos 2 s.hash.length
  have h4 := head_length_pos 2 s.value.length
  simp only [encShort, arr_length, bstr, List.flatten_cons, List.flatten_nil, List.length_append, List.append_nil,
    List.length_cons, List.length_nil]
  omega

theorem encHash_length (x : PHash) : 3 ≤ (encHash x).length := by
  have h1 := head_length_pos 4 (0 + 1 + 1)
  have h2 := head_length_pos 2 x.hash.length
  have h3 := head_length_pos 0 x.weight
  simp only [encHash, arr_length, bstr, uint, List.flatten_cons, List.flatten_nil, List.length_append, List.append_nil,
    List.length_cons, List.length_nil]
  omega

/-- a map entry (key, value) whose value needs fuel `d`, in "encoded length + 3" form -/
theorem decl_entry {d e i} (key : Nat) (hk : key < 2^64) (h : Dec d e i) (hs : d ≤ e.length + 2) :
    DecL ([uint key, e].flatten.length + 3) [uint key, e] [.uint key, i] := by
  have h1 := dec_uint key hk
  have := h1.1
  refine (DecL.cons h1 (DecL.cons h DecL.nil)).mono ?_
  simp only [List.flatten_cons, List.flatten_nil, List.length_append, List.append_nil]
  omega

theorem DecL.append_slack {c es1 is1 es2 is2} (h1 : DecL (es1.flatten.length + c) es1 is1)
    (h2 : DecL (es2.flatten.length + c) es2 is2) :
    DecL ((es1 ++ es2).flatten.length + c) (es1 ++ es2) (is1 ++ is2) := by
  refine (DecL.append h1 h2).mono ?_
  have := h1.1
  simp only [List.flatten_append, List.length_append]
  omega

def optEnc {α} (key : Nat) (enc : α → Bytes) : Option α → List Bytes
  | some a => [uint key, enc a]
  | none => []

def optItem {α} (key : Nat) (it : α → Item) : Option α → List Item
  | some a => [.uint key, it a]
  | none => []

theorem decl_opt {α} (key : Nat) (hk : key < 2^64) (enc : α → Bytes) (it : α → Item) (o : Option α)
    (h : ∀ a, o = some a → ∃ d, Dec d (enc a) (it a) ∧ d ≤ (enc a).length + 2) :
    DecL ((optEnc key enc o).flatten.length + 3) (optEnc key enc o) (optItem key it o) := by
  cases o with
  | none => exact DecL.nil.mono (by omega)
  | some a =>
    obtain ⟨d, hd, hs⟩ := h a rfl
    exact decl_entry key hk hd hs

def baseEnc (p : PBase) : List Bytes :=
  optEnc 10 encBranch p.branch ++ optEnc 11 encValue p.value ++ optEnc 12 encShort p.short
    ++ (if p.nilNode then [uint 13, [0xa0]] else []) ++ optEnc 14 encHash p.hashNode

def baseItems (p : PBase) : List Item :=
  optItem 10 branchItem p.branch ++ optItem 11 valueItem p.value ++ optItem 12 shortItem p.short
    ++ (if p.nilNode then [.uint 13, .map []] else []) ++ optItem 14 hashItem p.hashNode

theorem decl_base (p : PBase) (h : PBaseWF p) :
    DecL ((baseEnc p).flatten.length + 3) (baseEnc p) (baseItems p) := by
  obtain ⟨hb, hv, hs, hh⟩ := h
  unfold baseEnc baseItems
  refine DecL.append_slack (DecL.append_slack (DecL.append_slack (DecL.append_slack ?_ ?_) ?_) ?_) ?_
  · exact decl_opt 10 (by omega) _ _ _ (fun b e => ⟨_, dec_branch b (hb b e), by have := encBranch_length b (hb b e); omega⟩)
  · exact decl_opt 11 (by omega) _ _ _ (fun v e => ⟨_, dec_value v (hv v e), by have := encValue_length v; omega⟩)
  · exact decl_opt 12 (by omega) _ _ _ (fun s e => ⟨_, dec_short s (hs s e), by have := encShort_length s; omega⟩)
  · split
    · exact decl_entry 13 (by omega) dec_emptyMap (by simp)
    · exact DecL.nil.mono (by omega)
  · exact decl_opt 14 (by omega) _ _ _ (fun x e => ⟨_, dec_hash x (hh x e), by have := encHash_length x; omega⟩)

def nEntries (p : PBase) : Nat :=
  (if p.branch.isSome then 1 else 0) + (if p.value.isSome then 1 else 0) + (if p.short.isSome then 1 else 0)
    + (if p.nilNode then 1 else 0) + (if p.hashNode.isSome then 1 else 0)

theorem encBase_eq (p : PBase) :
    encBase p = head 5 (nEntries p) ++ (baseEnc p).flatten ∧ (baseEnc p).length = 2 * nEntries p := by
  obtain ⟨b, v, s, n, h⟩ := p
  cases b <;> cases v <;> cases s <;> cases n <;> cases h <;>
    simp [encBase, baseEnc, nEntries, optEntry, optEnc]


theorem asBytes_childItem (c : Bytes) : asBytes (childItem c) = some c := by
  unfold childItem
  split
  · subst_vars; rfl
  · rfl

theorem mapM_children (cs : List Bytes) : (cs.map childItem).mapM asBytes = some cs := by
  induction cs with
  | nil => rfl
  | cons c tl ih => simp [List.mapM_cons, asBytes_childItem, ih]

@[simp] theorem asBranch_branchItem (b : PBranch) : asBranch (branchItem b) = some b := by
  simp only [asBranch, branchItem, asBytes, asBytesList, mapM_children]
  rfl
@[simp] theorem asValue_valueItem (v : PValue) : asValue (valueItem v) = some v := by
  simp [asValue, valueItem, asBytes, asNat]
@[simp] theorem asShort_shortItem (s : PShort) : asShort (shortItem s) = some s := by
  simp [asShort, shortItem, asBytes]
@[simp] theorem asHash_hashItem (x : PHash) : asHash (hashItem x) = some x := by
  simp [asHash, hashItem, asBytes, asNat]
@[simp] theorem isNull_map (l : List (Item × Item)) : isNull (.map l) = false := rfl
@[simp] theorem isNull_branchItem (b : PBranch) : isNull (branchItem b) = false := rfl
@[simp] theorem isNull_valueItem (v : PValue) : isNull (valueItem v) = false := rfl
@[simp] theorem isNull_shortItem (s : PShort) : isNull (shortItem s) = false := rfl
@[simp] theorem isNull_hashItem (x : PHash) : isNull (hashItem x) = false := rfl

theorem asBase_baseItems (p : PBase) : asBase (.map (pairUp (baseItems p))) = some p := by
  obtain ⟨b, v, s, n, h⟩ := p
  cases b <;> cases v <;> cases s <;> cases n <;> cases h <;>
    simp [asBase, baseItems, optItem, pairUp, baseEntry]


theorem dec_base (p : PBase) (h : PBaseWF p) :
    Dec ((baseEnc p).flatten.length + 4) (encBase p) (.map (pairUp (baseItems p))) := by
  obtain ⟨e1, e2⟩ := encBase_eq p
  rw [e1]
  have hn : nEntries p < 2^64 := by
    have : nEntries p ≤ 5 := by unfold nEntries; (repeat' split) <;> omega
    omega
  exact dec_map (nEntries p) (decl_base p h) e2 hn

theorem encBase_length (p : PBase) : (baseEnc p).flatten.length + 1 ≤ (encBase p).length := by
  rw [(encBase_eq p).1]
  have := head_length_pos 5 (nEntries p)
  simp only [List.length_append]; omega

/-- the decoder core on an encoded node: any fuel of at least the encoded length + 3 is enough, whatever follows -/
theorem decItem_encBase (p : PBase) (h : PBaseWF p) (fuel : Nat) (rest : Bytes)
    (hf : (encBase p).length + 3 ≤ fuel) :
    ∃ it, decItem fuel (encBase p ++ rest) = some (it, rest) ∧ asBase it = some p :=
  ⟨_, (dec_base p h).2 fuel rest (by have := encBase_length p; omega), asBase_baseItems p⟩

theorem decTop_of_dec {d e i} (h : Dec d e i) (hd : d ≤ 2 * e.length + 2) : decTop e = some i := by
  have := h.2 (2 * e.length + 2) [] hd
  rw [List.append_nil] at this
  simp [decTop, this]

/-- round trip of `PersistNodeBase` through the CBOR layer -/
theorem decBase_encBase (p : PBase) (h : PBaseWF p) : decBase (encBase p) = some p := by
  have h1 := dec_base p h
  have := decTop_of_dec h1 (by have := encBase_length p; omega)
  simp [decBase, this, asBase_baseItems]


/-! ### `PersistTrie` -/

def pairItem (v : Bytes) : Item := .arr [.bstr v]

theorem dec_pair (v : Bytes) (hv : v.length < 2^64) : Dec 3 (arr [bstr v]) (pairItem v) :=
  (dec_arr (DecL.cons (dec_bstr v hv) DecL.nil) (by simp)).mono (by omega)

theorem decl_pairs (ps : List Bytes) (h : ∀ b ∈ ps, b.length < 2^64) :
    DecL (ps.length + 3) (ps.map (fun v => arr [bstr v])) (ps.map pairItem) := by
  induction ps with
  | nil => exact DecL.nil.mono (by omega)
  | cons v tl ih =>
    have h1 := dec_pair v (h v (by simp))
    have h2 := ih (fun c hc => h c (by simp [hc]))
    exact (DecL.cons h1 h2).mono (by simp only [List.length_cons]; omega)

theorem mapM_pairs (ps : List Bytes) : (ps.map pairItem).mapM asPair = some (ps.map some) := by
  induction ps with
  | nil => rfl
  | cons c tl ih => simp [List.mapM_cons, pairItem, asPair, asBytes, ih]

/-- round trip of `PersistTrie` (pair values) through the CBOR layer -/
theorem decTrie_encTrie (ps : List Bytes) (hlen : ∀ b ∈ ps, b.length < 2^64) (hn : ps.length < 2^64) :
    decTrie (encTrie ps) = some (ps.map some) := by
  unfold encTrie
  by_cases hps : ps = []
  · subst hps
    have h1 : Dec 3 (arr [null]) (.arr [.simple 22]) :=
      (dec_arr (DecL.cons dec_null DecL.nil) (by simp)).mono (by omega)
    have := decTop_of_dec h1 (by have := h1.1; omega)
    simp [decTrie, this]
  · rw [if_neg hps]
    have h1 := decl_pairs ps hlen
    have h2 := dec_arr h1 (by simpa using hn)
    have h3 := dec_arr (DecL.cons h2 DecL.nil) (by simp)
    have hl := h1.1
    have hh := head_length_pos 4 (ps.map (fun v => arr [bstr v])).length
    have hh' := head_length_pos 4 (0 + 1)
    have := decTop_of_dec h3 (by
      simp only [List.length_map] at hl
      simp only [arr_length, List.flatten_cons, List.flatten_nil, List.append_nil, List.length_cons,
        List.length_nil]
      omega)
    simp only [decTrie, this]
    exact mapM_pairs ps


/-! ### The five single-kind shapes of honest nodes -/

theorem decBase_encBase_branch (b : PBranch) (h : PBranchWF b) :
    decBase (encBase { branch := some b }) = some { branch := some b } := by
  refine decBase_encBase _ ⟨?_, ?_, ?_, ?_⟩ <;> intro _ e <;> cases e <;> assumption

theorem decBase_encBase_value (v : PValue) (h : PValueWF v) :
    decBase (encBase { value := some v }) = some { value := some v } := by
  refine decBase_encBase _ ⟨?_, ?_, ?_, ?_⟩ <;> intro _ e <;> cases e <;> assumption

theorem decBase_encBase_short (s : PShort) (h : PShortWF s) :
    decBase (encBase { short := some s }) = some { short := some s } := by
  refine decBase_encBase _ ⟨?_, ?_, ?_, ?_⟩ <;> intro _ e <;> cases e <;> assumption

theorem decBase_encBase_nil : decBase (encBase { nilNode := true }) = some { nilNode := true } := by
  refine decBase_encBase _ ⟨?_, ?_, ?_, ?_⟩ <;> intro _ e <;> cases e

theorem decBase_encBase_hash (x : PHash) (h : PHashWF x) :
    decBase (encBase { hashNode := some x }) = some { hashNode := some x } := by
  refine decBase_encBase _ ⟨?_, ?_, ?_, ?_⟩ <;> intro _ e <;> cases e <;> assumption

end Verif.Wmpt.Cbor
