/-
Basic facts about `splitCommon`, `lookup` and canonical (`WFn`) subtrees used by the canonical-form uniqueness
proof (C02).  Core Lean only.
-/
import Verif.Model.Mpt
import Verif.Lemmas.MptBasic
import Verif.Lemmas.MptInsert
import Verif.Lemmas.MptDelete
import Verif.Lemmas.MptIterate
import Verif.Lemmas.MptWF
namespace Verif.Mpt

/-! ### `splitCommon` -/

theorem splitCommon_spec_c (p q : List Nib) :
    p = (splitCommon p q).1 ++ (splitCommon p q).2.1 ∧ q = (splitCommon p q).1 ++ (splitCommon p q).2.2 := by
  fun_induction splitCommon p q with
  | case1 a p q r ih => simp [r] at *; exact ih
  | case2 a p b q h => simp
  | case3 p q h => simp

theorem splitCommon_append_left (ep q : List Nib) : splitCommon (ep ++ q) ep = (ep, q, []) := by
  induction ep with
  | nil => cases q <;> simp [splitCommon]
  | cons a ep ih => simp [splitCommon, ih]

theorem splitCommon_eq_nil_right {p ep c p' : List Nib} (h : splitCommon p ep = (c, p', [])) : p = ep ++ p' := by
  have := splitCommon_spec_c p ep
  rw [h] at this
  simp at this
  obtain ⟨h1, h2⟩ := this
  rw [h2]; exact h1

/-! ### `lookup` -/

@[simp] theorem lookup_empty_c (q : List Nib) : lookup .empty q = none := by
  cases q <;> simp [lookup]

theorem lookup_leaf_c (o : Nat) (lp : List Nib) (lv : Bytes) (q : List Nib) :
    lookup (.leaf o lp lv) q = if q = lp then (if lv = [] then none else some lv) else none := by
  cases q <;> simp [lookup]

theorem lookup_full_nil_c (o : Nat) (ch : Nib → Node) (val : Option Bytes) :
    lookup (.full o ch val) [] = match val with | some b => if b = [] then none else some b | none => none := by
  cases val <;> simp [lookup]

@[simp] theorem lookup_full_cons_c (o : Nat) (ch : Nib → Node) (val : Option Bytes) (x : Nib) (q : List Nib) :
    lookup (.full o ch val) (x :: q) = lookup (ch x) q := by
  simp [lookup]

theorem lookup_ext_append_c (o : Nat) {ep : List Nib} (c : Node) (q : List Nib) (hep : ep ≠ []) :
    lookup (.ext o ep c) (ep ++ q) = lookup c q := by
  rw [lookup, splitCommon_append_left]
  simp [hep]

theorem lookup_ext_some {o : Nat} {ep : List Nib} {c : Node} {p : List Nib} {b : Bytes}
    (h : lookup (.ext o ep c) p = some b) : ∃ q, p = ep ++ q ∧ lookup c q = some b := by
  unfold lookup at h
  split at h
  · rename_i c' p' heq
    split at h
    · cases h
    · exact ⟨p', splitCommon_eq_nil_right heq, h⟩
  · cases h

theorem lookup_ext_congr {o₁ o₂ : Nat} {ep : List Nib} {c₁ c₂ : Node} (h : ∀ q, lookup c₁ q = lookup c₂ q) :
    ∀ q, lookup (.ext o₁ ep c₁) q = lookup (.ext o₂ ep c₂) q := by
  intro q
  rw [lookup, lookup]
  split
  · rw [h]
  · rfl

theorem lookup_full_congr {o₁ o₂ : Nat} {ch₁ ch₂ : Nib → Node} {val : Option Bytes}
    (h : ∀ i q, lookup (ch₁ i) q = lookup (ch₂ i) q) :
    ∀ q, lookup (.full o₁ ch₁ val) q = lookup (.full o₂ ch₂ val) q := by
  intro q
  cases q with
  | nil => rw [lookup_full_nil_c, lookup_full_nil_c]
  | cons x r => simpa using h x r

end Verif.Mpt
