/-
Invariants of the RW-lock discipline model (Verif.Model.RWDiscipline): mutual exclusion + footprint conformance
(race freedom), and the simulation of the sequential run in lock-acquisition order (linearizability).
Core Lean only.
-/
import Verif.Model.RWDiscipline
set_option linter.unusedSimpArgs false
set_option linter.unusedVariables false
namespace Verif.RW

variable {V ρ : Type}

theorem thr_set (c : Config V ρ) (t u : Tid) (x : Thread V ρ) :
    (c.set t x).thr u = if u = t then x else c.thr u := rfl

/-! ## Part 1: race freedom -/

/-- what every reachable configuration of footprint-conforming scripts satisfies -/
structure SafeInv (fp : List FAcc) (c : Config V ρ) : Prop where
  conf_cur : ∀ t p, (c.thr t).cur = some p → Conf fp (c.thr t).main p
  idle_main : ∀ t, (c.thr t).cur = none → (c.thr t).main = none
  conf_todo : ∀ t p, p ∈ (c.thr t).todo → Conf fp none p
  excl : ∀ t u, t ≠ u → (c.thr t).main = some .W → (c.thr u).main = none
  subx : ∀ t u, t ≠ u → (c.thr t).sub ≠ 0 → (c.thr t).sub ≠ (c.thr u).sub

theorem SafeInv.init {fp : List FAcc} {scripts : Tid → List (Prog V ρ)} {mem0 : Loc → V}
    (h : ∀ t p, p ∈ scripts t → Conf fp none p) : SafeInv fp (init scripts mem0) where
  conf_cur := by intro t p hp; simp [Verif.RW.init] at hp
  idle_main := by intro t _; rfl
  conf_todo := by intro t p hp; exact h t p hp
  excl := by intro t u _ hw; simp [Verif.RW.init] at hw
  subx := by intro t u _ hs; simp [Verif.RW.init] at hs

theorem SafeInv.step {fp : List FAcc} {c c' : Config V ρ} {t : Tid} (h : SafeInv fp c) (st : Step c t c') :
    SafeInv fp c' := by
  cases st with
  | @call p rest hc ht =>
    have hm := h.idle_main t hc
    constructor
    · intro u q hq
      by_cases hu : u = t
      · subst hu
        simp at hq; subst hq
        simp [hm]
        exact h.conf_todo u _ (by simp [ht])
      · simp [thr_set, hu] at hq ⊢; exact h.conf_cur u q hq
    · intro u hq
      by_cases hu : u = t
      · subst hu; simp at hq
      · simp [thr_set, hu] at hq ⊢; exact h.idle_main u hq
    · intro u q hq
      by_cases hu : u = t
      · subst hu; simp at hq; exact h.conf_todo u q (by simp [ht, hq])
      · simp [thr_set, hu] at hq; exact h.conf_todo u q hq
    · intro u w huw hw
      have e1 : ((c.set t { c.thr t with todo := rest, cur := some p }).thr u).main = (c.thr u).main := by
        by_cases hu : u = t <;> simp [thr_set, hu]
      have e2 : ((c.set t { c.thr t with todo := rest, cur := some p }).thr w).main = (c.thr w).main := by
        by_cases hu : w = t <;> simp [thr_set, hu]
      rw [e1] at hw; rw [e2]; exact h.excl u w huw hw
    · intro u w huw hs
      have e1 : ∀ x, ((c.set t { c.thr t with todo := rest, cur := some p }).thr x).sub = (c.thr x).sub := by
        intro x; by_cases hu : x = t <;> simp [thr_set, hu]
      rw [e1] at hs ⊢; rw [e1]; exact h.subx u w huw hs
  | @acq m k hc hm ha =>
    have hcf := h.conf_cur t _ hc
    rw [hm] at hcf
    constructor
    · intro u q hq
      by_cases hu : u = t
      · subst hu
        simp [thr_set] at hq ⊢; subst hq
        exact hcf.2
      · simp [thr_set, hu] at hq ⊢; exact h.conf_cur u q hq
    · intro u hq
      by_cases hu : u = t
      · subst hu; simp [thr_set] at hq
      · simp [thr_set, hu] at hq ⊢; exact h.idle_main u hq
    · intro u q hq
      by_cases hu : u = t
      · subst hu; simp [thr_set] at hq; exact h.conf_todo u q hq
      · simp [thr_set, hu] at hq; exact h.conf_todo u q hq
    · intro u w huw hw
      by_cases hu : u = t
      · subst hu
        have hwu : w ≠ u := fun e => huw e.symm
        simp [thr_set] at hw
        simp [thr_set, hwu]
        subst hw
        exact ha w hwu
      · simp [thr_set, hu] at hw
        by_cases hwt : w = t
        · subst hwt
          exfalso
          cases m with
          | W => have := ha u hu; rw [hw] at this; cases this
          | R => exact ha u hu hw
        · simp [thr_set, hwt]; exact h.excl u w huw hw
    · intro u w huw hs
      have e1 : ∀ x, (({ (c.set t { c.thr t with cur := some k, main := some m, pred := some (k.run c.mem).2 }) with
          lin := c.lin ++ [{ tid := t, prog := k, pred := (k.run c.mem).2 }] } : Config V ρ).thr x).sub = (c.thr x).sub := by
        intro x; by_cases hu : x = t <;> simp [thr_set, hu]
      rw [e1] at hs ⊢; rw [e1]; exact h.subx u w huw hs
  | @rel k hc =>
    have hcf := h.conf_cur t _ hc
    constructor
    · intro u q hq
      by_cases hu : u = t
      · subst hu
        simp [thr_set] at hq ⊢; subst hq
        exact hcf.2
      · simp [thr_set, hu] at hq ⊢; exact h.conf_cur u q hq
    · intro u hq
      by_cases hu : u = t
      · subst hu; simp [thr_set] at hq
      · simp [thr_set, hu] at hq ⊢; exact h.idle_main u hq
    · intro u q hq
      by_cases hu : u = t
      · subst hu; simp [thr_set] at hq; exact h.conf_todo u q hq
      · simp [thr_set, hu] at hq; exact h.conf_todo u q hq
    · intro u w huw hw
      by_cases hu : u = t
      · subst hu; simp [thr_set] at hw
      · simp [thr_set, hu] at hw
        by_cases hwt : w = t
        · subst hwt; simp [thr_set]
        · simp [thr_set, hwt]; exact h.excl u w huw hw
    · intro u w huw hs
      have e1 : ∀ x, ((c.set t { c.thr t with cur := some k, main := none }).thr x).sub = (c.thr x).sub := by
        intro x; by_cases hu : x = t <;> simp [thr_set, hu]
      rw [e1] at hs ⊢; rw [e1]; exact h.subx u w huw hs
  | @subAcq p s hc _ hs0 hsub hfree =>
    constructor
    · intro u q hq
      by_cases hu : u = t
      · subst hu; simp [thr_set] at hq ⊢; exact h.conf_cur u q hq
      · simp [thr_set, hu] at hq ⊢; exact h.conf_cur u q hq
    · intro u hq
      by_cases hu : u = t
      · subst hu; simp [thr_set] at hq ⊢; exact h.idle_main u hq
      · simp [thr_set, hu] at hq ⊢; exact h.idle_main u hq
    · intro u q hq
      by_cases hu : u = t
      · subst hu; simp [thr_set] at hq; exact h.conf_todo u q hq
      · simp [thr_set, hu] at hq; exact h.conf_todo u q hq
    · intro u w huw hw
      have e1 : ∀ x, ((c.set t { c.thr t with sub := s }).thr x).main = (c.thr x).main := by
        intro x; by_cases hu : x = t <;> simp [thr_set, hu]
      rw [e1] at hw ⊢; exact h.excl u w huw hw
    · intro u w huw hs
      by_cases hu : u = t
      · subst hu
        have hwu : w ≠ u := fun e => huw e.symm
        simp [thr_set, hwu]
        exact fun e => hfree w hwu e.symm
      · simp [thr_set, hu] at hs
        by_cases hwt : w = t
        · subst hwt; simp [thr_set, hu]; exact hfree u hu
        · simp [thr_set, hu, hwt]; exact h.subx u w huw hs
  | @rd l s k hc hsub =>
    have hcf := h.conf_cur t _ hc
    constructor
    · intro u q hq
      by_cases hu : u = t
      · subst hu
        simp [thr_set] at hq ⊢; subst hq
        exact hcf.2 _
      · simp [thr_set, hu] at hq ⊢; exact h.conf_cur u q hq
    · intro u hq
      by_cases hu : u = t
      · subst hu; simp [thr_set] at hq
      · simp [thr_set, hu] at hq ⊢; exact h.idle_main u hq
    · intro u q hq
      by_cases hu : u = t
      · subst hu; simp [thr_set] at hq; exact h.conf_todo u q hq
      · simp [thr_set, hu] at hq; exact h.conf_todo u q hq
    · intro u w huw hw
      have e1 : ∀ x, ((c.set t { c.thr t with cur := some (k (c.mem l)), sub := 0 }).thr x).main = (c.thr x).main := by
        intro x; by_cases hu : x = t <;> simp [thr_set, hu]
      rw [e1] at hw ⊢; exact h.excl u w huw hw
    · intro u w huw hs
      by_cases hu : u = t
      · subst hu; simp [thr_set] at hs
      · simp [thr_set, hu] at hs
        by_cases hwt : w = t
        · subst hwt; simp [thr_set, hu]; exact hs
        · simp [thr_set, hu, hwt]; exact h.subx u w huw hs
  | @wr l s v k hc hsub =>
    have hcf := h.conf_cur t _ hc
    constructor
    · intro u q hq
      by_cases hu : u = t
      · subst hu
        simp [thr_set] at hq ⊢; subst hq
        exact hcf.2
      · simp [thr_set, hu] at hq ⊢; exact h.conf_cur u q hq
    · intro u hq
      by_cases hu : u = t
      · subst hu; simp [thr_set] at hq
      · simp [thr_set, hu] at hq ⊢; exact h.idle_main u hq
    · intro u q hq
      by_cases hu : u = t
      · subst hu; simp [thr_set] at hq; exact h.conf_todo u q hq
      · simp [thr_set, hu] at hq; exact h.conf_todo u q hq
    · intro u w huw hw
      have e1 : ∀ x, (({ (c.set t { c.thr t with cur := some k, sub := 0 }) with mem := upd c.mem l v } : Config V ρ).thr x).main
          = (c.thr x).main := by
        intro x; by_cases hu : x = t <;> simp [thr_set, hu]
      rw [e1] at hw ⊢; exact h.excl u w huw hw
    · intro u w huw hs
      by_cases hu : u = t
      · subst hu; simp [thr_set] at hs
      · simp [thr_set, hu] at hs
        by_cases hwt : w = t
        · subst hwt; simp [thr_set, hu]; exact hs
        · simp [thr_set, hu, hwt]; exact h.subx u w huw hs
  | @ret r hc =>
    have hcf := h.conf_cur t _ hc
    constructor
    · intro u q hq
      by_cases hu : u = t
      · subst hu; simp [thr_set] at hq
      · simp [thr_set, hu] at hq ⊢; exact h.conf_cur u q hq
    · intro u hq
      by_cases hu : u = t
      · subst hu; simp [thr_set]; exact hcf
      · simp [thr_set, hu] at hq ⊢; exact h.idle_main u hq
    · intro u q hq
      by_cases hu : u = t
      · subst hu; simp [thr_set] at hq; exact h.conf_todo u q hq
      · simp [thr_set, hu] at hq; exact h.conf_todo u q hq
    · intro u w huw hw
      have e1 : ∀ x, ((c.set t { c.thr t with cur := none, done := (c.thr t).done ++ [r], pred := none }).thr x).main
          = (c.thr x).main := by
        intro x; by_cases hu : x = t <;> simp [thr_set, hu]
      rw [e1] at hw ⊢; exact h.excl u w huw hw
    · intro u w huw hs
      have e1 : ∀ x, ((c.set t { c.thr t with cur := none, done := (c.thr t).done ++ [r], pred := none }).thr x).sub
          = (c.thr x).sub := by
        intro x; by_cases hu : x = t <;> simp [thr_set, hu]
      rw [e1] at hs ⊢; rw [e1]; exact h.subx u w huw hs

theorem SafeInv.exec {fp : List FAcc} {c c' : Config V ρ} {s : List Tid} (h : SafeInv fp c) (ex : Exec c s c') :
    SafeInv fp c' := by
  induction ex with
  | nil => exact h
  | cons st _ ih => exact ih (h.step st)

theorem atAccess_mem {fp : List FAcc} {c : Config V ρ} {t : Tid} {a : FAcc} (h : SafeInv fp c) (ha : AtAccess c t a) :
    a ∈ fp ∧ a.held = (c.thr t).main ∧ a.sub = (c.thr t).sub := by
  rcases ha with ⟨k, hc, hw, hs, hh⟩ | ⟨v, k, hc, hw, hs, hh⟩
  · have := (h.conf_cur t _ hc).1
    refine ⟨?_, hh, hs.symm⟩
    have e : a = { loc := a.loc, write := false, sub := a.sub, held := (c.thr t).main } := by
      cases a; simp_all
    rw [e]; exact this
  · have := (h.conf_cur t _ hc).1
    refine ⟨?_, hh, hs.symm⟩
    have e : a = { loc := a.loc, write := true, sub := a.sub, held := (c.thr t).main } := by
      cases a; simp_all
    rw [e]; exact this

/-- in a configuration satisfying the invariant, under the lockset discipline, there is no race -/
theorem SafeInv.no_race {fp : List FAcc} {c : Config V ρ} (h : SafeInv fp c) (hl : LocksetOK fp) : ¬ Race c := by
  rintro ⟨t, u, a, b, htu, ha, hb, hloc, hw⟩
  obtain ⟨hafp, hah, has⟩ := atAccess_mem h ha
  obtain ⟨hbfp, hbh, hbs⟩ := atAccess_mem h hb
  rcases hl a hafp b hbfp hloc hw with ⟨h1, h2⟩ | ⟨h1, h2⟩ | ⟨h1, h2⟩
  · rw [hah] at h1; rw [hbh] at h2
    exact h2 (h.excl t u htu h1)
  · rw [hbh] at h1; rw [hah] at h2
    exact h2 (h.excl u t (fun e => htu e.symm) h1)
  · rw [has] at h1
    apply h.subx t u htu h1
    rw [← has, ← hbs]; exact h2

end Verif.RW
