/-
Invariants of the RW-lock discipline model (Verif.Model.RWDiscipline): mutual exclusion + footprint conformance
(race freedom), and the simulation of the sequential run in lock-acquisition order (linearizability).
Core Lean only.
-/
import Verif.Model.RWDiscipline
set_option linter.unusedSimpArgs false
set_option linter.unusedVariables false
namespace Verif.RW

variable {V ρ : Type}

theorem thr_set (c : Config V ρ) (t u : Tid) (x : Thread V ρ) :
    (c.set t x).thr u = if u = t then x else c.thr u := rfl

/-! ## Part 1: race freedom -/

/-- what every reachable configuration of footprint-conforming scripts satisfies -/
structure SafeInv (fp : List FAcc) (c : Config V ρ) : Prop where
  conf_cur : ∀ t p, (c.thr t).cur = some p → Conf fp (c.thr t).main p
  idle_main : ∀ t, (c.thr t).cur = none → (c.thr t).main = none
  conf_todo : ∀ t p, p ∈ (c.thr t).todo → Conf fp none p
  excl : ∀ t u, t ≠ u → (c.thr t).main = some .W → (c.thr u).main = none
  subx : ∀ t u, t ≠ u → (c.thr t).sub ≠ 0 → (c.thr t).sub ≠ (c.thr u).sub

theorem SafeInv.init {fp : List FAcc} {scripts : Tid → List (Prog V ρ)} {mem0 : Loc → V}
    (h : ∀ t p, p ∈ scripts t → Conf fp none p) : SafeInv fp (init scripts mem0) where
  conf_cur := by intro t p hp; simp [Verif.RW.init] at hp
  idle_main := by intro t _; rfl
  conf_todo := by intro t p hp; exact h t p hp
  excl := by intro t u _ hw; simp [Verif.RW.init] at hw
  subx := by intro t u _ hs; simp [Verif.RW.init] at hs

theorem SafeInv.step {fp : List FAcc} {c c' : Config V ρ} {t : Tid} (h : SafeInv fp c) (st : Step c t c') :
    SafeInv fp c' := by
  cases st with
  | @call p rest hc ht =>
    have hm := h.idle_main t hc
    constructor
    · intro u q hq
      by_cases hu : u = t
      · subst hu
        simp at hq; subst hq
        simp [hm]
        exact h.conf_todo u _ (by simp [ht])
      · simp [thr_set, hu] at hq ⊢; exact h.conf_cur u q hq
    · intro u hq
      by_cases hu : u = t
      · subst hu; simp at hq
      · simp [thr_set, hu] at hq ⊢; exact h.idle_main u hq
    · intro u q hq
      by_cases hu : u = t
      · subst hu; simp at hq; exact h.conf_todo u q (by simp [ht, hq])
      · simp [thr_set, hu] at hq; exact h.conf_todo u q hq
    · intro u w huw hw
      have e1 : ((c.set t { c.thr t with todo := rest, cur := some p }).thr u).main = (c.thr u).main := by
        by_cases hu : u = t <;> simp [thr_set, hu]
      have e2 : ((c.set t { c.thr t with todo := rest, cur := some p }).thr w).main = (c.thr w).main := by
        by_cases hu : w = t <;> simp [thr_set, hu]
      rw [e1] at hw; rw [e2]; exact h.excl u w huw hw
    · intro u w huw hs
      have e1 : ∀ x, ((c.set t { c.thr t with todo := rest, cur := some p }).thr x).sub = (c.thr x).sub := by
        intro x; by_cases hu : x = t <;> simp [thr_set, hu]
      rw [e1] at hs ⊢; rw [e1]; exact h.subx u w huw hs
  | @acq m k hc hm ha =>
    have hcf := h.conf_cur t _ hc
    rw [hm] at hcf
    constructor
    · intro u q hq
      by_cases hu : u = t
      · subst hu
        simp [thr_set] at hq ⊢; subst hq
        exact hcf.2
      · simp [thr_set, hu] at hq ⊢; exact h.conf_cur u q hq
    · intro u hq
      by_cases hu : u = t
      · subst hu; simp [thr_set] at hq
      · simp [thr_set, hu] at hq ⊢; exact h.idle_main u hq
    · intro u q hq
      by_cases hu : u = t
      · subst hu; simp [thr_set] at hq; exact h.conf_todo u q hq
      · simp [thr_set, hu] at hq; exact h.conf_todo u q hq
    · intro u w huw hw
      by_cases hu : u = t
      · subst hu
        have hwu : w ≠ u := fun e => huw e.symm
        simp [thr_set] at hw
        simp [thr_set, hwu]
        subst hw
        exact ha w hwu
      · simp [thr_set, hu] at hw
        by_cases hwt : w = t
        · subst hwt
          exfalso
          cases m with
          | W => have := ha u hu; rw [hw] at this; cases this
          | R => exact ha u hu hw
        · simp [thr_set, hwt]; exact h.excl u w huw hw
    · intro u w huw hs
      have e1 : ∀ x, (({ (c.set t { c.thr t with cur := some k, main := some m, pred := some (k.run c.mem).2 }) with
          lin := c.lin ++ [{ tid := t, prog := k, pred := (k.run c.mem).2 }] } : Config V ρ).thr x).sub = (c.thr x).sub := by
        intro x; by_cases hu : x = t <;> simp [thr_set, hu]
      rw [e1] at hs ⊢; rw [e1]; exact h.subx u w huw hs
  | @rel k hc =>
    have hcf := h.conf_cur t _ hc
    constructor
    · intro u q hq
      by_cases hu : u = t
      · subst hu
        simp [thr_set] at hq ⊢; subst hq
        exact hcf.2
      · simp [thr_set, hu] at hq ⊢; exact h.conf_cur u q hq
    · intro u hq
      by_cases hu : u = t
      · subst hu; simp [thr_set] at hq
      · simp [thr_set, hu] at hq ⊢; exact h.idle_main u hq
    · intro u q hq
      by_cases hu : u = t
      · subst hu; simp [thr_set] at hq; exact h.conf_todo u q hq
      · simp [thr_set, hu] at hq; exact h.conf_todo u q hq
    · intro u w huw hw
      by_cases hu : u = t
      · subst hu; simp [thr_set] at hw
      · simp [thr_set, hu] at hw
        by_cases hwt : w = t
        · subst hwt; simp [thr_set]
        · simp [thr_set, hwt]; exact h.excl u w huw hw
    · intro u w huw hs
      have e1 : ∀ x, ((c.set t { c.thr t with cur := some k, main := none }).thr x).sub = (c.thr x).sub := by
        intro x; by_cases hu : x = t <;> simp [thr_set, hu]
      rw [e1] at hs ⊢; rw [e1]; exact h.subx u w huw hs
  | @subAcq p s hc _ hs0 hsub hfree =>
    constructor
    · intro u q hq
      by_cases hu : u = t
      · subst hu; simp [thr_set] at hq ⊢; exact h.conf_cur u q hq
      · simp [thr_set, hu] at hq ⊢; exact h.conf_cur u q hq
    · intro u hq
      by_cases hu : u = t
      · subst hu; simp [thr_set] at hq ⊢; exact h.idle_main u hq
      · simp [thr_set, hu] at hq ⊢; exact h.idle_main u hq
    · intro u q hq
      by_cases hu : u = t
      · subst hu; simp [thr_set] at hq; exact h.conf_todo u q hq
      · simp [thr_set, hu] at hq; exact h.conf_todo u q hq
    · intro u w huw hw
      have e1 : ∀ x, ((c.set t { c.thr t with sub := s }).thr x).main = (c.thr x).main := by
        intro x; by_cases hu : x = t <;> simp [thr_set, hu]
      rw [e1] at hw ⊢; exact h.excl u w huw hw
    · intro u w huw hs
      by_cases hu : u = t
      · subst hu
        have hwu : w ≠ u := fun e => huw e.symm
        simp [thr_set, hwu]
        exact fun e => hfree w hwu e.symm
      · simp [thr_set, hu] at hs
        by_cases hwt : w = t
        · subst hwt; simp [thr_set, hu]; exact hfree u hu
        · simp [thr_set, hu, hwt]; exact h.subx u w huw hs
  | @rd l s k hc hsub =>
    have hcf := h.conf_cur t _ hc
    constructor
    · intro u q hq
      by_cases hu : u = t
      · subst hu
        simp [thr_set] at hq ⊢; subst hq
        exact hcf.2 _
      · simp [thr_set, hu] at hq ⊢; exact h.conf_cur u q hq
    · intro u hq
      by_cases hu : u = t
      · subst hu; simp [thr_set] at hq
      · simp [thr_set, hu] at hq ⊢; exact h.idle_main u hq
    · intro u q hq
      by_cases hu : u = t
      · subst hu; simp [thr_set] at hq; exact h.conf_todo u q hq
      · simp [thr_set, hu] at hq; exact h.conf_todo u q hq
    · intro u w huw hw
      have e1 : ∀ x, ((c.set t { c.thr t with cur := some (k (c.mem l)), sub := 0 }).thr x).main = (c.thr x).main := by
        intro x; by_cases hu : x = t <;> simp [thr_set, hu]
      rw [e1] at hw ⊢; exact h.excl u w huw hw
    · intro u w huw hs
      by_cases hu : u = t
      · subst hu; simp [thr_set] at hs
      · simp [thr_set, hu] at hs
        by_cases hwt : w = t
        · subst hwt; simp [thr_set, hu]; exact hs
        · simp [thr_set, hu, hwt]; exact h.subx u w huw hs
  | @wr l s v k hc hsub =>
    have hcf := h.conf_cur t _ hc
    constructor
    · intro u q hq
      by_cases hu : u = t
      · subst hu
        simp [thr_set] at hq ⊢; subst hq
        exact hcf.2
      · simp [thr_set, hu] at hq ⊢; exact h.conf_cur u q hq
    · intro u hq
      by_cases hu : u = t
      · subst hu; simp [thr_set] at hq
      · simp [thr_set, hu] at hq ⊢; exact h.idle_main u hq
    · intro u q hq
      by_cases hu : u = t
      · subst hu; simp [thr_set] at hq; exact h.conf_todo u q hq
      · simp [thr_set, hu] at hq; exact h.conf_todo u q hq
    · intro u w huw hw
      have e1 : ∀ x, (({ (c.set t { c.thr t with cur := some k, sub := 0 }) with mem := upd c.mem l v } : Config V ρ).thr x).main
          = (c.thr x).main := by
        intro x; by_cases hu : x = t <;> simp [thr_set, hu]
      rw [e1] at hw ⊢; exact h.excl u w huw hw
    · intro u w huw hs
      by_cases hu : u = t
      · subst hu; simp [thr_set] at hs
      · simp [thr_set, hu] at hs
        by_cases hwt : w = t
        · subst hwt; simp [thr_set, hu]; exact hs
        · simp [thr_set, hu, hwt]; exact h.subx u w huw hs
  | @ret r hc =>
    have hcf := h.conf_cur t _ hc
    constructor
    · intro u q hq
      by_cases hu : u = t
      · subst hu; simp [thr_set] at hq
      · simp [thr_set, hu] at hq ⊢; exact h.conf_cur u q hq
    · intro u hq
      by_cases hu : u = t
      · subst hu; simp [thr_set]; exact hcf
      · simp [thr_set, hu] at hq ⊢; exact h.idle_main u hq
    · intro u q hq
      by_cases hu : u = t
      · subst hu; simp [thr_set] at hq; exact h.conf_todo u q hq
      · simp [thr_set, hu] at hq; exact h.conf_todo u q hq
    · intro u w huw hw
      have e1 : ∀ x, ((c.set t { c.thr t with cur := none, done := (c.thr t).done ++ [r], pred := none }).thr x).main
          = (c.thr x).main := by
        intro x; by_cases hu : x = t <;> simp [thr_set, hu]
      rw [e1] at hw ⊢; exact h.excl u w huw hw
    · intro u w huw hs
      have e1 : ∀ x, ((c.set t { c.thr t with cur := none, done := (c.thr t).done ++ [r], pred := none }).thr x).sub
          = (c.thr x).sub := by
        intro x; by_cases hu : x = t <;> simp [thr_set, hu]
      rw [e1] at hs ⊢; rw [e1]; exact h.subx u w huw hs

theorem SafeInv.exec {fp : List FAcc} {c c' : Config V ρ} {s : List Tid} (h : SafeInv fp c) (ex : Exec c s c') :
    SafeInv fp c' := by
  induction ex with
  | nil => exact h
  | cons st _ ih => exact ih (h.step st)

theorem atAccess_mem {fp : List FAcc} {c : Config V ρ} {t : Tid} {a : FAcc} (h : SafeInv fp c) (ha : AtAccess c t a) :
    a ∈ fp ∧ a.held = (c.thr t).main ∧ a.sub = (c.thr t).sub := by
  rcases ha with ⟨k, hc, hw, hs, hh⟩ | ⟨v, k, hc, hw, hs, hh⟩
  · have := (h.conf_cur t _ hc).1
    refine ⟨?_, hh, hs.symm⟩
    have e : a = { loc := a.loc, write := false, sub := a.sub, held := (c.thr t).main } := by
      cases a; simp_all
    rw [e]; exact this
  · have := (h.conf_cur t _ hc).1
    refine ⟨?_, hh, hs.symm⟩
    have e : a = { loc := a.loc, write := true, sub := a.sub, held := (c.thr t).main } := by
      cases a; simp_all
    rw [e]; exact this

/-- in a configuration satisfying the invariant, under the lockset discipline, there is no race -/
theorem SafeInv.no_race {fp : List FAcc} {c : Config V ρ} (h : SafeInv fp c) (hl : LocksetOK fp) : ¬ Race c := by
  rintro ⟨t, u, a, b, htu, ha, hb, hloc, hw⟩
  obtain ⟨hafp, hah, has⟩ := atAccess_mem h ha
  obtain ⟨hbfp, hbh, hbs⟩ := atAccess_mem h hb
  rcases hl a hafp b hbfp hloc hw with ⟨h1, h2⟩ | ⟨h1, h2⟩ | ⟨h1, h2⟩
  · rw [hah] at h1; rw [hbh] at h2
    exact h2 (h.excl t u htu h1)
  · rw [hbh] at h1; rw [hah] at h2
    exact h2 (h.excl u t (fun e => htu e.symm) h1)
  · rw [has] at h1
    apply h.subx t u htu h1
    rw [← has, ← hbs]; exact h2

/-! ## Part 2: linearizability -/

theorem AgreeMain.rfl' {bk : Loc → Prop} {m : Loc → V} : AgreeMain bk m m := fun _ _ => rfl
theorem AgreeMain.symm {bk : Loc → Prop} {m m' : Loc → V} (h : AgreeMain bk m m') : AgreeMain bk m' m :=
  fun l hl => (h l hl).symm
theorem AgreeMain.trans {bk : Loc → Prop} {m m' m'' : Loc → V} (h : AgreeMain bk m m') (h' : AgreeMain bk m' m'') :
    AgreeMain bk m m'' := fun l hl => (h l hl).trans (h' l hl)

theorem agree_upd {bk : Loc → Prop} {m m' : Loc → V} (h : AgreeMain bk m m') (l : Loc) (v : V) :
    AgreeMain bk (upd m l v) (upd m' l v) := by
  intro l' hl'
  by_cases e : l' = l
  · subst e; simp
  · simp [upd, e]; exact h l' hl'

theorem agree_upd_bk {bk : Loc → Prop} (m : Loc → V) {l : Loc} (hb : bk l) (v : V) : AgreeMain bk m (upd m l v) := by
  intro l' hl'
  have e : l' ≠ l := fun e => hl' (e ▸ hb)
  simp [upd, e]

/-- an oblivious program computes the same result, and the same main memory, from memories that agree on the
main locations -/
theorem run_agree {bk : Loc → Prop} (p : Prog V ρ) : ∀ (m m' : Loc → V), Oblivious bk p → AgreeMain bk m m' →
    (p.run m).2 = (p.run m').2 ∧ AgreeMain bk (p.run m).1 (p.run m').1 := by
  induction p with
  | ret r => intro m m' _ ha; exact ⟨rfl, ha⟩
  | rd l s k ih =>
    intro m m' ho ha
    simp only [Oblivious] at ho
    simp only [Prog.run]
    by_cases hb : bk l
    · rw [ho.1 hb (m l) (m' l)]; exact ih (m' l) m m' (ho.2 _) ha
    · rw [ha l hb]; exact ih (m' l) m m' (ho.2 _) ha
  | wr l s v k ih =>
    intro m m' ho ha
    simp only [Oblivious] at ho
    simp only [Prog.run]
    exact ih _ _ ho (agree_upd ha l v)
  | acq md k ih => intro m m' ho ha; simp only [Oblivious] at ho; simp only [Prog.run]; exact ih m m' ho ha
  | rel k ih => intro m m' ho ha; simp only [Oblivious] at ho; simp only [Prog.run]; exact ih m m' ho ha

/-- a program that writes bookkeeping locations only leaves the main memory as it was -/
theorem run_writesOnly {bk : Loc → Prop} (p : Prog V ρ) : ∀ (m : Loc → V), WritesOnly bk p → AgreeMain bk (p.run m).1 m := by
  induction p with
  | ret r => intro m _; exact AgreeMain.rfl'
  | rd l s k ih => intro m hw; simp only [WritesOnly] at hw; simp only [Prog.run]; exact ih _ m (hw _)
  | wr l s v k ih =>
    intro m hw
    simp only [WritesOnly] at hw
    simp only [Prog.run]
    exact (ih _ hw.2).trans (agree_upd_bk m hw.1 v).symm
  | acq md k ih => intro m hw; simp only [WritesOnly] at hw; simp only [Prog.run]; exact ih m hw
  | rel k ih => intro m hw; simp only [WritesOnly] at hw; simp only [Prog.run]; exact ih m hw

theorem seqRun_append (es : List (LinEntry V ρ)) (e : LinEntry V ρ) : ∀ (mem : Loc → V),
    seqRun (es ++ [e]) mem =
      ((e.prog.run (seqRun es mem).1).1, (seqRun es mem).2 ++ [(e.prog.run (seqRun es mem).1).2]) := by
  induction es with
  | nil => intro mem; simp [seqRun]
  | cons x xs ih => intro mem; simp [seqRun, ih]

/-- the memory the sequential run must match: if a writer is in its critical section, the memory it is going to
leave; otherwise the current memory -/
def Fut (c : Config V ρ) (m : Loc → V) : Prop :=
  (∃ t p, (c.thr t).main = some .W ∧ (c.thr t).cur = some p ∧ m = (p.run c.mem).1) ∨
  ((∀ t, (c.thr t).main ≠ some .W) ∧ m = c.mem)

/-- where a thread is within its current operation -/
inductive TShape (bk : Loc → Prop) (mem : Loc → V) : Thread V ρ → Prop
  | idle {th : Thread V ρ} : th.cur = none → th.main = none → th.pred = none → TShape bk mem th
  | waiting {th : Thread V ρ} {p : Prog V ρ} : th.cur = some p → th.main = none → th.pred = none → OpOK bk p →
      TShape bk mem th
  | body {th : Thread V ρ} {p : Prog V ρ} {m : Mode} : th.cur = some p → th.main = some m → BodyOK p →
      (m = .R → WritesOnly bk p) → Oblivious bk p → th.pred = some (p.run mem).2 → TShape bk mem th
  | released {th : Thread V ρ} {r : ρ} : th.cur = some (.ret r) → th.main = none → th.pred = some r → TShape bk mem th

theorem TShape.mem_change {bk : Loc → Prop} {mem mem' : Loc → V} {th : Thread V ρ} (h : TShape bk mem th)
    (hm : th.main ≠ none → AgreeMain bk mem mem') : TShape bk mem' th := by
  cases h with
  | idle a b c => exact .idle a b c
  | waiting a b c d => exact .waiting a b c d
  | @body p m a b c d e f =>
    refine .body a b c d e ?_
    rw [f, (run_agree p mem mem' e (hm (by simp [b]))).1]
  | released a b c => exact .released a b c

structure LinInv (bk : Loc → Prop) (mem0 : Loc → V) (c : Config V ρ) : Prop where
  shape : ∀ t, TShape bk c.mem (c.thr t)
  todo : ∀ t p, p ∈ (c.thr t).todo → OpOK bk p
  excl : ∀ t u, t ≠ u → (c.thr t).main = some .W → (c.thr u).main = none
  futMem : ∀ m, Fut c m → AgreeMain bk (seqRun c.lin mem0).1 m
  results : (seqRun c.lin mem0).2 = c.lin.map (·.pred)
  perThread : ∀ t, (c.lin.filter (fun e => e.tid == t)).map (·.pred) = (c.thr t).done ++ (c.thr t).pred.toList

theorem LinInv.init {bk : Loc → Prop} {scripts : Tid → List (Prog V ρ)} {mem0 : Loc → V}
    (h : ∀ t p, p ∈ scripts t → OpOK bk p) : LinInv bk mem0 (init scripts mem0) where
  shape := fun t => .idle rfl rfl rfl
  todo := h
  excl := by intro t u _ hw; simp [Verif.RW.init] at hw
  futMem := by
    intro m hf
    rcases hf with ⟨t, p, hw, _⟩ | ⟨_, rfl⟩
    · simp [Verif.RW.init] at hw
    · exact AgreeMain.rfl'
  results := rfl
  perThread := fun t => rfl

theorem fut_noW {c : Config V ρ} {m : Loc → V} (h : ∀ t, (c.thr t).main ≠ some .W) (hf : Fut c m) : m = c.mem := by
  rcases hf with ⟨t, p, hw, _⟩ | ⟨_, rfl⟩
  · exact absurd hw (h t)
  · rfl

theorem fut_W {c : Config V ρ} {m : Loc → V} {t : Tid} {p : Prog V ρ}
    (excl : ∀ t u, t ≠ u → (c.thr t).main = some .W → (c.thr u).main = none)
    (hw : (c.thr t).main = some .W) (hc : (c.thr t).cur = some p) (hf : Fut c m) : m = (p.run c.mem).1 := by
  rcases hf with ⟨t', p', hw', hc', rfl⟩ | ⟨h, _⟩
  · by_cases e : t' = t
    · subst e; rw [hc] at hc'; cases hc'; rfl
    · have := excl t' t e hw'; rw [hw] at this; cases this
  · exact absurd hw (h t)

/-- frame: a step that keeps memory and log, keeps who holds the lock how, and keeps (the run of) every writer's
remaining program, keeps `Fut` -/
theorem fut_frame {c c' : Config V ρ} {m : Loc → V}
    (hmain : ∀ u, (c'.thr u).main = some .W ↔ (c.thr u).main = some .W)
    (hmem : (∀ u, (c.thr u).main ≠ some .W) → c'.mem = c.mem)
    (hcur : ∀ u p', (c.thr u).main = some .W → (c'.thr u).cur = some p' →
      ∃ p, (c.thr u).cur = some p ∧ (p'.run c'.mem).1 = (p.run c.mem).1)
    (hf : Fut c' m) : Fut c m := by
  rcases hf with ⟨t, p', hw, hc, rfl⟩ | ⟨h, rfl⟩
  · have hw' := (hmain t).1 hw
    obtain ⟨p, hp, e⟩ := hcur t p' hw' hc
    exact .inl ⟨t, p, hw', hp, e⟩
  · have h' : ∀ u, (c.thr u).main ≠ some .W := fun u hu => h u ((hmain u).2 hu)
    exact .inr ⟨h', hmem h'⟩

theorem TShape.congr {bk : Loc → Prop} {mem : Loc → V} {th th' : Thread V ρ} (h : TShape bk mem th)
    (e1 : th'.cur = th.cur) (e2 : th'.main = th.main) (e3 : th'.pred = th.pred) : TShape bk mem th' := by
  cases h with
  | idle a b c => exact .idle (e1 ▸ a) (e2 ▸ b) (e3 ▸ c)
  | waiting a b c d => exact .waiting (e1 ▸ a) (e2 ▸ b) (e3 ▸ c) d
  | body a b c d e f => exact .body (e1 ▸ a) (e2 ▸ b) c d e (e3 ▸ f)
  | released a b c => exact .released (e1 ▸ a) (e2 ▸ b) (e3 ▸ c)

/-- steps that change only the stepping thread (not the memory, the log or how the lock is held) -/
theorem LinInv.local {bk : Loc → Prop} {mem0 : Loc → V} {c : Config V ρ} {t : Tid} {x : Thread V ρ}
    (h : LinInv bk mem0 c)
    (hshape : TShape bk c.mem x) (htodo : ∀ p, p ∈ x.todo → OpOK bk p) (hmain : x.main = (c.thr t).main)
    (hcur : (c.thr t).main = some .W → ∀ p', x.cur = some p' →
      ∃ p, (c.thr t).cur = some p ∧ (p'.run c.mem).1 = (p.run c.mem).1)
    (hdone : x.done ++ x.pred.toList = (c.thr t).done ++ (c.thr t).pred.toList) :
    LinInv bk mem0 (c.set t x) := by
  have hm : ∀ u, ((c.set t x).thr u).main = (c.thr u).main := by
    intro u; by_cases hu : u = t
    · subst hu; simp [hmain]
    · simp [thr_set, hu]
  constructor
  · intro u
    by_cases hu : u = t
    · subst hu; simpa using hshape
    · simp [thr_set, hu]; exact h.shape u
  · intro u p hp
    by_cases hu : u = t
    · subst hu; simp at hp; exact htodo p hp
    · simp [thr_set, hu] at hp; exact h.todo u p hp
  · intro u w huw hw
    rw [hm] at hw ⊢; exact h.excl u w huw hw
  · intro m hf
    apply h.futMem m
    apply fut_frame (c := c) (c' := c.set t x) (fun u => by rw [hm]) (fun _ => rfl) _ hf
    intro u p' hw hc
    by_cases hu : u = t
    · subst hu; simp at hc; exact hcur hw p' hc
    · simp [thr_set, hu] at hc; exact ⟨p', hc, rfl⟩
  · exact h.results
  · intro u
    by_cases hu : u = t
    · subst hu; simp; rw [hdone]; exact h.perThread u
    · simp [thr_set, hu]; exact h.perThread u

theorem LinInv.step {bk : Loc → Prop} {mem0 : Loc → V} {c c' : Config V ρ} {t : Tid}
    (h : LinInv bk mem0 c) (st : Step c t c') : LinInv bk mem0 c' := by
  cases st with
  | @call p rest hc ht =>
    cases h.shape t with
    | idle a b d =>
      apply h.local
      · exact .waiting rfl b d (h.todo t p (by simp [ht]))
      · intro q hq; exact h.todo t q (by simp [ht]; exact .inr hq)
      · rfl
      · intro hw; rw [b] at hw; cases hw
      · rfl
    | waiting a _ _ _ => rw [hc] at a; cases a
    | body a _ _ _ _ _ => rw [hc] at a; cases a
    | released a _ _ => rw [hc] at a; cases a
  | @subAcq p s hc _ hs0 hsub hfree =>
    apply h.local
    · exact (h.shape t).congr rfl rfl rfl
    · intro q hq; exact h.todo t q hq
    · rfl
    · intro hw p' hp'; exact ⟨p', hp', rfl⟩
    · rfl
  | @rd l s k hc hsub =>
    cases h.shape t with
    | idle a _ _ => rw [hc] at a; cases a
    | waiting a _ _ d =>
      rw [hc] at a; cases a
      obtain ⟨m, k', e, _⟩ := d; cases e
    | @body p m a b d e f g =>
      rw [hc] at a; cases a
      simp only [BodyOK] at d
      simp only [Oblivious] at f
      apply h.local
      · refine .body rfl b (d _) ?_ (f.2 _) g
        intro hm; have := e hm; simp only [WritesOnly] at this; exact this _
      · intro q hq; exact h.todo t q hq
      · rfl
      · intro hw p' hp'; simp at hp'; subst hp'; exact ⟨_, hc, rfl⟩
      · rfl
    | released a _ _ => rw [hc] at a; cases a
  | @ret r hc =>
    cases h.shape t with
    | idle a _ _ => rw [hc] at a; cases a
    | waiting a _ _ d =>
      rw [hc] at a; cases a
      obtain ⟨m, k', e, _⟩ := d; cases e
    | body a b d _ _ _ => rw [hc] at a; cases a; simp only [BodyOK] at d
    | released a b d =>
      rw [hc] at a; cases a
      apply h.local
      · exact .idle rfl b rfl
      · intro q hq; exact h.todo t q hq
      · rfl
      · intro hw; rw [b] at hw; cases hw
      · simp [d]
  | @rel k hc =>
    cases h.shape t with
    | idle a _ _ => rw [hc] at a; cases a
    | waiting a _ _ d =>
      rw [hc] at a; cases a
      obtain ⟨m, k', e, _⟩ := d; cases e
    | released a _ _ => rw [hc] at a; cases a
    | @body p m a b d e f g =>
      rw [hc] at a; cases a
      simp only [BodyOK] at d
      obtain ⟨r, rfl⟩ := d
      have hm : ∀ u, u ≠ t → ((c.set t { c.thr t with cur := some (Prog.ret r), main := none }).thr u) = c.thr u := by
        intro u hu; simp [thr_set, hu]
      constructor
      · intro u
        by_cases hu : u = t
        · subst hu; simp; exact .released rfl rfl g
        · rw [hm u hu]; exact h.shape u
      · intro u q hq
        by_cases hu : u = t
        · subst hu; simp at hq; exact h.todo u q hq
        · rw [hm u hu] at hq; exact h.todo u q hq
      · intro u w huw hw
        by_cases hu : u = t
        · subst hu; simp at hw
        · rw [hm u hu] at hw
          by_cases hwt : w = t
          · subst hwt; simp
          · rw [hm w hwt]; exact h.excl u w huw hw
      · intro m' hf
        cases m with
        | W =>
          have noW : ∀ u, ((c.set t { c.thr t with cur := some (Prog.ret r), main := none }).thr u).main ≠ some .W := by
            intro u; by_cases hu : u = t
            · subst hu; simp
            · rw [hm u hu, h.excl t u (fun e => hu e.symm) b]; simp
          rw [fut_noW noW hf]
          exact h.futMem c.mem (.inl ⟨t, _, b, hc, rfl⟩)
        | R =>
          apply h.futMem m'
          refine fut_frame (c := c) (c' := c.set t { c.thr t with cur := some (Prog.ret r), main := none }) ?_ (fun _ => rfl) ?_ hf
          · intro u; by_cases hu : u = t
            · subst hu; simp [b]
            · rw [hm u hu]
          · intro u p' hw hc'
            by_cases hu : u = t
            · subst hu; rw [b] at hw; cases hw
            · rw [hm u hu] at hc'; exact ⟨p', hc', rfl⟩
      · exact h.results
      · intro u
        by_cases hu : u = t
        · subst hu; simp; exact h.perThread u
        · rw [hm u hu]; exact h.perThread u
  | @wr l s v k hc hsub =>
    cases h.shape t with
    | idle a _ _ => rw [hc] at a; cases a
    | waiting a _ _ d =>
      rw [hc] at a; cases a
      obtain ⟨m, k', e, _⟩ := d; cases e
    | released a _ _ => rw [hc] at a; cases a
    | @body p m a b d e f g =>
      rw [hc] at a; cases a
      simp only [BodyOK] at d
      simp only [Oblivious] at f
      have hm : ∀ u, u ≠ t →
          (({ (c.set t { c.thr t with cur := some k, sub := 0 }) with mem := upd c.mem l v } : Config V ρ).thr u) = c.thr u := by
        intro u hu; simp [thr_set, hu]
      have hmt : (({ (c.set t { c.thr t with cur := some k, sub := 0 }) with mem := upd c.mem l v } : Config V ρ).thr t)
          = { c.thr t with cur := some k, sub := 0 } := by simp [thr_set]
      have hmain : ∀ u, (({ (c.set t { c.thr t with cur := some k, sub := 0 }) with mem := upd c.mem l v } : Config V ρ).thr u).main
          = (c.thr u).main := by
        intro u; by_cases hu : u = t
        · subst hu; rw [hmt]
        · rw [hm u hu]
      have hbk : m = .R → bk l := fun hR => by have := e hR; simp only [WritesOnly] at this; exact this.1
      constructor
      · intro u
        by_cases hu : u = t
        · subst hu; rw [hmt]
          refine .body rfl b d ?_ f g
          intro hR; have := e hR; simp only [WritesOnly] at this; exact this.2
        · rw [hm u hu]
          apply (h.shape u).mem_change
          intro hne
          cases m with
          | W => exact absurd (h.excl t u (fun e => hu e.symm) b) hne
          | R => exact agree_upd_bk c.mem (hbk rfl) v
      · intro u q hq
        by_cases hu : u = t
        · subst hu; rw [hmt] at hq; exact h.todo u q hq
        · rw [hm u hu] at hq; exact h.todo u q hq
      · intro u w huw hw
        rw [hmain] at hw ⊢; exact h.excl u w huw hw
      · intro m' hf
        cases m with
        | W =>
          have hx : ∀ t1 u, t1 ≠ u →
              (({ (c.set t { c.thr t with cur := some k, sub := 0 }) with mem := upd c.mem l v } : Config V ρ).thr t1).main = some .W →
              (({ (c.set t { c.thr t with cur := some k, sub := 0 }) with mem := upd c.mem l v } : Config V ρ).thr u).main = none := by
            intro t1 u ne hw; rw [hmain] at hw ⊢; exact h.excl t1 u ne hw
          have := fut_W (t := t) (p := k) hx (by rw [hmain]; exact b) (by rw [hmt]) hf
          rw [this]
          exact h.futMem _ (.inl ⟨t, _, b, hc, rfl⟩)
        | R =>
          have noW : ∀ u, (c.thr u).main ≠ some .W := by
            intro u hw
            by_cases hu : u = t
            · subst hu; rw [b] at hw; cases hw
            · have := h.excl u t hu hw; rw [b] at this; cases this
          have noW' : ∀ u, (({ (c.set t { c.thr t with cur := some k, sub := 0 }) with mem := upd c.mem l v } : Config V ρ).thr u).main ≠ some .W := by
            intro u; rw [hmain]; exact noW u
          rw [fut_noW noW' hf]
          exact (h.futMem c.mem (.inr ⟨noW, rfl⟩)).trans (agree_upd_bk c.mem (hbk rfl) v)
      · exact h.results
      · intro u
        by_cases hu : u = t
        · subst hu; rw [hmt]; exact h.perThread u
        · rw [hm u hu]; exact h.perThread u
  | @acq m k hc hmn ha =>
    cases h.shape t with
    | idle a _ _ => rw [hc] at a; cases a
    | body a b _ _ _ _ => rw [hmn] at b; cases b
    | released a _ _ => rw [hc] at a; cases a
    | waiting a b d e =>
      rw [hc] at a; cases a
      obtain ⟨m', k', e1, hbody, hwo, hobl⟩ := e
      cases e1
      let x : Thread V ρ := { c.thr t with cur := some k, main := some m, pred := some (k.run c.mem).2 }
      let ent : LinEntry V ρ := { tid := t, prog := k, pred := (k.run c.mem).2 }
      have hm : ∀ u, u ≠ t → (({ (c.set t x) with lin := c.lin ++ [ent] } : Config V ρ).thr u) = c.thr u := by
        intro u hu; simp [thr_set, hu]
      have hmt : (({ (c.set t x) with lin := c.lin ++ [ent] } : Config V ρ).thr t) = x := by simp [thr_set]
      have noW : ∀ u, (c.thr u).main ≠ some .W := by
        intro u hw
        by_cases hu : u = t
        · subst hu; rw [hmn] at hw; cases hw
        · cases m with
          | W => have := ha u hu; rw [hw] at this; cases this
          | R => exact ha u hu hw
      have ag : AgreeMain bk (seqRun c.lin mem0).1 c.mem := h.futMem c.mem (.inr ⟨noW, rfl⟩)
      have ra := run_agree k (seqRun c.lin mem0).1 c.mem hobl ag
      have hexcl : ∀ t1 u, t1 ≠ u →
          (({ (c.set t x) with lin := c.lin ++ [ent] } : Config V ρ).thr t1).main = some .W →
          (({ (c.set t x) with lin := c.lin ++ [ent] } : Config V ρ).thr u).main = none := by
        intro t1 u ne hw
        by_cases h1 : t1 = t
        · subst h1
          have hu : u ≠ t1 := fun e => ne e.symm
          rw [hmt] at hw; rw [hm u hu]
          have hmW : m = .W := by simpa [x] using hw
          subst hmW
          exact ha u hu
        · rw [hm t1 h1] at hw; exact absurd hw (noW t1)
      constructor
      · intro u
        by_cases hu : u = t
        · subst hu; rw [hmt]; exact .body rfl rfl hbody hwo hobl rfl
        · rw [hm u hu]; exact h.shape u
      · intro u q hq
        by_cases hu : u = t
        · subst hu; rw [hmt] at hq; exact h.todo u q hq
        · rw [hm u hu] at hq; exact h.todo u q hq
      · exact hexcl
      · intro m' hf
        show AgreeMain bk (seqRun (c.lin ++ [ent]) mem0).1 m'
        rw [seqRun_append]
        cases m with
        | W =>
          have := fut_W (t := t) (p := k) hexcl (by rw [hmt]) (by rw [hmt]) hf
          rw [this]; exact ra.2
        | R =>
          have noW' : ∀ u, (({ (c.set t x) with lin := c.lin ++ [ent] } : Config V ρ).thr u).main ≠ some .W := by
            intro u; by_cases hu : u = t
            · subst hu; rw [hmt]; simp [x]
            · rw [hm u hu]; exact noW u
          rw [fut_noW noW' hf]
          exact (run_writesOnly k _ (hwo rfl)).trans ag
      · show (seqRun (c.lin ++ [ent]) mem0).2 = (c.lin ++ [ent]).map (·.pred)
        rw [seqRun_append, List.map_append, h.results, ra.1]
        rfl
      · intro u
        show ((c.lin ++ [ent]).filter (fun e => e.tid == u)).map (·.pred) = _
        by_cases hu : u = t
        · subst hu; rw [hmt]
          have := h.perThread u
          rw [d] at this
          simp [List.filter_append, ent, x, this]
        · rw [hm u hu]
          have hne : (t == u) = false := by simp; exact fun e => hu e.symm
          simp [List.filter_append, ent, hne]
          exact h.perThread u

theorem LinInv.exec {bk : Loc → Prop} {mem0 : Loc → V} {c c' : Config V ρ} {s : List Tid}
    (h : LinInv bk mem0 c) (ex : Exec c s c') : LinInv bk mem0 c' := by
  induction ex with
  | nil => exact h
  | cons st _ ih => exact ih (h.step st)

/-- the log only grows, at its end -/
theorem Step.lin_prefix {c c' : Config V ρ} {t : Tid} (st : Step c t c') : ∃ suf, c'.lin = c.lin ++ suf := by
  cases st <;> first | exact ⟨_, rfl⟩ | exact ⟨[], (List.append_nil _).symm⟩

theorem Exec.lin_prefix {c c' : Config V ρ} {s : List Tid} (ex : Exec c s c') : ∃ suf, c'.lin = c.lin ++ suf := by
  induction ex with
  | nil => exact ⟨[], by simp⟩
  | cons st _ ih =>
    obtain ⟨s1, e1⟩ := st.lin_prefix
    obtain ⟨s2, e2⟩ := ih
    exact ⟨s1 ++ s2, by rw [e2, e1, List.append_assoc]⟩

end Verif.RW
