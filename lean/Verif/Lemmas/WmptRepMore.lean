/-
More about the representation relation `Rep` (Verif.Lemmas.WmptRep):

A. the side condition `Proper` of `rep_commit` / `rep_calcHash` (Verif.Lemmas.WmptRepCommit) is maintained by the
   mutating operations (`insert`, `delete`, `Update`, `Delete`, `Root()`), so that `rep_commit` applies after any
   sequence of updates and deletes; the same for `UpDirty` ("a dirty child has a dirty parent", also for branches), the
   extra side condition that `Serialize` of a node that is NOT dirty depends on (`Good` = `Proper` and `UpDirty`;
   `upDirty_commit`: `Commit` keeps it too).
   `insert` needs no hypothesis about the storage or the spec tree (`proper_insert`); `delete` does (`proper_delete`):
   `delete` on `short k (value …)` with a key longer than `k` leaves a short node with a nil child.
B. the live trie answers block-proof requests like its spec tree (`gbp_rep`, `blockProof_rep`) and still represents it
   afterwards (`gbp_node`, `blockProof_after`).  `serializeP_needs_upDirty`: `UpDirty` cannot be dropped.
Core Lean only.
-/
import Verif.Lemmas.WmptRepOps
import Verif.Lemmas.WmptRepCommit
import Verif.Lemmas.WmptSound
namespace Verif.Wmpt
namespace RepMore
open RepOps

/-! ### A.0 the shape of a freshly loaded node -/

/-- what `DeserializeNode` makes of a branch entry -/
def KidShape (c : WN) : Prop :=
  c = .nil ∨ (∃ h w, c = .hashRef h w) ∨ ∃ k h h' w, c = .short k h (.hashRef h' w) false false

/-- what `DeserializeNode` returns: a clean node whose children are references (or embedded short nodes over a
    reference) -/
def Shape (n : WN) : Prop :=
  n = .empty ∨ (∃ h w, n = .hashRef h w) ∨ (∃ h v w, n = .value h v w false) ∨
  (∃ k h h' w, n = .short k h (.hashRef h' w) false false) ∨
  ∃ h ch w, n = .routing h ch w false false ∧ ∀ i, KidShape (ch i)

theorem kidShape_deserializeChild (c : Bytes) (n : WN) (h : deserializeChild c = .ok (some n)) : KidShape n := by
  unfold deserializeChild at h
  simp only [show hashWithWeightLength = 40 from rfl] at h
  by_cases h40 : c.length ≥ 40
  · simp only [h40, if_true] at h
    have s1 : slice c 0 32 = .ok ((c.take 32).drop 0) := by unfold slice; simp; omega
    have s2 : sliceFrom c 32 = .ok (c.drop 32) := by unfold sliceFrom; simp; omega
    have s3 : uint64At (c.drop 32) = .ok (be64Dec (c.drop 32)) := by unfold uint64At; simp; omega
    simp only [s1, s2, s3] at h
    by_cases e : c.length = 40
    · simp only [e, if_true, Res.ok.injEq, Option.some.injEq] at h
      subst h; exact .inr (.inl ⟨_, _, rfl⟩)
    · simp only [e, if_false] at h
      by_cases l : c.length < 40 + 32
      · simp [l] at h
      · have h72 : 72 ≤ c.length := by omega
        have s4 : slice c 40 (40 + 32) = .ok ((c.take 72).drop 40) := by unfold slice; simp; omega
        have s5 : sliceFrom c (40 + 32) = .ok (c.drop 72) := by unfold sliceFrom; simp; omega
        simp only [l, if_false, s4, s5] at h
        by_cases hk : isNibbles (c.drop 72) = true
        · simp only [hk, Bool.not_true, Bool.false_eq_true, if_false, Res.ok.injEq, Option.some.injEq] at h
          subst h; exact .inr (.inr ⟨_, _, _, _, rfl⟩)
        · simp [hk] at h
  · simp [h40] at h

theorem kidShape_deserializeChildren (cs : List Bytes) (ns : List WN) (w : Nat)
    (h : deserializeChildren cs = .ok (ns, w)) : ∀ n ∈ ns, KidShape n := by
  induction cs generalizing ns w with
  | nil =>
    simp only [deserializeChildren, Res.ok.injEq, Prod.mk.injEq] at h
    intro n hn; rw [← h.1] at hn; cases hn
  | cons c tl ih =>
    unfold deserializeChildren at h
    cases hc : deserializeChild c with
    | err e => simp [hc] at h
    | ok o =>
      simp only [hc] at h
      cases ht : deserializeChildren tl with
      | err e => simp [ht] at h
      | ok r =>
        obtain ⟨ns', w'⟩ := r
        simp only [ht] at h
        cases o with
        | none =>
          simp only [Res.ok.injEq, Prod.mk.injEq] at h
          intro n hn
          rw [← h.1] at hn
          cases hn with
          | head => exact .inl rfl
          | tail _ hn' => exact ih ns' w' ht n hn'
        | some nd =>
          simp only [Res.ok.injEq, Prod.mk.injEq] at h
          intro n hn
          rw [← h.1] at hn
          cases hn with
          | head => exact kidShape_deserializeChild c nd hc
          | tail _ hn' => exact ih ns' w' ht n hn'

theorem shape_deserializeNode (q : PBase) (n : WN) (hq : deserializeNode q = .ok n) : Shape n := by
  unfold deserializeNode at hq
  cases hb : q.branch with
  | some b =>
    simp only [hb] at hq
    by_cases hl : b.children.length > branchNodeLength
    · simp [hl] at hq
    · simp only [hl, if_false] at hq
      cases hc : deserializeChildren b.children with
      | err e => simp [hc] at hq
      | ok r =>
        obtain ⟨ns, w'⟩ := r
        simp only [hc, Res.ok.injEq] at hq
        subst hq
        refine .inr (.inr (.inr (.inr ⟨_, _, _, rfl, fun j => ?_⟩)))
        simp only [ofList, List.getD_eq_getElem?_getD]
        cases hj : ns[j.val]? with
        | none => exact .inl rfl
        | some nd =>
          simp only [Option.getD_some]
          exact kidShape_deserializeChildren _ ns w' hc nd (List.mem_of_getElem? hj)
  | none =>
    simp only [hb] at hq
    cases hv : q.value with
    | some v =>
      simp only [hv, Res.ok.injEq] at hq
      subst hq; exact .inr (.inr (.inl ⟨_, _, _, rfl⟩))
    | none =>
      simp only [hv] at hq
      by_cases hn : q.nilNode
      · simp only [hn, if_true, Res.ok.injEq] at hq
        subst hq; exact .inl rfl
      · simp only [hn] at hq
        cases hh : q.hashNode with
        | some x =>
          simp only [hh, Bool.false_eq_true, if_false, Res.ok.injEq] at hq
          subst hq; exact .inr (.inl ⟨_, _, rfl⟩)
        | none =>
          simp only [hh] at hq
          cases hs : q.short with
          | none => simp [hs] at hq
          | some sv =>
            simp only [hs] at hq
            by_cases hk : isNibbles sv.key = true
            case neg => simp [hk] at hq
            simp only [hk, Bool.not_true, Bool.false_eq_true, if_false] at hq
            by_cases hl : sv.value.length ≠ hashWithWeightLength
            · simp [hl] at hq
            · simp only [hl, if_false] at hq
              cases h1 : slice sv.value 0 32 with
              | err e => simp [h1] at hq
              | ok vh =>
                cases h2 : sliceFrom sv.value 32 with
                | err e => simp [h1, h2] at hq
                | ok rest =>
                  simp only [h1, h2] at hq
                  cases h3 : uint64At rest with
                  | err e => simp [h3] at hq
                  | ok w' =>
                    simp only [h3, Res.ok.injEq] at hq
                    subst hq; exact .inr (.inr (.inr (.inl ⟨_, _, _, _, rfl⟩)))

theorem shape_resolveHash {hasDb : Bool} {s : Store} {h : Bytes} {n : WN} (hr : resolveHash hasDb s h = .ok n) :
    Shape n := by
  unfold resolveHash at hr
  split at hr
  · cases hr
  · split at hr
    · cases hr
    · split at hr
      · cases hr
      · exact shape_deserializeNode _ _ hr

theorem kidShape_refOf (H : Bytes → Bytes) (t : PT) : KidShape (PT.refOf H t) := by
  cases t with
  | none => exact .inl rfl
  | value v w => exact .inr (.inl ⟨_, _, rfl⟩)
  | short k c => exact .inr (.inr ⟨_, _, _, _, rfl⟩)
  | branch ch => exact .inr (.inl ⟨_, _, rfl⟩)

theorem shape_loaded (H : Bytes → Bytes) (t : PT) : Shape (PT.loaded H t) := by
  cases t with
  | none => exact .inl rfl
  | value v w => exact .inr (.inr (.inl ⟨_, _, _, rfl⟩))
  | short k c => exact .inr (.inr (.inr (.inl ⟨_, _, _, _, rfl⟩)))
  | branch ch => exact .inr (.inr (.inr (.inr ⟨_, _, _, rfl, fun i => kidShape_refOf H (ch i)⟩)))

/-! ### A.1 the invariants -/

/-- "a dirty child has a dirty parent": a node that is not dirty has no dirty child. (`Proper` has the short-node half
    of it.) `Serialize` of a clean branch quotes the cached hashes of its children, so this is what block proofs of a
    live trie need on top of `Proper`. -/
def UpDirty : WN → Prop
  | .short _ _ c d _ => (d = false → c.dirty = false) ∧ UpDirty c
  | .routing _ ch _ d _ => (d = false → ∀ i, (ch i).dirty = false) ∧ ∀ i, UpDirty (ch i)
  | _ => True

/-- what the structural arguments below use of an invariant (`Proper`, or `Proper` together with `UpDirty`) -/
structure NodeInv (I : WN → Prop) : Prop where
  nil : I .nil
  empty : I .empty
  ref : ∀ h w, I (.hashRef h w)
  value : ∀ h v w d, I (.value h v w d)
  short_mk : ∀ k h c tc, c.isNil = false → c ≠ .empty → I c → I (.short k h c true tc)
  routing_mk : ∀ h ch w tc, (∀ i, ch i ≠ .empty ∧ I (ch i)) → I (.routing h ch w true tc)
  short_dest : ∀ k h c d tc, I (.short k h c d tc) → c.isNil = false ∧ c ≠ .empty ∧ I c
  routing_dest : ∀ h ch w d tc, I (.routing h ch w d tc) → ∀ i, ch i ≠ .empty ∧ I (ch i)
  loaded : ∀ n, Shape n → I n

theorem proper_kidShape {c : WN} (h : KidShape c) : c ≠ .empty ∧ Proper c := by
  rcases h with rfl | ⟨h, w, rfl⟩ | ⟨k, h, h', w, rfl⟩ <;> simp [Proper, WN.isNil, WN.dirty]

theorem proper_shape {n : WN} (h : Shape n) : Proper n := by
  rcases h with rfl | ⟨h, w, rfl⟩ | ⟨h, v, w, rfl⟩ | ⟨k, h, h', w, rfl⟩ | ⟨h, ch, w, rfl, hk⟩
  · trivial
  · trivial
  · trivial
  · simp [Proper, WN.isNil, WN.dirty]
  · exact fun i => proper_kidShape (hk i)

theorem upDirty_kidShape {c : WN} (h : KidShape c) : c.dirty = false ∧ UpDirty c := by
  rcases h with rfl | ⟨h, w, rfl⟩ | ⟨k, h, h', w, rfl⟩ <;> simp [UpDirty, WN.dirty]

theorem upDirty_shape {n : WN} (h : Shape n) : UpDirty n := by
  rcases h with rfl | ⟨h, w, rfl⟩ | ⟨h, v, w, rfl⟩ | ⟨k, h, h', w, rfl⟩ | ⟨h, ch, w, rfl, hk⟩
  · trivial
  · trivial
  · trivial
  · simp [UpDirty, WN.dirty]
  · exact ⟨fun _ i => (upDirty_kidShape (hk i)).1, fun i => (upDirty_kidShape (hk i)).2⟩

theorem nodeInv_proper : NodeInv Proper where
  nil := trivial
  empty := trivial
  ref := fun _ _ => trivial
  value := fun _ _ _ _ => trivial
  short_mk := fun k h c tc h1 h2 h3 => ⟨h1, h2, by simp, h3⟩
  routing_mk := fun h ch w tc hk => hk
  short_dest := fun k h c d tc hp => ⟨hp.1, hp.2.1, hp.2.2.2⟩
  routing_dest := fun h ch w d tc hp => hp
  loaded := fun _ h => proper_shape h

/-- `Proper` together with `UpDirty` -/
def Good (n : WN) : Prop := Proper n ∧ UpDirty n

theorem nodeInv_good : NodeInv Good where
  nil := ⟨trivial, trivial⟩
  empty := ⟨trivial, trivial⟩
  ref := fun _ _ => ⟨trivial, trivial⟩
  value := fun _ _ _ _ => ⟨trivial, trivial⟩
  short_mk := fun k h c tc h1 h2 h3 => ⟨⟨h1, h2, by simp, h3.1⟩, by simp, h3.2⟩
  routing_mk := fun h ch w tc hk => ⟨fun i => ⟨(hk i).1, (hk i).2.1⟩, by simp, fun i => (hk i).2.2⟩
  short_dest := fun k h c d tc hp => ⟨hp.1.1, hp.1.2.1, hp.1.2.2.2, hp.2.2⟩
  routing_dest := fun h ch w d tc hp i => ⟨(hp.1 i).1, (hp.1 i).2, hp.2.2 i⟩
  loaded := fun _ h => ⟨proper_shape h, upDirty_shape h⟩

/-- loaded nodes (`PT.loaded`) are `Proper` -/
theorem proper_loaded (H : Bytes → Bytes) (t : PT) : Proper (PT.loaded H t) := proper_shape (shape_loaded H t)

theorem upDirty_loaded (H : Bytes → Bytes) (t : PT) : UpDirty (PT.loaded H t) := upDirty_shape (shape_loaded H t)

theorem proper_empty : Proper .empty := trivial

theorem proper_normRoot (n : WN) : Proper (normRoot n) ↔ Proper n := by
  cases n <;> simp [normRoot, WN.isNil, Proper]

theorem upDirty_normRoot (n : WN) : UpDirty (normRoot n) ↔ UpDirty n := by
  cases n <;> simp [normRoot, WN.isNil, UpDirty]

theorem good_normRoot (n : WN) : Good (normRoot n) ↔ Good n := by
  simp [Good, proper_normRoot, upDirty_normRoot]

/-! ### A.2 `CalcHash` -/

section Calc
variable (H : Bytes → Bytes)

theorem calcHash_fst_eq_empty (n : WN) : (calcHash H n).1 = .empty ↔ n = .empty := by
  cases n with
  | nil => simp [calcHash]
  | empty => simp [calcHash]
  | hashRef h w => simp [calcHash]
  | value h v w d => cases d <;> simp [calcHash]
  | routing h ch w d tc => cases d <;> simp [calcHash]
  | short k h c d tc =>
    cases d with
    | false => simp [calcHash]
    | true => by_cases hn : c.isNil <;> simp [calcHash, hn]

theorem calcHash_fst_weight (n : WN) : (calcHash H n).1.weight = n.weight := by
  induction n with
  | nil => rfl
  | empty => rfl
  | hashRef h w => rfl
  | value h v w d => cases d <;> rfl
  | routing h ch w d tc => cases d <;> rfl
  | short k h c d tc ih =>
    cases d with
    | false => rfl
    | true =>
      by_cases hn : c.isNil = true
      · cases c <;> simp_all [calcHash, WN.isNil, WN.weight]
      · simp only [calcHash, hn, Bool.false_eq_true, if_false, if_true, WN.weight, ih]

theorem proper_calcHash (n : WN) : Proper (calcHash H n).1 ↔ Proper n := by
  induction n with
  | nil => exact Iff.rfl
  | empty => exact Iff.rfl
  | hashRef h w => exact Iff.rfl
  | value h v w d => cases d <;> exact Iff.rfl
  | short k h c d tc ih =>
    cases d with
    | false => exact Iff.rfl
    | true =>
      by_cases hn : c.isNil = true
      · cases c <;> simp_all [calcHash, Proper, WN.isNil]
      · simp only [calcHash, hn, if_true, Bool.false_eq_true, if_false, Proper, calcHash_fst_isNil, calcHash_fst_dirty,
          ih, ne_eq, calcHash_fst_eq_empty]
  | routing h ch w d tc ih =>
    cases d with
    | false => exact Iff.rfl
    | true =>
      simp only [calcHash, if_true, Proper, List.map_map, Function.comp_def, ofList_map_allNib, ih, ne_eq,
        calcHash_fst_eq_empty]

theorem upDirty_calcHash (n : WN) : UpDirty (calcHash H n).1 ↔ UpDirty n := by
  induction n with
  | nil => exact Iff.rfl
  | empty => exact Iff.rfl
  | hashRef h w => exact Iff.rfl
  | value h v w d => cases d <;> exact Iff.rfl
  | short k h c d tc ih =>
    cases d with
    | false => exact Iff.rfl
    | true =>
      by_cases hn : c.isNil = true
      · cases c <;> simp_all [calcHash, UpDirty, WN.isNil]
      · simp only [calcHash, hn, if_true, Bool.false_eq_true, if_false, UpDirty, calcHash_fst_dirty, ih]
  | routing h ch w d tc ih =>
    cases d with
    | false => exact Iff.rfl
    | true =>
      simp only [calcHash, if_true, UpDirty, List.map_map, Function.comp_def, ofList_map_allNib, ih, calcHash_fst_dirty]

theorem good_calcHash (n : WN) : Good (calcHash H n).1 ↔ Good n := by
  simp [Good, proper_calcHash, upDirty_calcHash]

/-- `Root()` keeps `Proper` -/
theorem proper_rootHash (t : WT) : Proper (rootHash H t).1.root ↔ Proper t.root := by
  unfold rootHash
  split
  · exact proper_calcHash H t.root
  · exact Iff.rfl

theorem upDirty_rootHash (t : WT) : UpDirty (rootHash H t).1.root ↔ UpDirty t.root := by
  unfold rootHash
  split
  · exact upDirty_calcHash H t.root
  · exact Iff.rfl

end Calc

/-! ### A.3 `insert` -/

section Ins
variable {I : WN → Prop}

theorem inv_mkShort (hI : NodeInv I) {k : Bytes} {c : WN} (h1 : c.isNil = false) (h2 : c ≠ .empty) (h3 : I c) :
    mkShort k c ≠ .empty ∧ I (mkShort k c) := by
  unfold mkShort; split
  · exact ⟨h2, h3⟩
  · exact ⟨by simp, hI.short_mk _ _ _ _ h1 h2 h3⟩

theorem inv_upd {ch : Nib → WN} {x : WN} (k : Nib) (hc : ∀ i, ch i ≠ .empty ∧ I (ch i)) (hx : x ≠ .empty ∧ I x) :
    ∀ i, upd ch k x i ≠ .empty ∧ I (upd ch k x i) := by
  intro i; unfold upd; split
  · exact hx
  · exact hc i

/-- what `insert` keeps of an invariant: the node afterwards (also after a failure) satisfies it, and it is neither
    nil nor `.empty` when the call succeeded or the node was not before -/
def InsInv (I : WN → Prop) (n : WN) (r : IRes) : Prop :=
  I r.node ∧ ((n.isNil = false ∨ r.err = none) → r.node.isNil = false) ∧ ((n ≠ .empty ∨ r.err = none) → r.node ≠ .empty)

theorem inv_insert (hI : NodeInv I) (hasDb : Bool) (s : Store) (value : WN) (hv : I value) (hvn : value.isNil = false)
    (hve : value ≠ .empty) :
    ∀ (fuel : Nat) (n : WN) (key : List Nib), I n → InsInv I n (insert hasDb s fuel n key value) := by
  intro fuel
  induction fuel with
  | zero =>
    intro n key hn
    simp only [insert]
    exact ⟨hn, fun h => h.elim id (fun e => by cases e), fun h => h.elim id (fun e => by cases e)⟩
  | succ fuel ih =>
    intro n key hn
    have hself : ∀ e : Err, InsInv I n { node := n, err := some e } := fun e =>
      ⟨hn, fun h => h.elim id (fun e => by cases e), fun h => h.elim id (fun e => by cases e)⟩
    have hvalue : ∀ c : Int, InsInv I n { node := value, change := c } := fun c => ⟨hv, fun _ => hvn, fun _ => hve⟩
    have hval : ∀ a b c d (e : Int), InsInv I n { node := .value a b c d, change := e } := fun a b c d e =>
      ⟨hI.value _ _ _ _, fun _ => rfl, fun _ => by simp⟩
    cases key with
    | nil =>
      simp only [insert]
      split
      · exact hself _
      · split
        · split
          · split
            · exact hval _ _ _ _ _
            · exact hval _ _ _ _ _
          · exact hself _
        · exact hvalue _
    | cons k ks =>
      cases n with
      | nil =>
        simp only [insert]
        exact ⟨hI.short_mk _ _ _ _ hvn hve hv, fun _ => rfl, fun _ => by simp⟩
      | empty =>
        simp only [insert]
        exact ⟨hI.short_mk _ _ _ _ hvn hve hv, fun _ => rfl, fun _ => by simp⟩
      | value a b c d =>
        simp only [insert]
        exact hself _
      | hashRef h w =>
        simp only [insert]
        split
        · exact hself _
        · rename_i rn hr
          have := ih rn (k :: ks) (hI.loaded _ (shape_resolveHash hr))
          split
          · exact hself _
          · rename_i he
            exact ⟨this.1, fun _ => this.2.1 (.inr he), fun _ => this.2.2 (.inr he)⟩
      | routing h ch w d tc =>
        simp only [insert]
        have hk := hI.routing_dest _ _ _ _ _ hn
        have := ih (ch k) ks (hk k).2
        have hch := inv_upd k hk ⟨this.2.2 (.inl (hk k).1), this.1⟩
        split
        · exact ⟨hI.routing_mk _ _ _ _ hch, fun _ => rfl, fun _ => by simp⟩
        · exact ⟨hI.routing_mk _ _ _ _ hch, fun _ => rfl, fun _ => by simp⟩
      | short key h c d tc =>
        simp only [insert]
        obtain ⟨hc1, hc2, hc3⟩ := hI.short_dest _ _ _ _ _ hn
        split
        · have := ih c (List.drop (commonPrefix key (List.map nb (k :: ks))) (k :: ks)) hc3
          exact ⟨hI.short_mk _ _ _ _ (this.2.1 (.inl hc1)) (this.2.2 (.inl hc2)) this.1, fun _ => rfl, fun _ => by simp⟩
        · have hb : ∀ i1 i2 k1 k2 w, I (WN.routing [] (upd (upd noCh i1 (mkShort k1 c)) i2 (mkShort k2 value)) w true false) :=
            fun i1 i2 k1 k2 w => hI.routing_mk _ _ _ _
              (inv_upd i2 (inv_upd i1 (fun _ => ⟨by simp [noCh], hI.nil⟩) (inv_mkShort hI hc1 hc2 hc3))
                (inv_mkShort hI hvn hve hv))
          split
          · split
            · exact ⟨hb _ _ _ _ _, fun _ => rfl, fun _ => by simp⟩
            · exact ⟨hI.short_mk _ _ _ _ rfl (by simp) (hb _ _ _ _ _), fun _ => rfl, fun _ => by simp⟩
          · exact ⟨hI.short_mk _ _ _ _ hc1 hc2 hc3, fun _ => rfl, fun _ => by simp⟩

end Ins

/-! ### A.4 `delete` -/

section Del
variable {I : WN → Prop} {H : Bytes → Bytes} {s : Store}

theorem soleChild_some {ch : Nib → WN} {pos : Nib} (h : soleChild ch = some pos) : (ch pos).isNil = false := by
  unfold soleChild at h
  split at h
  · rename_i i hf
    simp only [Option.some.injEq] at h
    subst h
    have : i ∈ allNib.filter (fun i => !(ch i).isNil) := by rw [hf]; simp
    simpa using (List.mem_filter.mp this).2
  · simp at h

theorem inv_resolveNode (hI : NodeInv I) {hasDb : Bool} {x cn : WN} (hx : I x) (hr : resolveNode hasDb s x = .ok cn) :
    I cn := by
  unfold resolveNode at hr
  split at hr
  · cases hr; exact hx
  · split at hr
    · exact hI.loaded _ (shape_resolveHash hr)
    · cases hr; exact hx

/-- a successful `delete` keeps the invariant -/
def DelInv (I : WN → Prop) (r : DRes) : Prop := r.err = none → I r.node

theorem inv_delete_aux (hI : NodeInv I) (hlen : ∀ x, (H x).length = 32) :
    ∀ (fuel : Nat) (n : WN) (t : PT) (m : Nat) (key : List Nib),
    RepS H s n t → NoEmp n → Uniform m t → PTOK t → key.length = m → need n key ≤ fuel → I n →
    DelInv I (delete H true s fuel n key) := by
  intro fuel
  induction fuel with
  | zero =>
    intro n t m key _ _ _ _ _ hf
    unfold need at hf
    split at hf <;> omega
  | succ fuel ih =>
    intro n t m key hrep hne hu hok hk hf hn
    cases hrep with
    | nil => intro he; simp [delete] at he
    | empty => intro he; simp [delete] at he
    | value h vv vw d hcl =>
      by_cases hk' : key = []
      · subst hk'; intro _; simp only [delete, ne_eq, not_true_eq_false, if_false]; exact hI.nil
      · intro he; simp [delete, hk'] at he
    | ref t hn0 hst =>
      have hres := resolve_stored H hlen s t hn0 hst hok.1 hok.2
      have hf' : need (PT.loaded H t) key ≤ fuel := by
        rw [need_of_ref rfl] at hf
        rw [need_of_not_ref (loaded_not_ref hn0)]
        omega
      have IH := ih (PT.loaded H t) t m key (rep_loaded hst hn0 hu) (noEmp_loaded t) hu hok hk hf'
        (hI.loaded _ (shape_loaded H t))
      simp only [delete, hres]
      generalize delete H true s fuel (PT.loaded H t) key = r at IH ⊢
      split
      · intro he; cases he
      · rename_i he; intro _; exact IH he
    | short sk h c d tc tc' hc hcl =>
      obtain ⟨sn, rfl⟩ := exists_nibs sk hu.2.1
      obtain ⟨hs, hle, hvb, huc⟩ := uniform_short_iff.mp hu
      simp only [NoEmp] at hne
      obtain ⟨hc1, hc2, hc3⟩ := hI.short_dest _ _ _ _ _ hn
      rcases cp_cases sn key (by omega) with ⟨K2, rfl⟩ | ⟨a, i1, s', i2, K', rfl, rfl, hni⟩
      · rw [delete_short_prefix_m]
        by_cases hK : K2 = []
        · subst hK
          simp only [if_true]
          intro _; exact hI.nil
        · simp only [hK, if_false]
          have hk2 : K2.length = m - sn.length := by simp at hk; omega
          have hsl : sn.length ≠ 0 := by simpa using hs
          have hK2 : K2.length ≠ 0 := by simpa using hK
          have hf' : need c K2 ≤ fuel := by
            unfold need at hf ⊢
            simp only [isRef, Bool.false_eq_true, if_false, List.length_append] at hf
            split <;> omega
          have D := rep_delete_aux hlen fuel c tc' _ K2 hc hne.2 huc hok.short hk2 hf'
          have IH := ih c tc' _ K2 hc hne.2 huc hok.short hk2 hf' hc3
          generalize delete H true s fuel c K2 = r at D IH ⊢
          obtain ⟨node, change, err, td⟩ := r
          rcases D with ⟨h1, h2, h3⟩ | ⟨h1, h2, h3, h4, t'', h5, h6, h7⟩
          · simp only at h1
            subst h1
            intro he; cases he
          · simp only at h1 h3 h6
            subst h1
            have IH' : I node := IH rfl
            have hne'' : t''.isNone = false := by
              cases tc' with
              | none => simp [PT.isVB] at hvb
              | short _ _ => simp [PT.isVB] at hvb
              | value vv vw =>
                simp only [Uniform] at huc
                omega
              | branch g =>
                have := PT.delete_branch_ne g K2
                rw [h5] at this
                cases t'' <;> simp_all [PT.isNone]
            obtain ⟨hn1, hn2⟩ := h6.not_nil_empty hne''
            intro _
            cases node with
            | short ck chh cc cd ctc =>
              obtain ⟨x1, x2, x3⟩ := hI.short_dest _ _ _ _ _ IH'
              exact hI.short_mk _ _ _ _ x1 x2 x3
            | nil => exact hI.nil
            | empty => exact hI.short_mk _ _ _ _ hn1 hn2 IH'
            | hashRef _ _ => exact hI.short_mk _ _ _ _ hn1 hn2 IH'
            | value _ _ _ _ => exact hI.short_mk _ _ _ _ hn1 hn2 IH'
            | routing _ _ _ _ _ => exact hI.short_mk _ _ _ _ hn1 hn2 IH'
      · rw [delete_short_split_m _ _ _ _ _ _ hni]
        intro he; cases he
    | routing h ch cw d tc f hch hroute hcw hcl =>
      simp only [Uniform] at hu
      simp only [NoEmp] at hne
      have hkids := hI.routing_dest _ _ _ _ _ hn
      cases key with
      | nil => simp at hk; omega
      | cons k ks =>
        simp only [List.length_cons] at hk
        have hf' : need (ch k) ks ≤ fuel := by
          unfold need at hf ⊢
          simp only [isRef, Bool.false_eq_true, if_false, List.length_cons] at hf
          split <;> omega
        have D := rep_delete_aux hlen fuel (ch k) (f k) (m - 1) ks (hch k) (hne k).2 (hu.2 k) (hok.child k) (by omega) hf'
        have IH := ih (ch k) (f k) (m - 1) ks (hch k) (hne k).2 (hu.2 k) (hok.child k) (by omega) hf' (hkids k).2
        simp only [delete]
        generalize delete H true s fuel (ch k) ks = r at D IH ⊢
        rcases D with ⟨h1, h2, h3⟩ | ⟨h1, h2, h3, h4, t'', h5, h6, h7⟩
        · simp only [h1]
          intro he; cases he
        · simp only [h1]
          have hch' := inv_upd k hkids ⟨h3, IH h1⟩
          split
          · intro _; exact hI.routing_mk _ _ _ _ hch'
          · split
            · intro _; exact hI.routing_mk _ _ _ _ hch'
            · rename_i pos hsole
              split
              · intro he; cases he
              · rename_i cn hr
                have hcn := inv_resolveNode hI (hch' pos).2 hr
                split
                · obtain ⟨x1, x2, x3⟩ := hI.short_dest _ _ _ _ _ hcn
                  intro _; exact hI.short_mk _ _ _ _ x1 x2 x3
                · intro _; exact hI.short_mk _ _ _ _ (soleChild_some hsole) (hch' pos).1 (hch' pos).2

/-- A (delete): under the hypotheses of `RepOps.rep_delete`, a successful `delete` keeps an invariant such as `Proper`
    (in the not-found case the node is unchanged, `RepOps.rep_delete`). The hypotheses about the spec tree tie the node to a
    well-formed trie (before fixes acaed54 / 9bafaec `delete` could leave a short node with a nil child on other shapes). -/
theorem inv_delete (hI : NodeInv I) (hlen : ∀ x, (H x).length = 32) {n : WN} {t : PT} {m fuel : Nat} {key : List Nib}
    (hrep : RepS H s n t) (hne : NoEmp n) (hu : Uniform m t) (hok : PTOK t) (hk : key.length = m)
    (hf : 2 * m + 2 ≤ fuel) (hn : I n) (he : (delete H true s fuel n key).err = none) :
    I (delete H true s fuel n key).node :=
  inv_delete_aux hI hlen fuel n t m key hrep hne hu hok hk (Nat.le_trans (need_le n key) (by omega)) hn he

end Del

/-! ### A.5 whole tries: `Update`, `Delete` -/

section Trie
variable {I : WN → Prop} {H : Bytes → Bytes}

theorem inv_normRoot (hI : NodeInv I) {n : WN} (h : I n) : I (normRoot n) := by
  unfold normRoot; split
  · exact hI.empty
  · exact h

/-- `Update(key, value ≠ "", weight)` keeps the invariant, whatever the outcome (no hypothesis about the storage) -/
theorem inv_update_insert (hI : NodeInv I) (t : WT) (key : List Nib) (value : Bytes) (w : Nat) (hv : value ≠ [])
    (h : I t.root) : I (update H t key value w).1.root := by
  have := inv_insert hI t.hasDb t.store (.value [] value w true) (hI.value _ _ _ _) rfl (by simp) (fuelFor key)
    (normRoot t.root) key (inv_normRoot hI h)
  unfold update
  split
  · exact h
  · dsimp only
    split
    · exact inv_normRoot hI this.1
    · exact this.1

/-- `Update(key, "", _)` = delete, under the hypotheses of `RepOps.rep_update_delete` -/
theorem inv_update_delete (hI : NodeInv I) (hlen : ∀ x, (H x).length = 32) (t : WT) (ts : PT) (key : List Nib) (w : Nat)
    (hdb : t.hasDb = true) (hrep : RepS H t.store (normRoot t.root) ts) (hne : NoEmp t.root)
    (hu : Uniform 64 ts) (hok : PTOK ts) (hk : key.length = 64) (h : I t.root) :
    I (update H t key [] w).1.root := by
  have hf : 2 * 64 + 2 ≤ fuelFor key := by have := fuelFor_ok key; omega
  have hne' := (noEmp_normRoot _).mpr hne
  have hd := rep_delete (s := t.store) (fuel := fuelFor key) hlen hrep hne' hu hok hk hf
  rcases hd with ⟨h1, h2, h3⟩ | ⟨h1, _⟩
  · have e : (update H t key [] w).1.root = normRoot (normRoot t.root) := by
      simp only [update, hk, ne_eq, not_true_eq_false, if_false, hdb, h1, h3]
    rw [e]
    exact inv_normRoot hI (inv_normRoot hI h)
  · have e : (update H t key [] w).1.root = normRoot (delete H true t.store (fuelFor key) (normRoot t.root) key).node := by
      simp only [update, hk, ne_eq, not_true_eq_false, if_false, hdb, h1]
    rw [e]
    exact inv_normRoot hI (inv_delete hI hlen hrep hne' hu hok hk hf (inv_normRoot hI h) h1)

/-- `Delete(key)`, under the hypotheses of `RepOps.rep_deleteKey` -/
theorem inv_deleteKey (hI : NodeInv I) (hlen : ∀ x, (H x).length = 32) (t : WT) (ts : PT) (m : Nat) (key : List Nib)
    (hdb : t.hasDb = true) (hrep : RepS H t.store (normRoot t.root) ts) (hne : NoEmp t.root)
    (hu : Uniform m ts) (hok : PTOK ts) (hk : key.length = m) (h : I t.root) :
    I (deleteKey H t key).1.root := by
  have hf : 2 * m + 2 ≤ fuelFor key := by have := fuelFor_ok key; omega
  by_cases he : t.root = .empty
  · have e : (deleteKey H t key).1.root = .empty := by
      simp only [deleteKey, he, hdb, fuelFor, delete]
    rw [e]; exact hI.empty
  · have hrep' := rep_of_normRoot hrep he
    have hd := rep_delete (s := t.store) (fuel := fuelFor key) hlen hrep' hne hu hok hk hf
    rcases hd with ⟨h1, h2, h3⟩ | ⟨h1, _⟩
    · have e : (deleteKey H t key).1.root = t.root := by
        simp only [deleteKey, hdb, h1, h3]
      rw [e]; exact h
    · have e : (deleteKey H t key).1.root = normRoot (delete H true t.store (fuelFor key) t.root key).node := by
        simp only [deleteKey, hdb, h1]
      rw [e]
      exact inv_normRoot hI (inv_delete hI hlen hrep' hne hu hok hk hf h h1)

end Trie

/-! ### A.6 the instances for `Proper` (and for `Proper` with `UpDirty`) -/

section Inst
variable {H : Bytes → Bytes} {s : Store}

/-- A (insert): `insert` keeps `Proper`, whatever the outcome; no hypothesis about the storage or the spec tree is
    needed (every node on the path is marked dirty before the descent, new nodes are dirty, loaded nodes are `Proper`) -/
theorem proper_insert (hasDb : Bool) (s : Store) (fuel : Nat) (n : WN) (key : List Nib) (v : Bytes) (w : Nat)
    (hp : Proper n) : Proper (insert hasDb s fuel n key (.value [] v w true)).node :=
  (inv_insert nodeInv_proper hasDb s (.value [] v w true) trivial rfl (by simp) fuel n key hp).1

theorem good_insert (hasDb : Bool) (s : Store) (fuel : Nat) (n : WN) (key : List Nib) (v : Bytes) (w : Nat)
    (hp : Good n) : Good (insert hasDb s fuel n key (.value [] v w true)).node :=
  (inv_insert nodeInv_good hasDb s (.value [] v w true) ⟨trivial, trivial⟩ rfl (by simp) fuel n key hp).1

/-- A (delete): under the hypotheses of `RepOps.rep_delete`, a successful `delete` keeps `Proper` -/
theorem proper_delete (hlen : ∀ x, (H x).length = 32) {n : WN} {t : PT} {m fuel : Nat} {key : List Nib}
    (hrep : RepS H s n t) (hne : NoEmp n) (hu : Uniform m t) (hok : PTOK t) (hk : key.length = m)
    (hf : 2 * m + 2 ≤ fuel) (hp : Proper n) (he : (delete H true s fuel n key).err = none) :
    Proper (delete H true s fuel n key).node :=
  inv_delete nodeInv_proper hlen hrep hne hu hok hk hf hp he

theorem good_delete (hlen : ∀ x, (H x).length = 32) {n : WN} {t : PT} {m fuel : Nat} {key : List Nib}
    (hrep : RepS H s n t) (hne : NoEmp n) (hu : Uniform m t) (hok : PTOK t) (hk : key.length = m)
    (hf : 2 * m + 2 ≤ fuel) (hp : Good n) (he : (delete H true s fuel n key).err = none) :
    Good (delete H true s fuel n key).node :=
  inv_delete nodeInv_good hlen hrep hne hu hok hk hf hp he

theorem proper_update_insert (t : WT) (key : List Nib) (value : Bytes) (w : Nat) (hv : value ≠ [])
    (hp : Proper t.root) : Proper (update H t key value w).1.root :=
  inv_update_insert nodeInv_proper t key value w hv hp

theorem good_update_insert (t : WT) (key : List Nib) (value : Bytes) (w : Nat) (hv : value ≠ [])
    (hp : Good t.root) : Good (update H t key value w).1.root :=
  inv_update_insert nodeInv_good t key value w hv hp

theorem proper_update_delete (hlen : ∀ x, (H x).length = 32) (t : WT) (ts : PT) (key : List Nib) (w : Nat)
    (hdb : t.hasDb = true) (hrep : RepS H t.store (normRoot t.root) ts) (hne : NoEmp t.root)
    (hu : Uniform 64 ts) (hok : PTOK ts) (hk : key.length = 64) (hp : Proper t.root) :
    Proper (update H t key [] w).1.root :=
  inv_update_delete nodeInv_proper hlen t ts key w hdb hrep hne hu hok hk hp

theorem good_update_delete (hlen : ∀ x, (H x).length = 32) (t : WT) (ts : PT) (key : List Nib) (w : Nat)
    (hdb : t.hasDb = true) (hrep : RepS H t.store (normRoot t.root) ts) (hne : NoEmp t.root)
    (hu : Uniform 64 ts) (hok : PTOK ts) (hk : key.length = 64) (hp : Good t.root) :
    Good (update H t key [] w).1.root :=
  inv_update_delete nodeInv_good hlen t ts key w hdb hrep hne hu hok hk hp

theorem proper_deleteKey (hlen : ∀ x, (H x).length = 32) (t : WT) (ts : PT) (m : Nat) (key : List Nib)
    (hdb : t.hasDb = true) (hrep : RepS H t.store (normRoot t.root) ts) (hne : NoEmp t.root)
    (hu : Uniform m ts) (hok : PTOK ts) (hk : key.length = m) (hp : Proper t.root) :
    Proper (deleteKey H t key).1.root :=
  inv_deleteKey nodeInv_proper hlen t ts m key hdb hrep hne hu hok hk hp

theorem good_deleteKey (hlen : ∀ x, (H x).length = 32) (t : WT) (ts : PT) (m : Nat) (key : List Nib)
    (hdb : t.hasDb = true) (hrep : RepS H t.store (normRoot t.root) ts) (hne : NoEmp t.root)
    (hu : Uniform m ts) (hok : PTOK ts) (hk : key.length = m) (hp : Good t.root) :
    Good (deleteKey H t key).1.root :=
  inv_deleteKey nodeInv_good hlen t ts m key hdb hrep hne hu hok hk hp

end Inst

/-! ### A.7 `Commit` keeps `UpDirty` (it keeps `Proper` by `rep_commit`) -/

section CommitUp
variable {H : Bytes → Bytes}

theorem saveNode_value_fst (h v : Bytes) (w : Nat) (d : Bool) :
    ∃ hh, (saveNode H (.value h v w d)).1 = .value hh v w false := by
  refine ⟨(saveNode H (.value h v w d)).1.hashField H, ?_⟩
  cases d <;> simp [saveNode, serializeP, calcHash, WN.hashField]

theorem saveNode_short_fst (k h : Bytes) (c : WN) (tc : Bool) :
    ∃ hh, (saveNode H (.short k h c true tc)).1 = .short k hh (calcHash H c).1 false false := by
  refine ⟨(saveNode H (.short k h c true tc)).1.hashField H, ?_⟩
  by_cases hn : c.isNil = true
  · cases c <;> simp [WN.isNil] at hn
    simp [saveNode, serializeP, calcHash, WN.isNil, WN.hashField]
  · simp [saveNode, serializeP, calcHash, hn, WN.hashField]

theorem saveNode_routing_fst (h : Bytes) (ch : Nib → WN) (w : Nat) (tc : Bool) :
    ∃ hh, (saveNode H (.routing h ch w true tc)).1 = .routing hh (fun i => (calcHash H (ch i)).1) w false false := by
  refine ⟨(saveNode H (.routing h ch w true tc)).1.hashField H, ?_⟩
  simp [saveNode, serializeP, calcHash, List.map_map, Function.comp_def, ofList_map_allNib', WN.hashField]

theorem upDirty_commitNode (collapse : Int) (n : WN) : ∀ lvl, UpDirty n →
    (commitNode H collapse lvl n).node.dirty = false ∧ UpDirty (commitNode H collapse lvl n).node := by
  induction n with
  | nil => intro lvl hu; exact ⟨rfl, trivial⟩
  | empty => intro lvl hu; exact ⟨rfl, trivial⟩
  | hashRef h w => intro lvl hu; exact ⟨rfl, trivial⟩
  | value h v w d =>
    intro lvl hu
    cases d with
    | false => exact ⟨rfl, trivial⟩
    | true =>
      obtain ⟨hh, e⟩ := saveNode_value_fst (H := H) h v w true
      simp only [commitNode, Bool.not_true, Bool.false_eq_true, if_false, e]
      exact ⟨rfl, trivial⟩
  | short k h c d tc ih =>
    intro lvl hu
    cases d with
    | false => rw [commitNode_clean collapse lvl _ rfl]; exact ⟨rfl, hu⟩
    | true =>
      have hk : (if c.isNil = true then ({ node := c } : CRes) else commitNode H collapse (lvl + 1) c).node.dirty = false ∧
          UpDirty (if c.isNil = true then ({ node := c } : CRes) else commitNode H collapse (lvl + 1) c).node := by
        split
        · rename_i hn
          cases c <;> simp [WN.isNil] at hn
          exact ⟨rfl, trivial⟩
        · exact ih (lvl + 1) hu.2
      simp only [commitNode, Bool.not_true, Bool.false_eq_true, if_false]
      generalize (if c.isNil = true then ({ node := c } : CRes) else commitNode H collapse (lvl + 1) c) = rc at hk ⊢
      obtain ⟨hh, e⟩ := saveNode_short_fst (H := H) k h rc.node tc
      rw [e]
      simp only
      split
      · exact ⟨rfl, fun _ => rfl, trivial⟩
      · exact ⟨rfl, fun _ => by rw [calcHash_fst_dirty]; exact hk.1, (upDirty_calcHash H _).mpr hk.2⟩
  | routing h ch w d tc ih =>
    intro lvl hu
    cases d with
    | false => rw [commitNode_clean collapse lvl _ rfl]; exact ⟨rfl, hu⟩
    | true =>
      have hk : ∀ i, (commitKid H collapse (lvl + 1) (ch i)).node.dirty = false ∧
          UpDirty (commitKid H collapse (lvl + 1) (ch i)).node := by
        intro i
        unfold commitKid
        split
        · rename_i hc
          refine ⟨?_, hu.2 i⟩
          cases hci : ch i <;> simp_all [WN.isNil, WN.dirty]
        · exact ih i (lvl + 1) (hu.2 i)
      rw [commitNode_routing_node]
      obtain ⟨hh, e⟩ := saveNode_routing_fst (H := H) h (fun i => (commitKid H collapse (lvl + 1) (ch i)).node) w tc
      split
      · exact ⟨rfl, trivial⟩
      · rw [e]
        exact ⟨rfl, fun _ i => by rw [calcHash_fst_dirty]; exact (hk i).1, fun i => (upDirty_calcHash H _).mpr (hk i).2⟩

/-- `Commit(collapseLevel)` leaves a trie whose root is not dirty and that satisfies `UpDirty` -/
theorem upDirty_commit (collapse : Int) (t : WT) (hu : UpDirty t.root) :
    (commit H t collapse).1.root.dirty = false ∧ UpDirty (commit H t collapse).1.root := by
  obtain ⟨root, hasDb, store, oldRoot, deleted, tempDeleted, pending, created⟩ := t
  simp only at hu
  by_cases hd : root.dirty = false
  · have e : (commit H ⟨root, hasDb, store, oldRoot, deleted, tempDeleted, pending, created⟩ collapse).1.root = root := by
      simp [commit, hd]
    rw [e]; exact ⟨hd, hu⟩
  · have hd' : root.dirty = true := by simpa using hd
    cases root with
    | nil => simp [WN.dirty] at hd'
    | empty => simp [WN.dirty] at hd'
    | hashRef _ _ => simp [WN.dirty] at hd'
    | value hh v w d =>
      have e : (commit H ⟨.value hh v w d, hasDb, store, oldRoot, deleted, tempDeleted, pending, created⟩ collapse).1.root =
          (commitNode H collapse 0 (.value hh v w d)).node := by simp [commit, hd']
      rw [e]; exact upDirty_commitNode collapse _ 0 hu
    | short k hh c d tc =>
      have e : (commit H ⟨.short k hh c d tc, hasDb, store, oldRoot, deleted, tempDeleted, pending, created⟩ collapse).1.root =
          (commitNode H collapse 0 (.short k hh c d tc)).node := by simp [commit, hd']
      rw [e]; exact upDirty_commitNode collapse _ 0 hu
    | routing hh ch w d tc =>
      simp only [WN.dirty] at hd'; subst hd'
      have hdd : (WN.routing hh ch w true tc).dirty = true := rfl
      have hk : ∀ i, (commitKid H collapse 1 (ch i)).node.dirty = false ∧ UpDirty (commitKid H collapse 1 (ch i)).node := by
        intro i
        unfold commitKid
        split
        · rename_i hc
          refine ⟨?_, hu.2 i⟩
          cases hci : ch i <;> simp_all [WN.isNil, WN.dirty]
        · exact upDirty_commitNode collapse _ 1 (hu.2 i)
      obtain ⟨h', e'⟩ := saveNode_routing_fst (H := H) hh (fun i => (commitKid H collapse 1 (ch i)).node) w tc
      have e : (commit H ⟨.routing hh ch w true tc, hasDb, store, oldRoot, deleted, tempDeleted, pending, created⟩ collapse).1.root =
          (saveNode H (.routing hh (fun i => (commitKid H collapse 1 (ch i)).node) w true tc)).1 := by
        simp only [commit, hdd, Bool.not_true, Bool.false_eq_true, if_false, List.map_map, Function.comp_def,
          ofList_map_allNib', commitKid]
      rw [e, e']
      exact ⟨rfl, fun _ i => by rw [calcHash_fst_dirty]; exact (hk i).1, fun i => (upDirty_calcHash H _).mpr (hk i).2⟩

end CommitUp

/-! ### B.1 `Serialize` of an in-memory node with dirty children -/

section Ser
variable {H : Bytes → Bytes} {P : PT → Prop}

/-- after `CalcHash` the cached hash of a (non-nil) node is the hash of the spec tree it stands for -/
theorem hashField_calcHash_rep {c : WN} {tc : PT} (h : Rep H P c tc) (hp : Proper c) (hn : c.isNil = false) :
    (calcHash H c).1.hashField H = PT.hash H tc := by
  rw [← calcHash_snd_eq_hashField H c hn]
  exact (rep_calcHash h hp).2

theorem weight_calcHash_rep {c : WN} {tc : PT} (h : Rep H P c tc) : (calcHash H c).1.weight = tc.weight := by
  rw [calcHash_fst_weight, h.weight]

/-- the branch entry of a child whose hashes have just been refreshed is the honest entry of its subtree -/
theorem childEntry_calcHash_rep {c : WN} {tc : PT} (h : Rep H P c tc) (he : c ≠ .empty) (hp : Proper c)
    (href : ∀ hh ww, c = .hashRef hh ww → tc.isShort = false) :
    childEntry H (calcHash H c).1 = PT.childEntry H tc := by
  have hw := weight_calcHash_rep h
  cases h with
  | nil => rfl
  | empty => exact absurd rfl he
  | ref t hn _ =>
    have hs := href _ _ rfl
    cases tc <;> simp_all [PT.isNone, PT.isShort, childEntry, PT.childEntry, WN.hashField, WN.weight, PT.weight, calcHash]
  | value h v w d hc =>
    cases d with
    | false => simp [calcHash, childEntry, PT.childEntry, WN.hashField, WN.weight, PT.weight, ← (hc rfl).1]
    | true => simp [calcHash, childEntry, PT.childEntry, WN.hashField, WN.weight, PT.weight, PT.hash]
  | short k h c d tc tc' hr hc =>
    obtain ⟨hnil, _, hcd, hpc⟩ := hp
    cases d with
    | false =>
      have h1 := hr.hashField_of_clean (hcd rfl) hnil
      have h2 := hr.weight
      simp [calcHash, childEntry, PT.childEntry, WN.weight, h1, h2, ← (hc rfl).1]
    | true =>
      have h1 := hashField_calcHash_rep hr hpc hnil
      have h2 := weight_calcHash_rep hr
      have h3 := (rep_calcHash hr hpc).2
      simp [calcHash, hnil, childEntry, PT.childEntry, WN.weight, h1, h2, h3, PT.hash]
  | routing h ch w d tc f hr href' hw' hc =>
    cases d with
    | false => simp [calcHash, childEntry, PT.childEntry, WN.hashField, WN.weight, ← (hc rfl).1, hw']
    | true =>
      have h3 := (rep_calcHash (Rep.routing h ch w true tc f hr href' hw' hc) hp).2
      simp only [calcHash, if_true] at h3
      subst hw'
      simp [calcHash, childEntry, PT.childEntry, WN.hashField, WN.weight, h3]

/-- `Serialize` of a represented short node (dirty or not, its subtree dirty or not): the node afterwards and the
    honest persisted form -/
theorem serializeP_short_rep (hlen : ∀ x, (H x).length = 32) {k h : Bytes} {c : WN} {d tc : Bool} {tc' : PT}
    (hr : Rep H P c tc') (hcl : d = false → h = PT.hash H (.short k tc')) (hp : Proper (.short k h c d tc)) :
    serializeP H (.short k h c d tc) =
      (.short k (PT.hash H (.short k tc')) (calcHash H c).1 d false, PT.persist H (.short k tc')) := by
  obtain ⟨hnil, _, hcd, hpc⟩ := hp
  have h1 := hashField_calcHash_rep hr hpc hnil
  have h2 := weight_calcHash_rep hr
  have h3 := (rep_calcHash hr hpc).2
  have h4 := pad32_of_length _ (PT.hash_length H hlen tc')
  cases d with
  | false =>
    have e := calcHash_of_clean H c (hcd rfl)
    rw [e] at h1 h2 ⊢
    simp [serializeP, calcHash, WN.weight, h1, h2, h4, PT.persist, ← hcl rfl]
  | true =>
    simp [serializeP, calcHash, hnil, WN.weight, h1, h2, h3, h4, PT.persist, PT.hash]

/-- `Serialize` of a represented branch; when the branch is not dirty its children must not be (`UpDirty`) -/
theorem serializeP_routing_rep {h : Bytes} {ch : Nib → WN} {w : Nat} {d tc : Bool} {f : Nib → PT}
    (hr : ∀ i, Rep H P (ch i) (f i)) (href : ∀ i hh ww, ch i = .hashRef hh ww → (f i).isShort = false)
    (hw : w = (PT.branch f).weight) (hcl : d = false → h = PT.hash H (.branch f))
    (hp : ∀ i, ch i ≠ .empty ∧ Proper (ch i)) (hud : d = false → ∀ i, (ch i).dirty = false) :
    serializeP H (.routing h ch w d tc) =
      (.routing (PT.hash H (.branch f)) (fun i => (calcHash H (ch i)).1) w d false, PT.persist H (.branch f)) := by
  have h2 : allNib.map (fun i => childEntry H (calcHash H (ch i)).1) = allNib.map (fun i => PT.childEntry H (f i)) :=
    List.map_congr_left (fun i _ => childEntry_calcHash_rep (hr i) (hp i).1 (hp i).2 (href i))
  cases d with
  | false =>
    have e : ∀ i, (calcHash H (ch i)).1 = ch i := fun i => calcHash_of_clean H (ch i) (hud rfl i)
    simp only [e] at h2 ⊢
    simp [serializeP, calcHash, PT.persist, h2, ← hcl rfl]
  | true =>
    have e2 : allNib.flatMap (fun i => (calcHash H (ch i)).2) = allNib.flatMap (fun i => PT.hash H (f i)) := by
      simp only [List.flatMap_def]
      congr 1
      exact List.map_congr_left (fun i _ => (rep_calcHash (hr i) (hp i).2).2)
    simp [serializeP, calcHash, List.map_map, Function.comp_def, ofList_map_allNib', List.flatMap_map,
      PT.persist, PT.hash, h2, e2, hw]

/-- Without `UpDirty` the statement fails (`Rep` and `Proper` allow it, no sequence of operations produces it): a
    branch that is not dirty over a dirty value child with a stale cached hash; `Serialize` of the branch quotes the
    stale hash. -/
theorem serializeP_needs_upDirty (hlen : ∀ x, (H x).length = 32) :
    ∃ (n : WN) (t : PT), Rep H (fun _ => True) n t ∧ Proper n ∧ Uniform 1 t ∧ n.isNil = false ∧
      (∀ hh ww, n ≠ .hashRef hh ww) ∧ (serializeP H n).2 ≠ PT.persist H t := by
  let f : Nib → PT := PT.updP PT.noChP 0 (.value [1] 1)
  let ch : Nib → WN := upd noCh 0 (.value [] [1] 1 true)
  have hw : (PT.branch f).weight = 1 := by
    have := weight_updP PT.noChP 0 (.value [1] 1)
    rw [weight_noChP] at this
    simpa [PT.weight, PT.noChP] using this
  have hrep : Rep H (fun _ => True) (.routing (PT.hash H (.branch f)) ch 1 false false) (.branch f) := by
    refine Rep.routing _ _ _ false false f ?_ ?_ hw.symm (fun _ => ⟨rfl, trivial⟩)
    · intro i
      show Rep H _ (upd noCh 0 _ i) (PT.updP PT.noChP 0 _ i)
      unfold upd PT.updP
      split
      · exact Rep.value _ _ _ true (by simp)
      · exact Rep.nil
    · intro i hh ww e
      simp only [ch, upd, noCh] at e
      split at e <;> cases e
  refine ⟨_, _, hrep, ?_, ?_, rfl, fun _ _ => by simp, ?_⟩
  · intro i
    show upd noCh 0 _ i ≠ .empty ∧ Proper (upd noCh 0 _ i)
    unfold upd
    split
    · exact ⟨by simp, trivial⟩
    · exact ⟨by simp [noCh], trivial⟩
  · refine ⟨by omega, fun i => ?_⟩
    show Uniform 0 (PT.updP PT.noChP 0 _ i)
    unfold PT.updP
    split <;> simp [Uniform, PT.noChP]
  · intro e
    simp only [serializeP, calcHash, Bool.false_eq_true, if_false, PT.persist, PBase.mk.injEq, Option.some.injEq,
      PBranch.mk.injEq] at e
    have e0 := congrArg (fun l => (l[0]?).map List.length) e.1.2
    simp [allNib, ch, f, upd, PT.updP, childEntry, PT.childEntry, WN.hashField, WN.weight, PT.weight, PT.hash, hlen,
      be64_length] at e0

end Ser

/-! ### B.2 `getBlockProof` on a live trie -/

section Proof
variable {H : Bytes → Bytes}

theorem gbp_value_rep (s : Store) (f : Nat) (h v : Bytes) (w : Nat) (d : Bool) (b : Nat) (pre : Bytes)
    (hcl : d = false → h = PT.hash H (.value v w)) :
    (getBlockProof H true s (f + 1) (.value h v w d) b pre).res =
      .ok (pre, [Cbor.encBase (PT.persist H (.value v w))]) := by
  rw [getBlockProof]
  cases d with
  | false => simp [serializeP, calcHash, WN.hashField, PT.persist, ← hcl rfl]
  | true => simp [serializeP, calcHash, WN.hashField, PT.persist, PT.hash]

theorem gbp_short_rep (hlen : ∀ x, (H x).length = 32) {P : PT → Prop} (s : Store) (f : Nat) {k h : Bytes} {c : WN}
    {d tc : Bool} {tc' : PT} (b : Nat) (pre : Bytes)
    (hr : Rep H P c tc') (hcl : d = false → h = PT.hash H (.short k tc')) (hp : Proper (.short k h c d tc))
    (hb : b ≤ tc'.weight) :
    (getBlockProof H true s (f + 1) (.short k h c d tc) b pre).res =
      match (getBlockProof H true s f (calcHash H c).1 b (pre ++ k)).res with
      | .ok (key, ps) => .ok (key, Cbor.encBase (PT.persist H (.short k tc')) :: ps)
      | .err e => .err e := by
  have hs := serializeP_short_rep hlen hr hcl hp
  have hw := weight_calcHash_rep (H := H) hr
  rw [getBlockProof]
  simp only [hs, hw, gt_iff_lt, Nat.not_lt.mpr hb, if_false]
  generalize (getBlockProof H true s f _ _ _).res = r
  cases r with
  | ok a => obtain ⟨key, ps⟩ := a; rfl
  | err e => rfl

theorem gbp_routing_rep {P : PT → Prop} (s : Store) (fu : Nat) {h : Bytes} {ch : Nib → WN} {w : Nat} {d tc : Bool}
    {f : Nib → PT} (b : Nat) (pre : Bytes) (i : Nib) (b' : Nat)
    (hr : ∀ i, Rep H P (ch i) (f i)) (href : ∀ i hh ww, ch i = .hashRef hh ww → (f i).isShort = false)
    (hw : w = (PT.branch f).weight) (hcl : d = false → h = PT.hash H (.branch f))
    (hp : ∀ i, ch i ≠ .empty ∧ Proper (ch i)) (hud : d = false → ∀ i, (ch i).dirty = false)
    (hb1 : 1 ≤ b) (hpk : PT.pick f allNib b = some (i, b')) :
    (getBlockProof H true s (fu + 1) (.routing h ch w d tc) b pre).res =
      match (getBlockProof H true s fu (calcHash H (ch i)).1 b' (pre ++ [nb i])).res with
      | .ok (key, ps) => .ok (key, Cbor.encBase (PT.persist H (.branch f)) :: ps)
      | .err e => .err e := by
  have hs := serializeP_routing_rep (tc := tc) hr href hw hcl hp hud
  have hpc : pickChild (fun i => (calcHash H (ch i)).1) allNib b = some (i, b') := by
    rw [pick_agree _ f (fun i => weight_calcHash_rep (hr i)) allNib b hb1]; exact hpk
  rw [getBlockProof]
  simp only [hs, hpc]
  generalize (getBlockProof H true s fu _ _ _).res = r
  cases r with
  | ok a => obtain ⟨key, ps⟩ := a; rfl
  | err e => rfl

/-- B. MAIN: the live trie (in-memory nodes, dirty or not, over references into the storage) answers a block-proof
    request like its spec tree: the key of the owner of block `b` and exactly the honest proof.
    Side conditions: `Proper` and `UpDirty` (a clean branch has no dirty child: `Serialize` of a clean branch quotes the
    cached hashes of its children as they are). -/
theorem gbp_rep (hlen : ∀ x, (H x).length = 32) (s : Store) (t : PT) :
    ∀ (n : WN) (b fuel : Nat) (pre : Bytes), RepS H s n t → Proper n → UpDirty n → t.weight < 2 ^ 64 → PTSize t →
      1 ≤ b → b ≤ t.weight → 2 * t.depth ≤ fuel →
      ∃ k v, t.owner b = some (k, v) ∧
        (getBlockProof H true s fuel n b pre).res = .ok (pre ++ k, (t.proofPairs H b).map Cbor.encBase) := by
  have href : ∀ (t : PT) (b fuel : Nat) (pre : Bytes), t.isNone = false → StoredAll H s t → t.weight < 2 ^ 64 → PTSize t →
      1 ≤ b → b ≤ t.weight → 2 * t.depth ≤ fuel →
      ∃ k v, t.owner b = some (k, v) ∧
        (getBlockProof H true s fuel (.hashRef (PT.hash H t) t.weight) b pre).res =
          .ok (pre ++ k, (t.proofPairs H b).map Cbor.encBase) := by
    intro t b fuel pre _ hst hw hsz hb1 hb hf
    obtain ⟨k, v, ho, h⟩ := reopen_core H hlen s t b hst hw hsz hb1 hb
    exact ⟨k, v, ho, (h fuel pre hf).1⟩
  induction t with
  | none =>
    intro n b fuel pre _ _ _ _ _ h1 h2 _
    simp only [PT.weight] at h2
    omega
  | value v w =>
    intro n b fuel pre hrep hp hud hw hsz hb1 hb hf
    cases hrep with
    | ref _ hn hst => exact href _ b fuel pre hn hst hw hsz hb1 hb hf
    | value h _ _ d hcl =>
      obtain ⟨f, rfl⟩ : ∃ f, fuel = f + 1 := ⟨fuel - 1, by simp only [PT.depth] at hf; omega⟩
      refine ⟨[], v, rfl, ?_⟩
      rw [gbp_value_rep s f h v w d b pre (fun hd => (hcl hd).1)]
      simp [PT.proofPairs]
  | short k c ih =>
    intro n b fuel pre hrep hp hud hw hsz hb1 hb hf
    cases hrep with
    | ref _ hn hst => exact href _ b fuel pre hn hst hw hsz hb1 hb hf
    | short _ h cn d tc _ hc hcl =>
      have hw' : c.weight < 2 ^ 64 := hw
      have hb' : b ≤ c.weight := hb
      simp only [PT.depth] at hf
      obtain ⟨f, rfl⟩ : ∃ f, fuel = f + 1 := ⟨fuel - 1, by omega⟩
      have hpc : Proper cn := hp.2.2.2
      obtain ⟨k', v, ho, hrec⟩ := ih (calcHash H cn).1 b f (pre ++ k) (rep_calcHash hc hpc).1
        ((proper_calcHash H cn).mpr hpc) ((upDirty_calcHash H cn).mpr hud.2) hw' hsz.2.2 hb1 hb' (by omega)
      refine ⟨k ++ k', v, by simp [PT.owner, ho, Nat.not_lt.mpr hb'], ?_⟩
      rw [gbp_short_rep hlen s f b pre hc (fun hd => (hcl hd).1) hp hb', hrec]
      simp [PT.proofPairs]
  | branch ch ih =>
    intro n b fuel pre hrep hp hud hw hsz hb1 hb hf
    cases hrep with
    | ref _ hn hst => exact href _ b fuel pre hn hst hw hsz hb1 hb hf
    | routing h cn cw d tc _ hc hroute hcw hcl =>
      obtain ⟨i, b', hpk, hb1', hb'⟩ := PT.pick_some_of_le ch allNib b hb1 hb
      have hwi : (ch i).weight < 2 ^ 64 := Nat.lt_of_le_of_lt (PT.weight_child_le ch i) hw
      have hd := PT.depth_child_lt ch i
      obtain ⟨f, rfl⟩ : ∃ f, fuel = f + 1 := ⟨fuel - 1, by omega⟩
      obtain ⟨k', v, ho, hrec⟩ := ih i (calcHash H (cn i)).1 b' f (pre ++ [nb i]) (rep_calcHash (hc i) (hp i).2).1
        ((proper_calcHash H (cn i)).mpr (hp i).2) ((upDirty_calcHash H (cn i)).mpr (hud.2 i)) hwi (hsz i) hb1' hb'
        (by omega)
      refine ⟨nb i :: k', v, by simp [PT.owner, hpk, ho], ?_⟩
      rw [gbp_routing_rep s f b pre i b' hc hroute hcw (fun hd => (hcl hd).1) hp hud.1 hb1 hpk, hrec]
      simp [PT.proofPairs, hpk]

end Proof

/-! ### B.2' the trie after `getBlockProof` -/

section After
variable {H : Bytes → Bytes}

theorem noEmp_of_proper {n : WN} : Proper n → NoEmp n := by
  induction n with
  | nil => intro _; trivial
  | empty => intro _; trivial
  | hashRef h w => intro _; trivial
  | value h v w d => intro _; trivial
  | short k h c d tc ih => intro hp; exact ⟨hp.2.1, ih hp.2.2.2⟩
  | routing h ch w d tc ih => intro hp i; exact ⟨(hp i).1, ih i (hp i).2⟩

theorem calcHash_fst_hashRef {c : WN} {hh : Bytes} {ww : Nat} (hi : (calcHash H c).1 = .hashRef hh ww) :
    c = .hashRef hh ww := by
  cases c with
  | hashRef a b => simpa [calcHash] using hi
  | nil => simp [calcHash] at hi
  | empty => simp [calcHash] at hi
  | value a b c d => cases d <;> simp [calcHash] at hi
  | routing a b c d e => cases d <;> simp [calcHash] at hi
  | short a b c d e =>
    cases d with
    | false => simp [calcHash] at hi
    | true => by_cases hx : c.isNil <;> simp [calcHash, hx] at hi

theorem gbp_hashRef_node (hasDb : Bool) (s : Store) (fuel : Nat) (h : Bytes) (w b : Nat) (pre : Bytes) :
    (getBlockProof H hasDb s fuel (.hashRef h w) b pre).node = .hashRef h w := by
  cases fuel with
  | zero => rw [getBlockProof]
  | succ f =>
    rw [getBlockProof]
    split <;> rfl

theorem gbp_value_node (hasDb : Bool) (s : Store) (f : Nat) (h v : Bytes) (w : Nat) (d : Bool) (b : Nat) (pre : Bytes) :
    (getBlockProof H hasDb s (f + 1) (.value h v w d) b pre).node = (calcHash H (.value h v w d)).1 := by
  rw [getBlockProof]
  rfl

theorem gbp_short_node (hlen : ∀ x, (H x).length = 32) {P : PT → Prop} (s : Store) (f : Nat) {k h : Bytes} {c : WN}
    {d tc : Bool} {tc' : PT} (b : Nat) (pre : Bytes)
    (hr : Rep H P c tc') (hcl : d = false → h = PT.hash H (.short k tc')) (hp : Proper (.short k h c d tc))
    (hb : b ≤ tc'.weight) :
    (getBlockProof H true s (f + 1) (.short k h c d tc) b pre).node =
      .short k (PT.hash H (.short k tc')) (getBlockProof H true s f (calcHash H c).1 b (pre ++ k)).node d false := by
  have hs := serializeP_short_rep hlen hr hcl hp
  have hw := weight_calcHash_rep (H := H) hr
  rw [getBlockProof]
  simp only [hs, hw, gt_iff_lt, Nat.not_lt.mpr hb, if_false]

theorem gbp_routing_node {P : PT → Prop} (s : Store) (fu : Nat) {h : Bytes} {ch : Nib → WN} {w : Nat} {d tc : Bool}
    {f : Nib → PT} (b : Nat) (pre : Bytes) (i : Nib) (b' : Nat)
    (hr : ∀ i, Rep H P (ch i) (f i)) (href : ∀ i hh ww, ch i = .hashRef hh ww → (f i).isShort = false)
    (hw : w = (PT.branch f).weight) (hcl : d = false → h = PT.hash H (.branch f))
    (hp : ∀ i, ch i ≠ .empty ∧ Proper (ch i)) (hud : d = false → ∀ i, (ch i).dirty = false)
    (hb1 : 1 ≤ b) (hpk : PT.pick f allNib b = some (i, b')) :
    (getBlockProof H true s (fu + 1) (.routing h ch w d tc) b pre).node =
      .routing (PT.hash H (.branch f))
        (upd (fun i => (calcHash H (ch i)).1) i (getBlockProof H true s fu (calcHash H (ch i)).1 b' (pre ++ [nb i])).node)
        w d false := by
  have hs := serializeP_routing_rep (tc := tc) hr href hw hcl hp hud
  have hpc : pickChild (fun i => (calcHash H (ch i)).1) allNib b = some (i, b') := by
    rw [pick_agree _ f (fun i => weight_calcHash_rep (hr i)) allNib b hb1]; exact hpk
  rw [getBlockProof]
  simp only [hs, hpc]

/-- what is known about the node `getBlockProof` leaves behind -/
def AfterOK (H : Bytes → Bytes) (s : Store) (n : WN) (t : PT) (n' : WN) : Prop :=
  RepS H s n' t ∧ Proper n' ∧ UpDirty n' ∧ n'.dirty = n.dirty ∧ ∀ hh ww, n' = .hashRef hh ww → n = .hashRef hh ww

/-- the trie after a (successful) `getBlockProof`: hashes refreshed, export marks cleared, and it still represents the
    same spec tree and satisfies the side conditions -/
theorem gbp_node (hlen : ∀ x, (H x).length = 32) (s : Store) (t : PT) :
    ∀ (n : WN) (b fuel : Nat) (pre : Bytes), RepS H s n t → Proper n → UpDirty n → 1 ≤ b → b ≤ t.weight →
      2 * t.depth ≤ fuel → AfterOK H s n t (getBlockProof H true s fuel n b pre).node := by
  have href : ∀ (t : PT) (b fuel : Nat) (pre : Bytes) (hn : t.isNone = false) (hst : StoredAll H s t),
      AfterOK H s (.hashRef (PT.hash H t) t.weight) t
        (getBlockProof H true s fuel (.hashRef (PT.hash H t) t.weight) b pre).node := by
    intro t b fuel pre hn hst
    rw [gbp_hashRef_node]
    exact ⟨Rep.ref t hn hst, trivial, trivial, rfl, fun _ _ e => e⟩
  induction t with
  | none =>
    intro n b fuel pre _ _ _ h1 h2 _
    simp only [PT.weight] at h2
    omega
  | value v w =>
    intro n b fuel pre hrep hp hud hb1 hb hf
    cases hrep with
    | ref _ hn hst => exact href _ b fuel pre hn hst
    | value h _ _ d hcl =>
      obtain ⟨f, rfl⟩ : ∃ f, fuel = f + 1 := ⟨fuel - 1, by simp only [PT.depth] at hf; omega⟩
      rw [gbp_value_node]
      refine ⟨(rep_calcHash (Rep.value h v w d hcl) trivial).1, ?_, ?_, calcHash_fst_dirty _ _, ?_⟩
      · cases d <;> trivial
      · cases d <;> trivial
      · intro hh ww e; exact calcHash_fst_hashRef e
  | short k c ih =>
    intro n b fuel pre hrep hp hud hb1 hb hf
    cases hrep with
    | ref _ hn hst => exact href _ b fuel pre hn hst
    | short _ h cn d tc _ hc hcl =>
      have hb' : b ≤ c.weight := hb
      simp only [PT.depth] at hf
      obtain ⟨f, rfl⟩ : ∃ f, fuel = f + 1 := ⟨fuel - 1, by omega⟩
      obtain ⟨hnil, hemp, hcd, hpc⟩ := hp
      obtain ⟨a1, a2, a3, a4, a5⟩ := ih (calcHash H cn).1 b f (pre ++ k) (rep_calcHash hc hpc).1
        ((proper_calcHash H cn).mpr hpc) ((upDirty_calcHash H cn).mpr hud.2) hb1 hb' (by omega)
      rw [gbp_short_node hlen s f b pre hc (fun hd => (hcl hd).1) ⟨hnil, hemp, hcd, hpc⟩ hb']
      have hne : c.isNone = false := hc.isNone_false hnil hemp
      obtain ⟨x1, x2⟩ := a1.not_nil_empty hne
      have hdd : (getBlockProof H true s f (calcHash H cn).1 b (pre ++ k)).node.dirty = cn.dirty := by
        rw [a4, calcHash_fst_dirty]
      refine ⟨Rep.short k _ _ d false c a1 (fun hd => ⟨rfl, (hcl hd).2⟩), ⟨x1, x2, fun hd => ?_, a2⟩,
        ⟨fun hd => ?_, a3⟩, rfl, fun _ _ e => by cases e⟩
      · rw [hdd]; exact hcd hd
      · rw [hdd]; exact hcd hd
  | branch ch ih =>
    intro n b fuel pre hrep hp hud hb1 hb hf
    cases hrep with
    | ref _ hn hst => exact href _ b fuel pre hn hst
    | routing h cn cw d tc _ hc hroute hcw hcl =>
      obtain ⟨i, b', hpk, hb1', hb'⟩ := PT.pick_some_of_le ch allNib b hb1 hb
      have hd := PT.depth_child_lt ch i
      obtain ⟨f, rfl⟩ : ∃ f, fuel = f + 1 := ⟨fuel - 1, by omega⟩
      obtain ⟨a1, a2, a3, a4, a5⟩ := ih i (calcHash H (cn i)).1 b' f (pre ++ [nb i]) (rep_calcHash (hc i) (hp i).2).1
        ((proper_calcHash H (cn i)).mpr (hp i).2) ((upDirty_calcHash H (cn i)).mpr (hud.2 i)) hb1' hb' (by omega)
      rw [gbp_routing_node s f b pre i b' hc hroute hcw (fun hd => (hcl hd).1) hp hud.1 hb1 hpk]
      generalize (getBlockProof H true s f (calcHash H (cn i)).1 b' (pre ++ [nb i])).node = x at a1 a2 a3 a4 a5
      have hne : (ch i).isNone = false := by
        cases hci : ch i <;> simp_all [PT.isNone, PT.weight]
      have key : ∀ j, RepS H s (upd (fun i => (calcHash H (cn i)).1) i x j) (ch j) ∧
          upd (fun i => (calcHash H (cn i)).1) i x j ≠ .empty ∧ Proper (upd (fun i => (calcHash H (cn i)).1) i x j) ∧
          UpDirty (upd (fun i => (calcHash H (cn i)).1) i x j) ∧
          (upd (fun i => (calcHash H (cn i)).1) i x j).dirty = (cn j).dirty ∧
          ∀ hh ww, upd (fun i => (calcHash H (cn i)).1) i x j = .hashRef hh ww → cn j = .hashRef hh ww := by
        intro j
        unfold upd
        split
        · rename_i hji
          subst hji
          refine ⟨a1, (a1.not_nil_empty hne).2, a2, a3, by rw [a4, calcHash_fst_dirty], fun hh ww e => ?_⟩
          exact calcHash_fst_hashRef (a5 hh ww e)
        · refine ⟨(rep_calcHash (hc j) (hp j).2).1, ?_, (proper_calcHash H (cn j)).mpr (hp j).2,
            (upDirty_calcHash H (cn j)).mpr (hud.2 j), calcHash_fst_dirty _ _, fun hh ww e => calcHash_fst_hashRef e⟩
          intro e
          exact (hp j).1 ((calcHash_fst_eq_empty H (cn j)).mp e)
      refine ⟨Rep.routing _ _ cw d false ch (fun j => (key j).1)
          (fun j hh ww e => hroute j hh ww ((key j).2.2.2.2.2 hh ww e)) hcw (fun hd => ⟨rfl, (hcl hd).2⟩),
        fun j => ⟨(key j).2.1, (key j).2.2.1⟩,
        ⟨fun hd j => by rw [(key j).2.2.2.2.1]; exact hud.1 hd j, fun j => (key j).2.2.2.1⟩, rfl,
        fun _ _ e => by cases e⟩

end After

/-! ### B.3 `GetBlockProof(block)` on a whole trie -/

section Trie
variable {H : Bytes → Bytes}

theorem maxL_le (l : List Nat) (B : Nat) (h : ∀ a ∈ l, a ≤ B) : maxL l ≤ B := by
  induction l with
  | nil => simp [maxL]
  | cons x tl ih =>
    simp only [maxL]
    have h1 := h x List.mem_cons_self
    have h2 := ih (fun a ha => h a (List.mem_cons_of_mem _ ha))
    omega

/-- a uniform trie for keys of `m` nibbles is at most `m + 1` nodes deep -/
theorem depth_le_of_uniform {t : PT} : ∀ {m : Nat}, Uniform m t → t.depth ≤ m + 1 := by
  induction t with
  | none => intro m _; simp [PT.depth]
  | value v w => intro m _; simp [PT.depth]
  | short k c ih =>
    intro m hu
    obtain ⟨h1, _, h3, _, h5⟩ := hu
    have := ih h5
    have : k.length ≠ 0 := by simpa using h1
    simp only [PT.depth]
    omega
  | branch ch ih =>
    intro m hu
    obtain ⟨h1, h2⟩ := hu
    simp only [PT.depth]
    have : maxL (allNib.map (fun i => (ch i).depth)) ≤ m := by
      apply maxL_le
      intro a ha
      obtain ⟨i, _, rfl⟩ := List.mem_map.mp ha
      have := ih i (h2 i)
      omega
    omega

/-- the key of the owner of a block has the key length of the trie and consists of nibbles -/
theorem owner_key {t : PT} : ∀ {m b : Nat} {k v : Bytes}, Uniform m t → t.owner b = some (k, v) →
    k.length = m ∧ ∀ x ∈ k, x.toNat < 16 := by
  induction t with
  | none => intro m b k v _ ho; simp [PT.owner] at ho
  | value vv vw =>
    intro m b k v hu ho
    simp only [PT.owner, Option.some.injEq, Prod.mk.injEq] at ho
    simp only [Uniform] at hu
    rw [← ho.1, hu]
    exact ⟨rfl, fun x hx => by cases hx⟩
  | short sk c ih =>
    intro m b k v hu ho
    obtain ⟨_, h2, h3, _, h5⟩ := hu
    simp only [PT.owner] at ho
    split at ho
    · cases ho
    · cases hoc : c.owner b with
      | none => simp [hoc] at ho
      | some r =>
        obtain ⟨k', v'⟩ := r
        simp only [hoc, Option.map_some, Option.some.injEq, Prod.mk.injEq] at ho
        obtain ⟨i1, i2⟩ := ih h5 hoc
        rw [← ho.1, List.length_append, i1]
        refine ⟨by omega, fun x hx => ?_⟩
        rcases List.mem_append.mp hx with hx | hx
        · exact h2 x hx
        · exact i2 x hx
  | branch ch ih =>
    intro m b k v hu ho
    obtain ⟨h1, h2⟩ := hu
    simp only [PT.owner] at ho
    split at ho
    · cases ho
    · rename_i i b' _
      cases hoc : (ch i).owner b' with
      | none => simp [hoc] at ho
      | some r =>
        obtain ⟨k', v'⟩ := r
        simp only [hoc, Option.map_some, Option.some.injEq, Prod.mk.injEq] at ho
        obtain ⟨i1, i2⟩ := ih i (h2 i) hoc
        rw [← ho.1, List.length_cons, i1]
        refine ⟨by omega, fun x hx => ?_⟩
        rcases List.mem_cons.mp hx with rfl | hx
        · rw [nb_toNat]; exact i.isLt
        · exact i2 x hx

/-- `keybytesToHex` (node.go): two nibbles per key byte -/
def keybytesToHex (key : Bytes) : Bytes := key.flatMap (fun x => [x / 16, x % 16])

theorem nib_pack_fin : ∀ i j : Fin 16,
    ((UInt8.ofNat i.val <<< 4 ||| UInt8.ofNat j.val) / 16 = UInt8.ofNat i.val ∧
     (UInt8.ofNat i.val <<< 4 ||| UInt8.ofNat j.val) % 16 = UInt8.ofNat j.val) := by decide

theorem nib_pack (a b : UInt8) (ha : a.toNat < 16) (hb : b.toNat < 16) :
    (a <<< 4 ||| b) / 16 = a ∧ (a <<< 4 ||| b) % 16 = b := by
  have := nib_pack_fin ⟨a.toNat, ha⟩ ⟨b.toNat, hb⟩
  simpa using this

/-- `hexToKeybytes` on an even number of nibbles does not panic and inverts `keybytesToHex` -/
theorem hexToKeybytes_ok : ∀ (k : Bytes), k.length % 2 = 0 → (∀ x ∈ k, x.toNat < 16) →
    ∃ key, hexToKeybytes k = .ok key ∧ 2 * key.length = k.length ∧ keybytesToHex key = k
  | [], _, _ => ⟨[], rfl, rfl, rfl⟩
  | [_], h, _ => by simp at h
  | a :: b :: r, h, hn => by
    obtain ⟨key, hk, hl, hx⟩ := hexToKeybytes_ok r (by simp only [List.length_cons] at h; omega)
      (fun x hx => hn x (List.mem_cons_of_mem _ (List.mem_cons_of_mem _ hx)))
    have hp := nib_pack a b (hn a List.mem_cons_self) (hn b (List.mem_cons_of_mem _ List.mem_cons_self))
    refine ⟨(a <<< 4 ||| b) :: key, by simp only [hexToKeybytes, hk], by simp only [List.length_cons]; omega, ?_⟩
    simp only [keybytesToHex, List.flatMap_cons, hp.1, hp.2] at hx ⊢
    rw [hx]; rfl

/-- B, trie level: `GetBlockProof(block)` on a live trie for keys of `m` nibbles (`m` even, `2 * (m + 1) ≤ 200`, e.g.
    `m = 64`) returns the key bytes of the owner of the block (`keybytesToHex key = k`) and the CBOR encoding of the
    honest proof. -/
theorem blockProof_rep (hlen : ∀ x, (H x).length = 32) (t : WT) (tspec : PT) (m b : Nat)
    (hdb : t.hasDb = true) (hrep : RepS H t.store t.root tspec) (hp : Proper t.root) (hud : UpDirty t.root)
    (hu : Uniform m tspec) (hm : m % 2 = 0) (hm2 : m ≤ 99) (hok : PTOK tspec) (hb1 : 1 ≤ b) (hb : b ≤ tspec.weight) :
    ∃ k v key, tspec.owner b = some (k, v) ∧ k.length = m ∧ keybytesToHex key = k ∧ 2 * key.length = m ∧
      (blockProof H t b).2 = .ok (key, Cbor.encTrie ((tspec.proofPairs H b).map Cbor.encBase)) := by
  have hd := depth_le_of_uniform hu
  obtain ⟨k, v, ho, hg⟩ := gbp_rep hlen t.store tspec t.root b 200 [] hrep hp hud hok.1 hok.2 hb1 hb (by omega)
  obtain ⟨hkl, hkn⟩ := owner_key hu ho
  obtain ⟨key, hk, hl, hx⟩ := hexToKeybytes_ok k (by rw [hkl]; exact hm) hkn
  refine ⟨k, v, key, ho, hkl, hx, by omega, ?_⟩
  have hw : ¬ b > t.root.weight := by rw [hrep.weight]; omega
  simp only [List.nil_append] at hg
  simp only [blockProof, hw, if_false, hdb, hg, hk]

theorem blockProof_fst (t : WT) (b : Nat) (hw : ¬ b > t.root.weight) :
    (blockProof H t b).1 = { t with root := (getBlockProof H t.hasDb t.store 200 t.root b []).node } := by
  simp only [blockProof, hw, if_false]
  generalize getBlockProof H t.hasDb t.store 200 t.root b [] = r
  obtain ⟨node, res⟩ := r
  cases res with
  | ok a =>
    obtain ⟨pre, ps⟩ := a
    simp only
    cases hexToKeybytes pre <;> rfl
  | err e => cases e <;> rfl

/-- the trie after `GetBlockProof(block)`: same storage, same spec tree, side conditions kept -/
theorem blockProof_after (hlen : ∀ x, (H x).length = 32) (t : WT) (tspec : PT) (m b : Nat)
    (hdb : t.hasDb = true) (hrep : RepS H t.store t.root tspec) (hp : Proper t.root) (hud : UpDirty t.root)
    (hu : Uniform m tspec) (hm2 : m ≤ 99) (hb1 : 1 ≤ b) (hb : b ≤ tspec.weight) :
    (blockProof H t b).1.store = t.store ∧ (blockProof H t b).1.hasDb = true ∧
    RepS H t.store (blockProof H t b).1.root tspec ∧ Proper (blockProof H t b).1.root ∧
    UpDirty (blockProof H t b).1.root ∧ NoEmp (blockProof H t b).1.root ∧
    (blockProof H t b).1.root.dirty = t.root.dirty := by
  have hd := depth_le_of_uniform hu
  have hw : ¬ b > t.root.weight := by rw [hrep.weight]; omega
  obtain ⟨a1, a2, a3, a4, _⟩ := gbp_node hlen t.store tspec t.root b 200 [] hrep hp hud hb1 hb (by omega)
  rw [blockProof_fst t b hw, hdb]
  exact ⟨rfl, rfl, a1, a2, a3, noEmp_of_proper a2, a4⟩

end Trie

end RepMore
end Verif.Wmpt
