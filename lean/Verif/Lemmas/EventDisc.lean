/-
The event discipline of `insertE` / `deleteE` at the level of node references (position, subtree):
with `L` a set of live references containing the references of the tree operated on,
  * every node an event replaces or deletes is live when the event happens (`DiscR`),
  * the references of the resulting tree are live after the events (cover),
  * references outside the region below the operated position are untouched (frame).
No hash function occurs here; `Lemmas/EventKeys` transfers this to node keys under key injectivity.
-/
import Verif.Lemmas.MptStoreEvents
import Verif.Lemmas.MptBasic
import Verif.Lemmas.MptDelete
namespace Verif.MptStore
open Verif.Mpt

/-! ### references of a tree -/

theorem mem_refs_full {o : Nat} {ch : Nib → Node} {val : Option Bytes} {pre : List Nib} {r : Ref} :
    r ∈ refs (.full o ch val) pre ↔ r = ⟨pre, .full o ch val⟩ ∨ ∃ i, r ∈ refs (ch i) (pre ++ [i]) := by
  simp only [refs, List.mem_cons, List.mem_flatMap, List.mem_finRange, true_and]

theorem mem_refs_ext {o : Nat} {ep : List Nib} {c : Node} {pre : List Nib} {r : Ref} :
    r ∈ refs (.ext o ep c) pre ↔ r = ⟨pre, .ext o ep c⟩ ∨ r ∈ refs c (pre ++ ep) := by
  simp only [refs, List.mem_cons]

theorem mem_refs_leaf {o : Nat} {lp : List Nib} {lv : Bytes} {pre : List Nib} {r : Ref} :
    r ∈ refs (.leaf o lp lv) pre ↔ r = ⟨pre, .leaf o lp lv⟩ := by
  simp only [refs, List.mem_singleton]

theorem refs_pos (t : Node) : ∀ (pre : List Nib) (r : Ref), r ∈ refs t pre → pre <+: r.pos := by
  induction t with
  | empty => intro pre r h; simp [refs] at h
  | leaf o lp lv => intro pre r h; rw [mem_refs_leaf] at h; subst h; exact List.prefix_refl _
  | full o ch val ih =>
    intro pre r h
    rw [mem_refs_full] at h
    rcases h with h | ⟨i, h⟩
    · subst h; exact List.prefix_refl _
    · exact List.IsPrefix.trans (List.prefix_append pre [i]) (ih i _ r h)
  | ext o ep c ih =>
    intro pre r h
    rw [mem_refs_ext] at h
    rcases h with h | h
    · subst h; exact List.prefix_refl _
    · exact List.IsPrefix.trans (List.prefix_append pre ep) (ih _ r h)

theorem pos_ne_of_prefix {pre q pos : List Nib} (hq : q ≠ []) (h : pre ++ q <+: pos) : pos ≠ pre := by
  intro e
  subst e
  have := h.length_le
  simp only [List.length_append] at this
  have : q.length = 0 := by omega
  exact hq (List.length_eq_zero_iff.mp this)

theorem not_prefix_of_not_prefix {pre q pos : List Nib} (h : ¬ pre <+: pos) : ¬ pre ++ q <+: pos :=
  fun hp => h (List.IsPrefix.trans (List.prefix_append pre q) hp)

theorem snoc_prefix_eq {a pos : List Nib} {i x : Nib} (h1 : a ++ [i] <+: pos) (h2 : a ++ [x] <+: pos) : i = x := by
  have := List.prefix_of_prefix_length_le h1 h2 (by simp)
  obtain ⟨t, ht⟩ := this
  have hl := congrArg List.length ht
  simp only [List.length_append, List.length_cons, List.length_nil] at hl
  have : t = [] := List.length_eq_zero_iff.mp (by omega)
  subst this
  simp only [List.append_nil] at ht
  have := List.append_cancel_left ht
  simpa using this

/-! ### live references along an event list -/

def liveR (L : Ref → Prop) : Event → Ref → Prop
  | .put none n => fun r => r = n ∨ L r
  | .put (some o) n => fun r => r = n ∨ (L r ∧ r ≠ o)
  | .del o => fun r => L r ∧ r ≠ o

def liveRunR (L : Ref → Prop) : List Event → Ref → Prop
  | [] => L
  | e :: es => liveRunR (liveR L e) es

def EvOk (L : Ref → Prop) : Event → Prop
  | .put (some o) _ => L o
  | .put none _ => True
  | .del o => L o

def DiscR (L : Ref → Prop) : List Event → Prop
  | [] => True
  | e :: es => EvOk L e ∧ DiscR (liveR L e) es

theorem liveRunR_append (es₁ es₂ : List Event) : ∀ L, liveRunR L (es₁ ++ es₂) = liveRunR (liveRunR L es₁) es₂ := by
  induction es₁ with
  | nil => intro L; rfl
  | cons e es ih => intro L; simp only [List.cons_append, liveRunR, ih]

theorem discR_append (es₁ es₂ : List Event) : ∀ L, DiscR L (es₁ ++ es₂) ↔ DiscR L es₁ ∧ DiscR (liveRunR L es₁) es₂ := by
  induction es₁ with
  | nil => intro L; simp [DiscR, liveRunR]
  | cons e es ih => intro L; simp only [List.cons_append, DiscR, liveRunR, ih, and_assoc]

/-- the statement proved for every operation: discipline, cover of the result, frame outside the region -/
def OpOk (L : Ref → Prop) (pre : List Nib) (es : List Event) (t' : Node) : Prop :=
  DiscR L es ∧ (∀ r ∈ refs t' pre, liveRunR L es r) ∧ (∀ r, L r → ¬ pre <+: r.pos → liveRunR L es r)

/-! ### helpers for the non-recursive shapes -/

/-- `wrapE`: the old node at `pre` is replaced by `wrap v c f` where `f` is a brand-new node -/
theorem wrapE_ok (v : Nat) (old : Ref) (pre c : List Nib) (f : Node) (L : Ref → Prop) (hold : L old) (hpos : old.pos = pre) :
    DiscR L (wrapE v old pre c f) ∧
    (∀ r, liveRunR L (wrapE v old pre c f) r ↔
      (r = ⟨pre, wrap v c f⟩ ∨ (c ≠ [] ∧ r = ⟨pre ++ c, f⟩) ∨ (L r ∧ r ≠ old))) := by
  cases c with
  | nil =>
    simp only [wrapE, DiscR, EvOk, liveRunR, liveR, wrap, hold, and_self, ne_eq, not_true_eq_false, false_and, false_or,
      true_and, implies_true]
  | cons x c =>
    refine ⟨by simp [wrapE, DiscR, EvOk, liveR, hold], fun r => ?_⟩
    simp only [wrapE, liveRunR, liveR, wrap, ne_eq, reduceCtorEq, not_false_eq_true, true_and]
    constructor
    · rintro (h | ⟨h | h, hne⟩)
      · exact Or.inl h
      · exact Or.inr (Or.inl h)
      · exact Or.inr (Or.inr ⟨h, hne⟩)
    · rintro (h | h | ⟨h, hne⟩)
      · exact Or.inl h
      · refine Or.inr ⟨Or.inl h, ?_⟩
        subst h
        intro e
        have := congrArg Ref.pos e
        simp only [hpos] at this
        have h2 := congrArg List.length this
        simp at h2
      · exact Or.inr ⟨Or.inr h, hne⟩

theorem ne_of_not_prefix {pre : List Nib} {r o : Ref} (ho : pre <+: o.pos) (hr : ¬ pre <+: r.pos) : r ≠ o := by
  intro e; subst e; exact hr ho

theorem putNones_ok (A : List Ref) : ∀ (L : Ref → Prop),
    DiscR L (A.map (Event.put none)) ∧ ∀ r, liveRunR L (A.map (Event.put none)) r ↔ (r ∈ A ∨ L r) := by
  induction A with
  | nil => intro L; simp [DiscR, liveRunR]
  | cons a A ih =>
    intro L
    obtain ⟨h1, h2⟩ := ih (liveR L (.put none a))
    refine ⟨by simp [DiscR, EvOk, h1], fun r => ?_⟩
    show liveRunR (liveR L (.put none a)) (A.map (Event.put none)) r ↔ _
    rw [h2 r]
    simp only [liveR, List.mem_cons]
    constructor
    · rintro (h | h | h)
      · exact Or.inl (Or.inr h)
      · exact Or.inl (Or.inl h)
      · exact Or.inr h
    · rintro ((h | h) | h)
      · exact Or.inr (Or.inl h)
      · exact Or.inl h
      · exact Or.inr (Or.inr h)

theorem mem_refs_wrap {v : Nat} {c : List Nib} {f : Node} {pre : List Nib} {r : Ref} (h : r ∈ refs (wrap v c f) pre) :
    r = ⟨pre, wrap v c f⟩ ∨ r ∈ refs f (pre ++ c) := by
  cases c with
  | nil => right; simpa [wrap] using h
  | cons x c => simpa [wrap, mem_refs_ext] using h

/-- the shape of every non-recursive insert case: brand-new nodes `A`, then the old node at `pre` is replaced by
    `wrap v c f` with `f` brand new -/
theorem newShape_ok (v : Nat) (old : Ref) (pre c : List Nib) (f : Node) (A : List Ref) (L : Ref → Prop)
    (hold : L old) (hpos : old.pos = pre) (hA : ∀ n ∈ A, n ≠ old)
    (hcov : ∀ r ∈ refs f (pre ++ c), r = ⟨pre ++ c, f⟩ ∨ r ∈ A ∨ (L r ∧ r ≠ old)) :
    OpOk L pre (A.map (Event.put none) ++ wrapE v old pre c f) (wrap v c f) := by
  obtain ⟨hd1, hl1⟩ := putNones_ok A L
  have hold' : liveRunR L (A.map (Event.put none)) old := (hl1 old).mpr (Or.inr hold)
  obtain ⟨hd2, hl2⟩ := wrapE_ok v old pre c f _ hold' hpos
  refine ⟨(discR_append _ _ _).mpr ⟨hd1, hd2⟩, ?_, ?_⟩
  · intro r hr
    rw [liveRunR_append, hl2]
    rcases mem_refs_wrap hr with h | h
    · exact Or.inl h
    · rcases hcov r h with h | h | ⟨h, hne⟩
      · cases c with
        | nil => left; simpa [wrap] using h
        | cons x c => exact Or.inr (Or.inl ⟨by simp, h⟩)
      · exact Or.inr (Or.inr ⟨(hl1 r).mpr (Or.inl h), hA r h⟩)
      · exact Or.inr (Or.inr ⟨(hl1 r).mpr (Or.inr h), hne⟩)
  · intro r hL hnp
    rw [liveRunR_append, hl2]
    exact Or.inr (Or.inr ⟨(hl1 r).mpr (Or.inr hL), ne_of_not_prefix (by rw [hpos]; exact List.prefix_refl _) hnp⟩)

theorem refs_children_one {q : List Nib} {y : Nib} {n : Node} {r : Ref}
    (h : ∃ i, r ∈ refs (upd emptyCh y n i) (q ++ [i])) : r ∈ refs n (q ++ [y]) := by
  obtain ⟨i, hi⟩ := h
  by_cases e : i = y
  · subst e; simpa using hi
  · simp [upd, e, emptyCh, refs] at hi

theorem refs_children_two {q : List Nib} {x y : Nib} {n1 n2 : Node} {r : Ref}
    (h : ∃ i, r ∈ refs (upd (upd emptyCh x n1) y n2 i) (q ++ [i])) : r ∈ refs n2 (q ++ [y]) ∨ r ∈ refs n1 (q ++ [x]) := by
  obtain ⟨i, hi⟩ := h
  by_cases e : i = y
  · subst e; left; simpa using hi
  · by_cases e2 : i = x
    · subst e2; right; simpa [upd, e] using hi
    · simp [upd, e, e2, emptyCh, refs] at hi

theorem snoc_ne_self_ref {pre c : List Nib} {x : Nib} {n : Node} {old : Ref} (hpos : old.pos = pre) :
    (⟨pre ++ c ++ [x], n⟩ : Ref) ≠ old := by
  intro e
  have := congrArg Ref.pos e
  rw [hpos] at this
  have h2 := congrArg List.length this
  simp at h2

/-- refs of the remainder of a split extension: the new remainder node (if any) or the unchanged child subtree -/
theorem mem_refs_extRest {v : Nat} {q er : List Nib} {c : Node} {r : Ref} (h : r ∈ refs (extRest v er c) q) :
    (er ≠ [] ∧ r = ⟨q, .ext v er c⟩) ∨ r ∈ refs c (q ++ er) := by
  cases er with
  | nil => right; simpa [extRest] using h
  | cons z er =>
    simp only [extRest, mem_refs_ext] at h
    rcases h with h | h
    · exact Or.inl ⟨by simp, h⟩
    · exact Or.inr h

theorem extRestE_eq (v : Nat) (q er : List Nib) (c : Node) :
    extRestE v q er c = (if er = [] then [] else [(⟨q, .ext v er c⟩ : Ref)]).map (Event.put none) := by
  cases er <;> simp [extRestE]

theorem insertE_ok (v : Nat) (b : Bytes) (t : Node) :
    ∀ (pre p : List Nib) (L : Ref → Prop), WF t → (∀ r ∈ refs t pre, L r) →
      OpOk L pre (insertE v b t pre p).2 (insertE v b t pre p).1 := by
  induction t with
  | empty =>
    intro pre p L _ _
    refine ⟨by simp [insertE, DiscR, EvOk], ?_, ?_⟩
    · intro r hr; simp only [insertE, mem_refs_leaf] at hr; subst hr; simp [insertE, liveRunR, liveR]
    · intro r hL _; simp [insertE, liveRunR, liveR, hL]
  | leaf o lp lv =>
    intro pre p L _ hL
    have hold : L ⟨pre, .leaf o lp lv⟩ := hL _ (by simp [refs])
    simp only [insertE]
    split
    · -- same path: the leaf is replaced
      refine ⟨by simp [DiscR, EvOk, hold], ?_, ?_⟩
      · intro r hr; rw [mem_refs_leaf] at hr; subst hr; simp [liveRunR, liveR]
      · intro r hLr hnp
        simp only [liveRunR, liveR]
        exact Or.inr ⟨hLr, ne_of_not_prefix (o := ⟨pre, .leaf o lp lv⟩) (List.prefix_refl _) hnp⟩
    · rename_i c y lr _
      have := newShape_ok v ⟨pre, .leaf o lp lv⟩ pre c (.full v (upd emptyCh y (.leaf v lr lv)) (some b))
        [⟨pre ++ c ++ [y], .leaf v lr lv⟩] L hold rfl
        (by intro n hn; simp only [List.mem_singleton] at hn; subst hn; exact snoc_ne_self_ref rfl)
        (by
          intro r hr
          rw [mem_refs_full] at hr
          rcases hr with hr | hr
          · exact Or.inl hr
          · have := refs_children_one hr
            rw [mem_refs_leaf] at this
            exact Or.inr (Or.inl (by simp [this])))
      simpa using this
    · rename_i c x pr _
      have := newShape_ok v ⟨pre, .leaf o lp lv⟩ pre c (.full v (upd emptyCh x (.leaf v pr b)) (some lv))
        [⟨pre ++ c ++ [x], .leaf v pr b⟩] L hold rfl
        (by intro n hn; simp only [List.mem_singleton] at hn; subst hn; exact snoc_ne_self_ref rfl)
        (by
          intro r hr
          rw [mem_refs_full] at hr
          rcases hr with hr | hr
          · exact Or.inl hr
          · have := refs_children_one hr
            rw [mem_refs_leaf] at this
            exact Or.inr (Or.inl (by simp [this])))
      simpa using this
    · rename_i c x pr y lr _
      have := newShape_ok v ⟨pre, .leaf o lp lv⟩ pre c
        (.full v (upd (upd emptyCh x (.leaf v pr b)) y (.leaf v lr lv)) none)
        [⟨pre ++ c ++ [x], .leaf v pr b⟩, ⟨pre ++ c ++ [y], .leaf v lr lv⟩] L hold rfl
        (by
          intro n hn
          simp only [List.mem_cons, List.not_mem_nil, or_false] at hn
          rcases hn with hn | hn <;> subst hn <;> exact snoc_ne_self_ref rfl)
        (by
          intro r hr
          rw [mem_refs_full] at hr
          rcases hr with hr | hr
          · exact Or.inl hr
          · rcases refs_children_two hr with h | h <;> rw [mem_refs_leaf] at h <;> exact Or.inr (Or.inl (by simp [h])))
      simpa using this
  | full o ch val ih =>
    intro pre p L hw hL
    have hold : L ⟨pre, .full o ch val⟩ := hL _ (by simp [refs])
    cases p with
    | nil =>
      simp only [insertE]
      refine ⟨by simp [DiscR, EvOk, hold], ?_, ?_⟩
      · intro r hr
        rw [mem_refs_full] at hr
        simp only [liveRunR, liveR]
        rcases hr with hr | ⟨i, hr⟩
        · exact Or.inl hr
        · refine Or.inr ⟨hL r (mem_refs_full.mpr (Or.inr ⟨i, hr⟩)), ?_⟩
          intro e
          exact pos_ne_of_prefix (q := [i]) (by simp) (refs_pos _ _ r hr) (by rw [e])
      · intro r hLr hnp
        simp only [liveRunR, liveR]
        exact Or.inr ⟨hLr, ne_of_not_prefix (o := ⟨pre, .full o ch val⟩) (List.prefix_refl _) hnp⟩
    | cons x pr =>
      simp only [insertE]
      obtain ⟨hd, hc, hf⟩ := ih x (pre ++ [x]) pr L (WF_child hw x)
        (fun r hr => hL r (mem_refs_full.mpr (Or.inr ⟨x, hr⟩)))
      have hold1 : liveRunR L (insertE v b (ch x) (pre ++ [x]) pr).2 ⟨pre, .full o ch val⟩ :=
        hf _ hold (by
          intro h
          have := h.length_le
          simp at this
          omega)
      refine ⟨(discR_append _ _ _).mpr ⟨hd, by simp [DiscR, EvOk, hold1]⟩, ?_, ?_⟩
      · intro r hr
        rw [liveRunR_append]
        simp only [liveRunR, liveR]
        rw [mem_refs_full] at hr
        rcases hr with hr | ⟨i, hr⟩
        · exact Or.inl hr
        · have hne : r ≠ ⟨pre, .full o ch val⟩ := by
            intro e
            exact pos_ne_of_prefix (q := [i]) (by simp) (refs_pos _ _ r hr) (by rw [e])
          refine Or.inr ⟨?_, hne⟩
          by_cases e : i = x
          · subst e
            simp only [upd_same] at hr
            exact hc r hr
          · rw [upd_other _ _ _ _ e] at hr
            refine hf r (hL r (mem_refs_full.mpr (Or.inr ⟨i, hr⟩))) ?_
            intro hp
            exact e (snoc_prefix_eq (refs_pos _ _ r hr) hp)
      · intro r hLr hnp
        rw [liveRunR_append]
        simp only [liveRunR, liveR]
        exact Or.inr ⟨hf r hLr (not_prefix_of_not_prefix hnp),
          ne_of_not_prefix (o := ⟨pre, .full o ch val⟩) (List.prefix_refl _) hnp⟩
  | ext o ep c ih =>
    intro pre p L hw hL
    have hold : L ⟨pre, .ext o ep c⟩ := hL _ (by simp [refs])
    have hwn := WFn_of_WF_ext hw
    simp only [insertE]
    split
    · -- the extension's path is a prefix of the path: recurse into the child
      rename_i p' _
      obtain ⟨hd, hc, hf⟩ := ih (pre ++ ep) p' L (Or.inr hwn.2.2)
        (fun r hr => hL r (mem_refs_ext.mpr (Or.inr hr)))
      have hold1 : liveRunR L (insertE v b c (pre ++ ep) p').2 ⟨pre, .ext o ep c⟩ :=
        hf _ hold (by
          intro h
          exact pos_ne_of_prefix hwn.1 h rfl)
      refine ⟨(discR_append _ _ _).mpr ⟨hd, by simp [DiscR, EvOk, hold1]⟩, ?_, ?_⟩
      · intro r hr
        rw [liveRunR_append]
        simp only [liveRunR, liveR]
        rw [mem_refs_ext] at hr
        rcases hr with hr | hr
        · exact Or.inl hr
        · refine Or.inr ⟨hc r hr, ?_⟩
          intro e
          exact pos_ne_of_prefix hwn.1 (refs_pos _ _ r hr) (by rw [e])
      · intro r hLr hnp
        rw [liveRunR_append]
        simp only [liveRunR, liveR]
        exact Or.inr ⟨hf r hLr (not_prefix_of_not_prefix hnp),
          ne_of_not_prefix (o := ⟨pre, .ext o ep c⟩) (List.prefix_refl _) hnp⟩
    · -- the path ends inside the extension's path
      rename_i cm y er hs
      have hep : ep = cm ++ y :: er := (splitCommon_eq hs).2.1
      have hLc : ∀ r ∈ refs c (pre ++ cm ++ [y] ++ er), L r ∧ r ≠ ⟨pre, .ext o ep c⟩ := by
        intro r hr
        have hr' : r ∈ refs c (pre ++ ep) := by rw [hep]; simpa [List.append_assoc] using hr
        refine ⟨hL r (mem_refs_ext.mpr (Or.inr hr')), ?_⟩
        intro e
        exact pos_ne_of_prefix (q := ep) (by rw [hep]; simp) (refs_pos _ _ r hr') (by rw [e])
      have := newShape_ok v ⟨pre, .ext o ep c⟩ pre cm (.full v (upd emptyCh y (extRest v er c)) (some b))
        (if er = [] then [] else [⟨pre ++ cm ++ [y], .ext v er c⟩]) L hold rfl
        (by
          intro n hn
          split at hn
          · cases hn
          · simp only [List.mem_singleton] at hn; subst hn; exact snoc_ne_self_ref rfl)
        (by
          intro r hr
          rw [mem_refs_full] at hr
          rcases hr with hr | hr
          · exact Or.inl hr
          · rcases mem_refs_extRest (refs_children_one hr) with ⟨hne, h⟩ | h
            · exact Or.inr (Or.inl (by simp [hne, h]))
            · exact Or.inr (Or.inr (hLc r h)))
      rw [extRestE_eq]
      simpa using this
    · -- the paths diverge inside the extension's path
      rename_i cm x pr y er hs
      have hep : ep = cm ++ y :: er := (splitCommon_eq hs).2.1
      have hLc : ∀ r ∈ refs c (pre ++ cm ++ [y] ++ er), L r ∧ r ≠ ⟨pre, .ext o ep c⟩ := by
        intro r hr
        have hr' : r ∈ refs c (pre ++ ep) := by rw [hep]; simpa [List.append_assoc] using hr
        refine ⟨hL r (mem_refs_ext.mpr (Or.inr hr')), ?_⟩
        intro e
        exact pos_ne_of_prefix (q := ep) (by rw [hep]; simp) (refs_pos _ _ r hr') (by rw [e])
      have := newShape_ok v ⟨pre, .ext o ep c⟩ pre cm
        (.full v (upd (upd emptyCh x (.leaf v pr b)) y (extRest v er c)) none)
        (⟨pre ++ cm ++ [x], .leaf v pr b⟩ :: (if er = [] then [] else [⟨pre ++ cm ++ [y], .ext v er c⟩])) L hold rfl
        (by
          intro n hn
          rcases List.mem_cons.mp hn with hn | hn
          · subst hn; exact snoc_ne_self_ref rfl
          · split at hn
            · cases hn
            · simp only [List.mem_singleton] at hn; subst hn; exact snoc_ne_self_ref rfl)
        (by
          intro r hr
          rw [mem_refs_full] at hr
          rcases hr with hr | hr
          · exact Or.inl hr
          · rcases refs_children_two hr with h | h
            · rcases mem_refs_extRest h with ⟨hne, h⟩ | h
              · exact Or.inr (Or.inl (by simp [hne, h]))
              · exact Or.inr (Or.inr (hLc r h))
            · rw [mem_refs_leaf] at h
              exact Or.inr (Or.inl (by simp [h])))
      rw [extRestE_eq]
      simpa using this

/-! ### delete -/

/-- what is proved about the result of `deleteE` / `liftE` -/
def DelOk (L : Ref → Prop) (pre : List Nib) (res : DRes × List Event) : Prop :=
  match res.1 with
  | .node n => OpOk L pre res.2 n
  | .removed => OpOk L pre res.2 .empty
  | _ => True

theorem wfn_of_deleteE {v : Nat} {t : Node} {pre p : List Nib} {n : Node} {es : List Event} (hw : WF t)
    (h : deleteE v t pre p = (.node n, es)) : WFn n := by
  have h1 := deleteE_fst v t pre p
  rw [h] at h1
  have h2 := delete_spec v t p hw
  rw [← h1] at h2
  exact h2.2.1

theorem liftE_ok (v : Nat) (old : Ref) (pre : List Nib) (i : Nib) (n : Node) (L : Ref → Prop)
    (hold : L old) (hpos : old.pos = pre) (hw : WF n) (hL : ∀ r ∈ refs n (pre ++ [i]), L r) :
    DelOk L pre (liftE v old pre i n) := by
  have hne : ∀ r ∈ refs n (pre ++ [i]), r ≠ old := by
    intro r hr e
    exact pos_ne_of_prefix (q := [i]) (by simp) (refs_pos _ _ r hr) (by rw [e, hpos])
  have hframe : ∀ (o : Ref), pre <+: o.pos → ∀ r, L r → ¬ pre <+: r.pos → r ≠ o :=
    fun o ho r _ hnp => ne_of_not_prefix ho hnp
  have hchild : pre <+: pre ++ [i] := List.prefix_append _ _
  have holdp : pre <+: old.pos := by rw [hpos]; exact List.prefix_refl _
  cases n with
  | empty => simp [DelOk, liftE]
  | leaf o p lv =>
    have hc : L ⟨pre ++ [i], .leaf o p lv⟩ := hL _ (by simp [refs])
    have hnc : old ≠ ⟨pre ++ [i], .leaf o p lv⟩ := fun e => hne _ (by simp [refs]) e.symm
    simp only [DelOk, liftE]
    refine ⟨by simp [DiscR, EvOk, liveR, hc, hold, hnc], ?_, ?_⟩
    · intro r hr; rw [mem_refs_leaf] at hr; subst hr; simp [liveRunR, liveR]
    · intro r hLr hnp
      simp only [liveRunR, liveR]
      exact Or.inr ⟨⟨hLr, hframe ⟨pre ++ [i], _⟩ hchild r hLr hnp⟩, hframe old holdp r hLr hnp⟩
  | ext o p c =>
    have hc : L ⟨pre ++ [i], .ext o p c⟩ := hL _ (by simp [refs])
    have hp : p ≠ [] := (WFn_of_WF_ext hw).1
    have hnc : old ≠ ⟨pre ++ [i], .ext o p c⟩ := fun e => hne _ (by simp [refs]) e.symm
    simp only [DelOk, liftE]
    refine ⟨by simp [DiscR, EvOk, liveR, hc, hold, hnc], ?_, ?_⟩
    · intro r hr
      rw [mem_refs_ext] at hr
      simp only [liveRunR, liveR]
      rcases hr with hr | hr
      · exact Or.inl hr
      · have hr' : r ∈ refs c (pre ++ [i] ++ p) := by simpa [List.append_assoc] using hr
        have hm : r ∈ refs (.ext o p c) (pre ++ [i]) := mem_refs_ext.mpr (Or.inr hr')
        refine Or.inr ⟨⟨hL r hm, ?_⟩, hne r hm⟩
        intro e
        exact pos_ne_of_prefix hp (refs_pos _ _ r hr') (by rw [e])
    · intro r hLr hnp
      simp only [liveRunR, liveR]
      exact Or.inr ⟨⟨hLr, hframe ⟨pre ++ [i], _⟩ hchild r hLr hnp⟩, hframe old holdp r hLr hnp⟩
  | full o ch val =>
    simp only [DelOk, liftE]
    refine ⟨by simp [DiscR, EvOk, hold], ?_, ?_⟩
    · intro r hr
      rw [mem_refs_ext] at hr
      simp only [liveRunR, liveR]
      rcases hr with hr | hr
      · exact Or.inl hr
      · exact Or.inr ⟨hL r hr, hne r hr⟩
    · intro r hLr hnp
      simp only [liveRunR, liveR]
      exact Or.inr ⟨hLr, hframe old holdp r hLr hnp⟩

theorem liftFirstE_ok (v : Nat) (old : Ref) (pre : List Nib) (ch : Nib → Node) (L : Ref → Prop)
    (hold : L old) (hpos : old.pos = pre) (hw : ∀ i, WF (ch i)) (hL : ∀ i, ∀ r ∈ refs (ch i) (pre ++ [i]), L r) :
    DelOk L pre (liftFirstE v old pre ch) := by
  simp only [liftFirstE]
  split
  · rename_i i _
    exact liftE_ok v old pre i (ch i) L hold hpos (hw i) (hL i)
  · simp [DelOk]

/-- replacing the node at `pre` by a new node whose proper sub-nodes are all live -/
theorem replace_ok (old new : Ref) (pre : List Nib) (t' : Node) (L : Ref → Prop) (hold : L old) (hpos : old.pos = pre)
    (hcov : ∀ r ∈ refs t' pre, r = new ∨ (L r ∧ r ≠ old)) : OpOk L pre [.put (some old) new] t' := by
  refine ⟨by simp [DiscR, EvOk, hold], ?_, ?_⟩
  · intro r hr; simp only [liveRunR, liveR]; exact hcov r hr
  · intro r hLr hnp
    simp only [liveRunR, liveR]
    exact Or.inr ⟨hLr, ne_of_not_prefix (by rw [hpos]; exact List.prefix_refl _) hnp⟩

/-- sequencing: an operation below `pre ++ q` followed by events justified in the resulting live set -/
theorem opOk_append {L : Ref → Prop} {pre : List Nib} {es₁ es₂ : List Event} {t' : Node}
    (hd : DiscR L es₁) (h2 : OpOk (liveRunR L es₁) pre es₂ t')
    (hf : ∀ r, L r → ¬ pre <+: r.pos → liveRunR L es₁ r) : OpOk L pre (es₁ ++ es₂) t' := by
  refine ⟨(discR_append _ _ _).mpr ⟨hd, h2.1⟩, ?_, ?_⟩
  · intro r hr; rw [liveRunR_append]; exact h2.2.1 r hr
  · intro r hLr hnp; rw [liveRunR_append]; exact h2.2.2 r (hf r hLr hnp) hnp

theorem deleteE_ok (v : Nat) (t : Node) :
    ∀ (pre p : List Nib) (L : Ref → Prop), WF t → (∀ r ∈ refs t pre, L r) → DelOk L pre (deleteE v t pre p) := by
  induction t with
  | empty => intro pre p L _ _; simp [DelOk, deleteE]
  | leaf o lp lv =>
    intro pre p L _ hL
    have hold : L ⟨pre, .leaf o lp lv⟩ := hL _ (by simp [refs])
    simp only [deleteE]
    split
    · simp only [DelOk]
      refine ⟨by simp [DiscR, EvOk, hold], by simp [refs], ?_⟩
      intro r hLr hnp
      simp only [liveRunR, liveR]
      exact ⟨hLr, ne_of_not_prefix (o := ⟨pre, .leaf o lp lv⟩) (List.prefix_refl _) hnp⟩
    · simp [DelOk]
  | full o ch val ih =>
    intro pre p L hw hL
    have hold : L ⟨pre, .full o ch val⟩ := hL _ (by simp [refs])
    have hLc : ∀ i, ∀ r ∈ refs (ch i) (pre ++ [i]), L r := fun i r hr => hL r (mem_refs_full.mpr (Or.inr ⟨i, hr⟩))
    have hnec : ∀ i, ∀ r ∈ refs (ch i) (pre ++ [i]), r ≠ ⟨pre, .full o ch val⟩ := by
      intro i r hr e
      exact pos_ne_of_prefix (q := [i]) (by simp) (refs_pos _ _ r hr) (by rw [e])
    cases p with
    | nil =>
      simp only [deleteE]
      cases val with
      | none => simp [DelOk]
      | some bv =>
        simp only
        split
        · exact liftFirstE_ok v _ pre ch L hold rfl (WF_child hw) hLc
        · simp only [DelOk]
          apply replace_ok _ _ pre _ L hold rfl
          intro r hr
          rw [mem_refs_full] at hr
          rcases hr with hr | ⟨i, hr⟩
          · exact Or.inl hr
          · exact Or.inr ⟨hLc i r hr, hnec i r hr⟩
    | cons x pr =>
      simp only [deleteE]
      have hrec := ih x (pre ++ [x]) pr L (WF_child hw x) (hLc x)
      cases hE : deleteE v (ch x) (pre ++ [x]) pr with
      | mk res es =>
        rw [hE] at hrec
        have hnpold : ¬ pre ++ [x] <+: (⟨pre, .full o ch val⟩ : Ref).pos := by
          intro h
          have := h.length_le
          simp at this
          omega
        have hsib : ∀ i, i ≠ x → ∀ r ∈ refs (ch i) (pre ++ [i]), ¬ pre ++ [x] <+: r.pos := by
          intro i hi r hr hp
          exact hi (snoc_prefix_eq (refs_pos _ _ r hr) hp)
        cases res with
        | notPresent => simp [DelOk]
        | panic => simp [DelOk]
        | node c' =>
          simp only [DelOk] at hrec ⊢
          obtain ⟨hd, hc, hf⟩ := hrec
          apply opOk_append hd _ (fun r hLr hnp => hf r hLr (not_prefix_of_not_prefix hnp))
          apply replace_ok _ _ pre _ _ (hf _ hold hnpold) rfl
          intro r hr
          rw [mem_refs_full] at hr
          rcases hr with hr | ⟨i, hr⟩
          · exact Or.inl hr
          · by_cases e : i = x
            · subst e
              simp only [upd_same] at hr
              refine Or.inr ⟨hc r hr, ?_⟩
              intro e
              exact pos_ne_of_prefix (q := [i]) (by simp) (refs_pos _ _ r hr) (by rw [e])
            · rw [upd_other _ _ _ _ e] at hr
              exact Or.inr ⟨hf r (hLc i r hr) (hsib i e r hr), hnec i r hr⟩
        | removed =>
          simp only [DelOk] at hrec
          obtain ⟨hd, _, hf⟩ := hrec
          have hold1 := hf _ hold hnpold
          have hframe1 : ∀ r, L r → ¬ pre <+: r.pos → liveRunR L es r :=
            fun r hLr hnp => hf r hLr (not_prefix_of_not_prefix hnp)
          have hsib1 : ∀ i, ∀ r ∈ refs (upd ch x .empty i) (pre ++ [i]), liveRunR L es r ∧ r ≠ ⟨pre, .full o ch val⟩ := by
            intro i r hr
            by_cases e : i = x
            · subst e; simp [refs] at hr
            · rw [upd_other _ _ _ _ e] at hr
              exact ⟨hf r (hLc i r hr) (hsib i e r hr), hnec i r hr⟩
          simp only
          split
          · cases val with
            | none =>
              simp only [DelOk]
              exact ⟨hd, by simp [refs], hframe1⟩
            | some bv =>
              simp only [DelOk]
              apply opOk_append hd _ hframe1
              apply replace_ok _ _ pre _ _ hold1 rfl
              intro r hr
              rw [mem_refs_leaf] at hr
              exact Or.inl hr
          · split
            · have hl := liftFirstE_ok v ⟨pre, .full o ch val⟩ pre (upd ch x .empty) (liveRunR L es) hold1 rfl
                (by
                  intro i
                  by_cases e : i = x
                  · subst e; simp [WF, Node.isEmpty]
                  · rw [upd_other _ _ _ _ e]; exact WF_child hw i)
                (fun i r hr => (hsib1 i r hr).1)
              cases hl2 : liftFirstE v ⟨pre, .full o ch val⟩ pre (upd ch x .empty) with
              | mk res2 es2 =>
                rw [hl2] at hl
                cases res2 with
                | notPresent => simp [DelOk]
                | panic => simp [DelOk]
                | node n2 => simp only [DelOk] at hl ⊢; exact opOk_append hd hl hframe1
                | removed => simp only [DelOk] at hl ⊢; exact opOk_append hd hl hframe1
            · simp only [DelOk]
              apply opOk_append hd _ hframe1
              apply replace_ok _ _ pre _ _ hold1 rfl
              intro r hr
              rw [mem_refs_full] at hr
              rcases hr with hr | ⟨i, hr⟩
              · exact Or.inl hr
              · exact Or.inr (hsib1 i r hr)
  | ext o ep c ih =>
    intro pre p L hw hL
    have hold : L ⟨pre, .ext o ep c⟩ := hL _ (by simp [refs])
    have hwn := WFn_of_WF_ext hw
    simp only [deleteE]
    rcases hs : splitCommon p ep with ⟨cm, p', er⟩
    cases er with
    | cons y er' => simp [DelOk]
    | nil =>
      simp only
      have hrec := ih (pre ++ ep) p' L (Or.inr hwn.2.2) (fun r hr => hL r (mem_refs_ext.mpr (Or.inr hr)))
      cases hE : deleteE v c (pre ++ ep) p' with
      | mk res es =>
        rw [hE] at hrec
        have hnpold : ¬ pre ++ ep <+: (⟨pre, .ext o ep c⟩ : Ref).pos := fun h => pos_ne_of_prefix hwn.1 h rfl
        cases res with
        | notPresent => simp [DelOk]
        | panic => simp [DelOk]
        | removed => simp [DelOk]
        | node n =>
          have hwn' : WFn n := wfn_of_deleteE (Or.inr hwn.2.2) hE
          simp only [DelOk] at hrec
          obtain ⟨hd, hc, hf⟩ := hrec
          have hold1 := hf _ hold hnpold
          have hframe1 : ∀ r, L r → ¬ pre <+: r.pos → liveRunR L es r :=
            fun r hLr hnp => hf r hLr (not_prefix_of_not_prefix hnp)
          have hneold : ∀ r ∈ refs n (pre ++ ep), r ≠ ⟨pre, .ext o ep c⟩ := by
            intro r hr e
            exact pos_ne_of_prefix hwn.1 (refs_pos _ _ r hr) (by rw [e])
          cases n with
          | empty => simp [DelOk]
          | leaf o2 lp lv =>
            simp only [DelOk]
            apply opOk_append hd _ hframe1
            have hroot : liveRunR L es ⟨pre ++ ep, .leaf o2 lp lv⟩ := hc _ (by simp [refs])
            have hnc : (⟨pre, .ext o ep c⟩ : Ref) ≠ ⟨pre ++ ep, .leaf o2 lp lv⟩ := fun e => hneold _ (by simp [refs]) e.symm
            refine ⟨by simp [DiscR, EvOk, liveR, hroot, hold1, hnc], ?_, ?_⟩
            · intro r hr; rw [mem_refs_leaf] at hr; subst hr; simp [liveRunR, liveR]
            · intro r hLr hnp
              simp only [liveRunR, liveR]
              exact Or.inr ⟨⟨hLr, ne_of_not_prefix (o := ⟨pre ++ ep, _⟩) (List.prefix_append _ _) hnp⟩,
                ne_of_not_prefix (o := ⟨pre, .ext o ep c⟩) (List.prefix_refl _) hnp⟩
          | ext o2 p2 c2 =>
            simp only [DelOk]
            apply opOk_append hd _ hframe1
            have hroot : liveRunR L es ⟨pre ++ ep, .ext o2 p2 c2⟩ := hc _ (by simp [refs])
            have hp2 : p2 ≠ [] := hwn'.1
            have hnc : (⟨pre, .ext o ep c⟩ : Ref) ≠ ⟨pre ++ ep, .ext o2 p2 c2⟩ := fun e => hneold _ (by simp [refs]) e.symm
            refine ⟨by simp [DiscR, EvOk, liveR, hroot, hold1, hnc], ?_, ?_⟩
            · intro r hr
              rw [mem_refs_ext] at hr
              simp only [liveRunR, liveR]
              rcases hr with hr | hr
              · exact Or.inl hr
              · have hr' : r ∈ refs c2 (pre ++ ep ++ p2) := by simpa [List.append_assoc] using hr
                have hm : r ∈ refs (.ext o2 p2 c2) (pre ++ ep) := mem_refs_ext.mpr (Or.inr hr')
                refine Or.inr ⟨⟨hc r hm, ?_⟩, hneold r hm⟩
                intro e
                exact pos_ne_of_prefix hp2 (refs_pos _ _ r hr') (by rw [e])
            · intro r hLr hnp
              simp only [liveRunR, liveR]
              exact Or.inr ⟨⟨hLr, ne_of_not_prefix (o := ⟨pre ++ ep, _⟩) (List.prefix_append _ _) hnp⟩,
                ne_of_not_prefix (o := ⟨pre, .ext o ep c⟩) (List.prefix_refl _) hnp⟩
          | full o2 ch2 val2 =>
            simp only [DelOk]
            apply opOk_append hd _ hframe1
            apply replace_ok _ _ pre _ _ hold1 rfl
            intro r hr
            rw [mem_refs_ext] at hr
            rcases hr with hr | hr
            · exact Or.inl hr
            · exact Or.inr ⟨hc r hr, hneold r hr⟩

end Verif.MptStore
