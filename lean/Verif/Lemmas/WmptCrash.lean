/-
C11, crash clause, for histories of Update / Delete / Root / Commit (no garbage-collection passes):
"a crash between any two storage operations leaves the last durably committed root fully resolvable".

In the model the only storage operations of such a history are the atomic commit batches, so the storage states a crash
can leave behind are exactly the storages after some prefix of the history.  This file proves that along such a history
storage only accumulates: every spec tree that was stored entirely stays stored entirely (`old_roots_step`), hence the
tree committed after a prefix `p` is stored entirely in the storage after every longer prefix `p ++ q'`
(`committed_prefix_stored`), and a trie opened on that later storage from just `(hash, weight)` of the tree committed
after `p` answers every block query like the spec tree (`crash_prefix_recoverable`).
Core Lean only.
-/
import Verif.Lemmas.WmptHistoryInv
namespace Verif.Wmpt

open RepOps RepMore

section
variable {H : Bytes → Bytes}

/-! ### 1. only `Commit` writes to the storage -/

theorem update_store (t : WT) (key : List Nib) (v : Bytes) (w : Nat) : (update H t key v w).1.store = t.store := by
  unfold update
  split
  · rfl
  · split
    · dsimp only
      split <;> rfl
    · dsimp only
      split <;> rfl

theorem deleteKey_store (t : WT) (key : List Nib) : (deleteKey H t key).1.store = t.store := by
  unfold deleteKey
  dsimp only
  split <;> rfl

/-- a plain operation that is not a `Commit` leaves the storage alone -/
theorem hstep_store_plain (st : HState) (op : HOp) (hpl : op.plain) (hnc : ∀ lvl, op ≠ .commit lvl) :
    (hstep H st op).t.store = st.t.store := by
  cases op with
  | gc => exact hpl.elim
  | saveRoot => exact hpl.elim
  | rollback => exact hpl.elim
  | upd key v w => exact update_store st.t key v w
  | del key => exact deleteKey_store st.t key
  | root => exact rootHash_store st.t
  | commit lvl => exact absurd rfl (hnc lvl)

/-- the storage after a `Commit` step: the batch applied to the storage before -/
theorem hstep_store_commit (st : HState) (lvl : Int) :
    (hstep H st (.commit lvl)).t.store = st.t.store.apply (commit H st.t lvl).2 := by
  simp only [hstep]
  rw [commit_store]

/-! ### 2. one step keeps every stored tree stored -/

/-- collision freedom on a subtree-closed set gives the collision freedom among the nodes of each member -/
theorem hashInj_sub {S : PT → Prop} (hcl : SubClosed S) (hinj : HashInj H S) {ts : PT} (hS : S ts) :
    HashInj H (fun x => PT.Sub x ts) :=
  fun x y hx hy e => hinj x y (hcl ts x hS hx) (hcl ts y hS hy) e

/-- every tree of `S` that is stored entirely before a plain operation is stored entirely after it.
    (`op.wf` and `PTOK ts` are not needed for this.) -/
theorem old_roots_step (hlen : ∀ x, (H x).length = 32) {S : PT → Prop} (hcl : SubClosed S) (hinj : HashInj H S)
    {st : HState} {ts : PT} {op : HOp} (hi : HInv H st ts) (hpl : op.plain) (hS : S ts) :
    ∀ t2, S t2 → StoredAll H st.t.store t2 → StoredAll H (hstep H st op).t.store t2 := by
  intro t2 h2 hst
  by_cases hc : ∃ lvl, op = .commit lvl
  · obtain ⟨lvl, rfl⟩ := hc
    rw [hstep_store_commit]
    exact (rep_commit hlen hcl hinj lvl st.t hi.rep hi.proper hS).2.2.2.2.2.2 t2 h2 hst
  · rw [hstep_store_plain st op hpl (fun lvl e => hc ⟨lvl, e⟩)]
    exact hst

/-! ### 3. a committed tree stays stored along the rest of the history -/

theorem hrun_snoc (p : List HOp) (op : HOp) : hrun H (p ++ [op]) = hstep H (hrun H p) op := by
  rw [hrun_append]; rfl

theorem specRun_snoc (p : List HOp) (op : HOp) : specRun (p ++ [op]) = specStep (specRun p) op := by
  rw [specRun_append]; rfl

theorem storedAll_of_isNone (s : Store) {t : PT} (h : t.isNone = true) : StoredAll H s t := by
  cases t <;> simp [PT.isNone] at h
  trivial

/-- the invariant and the stored trees of `S`, carried along a continuation `q` of the history `p` -/
theorem stored_run_aux (hlen : ∀ x, (H x).length = 32) {S : PT → Prop} (hcl : SubClosed S) (hinj : HashInj H S)
    (q : List HOp) : ∀ (p : List HOp),
    (∀ op ∈ q, op.plain ∧ op.wf) →
    (∀ q1 q2, q = q1 ++ q2 → PTOK (specRun (p ++ q1)) ∧ S (specRun (p ++ q1))) →
    HInv H (hrun H p) (specRun p) →
    HInv H (hrun H (p ++ q)) (specRun (p ++ q)) ∧
    ∀ t2, S t2 → StoredAll H (hrun H p).t.store t2 → StoredAll H (hrun H (p ++ q)).t.store t2 := by
  induction q with
  | nil => intro p _ _ hi; simpa using hi
  | cons op q ih =>
    intro p hall hok hi
    have e : p ++ op :: q = (p ++ [op]) ++ q := by simp
    have h0 := hok [] (op :: q) rfl
    simp only [List.append_nil] at h0
    have hpl := (hall op List.mem_cons_self).1
    have hwf := (hall op List.mem_cons_self).2
    have hi1 : HInv H (hrun H (p ++ [op])) (specRun (p ++ [op])) := by
      rw [hrun_snoc, specRun_snoc]
      exact hinv_step hlen hi hpl hwf h0.1 (fun _ _ => hashInj_sub hcl hinj h0.2)
    have hs1 : ∀ t2, S t2 → StoredAll H (hrun H p).t.store t2 → StoredAll H (hrun H (p ++ [op])).t.store t2 := by
      rw [hrun_snoc]
      exact old_roots_step hlen hcl hinj hi hpl h0.2
    rw [e]
    obtain ⟨r1, r2⟩ := ih (p ++ [op]) (fun o ho => hall o (List.mem_cons_of_mem _ ho))
      (fun q1 q2 hq => by simpa using hok (op :: q1) q2 (by rw [hq]; rfl)) hi1
    exact ⟨r1, fun t2 h2 hst => r2 t2 h2 (hs1 t2 h2 hst)⟩

/-- the invariant after every prefix of the history -/
theorem hinv_prefix (hlen : ∀ x, (H x).length = 32) (ops : List HOp)
    (hall : ∀ op ∈ ops, op.plain ∧ op.wf)
    (hok : ∀ p q, ops = p ++ q → PTOK (specRun p))
    {S : PT → Prop} (hcl : SubClosed S) (hinj : HashInj H S) (hS : ∀ p q, ops = p ++ q → S (specRun p))
    (p q : List HOp) (hsplit : ops = p ++ q) : HInv H (hrun H p) (specRun p) := by
  have h := (stored_run_aux hlen hcl hinj p [] (fun o ho => hall o (by rw [hsplit]; exact List.mem_append_left _ ho))
    (fun q1 q2 hq => by
      have e : ops = q1 ++ (q2 ++ q) := by rw [hsplit, hq, List.append_assoc]
      simpa using And.intro (hok q1 _ e) (hS q1 _ e)) hinv_init).1
  simpa using h

/-- the tree committed after the prefix `p` (the root is clean there) is stored entirely in the storage after every
    longer prefix `p ++ q'` of the history: these are the storages a crash after `p` can leave behind. -/
theorem committed_prefix_stored (hlen : ∀ x, (H x).length = 32) (ops : List HOp)
    (hall : ∀ op ∈ ops, op.plain ∧ op.wf)
    (hok : ∀ p q, ops = p ++ q → PTOK (specRun p))
    {S : PT → Prop} (hcl : SubClosed S) (hinj : HashInj H S) (hS : ∀ p q, ops = p ++ q → S (specRun p))
    (p q' r : List HOp) (hsplit : ops = p ++ q' ++ r) (hd : (hrun H p).t.root.dirty = false) :
    StoredAll H (hrun H (p ++ q')).t.store (specRun p) := by
  have hsp : ops = p ++ (q' ++ r) := by rw [hsplit, List.append_assoc]
  have hi := hinv_prefix hlen ops hall hok hcl hinj hS p (q' ++ r) hsp
  have hst0 : StoredAll H (hrun H p).t.store (specRun p) := by
    by_cases hn : (specRun p).isNone = true
    · exact storedAll_of_isNone _ hn
    · exact hi.rep.P_of_clean hd (by simpa using hn)
  refine (stored_run_aux hlen hcl hinj q' p
    (fun o ho => hall o (by rw [hsplit]; exact List.mem_append_left _ (List.mem_append_right _ ho)))
    (fun q1 q2 hq => ?_) hi).2 (specRun p) (hS p _ hsp) hst0
  have e : ops = (p ++ q1) ++ (q2 ++ r) := by rw [hsplit, hq]; simp
  exact ⟨hok _ _ e, hS _ _ e⟩

/-- in particular: in the final storage -/
theorem committed_prefix_stored_final (hlen : ∀ x, (H x).length = 32) (ops : List HOp)
    (hall : ∀ op ∈ ops, op.plain ∧ op.wf)
    (hok : ∀ p q, ops = p ++ q → PTOK (specRun p))
    {S : PT → Prop} (hcl : SubClosed S) (hinj : HashInj H S) (hS : ∀ p q, ops = p ++ q → S (specRun p))
    (p q : List HOp) (hsplit : ops = p ++ q) (hd : (hrun H p).t.root.dirty = false) :
    StoredAll H (hrun H ops).t.store (specRun p) := by
  have := committed_prefix_stored hlen ops hall hok hcl hinj hS p q [] (by simpa using hsplit) hd
  rw [hsplit]; exact this

/-! ### 4. the last committed root is recoverable from every later storage -/

/-- MAIN (C11, crash clause).  Let the history be `p ++ q' ++ r` with a clean root after `p` (e.g. `p` ends with a
    `Commit`), and let the process stop after `p ++ q'`, leaving the storage `(hrun H (p ++ q')).t.store` behind.  The
    trie opened on that storage from just `(Root(), Weight())` of the state committed after `p` answers every block
    `1 ≤ b ≤ weight` like the spec tree `specRun p`: it names the 32 key bytes of the owner of the block (`ownerSpec`
    over the entries of `specRun p`) and returns the encoding of the honest proof of `specRun p`, which verifies
    against the committed root hash and yields the owner's value.  The first conjunct says the same at the level of
    `getBlockProof` on the bare `(hash, weight)` reference. -/
theorem crash_prefix_recoverable (hlen : ∀ x, (H x).length = 32) (ops : List HOp)
    (hall : ∀ op ∈ ops, op.plain ∧ op.wf)
    (hok : ∀ p q, ops = p ++ q → PTOK (specRun p))
    {S : PT → Prop} (hcl : SubClosed S) (hinj : HashInj H S) (hS : ∀ p q, ops = p ++ q → S (specRun p))
    (p q' r : List HOp) (hsplit : ops = p ++ q' ++ r) (hd : (hrun H p).t.root.dirty = false)
    (b : Nat) (hb1 : 1 ≤ b) (hb : b ≤ (specRun p).weight) :
    ∃ k v key, ownerSpec (specRun p).entries b = some (k, v) ∧ keybytesToHex key = k ∧ key.length = 32 ∧
      (getBlockProof H true (hrun H (p ++ q')).t.store 200
          (.hashRef (PT.hash H (specRun p)) (specRun p).weight) b []).res =
        .ok (k, ((specRun p).proofPairs H b).map Cbor.encBase) ∧
      (blockProof H { root := .hashRef (PT.hash H (specRun p)) (specRun p).weight,
                      store := (hrun H (p ++ q')).t.store } b).2 =
        .ok (key, Cbor.encTrie (((specRun p).proofPairs H b).map Cbor.encBase)) ∧
      verifyPairs H (((specRun p).proofPairs H b).map PairD.ok) b = .ok (PT.hash H (specRun p), v) := by
  have hsp : ops = p ++ (q' ++ r) := by rw [hsplit, List.append_assoc]
  have hi := hinv_prefix hlen ops hall hok hcl hinj hS p (q' ++ r) hsp
  have hokp := hok p _ hsp
  have hst := committed_prefix_stored hlen ops hall hok hcl hinj hS p q' r hsplit hd
  have hn : (specRun p).isNone = false := PT.isNone_of_weight (by omega)
  have hdep := depth_le_of_uniform hi.uniform
  obtain ⟨k, v, ho, hg, hv⟩ := reopen_verifies H hlen (hrun H (p ++ q')).t.store (specRun p) b 200 hst hokp.1 hokp.2
    hb1 hb (by omega)
  obtain ⟨k', v', key, ho', _, hx, hl, hbp⟩ :=
    blockProof_rep' hlen { root := .hashRef (PT.hash H (specRun p)) (specRun p).weight,
                           store := (hrun H (p ++ q')).t.store } (specRun p) 64 b rfl
      (Rep.ref (specRun p) hn hst) trivial trivial hi.uniform (by decide) (by decide) hokp hb1 hb
  rw [ho] at ho'
  cases ho'
  refine ⟨k, v, key, ?_, hx, by omega, hg, hbp, hv⟩
  rw [← owner_eq_ownerSpec (specRun p) b hb1 hb]; exact ho

end
end Verif.Wmpt
