import Verif.Lemmas.MerkleSpec
/-! Lemmas for C19, implementation side: the flat-array loops of `ComputeTree` produce the concatenated levels. -/
namespace Verif.Merkle

variable {α : Type}

theorem getD_set_ne (t : Array α) (i k : Nat) (v z : α) (h : i ≠ k) :
    (t.setIfInBounds i v).getD k z = t.getD k z := by
  simp [Array.getD_eq_getD_getElem?, h]

theorem getElem?_set_ne (t : Array α) (i k : Nat) (v : α) (h : i ≠ k) :
    (t.setIfInBounds i v)[k]? = t[k]? := by
  simp [h]

theorem getElem?_set_eq (t : Array α) (i : Nat) (v : α) (h : i < t.size) :
    (t.setIfInBounds i v)[i]? = some v := by
  simp [h]

/-- the pair loop: sizes and everything outside the target segment are untouched; slot `j'` of the target segment
holds the hash of the pair `(2j', 2j'+1)` of the source level whenever that pair is complete -/
theorem innerLoop_spec (H : α → α → α) (z : α) (pl0 plsize : Nat) : ∀ (i j : Nat) (t : Array α), i = 2 * j →
    (innerLoop H z pl0 plsize i j t).size = t.size ∧
    (∀ k, (k < pl0 + plsize + j ∨ pl0 + plsize + (plsize + 1) / 2 ≤ k) →
      (innerLoop H z pl0 plsize i j t)[k]? = t[k]?) ∧
    (pl0 + plsize + (plsize + 1) / 2 ≤ t.size → ∀ j', j ≤ j' → 2 * j' + 1 < plsize →
      (innerLoop H z pl0 plsize i j t)[pl0 + plsize + j']? =
        some (H (t.getD (pl0 + 2 * j') z) (t.getD (pl0 + 2 * j' + 1) z))) := by
  intro i j t
  induction i, j, t using innerLoop.induct H z pl0 plsize with
  | case1 i j t hlt ih =>
    intro hij
    rw [innerLoop]; simp only [hlt, dite_true]
    obtain ⟨ih1, ih2, ih3⟩ := ih (by omega)
    refine ⟨by rw [ih1, Array.size_setIfInBounds], ?_, ?_⟩
    · intro k hk
      rw [ih2 k (by omega)]
      exact getElem?_set_ne _ _ _ _ (by omega)
    · intro hb j' hj hj'
      by_cases e : j' = j
      · subst e
        rw [ih2 _ (by omega), getElem?_set_eq _ _ _ (by omega)]
        have : pl0 + i = pl0 + 2 * j' := by omega
        rw [this]
      · rw [ih3 (by rw [Array.size_setIfInBounds]; exact hb) j' (by omega) hj']
        rw [getD_set_ne _ _ _ _ _ (by omega), getD_set_ne _ _ _ _ _ (by omega)]
  | case2 i j t hlt =>
    intro hij
    rw [innerLoop]; simp only [hlt, dite_false]
    refine ⟨trivial, fun _ _ => trivial, ?_⟩
    intro _ j' hj hj'
    omega

theorem getD_of_getElem? (t : Array α) (L : List α) (z : α) (k m : Nat) (h : t[k]? = L[m]?) :
    t.getD k z = L.getD m z := by
  simp [Array.getD_eq_getD_getElem?, List.getD_eq_getElem?_getD, h]

/-- one level pass writes exactly `pairUp` of the source level into the next segment -/
theorem levelPass_spec (H : α → α → α) (z : α) (pl0 : Nat) (L : List α) (t : Array α)
    (hL : ∀ m, m < L.length → t[pl0 + m]? = L[m]?) (h2 : 1 < L.length)
    (hb : pl0 + L.length + (L.length + 1) / 2 ≤ t.size) :
    (levelPass H z pl0 L.length t).size = t.size ∧
    (∀ k, (k < pl0 + L.length ∨ pl0 + L.length + (L.length + 1) / 2 ≤ k) →
      (levelPass H z pl0 L.length t)[k]? = t[k]?) ∧
    (∀ j, j < (pairUp H L).length → (levelPass H z pl0 L.length t)[pl0 + L.length + j]? = (pairUp H L)[j]?) := by
  obtain ⟨i1, i2, i3⟩ := innerLoop_spec H z pl0 L.length 0 0 t rfl
  have i3 := i3 hb
  have rdL : ∀ m, m < L.length → t.getD (pl0 + m) z = L.getD m z :=
    fun m hm => getD_of_getElem? t L z _ _ (hL m hm)
  have hp : ∀ j, j < (pairUp H L).length → (pairUp H L)[j]? = some
      (if 2 * j + 1 < L.length then H (L.getD (2 * j) z) (L.getD (2 * j + 1) z)
       else H (L.getD (2 * j) z) (L.getD (2 * j) z)) := by
    intro j hj
    rw [length_pairUp] at hj
    have := pairUp_getD H z L (2 * j) (by omega)
    have e1 : 2 * j / 2 = j := by omega
    have e2 : ¬ (2 * j % 2 = 1) := by omega
    rw [e1] at this
    simp only [e2, if_false] at this
    rw [List.getD_eq_getElem?_getD] at this
    have hj' : j < (pairUp H L).length := by rw [length_pairUp]; omega
    rw [List.getElem?_eq_getElem hj'] at this ⊢
    simp only [Option.getD_some] at this
    rw [this]
  unfold levelPass
  by_cases hodd : L.length % 2 = 1
  · simp only [hodd, if_true]
    refine ⟨by rw [Array.size_setIfInBounds, i1], ?_, ?_⟩
    · intro k hk
      rw [getElem?_set_ne _ _ _ _ (by omega)]
      exact i2 k (by omega)
    · intro j hj
      rw [hp j hj]
      rw [length_pairUp] at hj
      by_cases e : j = L.length / 2
      · subst e
        rw [getElem?_set_eq _ _ _ (by rw [i1]; omega)]
        have hlast : pl0 + L.length - 1 = pl0 + (L.length - 1) := by omega
        have : (innerLoop H z pl0 L.length 0 0 t).getD (pl0 + L.length - 1) z = L.getD (L.length - 1) z := by
          rw [hlast, Array.getD_eq_getD_getElem?, i2 _ (by omega), ← Array.getD_eq_getD_getElem?]
          exact rdL _ (by omega)
        rw [this]
        have e3 : ¬ (2 * (L.length / 2) + 1 < L.length) := by omega
        have e4 : 2 * (L.length / 2) = L.length - 1 := by omega
        rw [if_neg e3, e4]
      · rw [getElem?_set_ne _ _ _ _ (by omega), i3 j (by omega) (by omega)]
        have e3 : 2 * j + 1 < L.length := by omega
        simp only [e3, if_true]
        rw [rdL _ (by omega)]
        have : pl0 + 2 * j + 1 = pl0 + (2 * j + 1) := by omega
        rw [this, rdL _ e3]
  · simp only [hodd, if_false]
    refine ⟨i1, fun k hk => i2 k (by omega), ?_⟩
    intro j hj
    rw [hp j hj]
    rw [length_pairUp] at hj
    have e3 : 2 * j + 1 < L.length := by omega
    rw [i3 j (by omega) e3]
    simp only [e3, if_true]
    rw [rdL _ (by omega)]
    have : pl0 + 2 * j + 1 = pl0 + (2 * j + 1) := by omega
    rw [this, rdL _ e3]

/-- flattened levels start with the level itself -/
theorem flatten_levelsFrom (H : α → α → α) (L : List α) :
    (levelsFrom H L).flatten = if 1 < L.length then L ++ (levelsFrom H (pairUp H L)).flatten else L := by
  by_cases h : 1 < L.length
  · rw [levelsFrom_cons H L h]; simp [h]
  · rw [levelsFrom_single H L h]; simp [h]

theorem length_le_flatten (H : α → α → α) (L : List α) : L.length ≤ (levelsFrom H L).flatten.length := by
  rw [flatten_levelsFrom]; split <;> simp

/-- the level loop: from a level in place at `pl0` it fills the rest of the array with all levels above it -/
theorem outerLoop_spec (H : α → α → α) (z : α) (L : List α) : ∀ (pl0 : Nat) (t : Array α),
    (∀ m, m < L.length → t[pl0 + m]? = L[m]?) → t.size = pl0 + (levelsFrom H L).flatten.length →
    (outerLoop H z pl0 L.length t).size = t.size ∧
    (∀ k, k < pl0 → (outerLoop H z pl0 L.length t)[k]? = t[k]?) ∧
    (∀ m, m < (levelsFrom H L).flatten.length →
      (outerLoop H z pl0 L.length t)[pl0 + m]? = (levelsFrom H L).flatten[m]?) := by
  induction L using levelsFrom.induct H with
  | case1 L hL ih =>
    intro pl0 t hlv hsz
    rw [outerLoop]; simp only [hL, dite_true]
    rw [flatten_levelsFrom, if_pos hL, List.length_append] at hsz
    have hb : pl0 + L.length + (L.length + 1) / 2 ≤ t.size := by
      have := length_le_flatten H (pairUp H L); rw [length_pairUp] at this; omega
    obtain ⟨p1, p2, p3⟩ := levelPass_spec H z pl0 L t hlv hL hb
    have hlen : (L.length + 1) / 2 = (pairUp H L).length := (length_pairUp H L).symm
    rw [hlen]
    obtain ⟨o1, o2, o3⟩ := ih (pl0 + L.length) (levelPass H z pl0 L.length t) p3 (by rw [p1]; omega)
    refine ⟨by rw [o1, p1], ?_, ?_⟩
    · intro k hk
      rw [o2 k (by omega), p2 k (by omega)]
    · intro m hm
      rw [flatten_levelsFrom, if_pos hL]
      rw [flatten_levelsFrom, if_pos hL, List.length_append] at hm
      by_cases hml : m < L.length
      · rw [List.getElem?_append_left hml, o2 _ (by omega), p2 _ (by omega)]
        exact hlv m hml
      · rw [List.getElem?_append_right (by omega)]
        have : pl0 + m = pl0 + L.length + (m - L.length) := by omega
        rw [this]
        exact o3 _ (by omega)
  | case2 L hL =>
    intro pl0 t hlv hsz
    rw [outerLoop]; simp only [hL, dite_false]
    refine ⟨trivial, fun _ _ => trivial, ?_⟩
    intro m hm
    rw [flatten_levelsFrom, if_neg hL] at hm ⊢
    exact hlv m hm

/-- `computeSize` agrees with the specification's sizes -/
theorem sizeLoop_spec (H : α → α → α) (L : List α) : ∀ (a b : Nat), 1 ≤ L.length →
    sizeLoop L.length a b = (a + (levelsFrom H L).flatten.length, b + (levelsFrom H L).length) := by
  induction L using levelsFrom.induct H with
  | case1 L hL ih =>
    intro a b _
    rw [sizeLoop]; simp only [hL, dite_true]
    have hlen : (L.length + 1) / 2 = (pairUp H L).length := (length_pairUp H L).symm
    rw [hlen, ih _ _ (by rw [length_pairUp]; omega), flatten_levelsFrom H L, if_pos hL, levelsFrom_cons H L hL]
    simp only [List.length_append, List.length_cons]
    congr 1 <;> omega
  | case2 L hL =>
    intro a b h1
    rw [sizeLoop]
    have : ¬ 1 < L.length := hL
    simp only [this, dite_false]
    rw [flatten_levelsFrom H L, if_neg hL, levelsFrom_single H L hL]
    have : L.length = 1 := by omega
    simp [this]

theorem levels_of_ne_one (H : α → α → α) (ls : List α) (h : ls.length ≠ 1) : levels H ls = levelsFrom H ls := by
  match ls, h with
  | [], _ => rfl
  | _ :: _ :: _, _ => rfl

theorem computeSize_spec (H : α → α → α) (ls : List α) (h : 1 ≤ ls.length) :
    computeSize ls.length = ((levels H ls).flatten.length, (levels H ls).length) := by
  by_cases h1 : ls.length = 1
  · match ls, h1 with
    | [a], _ => simp [computeSize, levels]
  · rw [levels_of_ne_one H ls h1]
    simp only [computeSize, h1, if_false]
    rw [sizeLoop_spec H ls 0 0 h]
    simp

/-- **The flat array built by `ComputeTree` is the concatenation of the levels.** -/
theorem computeTree_tree (H : α → α → α) (z : α) (ls : List α) (h : 1 ≤ ls.length) :
    (computeTree H z ls).tree.toList = (levels H ls).flatten := by
  by_cases h1 : ls.length = 1
  · match ls, h1 with
    | [a], _ => simp [computeTree, computeSize, levels]
  · have hsz := computeSize_spec H ls h
    rw [levels_of_ne_one H ls h1] at hsz ⊢
    simp only [computeTree, h1, if_false, hsz]
    have hle := length_le_flatten H ls
    have hl : ∀ m, m < ls.length →
        (ls ++ List.replicate ((levelsFrom H ls).flatten.length - ls.length) z).toArray[0 + m]? = ls[m]? := by
      intro m hm
      simp [List.getElem?_append_left hm]
    obtain ⟨o1, _, o3⟩ := outerLoop_spec H z ls 0 _ hl (by simp only [List.size_toArray, List.length_append, List.length_replicate]; omega)
    apply List.ext_getElem?
    intro m
    rw [Array.getElem?_toList]
    by_cases hm : m < (levelsFrom H ls).flatten.length
    · have := o3 m hm
      rw [Nat.zero_add] at this
      exact this
    · rw [Array.getElem?_eq_none (by rw [o1]; simp only [List.size_toArray, List.length_append, List.length_replicate]; omega), List.getElem?_eq_none (by omega)]

end Verif.Merkle
