import Verif.Gen.Currency
/-! Helper lemmas for Props/C18 (BitVec 64 ↔ Nat/Int views). -/
namespace Verif.Lemmas.C18

theorem slt_zero_iff (a : BitVec 64) : (BitVec.slt a 0#64 = true) ↔ a.toInt < 0 := by
  simp [BitVec.slt]

theorem toInt_nonneg_toNat (a : BitVec 64) (h : 0 ≤ a.toInt) : a.toInt.toNat = a.toNat := by
  have := a.isLt
  rw [BitVec.toInt_eq_toNat_cond] at h ⊢
  split at h <;> split <;> omega

theorem ofNat_toNat64 (a : BitVec 64) : BitVec.ofNat 64 a.toNat = a := by simp

theorem toNat_ofNat_toInt (a : BitVec 64) (h : ¬ a.toInt < 0) :
    (BitVec.ofNat 64 a.toInt.toNat).toNat = a.toInt.toNat := by
  rw [toInt_nonneg_toNat a (by omega)]; simp

theorem toNat_pos_of_ne_zero (c : BitVec 64) (h : ¬ c = 0#64) : 0 < c.toNat := by
  rcases Nat.eq_zero_or_pos c.toNat with h0 | h0
  · exact absurd (BitVec.eq_of_toNat_eq (by simpa using h0)) h
  · exact h0

theorem maxDecimal_eq : Verif.Gen.Currency.maxDecimal = ⟨9223372036854775807, 0⟩ := by decide

theorem sign_eq_neg_one_iff (i : Int) : Int.sign i = -1 ↔ i < 0 := Int.sign_eq_neg_one_iff_neg

end Verif.Lemmas.C18
