import Verif.Model.GoSem
import Verif.Model.CurrencySpec
import Verif.Model.Dec
/-! Normal-form lemmas and the shape-independent bridge tactic for C18 (integer part).

`bridge_int` proves `Gen.f args = Spec.f E args` without looking at how the Go function is written: unfold everything,
split every `if` / call result on both sides, then in each leaf turn all hypotheses and the goal into linear
arithmetic over `BitVec.toNat` (`int_norm`) and let `omega` decide — either the two results agree, or the path
conditions of that leaf are contradictory. Only multiplication needs idiom lemmas (`mul_div_idiom`, `max_div_idiom`,
`toNat_mul64Hi`), because `omega` treats `c.toNat * b.toNat` as an atom. -/
namespace Verif.Lemmas.C18
open Verif.GoSem Verif.Dec
open Verif.Spec.Currency (amount maxInt64)

@[simp] theorem Res.elim_ok {ε α β : Type} (a : α) (f : α → β) (g : ε → β) (p : β) : Res.elim (.ok a : Res ε α) f g p = f a := by
  simp only [Res.elim]
@[simp] theorem Res.elim_err {ε α β : Type} (e : ε) (f : α → β) (g : ε → β) (p : β) : Res.elim (.err e : Res ε α) f g p = g e := by
  simp only [Res.elim]
@[simp] theorem Res.elim_panic {ε α β : Type} (f : α → β) (g : ε → β) (p : β) : Res.elim (.panic : Res ε α) f g p = p := by
  simp only [Res.elim]

/-- a call result that is itself a conditional: push the continuation into both branches (so that no `if` stays
    under a binder, where `split` cannot reach it) -/
theorem Res.elim_ite {ε α β : Type} (c : Prop) [Decidable c] (x y : Res ε α) (f : α → β) (g : ε → β) (p : β) :
    Res.elim (if c then x else y) f g p = if c then Res.elim x f g p else Res.elim y f g p := by
  split <;> rfl

theorem slt_iff (a b : BitVec 64) : (BitVec.slt a b = true) ↔ a.toInt < b.toInt := by simp [BitVec.slt]
theorem sle_iff (a b : BitVec 64) : (BitVec.sle a b = true) ↔ a.toInt ≤ b.toInt := by simp [BitVec.sle]
theorem slt_zero_iff (a : BitVec 64) : (BitVec.slt a 0#64 = true) ↔ a.toInt < 0 := by simp [BitVec.slt]

theorem toInt_nonneg_toNat (a : BitVec 64) (h : 0 ≤ a.toInt) : a.toInt.toNat = a.toNat := by
  have := a.isLt
  rw [BitVec.toInt_eq_toNat_cond] at *
  split at h <;> split <;> omega

/-! `toNat` of the 64-bit operations, with the modulus as a LITERAL (a `2 ^ 64` that comes out of a lemma stated for
an arbitrary width is not syntactically the `2 ^ 64` of a statement, and `omega`/`exact` then unfold the power). -/

theorem toNat_add64 (x y : BitVec 64) : (x + y).toNat = (x.toNat + y.toNat) % 18446744073709551616 := BitVec.toNat_add x y
theorem toNat_mul64 (x y : BitVec 64) : (x * y).toNat = (x.toNat * y.toNat) % 18446744073709551616 := BitVec.toNat_mul x y
theorem toNat_sub64 (x y : BitVec 64) : (x - y).toNat = (x.toNat + (18446744073709551616 - y.toNat)) % 18446744073709551616 := by
  rw [BitVec.toNat_sub]; omega
theorem toNat_ofNat64 (n : Nat) : (BitVec.ofNat 64 n).toNat = n % 18446744073709551616 := BitVec.toNat_ofNat n 64
theorem ofInt_natCast_toNat (n : Nat) : (BitVec.ofInt 64 (n : Int)).toNat = n % 18446744073709551616 := by
  rw [BitVec.ofInt_natCast]; exact BitVec.toNat_ofNat n 64

/-- the signed value without a case distinction (friendly to `omega`) -/
theorem toInt_eq_div (a : BitVec 64) :
    a.toInt = (a.toNat : Int) - 18446744073709551616 * ((a.toNat / 9223372036854775808 : Nat) : Int) := by
  have := a.isLt
  rw [BitVec.toInt_eq_toNat_cond]
  split <;> omega

/-! `math/bits` in terms of `toNat` -/

theorem toNat_mul64Hi (a b : BitVec 64) : (mul64Hi a b).toNat = a.toNat * b.toNat / 18446744073709551616 := by
  unfold mul64Hi
  rw [BitVec.toNat_ofNat]
  apply Nat.mod_eq_of_lt
  have h : a.toNat * b.toNat < 2 ^ 64 * 2 ^ 64 := Nat.mul_lt_mul'' a.isLt b.isLt
  exact Nat.div_lt_of_lt_mul h
theorem toNat_mul64Lo (a b : BitVec 64) : (mul64Lo a b).toNat = a.toNat * b.toNat % 18446744073709551616 := BitVec.toNat_mul a b
theorem toNat_add64Sum (a b c : BitVec 64) :
    (add64Sum a b c).toNat = (a.toNat + b.toNat + c.toNat) % 18446744073709551616 := by
  unfold add64Sum; rw [BitVec.toNat_add, BitVec.toNat_add]; omega
theorem toNat_add64Carry (a b c : BitVec 64) :
    (add64Carry a b c).toNat = (a.toNat + b.toNat + c.toNat) / 18446744073709551616 := by
  unfold add64Carry
  rw [BitVec.toNat_ofNat]
  apply Nat.mod_eq_of_lt
  have := a.isLt; have := b.isLt; have := c.isLt
  omega
theorem toNat_sub64Diff (a b c : BitVec 64) :
    (sub64Diff a b c).toNat = (a.toNat + (18446744073709551616 - b.toNat) + (18446744073709551616 - c.toNat)) % 18446744073709551616 := by
  unfold sub64Diff; rw [toNat_sub64, toNat_sub64]; omega
theorem toNat_sub64Borrow (a b c : BitVec 64) :
    (sub64Borrow a b c).toNat = (b.toNat + c.toNat + (18446744073709551615 - a.toNat)) / 18446744073709551616 := by
  unfold sub64Borrow
  rw [BitVec.toNat_ofNat]
  have := a.isLt; have := b.isLt; have := c.isLt
  have h : (b.toNat + c.toNat + (2 ^ 64 - 1 - a.toNat)) / 2 ^ 64 < 2 ^ 64 := by omega
  rw [Nat.mod_eq_of_lt h]

/-! the two division idioms of an unsigned multiplication overflow test -/

/-- `c != 0 && (c*b)/c != b` -/
theorem mul_div_idiom (C B : Nat) (hC : ¬ C = 0) :
    (C * B % 18446744073709551616 / C = B) ↔ C * B < 18446744073709551616 := by
  have hpos : 0 < C := Nat.pos_of_ne_zero hC
  constructor
  · intro h
    apply Nat.lt_of_not_le
    intro hge
    have hlt : C * B % 18446744073709551616 < C * B := by omega
    have := Nat.div_lt_of_lt_mul hlt
    omega
  · intro h
    rw [Nat.mod_eq_of_lt h, Nat.mul_div_cancel_left _ hpos]

/-- `c != 0 && b > MaxUint64/c` -/
theorem max_div_idiom (C B : Nat) (hC : ¬ C = 0) :
    (18446744073709551615 / C < B) ↔ ¬ C * B < 18446744073709551616 := by
  have hpos : 0 < C := Nat.pos_of_ne_zero hC
  rw [Nat.div_lt_iff_lt_mul hpos, Nat.mul_comm B C]
  omega

/-- quotient and remainder of a 64-bit number fit in 64 bits -/
theorem div_mod_two64 (c : BitVec 64) (n : Nat) : c.toNat / n % 18446744073709551616 = c.toNat / n :=
  Nat.mod_eq_of_lt (Nat.lt_of_le_of_lt (Nat.div_le_self _ _) c.isLt)
theorem mod_mod_two64 (c : BitVec 64) (n : Nat) : c.toNat % n % 18446744073709551616 = c.toNat % n :=
  Nat.mod_eq_of_lt (Nat.lt_of_le_of_lt (Nat.mod_le _ _) c.isLt)

/-- the embedding used by `coinInt64`: the returned int64 reads back as the amount -/
theorem coinInt64_value (c : BitVec 64) (h : c.toNat < 2 ^ 63) : (BitVec.ofInt 64 (c.toNat : Int)).toInt = c.toNat := by
  rw [BitVec.toInt_ofInt]
  simp only [Int.bmod]
  omega

/-- everything to linear arithmetic over `toNat`, in passes: powers of two to literals and signed comparisons to
    `toInt`; `a.toInt.toNat` to `a.toNat` where the context says `a` is not negative; then `toInt`, the bit-vector
    operations; last the multiplication idioms (they need `¬ c.toNat = 0` from the normalised context) -/
macro "int_norm" : tactic =>
  `(tactic| (
    try simp only [Nat.reducePow, slt_iff, sle_iff, gt_iff_lt, ge_iff_le, ne_eq, BitVec.toInt_zero] at *
    try simp (disch := omega) only [toInt_nonneg_toNat] at *
    try simp only [BitVec.lt_def, BitVec.le_def, ← BitVec.toNat_inj, toInt_eq_div, BitVec.reduceToNat,
      toNat_add64, toNat_sub64, toNat_mul64, BitVec.toNat_udiv, BitVec.toNat_umod, toNat_ofNat64,
      ofInt_natCast_toNat, toNat_mul64Hi, toNat_mul64Lo, toNat_add64Sum, toNat_add64Carry, toNat_sub64Diff, toNat_sub64Borrow,
      div_mod_two64, mod_mod_two64, Nat.reduceMod, Nat.reduceDiv, Nat.reduceSub, Nat.reduceAdd, Nat.reduceMul,
      Nat.zero_mul, Nat.mul_zero, Nat.zero_div, Nat.zero_mod, Nat.add_zero, Nat.zero_add, Nat.sub_zero,
      Prod.mk.injEq, Res.ok.injEq, Res.err.injEq, reduceCtorEq, not_true_eq_false, not_false_eq_true, Classical.not_not,
      and_self, and_true, true_and] at *
    try simp (disch := omega) only [mul_div_idiom, max_div_idiom] at *))

/-- close one leaf: both sides are `.ok _`, `.err _` or `.panic` and the context holds the path conditions -/
macro "bridge_leaf" : tactic =>
  `(tactic| first
    | rfl
    | (int_norm; first
        | done
        | omega
        | (simp only [*, Nat.zero_mul, Nat.mul_zero, Nat.zero_div, Nat.zero_mod] at *; first | done | omega)
        | (refine ⟨?_, ?_⟩ <;> omega))
    | (exfalso; int_norm; first
        | omega
        | (simp only [*, Nat.zero_mul, Nat.mul_zero, Nat.zero_div, Nat.zero_mod] at *; first | done | omega)))

/-- split every conditional (and every call result) on both sides, then close the leaves -/
macro "bridge_int" : tactic =>
  `(tactic| ((repeat' (split <;> try simp only [Res.elim_ok, Res.elim_err, Res.elim_panic])) <;> bridge_leaf))

/-! ## decimals: the operations of ParseZCN in terms of `amount d = d·10^10` -/

theorem sign_eq_neg_one_iff (d : Dec) : Dec.sign d = -1 ↔ d.coeff < 0 := Int.sign_eq_neg_one_iff_neg
theorem sign_lt_zero_iff (d : Dec) : Dec.sign d < 0 ↔ d.coeff < 0 := by
  unfold Dec.sign; exact Int.sign_neg_iff
theorem exponent_eq (d : Dec) : Dec.exponent d = d.exp := rfl
theorem exponent_shift (d : Dec) (k : Int) : Dec.exponent (Dec.shift d k) = d.exp + k := rfl

theorem maxDec_eq : Dec.newFromInt 9223372036854775807#64 = ⟨maxInt64, 0⟩ := by decide

/-- over the common exponent 0 the shifted amount is `amount d` -/
theorem shift_keys (d : Dec) (h : -10 ≤ d.exp) :
    (Dec.shift d 10).coeff * 10 ^ ((Dec.shift d 10).exp - min (Dec.shift d 10).exp 0).toNat = amount d ∧
    maxInt64 * 10 ^ ((0 : Int) - min (Dec.shift d 10).exp 0).toNat = maxInt64 := by
  have hmin : min (d.exp + 10) 0 = 0 := by omega
  simp only [Dec.shift, hmin, amount]
  simp

theorem greaterThan_shift_max (d : Dec) (h : -10 ≤ d.exp) :
    Dec.greaterThan (Dec.shift d 10) (Dec.newFromInt 9223372036854775807#64) = true ↔ maxInt64 < amount d := by
  obtain ⟨h1, h2⟩ := shift_keys d h
  rw [maxDec_eq]
  unfold Dec.greaterThan
  simp only [decide_eq_true_eq]
  rw [h1, h2]

theorem cmp_shift_max_pos (d : Dec) (h : -10 ≤ d.exp) :
    0 < Dec.cmp (Dec.shift d 10) (Dec.newFromInt 9223372036854775807#64) ↔ maxInt64 < amount d := by
  obtain ⟨h1, h2⟩ := shift_keys d h
  rw [maxDec_eq]
  unfold Dec.cmp
  simp only []
  rw [h1, h2]
  constructor
  · intro hc
    split at hc
    · omega
    · split at hc <;> omega
  · intro hc
    rw [if_neg (by omega), if_neg (by omega)]; omega

theorem intPart_shift (d : Dec) (h1 : -10 ≤ d.exp) (h2 : 0 ≤ d.coeff) :
    Dec.intPart (Dec.shift d 10) = BitVec.ofNat 64 (amount d).toNat := by
  have hnn : 0 ≤ amount d := by
    unfold amount
    exact Int.mul_nonneg h2 (Int.le_of_lt (Int.pow_pos (by decide)))
  have hiv : Dec.intValue (Dec.shift d 10) = amount d := by
    have hs : (Dec.shift d 10).exp = d.exp + 10 := rfl
    have hc : (Dec.shift d 10).coeff = d.coeff := rfl
    unfold Dec.intValue amount
    rw [if_pos (by rw [hs]; omega), hs, hc]
  unfold Dec.intPart
  rw [hiv]
  obtain ⟨k, hk⟩ : ∃ k : Nat, amount d = (k : Int) := ⟨(amount d).toNat, by omega⟩
  rw [hk, BitVec.ofInt_natCast]
  simp

/-- `decimal.New(int64(c), -10).Float64()` is the rounded quotient `c / 10^10` for an amount below `2^63` -/
theorem float64_new_neg10 (c : BitVec 64) (h : c.toNat < 2 ^ 63) :
    Dec.float64 (Dec.new c (-10)) = Verif.F64.roundNE false c.toNat (10 ^ 10) := by
  have hi : c.toInt = (c.toNat : Int) := by
    rw [BitVec.toInt_eq_toNat_cond]; split <;> omega
  simp only [Dec.float64, Dec.new, hi]
  rw [if_neg (by omega)]
  have hnn : ¬ ((c.toNat : Int) < 0) := by omega
  simp [hnn]

/-- the decimal part of ParseZCN: sign / exponent tests to statements about `coeff`, `exp`; split; in each leaf the
    comparison with the maximum and the integer part become statements about `amount d` -/
macro "bridge_dec" : tactic =>
  `(tactic| (
    try simp only [sign_eq_neg_one_iff, sign_lt_zero_iff, exponent_eq, exponent_shift, gt_iff_lt, ge_iff_le] at *
    (repeat' split) <;> first
      | rfl
      | (exfalso; omega)
      | (simp (disch := omega) only [greaterThan_shift_max, cmp_shift_max_pos, intPart_shift] at *; first
          | done
          | rfl
          | (exfalso; omega))))

end Verif.Lemmas.C18
