/-
`insert` on the state-trie model: read-back (`lookup_insert`) and preservation of canonical form (`wf_insert`).
-/
import Verif.Lemmas.MptBasic
namespace Verif.Mpt
set_option linter.unusedSimpArgs false

/-- lookups below a freshly created branch that is reached through the shared prefix `c` -/
theorem lookup_wrap_full (v o : Nat) (c : List Nib) (ch : Nib → Node) (val : Option Bytes) (q : List Nib) :
    lookup (wrap v c (.full o ch val)) q =
      if c <+: q then
        match q.drop c.length with
        | [] => live val
        | x :: r => lookup (ch x) r
      else none := by
  by_cases h : c <+: q
  · obtain ⟨r, rfl⟩ := h
    rw [lookup_wrap_append]
    simp only [List.prefix_append, if_true, List.drop_left]
    cases r with
    | nil => simp [lookup_full_nil]
    | cons x r => simp
  · simp [h, lookup_wrap_of_not_prefix]

theorem lookup_insert (v : Nat) (b : Bytes) (hb : b ≠ []) (t : Node) :
    ∀ (p q : List Nib), WF t → lookup (insert v b t p) q = if q = p then some b else lookup t q := by
  induction t with
  | empty => intro p q _; simp [insert, lookup_leaf_ne hb]
  | leaf o lp lv =>
    intro p q hwf
    have hlv : lv ≠ [] := WFn_of_WF_leaf hwf
    rw [insert]
    generalize hs : splitCommon p lp = s
    obtain ⟨c, p', l'⟩ := s
    obtain ⟨rfl, rfl, hne⟩ := splitCommon_eq hs
    rcases p' with _ | ⟨x, pr⟩ <;> rcases l' with _ | ⟨y, lr⟩ <;> dsimp only
    · simp only [List.append_nil, lookup_leaf_ne hb, lookup_leaf_ne hlv]
      split <;> rfl
    · -- new path is a proper prefix of the leaf path
      rw [lookup_wrap_full]
      by_cases h : c <+: q
      · obtain ⟨r, rfl⟩ := h
        simp only [List.prefix_append, if_true, List.drop_left, List.append_cancel_left_eq, lookup_leaf_ne hlv,
          List.append_nil, List.append_right_eq_self]
        rcases r with _ | ⟨z, r⟩
        · simp [live_some hb]
        · by_cases hzy : z = y <;> simp [lookup_upd, hzy, lookup_leaf_ne hlv]
      · have h1 : q ≠ c := fun e => h (e ▸ List.prefix_refl _)
        have h2 : q ≠ c ++ y :: lr := fun e => h (e ▸ List.prefix_append _ _)
        simp [h, h1, h2, lookup_leaf_ne hlv]
    · -- leaf path is a proper prefix of the new path
      rw [lookup_wrap_full]
      by_cases h : c <+: q
      · obtain ⟨r, rfl⟩ := h
        simp only [List.prefix_append, if_true, List.drop_left, List.append_cancel_left_eq, lookup_leaf_ne hlv,
          List.append_nil, List.append_right_eq_self]
        rcases r with _ | ⟨z, r⟩
        · simp [live_some hlv]
        · by_cases hzx : z = x <;> simp [lookup_upd, hzx, lookup_leaf_ne hb]
      · have h1 : q ≠ c := fun e => h (e ▸ List.prefix_refl _)
        have h2 : q ≠ c ++ x :: pr := fun e => h (e ▸ List.prefix_append _ _)
        simp [h, h1, h2, lookup_leaf_ne hlv]
    · -- the paths diverge
      have hxy : x ≠ y := hne _ _ _ _ rfl rfl
      rw [lookup_wrap_full]
      by_cases h : c <+: q
      · obtain ⟨r, rfl⟩ := h
        simp only [List.prefix_append, if_true, List.drop_left, List.append_cancel_left_eq, lookup_leaf_ne hlv]
        rcases r with _ | ⟨z, r⟩
        · simp
        · by_cases hzx : z = x
          · subst hzx
            simp [lookup_upd, hxy, lookup_leaf_ne hb]
          · by_cases hzy : z = y
            · subst hzy
              simp [lookup_upd, hzx, lookup_leaf_ne hlv]
            · simp [lookup_upd, hzx, hzy]
      · have h1 : q ≠ c ++ x :: pr := fun e => h (e ▸ List.prefix_append _ _)
        have h2 : q ≠ c ++ y :: lr := fun e => h (e ▸ List.prefix_append _ _)
        simp [h, h1, h2, lookup_leaf_ne hlv]
  | full o ch val ih =>
    intro p q hwf
    rcases p with _ | ⟨x, pr⟩ <;> rw [insert] <;> rcases q with _ | ⟨z, r⟩
    · simp [lookup_full_nil, live_some hb]
    · simp
    · simp [lookup_full_nil]
    · simp only [lookup_full_cons, lookup_upd, List.cons.injEq]
      by_cases hzx : z = x
      · subst hzx
        simp [ih z pr r (WF_child hwf z)]
      · simp [hzx]
  | ext o ep c ih =>
    intro p q hwf
    obtain ⟨hep, hfull, hc⟩ := WFn_of_WF_ext hwf
    rw [insert]
    generalize hs : splitCommon p ep = s
    obtain ⟨cm, p', e'⟩ := s
    obtain ⟨rfl, rfl, hne⟩ := splitCommon_eq hs
    rcases e' with _ | ⟨y, er⟩
    · -- the whole extension path is consumed
      dsimp only
      simp only [List.append_nil] at hep ⊢
      by_cases h : cm <+: q
      · obtain ⟨r, rfl⟩ := h
        rw [lookup_ext_append _ hep, lookup_ext_append _ hep, ih _ _ (Or.inr hc)]
        simp
      · have h1 : q ≠ cm ++ p' := fun e => h (e ▸ List.prefix_append _ _)
        simp [lookup_ext_of_not_prefix _ h, h1]
    · rcases p' with _ | ⟨x, pr⟩ <;> dsimp only
      · -- the new path ends inside the extension path
        rw [lookup_wrap_full]
        by_cases h : cm <+: q
        · obtain ⟨r, rfl⟩ := h
          simp only [List.prefix_append, if_true, List.drop_left, List.append_cancel_left_eq,
            List.append_nil, List.append_right_eq_self]
          rcases r with _ | ⟨z, r⟩
          · rw [lookup_ext_of_not_prefix]
            · simp [live_some hb]
            · simpa using not_append_cons_prefix_self cm y er
          · by_cases hzy : z = y
            · subst hzy
              simp [lookup_upd, extRest_eq_wrap, lookup_ext_split v]
            · rw [lookup_ext_of_not_prefix]
              · simp [lookup_upd, hzy]
              · simp [List.prefix_append_right_inj, List.cons_prefix_cons, Ne.symm hzy]
        · have h1 : q ≠ cm := fun e => h (e ▸ List.prefix_refl _)
          have h2 : ¬ cm ++ y :: er <+: q := fun e => h (List.IsPrefix.trans (List.prefix_append _ _) e)
          simp [h, h1, lookup_ext_of_not_prefix _ h2]
      · -- the paths diverge inside the extension path
        have hxy : x ≠ y := hne _ _ _ _ rfl rfl
        rw [lookup_wrap_full]
        by_cases h : cm <+: q
        · obtain ⟨r, rfl⟩ := h
          simp only [List.prefix_append, if_true, List.drop_left, List.append_cancel_left_eq]
          rcases r with _ | ⟨z, r⟩
          · rw [lookup_ext_of_not_prefix]
            · simp
            · simpa using not_append_cons_prefix_self cm y er
          · by_cases hzy : z = y
            · subst hzy
              simp [lookup_upd, extRest_eq_wrap, lookup_ext_split v, Ne.symm hxy]
            · rw [lookup_ext_of_not_prefix]
              · by_cases hzx : z = x
                · subst hzx
                  simp [lookup_upd, hzy, lookup_leaf_ne hb]
                · simp [lookup_upd, hzy, hzx]
              · simp [List.prefix_append_right_inj, List.cons_prefix_cons, Ne.symm hzy]
        · have h1 : q ≠ cm ++ x :: pr := fun e => h (e ▸ List.prefix_append _ _)
          have h2 : ¬ cm ++ y :: er <+: q := fun e => h (List.IsPrefix.trans (List.prefix_append _ _) e)
          simp [h, h1, lookup_ext_of_not_prefix _ h2]

/-! ### canonical form is preserved -/

theorem WFn_wrap {v : Nat} {c : List Nib} {n : Node} (hf : n.isFull = true) (h : WFn n) : WFn (wrap v c n) := by
  cases c with
  | nil => exact h
  | cons x c => exact ⟨by simp, hf, h⟩

theorem WFn_full_one {v : Nat} {y : Nib} {n : Node} {b : Bytes} (hn : WFn n) (hb : b ≠ []) :
    WFn (.full v (upd emptyCh y n) (some b)) := by
  refine ⟨?_, ?_, ?_⟩
  · intro i
    by_cases h : i = y
    · subst h; right; simpa using hn
    · left; simp [upd, h, Node.isEmpty]
  · intro b' h; cases h; exact hb
  · simp [entryCount, countCh_upd, WFn_ne_empty hn]

theorem WFn_full_two {v : Nat} {x y : Nib} {n1 n2 : Node} (hxy : x ≠ y) (h1 : WFn n1) (h2 : WFn n2) :
    WFn (.full v (upd (upd emptyCh x n1) y n2) none) := by
  refine ⟨?_, ?_, ?_⟩
  · intro i
    by_cases h : i = y
    · subst h; right; simpa using h2
    · by_cases h' : i = x
      · subst h'; right; simpa [upd, h] using h1
      · left; simp [upd, h, h', Node.isEmpty]
  · intro b' h; cases h
  · have : 1 ≤ cntOther (upd emptyCh x n1) y :=
      cntOther_pos (i := x) hxy (by simpa using WFn_ne_empty h1)
    simp [entryCount, countCh_upd, WFn_ne_empty h2]
    omega

theorem insert_isFull (v : Nat) (b : Bytes) {t : Node} (h : t.isFull = true) (p : List Nib) :
    (insert v b t p).isFull = true := by
  cases t with
  | full o ch val => cases p <;> simp [insert, Node.isFull]
  | _ => simp [Node.isFull] at h

theorem wf_insert (v : Nat) (b : Bytes) (hb : b ≠ []) (t : Node) :
    ∀ (p : List Nib), WF t → WFn (insert v b t p) := by
  induction t with
  | empty => intro p _; simpa [insert, WFn] using hb
  | leaf o lp lv =>
    intro p hwf
    have hlv : lv ≠ [] := WFn_of_WF_leaf hwf
    have hl : ∀ o' p', WFn (.leaf o' p' lv) := fun _ _ => hlv
    have hbl : ∀ o' p', WFn (.leaf o' p' b) := fun _ _ => hb
    rw [insert]
    generalize hs : splitCommon p lp = s
    obtain ⟨c, p', l'⟩ := s
    obtain ⟨rfl, rfl, hne⟩ := splitCommon_eq hs
    rcases p' with _ | ⟨x, pr⟩ <;> rcases l' with _ | ⟨y, lr⟩ <;> dsimp only
    · exact hb
    · exact WFn_wrap rfl (WFn_full_one (hl _ _) hb)
    · exact WFn_wrap rfl (WFn_full_one (hbl _ _) hlv)
    · exact WFn_wrap rfl (WFn_full_two (hne _ _ _ _ rfl rfl) (hbl _ _) (hl _ _))
  | full o ch val ih =>
    intro p hwf
    obtain ⟨hch, hval, hcnt⟩ := WFn_of_WF_full hwf
    rcases p with _ | ⟨x, pr⟩ <;> rw [insert]
    · refine ⟨hch, ?_, ?_⟩
      · intro b' h; cases h; exact hb
      · simp only [entryCount] at hcnt ⊢
        cases val <;> simp at hcnt ⊢ <;> omega
    · have hx := ih x pr (hch x)
      refine ⟨?_, hval, ?_⟩
      · intro i
        by_cases h : i = x
        · subst h; right; simpa using hx
        · simpa [upd, h] using hch i
      · simp only [entryCount] at hcnt ⊢
        rw [countCh_upd, WFn_ne_empty hx]
        rw [countCh_eq ch x] at hcnt
        revert hcnt
        cases (ch x).isEmpty <;> simp <;> omega
  | ext o ep c ih =>
    intro p hwf
    obtain ⟨hep, hfull, hc⟩ := WFn_of_WF_ext hwf
    rw [insert]
    generalize hs : splitCommon p ep = s
    obtain ⟨cm, p', e'⟩ := s
    obtain ⟨rfl, rfl, hne⟩ := splitCommon_eq hs
    have hrest : ∀ er, WFn (extRest v er c) := fun er => by
      rw [extRest_eq_wrap]; exact WFn_wrap hfull hc
    rcases e' with _ | ⟨y, er⟩
    · exact ⟨hep, insert_isFull v b hfull _, ih _ (Or.inr hc)⟩
    · rcases p' with _ | ⟨x, pr⟩ <;> dsimp only
      · exact WFn_wrap rfl (WFn_full_one (hrest _) hb)
      · exact WFn_wrap rfl (WFn_full_two (hne _ _ _ _ rfl rfl) hb (hrest _))

end Verif.Mpt
