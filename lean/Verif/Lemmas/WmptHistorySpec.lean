/- The spec trie of a history with commits / hash reads is the spec trie of its updates and deletes. -/
import Verif.Lemmas.WmptHistoryInv
import Verif.Lemmas.WmptRun
import Verif.Lemmas.WmptCanon
namespace Verif.Wmpt

/-- the updates and deletes of a history -/
def HOp.proj : List HOp → List Op
  | [] => []
  | .upd key v w :: r => .upd key v w :: HOp.proj r
  | .del key :: r => .del key :: HOp.proj r
  | _ :: r => HOp.proj r

theorem specRun_eq_ptRun (ops : List HOp) : specRun ops = ptRun (HOp.proj ops) := by
  unfold specRun ptRun
  have h : ∀ (l : List HOp) (t : PT), l.foldl specStep t = (HOp.proj l).foldl ptStep t := by
    intro l
    induction l with
    | nil => intro t; rfl
    | cons op tl ih =>
      intro t
      cases op with
      | del key =>
        simp only [List.foldl_cons, HOp.proj, ih]
        congr 1
      | _ => simp only [List.foldl_cons, HOp.proj, specStep, ptStep, ih]
  exact h ops .none

theorem proj_opsOK (ops : List HOp) (h : ∀ op ∈ ops, op.plain ∧ op.wf) : OpsOK 64 (HOp.proj ops) := by
  induction ops with
  | nil => intro op hop; cases hop
  | cons o tl ih =>
    have ht := ih (fun op hop => h op (List.mem_cons_of_mem _ hop))
    have ho := (h o List.mem_cons_self).2
    cases o with
    | upd key v w =>
      intro op hop
      simp only [HOp.proj, List.mem_cons] at hop
      rcases hop with e | e
      · subst e; exact ho.1
      · exact ht op e
    | del key =>
      intro op hop
      simp only [HOp.proj, List.mem_cons] at hop
      rcases hop with e | e
      · subst e; exact ho
      · exact ht op e
    | root => exact ht
    | commit l => exact ht
    | gc => exact ht
    | saveRoot => exact ht
    | rollback => exact ht

end Verif.Wmpt
