/-
Concrete instances used by the non-vacuity examples of `Verif.Props.C02`.  Core Lean only.
-/
import Verif.Lemmas.MptCanon
import Verif.Lemmas.MptCanonDec
import Verif.Lemmas.MptEncInj
namespace Verif.Mpt

/-- the same two entries inserted in both orders (the two trees differ as terms: the children functions are built in
    different orders) -/
def exA₁ : Node := Verif.Mpt.insert 7 [2] (Verif.Mpt.insert 7 [1] .empty [0, 1]) [0, 2]
def exA₂ : Node := Verif.Mpt.insert 7 [1] (Verif.Mpt.insert 7 [2] .empty [0, 2]) [0, 1]

theorem exA_form₁ :
    exA₁ = .ext 7 [0] (.full 7 (upd (upd emptyCh 2 (.leaf 7 [] [2])) 1 (.leaf 7 [] [1])) none) := rfl

theorem exA_form₂ :
    exA₂ = .ext 7 [0] (.full 7 (upd (upd emptyCh 1 (.leaf 7 [] [1])) 2 (.leaf 7 [] [2])) none) := rfl

theorem exA_wf : WF exA₁ ∧ WF exA₂ ∧ AllOrigin 7 exA₁ ∧ AllOrigin 7 exA₂ := by decide

theorem exA_lookup : ∀ q, lookup exA₁ q = lookup exA₂ q := by
  rw [exA_form₁, exA_form₂]
  apply lookup_ext_congr
  apply lookup_full_congr
  intro i q
  simp only [upd]
  split <;> split <;> simp_all

/-- an injective "hash" that never returns the nil key -/
def exH : Bytes → Bytes := fun x => 0 :: x

theorem exH_inj : Function.Injective exH := fun _ _ h => List.tail_eq_of_cons_eq h

theorem exA_unamb : Unamb exH exA₁ [] ∧ Unamb exH exA₂ [] := by
  rw [exA_form₁, exA_form₂]
  constructor <;>
  · refine ⟨fun _ => not_hexSepPrefixed_of_head (b := 0) (by decide) (by decide), fun i => ?_⟩
    simp only [upd]
    split
    · intro _; decide
    · split
      · intro _; decide
      · trivial

/-- a compressing "hash" with 4-byte output -/
def exH4 : Bytes → Bytes := fun x => (x ++ List.replicate 4 0).take 4

theorem exH4_spec : (∀ x, (exH4 x).length = 4) ∧ CollisionFree exH4 (.leaf 7 [1, 2] [5]) (.leaf 7 [1, 2] [5]) [] ∧
    UnambLen 4 exH4 (.leaf 7 [1, 2] [5]) [] := by
  refine ⟨fun x => ?_, ?_, fun _ => by decide⟩
  · simp [exH4]
  · intro x y hx hy _
    simp only [Encs] at hx hy
    rw [hx, hy]

end Verif.Mpt
