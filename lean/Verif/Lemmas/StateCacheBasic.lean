import Verif.Model.StateCacheSpec
/-! Association-list, LRU and chain lemmas for the state-cache proofs (core Lean only). -/
set_option linter.unusedSectionVars false
namespace Verif.SC

section Assoc
variable {α β : Type} [DecidableEq α]

@[simp] theorem alookup_nil (k : α) : alookup ([] : List (α × β)) k = none := rfl

@[simp] theorem alookup_cons (a : α) (b : β) (r : List (α × β)) (k : α) :
    alookup ((a, b) :: r) k = if a = k then some b else alookup r k := rfl

theorem alookup_aerase (l : List (α × β)) (k k' : α) :
    alookup (aerase l k) k' = if k = k' then none else alookup l k' := by
  induction l with
  | nil => simp [aerase]
  | cons p r ih =>
    obtain ⟨a, b⟩ := p
    unfold aerase at ih ⊢
    by_cases h : a = k
    · subst h
      by_cases h2 : a = k'
      · subst h2; simpa using ih
      · simp [List.filter, h2] at ih ⊢; simpa [h2] using ih
    · by_cases h2 : k = k'
      · subst h2
        simp [List.filter, h] at ih ⊢
        simpa using ih
      · simp [List.filter, h, h2] at ih ⊢
        by_cases h3 : a = k'
        · simp [h3]
        · simp [h3]; exact ih

theorem alookup_aset (l : List (α × β)) (k k' : α) (v : β) :
    alookup (aset l k v) k' = if k = k' then some v else alookup l k' := by
  unfold aset
  by_cases h : k = k'
  · simp [h]
  · simp [h, alookup_aerase]

theorem alookup_mem {l : List (α × β)} {k : α} {v : β} (h : alookup l k = some v) : (k, v) ∈ l := by
  induction l with
  | nil => simp at h
  | cons p r ih =>
    obtain ⟨a, b⟩ := p
    by_cases hak : a = k
    · subst hak; simp at h; subst h; simp
    · simp [hak] at h; exact List.mem_cons_of_mem _ (ih h)

theorem alookup_append (l₁ l₂ : List (α × β)) (k : α) :
    alookup (l₁ ++ l₂) k = match alookup l₁ k with | some v => some v | none => alookup l₂ k := by
  induction l₁ with
  | nil => simp
  | cons p r ih =>
    obtain ⟨a, b⟩ := p
    by_cases hak : a = k
    · simp [hak]
    · simp [hak, ih]

theorem alookup_none_of_not_mem_keys {l : List (α × β)} {k : α} (h : k ∉ l.map Prod.fst) : alookup l k = none := by
  induction l with
  | nil => rfl
  | cons p r ih =>
    obtain ⟨a, b⟩ := p
    simp at h
    have h1 : a ≠ k := fun e => h.1 e.symm
    simp [h1]
    exact ih (by simpa using h.2)

theorem nodup_keys_aerase (l : List (α × β)) (k : α) (h : (l.map Prod.fst).Nodup) :
    ((aerase l k).map Prod.fst).Nodup := by
  unfold aerase
  exact List.Nodup.sublist (List.Sublist.map _ List.filter_sublist) h

theorem not_mem_keys_aerase (l : List (α × β)) (k : α) : k ∉ (aerase l k).map Prod.fst := by
  unfold aerase
  intro h
  simp at h

theorem nodup_keys_aset (l : List (α × β)) (k : α) (v : β) (h : (l.map Prod.fst).Nodup) :
    ((aset l k v).map Prod.fst).Nodup := by
  unfold aset
  simp only [List.map_cons, List.nodup_cons]
  exact ⟨not_mem_keys_aerase l k, nodup_keys_aerase l k h⟩

end Assoc

/-! ## LRU -/
namespace LRU
variable {κ ν : Type} [DecidableEq κ]

theorem get_snd (l : LRU κ ν) (k : κ) : (l.get k).2 = l.peek k := by
  unfold get peek
  cases h : alookup l.items k <;> simp

theorem get_peek (l : LRU κ ν) (k k' : κ) : (l.get k).1.peek k' = l.peek k' := by
  unfold get peek
  cases h : alookup l.items k with
  | none => simp
  | some v =>
    simp only [alookup_cons, alookup_aerase]
    by_cases hk : k = k'
    · subst hk; simp [h]
    · simp [hk]

theorem get_cap (l : LRU κ ν) (k : κ) : (l.get k).1.cap = l.cap := by
  unfold get; cases alookup l.items k <;> rfl

theorem add_peek (l : LRU κ ν) (k k' : κ) (v : ν) (h : (l.add k v).2 = false) :
    (l.add k v).1.peek k' = if k = k' then some v else l.peek k' := by
  unfold add peek at *
  cases hl : alookup l.items k with
  | some w =>
    simp only [alookup_cons, alookup_aerase]
    by_cases hk : k = k' <;> simp [hk]
  | none =>
    simp only [hl] at h
    by_cases hc : l.items.length + 1 > l.cap
    · simp [hc] at h
    · simp [hc]

theorem containsOrAdd_peek (l : LRU κ ν) (k k' : κ) (v : ν) (h : (l.containsOrAdd k v).2 = false) :
    (l.containsOrAdd k v).1.peek k' = if k = k' ∧ l.peek k = none then some v else l.peek k' := by
  unfold containsOrAdd at *
  cases hl : alookup l.items k with
  | some w => simp [peek, hl]
  | none =>
    simp only [hl] at h
    simp only [add_peek l k k' v h]
    by_cases hk : k = k'
    · simp [hk, peek]; subst hk; simp [hl]
    · simp [hk]

theorem empty_peek (cap : Nat) (k : κ) : (LRU.empty cap : LRU κ ν).peek k = none := rfl

end LRU

/-! ## chains -/
section Chains
variable {K B V : Type} [DecidableEq K] [DecidableEq B]

theorem Chain.det {T : Tree K B V} {k : K} {b : B} {e e' : Entry V}
    (h : Chain T k b e) (h' : Chain T k b e') : e = e' := by
  induction h with
  | here hf hw =>
    cases h' with
    | here hf' hw' => rw [hf] at hf'; cases hf'; rw [hw] at hw'; cases hw'; rfl
    | up hf' hw' _ => rw [hf] at hf'; cases hf'; rw [hw] at hw'; cases hw'
  | up hf hw _ ih =>
    cases h' with
    | here hf' hw' => rw [hf] at hf'; cases hf'; rw [hw] at hw'; cases hw'
    | up hf' hw' hc' => rw [hf] at hf'; cases hf'; exact ih hc'

/-- `T'` extends `T`: every committed block stays what it is -/
def Tree.le (T T' : Tree K B V) : Prop := ∀ b x, T.find b = some x → T'.find b = some x

theorem Tree.le_refl (T : Tree K B V) : T.le T := fun _ _ h => h

theorem Tree.le_trans {T T' T'' : Tree K B V} (h : T.le T') (h' : T'.le T'') : T.le T'' :=
  fun b x hb => h' b x (h b x hb)

theorem Chain.mono {T T' : Tree K B V} (hle : T.le T') {k : K} {b : B} {e : Entry V}
    (h : Chain T k b e) : Chain T' k b e := by
  induction h with
  | here hf hw => exact .here (hle _ _ hf) hw
  | up hf hw _ ih => exact .up (hle _ _ hf) hw ih

theorem Tree.find_append_of_none (T : Tree K B V) (x : Blk K B V) (b : B) (h : T.find x.hash = none) :
    (T ++ [x]).find b = if x.hash = b then some x else T.find b := by
  unfold Tree.find at *
  rw [List.find?_append]
  by_cases hb : x.hash = b
  · subst hb; simp [h]
  · cases hT : List.find? (fun y => decide (y.hash = b)) T <;> simp [hb]

theorem Tree.find_hash {T : Tree K B V} {b : B} {x : Blk K B V} (h : T.find b = some x) : x.hash = b := by
  unfold Tree.find at h
  have := List.find?_some h
  simpa using this

theorem Tree.le_append (T : Tree K B V) (x : Blk K B V) (h : T.find x.hash = none) : T.le (T ++ [x]) := by
  intro b y hb
  rw [Tree.find_append_of_none T x b h]
  by_cases hx : x.hash = b
  · subst hx; rw [h] at hb; cases hb
  · simp [hx, hb]

theorem Tree.le_commit (T : Tree K B V) (x : Blk K B V) : T.le (T.commit x) := by
  unfold Tree.commit
  cases h : T.find x.hash with
  | some _ => exact Tree.le_refl T
  | none => exact Tree.le_append T x h

/-- a walk from `b` to `c` through committed blocks none of which wrote `k` (`c` itself is not inspected) -/
inductive Walk (T : Tree K B V) (k : K) : B → B → Prop where
  | refl (b : B) : Walk T k b b
  | step {b c : B} {x : Blk K B V} : T.find b = some x → alookup x.writes k = none → Walk T k x.prev c → Walk T k b c

theorem Walk.snoc {T : Tree K B V} {k : K} {b c : B} {x : Blk K B V}
    (h : Walk T k b c) (hf : T.find c = some x) (hw : alookup x.writes k = none) : Walk T k b x.prev := by
  induction h with
  | refl b => exact .step hf hw (.refl _)
  | step hf' hw' _ ih => exact .step hf' hw' (ih hf)

theorem Walk.chain {T : Tree K B V} {k : K} {b c : B} {e : Entry V}
    (h : Walk T k b c) (hc : Chain T k c e) : Chain T k b e := by
  induction h with
  | refl b => exact hc
  | step hf hw _ ih => exact .up hf hw (ih hc)

theorem Walk.mono {T T' : Tree K B V} (hle : T.le T') {k : K} {b c : B} (h : Walk T k b c) : Walk T' k b c := by
  induction h with
  | refl b => exact .refl b
  | step hf hw _ ih => exact .step (hle _ _ hf) hw ih

theorem oracleN_sound {T : Tree K B V} {k : K} {n : Nat} {b : B} {e : Entry V}
    (h : oracleN T k n b = some e) : Chain T k b e := by
  induction n generalizing b with
  | zero => simp [oracleN] at h
  | succ n ih =>
    unfold oracleN at h
    cases hf : T.find b with
    | none => simp [hf] at h
    | some x =>
      simp only [hf] at h
      cases hw : alookup x.writes k with
      | some e' => simp [hw] at h; subst h; exact .here hf hw
      | none => simp only [hw] at h; exact .up hf hw (ih h)

end Chains

section Runs
variable {K B V : Type} [DecidableEq K] [DecidableEq B]

theorem Reader.run_succ (n : Nat) (sc : SC K B V) (r : Reader K B V) (h : ∀ v, r.pc ≠ .done v) :
    Reader.run (n + 1) sc r = Reader.run n (r.stepSC sc) { r with pc := r.stepPc sc } := by
  conv => lhs; unfold Reader.run
  split
  · rename_i v hv; exact absurd hv (h v)
  · rfl

theorem Reader.run_of_done (n : Nat) (sc : SC K B V) (r : Reader K B V) {v : Option V} (h : r.pc = .done v) :
    Reader.run n sc r = (sc, r) := by
  cases n with
  | zero => rfl
  | succ n => unfold Reader.run; rw [h]

end Runs
end Verif.SC
