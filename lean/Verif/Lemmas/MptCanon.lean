/-
Uniqueness of the canonical form of the state trie: two canonical (`WF`) tries whose nodes all carry the same
origin and which store the same path/value pairs are equal as trees.  Core Lean only.
-/
import Verif.Lemmas.MptCanonBasic
namespace Verif.Mpt

/-! ### counting children -/

theorem countP_two_le {α : Type} [DecidableEq α] {l : List α} (hl : l.Nodup) {p : α → Bool}
    (h : 2 ≤ l.countP p) : ∃ i j, i ≠ j ∧ p i = true ∧ p j = true := by
  have hpos : 0 < l.countP p := by omega
  obtain ⟨a, _, hpa⟩ := List.countP_pos_iff.mp hpos
  by_cases hex : ∃ j, j ≠ a ∧ p j = true
  · obtain ⟨j, hj, hpj⟩ := hex
    exact ⟨j, a, hj, hpj, hpa⟩
  · exfalso
    have hall : ∀ x, x ∈ l → p x = true → (x == a) = true := by
      intro x _ hx
      by_cases hxa : x = a
      · simp [hxa]
      · exact absurd ⟨x, hxa, hx⟩ hex
    have h1 := List.countP_mono_left hall
    have h2 : List.count a l ≤ 1 := List.nodup_iff_count.mp hl a
    rw [List.count_eq_countP] at h2
    omega

theorem countCh_pos {ch : Nib → Node} (h : 1 ≤ countCh ch) : ∃ i, (ch i).isEmpty = false := by
  unfold countCh at h
  obtain ⟨a, _, ha⟩ := List.countP_pos_iff.mp (Nat.lt_of_lt_of_le Nat.zero_lt_one h)
  exact ⟨a, by simpa using ha⟩

theorem countCh_two {ch : Nib → Node} (h : 2 ≤ countCh ch) :
    ∃ i j, i ≠ j ∧ (ch i).isEmpty = false ∧ (ch j).isEmpty = false := by
  unfold countCh at h
  obtain ⟨i, j, hij, hi, hj⟩ := countP_two_le (List.nodup_finRange 16) h
  exact ⟨i, j, hij, by simpa using hi, by simpa using hj⟩

/-! ### stored keys of a canonical subtree -/

/-- `k` is a stored path of `t` -/
def HasKey (t : Node) (k : List Nib) : Prop := ∃ b, lookup t k = some b

/-- `t` stores two different paths that do not start with the same nibble -/
def Spread (t : Node) : Prop :=
  ∃ k1 k2, HasKey t k1 ∧ HasKey t k2 ∧ k1 ≠ k2 ∧ ∀ x r1 r2, k1 = x :: r1 → k2 = x :: r2 → False

/-- a canonical subtree stores at least one path -/
theorem wfn_nonempty : ∀ t : Node, WFn t → ∃ k, HasKey t k := by
  intro t
  induction t with
  | empty => intro h; exact absurd h (by simp [WFn])
  | leaf o lp lv =>
    intro h
    simp only [WFn] at h
    exact ⟨lp, lv, by simp [lookup_leaf_c, h]⟩
  | full o ch val ih =>
    intro h
    simp only [WFn] at h
    obtain ⟨hch, _, hcount⟩ := h
    cases val with
    | some b =>
      have hb := (by assumption : ∀ b', some b = some b' → b' ≠ []) b rfl
      exact ⟨[], b, by simp [lookup_full_nil_c, hb]⟩
    | none =>
      have : 1 ≤ countCh ch := by simp [entryCount] at hcount; omega
      obtain ⟨i, hi⟩ := countCh_pos this
      have hw : WFn (ch i) := by
        cases hch i with
        | inl h => rw [hi] at h; cases h
        | inr h => exact h
      obtain ⟨k, b, hk⟩ := ih i hw
      exact ⟨i :: k, b, by simpa using hk⟩
  | ext o ep c ih =>
    intro h
    simp only [WFn] at h
    obtain ⟨hep, _, hc⟩ := h
    obtain ⟨k, b, hk⟩ := ih hc
    exact ⟨ep ++ k, b, by rw [lookup_ext_append_c _ _ _ hep]; exact hk⟩

theorem wfn_child {ch : Nib → Node} {i : Nib} (hch : ∀ i, (ch i).isEmpty = true ∨ WFn (ch i))
    (hi : (ch i).isEmpty = false) : WFn (ch i) := by
  cases hch i with
  | inl h => rw [hi] at h; cases h
  | inr h => exact h

/-- a canonical branch stores two paths without a common first nibble -/
theorem wfn_full_spread {o : Nat} {ch : Nib → Node} {val : Option Bytes} (h : WFn (.full o ch val)) :
    Spread (.full o ch val) := by
  simp only [WFn] at h
  obtain ⟨hch, hval, hcount⟩ := h
  cases val with
  | some b =>
    have hb := hval b rfl
    have : 1 ≤ countCh ch := by simp [entryCount] at hcount; omega
    obtain ⟨i, hi⟩ := countCh_pos this
    obtain ⟨k, b', hk⟩ := wfn_nonempty _ (wfn_child hch hi)
    refine ⟨[], i :: k, ⟨b, by simp [lookup_full_nil_c, hb]⟩, ⟨b', by simpa using hk⟩, by simp, ?_⟩
    intro x r1 r2 h1 _; cases h1
  | none =>
    have : 2 ≤ countCh ch := by simp [entryCount] at hcount; omega
    obtain ⟨i, j, hij, hi, hj⟩ := countCh_two this
    obtain ⟨k, b, hk⟩ := wfn_nonempty _ (wfn_child hch hi)
    obtain ⟨k', b', hk'⟩ := wfn_nonempty _ (wfn_child hch hj)
    refine ⟨i :: k, j :: k', ⟨b, by simpa using hk⟩, ⟨b', by simpa using hk'⟩, ?_, ?_⟩
    · intro h; injection h with h1 _; exact hij h1
    · intro x r1 r2 h1 h2
      injection h1 with h1 _; injection h2 with h2 _
      exact hij (h1.trans h2.symm)

theorem spread_of_isFull {c : Node} (hf : c.isFull = true) (hc : WFn c) : Spread c := by
  cases c with
  | full o ch val => exact wfn_full_spread hc
  | _ => simp [Node.isFull] at hf

/-- a leaf stores exactly one path -/
theorem hasKey_leaf {o : Nat} {lp : List Nib} {lv : Bytes} {k : List Nib} (h : HasKey (.leaf o lp lv) k) : k = lp := by
  obtain ⟨b, hb⟩ := h
  rw [lookup_leaf_c] at hb
  by_cases hk : k = lp
  · exact hk
  · simp [hk] at hb

theorem not_spread_leaf (o : Nat) (lp : List Nib) (lv : Bytes) : ¬ Spread (.leaf o lp lv) := by
  rintro ⟨k1, k2, h1, h2, hne, _⟩
  exact hne ((hasKey_leaf h1).trans (hasKey_leaf h2).symm)

/-- all paths below an extension start with the extension's path -/
theorem not_spread_ext (o : Nat) {ep : List Nib} (c : Node) (hep : ep ≠ []) : ¬ Spread (.ext o ep c) := by
  rintro ⟨k1, k2, ⟨b1, h1⟩, ⟨b2, h2⟩, _, hx⟩
  obtain ⟨q1, e1, _⟩ := lookup_ext_some h1
  obtain ⟨q2, e2, _⟩ := lookup_ext_some h2
  cases ep with
  | nil => exact hep rfl
  | cons x r => exact hx x (r ++ q1) (r ++ q2) (by simpa using e1) (by simpa using e2)

theorem spread_ext_of_spread {o : Nat} {ep : List Nib} {c : Node} (hep : ep ≠ []) (h : Spread c) :
    ∃ k1 k2, HasKey (.ext o ep c) k1 ∧ HasKey (.ext o ep c) k2 ∧ k1 ≠ k2 := by
  obtain ⟨k1, k2, ⟨b1, h1⟩, ⟨b2, h2⟩, hne, _⟩ := h
  refine ⟨ep ++ k1, ep ++ k2, ⟨b1, ?_⟩, ⟨b2, ?_⟩, ?_⟩
  · rw [lookup_ext_append_c _ _ _ hep]; exact h1
  · rw [lookup_ext_append_c _ _ _ hep]; exact h2
  · intro h; exact hne (List.append_cancel_left h)

/-- `Spread` only depends on the stored map -/
theorem spread_congr {t₁ t₂ : Node} (h : ∀ q, lookup t₁ q = lookup t₂ q) (hs : Spread t₁) : Spread t₂ := by
  obtain ⟨k1, k2, ⟨b1, h1⟩, ⟨b2, h2⟩, hne, hx⟩ := hs
  exact ⟨k1, k2, ⟨b1, by rw [← h]; exact h1⟩, ⟨b2, by rw [← h]; exact h2⟩, hne, hx⟩

/-- if every path stored below `ext ep₁ c₁` (with `c₁` spread) starts with `ep₂`, then `ep₂` is a prefix of `ep₁` -/
theorem ext_prefix_of_spread {ep₁ ep₂ : List Nib} {c₁ : Node} (hs : Spread c₁)
    (h : ∀ k, HasKey c₁ k → ∃ k', ep₁ ++ k = ep₂ ++ k') : ∃ r, ep₁ = ep₂ ++ r := by
  obtain ⟨k1, k2, h1, h2, _, hx⟩ := hs
  obtain ⟨k1', e1⟩ := h k1 h1
  obtain ⟨k2', e2⟩ := h k2 h2
  rcases List.append_eq_append_iff.mp e1 with ⟨as, ha, hk1⟩ | ⟨bs, hb, _⟩
  · cases as with
    | nil => exact ⟨[], by simpa using ha.symm⟩
    | cons x r =>
      exfalso
      rw [ha, List.append_assoc] at e2
      have e2' := List.append_cancel_left e2
      exact hx x (r ++ k1') (r ++ k2') (by simpa using hk1) (by simpa using e2')
  · exact ⟨bs, hb⟩

theorem ext_path_eq {o₁ o₂ : Nat} {ep₁ ep₂ : List Nib} {c₁ c₂ : Node}
    (hep₁ : ep₁ ≠ []) (hep₂ : ep₂ ≠ []) (hs₁ : Spread c₁) (hs₂ : Spread c₂)
    (h : ∀ q, lookup (.ext o₁ ep₁ c₁) q = lookup (.ext o₂ ep₂ c₂) q) : ep₁ = ep₂ := by
  have h12 : ∃ r, ep₁ = ep₂ ++ r := by
    apply ext_prefix_of_spread hs₁
    rintro k ⟨b, hk⟩
    have : lookup (.ext o₂ ep₂ c₂) (ep₁ ++ k) = some b := by
      rw [← h, lookup_ext_append_c _ _ _ hep₁]; exact hk
    obtain ⟨q, hq, _⟩ := lookup_ext_some this
    exact ⟨q, hq⟩
  have h21 : ∃ r, ep₂ = ep₁ ++ r := by
    apply ext_prefix_of_spread hs₂
    rintro k ⟨b, hk⟩
    have : lookup (.ext o₁ ep₁ c₁) (ep₂ ++ k) = some b := by
      rw [h, lookup_ext_append_c _ _ _ hep₂]; exact hk
    obtain ⟨q, hq, _⟩ := lookup_ext_some this
    exact ⟨q, hq⟩
  obtain ⟨r, hr⟩ := h12
  obtain ⟨s, hs⟩ := h21
  have hlen : ep₁.length = ep₂.length + r.length := by rw [hr]; simp
  have hlen' : ep₂.length = ep₁.length + s.length := by rw [hs]; simp
  have : r = [] := List.eq_nil_of_length_eq_zero (by omega)
  rw [hr, this]; simp

/-! ### uniqueness of the canonical form -/

theorem wf_not_isEmpty {t : Node} (h : WFn t) : t.isEmpty = false := by
  cases t <;> simp [WFn, Node.isEmpty] at *

/-- a canonical trie that stores nothing is the empty trie -/
theorem wf_eq_empty_of_lookup_none {t : Node} (hw : WF t) (h : ∀ q, lookup t q = none) : t = .empty := by
  cases hw with
  | inl he => cases t <;> simp [Node.isEmpty] at he ⊢
  | inr hn =>
    obtain ⟨k, b, hk⟩ := wfn_nonempty t hn
    rw [h] at hk; cases hk

theorem canon_unique_wf (v : Nat) : ∀ t₁ t₂ : Node, WF t₁ → WF t₂ → AllOrigin v t₁ → AllOrigin v t₂ →
    (∀ q, lookup t₁ q = lookup t₂ q) → t₁ = t₂ := by
  intro t₁
  induction t₁ with
  | empty =>
    intro t₂ _ hw₂ _ _ h
    exact (wf_eq_empty_of_lookup_none hw₂ (fun q => by rw [← h]; simp)).symm
  | leaf o₁ lp₁ lv₁ =>
    intro t₂ hw₁ hw₂ ho₁ ho₂ h
    have hn₁ : WFn (.leaf o₁ lp₁ lv₁) := by
      cases hw₁ with
      | inl he => simp [Node.isEmpty] at he
      | inr hn => exact hn
    have hlv : lv₁ ≠ [] := by simpa [WFn] using hn₁
    have hl : lookup (.leaf o₁ lp₁ lv₁) lp₁ = some lv₁ := by simp [lookup_leaf_c, hlv]
    cases t₂ with
    | empty => rw [h] at hl; simp at hl
    | leaf o₂ lp₂ lv₂ =>
      rw [h, lookup_leaf_c] at hl
      simp only [AllOrigin] at ho₁ ho₂
      by_cases hp : lp₁ = lp₂
      · by_cases hv : lv₂ = []
        · simp [hp, hv] at hl
        · simp [hp, hv] at hl
          rw [ho₁, ho₂, hp, hl]
      · simp [hp] at hl
    | full o₂ ch₂ val₂ =>
      exfalso
      have hn₂ : WFn (.full o₂ ch₂ val₂) := by
        cases hw₂ with
        | inl he => simp [Node.isEmpty] at he
        | inr hn => exact hn
      exact not_spread_leaf o₁ lp₁ lv₁ (spread_congr (fun q => (h q).symm) (wfn_full_spread hn₂))
    | ext o₂ ep₂ c₂ =>
      exfalso
      have hn₂ : WFn (.ext o₂ ep₂ c₂) := by
        cases hw₂ with
        | inl he => simp [Node.isEmpty] at he
        | inr hn => exact hn
      simp only [WFn] at hn₂
      obtain ⟨hep, hf, hc⟩ := hn₂
      obtain ⟨k1, k2, ⟨b1, h1⟩, ⟨b2, h2⟩, hne⟩ := spread_ext_of_spread (o := o₂) hep (spread_of_isFull hf hc)
      rw [← h] at h1 h2
      exact hne ((hasKey_leaf ⟨b1, h1⟩).trans (hasKey_leaf ⟨b2, h2⟩).symm)
  | full o₁ ch₁ val₁ ih =>
    intro t₂ hw₁ hw₂ ho₁ ho₂ h
    have hn₁ : WFn (.full o₁ ch₁ val₁) := by
      cases hw₁ with
      | inl he => simp [Node.isEmpty] at he
      | inr hn => exact hn
    have hs₁ := wfn_full_spread hn₁
    cases t₂ with
    | empty =>
      obtain ⟨k, b, hk⟩ := wfn_nonempty _ hn₁
      rw [h] at hk; simp at hk
    | leaf o₂ lp₂ lv₂ => exact absurd (spread_congr h hs₁) (not_spread_leaf _ _ _)
    | ext o₂ ep₂ c₂ =>
      have hn₂ : WFn (.ext o₂ ep₂ c₂) := by
        cases hw₂ with
        | inl he => simp [Node.isEmpty] at he
        | inr hn => exact hn
      simp only [WFn] at hn₂
      exact absurd (spread_congr h hs₁) (not_spread_ext _ _ hn₂.1)
    | full o₂ ch₂ val₂ =>
      have hn₂ : WFn (.full o₂ ch₂ val₂) := by
        cases hw₂ with
        | inl he => simp [Node.isEmpty] at he
        | inr hn => exact hn
      simp only [WFn] at hn₁ hn₂
      simp only [AllOrigin] at ho₁ ho₂
      have hval : val₁ = val₂ := by
        have h0 := h []
        rw [lookup_full_nil_c, lookup_full_nil_c] at h0
        cases val₁ with
        | none =>
          cases val₂ with
          | none => rfl
          | some b₂ => simp [hn₂.2.1 b₂ rfl] at h0
        | some b₁ =>
          cases val₂ with
          | none => simp [hn₁.2.1 b₁ rfl] at h0
          | some b₂ => simpa [hn₁.2.1 b₁ rfl, hn₂.2.1 b₂ rfl] using h0
      have hch : ch₁ = ch₂ := by
        funext i
        apply ih i (ch₂ i) (hn₁.1 i) (hn₂.1 i) (ho₁.2 i) (ho₂.2 i)
        intro q
        simpa using h (i :: q)
      rw [ho₁.1, ho₂.1, hval, hch]
  | ext o₁ ep₁ c₁ ih =>
    intro t₂ hw₁ hw₂ ho₁ ho₂ h
    have hn₁ : WFn (.ext o₁ ep₁ c₁) := by
      cases hw₁ with
      | inl he => simp [Node.isEmpty] at he
      | inr hn => exact hn
    have hn₁' := hn₁
    simp only [WFn] at hn₁'
    obtain ⟨hep₁, hf₁, hc₁⟩ := hn₁'
    have hs₁ := spread_of_isFull hf₁ hc₁
    cases t₂ with
    | empty =>
      obtain ⟨k, b, hk⟩ := wfn_nonempty _ hn₁
      rw [h] at hk; simp at hk
    | leaf o₂ lp₂ lv₂ =>
      exfalso
      obtain ⟨k1, k2, ⟨b1, h1⟩, ⟨b2, h2⟩, hne⟩ := spread_ext_of_spread (o := o₁) hep₁ hs₁
      rw [h] at h1 h2
      exact hne ((hasKey_leaf ⟨b1, h1⟩).trans (hasKey_leaf ⟨b2, h2⟩).symm)
    | full o₂ ch₂ val₂ =>
      exfalso
      have hn₂ : WFn (.full o₂ ch₂ val₂) := by
        cases hw₂ with
        | inl he => simp [Node.isEmpty] at he
        | inr hn => exact hn
      exact not_spread_ext o₁ c₁ hep₁ (spread_congr (fun q => (h q).symm) (wfn_full_spread hn₂))
    | ext o₂ ep₂ c₂ =>
      have hn₂ : WFn (.ext o₂ ep₂ c₂) := by
        cases hw₂ with
        | inl he => simp [Node.isEmpty] at he
        | inr hn => exact hn
      simp only [WFn] at hn₂
      obtain ⟨hep₂, hf₂, hc₂⟩ := hn₂
      have hs₂ := spread_of_isFull hf₂ hc₂
      have hep : ep₁ = ep₂ := ext_path_eq hep₁ hep₂ hs₁ hs₂ h
      subst hep
      simp only [AllOrigin] at ho₁ ho₂
      have hc : c₁ = c₂ := by
        apply ih c₂ (Or.inr hc₁) (Or.inr hc₂) ho₁.2 ho₂.2
        intro q
        have := h (ep₁ ++ q)
        rwa [lookup_ext_append_c _ _ _ hep₁, lookup_ext_append_c _ _ _ hep₁] at this
      rw [ho₁.1, ho₂.1, hc]

/-- uniqueness of the canonical form -/
theorem canon_unique {v : Nat} {t₁ t₂ : Node} (hw₁ : WF t₁) (hw₂ : WF t₂) (ho₁ : AllOrigin v t₁)
    (ho₂ : AllOrigin v t₂) (h : ∀ q, lookup t₁ q = lookup t₂ q) : t₁ = t₂ :=
  canon_unique_wf v t₁ t₂ hw₁ hw₂ ho₁ ho₂ h

/-! ### `insert` and `delete` at version `v` only create nodes of origin `v` -/

theorem allOrigin_wrap {v : Nat} (c : List Nib) {n : Node} (h : AllOrigin v n) : AllOrigin v (wrap v c n) := by
  cases c <;> simp [wrap, AllOrigin, h]

theorem allOrigin_extRest {v : Nat} (er : List Nib) {c : Node} (h : AllOrigin v c) : AllOrigin v (extRest v er c) := by
  cases er <;> simp [extRest, AllOrigin, h]

theorem allOrigin_upd {v : Nat} {ch : Nib → Node} {x : Nib} {t : Node} (hch : ∀ i, AllOrigin v (ch i))
    (ht : AllOrigin v t) : ∀ i, AllOrigin v (upd ch x t i) := by
  intro i; unfold upd; split
  · exact ht
  · exact hch i

theorem allOrigin_emptyCh (v : Nat) : ∀ i, AllOrigin v (emptyCh i) := by
  intro i; simp [emptyCh, AllOrigin]

theorem allOrigin_leaf (v : Nat) (p : List Nib) (b : Bytes) : AllOrigin v (.leaf v p b) := by simp [AllOrigin]

theorem allOrigin_full {v : Nat} {ch : Nib → Node} (val : Option Bytes) (h : ∀ i, AllOrigin v (ch i)) :
    AllOrigin v (.full v ch val) := by simp [AllOrigin, h]

theorem allOrigin_insert (v : Nat) (b : Bytes) (t : Node) (p : List Nib) (h : AllOrigin v t) :
    AllOrigin v (insert v b t p) := by
  fun_induction insert v b t p <;> simp_all [AllOrigin]
  case case3 | case4 =>
    exact allOrigin_wrap _ (allOrigin_full _ (allOrigin_upd (allOrigin_emptyCh v) (allOrigin_leaf _ _ _)))
  case case5 =>
    exact allOrigin_wrap _ (allOrigin_full _ (allOrigin_upd (allOrigin_upd (allOrigin_emptyCh v)
      (allOrigin_leaf _ _ _)) (allOrigin_leaf _ _ _)))
  case case7 ih => exact allOrigin_upd h.2 ih
  case case9 =>
    exact allOrigin_wrap _ (allOrigin_full _ (allOrigin_upd (allOrigin_emptyCh v) (allOrigin_extRest _ h.2)))
  case case10 =>
    exact allOrigin_wrap _ (allOrigin_full _ (allOrigin_upd (allOrigin_upd (allOrigin_emptyCh v)
      (allOrigin_leaf _ _ _)) (allOrigin_extRest _ h.2)))

theorem allOrigin_lift {v : Nat} {i : Nib} {n t' : Node} (h : AllOrigin v n) (hl : lift v i n = .node t') :
    AllOrigin v t' := by
  cases n <;> simp [lift] at hl <;> subst hl <;> simp_all [AllOrigin]

theorem allOrigin_liftFirst {v : Nat} {ch : Nib → Node} {t' : Node} (h : ∀ i, AllOrigin v (ch i))
    (hl : liftFirst v ch = .node t') : AllOrigin v t' := by
  unfold liftFirst at hl
  split at hl
  · exact allOrigin_lift (h _) hl
  · cases hl

theorem allOrigin_delete (v : Nat) (t : Node) (p : List Nib) : ∀ t', AllOrigin v t → delete v t p = .node t' →
    AllOrigin v t' := by
  fun_induction delete v t p <;> intro t' h hd
  case case5 => exact allOrigin_liftFirst h.2 hd
  case case12 =>
    exact allOrigin_liftFirst (allOrigin_upd h.2 (by simp [AllOrigin])) hd
  all_goals cases hd
  case case6 => exact allOrigin_full _ h.2
  case case9 hc ih => exact allOrigin_full _ (allOrigin_upd h.2 (ih _ (h.2 _) hc))
  case case10 => exact allOrigin_leaf _ _ _
  case case13 => exact allOrigin_full _ (allOrigin_upd h.2 (by simp [AllOrigin]))
  case case17 => exact allOrigin_leaf _ _ _
  case case18 hc ih =>
    have := ih _ h.2 hc
    simp only [AllOrigin] at this ⊢
    exact ⟨trivial, this.2⟩
  case case19 hc ih =>
    have := ih _ h.2 hc
    simp only [AllOrigin] at this ⊢
    exact ⟨trivial, this⟩

end Verif.Mpt
