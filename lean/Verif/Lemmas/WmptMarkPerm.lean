/-
C12, the per-branch parallel marking of `GetPath(keys)` (core/util/wmpt/path.go) does not depend on the order in which
the Go scheduler serialises the walks (`markKids` runs them in list order; Go runs them in goroutines, serialised per
child of the root by a mutex).
  * `markToCollect_fuel_mono`   : a walk that succeeds yields the same result with more fuel;
  * `markToCollect_ok_after`    : a walk that succeeds on `n` succeeds (same fuel) after another successful walk on `n`;
  * `markToCollect_swap`        : `a` then `b` succeed  ==>  `b` (with more fuel) then `a` succeed, same node;
  * `markToCollect_comm`        : two walks that succeed on `n` commute;
  * `markAll_perm_of_ok`, `markKids_perm_of_ok`, `markParallel_perm_of_ok` : two orders that both succeed give the same
                                  result;
  * `markAll_perm`, `markKids_perm`, `markParallel_perm` : when every walk alone succeeds (`KidOK`), every order succeeds
                                  and all orders give the same result;
  * `markKids_perm_needs_each`  : success in one order alone does not imply success in another order (fuel);
  * `markParallel_perm_rep`     : for a branch root that represents a spec tree every walk alone succeeds, hence every
                                  serialisation yields the same marked trie.
Core Lean only.
-/
import Verif.Lemmas.WmptMark
import Verif.Lemmas.WmptCbor
namespace Verif.Wmpt

namespace MarkPerm

/-! ### one step of the walk -/

/-- the test of `markToCollect` at a short node: the key does not continue with the node's key -/
def Miss (sk : Bytes) (key : List Nib) : Prop :=
  (key.map nb).length < sk.length ∨ sk ≠ (key.map nb).take sk.length

theorem upd_same (ch : Nib → WN) (k : Nib) (x : WN) : upd ch k x k = x := by simp [upd]

theorem upd_other (ch : Nib → WN) {k j : Nib} (x : WN) (h : j ≠ k) : upd ch k x j = ch j := by simp [upd, h]

theorem upd_upd (ch : Nib → WN) (k : Nib) (x y : WN) : upd (upd ch k x) k y = upd ch k y := by
  funext j
  unfold upd
  split <;> rfl

variable (hasDb : Bool) (s : Store)

theorem zero_err (n : WN) (key : List Nib) : (markToCollect hasDb s 0 n key).err ≠ none := by
  simp [markToCollect]

theorem step_nil (g : Nat) (key : List Nib) : markToCollect hasDb s (g + 1) .nil key = { node := .nil } := by
  simp [markToCollect]

theorem step_empty (g : Nat) (key : List Nib) : markToCollect hasDb s (g + 1) .empty key = { node := .empty } := by
  simp [markToCollect]

theorem step_value (g : Nat) (h v : Bytes) (w : Nat) (d : Bool) (key : List Nib) :
    markToCollect hasDb s (g + 1) (.value h v w d) key = { node := .value h v w d } := by
  simp [markToCollect]

/-- a branch below the full key depth is marked, the walk ends there -/
theorem step_routing_nil (g : Nat) (h : Bytes) (ch : Nib → WN) (w : Nat) (d tc : Bool) :
    markToCollect hasDb s (g + 1) (.routing h ch w d tc) [] = { node := .routing h ch w d true } := by
  simp [markToCollect]

theorem step_routing_inv {g : Nat} {h : Bytes} {ch : Nib → WN} {w : Nat} {d tc : Bool} {k : Nib} {ks : List Nib}
    (he : (markToCollect hasDb s (g + 1) (.routing h ch w d tc) (k :: ks)).err = none) :
    (markToCollect hasDb s g (ch k) ks).err = none := by
  simp only [markToCollect] at he
  cases hr : (markToCollect hasDb s g (ch k) ks).err with
  | none => rfl
  | some e => rw [hr] at he; simp at he

theorem step_routing_ok {g : Nat} (h : Bytes) {ch : Nib → WN} (w : Nat) (d tc : Bool) {k : Nib} {ks : List Nib}
    (he : (markToCollect hasDb s g (ch k) ks).err = none) :
    markToCollect hasDb s (g + 1) (.routing h ch w d tc) (k :: ks) =
      { node := .routing h (upd ch k (markToCollect hasDb s g (ch k) ks).node) w d true } := by
  simp only [markToCollect, he]

theorem step_short_miss (g : Nat) {sk : Bytes} (h : Bytes) (c : WN) (d tc : Bool) {key : List Nib}
    (hm : Miss sk key) :
    markToCollect hasDb s (g + 1) (.short sk h c d tc) key = { node := .short sk h c d true } := by
  unfold Miss at hm
  simp only [markToCollect, hm, if_true]

theorem step_short_hit (g : Nat) {sk : Bytes} (h : Bytes) (c : WN) (d tc : Bool) {key : List Nib}
    (hm : ¬ Miss sk key) :
    markToCollect hasDb s (g + 1) (.short sk h c d tc) key =
      { node := .short sk h (markToCollect hasDb s g c (key.drop sk.length)).node d true,
        err := (markToCollect hasDb s g c (key.drop sk.length)).err } := by
  unfold Miss at hm
  simp only [markToCollect, hm, if_false]

theorem step_hash_inv {g : Nat} {h : Bytes} {w : Nat} {key : List Nib}
    (he : (markToCollect hasDb s (g + 1) (.hashRef h w) key).err = none) :
    ∃ rn, resolveHash hasDb s h = .ok rn ∧ (markToCollect hasDb s g rn key).err = none := by
  simp only [markToCollect] at he
  cases hr : resolveHash hasDb s h with
  | err e => rw [hr] at he; simp at he
  | ok rn =>
    rw [hr] at he
    simp only at he
    refine ⟨rn, rfl, ?_⟩
    cases hx : (markToCollect hasDb s g rn key).err with
    | none => rfl
    | some e => rw [hx] at he; simp at he

theorem step_hash_ok {g : Nat} {h : Bytes} (w : Nat) {key : List Nib} {rn : WN}
    (hr : resolveHash hasDb s h = .ok rn) (he : (markToCollect hasDb s g rn key).err = none) :
    markToCollect hasDb s (g + 1) (.hashRef h w) key = markToCollect hasDb s g rn key := by
  simp only [markToCollect, hr, he]

end MarkPerm

open MarkPerm

/-! ### 1. fuel is irrelevant for a successful walk -/

theorem markToCollect_fuel_mono (hasDb : Bool) (s : Store) : ∀ (f : Nat) (n : WN) (key : List Nib) (f' : Nat),
    (markToCollect hasDb s f n key).err = none → f ≤ f' →
    markToCollect hasDb s f' n key = markToCollect hasDb s f n key := by
  intro f
  induction f with
  | zero => intro n key f' he _; exact absurd he (zero_err hasDb s n key)
  | succ g ih =>
    intro n key f' he hle
    obtain ⟨g', rfl⟩ : ∃ g', f' = g' + 1 := ⟨f' - 1, by omega⟩
    have hg : g ≤ g' := by omega
    cases n with
    | nil => rw [step_nil, step_nil]
    | empty => rw [step_empty, step_empty]
    | value h v w d => rw [step_value, step_value]
    | hashRef h w =>
      obtain ⟨rn, hr, hx⟩ := step_hash_inv hasDb s he
      have e := ih rn key g' hx hg
      rw [step_hash_ok hasDb s w hr hx, step_hash_ok hasDb s w hr (by rw [e]; exact hx), e]
    | short sk h c d tc =>
      by_cases hm : Miss sk key
      · rw [step_short_miss hasDb s g' h c d tc hm, step_short_miss hasDb s g h c d tc hm]
      · rw [step_short_hit hasDb s g h c d tc hm] at he
        have e := ih c (key.drop sk.length) g' he hg
        rw [step_short_hit hasDb s g' h c d tc hm, step_short_hit hasDb s g h c d tc hm, e]
    | routing h ch w d tc =>
      cases key with
      | nil => rw [step_routing_nil, step_routing_nil]
      | cons k ks =>
        have hx := step_routing_inv hasDb s he
        have e := ih (ch k) ks g' hx hg
        rw [step_routing_ok hasDb s h w d tc hx, step_routing_ok hasDb s h w d tc (by rw [e]; exact hx), e]

/-! ### 2. two walks on the same node -/

/-- a walk that succeeds on `n` still succeeds (with the same fuel) after another successful walk on `n`: the other walk
only sets marks and replaces references by the loaded nodes -/
theorem markToCollect_ok_after (hasDb : Bool) (s : Store) : ∀ (f1 f2 : Nat) (n : WN) (a b : List Nib),
    (markToCollect hasDb s f1 n a).err = none → (markToCollect hasDb s f2 n b).err = none →
    (markToCollect hasDb s f2 (markToCollect hasDb s f1 n a).node b).err = none := by
  intro f1
  induction f1 with
  | zero => intro f2 n a b h1 _; exact absurd h1 (zero_err hasDb s n a)
  | succ g1 ih =>
    intro f2 n a b h1 h2
    cases f2 with
    | zero => exact absurd h2 (zero_err hasDb s n b)
    | succ g2 =>
      cases n with
      | nil => rw [step_nil]; exact h2
      | empty => rw [step_empty]; exact h2
      | value h v w d => rw [step_value]; exact h2
      | hashRef h w =>
        obtain ⟨rn, hr, hx⟩ := step_hash_inv hasDb s h1
        obtain ⟨rn', hr', hy⟩ := step_hash_inv hasDb s h2
        have e : rn' = rn := by rw [hr] at hr'; exact (Res.ok.inj hr').symm
        subst e
        rw [step_hash_ok hasDb s w hr hx]
        have i := ih g2 rn' a b hx hy
        rw [markToCollect_fuel_mono hasDb s g2 _ b (g2 + 1) i (Nat.le_succ g2)]
        exact i
      | short sk h c d tc =>
        by_cases ha : Miss sk a
        · rw [step_short_miss hasDb s g1 h c d tc ha]
          by_cases hb : Miss sk b
          · rw [step_short_miss hasDb s g2 h c d true hb]
          · rw [step_short_hit hasDb s g2 h c d tc hb] at h2
            rw [step_short_hit hasDb s g2 h c d true hb]
            exact h2
        · rw [step_short_hit hasDb s g1 h c d tc ha] at h1 ⊢
          by_cases hb : Miss sk b
          · rw [step_short_miss hasDb s g2 h _ d true hb]
          · rw [step_short_hit hasDb s g2 h c d tc hb] at h2
            rw [step_short_hit hasDb s g2 h _ d true hb]
            exact ih g2 c _ _ h1 h2
      | routing h ch w d tc =>
        cases a with
        | nil =>
          rw [step_routing_nil hasDb s g1 h ch w d tc]
          cases b with
          | nil => rw [step_routing_nil hasDb s g2 h ch w d true]
          | cons j bs =>
            have hy := step_routing_inv hasDb s h2
            rw [step_routing_ok hasDb s h w d true hy]
        | cons k as =>
          cases b with
          | nil =>
            have hx := step_routing_inv hasDb s h1
            rw [step_routing_ok hasDb s h w d tc hx, step_routing_nil hasDb s g2 h _ w d true]
          | cons j bs =>
            have hx := step_routing_inv hasDb s h1
            have hy := step_routing_inv hasDb s h2
            rw [step_routing_ok hasDb s h w d tc hx]
            have hz : (markToCollect hasDb s g2
                (upd ch k (markToCollect hasDb s g1 (ch k) as).node j) bs).err = none := by
              by_cases e : j = k
              · subst e
                rw [upd_same]
                exact ih g2 (ch j) as bs hx hy
              · rw [upd_other ch _ e]
                exact hy
            rw [step_routing_ok hasDb s h w d true hz]

/-- two successive walks may be swapped: if `a` succeeds on `n` and then `b` succeeds on the result, then `b` succeeds on
`n` (it may have to load the references `a` has loaded already, hence the fuel `f1 + f2`), `a` succeeds on that result,
and both orders end in the same node -/
theorem markToCollect_swap (hasDb : Bool) (s : Store) : ∀ (f1 f2 : Nat) (n : WN) (a b : List Nib),
    (markToCollect hasDb s f1 n a).err = none →
    (markToCollect hasDb s f2 (markToCollect hasDb s f1 n a).node b).err = none →
    (markToCollect hasDb s (f1 + f2) n b).err = none ∧
    (markToCollect hasDb s f1 (markToCollect hasDb s (f1 + f2) n b).node a).err = none ∧
    (markToCollect hasDb s f1 (markToCollect hasDb s (f1 + f2) n b).node a).node =
      (markToCollect hasDb s f2 (markToCollect hasDb s f1 n a).node b).node := by
  intro f1
  induction f1 with
  | zero => intro f2 n a b h1 _; exact absurd h1 (zero_err hasDb s n a)
  | succ g1 ih =>
    intro f2 n a b h1 h2
    cases f2 with
    | zero => exact absurd h2 (zero_err hasDb s _ b)
    | succ g2 =>
      -- it suffices to run `b` on `n` with some fuel `f ≤ g1 + 1 + (g2 + 1)`
      have lift : ∀ f, f ≤ g1 + 1 + (g2 + 1) → (markToCollect hasDb s f n b).err = none →
          markToCollect hasDb s (g1 + 1 + (g2 + 1)) n b = markToCollect hasDb s f n b :=
        fun f hf he => markToCollect_fuel_mono hasDb s f n b _ he hf
      cases n with
      | nil =>
        rw [step_nil] at h2 ⊢
        rw [lift (g2 + 1) (by omega) h2, step_nil, step_nil]
        exact ⟨rfl, rfl, rfl⟩
      | empty =>
        rw [step_empty] at h2 ⊢
        rw [lift (g2 + 1) (by omega) h2, step_empty, step_empty]
        exact ⟨rfl, rfl, rfl⟩
      | value h v w d =>
        rw [step_value] at h2 ⊢
        rw [lift (g2 + 1) (by omega) h2, step_value, step_value]
        exact ⟨rfl, rfl, rfl⟩
      | hashRef h w =>
        obtain ⟨rn, hr, hx⟩ := step_hash_inv hasDb s h1
        rw [step_hash_ok hasDb s w hr hx] at h2 ⊢
        obtain ⟨i1, i2, i3⟩ := ih (g2 + 1) rn a b hx h2
        have e : markToCollect hasDb s (g1 + (g2 + 1) + 1) (.hashRef h w) b =
            markToCollect hasDb s (g1 + (g2 + 1)) rn b := step_hash_ok hasDb s w hr i1
        rw [lift (g1 + (g2 + 1) + 1) (by omega) (by rw [e]; exact i1), e]
        rw [markToCollect_fuel_mono hasDb s g1 _ a (g1 + 1) i2 (Nat.le_succ g1)]
        exact ⟨i1, i2, i3⟩
      | short sk h c d tc =>
        by_cases ha : Miss sk a
        · rw [step_short_miss hasDb s g1 h c d tc ha] at h2 ⊢
          by_cases hb : Miss sk b
          · have e := step_short_miss hasDb s g2 h c d tc hb
            rw [lift (g2 + 1) (by omega) (by rw [e]), e, step_short_miss hasDb s g2 h c d true hb,
              step_short_miss hasDb s g1 h c d true ha]
            exact ⟨rfl, rfl, rfl⟩
          · rw [step_short_hit hasDb s g2 h c d true hb] at h2 ⊢
            have e := step_short_hit hasDb s g2 h c d tc hb
            rw [lift (g2 + 1) (by omega) (by rw [e]; exact h2), e, step_short_miss hasDb s g1 h _ d true ha]
            exact ⟨h2, rfl, rfl⟩
        · rw [step_short_hit hasDb s g1 h c d tc ha] at h1 h2 ⊢
          by_cases hb : Miss sk b
          · have e := step_short_miss hasDb s g2 h c d tc hb
            rw [lift (g2 + 1) (by omega) (by rw [e]), e, step_short_miss hasDb s g2 h _ d true hb,
              step_short_hit hasDb s g1 h c d true ha]
            exact ⟨rfl, h1, rfl⟩
          · rw [step_short_hit hasDb s g2 h _ d true hb] at h2 ⊢
            obtain ⟨i1, i2, i3⟩ := ih g2 c _ _ h1 h2
            have e := step_short_hit hasDb s (g1 + g2) h c d tc hb
            rw [lift (g1 + g2 + 1) (by omega) (by rw [e]; exact i1), e, step_short_hit hasDb s g1 h _ d true ha]
            exact ⟨i1, i2, by rw [i3]⟩
      | routing h ch w d tc =>
        cases a with
        | nil =>
          rw [step_routing_nil hasDb s g1 h ch w d tc] at h2 ⊢
          cases b with
          | nil =>
            have e := step_routing_nil hasDb s g2 h ch w d tc
            rw [lift (g2 + 1) (by omega) (by rw [e]), e, step_routing_nil hasDb s g1 h ch w d true,
              step_routing_nil hasDb s g2 h ch w d true]
            exact ⟨rfl, rfl, rfl⟩
          | cons j bs =>
            have hz := step_routing_inv hasDb s h2
            have e1 := step_routing_ok hasDb s h w d tc hz
            rw [lift (g2 + 1) (by omega) (by rw [e1]), e1, step_routing_nil hasDb s g1 h _ w d true,
              step_routing_ok hasDb s h w d true hz]
            exact ⟨rfl, rfl, rfl⟩
        | cons k as =>
          have hx := step_routing_inv hasDb s h1
          rw [step_routing_ok hasDb s h w d tc hx] at h2 ⊢
          cases b with
          | nil =>
            have e := step_routing_nil hasDb s g2 h ch w d tc
            rw [step_routing_nil hasDb s g2 h _ w d true, lift (g2 + 1) (by omega) (by rw [e]), e,
              step_routing_ok hasDb s h w d true hx]
            exact ⟨rfl, rfl, rfl⟩
          | cons j bs =>
            have hz := step_routing_inv hasDb s h2
            rw [step_routing_ok hasDb s h w d true hz]
            by_cases e : j = k
            · subst e
              rw [upd_same] at hz ⊢
              obtain ⟨i1, i2, i3⟩ := ih g2 (ch j) as bs hx hz
              have e := step_routing_ok hasDb s h w d tc i1
              rw [lift (g1 + g2 + 1) (by omega) (by rw [e]), e]
              have i2' : (markToCollect hasDb s g1
                  (upd ch j (markToCollect hasDb s (g1 + g2) (ch j) bs).node j) as).err = none := by
                rw [upd_same]; exact i2
              rw [step_routing_ok hasDb s h w d true i2', upd_same, upd_upd, upd_upd, i3]
              exact ⟨rfl, rfl, rfl⟩
            · rw [upd_other ch _ e] at hz ⊢
              have e1 := step_routing_ok hasDb s h w d tc hz
              rw [lift (g2 + 1) (by omega) (by rw [e1]), e1]
              have e' : k ≠ j := fun x => e x.symm
              have hx' : (markToCollect hasDb s g1
                  (upd ch j (markToCollect hasDb s g2 (ch j) bs).node k) as).err = none := by
                rw [upd_other ch _ e']; exact hx
              rw [step_routing_ok hasDb s h w d true hx', upd_other ch _ e', upd_comm ch _ _ e]
              exact ⟨rfl, rfl, rfl⟩

/-- 2. two walks that both succeed on `n` commute: each still succeeds after the other, and both orders end in the same
node -/
theorem markToCollect_comm (hasDb : Bool) (s : Store) (f1 f2 : Nat) (n : WN) (a b : List Nib)
    (h1 : (markToCollect hasDb s f1 n a).err = none) (h2 : (markToCollect hasDb s f2 n b).err = none) :
    (markToCollect hasDb s f2 (markToCollect hasDb s f1 n a).node b).err = none ∧
    (markToCollect hasDb s f1 (markToCollect hasDb s f2 n b).node a).err = none ∧
    (markToCollect hasDb s f2 (markToCollect hasDb s f1 n a).node b).node =
      (markToCollect hasDb s f1 (markToCollect hasDb s f2 n b).node a).node := by
  have c1 := markToCollect_ok_after hasDb s f1 f2 n a b h1 h2
  have c2 := markToCollect_ok_after hasDb s f2 f1 n b a h2 h1
  obtain ⟨_, _, i3⟩ := markToCollect_swap hasDb s f1 f2 n a b h1 c1
  rw [markToCollect_fuel_mono hasDb s f2 n b (f1 + f2) h2 (Nat.le_add_left f2 f1)] at i3
  exact ⟨c1, c2, i3.symm⟩

/-! ### 3. successful walks without the fuel -/

namespace MarkPerm

theorem MRes.ext' {x y : MRes} (h1 : x.node = y.node) (h2 : x.err = y.err) : x = y := by
  cases x; cases y; simp only at h1 h2; rw [h1, h2]

/-- the walk of `key` from `n` succeeds (with some fuel) and yields `n'` -/
def Walk (hasDb : Bool) (s : Store) (n : WN) (key : List Nib) (n' : WN) : Prop :=
  ∃ f, (markToCollect hasDb s f n key).err = none ∧ (markToCollect hasDb s f n key).node = n'

theorem Walk.det {hasDb : Bool} {s : Store} {n : WN} {key : List Nib} {x y : WN}
    (hx : Walk hasDb s n key x) (hy : Walk hasDb s n key y) : x = y := by
  obtain ⟨f, e1, rfl⟩ := hx
  obtain ⟨g, e2, rfl⟩ := hy
  rcases Nat.le_total f g with h | h
  · rw [markToCollect_fuel_mono hasDb s f n key g e1 h]
  · rw [markToCollect_fuel_mono hasDb s g n key f e2 h]

theorem Walk.swap {hasDb : Bool} {s : Store} {n n1 n12 : WN} {a b : List Nib}
    (ha : Walk hasDb s n a n1) (hb : Walk hasDb s n1 b n12) :
    ∃ n2, Walk hasDb s n b n2 ∧ Walk hasDb s n2 a n12 := by
  obtain ⟨f1, e1, rfl⟩ := ha
  obtain ⟨f2, e2, rfl⟩ := hb
  obtain ⟨i1, i2, i3⟩ := markToCollect_swap hasDb s f1 f2 n a b e1 e2
  exact ⟨_, ⟨f1 + f2, i1, rfl⟩, ⟨f1, i2, i3⟩⟩

/-- the walks of `keys`, one after the other from the root, all succeed and yield `n'` -/
def Walks (hasDb : Bool) (s : Store) : WN → List (List Nib) → WN → Prop
  | n, [], n' => n' = n
  | n, k :: ks, n' => ∃ x, Walk hasDb s n k x ∧ Walks hasDb s x ks n'

theorem Walks.det {hasDb : Bool} {s : Store} : ∀ {keys : List (List Nib)} {n x y : WN},
    Walks hasDb s n keys x → Walks hasDb s n keys y → x = y := by
  intro keys
  induction keys with
  | nil => intro n x y hx hy; simp only [Walks] at hx hy; rw [hx, hy]
  | cons k ks ih =>
    intro n x y hx hy
    obtain ⟨x1, w1, r1⟩ := hx
    obtain ⟨y1, w2, r2⟩ := hy
    have e := Walk.det w1 w2
    subst e
    exact ih r1 r2

theorem Walks.perm {hasDb : Bool} {s : Store} {keys1 keys2 : List (List Nib)} (hp : keys1.Perm keys2) :
    ∀ {n n' : WN}, Walks hasDb s n keys1 n' → Walks hasDb s n keys2 n' := by
  induction hp with
  | nil => intro n n' h; exact h
  | cons x _ ih =>
    intro n n' h
    obtain ⟨x1, w1, r1⟩ := h
    exact ⟨x1, w1, ih r1⟩
  | swap x y l =>
    intro n n' h
    obtain ⟨n1, wy, n12, wx, r⟩ := h
    obtain ⟨n2, wx', wy'⟩ := Walk.swap wy wx
    exact ⟨n2, wx', n12, wy', r⟩
  | trans _ _ ih1 ih2 => intro n n' h; exact ih2 (ih1 h)

theorem markAll_walks (hasDb : Bool) (s : Store) : ∀ (keys : List (List Nib)) (n : WN),
    (markAll hasDb s n keys).err = none → Walks hasDb s n keys (markAll hasDb s n keys).node := by
  intro keys
  induction keys with
  | nil => intro n _; simp [markAll, Walks]
  | cons k ks ih =>
    intro n he
    simp only [markAll] at he ⊢
    cases hr : (markToCollect hasDb s (fuelFor k) n k).err with
    | some e => rw [hr] at he; simp at he
    | none =>
      rw [hr] at he
      simp only at he ⊢
      exact ⟨_, ⟨fuelFor k, hr, rfl⟩, ih _ he⟩

end MarkPerm

/-! ### 4. the sequential strategy -/

/-- the order of the keys is irrelevant for the sequential strategy when both orders succeed -/
theorem markAll_perm_of_ok (hasDb : Bool) (s : Store) (n : WN) (keys1 keys2 : List (List Nib))
    (hp : keys1.Perm keys2) (h1 : (markAll hasDb s n keys1).err = none) (h2 : (markAll hasDb s n keys2).err = none) :
    markAll hasDb s n keys2 = markAll hasDb s n keys1 :=
  MRes.ext' (Walks.det (markAll_walks hasDb s keys2 n h2) (Walks.perm hp (markAll_walks hasDb s keys1 n h1)))
    (h2.trans h1.symm)

/-- walks that succeed one by one on the root succeed one after the other -/
theorem markAll_ok_of_each (hasDb : Bool) (s : Store) : ∀ (keys : List (List Nib)) (n : WN),
    (∀ key ∈ keys, (markToCollect hasDb s (fuelFor key) n key).err = none) →
    (markAll hasDb s n keys).err = none := by
  intro keys
  induction keys with
  | nil => intro n _; rfl
  | cons k ks ih =>
    intro n he
    have hk := he k List.mem_cons_self
    simp only [markAll, hk]
    exact ih _ (fun key hkey =>
      markToCollect_ok_after hasDb s _ _ n k key hk (he key (List.mem_cons_of_mem _ hkey)))

/-- the order of the keys is irrelevant for the sequential strategy when every key alone succeeds on the root -/
theorem markAll_perm (hasDb : Bool) (s : Store) (n : WN) (keys1 keys2 : List (List Nib)) (hp : keys1.Perm keys2)
    (he : ∀ key ∈ keys1, (markToCollect hasDb s (fuelFor key) n key).err = none) :
    markAll hasDb s n keys2 = markAll hasDb s n keys1 ∧ (markAll hasDb s n keys1).err = none := by
  have h1 := markAll_ok_of_each hasDb s keys1 n he
  have h2 := markAll_ok_of_each hasDb s keys2 n (fun key hk => he key (hp.mem_iff.mpr hk))
  exact ⟨markAll_perm_of_ok hasDb s n keys1 keys2 hp h1 h2, h1⟩

/-! ### 5. the per-branch parallel strategy -/

/-- the goroutine of `key` alone succeeds on the children `ch` of the root -/
def KidOK (hasDb : Bool) (s : Store) (ch : Nib → WN) : List Nib → Prop
  | [] => False
  | k :: ks => (markToCollect hasDb s (fuelFor (k :: ks) - 1) (ch k) ks).err = none

/-- for a non-empty key (the goroutine of an empty key panics at `k[0]`, while the walk from the root marks the root) -/
theorem kidOK_iff (hasDb : Bool) (s : Store) (h : Bytes) (ch : Nib → WN) (w : Nat) (d tc : Bool) (key : List Nib)
    (hne : key ≠ []) :
    KidOK hasDb s ch key ↔ (markToCollect hasDb s (fuelFor key) (.routing h ch w d tc) key).err = none := by
  cases key with
  | nil => exact absurd rfl hne
  | cons k ks =>
    rw [markToCollect_routing_cons]
    simp only [KidOK]
    cases hr : (markToCollect hasDb s (fuelFor (k :: ks) - 1) (ch k) ks).err <;> simp

theorem kidOK_ne {hasDb : Bool} {s : Store} {ch : Nib → WN} {key : List Nib} (h : KidOK hasDb s ch key) : key ≠ [] := by
  intro e; subst e; exact h

/-- the per-branch loop succeeds on non-empty keys only -/
theorem markKids_ok_ne (hasDb : Bool) (s : Store) : ∀ (keys : List (List Nib)) (ch : Nib → WN),
    (markKids hasDb s ch keys).2 = none → ∀ k ∈ keys, k ≠ [] := by
  intro keys
  induction keys with
  | nil => intro _ _ k hk; cases hk
  | cons key rest ih =>
    intro ch h x hx
    cases key with
    | nil => simp [markKids] at h
    | cons k ks =>
      simp only [markKids] at h
      cases hr : (markToCollect hasDb s (fuelFor (k :: ks) - 1) (ch k) ks).err with
      | some e => rw [hr] at h; simp at h
      | none =>
        rw [hr] at h
        rcases List.mem_cons.mp hx with rfl | hx
        · simp
        · exact ih _ h x hx

/-- 3. the result of the per-branch parallel marking does not depend on the order in which the walks are executed when
both orders succeed -/
theorem markKids_perm_of_ok (hasDb : Bool) (s : Store) (ch : Nib → WN) (keys1 keys2 : List (List Nib))
    (hp : keys1.Perm keys2) (h1 : (markKids hasDb s ch keys1).2 = none) (h2 : (markKids hasDb s ch keys2).2 = none) :
    markKids hasDb s ch keys2 = markKids hasDb s ch keys1 := by
  obtain ⟨a1, b1⟩ := markAll_routing hasDb s [] 0 false keys1 ch false (markKids_ok_ne hasDb s keys1 ch h1)
  obtain ⟨a2, b2⟩ := markAll_routing hasDb s [] 0 false keys2 ch false (markKids_ok_ne hasDb s keys2 ch h2)
  rw [h1] at a1
  rw [h2] at a2
  have e := markAll_perm_of_ok hasDb s (.routing [] ch 0 false false) keys1 keys2 hp a1 a2
  have e' := congrArg MRes.node e
  rw [b1 a1, b2 a2] at e'
  injection e' with _ e3 _ _ _
  exact Prod.ext e3 (h2.trans h1.symm)

/-- walks that succeed one by one on the children of the root succeed in any order -/
theorem markKids_ok_of_each (hasDb : Bool) (s : Store) (ch : Nib → WN) (keys : List (List Nib))
    (he : ∀ key ∈ keys, KidOK hasDb s ch key) : (markKids hasDb s ch keys).2 = none := by
  rw [← (markAll_routing hasDb s [] 0 false keys ch false (fun key hk => kidOK_ne (he key hk))).1]
  exact markAll_ok_of_each hasDb s keys _
    (fun key hk => (kidOK_iff hasDb s [] ch 0 false false key (kidOK_ne (he key hk))).mp (he key hk))

/-- 3. order independence of the per-branch parallel marking: when every walk alone succeeds on the children of the root,
every serialisation of the walks succeeds and yields the same children -/
theorem markKids_perm (hasDb : Bool) (s : Store) (ch : Nib → WN) (keys1 keys2 : List (List Nib))
    (hp : keys1.Perm keys2) (he : ∀ key ∈ keys1, KidOK hasDb s ch key) :
    markKids hasDb s ch keys2 = markKids hasDb s ch keys1 ∧ (markKids hasDb s ch keys1).2 = none := by
  have h1 := markKids_ok_of_each hasDb s ch keys1 he
  have h2 := markKids_ok_of_each hasDb s ch keys2 (fun key hk => he key (hp.mem_iff.mpr hk))
  exact ⟨markKids_perm_of_ok hasDb s ch keys1 keys2 hp h1 h2, h1⟩

theorem markParallel_perm_of_ok (hasDb : Bool) (s : Store) (h : Bytes) (ch : Nib → WN) (w : Nat) (d tc : Bool)
    (keys1 keys2 : List (List Nib)) (hp : keys1.Perm keys2)
    (h1 : (markParallel hasDb s (.routing h ch w d tc) keys1).err = none)
    (h2 : (markParallel hasDb s (.routing h ch w d tc) keys2).err = none) :
    markParallel hasDb s (.routing h ch w d tc) keys2 = markParallel hasDb s (.routing h ch w d tc) keys1 := by
  simp only [markParallel] at h1 h2 ⊢
  rw [markKids_perm_of_ok hasDb s ch keys1 keys2 hp h1 h2]

theorem markParallel_perm (hasDb : Bool) (s : Store) (h : Bytes) (ch : Nib → WN) (w : Nat) (d tc : Bool)
    (keys1 keys2 : List (List Nib)) (hp : keys1.Perm keys2) (he : ∀ key ∈ keys1, KidOK hasDb s ch key) :
    markParallel hasDb s (.routing h ch w d tc) keys2 = markParallel hasDb s (.routing h ch w d tc) keys1 ∧
      (markParallel hasDb s (.routing h ch w d tc) keys1).err = none := by
  obtain ⟨e1, e2⟩ := markKids_perm hasDb s ch keys1 keys2 hp he
  simp only [markParallel]
  rw [e1]
  exact ⟨rfl, e2⟩

/-! ### 6. why success in ONE order is not enough

The fuel of a walk (`fuelFor key - 1`) also pays for the references it loads.  A walk of a short key may succeed only
because a longer key has loaded the references before it: then the other order fails (out of fuel).  The storage below
holds a chain of twelve references; honest tries (`RepS`, Verif.Lemmas.WmptMark.mark_ok) never have such chains, every
walk alone succeeds there. -/

namespace MarkPerm

def cexRef (i : Nat) : Bytes × Bytes :=
  ([UInt8.ofNat i], Cbor.encBase { hashNode := some ⟨[UInt8.ofNat (i + 1)], 0⟩ })

/-- a store with a chain of twelve references, the last one to the empty node -/
def cexStore : Store :=
  [cexRef 0, cexRef 1, cexRef 2, cexRef 3, cexRef 4, cexRef 5, cexRef 6, cexRef 7, cexRef 8, cexRef 9, cexRef 10,
    ([11], Cbor.encBase { nilNode := true })]

theorem cex_dec (x : UInt8) :
    Cbor.decBase (Cbor.encBase { hashNode := some ⟨[x], 0⟩ }) = some { hashNode := some ⟨[x], 0⟩ } :=
  Cbor.decBase_encBase_hash _ (by simp [Cbor.PHashWF])

theorem cex_get (i : Nat) (hi : i < 11) :
    resolveHash true cexStore [UInt8.ofNat i] = .ok (.hashRef [UInt8.ofNat (i + 1)] 0) := by
  have : i = 0 ∨ i = 1 ∨ i = 2 ∨ i = 3 ∨ i = 4 ∨ i = 5 ∨ i = 6 ∨ i = 7 ∨ i = 8 ∨ i = 9 ∨ i = 10 := by omega
  rcases this with h | h | h | h | h | h | h | h | h | h | h <;> subst h <;>
    simp [resolveHash, cexStore, cexRef, Store.get, List.lookup, cex_dec, deserializeNode]

theorem cex_get_last : resolveHash true cexStore [11] = .ok .empty := by
  simp [resolveHash, cexStore, cexRef, Store.get, List.lookup, Cbor.decBase_encBase_nil, deserializeNode]

/-- the walk along the chain from reference `i` needs `13 - i` units of fuel -/
theorem cex_walk (key : List Nib) : ∀ (j i f : Nat), i + j = 11 →
    markToCollect true cexStore f (.hashRef [UInt8.ofNat i] 0) key =
      if j + 2 ≤ f then { node := .empty } else { node := .hashRef [UInt8.ofNat i] 0, err := some .other } := by
  intro j
  induction j with
  | zero =>
    intro i f h
    have : i = 11 := by omega
    subst this
    cases f with
    | zero => simp [markToCollect]
    | succ g =>
      cases g with
      | zero => simp [markToCollect, cex_get_last]
      | succ g => simp [markToCollect, cex_get_last]
  | succ j ih =>
    intro i f h
    cases f with
    | zero => simp [markToCollect]
    | succ g =>
      simp only [markToCollect, cex_get i (by omega), ih (i + 1) g (by omega)]
      by_cases hg : j + 2 ≤ g
      · simp [hg]
      · simp [hg]

theorem markKids_order_matters :
    (markKids true cexStore (fun _ => .hashRef [0] 0) [[0, 0], [0]]).2 = none ∧
    (markKids true cexStore (fun _ => .hashRef [0] 0) [[0], [0, 0]]).2 = some .other := by
  have e : ∀ f key, markToCollect true cexStore f (.hashRef [0] 0) key =
      if 13 ≤ f then { node := .empty } else { node := .hashRef [0] 0, err := some .other } :=
    fun f key => cex_walk key 11 0 f rfl
  constructor
  · simp [markKids, fuelFor, e, upd, markToCollect]
  · simp [markKids, fuelFor, e]

end MarkPerm

/-- success of the walks in one order does not imply success in another order -/
theorem markKids_perm_needs_each :
    ¬ ∀ (hasDb : Bool) (s : Store) (ch : Nib → WN) (keys1 keys2 : List (List Nib)), keys1.Perm keys2 →
      (markKids hasDb s ch keys1).2 = none → markKids hasDb s ch keys2 = markKids hasDb s ch keys1 := by
  intro h
  obtain ⟨h1, h2⟩ := markKids_order_matters
  have e := h true cexStore (fun _ => .hashRef [0] 0) [[0, 0], [0]] [[0], [0, 0]] (List.Perm.swap _ _ _) h1
  rw [e, h1] at h2
  cases h2

/-! ### 7. honest tries: every serialisation gives the same marked trie -/

section Honest
open RepOps
variable {H : Bytes → Bytes} {s : Store}

/-- below a branch root that represents a spec tree with keys of one length `m`, the walk of every key of that length
alone succeeds -/
theorem kidOK_of_rep (hlen : ∀ x, (H x).length = 32) {h : Bytes} {ch : Nib → WN} {w : Nat} {d tc : Bool} {t : PT}
    {m : Nat} {key : List Nib} (hrep : RepS H s (.routing h ch w d tc) t) (hp : Proper (.routing h ch w d tc))
    (hne : NoEmp (.routing h ch w d tc)) (hu : Uniform m t) (hok : PTOK t) (hk : key.length = m) :
    KidOK true s ch key := by
  have hm : 0 < m := by
    cases hrep
    simp only [Uniform] at hu
    exact hu.1
  have hkn : key ≠ [] := by
    intro e; rw [e] at hk; simp at hk; omega
  exact (kidOK_iff true s h ch w d tc key hkn).mpr
    (Mark.mark_ok (fuel := fuelFor key) hlen hrep hp hne hu hok hk (by unfold fuelFor; omega)).1

/-- the per-branch parallel marking of `GetPath` below a branch root that represents a spec tree: every serialisation of
the walks succeeds and all of them yield the same marked trie -/
theorem markParallel_perm_rep (hlen : ∀ x, (H x).length = 32) {h : Bytes} {ch : Nib → WN} {w : Nat} {d tc : Bool}
    {t : PT} {m : Nat} (hrep : RepS H s (.routing h ch w d tc) t) (hp : Proper (.routing h ch w d tc))
    (hne : NoEmp (.routing h ch w d tc)) (hu : Uniform m t) (hok : PTOK t)
    (keys1 keys2 : List (List Nib)) (hperm : keys1.Perm keys2) (hk : ∀ key ∈ keys1, key.length = m) :
    markParallel true s (.routing h ch w d tc) keys2 = markParallel true s (.routing h ch w d tc) keys1 ∧
      (markParallel true s (.routing h ch w d tc) keys1).err = none :=
  markParallel_perm true s h ch w d tc keys1 keys2 hperm
    (fun key hkey => kidOK_of_rep hlen hrep hp hne hu hok (hk key hkey))

end Honest

end Verif.Wmpt
