/- Soundness of block-proof verification as a reduction to an explicit collision (C10). -/
import Verif.Lemmas.WmptProof
namespace Verif.Wmpt

/-- The proof's nodes on the path have the kinds of the trie's nodes and claim the true child weights:
    the hypothesis that excludes exactly the two open findings (re-weighting / node-kind confusion). -/
def Faithful : PT → List PairD → Nat → Prop
  | .value _ _, .ok p :: _, _ => ∃ h v w, deserializeNode p = .ok (.value h v w false) ∧ w < 2 ^ 64
  | .short _ c, .ok p :: rest, b =>
    ∃ k h hc, deserializeNode p = .ok (.short k h (.hashRef hc c.weight) false false) ∧ Faithful c rest b
  | .branch ch, .ok p :: rest, b =>
    ∃ h ch' w, deserializeNode p = .ok (.routing h ch' w false false) ∧ (∀ i, (ch' i).weight = (ch i).weight) ∧
      (∀ i b', PT.pick ch allNib b = some (i, b') → Faithful (ch i) rest b')
  | _, _, _ => False

theorem CollisionIn.mono {H : Bytes → Bytes} {S T : List Bytes} (h : ∀ x ∈ S, x ∈ T) : CollisionIn H S → CollisionIn H T := by
  rintro ⟨x, hx, y, hy, hne, he⟩
  exact ⟨x, h x hx, y, h y hy, hne, he⟩

theorem calcHash_snd_eq_hashField (H : Bytes → Bytes) (x : WN) (hn : x.isNil = false) :
    (calcHash H x).2 = (calcHash H x).1.hashField H := by
  cases x with
  | nil => simp [WN.isNil] at hn
  | empty => rfl
  | hashRef h w => rfl
  | value h v w d => cases d <;> rfl
  | routing h ch w d tc => cases d <;> rfl
  | short k h c d tc =>
    cases d with
    | false => rfl
    | true => by_cases hc : c.isNil <;> simp only [calcHash, hc, if_true, if_false, Bool.false_eq_true] <;> rfl

/-- what `verifyProof` returns is a freshly re-hashed, non-nil node -/
theorem verifyProof_node (H : Bytes → Bytes) (hlen : ∀ x, (H x).length = 32) (ps : List PairD) (b : Nat) (n : WN) (v : Bytes)
    (rest : List PairD) (h : verifyProof H ps b = .ok (n, v, rest)) :
    n.isNil = false ∧ (calcHash H n).2 = n.hashField H ∧ (n.hashField H).length = 32 := by
  have key : ∀ x : WN, x.isNil = false → x.dirty = true → (∃ hh, (rehash H x).hashField H = H hh) →
      (rehash H x).isNil = false ∧ (calcHash H (rehash H x)).2 = (rehash H x).hashField H ∧ ((rehash H x).hashField H).length = 32 := by
    intro x hx _ ⟨hh, he⟩
    refine ⟨by rw [rehash, calcHash_fst_isNil]; exact hx, ?_, by rw [he]; exact hlen _⟩
    rw [rehash, calcHash_idem, calcHash_snd_eq_hashField H x hx]
  cases ps with
  | nil => simp [verifyProof] at h
  | cons p tl =>
    cases p with
    | nilPair => simp [verifyProof] at h
    | bad => simp [verifyProof] at h
    | ok q =>
      unfold verifyProof at h
      cases hq : deserializeNode q with
      | err e => simp [hq] at h
      | ok nd =>
        rw [hq] at h
        cases nd with
        | routing hh ch w d tc =>
          simp only at h
          cases hp : pickChild ch allNib b with
          | none => simp [hp] at h
          | some ib =>
            obtain ⟨i, b'⟩ := ib
            simp only [hp] at h
            cases hv : verifyProof H tl b' with
            | err e => simp [hv] at h
            | ok r =>
              obtain ⟨c, v', rest'⟩ := r
              simp only [hv, Res.ok.injEq, Prod.mk.injEq] at h
              obtain ⟨hn, _, _⟩ := h
              subst hn
              exact key _ rfl rfl ⟨_, rfl⟩
        | short k hh c d tc =>
          simp only at h
          by_cases hw : b > c.weight
          · simp [hw] at h
          · simp only [hw, if_false] at h
            cases hv : verifyProof H tl b with
            | err e => simp [hv] at h
            | ok r =>
              obtain ⟨c', v', rest'⟩ := r
              simp only [hv, Res.ok.injEq, Prod.mk.injEq] at h
              obtain ⟨hn, _, _⟩ := h
              subst hn
              refine key _ rfl rfl ?_
              by_cases hc : c'.isNil
              · exact ⟨k, by simp only [rehash, calcHash, hc, if_true]; rfl⟩
              · exact ⟨k ++ (calcHash H c').2, by simp only [rehash, calcHash, hc, if_true, if_false, Bool.false_eq_true]; rfl⟩
        | value hh vv w d =>
          simp only at h
          by_cases hw : b > w
          · simp [hw] at h
          · simp only [hw, if_false, Res.ok.injEq, Prod.mk.injEq] at h
            obtain ⟨hn, _, _⟩ := h
            subst hn
            exact key _ rfl rfl ⟨_, rfl⟩
        | nil => simp at h
        | empty => simp at h
        | hashRef hh w => simp at h

theorem be64_inj (a b : Nat) (ha : a < 2 ^ 64) (hb : b < 2 ^ 64) (h : be64 a = be64 b) : a = b := by
  have h1 := be64Dec_be64 a [] ha
  have h2 := be64Dec_be64 b [] hb
  rw [h] at h1
  exact h1.symm.trans h2

theorem append_inj_of_length {α} {a b c d : List α} (h : a ++ b = c ++ d) (hl : a.length = c.length) : a = c ∧ b = d :=
  List.append_inj h hl

/-- pieces of equal fixed length: equal concatenations have equal pieces -/
theorem flatMap_inj32 (f g : Nib → Bytes) (hf : ∀ i, (f i).length = 32) (hg : ∀ i, (g i).length = 32) (is : List Nib)
    (h : is.flatMap f = is.flatMap g) : ∀ i ∈ is, f i = g i := by
  induction is with
  | nil => intro i hi; cases hi
  | cons j tl ih =>
    simp only [List.flatMap_cons] at h
    obtain ⟨h1, h2⟩ := List.append_inj h (by rw [hf, hg])
    intro i hi
    cases hi with
    | head => exact h1
    | tail _ hi' => exact ih h2 i hi'

/-- with the true weights (and b ≥ 1) the verifier picks the same child as the trie -/
theorem pick_agree (ch' : Nib → WN) (ch : Nib → PT) (hw : ∀ i, (ch' i).weight = (ch i).weight) (is : List Nib) (b : Nat)
    (hb : 1 ≤ b) : pickChild ch' is b = PT.pick ch is b := by
  induction is generalizing b with
  | nil => rfl
  | cons i tl ih =>
    unfold pickChild PT.pick
    have hnilw : (ch' i).isNil = true → (ch' i).weight = 0 := by
      intro h; cases hc : ch' i <;> simp_all [WN.isNil, WN.weight]
    have hnonew : (ch i).isNone = true → (ch i).weight = 0 := by
      intro h; cases hc : ch i <;> simp_all [PT.isNone, PT.weight]
    by_cases h1 : (ch' i).isNil <;> by_cases h2 : (ch i).isNone
    · simp only [h1, h2, if_true]; exact ih b hb
    · have w0 : (ch i).weight = 0 := by rw [← hw]; exact hnilw h1
      have : ¬ b ≤ 0 := by omega
      simp only [h1, h2, if_true, w0, this, if_false, Nat.sub_zero, Bool.false_eq_true]; exact ih b hb
    · have w0 : (ch' i).weight = 0 := by rw [hw]; exact hnonew h2
      have : ¬ b ≤ 0 := by omega
      simp only [h1, h2, if_true, w0, this, if_false, Nat.sub_zero, Bool.false_eq_true]; exact ih b hb
    · simp only [h1, h2, Bool.false_eq_true, if_false, hw]
      by_cases hle : b ≤ (ch i).weight
      · simp [hle]
      · simp only [hle, if_false]; exact ih _ (by omega)

theorem pick_bounds (ch : Nib → PT) (is : List Nib) (b : Nat) (i : Nib) (b' : Nat) (hb : 1 ≤ b)
    (h : PT.pick ch is b = some (i, b')) :
    1 ≤ b' ∧ b' ≤ (ch i).weight ∧ b ≤ (is.map (fun j => (ch j).weight)).sum ∧ i ∈ is := by
  induction is generalizing b with
  | nil => simp [PT.pick] at h
  | cons j tl ih =>
    unfold PT.pick at h
    simp only [List.map_cons, List.sum_cons, List.mem_cons]
    by_cases hn : (ch j).isNone
    · simp only [hn, if_true] at h
      obtain ⟨a, c, d, e⟩ := ih b hb h
      exact ⟨a, c, by omega, Or.inr e⟩
    · simp only [hn, Bool.false_eq_true, if_false] at h
      by_cases hle : b ≤ (ch j).weight
      · simp only [hle, if_true, Option.some.injEq, Prod.mk.injEq] at h
        obtain ⟨h1, h2⟩ := h; subst h1; subst h2
        exact ⟨hb, hle, by omega, Or.inl rfl⟩
      · simp only [hle, if_false] at h
        obtain ⟨a, c, d, e⟩ := ih _ (by omega) h
        exact ⟨a, c, by omega, Or.inr e⟩

theorem deserializeChild_hash32 (H : Bytes → Bytes) (c : Bytes) (n : WN) (h : deserializeChild c = .ok (some n)) :
    ((calcHash H n).2).length = 32 := by
  unfold deserializeChild at h
  simp only [show hashWithWeightLength = 40 from rfl] at h
  by_cases h40 : c.length ≥ 40
  · simp only [h40, if_true] at h
    have s1 : slice c 0 32 = .ok ((c.take 32).drop 0) := by unfold slice; simp; omega
    have s2 : sliceFrom c 32 = .ok (c.drop 32) := by unfold sliceFrom; simp; omega
    have s3 : uint64At (c.drop 32) = .ok (be64Dec (c.drop 32)) := by unfold uint64At; simp; omega
    simp only [s1, s2, s3] at h
    have l32 : ((c.take 32).drop 0).length = 32 := by simp; omega
    by_cases e : c.length = 40
    · simp only [e, if_true, Res.ok.injEq, Option.some.injEq] at h
      subst h; simpa [calcHash] using l32
    · simp only [e, if_false] at h
      by_cases l : c.length < 40 + 32
      · simp [l] at h
      · have h72 : 72 ≤ c.length := by omega
        have s4 : slice c 40 (40 + 32) = .ok ((c.take 72).drop 40) := by unfold slice; simp; omega
        have s5 : sliceFrom c (40 + 32) = .ok (c.drop 72) := by unfold sliceFrom; simp; omega
        simp only [l, if_false, s4, s5] at h
        by_cases hk : isNibbles (c.drop 72) = true
        · simp only [hk, Bool.not_true, Bool.false_eq_true, if_false, Res.ok.injEq, Option.some.injEq] at h
          subst h; simpa [calcHash] using l32
        · simp [hk] at h
  · simp [h40] at h

theorem deserializeChildren_hash32 (H : Bytes → Bytes) (hlen : ∀ x, (H x).length = 32) (cs : List Bytes) (ns : List WN) (w : Nat)
    (h : deserializeChildren cs = .ok (ns, w)) : ∀ n ∈ ns, ((calcHash H n).2).length = 32 := by
  induction cs generalizing ns w with
  | nil =>
    simp only [deserializeChildren, Res.ok.injEq, Prod.mk.injEq] at h
    intro n hn; rw [← h.1] at hn; cases hn
  | cons c tl ih =>
    unfold deserializeChildren at h
    cases hc : deserializeChild c with
    | err e => simp [hc] at h
    | ok o =>
      simp only [hc] at h
      cases ht : deserializeChildren tl with
      | err e => simp [ht] at h
      | ok r =>
        obtain ⟨ns', w'⟩ := r
        simp only [ht] at h
        cases o with
        | none =>
          simp only [Res.ok.injEq, Prod.mk.injEq] at h
          intro n hn
          rw [← h.1] at hn
          cases hn with
          | head => simp [calcHash, emptyHash, hlen]
          | tail _ hn' => exact ih ns' w' ht n hn'
        | some nd =>
          simp only [Res.ok.injEq, Prod.mk.injEq] at h
          intro n hn
          rw [← h.1] at hn
          cases hn with
          | head => exact deserializeChild_hash32 H c nd hc
          | tail _ hn' => exact ih ns' w' ht n hn'

theorem deserializeNode_routing_hash32 (H : Bytes → Bytes) (hlen : ∀ x, (H x).length = 32) (q : PBase) (h : Bytes)
    (ch : Nib → WN) (w : Nat) (d tc : Bool) (hq : deserializeNode q = .ok (.routing h ch w d tc)) :
    ∀ j, ((calcHash H (ch j)).2).length = 32 := by
  unfold deserializeNode at hq
  cases hb : q.branch with
  | some b =>
    simp only [hb] at hq
    by_cases hl : b.children.length > branchNodeLength
    · simp [hl] at hq
    · simp only [hl, if_false] at hq
      cases hc : deserializeChildren b.children with
      | err e => simp [hc] at hq
      | ok r =>
        obtain ⟨ns, w'⟩ := r
        simp only [hc, Res.ok.injEq, WN.routing.injEq] at hq
        obtain ⟨_, hch, _⟩ := hq
        intro j
        rw [← hch]
        simp only [ofList, List.getD_eq_getElem?_getD]
        cases hj : ns[j.val]? with
        | none => simp [calcHash, emptyHash, hlen]
        | some nd =>
          simp only [Option.getD_some]
          exact deserializeChildren_hash32 H hlen _ ns w' hc nd (List.mem_of_getElem? hj)
  | none =>
    simp only [hb] at hq
    cases hv : q.value with
    | some v => simp [hv] at hq
    | none =>
      simp only [hv] at hq
      by_cases hn : q.nilNode
      · simp [hn] at hq
      · simp only [hn] at hq
        cases hh : q.hashNode with
        | some x => simp [hh] at hq
        | none =>
          simp only [hh] at hq
          cases hs : q.short with
          | none => simp [hs] at hq
          | some sv =>
            simp only [hs] at hq
            by_cases hk : isNibbles sv.key = true
            case neg => simp [hk] at hq
            simp only [hk, Bool.not_true, Bool.false_eq_true, if_false] at hq
            by_cases hl : sv.value.length ≠ hashWithWeightLength
            · simp [hl] at hq
            · simp only [hl, if_false] at hq
              cases h1 : slice sv.value 0 32 with
              | err e => simp [h1] at hq
              | ok vh =>
                cases h2 : sliceFrom sv.value 32 with
                | err e => simp [h1, h2] at hq
                | ok rest =>
                  simp only [h1, h2] at hq
                  cases h3 : uint64At rest with
                  | err e => simp [h3] at hq
                  | ok w' => simp [h3] at hq

/-- Soundness core: an accepted proof whose rebuilt root hashes to the trie's hash returns the value the weight-ordered
    descent reaches — or two different listed inputs collide. -/
theorem sound_core (H : Bytes → Bytes) (hlen : ∀ x, (H x).length = 32) (t : PT) (ps : List PairD) (b : Nat) (n : WN)
    (v : Bytes) (rest : List PairD) (hb1 : 1 ≤ b) (hw : t.weight < 2 ^ 64) (hf : Faithful t ps b)
    (hv : verifyProof H ps b = .ok (n, v, rest)) (hh : n.hashField H = t.hash H) :
    ((∃ k, t.owner b = some (k, v)) ∧ b ≤ t.weight) ∨ CollisionIn H (t.pathInputs H b ++ verifyInputs H ps b) := by
  induction t generalizing ps b n v rest with
  | none => cases ps <;> simp [Faithful] at hf
  | value v0 w0 =>
    cases ps with
    | nil => simp [Faithful] at hf
    | cons p tl =>
      cases p with
      | nilPair => simp [Faithful] at hf
      | bad => simp [Faithful] at hf
      | ok q =>
        obtain ⟨h', v', w', hq, hw'⟩ := hf
        simp only [verifyProof, hq] at hv
        by_cases hbw : b > w'
        · simp [hbw] at hv
        · simp only [hbw, if_false, Res.ok.injEq, Prod.mk.injEq] at hv
          obtain ⟨hn, hv', _⟩ := hv
          subst hn; subst hv'
          have hx : (rehash H (.value h' v' w' true)).hashField H = H (be64 w' ++ v') := rfl
          rw [hx, PT.hash] at hh
          by_cases heq : be64 w' ++ v' = be64 w0 ++ v0
          · obtain ⟨e1, e2⟩ := List.append_inj heq (by simp [be64_length])
            have : w' = w0 := be64_inj _ _ hw' (by simpa [PT.weight] using hw) e1
            subst this; subst e2
            left
            exact ⟨⟨[], rfl⟩, by simp [PT.weight]; omega⟩
          · right
            refine ⟨be64 w' ++ v', ?_, be64 w0 ++ v0, ?_, heq, hh⟩
            · simp [verifyInputs, hq, WN.preimage]
            · simp [PT.pathInputs, PT.preimage]
  | short k0 c ih =>
    cases ps with
    | nil => simp [Faithful] at hf
    | cons p tl =>
      cases p with
      | nilPair => simp [Faithful] at hf
      | bad => simp [Faithful] at hf
      | ok q =>
        obtain ⟨k, h', hc', hq, hfc⟩ := hf
        simp only [verifyProof, hq] at hv
        by_cases hbw : b > (WN.hashRef hc' c.weight).weight
        · simp [hbw] at hv
        · simp only [hbw, if_false] at hv
          have hbc : b ≤ c.weight := by simpa [WN.weight] using hbw
          cases hr : verifyProof H tl b with
          | err e => simp [hr] at hv
          | ok r =>
            obtain ⟨c'', v', rest'⟩ := r
            simp only [hr, Res.ok.injEq, Prod.mk.injEq] at hv
            obtain ⟨hn, hv', _⟩ := hv
            subst hn; subst hv'
            obtain ⟨hnil, hcs, hl32⟩ := verifyProof_node H hlen tl b c'' v' rest' hr
            have hx : (rehash H (.short k h' c'' true false)).hashField H = H (k ++ (calcHash H c'').2) := by
              simp [rehash, calcHash, hnil, WN.hashField]
            rw [hx, PT.hash] at hh
            have hin1 : (k ++ (calcHash H c'').2) ∈ verifyInputs H (PairD.ok q :: tl) b := by
              simp [verifyInputs, hq, hr, WN.preimage, hnil]
            have hin2 : (k0 ++ PT.hash H c) ∈ PT.pathInputs H (.short k0 c) b := by
              simp [PT.pathInputs, PT.preimage]
            by_cases heq : k ++ (calcHash H c'').2 = k0 ++ PT.hash H c
            · have hl : ((calcHash H c'').2).length = (PT.hash H c).length := by
                rw [hcs, hl32, PT.hash_length H hlen]
              obtain ⟨e1, e2⟩ := List.append_inj' heq hl
              have hcw : c.weight < 2 ^ 64 := by simpa [PT.weight] using hw
              rcases ih tl b c'' v' rest' hb1 hcw hfc hr (by rw [← hcs, e2]) with ⟨⟨k', ho⟩, _⟩ | hcol
              · left
                refine ⟨⟨k0 ++ k', ?_⟩, by simpa [PT.weight] using hbc⟩
                have : ¬ b > c.weight := by omega
                simp [PT.owner, this, ho]
              · right
                refine CollisionIn.mono ?_ hcol
                intro x hx
                simp only [List.mem_append] at hx ⊢
                rcases hx with hx | hx
                · left; simp [PT.pathInputs, hx]
                · right; simp [verifyInputs, hq, hr, hx]
            · right
              exact ⟨_, List.mem_append_right _ hin1, _, List.mem_append_left _ hin2, heq, hh⟩
  | branch ch ih =>
    cases ps with
    | nil => simp [Faithful] at hf
    | cons p tl =>
      cases p with
      | nilPair => simp [Faithful] at hf
      | bad => simp [Faithful] at hf
      | ok q =>
        obtain ⟨h', ch', w', hq, hws, hfc⟩ := hf
        simp only [verifyProof, hq] at hv
        rw [pick_agree ch' ch hws allNib b hb1] at hv
        cases hp : PT.pick ch allNib b with
        | none => simp [hp] at hv
        | some ib =>
          obtain ⟨i, b'⟩ := ib
          simp only [hp] at hv
          obtain ⟨hb1', hbi, hbs, _⟩ := pick_bounds ch allNib b i b' hb1 hp
          cases hr : verifyProof H tl b' with
          | err e => simp [hr] at hv
          | ok r =>
            obtain ⟨c'', v', rest'⟩ := r
            simp only [hr, Res.ok.injEq, Prod.mk.injEq] at hv
            obtain ⟨hn, hv', _⟩ := hv
            subst hn; subst hv'
            obtain ⟨hnil, hcs, hl32⟩ := verifyProof_node H hlen tl b' c'' v' rest' hr
            have hx : (rehash H (.routing h' (upd ch' i c'') w' true false)).hashField H =
                H (be64 w' ++ allNib.flatMap (fun j => (calcHash H (upd ch' i c'' j)).2)) := by
              simp [rehash, calcHash, WN.hashField, List.flatMap_map]
            rw [hx, PT.hash] at hh
            have hin1 : (be64 w' ++ allNib.flatMap (fun j => (calcHash H (upd ch' i c'' j)).2)) ∈
                verifyInputs H (PairD.ok q :: tl) b := by
              simp [verifyInputs, hq, pick_agree ch' ch hws allNib b hb1, hp, hr, WN.preimage]
            have hin2 : (be64 (PT.branch ch).weight ++ allNib.flatMap (fun j => PT.hash H (ch j))) ∈
                PT.pathInputs H (.branch ch) b := by
              simp [PT.pathInputs, PT.preimage]
            by_cases heq : be64 w' ++ allNib.flatMap (fun j => (calcHash H (upd ch' i c'' j)).2) =
                be64 (PT.branch ch).weight ++ allNib.flatMap (fun j => PT.hash H (ch j))
            · obtain ⟨_, e2⟩ := List.append_inj heq (by simp [be64_length])
              have h32 : ∀ j, ((calcHash H (upd ch' i c'' j)).2).length = 32 := by
                intro j
                by_cases hj : j = i
                · subst hj; simp only [upd, if_true]; rw [hcs]; exact hl32
                · simp only [upd, hj, if_false]
                  exact deserializeNode_routing_hash32 H hlen q h' ch' w' false false hq j
              have hpiece := flatMap_inj32 _ _ h32 (fun j => PT.hash_length H hlen (ch j)) allNib e2 i (by simp [allNib])
              simp only [upd, if_true] at hpiece
              have hcw : (ch i).weight < 2 ^ 64 := Nat.lt_of_le_of_lt (PT.weight_child_le ch i) hw
              rcases ih i tl b' c'' v' rest' hb1' hcw (hfc i b' hp) hr (by rw [← hcs, hpiece]) with ⟨⟨k', ho⟩, _⟩ | hcol
              · left
                exact ⟨⟨nb i :: k', by simp [PT.owner, hp, ho]⟩, hbs⟩
              · right
                refine CollisionIn.mono ?_ hcol
                intro x hx
                simp only [List.mem_append] at hx ⊢
                rcases hx with hx | hx
                · left; simp [PT.pathInputs, hp, hx]
                · right; simp [verifyInputs, hq, pick_agree ch' ch hws allNib b hb1, hp, hr, hx]
            · right
              exact ⟨_, List.mem_append_right _ hin1, _, List.mem_append_left _ hin2, heq, hh⟩

/-- honest proofs are faithful (so the hypothesis of the soundness theorem is satisfiable by every trie) -/
theorem faithful_honest (H : Bytes → Bytes) (hlen : ∀ x, (H x).length = 32) (t : PT) (b : Nat) (tail : List PairD)
    (hb1 : 1 ≤ b) (hb : b ≤ t.weight) (hw : t.weight < 2 ^ 64) (hkn : KeysNib t) :
    Faithful t ((t.proofPairs H b).map PairD.ok ++ tail) b := by
  induction t generalizing b with
  | none => simp [PT.weight] at hb; omega
  | value v w =>
    simp only [PT.proofPairs, List.map_cons, List.map_nil, List.cons_append, List.nil_append, Faithful]
    exact ⟨_, v, w, rfl, by simpa [PT.weight] using hw⟩
  | short k c ih =>
    simp only [PT.weight] at hb hw
    simp only [PT.proofPairs, List.map_cons, List.cons_append, Faithful]
    exact ⟨k, _, _, deserializeNode_short H hlen k c hw hkn.1, ih b hb1 hb hw hkn.2⟩
  | branch ch ih =>
    simp only [PT.proofPairs, List.map_cons, List.cons_append, Faithful]
    refine ⟨_, _, _, deserializeNode_branch H hlen ch hw hkn, fun i => PT.refOf_weight H (ch i), ?_⟩
    intro i b' hp
    obtain ⟨h1, h2, _, _⟩ := pick_bounds ch allNib b i b' hb1 hp
    simp only [hp]
    exact ih i b' h1 h2 (Nat.lt_of_le_of_lt (PT.weight_child_le ch i) hw) (hkn i)

end Verif.Wmpt
