/-
Effect of the write stream of `PruneBelowVersion` (and of any of its prefixes) on the persistent store.
-/
import Verif.Lemmas.MptStoreMap
namespace Verif.MptStore
open Verif.Mpt

/-- node keys deleted by a list of writes -/
def prunedKeys : List Write → List Bytes
  | [] => []
  | .delNodes ks :: ws => ks ++ prunedKeys ws
  | _ :: ws => prunedKeys ws

/-- a list of writes made of node-delete batches and record-drop batches only -/
def PruneOnly : List Write → Prop
  | [] => True
  | .delNodes _ :: ws => PruneOnly ws
  | .delRecs _ :: ws => PruneOnly ws
  | _ :: _ => False

theorem pruneOnly_take : ∀ (ws : List Write) (n : Nat), PruneOnly ws → PruneOnly (ws.take n)
  | _, 0, _ => by simp [PruneOnly]
  | [], _ + 1, _ => by simp [PruneOnly]
  | .delNodes _ :: ws, n + 1, h => by simpa [PruneOnly] using pruneOnly_take ws n h
  | .delRecs _ :: ws, n + 1, h => by simpa [PruneOnly] using pruneOnly_take ws n h
  | .putNodes _ :: _, _ + 1, h => by simp [PruneOnly] at h
  | .putRec _ _ :: _, _ + 1, h => by simp [PruneOnly] at h

theorem prunedKeys_take_subset : ∀ (ws : List Write) (n : Nat) (x : Bytes), x ∈ prunedKeys (ws.take n) → x ∈ prunedKeys ws
  | _, 0, x, h => by simp [prunedKeys] at h
  | [], _ + 1, x, h => by simp [prunedKeys] at h
  | .delNodes ks :: ws, n + 1, x, h => by
    simp only [List.take_succ_cons, prunedKeys, List.mem_append] at h ⊢
    rcases h with h | h
    · exact Or.inl h
    · exact Or.inr (prunedKeys_take_subset ws n x h)
  | .delRecs _ :: ws, n + 1, x, h => by
    simp only [List.take_succ_cons, prunedKeys] at h ⊢; exact prunedKeys_take_subset ws n x h
  | .putNodes _ :: ws, n + 1, x, h => by
    simp only [List.take_succ_cons, prunedKeys] at h ⊢; exact prunedKeys_take_subset ws n x h
  | .putRec _ _ :: ws, n + 1, x, h => by
    simp only [List.take_succ_cons, prunedKeys] at h ⊢; exact prunedKeys_take_subset ws n x h

/-- node lookups after prune-only writes: exactly the deleted keys are gone -/
theorem get_nodes_pruneOnly : ∀ (ws : List Write) (s : PStore), PruneOnly ws → ∀ x,
    Map.get (s.applyAll ws).nodes x = if x ∈ prunedKeys ws then none else Map.get s.nodes x
  | [], s, _, x => by simp [PStore.applyAll, prunedKeys]
  | .delNodes ks :: ws, s, h, x => by
    have ih := get_nodes_pruneOnly ws (s.apply (.delNodes ks)) h x
    simp only [PStore.applyAll, List.foldl_cons] at ih ⊢
    rw [ih]
    simp only [PStore.apply, prunedKeys, List.mem_append, Map.get_delAll]
    by_cases h1 : x ∈ prunedKeys ws <;> by_cases h2 : x ∈ ks <;> simp [h1, h2]
  | .delRecs vs :: ws, s, h, x => by
    have ih := get_nodes_pruneOnly ws (s.apply (.delRecs vs)) h x
    simp only [PStore.applyAll, List.foldl_cons] at ih ⊢
    rw [ih]
    simp only [PStore.apply, prunedKeys]
    by_cases h1 : x ∈ prunedKeys ws <;> simp [h1]
  | .putNodes _ :: _, _, h, _ => by simp [PruneOnly] at h
  | .putRec _ _ :: _, _, h, _ => by simp [PruneOnly] at h

/-- prune-only writes never add or change a dead-node record -/
theorem get_dead_pruneOnly : ∀ (ws : List Write) (s : PStore), PruneOnly ws → ∀ v ks,
    Map.get (s.applyAll ws).dead v = some ks → Map.get s.dead v = some ks
  | [], s, _, v, ks, hg => by simpa [PStore.applyAll] using hg
  | .delNodes ks' :: ws, s, h, v, ks, hg => by
    have ih := get_dead_pruneOnly ws (s.apply (.delNodes ks')) h v ks
    simp only [PStore.applyAll, List.foldl_cons] at ih hg
    simpa [PStore.apply] using ih hg
  | .delRecs vs :: ws, s, h, v, ks, hg => by
    have ih := get_dead_pruneOnly ws (s.apply (.delRecs vs)) h v ks
    simp only [PStore.applyAll, List.foldl_cons] at ih hg
    have := ih hg
    simp only [PStore.apply, Map.get_delAll] at this
    by_cases hv : v ∈ vs
    · simp [hv] at this
    · simpa [hv] using this
  | .putNodes _ :: _, _, h, _, _, _ => by simp [PruneOnly] at h
  | .putRec _ _ :: _, _, h, _, _, _ => by simp [PruneOnly] at h

/-- prune-only writes only remove dead-node records -/
theorem dead_subset_pruneOnly : ∀ (ws : List Write) (s : PStore), PruneOnly ws → ∀ e ∈ (s.applyAll ws).dead, e ∈ s.dead
  | [], s, _, e, he => by simpa [PStore.applyAll] using he
  | .delNodes ks' :: ws, s, h, e, he => by
    have ih := dead_subset_pruneOnly ws (s.apply (.delNodes ks')) h e
    simp only [PStore.applyAll, List.foldl_cons] at ih he
    simpa [PStore.apply] using ih he
  | .delRecs vs :: ws, s, h, e, he => by
    have ih := dead_subset_pruneOnly ws (s.apply (.delRecs vs)) h e
    simp only [PStore.applyAll, List.foldl_cons] at ih he
    have := ih he
    simp only [PStore.apply] at this
    exact Map.mem_delAll this
  | .putNodes _ :: _, _, h, _, _ => by simp [PruneOnly] at h
  | .putRec _ _ :: _, _, h, _, _ => by simp [PruneOnly] at h

theorem pruneOnly_batches (maxN : Nat) : ∀ (recs : List (Nat × List Bytes)) (acc : List Bytes),
    PruneOnly (pruneBatches maxN recs acc)
  | [], acc => by
    simp only [pruneBatches]; split <;> simp [PruneOnly]
  | (_, ks) :: r, acc => by
    simp only [pruneBatches]
    split
    · simpa [PruneOnly] using pruneOnly_batches maxN r []
    · exact pruneOnly_batches maxN r (acc ++ ks)

theorem pruneOnly_append : ∀ (a b : List Write), PruneOnly a → PruneOnly b → PruneOnly (a ++ b)
  | [], b, _, hb => by simpa using hb
  | .delNodes _ :: a, b, ha, hb => by simpa [PruneOnly] using pruneOnly_append a b ha hb
  | .delRecs _ :: a, b, ha, hb => by simpa [PruneOnly] using pruneOnly_append a b ha hb
  | .putNodes _ :: _, _, ha, _ => by simp [PruneOnly] at ha
  | .putRec _ _ :: _, _, ha, _ => by simp [PruneOnly] at ha

theorem pruneOnly_stream (maxN : Nat) (s : PStore) (v : Nat) : PruneOnly (pruneStream maxN s v) := by
  simp only [pruneStream]
  split
  · simp [PruneOnly]
  · exact pruneOnly_append _ _ (pruneOnly_batches maxN _ []) (by simp [PruneOnly])

theorem prunedKeys_append : ∀ (a b : List Write), prunedKeys (a ++ b) = prunedKeys a ++ prunedKeys b
  | [], b => by simp [prunedKeys]
  | .delNodes ks :: a, b => by simp [prunedKeys, prunedKeys_append a b]
  | .delRecs _ :: a, b => by simp [prunedKeys, prunedKeys_append a b]
  | .putNodes _ :: a, b => by simp [prunedKeys, prunedKeys_append a b]
  | .putRec _ _ :: a, b => by simp [prunedKeys, prunedKeys_append a b]

/-- the batches delete only keys of the gathered records -/
theorem prunedKeys_batches (maxN : Nat) : ∀ (recs : List (Nat × List Bytes)) (acc : List Bytes) (x : Bytes),
    x ∈ prunedKeys (pruneBatches maxN recs acc) → x ∈ acc ∨ ∃ e ∈ recs, x ∈ e.2
  | [], acc, x, h => by
    simp only [pruneBatches] at h
    split at h
    · simp [prunedKeys] at h
    · simp [prunedKeys] at h; exact Or.inl h
  | (v, ks) :: r, acc, x, h => by
    simp only [pruneBatches] at h
    split at h
    · simp only [prunedKeys, List.mem_append] at h
      rcases h with (h | h) | h
      · exact Or.inl h
      · exact Or.inr ⟨(v, ks), List.mem_cons_self .., h⟩
      · rcases prunedKeys_batches maxN r [] x h with h | ⟨e, he, hx⟩
        · cases h
        · exact Or.inr ⟨e, List.mem_cons_of_mem _ he, hx⟩
    · rcases prunedKeys_batches maxN r (acc ++ ks) x h with h | ⟨e, he, hx⟩
      · rcases List.mem_append.mp h with h | h
        · exact Or.inl h
        · exact Or.inr ⟨(v, ks), List.mem_cons_self .., h⟩
      · exact Or.inr ⟨e, List.mem_cons_of_mem _ he, hx⟩

theorem mem_insertSorted (e x : Nat × List Bytes) : ∀ l, x ∈ insertSorted e l → x = e ∨ x ∈ l
  | [], h => by simp [insertSorted] at h; exact Or.inl h
  | y :: r, h => by
    simp only [insertSorted] at h
    split at h
    · rcases List.mem_cons.mp h with h | h
      · exact Or.inl h
      · exact Or.inr h
    · rcases List.mem_cons.mp h with h | h
      · exact Or.inr (h ▸ List.mem_cons_self ..)
      · rcases mem_insertSorted e x r h with h | h
        · exact Or.inl h
        · exact Or.inr (List.mem_cons_of_mem _ h)

theorem mem_recordsBelow (d : DeadRecs) (v : Nat) (x : Nat × List Bytes) (h : x ∈ recordsBelow d v) : x ∈ d ∧ x.1 < v := by
  simp only [recordsBelow] at h
  have : ∀ l : List (Nat × List Bytes), x ∈ l.foldr insertSorted [] → x ∈ l := by
    intro l
    induction l with
    | nil => intro h; simp at h
    | cons y r ih =>
      intro h
      simp only [List.foldr_cons] at h
      rcases mem_insertSorted y x _ h with h | h
      · exact h ▸ List.mem_cons_self ..
      · exact List.mem_cons_of_mem _ (ih h)
  have hm := this _ h
  simp only [List.mem_filter, decide_eq_true_eq] at hm
  exact hm

end Verif.MptStore
