import Verif.Model.F64
/-! Facts about the binary64 model `Verif/Model/F64.lean` used by Props/C18: comparisons against the constants that
occur in currency.go, and the shape of a rounded result (never NaN, sign kept). -/
namespace Verif.Lemmas.F64
open Verif.F64

/-- `+0` and `2^64` as float constants (the bit patterns the translator emits) -/
abbrev Z : F64 := F64.mk 0x0000000000000000#64
abbrev C64 : F64 := F64.mk 0x43F0000000000000#64

theorem Z_val : Z.val = .fin false 0 (-1074) := by decide
theorem C64_val : C64.val = .fin false (2 ^ 52) 12 := by decide

theorem cmpKey_neg_iff (s : Bool) (m : Nat) (e k : Int) : cmpKey s m e k < 0 ↔ (s = true ∧ m ≠ 0) := by
  unfold cmpKey
  have hp : (0 : Int) < 2 ^ (e - k).toNat := Int.pow_pos (by decide)
  cases s
  · simp only [Bool.false_eq_true, if_false, false_and, iff_false, Int.one_mul, Int.not_lt]
    exact Int.mul_nonneg (Int.natCast_nonneg m) (Int.le_of_lt hp)
  · simp only [if_true, true_and]
    constructor
    · intro h hm; subst hm; simp at h
    · intro hm
      have : (0 : Int) < m := by omega
      have := Int.mul_pos this hp
      rw [Int.mul_assoc]; omega

/-- `x < 0` in IEEE: -∞, or a negative finite non-zero value -/
theorem lt_zero_iff (x : F64) : F64.lt x Z = true ↔
    (match x.val with | .nan => False | .inf s => s = true | .fin s m _ => s = true ∧ m ≠ 0) := by
  unfold F64.lt
  rw [Z_val]
  cases h : x.val with
  | nan => simp
  | inf s => simp
  | fin s m e =>
    simp only [decide_eq_true_eq]
    have : cmpKey false 0 (-1074) (min e (-1074)) = 0 := by simp [cmpKey]
    rw [this, cmpKey_neg_iff]

/-- `x != x` exactly for NaN -/
theorem eq_self_false_iff (x : F64) : F64.eq x x = false ↔ x.val = .nan := by
  unfold F64.eq
  cases h : x.val with
  | nan => simp
  | inf s => simp
  | fin s m e => simp

theorem isNaN_iff (x : F64) : F64.isNaN x = true ↔ x.val = .nan := by
  unfold F64.isNaN
  cases h : x.val <;> simp

theorem isInf_zero_iff (x : F64) : F64.isInf x (0 : Int) = true ↔ ∃ s, x.val = .inf s := by
  unfold F64.isInf
  cases h : x.val with
  | nan => simp
  | inf s => cases s <;> simp
  | fin s m e => simp

theorem clampInf_le (b : Nat) : clampInf b ≤ infMag := by
  unfold clampInf; split <;> omega

theorem magOf_le (n d : Nat) : magOf n d ≤ infMag := by
  unfold magOf
  split
  · decide
  · exact clampInf_le _

theorem infMag_eq : infMag = 2047 * 2 ^ 52 := by decide

/-- decoding of a magnitude below or at ∞ with an explicit sign: never a NaN, sign kept, zero stays zero -/
theorem val_of_mag (s : Bool) (M : Nat) (hle : M ≤ 2047 * 2 ^ 52) :
    (F64.mk (BitVec.ofNat 64 (M + if s then 2 ^ 63 else 0))).val = .inf s ∨
    ∃ m e, (F64.mk (BitVec.ofNat 64 (M + if s then 2 ^ 63 else 0))).val = .fin s m e ∧ (M = 0 → m = 0) := by
  unfold F64.val
  simp only [BitVec.toNat_ofNat]
  cases s
  · simp only [Bool.false_eq_true, if_false, Nat.add_zero]
    have hM : M % 2 ^ 64 = M := Nat.mod_eq_of_lt (by omega)
    rw [hM]
    have hneg : decide (2 ^ 63 ≤ M) = false := by simp; omega
    rw [hneg]
    by_cases hex : M / 2 ^ 52 % 2048 = 2047
    · left
      have : M % 2 ^ 52 = 0 := by omega
      simp [hex, this]
    · right
      simp only [hex, if_false]
      by_cases hz : M / 2 ^ 52 % 2048 = 0
      · simp only [hz, if_true]
        exact ⟨_, _, rfl, fun h0 => by rw [h0]⟩
      · simp only [hz, if_false]
        exact ⟨_, _, rfl, fun h0 => by rw [h0] at hz; simp at hz⟩
  · simp only [if_true]
    have hM : (M + 2 ^ 63) % 2 ^ 64 = M + 2 ^ 63 := Nat.mod_eq_of_lt (by omega)
    rw [hM]
    have hneg : decide (2 ^ 63 ≤ M + 2 ^ 63) = true := by simp
    rw [hneg]
    have hex' : (M + 2 ^ 63) / 2 ^ 52 % 2048 = M / 2 ^ 52 % 2048 := by omega
    have hfr' : (M + 2 ^ 63) % 2 ^ 52 = M % 2 ^ 52 := by omega
    rw [hex', hfr']
    by_cases hex : M / 2 ^ 52 % 2048 = 2047
    · left
      have : M % 2 ^ 52 = 0 := by omega
      simp [hex, this]
    · right
      simp only [hex, if_false]
      by_cases hz : M / 2 ^ 52 % 2048 = 0
      · simp only [hz, if_true]
        exact ⟨_, _, rfl, fun h0 => by rw [h0]⟩
      · simp only [hz, if_false]
        exact ⟨_, _, rfl, fun h0 => by rw [h0] at hz; simp at hz⟩

/-- rounding never produces a NaN and keeps the sign; a zero numerator gives a (signed) zero -/
theorem roundNE_val (s : Bool) (n d : Nat) :
    (roundNE s n d).val = .inf s ∨ ∃ m e, (roundNE s n d).val = .fin s m e ∧ (n = 0 → m = 0) := by
  have hle := magOf_le n d
  rw [infMag_eq] at hle
  have h0 : n = 0 → magOf n d = 0 := by intro h; simp [magOf, h]
  unfold roundNE
  rcases val_of_mag s (magOf n d) hle with h | ⟨m, e, h, hz⟩
  · exact Or.inl h
  · exact Or.inr ⟨m, e, h, fun hn => hz (h0 hn)⟩

theorem roundNE_zero (s : Bool) (d : Nat) : (roundNE s 0 d).val = .fin s 0 (-1074) := by
  have h : magOf 0 d = 0 := by simp [magOf]
  unfold roundNE
  rw [h]
  cases s <;> decide

theorem infF_val (s : Bool) : (infF s).val = .inf s := by cases s <;> decide

theorem nanBits_val : nanBits.val = .nan := by decide

/-- a value is "not below zero" when `x < 0` is false: NaN, +∞, +finite, ±0 -/
theorem not_lt_zero_of_val_inf_false (x : F64) (h : x.val = .inf false) : F64.lt x Z = false := by
  cases hl : F64.lt x Z
  · rfl
  · rw [lt_zero_iff, h] at hl; simp at hl

theorem not_lt_zero_of_val_nan (x : F64) (h : x.val = .nan) : F64.lt x Z = false := by
  cases hl : F64.lt x Z
  · rfl
  · rw [lt_zero_iff, h] at hl; simp at hl

theorem not_lt_zero_of_val_fin (x : F64) (s : Bool) (m : Nat) (e : Int) (h : x.val = .fin s m e)
    (hs : s = false ∨ m = 0) : F64.lt x Z = false := by
  cases hl : F64.lt x Z
  · rfl
  · rw [lt_zero_iff, h] at hl
    rcases hs with hs | hs
    · rw [hs] at hl; simp at hl
    · exact absurd hs hl.2

/-- `float64(c)` is never below zero -/
theorem ofUInt64_not_lt_zero (c : BitVec 64) : F64.lt (F64.ofUInt64 c) Z = false := by
  unfold F64.ofUInt64
  rcases roundNE_val false c.toNat 1 with h | ⟨m, e, h, _⟩
  · exact not_lt_zero_of_val_inf_false _ h
  · exact not_lt_zero_of_val_fin _ _ _ _ h (Or.inl rfl)

theorem frac_fst_zero (e : Int) : (frac 0 e).1 = 0 := by
  unfold frac; split <;> simp

/-- IEEE: the product of two values that are not below zero is not below zero -/
theorem mul_not_lt_zero (x y : F64) (hx : F64.lt x Z = false) (hy : F64.lt y Z = false) :
    F64.lt (F64.mul x y) Z = false := by
  have hx' : ¬ (F64.lt x Z = true) := by simp [hx]
  have hy' : ¬ (F64.lt y Z = true) := by simp [hy]
  rw [lt_zero_iff] at hx' hy'
  unfold F64.mul
  cases hxv : x.val with
  | nan => exact not_lt_zero_of_val_nan _ nanBits_val
  | inf s =>
    rw [hxv] at hx'
    have hs : s = false := by cases s <;> simp_all
    subst hs
    cases hyv : y.val with
    | nan => exact not_lt_zero_of_val_nan _ nanBits_val
    | inf t =>
      rw [hyv] at hy'
      have ht : t = false := by cases t <;> simp_all
      subst ht
      exact not_lt_zero_of_val_inf_false _ (infF_val _)
    | fin t m e =>
      rw [hyv] at hy'
      simp only []
      split
      · exact not_lt_zero_of_val_nan _ nanBits_val
      · have ht : t = false := by cases t <;> simp_all
        subst ht
        exact not_lt_zero_of_val_inf_false _ (infF_val _)
  | fin s m e =>
    rw [hxv] at hx'
    cases hyv : y.val with
    | nan => exact not_lt_zero_of_val_nan _ nanBits_val
    | inf t =>
      rw [hyv] at hy'
      have ht : t = false := by cases t <;> simp_all
      subst ht
      simp only []
      split
      · exact not_lt_zero_of_val_nan _ nanBits_val
      · rename_i hm
        have hs : s = false := by cases s <;> simp_all
        subst hs
        exact not_lt_zero_of_val_inf_false _ (infF_val _)
    | fin t m' e' =>
      rw [hyv] at hy'
      simp only []
      by_cases hz : m * m' = 0
      · rw [hz]
        rcases roundNE_val (s != t) (frac 0 (e + e')).1 (frac 0 (e + e')).2 with h | ⟨mm, ee, h, hmz⟩
        · -- a zero numerator never rounds to ∞; derive it from the zero clause of the finite case
          exfalso
          have : (roundNE (s != t) (frac 0 (e + e')).1 (frac 0 (e + e')).2).val = .fin (s != t) 0 (-1074) := by
            rw [frac_fst_zero]; exact roundNE_zero _ _
          rw [this] at h; cases h
        · exact not_lt_zero_of_val_fin _ _ _ _ h (Or.inr (hmz (frac_fst_zero _)))
      · have hm : m ≠ 0 := fun h => hz (by simp [h])
        have hm' : m' ≠ 0 := fun h => hz (by simp [h])
        have hs : s = false := by cases s <;> simp_all
        have ht : t = false := by cases t <;> simp_all
        subst hs; subst ht
        rcases roundNE_val (false != false) (frac (m * m') (e + e')).1 (frac (m * m') (e + e')).2 with h | ⟨mm, ee, h, _⟩
        · exact not_lt_zero_of_val_inf_false _ h
        · exact not_lt_zero_of_val_fin _ _ _ _ h (Or.inl rfl)

theorem int_two_pow (n : Nat) : (2 : Int) ^ n = ((2 ^ n : Nat) : Int) := by simp

theorem key_le_iff (t : Bool) (m : Nat) (e : Int) :
    cmpKey false (2 ^ 52) 12 (min 12 e) ≤ cmpKey t m e (min 12 e) ↔ (t = false ∧ 2 ^ 64 ≤ truncNat m e) := by
  cases t
  · simp only [true_and]
    unfold cmpKey truncNat
    simp only [Bool.false_eq_true, if_false, Int.one_mul, int_two_pow]
    rw [← Int.natCast_mul, ← Int.natCast_mul, Int.ofNat_le]
    by_cases h12 : 12 ≤ e
    · obtain ⟨n, rfl⟩ : ∃ n : Nat, e = (n : Int) + 12 := ⟨(e - 12).toNat, by omega⟩
      have hk : min (12 : Int) (↑n + 12) = 12 := by omega
      have h1 : ((12 : Int) - 12).toNat = 0 := by omega
      have h2 : ((n : Int) + 12 - 12).toNat = n := by omega
      have h3 : ((n : Int) + 12).toNat = n + 12 := by omega
      have h4 : (0 : Int) ≤ ↑n + 12 := by omega
      rw [hk, h1, h2, if_pos h4, h3, Nat.pow_add, ← Nat.mul_assoc]
      generalize m * 2 ^ n = X
      omega
    · have hk : min (12 : Int) e = e := by omega
      have h1 : (e - e).toNat = 0 := by omega
      rw [hk, h1, Nat.pow_zero, Nat.mul_one]
      by_cases h0 : 0 ≤ e
      · obtain ⟨j, rfl⟩ : ∃ j : Nat, e = (j : Int) := ⟨e.toNat, by omega⟩
        have hj : j < 12 := by omega
        have h2 : ((12 : Int) - ↑j).toNat = 12 - j := by omega
        have h3 : ((j : Int)).toNat = j := by omega
        rw [if_pos h0, h2, h3]
        have hAB : 2 ^ (12 - j) * 2 ^ j = 4096 := by
          rw [← Nat.pow_add]; have : 12 - j + j = 12 := by omega
          rw [this]
        have hB : 0 < 2 ^ j := Nat.pow_pos (by decide)
        generalize 2 ^ (12 - j) = A at hAB ⊢
        generalize 2 ^ j = B at hAB hB ⊢
        have h64 : 2 ^ 52 * A * B = 2 ^ 64 := by rw [Nat.mul_assoc, hAB]
        constructor
        · intro h
          have := Nat.mul_le_mul_right B h
          omega
        · intro h
          apply Nat.le_of_not_lt
          intro hlt
          have := Nat.mul_lt_mul_of_pos_right hlt hB
          omega
      · obtain ⟨j, rfl⟩ : ∃ j : Nat, e = -(j : Int) := ⟨(-e).toNat, by omega⟩
        have h2 : ((12 : Int) - -↑j).toNat = 12 + j := by omega
        have h3 : (- -(j : Int)).toNat = j := by omega
        rw [if_neg h0, h2, h3, Nat.le_div_iff_mul_le (Nat.pow_pos (by decide)), Nat.pow_add, ← Nat.mul_assoc]
  · simp only [Bool.true_eq_false, false_and, iff_false, Int.not_le]
    have h1 : cmpKey true m e (min 12 e) ≤ 0 := by
      apply Int.not_lt.mp
      intro h
      unfold cmpKey at h
      simp only [if_true] at h
      have hp : (0 : Int) ≤ 2 ^ (e - min 12 e).toNat := Int.le_of_lt (Int.pow_pos (by decide))
      have := Int.mul_nonneg (Int.natCast_nonneg m) hp
      rw [Int.mul_assoc] at h
      omega
    have h2 : 0 < cmpKey false (2 ^ 52) 12 (min 12 e) := by
      unfold cmpKey
      simp only [Bool.false_eq_true, if_false, Int.one_mul]
      exact Int.mul_pos (by decide) (Int.pow_pos (by decide))
    omega

/-- `2^64 ≤ x` in IEEE: +∞, or a non-negative finite value whose integer part is at least `2^64` -/
theorem le_C64_iff (x : F64) : F64.le C64 x = true ↔
    (match x.val with | .nan => False | .inf s => s = false | .fin s m e => s = false ∧ 2 ^ 64 ≤ truncNat m e) := by
  unfold F64.le F64.lt F64.eq
  rw [C64_val]
  cases h : x.val with
  | nan => simp
  | inf s => simp
  | fin s m e =>
    simp only [Bool.or_eq_true, decide_eq_true_eq]
    rw [← key_le_iff]
    omega

/-- in range, the amd64 conversion is plain truncation -/
theorem toUInt64_of_fin (x : F64) (s : Bool) (m : Nat) (e : Int) (h : x.val = .fin s m e)
    (hs : ¬ (s = true ∧ m ≠ 0)) (hr : truncNat m e < 2 ^ 64) :
    F64.toUInt64 x = BitVec.ofNat 64 (truncNat m e) := by
  unfold F64.toUInt64
  rw [h]
  simp only []
  cases s
  · simp [hr]
  · have hm : m = 0 := by
      apply Classical.byContradiction
      intro hne; exact hs ⟨rfl, hne⟩
    subst hm
    have : truncNat 0 e = 0 := by unfold truncNat; split <;> simp
    rw [this]
    decide

/-- below the bits of ∞ the decoded value is finite -/
theorem roundNE_val_fin (s : Bool) (n d : Nat) (h : magOf n d < infMag) :
    ∃ m e, (roundNE s n d).val = .fin s m e := by
  rcases roundNE_val s n d with hv | ⟨m, e, hv, _⟩
  · exfalso
    rw [infMag_eq] at h
    unfold roundNE F64.val at hv
    simp only [BitVec.toNat_ofNat] at hv
    generalize magOf n d = M at h hv
    cases s
    · simp only [Bool.false_eq_true, if_false, Nat.add_zero] at hv
      have hM : M % 2 ^ 64 = M := Nat.mod_eq_of_lt (by omega)
      rw [hM] at hv
      have hex : ¬ (M / 2 ^ 52 % 2048 = 2047) := by omega
      simp only [hex, if_false] at hv
      split at hv <;> cases hv
    · simp only [if_true] at hv
      have hM : (M + 2 ^ 63) % 2 ^ 64 = M + 2 ^ 63 := Nat.mod_eq_of_lt (by omega)
      rw [hM] at hv
      have hex : ¬ ((M + 2 ^ 63) / 2 ^ 52 % 2048 = 2047) := by omega
      simp only [hex, if_false] at hv
      split at hv <;> cases hv
  · exact ⟨m, e, hv⟩

theorem truncNat_zero (e : Int) : truncNat 0 e = 0 := by unfold truncNat; split <;> simp

/-- `math.IsInf(x, k)` by the decoded value -/
theorem isInf_iff (x : F64) (k : Int) : F64.isInf x k = true ↔
    (match x.val with | .inf neg => (0 ≤ k ∧ neg = false) ∨ (k ≤ 0 ∧ neg = true) | _ => False) := by
  unfold F64.isInf
  cases x.val <;> simp

theorem ofNat_two64 : BitVec.ofNat 64 (2 ^ 64 - 0) = BitVec.ofNat 64 0 := by decide

/-! ## shape-independent bridge tactic for float guards

After a case distinction on the decoded value (`hv : x.val = …`, sign bit split), `f64_norm hv` turns every guard
that occurs in float code (`x < 0`, `x != x`, `math.IsNaN`, `math.IsInf(x, ±1/0)`, `2^64 ≤ x`) and the conversion
`uint64(x)` into statements about `m`, `e`; which guards are there and in which order does not matter. -/

macro "f64_norm" hv:ident : tactic =>
  `(tactic| simp only [lt_zero_iff, eq_self_false_iff, isNaN_iff, isInf_iff, le_C64_iff, F64.toUInt64, $hv:ident,
      reduceCtorEq, Bool.true_eq_false, Bool.false_eq_true, true_and, and_true, false_and, and_false, or_false, false_or,
      Int.reduceLE, Int.reduceNeg, Int.reduceLT, not_true_eq_false, not_false_eq_true, if_true, if_false, ne_eq,
      Bool.not_eq_true] at *)

macro "f64_leaf" : tactic =>
  `(tactic| first
    | rfl
    | (exfalso; simp_all [truncNat_zero, ofNat_two64]; done)
    | (exfalso; simp_all [truncNat_zero, ofNat_two64]; omega)
    | (simp_all [truncNat_zero, ofNat_two64]; done)
    | (simp_all [truncNat_zero, ofNat_two64]; omega))

/-- case on the value of the float `x`, normalise the guards, split what is left, close the leaves -/
macro "bridge_f64" x:ident : tactic =>
  `(tactic| (
    cases hv : F64.val $x with
    | nan => (f64_norm hv)
    | inf s => (cases s <;> f64_norm hv)
    | fin s m e =>
      (cases s <;> f64_norm hv) <;> (repeat' split) <;> f64_leaf))

end Verif.Lemmas.F64
