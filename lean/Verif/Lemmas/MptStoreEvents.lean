/-
The event-emitting `insertE` / `deleteE` compute the same tree as `insert` / `delete` of `Verif.Model.Mpt`
(the structural trie of C01/C02).
-/
import Verif.Model.MptStore
namespace Verif.MptStore
open Verif.Mpt

theorem insertE_fst (v : Nat) (b : Bytes) (t : Node) : ∀ (pre p : List Nib), (insertE v b t pre p).1 = insert v b t p := by
  induction t with
  | empty => intro pre p; simp [insertE, Verif.Mpt.insert]
  | leaf o lp lv =>
    intro pre p
    simp only [insertE, Verif.Mpt.insert]
    split <;> simp_all
  | full o ch val ih =>
    intro pre p
    cases p with
    | nil => simp [insertE, Verif.Mpt.insert]
    | cons x pr => simp [insertE, Verif.Mpt.insert, ih x]
  | ext o ep c ih =>
    intro pre p
    simp only [insertE, Verif.Mpt.insert]
    split <;> simp_all

theorem liftE_fst (v : Nat) (old : Ref) (pre : List Nib) (i : Nib) (n : Node) : (liftE v old pre i n).1 = lift v i n := by
  cases n <;> simp [liftE, lift]

theorem liftFirstE_fst (v : Nat) (old : Ref) (pre : List Nib) (ch : Nib → Node) :
    (liftFirstE v old pre ch).1 = liftFirst v ch := by
  cases h : firstCh ch <;> simp [liftFirstE, liftFirst, h, liftE_fst]

theorem deleteE_fst (v : Nat) (t : Node) : ∀ (pre p : List Nib), (deleteE v t pre p).1 = delete v t p := by
  induction t with
  | empty => intro pre p; simp [deleteE, Verif.Mpt.delete]
  | leaf o lp lv =>
    intro pre p
    simp only [deleteE, Verif.Mpt.delete]
    split <;> simp
  | full o ch val ih =>
    intro pre p
    cases p with
    | nil =>
      simp only [deleteE, Verif.Mpt.delete]
      cases val with
      | none => simp
      | some bv =>
        simp only
        split <;> simp [liftFirstE_fst]
    | cons x pr =>
      simp only [deleteE, Verif.Mpt.delete]
      have h := ih x (pre ++ [x]) pr
      revert h
      cases hE : deleteE v (ch x) (pre ++ [x]) pr with
      | mk r es =>
        intro h
        simp only at h
        rw [← h]
        cases r with
        | notPresent => simp
        | panic => simp
        | node c' => simp
        | removed =>
          simp only
          split
          · cases val <;> simp
          · split <;> simp [liftFirstE_fst]
  | ext o ep c ih =>
    intro pre p
    simp only [deleteE, Verif.Mpt.delete]
    rcases hs : splitCommon p ep with ⟨cm, p', er⟩
    cases er with
    | cons y er' => simp
    | nil =>
      simp only
      have h := ih (pre ++ ep) p'
      revert h
      cases hE : deleteE v c (pre ++ ep) p' with
      | mk r es =>
        intro h
        simp only at h
        rw [← h]
        cases r with
        | notPresent => simp
        | panic => simp
        | removed => simp
        | node n => cases n <;> simp

end Verif.MptStore

namespace Verif.MptStore
open Verif.Mpt

/-- every node handed to `insertNode` as NEW carries the trie version as origin (`newNode.SetOrigin(mpt.Version)`) -/
def NewOrigin (v : Nat) : Event → Prop
  | .put _ n => origin n.t = v
  | .del _ => True

theorem wrapE_new_origin (v : Nat) (old : Ref) (pre c : List Nib) (n : Node) (hn : origin n = v) :
    ∀ e ∈ wrapE v old pre c n, NewOrigin v e := by
  intro e he
  cases c with
  | nil => simp [wrapE] at he; subst he; simpa [NewOrigin] using hn
  | cons x c =>
    simp [wrapE] at he
    rcases he with he | he
    · subst he; simpa [NewOrigin] using hn
    · subst he; simp [NewOrigin, origin]

theorem extRestE_new_origin (v : Nat) (pos er : List Nib) (c : Node) : ∀ e ∈ extRestE v pos er c, NewOrigin v e := by
  intro e he
  cases er with
  | nil => simp [extRestE] at he
  | cons x er => simp [extRestE] at he; subst he; simp [NewOrigin, origin]

theorem insertE_new_origin (v : Nat) (b : Bytes) (t : Node) :
    ∀ (pre p : List Nib), ∀ e ∈ (insertE v b t pre p).2, NewOrigin v e := by
  induction t with
  | empty => intro pre p e he; simp [insertE] at he; subst he; simp [NewOrigin, origin]
  | leaf o lp lv =>
    intro pre p e he
    simp only [insertE] at he
    split at he
    · simp at he; subst he; simp [NewOrigin, origin]
    · simp only [List.mem_cons] at he
      rcases he with he | he
      · subst he; simp [NewOrigin, origin]
      · exact wrapE_new_origin v _ _ _ _ (by simp [origin]) e he
    · simp only [List.mem_cons] at he
      rcases he with he | he
      · subst he; simp [NewOrigin, origin]
      · exact wrapE_new_origin v _ _ _ _ (by simp [origin]) e he
    · simp only [List.mem_cons] at he
      rcases he with he | he | he
      · subst he; simp [NewOrigin, origin]
      · subst he; simp [NewOrigin, origin]
      · exact wrapE_new_origin v _ _ _ _ (by simp [origin]) e he
  | full o ch val ih =>
    intro pre p e he
    cases p with
    | nil => simp [insertE] at he; subst he; simp [NewOrigin, origin]
    | cons x pr =>
      simp only [insertE, List.mem_append, List.mem_singleton] at he
      rcases he with he | he
      · exact ih x _ _ e he
      · subst he; simp [NewOrigin, origin]
  | ext o ep c ih =>
    intro pre p e he
    simp only [insertE] at he
    split at he
    · simp only [List.mem_append, List.mem_singleton] at he
      rcases he with he | he
      · exact ih _ _ e he
      · subst he; simp [NewOrigin, origin]
    · simp only [List.mem_append] at he
      rcases he with he | he
      · exact extRestE_new_origin v _ _ _ e he
      · exact wrapE_new_origin v _ _ _ _ (by simp [origin]) e he
    · simp only [List.mem_cons, List.mem_append] at he
      rcases he with he | he | he
      · subst he; simp [NewOrigin, origin]
      · exact extRestE_new_origin v _ _ _ e he
      · exact wrapE_new_origin v _ _ _ _ (by simp [origin]) e he

theorem liftE_new_origin (v : Nat) (old : Ref) (pre : List Nib) (i : Nib) (n : Node) :
    ∀ e ∈ (liftE v old pre i n).2, NewOrigin v e := by
  intro e he
  cases n with
  | empty => simp [liftE] at he
  | leaf o p lv => simp [liftE] at he; rcases he with he | he <;> subst he <;> simp [NewOrigin, origin]
  | ext o p c => simp [liftE] at he; rcases he with he | he <;> subst he <;> simp [NewOrigin, origin]
  | full o ch val => simp [liftE] at he; subst he; simp [NewOrigin, origin]

theorem liftFirstE_new_origin (v : Nat) (old : Ref) (pre : List Nib) (ch : Nib → Node) :
    ∀ e ∈ (liftFirstE v old pre ch).2, NewOrigin v e := by
  intro e he
  simp only [liftFirstE] at he
  split at he
  · exact liftE_new_origin v _ _ _ _ e he
  · simp at he

theorem deleteE_new_origin (v : Nat) (t : Node) :
    ∀ (pre p : List Nib), ∀ e ∈ (deleteE v t pre p).2, NewOrigin v e := by
  induction t with
  | empty => intro pre p e he; simp [deleteE] at he
  | leaf o lp lv =>
    intro pre p e he
    simp only [deleteE] at he
    split at he
    · simp at he; subst he; simp [NewOrigin]
    · simp at he
  | full o ch val ih =>
    intro pre p e he
    cases p with
    | nil =>
      simp only [deleteE] at he
      cases val with
      | none => simp at he
      | some bv =>
        simp only at he
        split at he
        · exact liftFirstE_new_origin v _ _ _ e he
        · simp at he; subst he; simp [NewOrigin, origin]
    | cons x pr =>
      simp only [deleteE] at he
      have hrec := ih x (pre ++ [x]) pr
      cases hE : deleteE v (ch x) (pre ++ [x]) pr with
      | mk r es =>
        rw [hE] at he hrec
        simp only at hrec
        cases r with
        | notPresent => simp at he
        | panic => simp at he
        | node c' =>
          simp only [List.mem_append, List.mem_singleton] at he
          rcases he with he | he
          · exact hrec e he
          · subst he; simp [NewOrigin, origin]
        | removed =>
          simp only at he
          split at he
          · cases val with
            | none => simp only at he; exact hrec e he
            | some bv =>
              simp only [List.mem_append, List.mem_singleton] at he
              rcases he with he | he
              · exact hrec e he
              · subst he; simp [NewOrigin, origin]
          · split at he
            · simp only [List.mem_append] at he
              rcases he with he | he
              · exact hrec e he
              · exact liftFirstE_new_origin v _ _ _ e he
            · simp only [List.mem_append, List.mem_singleton] at he
              rcases he with he | he
              · exact hrec e he
              · subst he; simp [NewOrigin, origin]
  | ext o ep c ih =>
    intro pre p e he
    simp only [deleteE] at he
    rcases hs : splitCommon p ep with ⟨cm, p', er⟩
    rw [hs] at he
    cases er with
    | cons y er' => simp at he
    | nil =>
      simp only at he
      have hrec := ih (pre ++ ep) p'
      cases hE : deleteE v c (pre ++ ep) p' with
      | mk r es =>
        rw [hE] at he hrec
        simp only at hrec
        cases r with
        | notPresent => simp at he
        | panic => simp at he
        | removed => simp at he
        | node n =>
          cases n with
          | empty => simp at he
          | leaf o2 lp lv =>
            simp only [List.mem_append, List.mem_cons] at he
            rcases he with he | he | he
            · exact hrec e he
            · subst he; simp [NewOrigin]
            · rcases he with he | he
              · subst he; simp [NewOrigin, origin]
              · cases he
          | ext o2 p2 c2 =>
            simp only [List.mem_append, List.mem_cons] at he
            rcases he with he | he | he
            · exact hrec e he
            · subst he; simp [NewOrigin]
            · rcases he with he | he
              · subst he; simp [NewOrigin, origin]
              · cases he
          | full o2 ch val =>
            simp only [List.mem_append, List.mem_singleton] at he
            rcases he with he | he
            · exact hrec e he
            · subst he; simp [NewOrigin, origin]

end Verif.MptStore
