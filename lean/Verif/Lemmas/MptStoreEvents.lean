/-
The event-emitting `insertE` / `deleteE` compute the same tree as `insert` / `delete` of `Verif.Model.Mpt`
(the structural trie of C01/C02).
-/
import Verif.Model.MptStore
namespace Verif.MptStore
open Verif.Mpt

theorem insertE_fst (v : Nat) (b : Bytes) (t : Node) : ∀ (pre p : List Nib), (insertE v b t pre p).1 = insert v b t p := by
  induction t with
  | empty => intro pre p; simp [insertE, Verif.Mpt.insert]
  | leaf o lp lv =>
    intro pre p
    simp only [insertE, Verif.Mpt.insert]
    split <;> simp_all
  | full o ch val ih =>
    intro pre p
    cases p with
    | nil => simp [insertE, Verif.Mpt.insert]
    | cons x pr => simp [insertE, Verif.Mpt.insert, ih x]
  | ext o ep c ih =>
    intro pre p
    simp only [insertE, Verif.Mpt.insert]
    split <;> simp_all

theorem liftE_fst (v : Nat) (old : Ref) (pre : List Nib) (i : Nib) (n : Node) : (liftE v old pre i n).1 = lift v i n := by
  cases n <;> simp [liftE, lift]

theorem liftFirstE_fst (v : Nat) (old : Ref) (pre : List Nib) (ch : Nib → Node) :
    (liftFirstE v old pre ch).1 = liftFirst v ch := by
  cases h : firstCh ch <;> simp [liftFirstE, liftFirst, h, liftE_fst]

theorem deleteE_fst (v : Nat) (t : Node) : ∀ (pre p : List Nib), (deleteE v t pre p).1 = delete v t p := by
  induction t with
  | empty => intro pre p; simp [deleteE, Verif.Mpt.delete]
  | leaf o lp lv =>
    intro pre p
    simp only [deleteE, Verif.Mpt.delete]
    split <;> simp
  | full o ch val ih =>
    intro pre p
    cases p with
    | nil =>
      simp only [deleteE, Verif.Mpt.delete]
      cases val with
      | none => simp
      | some bv =>
        simp only
        split <;> simp [liftFirstE_fst]
    | cons x pr =>
      simp only [deleteE, Verif.Mpt.delete]
      have h := ih x (pre ++ [x]) pr
      revert h
      cases hE : deleteE v (ch x) (pre ++ [x]) pr with
      | mk r es =>
        intro h
        simp only at h
        rw [← h]
        cases r with
        | notPresent => simp
        | panic => simp
        | node c' => simp
        | removed =>
          simp only
          split
          · cases val <;> simp
          · split <;> simp [liftFirstE_fst]
  | ext o ep c ih =>
    intro pre p
    simp only [deleteE, Verif.Mpt.delete]
    rcases hs : splitCommon p ep with ⟨cm, p', er⟩
    cases er with
    | cons y er' => simp
    | nil =>
      simp only
      have h := ih (pre ++ ep) p'
      revert h
      cases hE : deleteE v c (pre ++ ep) p' with
      | mk r es =>
        intro h
        simp only at h
        rw [← h]
        cases r with
        | notPresent => simp
        | panic => simp
        | removed => simp
        | node n => cases n <;> simp

end Verif.MptStore
