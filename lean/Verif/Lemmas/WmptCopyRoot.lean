/-
C13 with a checkpoint COPY (`CopyRoot`) and with one GC pass (`DeleteNodes`) between the commit and the rollback.

  * `rep_copyRoot`                      : `CopyRoot(lvl, collapse)` of a clean, proper node that represents `t` is a clean,
                                          proper node that represents `t`, with the same weight, cached hash and nil-ness;
  * `rollbackTrie_copy_restores`        : `RollbackTrie(cp)` for a checkpoint node `cp` (any node that represents the
                                          checkpoint tree, e.g. a `CopyRoot` copy) after a commit whose batch was applied;
  * `rollbackTrie_copyRoot_restores`    : the two composed;
  * `rollback_after_gc_restores`, `rollbackTrie_after_gc_restores`, `rollbackTrie_copy_after_gc_restores` :
                                          the same with one `DeleteNodes()` in between, under the GC-safety condition
                                          "nothing staged for deletion is a node of the checkpoint".
Core Lean only.
-/
import Verif.Lemmas.WmptRollback
import Verif.Lemmas.WmptDirtyUp
namespace Verif.Wmpt

/-! ### 1. `CopyRoot` on a represented clean node -/

/-- the composable form: two more facts are needed to rebuild a branch on top of copied children -/
theorem rep_copyRoot_aux {H : Bytes → Bytes} {P : PT → Prop} (collapse : Int) {n : WN} {t : PT} (h : Rep H P n t) :
    AllClean n → Proper n → ∀ lvl : Nat,
      Rep H P (copyRoot H collapse lvl n) t ∧ AllClean (copyRoot H collapse lvl n) ∧
      Proper (copyRoot H collapse lvl n) ∧ (copyRoot H collapse lvl n).weight = n.weight ∧
      (copyRoot H collapse lvl n).hashField H = n.hashField H ∧
      (copyRoot H collapse lvl n).isNil = n.isNil ∧
      (n ≠ .empty → copyRoot H collapse lvl n ≠ .empty) ∧
      (∀ hh ww, copyRoot H collapse lvl n = .hashRef hh ww → n = .hashRef hh ww ∨ t.isShort = false) := by
  induction h with
  | nil => intro _ _ _; exact ⟨Rep.nil, trivial, trivial, rfl, rfl, rfl, fun h => h, fun _ _ e => .inl e⟩
  | empty => intro _ _ _; exact ⟨Rep.empty, trivial, trivial, rfl, rfl, rfl, fun h => h, fun _ _ e => .inl e⟩
  | ref t hn hp =>
    intro _ _ _
    exact ⟨Rep.ref t hn hp, trivial, trivial, rfl, rfl, rfl, fun h => h, fun _ _ e => .inl e⟩
  | value h v w d hc =>
    intro hac _ _
    have hd : d = false := hac
    subst hd
    exact ⟨Rep.value h v w false hc, rfl, trivial, rfl, rfl, rfl, fun _ => by simp [copyRoot],
      fun _ _ e => by simp [copyRoot] at e⟩
  | short k h c d tc tc' hr hc ih =>
    intro hac hp lvl
    obtain ⟨hd, hacc⟩ := hac
    obtain ⟨hnil, hemp, _, hpc⟩ := hp
    subst hd
    have hne : tc'.isNone = false := hr.isNone_false hnil hemp
    by_cases hl : (lvl : Int) = collapse
    · have e : copyRoot H collapse lvl (.short k h c false tc) =
          .short k h (.hashRef (c.hashField H) c.weight) false false := by
        simp [copyRoot, hl]
      rw [e]
      have h1 := hr.hashField_of_clean hacc.dirty hnil
      have h2 := hr.weight
      have h3 := hr.P_of_clean hacc.dirty hne
      refine ⟨?_, ⟨rfl, trivial⟩, ?_, rfl, rfl, rfl, fun _ => by simp, fun _ _ e => by simp at e⟩
      · rw [h1, h2]
        exact Rep.short k h _ false false tc' (Rep.ref tc' hne h3) hc
      · simp [Proper, WN.isNil, WN.dirty]
    · have e : copyRoot H collapse lvl (.short k h c false tc) =
          .short k h (copyRoot H collapse (lvl + 1) c) false false := by
        simp [copyRoot, hl]
      rw [e]
      obtain ⟨i1, i2, i3, i4, _, i6, i7, _⟩ := ih hacc hpc (lvl + 1)
      refine ⟨Rep.short k h _ false false tc' i1 hc, ⟨rfl, i2⟩, ?_, by simpa [WN.weight] using i4, rfl, rfl,
        fun _ => by simp, fun _ _ e => by simp at e⟩
      exact ⟨by rw [i6]; exact hnil, i7 hemp, fun _ => i2.dirty, i3⟩
  | routing h ch w d tc f hr href hw hc ih =>
    intro hac hp lvl
    obtain ⟨hd, hacc⟩ := hac
    subst hd
    by_cases hl : (lvl : Int) = collapse
    · have e : copyRoot H collapse lvl (.routing h ch w false tc) = .hashRef h w := by
        simp [copyRoot, hl]
      rw [e]
      refine ⟨?_, trivial, trivial, rfl, rfl, rfl, fun _ => by simp, fun _ _ _ => .inr rfl⟩
      rw [(hc rfl).1, hw]
      exact Rep.ref (.branch f) rfl (hc rfl).2
    · have e : copyRoot H collapse lvl (.routing h ch w false tc) =
          .routing h (fun i => copyRoot H collapse (lvl + 1) (ch i)) w false false := by
        simp [copyRoot, hl, ofList_map_allNib']
      rw [e]
      have ih' := fun i => ih i (hacc i) (hp i).2 (lvl + 1)
      refine ⟨?_, ⟨rfl, fun i => (ih' i).2.1⟩, fun i => ⟨(ih' i).2.2.2.2.2.2.1 (hp i).1, (ih' i).2.2.1⟩, rfl, rfl, rfl,
        fun _ => by simp, fun _ _ e => by simp at e⟩
      refine Rep.routing h _ w false false f (fun i => (ih' i).1) (fun i hh ww hi => ?_) hw hc
      rcases (ih' i).2.2.2.2.2.2.2 hh ww hi with e' | e'
      · exact href i hh ww e'
      · exact e'

/-- GOAL 1. `CopyRoot(lvl, collapse)` of a clean (committed) node: the copy represents the same spec tree — the
    references it creates at the collapse level are legitimate, because a clean node caches its true hash and has `P`
    for its whole subtree —, is clean and proper, and has the same weight, cached hash and nil-ness. -/
theorem rep_copyRoot {H : Bytes → Bytes} {P : PT → Prop} {n : WN} {t : PT} (h : Rep H P n t) (hac : AllClean n)
    (hp : Proper n) (collapse : Int) (lvl : Nat) :
    Rep H P (copyRoot H collapse lvl n) t ∧ AllClean (copyRoot H collapse lvl n) ∧
      Proper (copyRoot H collapse lvl n) ∧ (copyRoot H collapse lvl n).weight = n.weight ∧
      (copyRoot H collapse lvl n).hashField H = n.hashField H ∧
      ((copyRoot H collapse lvl n).isNil = n.isNil) := by
  obtain ⟨r1, r2, r3, r4, r5, r6, _⟩ := rep_copyRoot_aux collapse h hac hp lvl
  exact ⟨r1, r2, r3, r4, r5, r6⟩

/-! ### 2. `RollbackTrie(cp)` for a checkpoint node -/

/-- every subtree of a stored tree is stored -/
theorem StoredAll.sub {H : Bytes → Bytes} {s : Store} {t x : PT} (h : StoredAll H s t) (hx : PT.Sub x t) :
    StoredAll H s x := by
  induction t with
  | none => simp only [PT.Sub] at hx; subst hx; trivial
  | value v w => simp only [PT.Sub] at hx; subst hx; exact h
  | short k c ih =>
    rcases hx with hx | hx
    · subst hx; exact h
    · exact ih h.2 hx
  | branch ch ih =>
    rcases hx with hx | ⟨i, hx⟩
    · subst hx; exact h
    · exact ih i (h.2 i) hx

/-- a node that represents a stored tree (whatever `P` it was built with) represents it over that storage -/
theorem Rep.toStore {H : Bytes → Bytes} {P : PT → Prop} {n : WN} {t : PT} {s : Store} (h : Rep H P n t)
    (hs : StoredAll H s t) : RepS H s n t :=
  h.mono (fun _ hx _ => hs.sub hx)

/-- deleting keys none of which is the hash of a node of `t0` keeps `t0` stored -/
theorem storedAll_apply_dels {H : Bytes → Bytes} {s : Store} {t0 : PT} (ks : List Bytes)
    (hk : ∀ x, PT.Sub x t0 → x.isNone = false → PT.hash H x ∉ ks) (hs : StoredAll H s t0) :
    StoredAll H (s.apply (ks.map StoreOp.del)) t0 := by
  refine StoredAll.of_sub ?_ hs
  intro x hx hn hg
  rw [get_apply_dels _ _ _ (hk x hx hn)]
  exact hg

/-- `RollbackTrie(cp)` on any trie state `g` in whose storage the checkpoint `t0` is stored and whose `created` list
    contains no node of the checkpoint -/
theorem rollbackTrie_core (H : Bytes → Bytes) {P : PT → Prop} (g : WT) (t0 : PT) (cp : WN) (hw0 : 0 < t0.weight)
    (hcp : Rep H P cp t0) (hs : StoredAll H g.store t0)
    (hfresh : ∀ x, PT.Sub x t0 → x.isNone = false → PT.hash H x ∉ g.created) :
    let r := (rollbackTrie H g cp).1
    StoredAll H r.store t0 ∧
      ((cp.hashField H = g.root.hashField H ∧ r = g) ∨
       (r.root = cp ∧ RepS H r.store r.root t0 ∧ (∀ k ∈ g.created, r.store.get k = none) ∧
         r.created = [] ∧ r.tempDeleted = [] ∧ r.pending = [] ∧ r.deleted = [])) := by
  intro r
  have hw : cp.weight = t0.weight := hcp.weight
  have htoE : (cp.isNil || decide (cp.weight = 0)) = false := by
    have h1 : cp.weight ≠ 0 := by omega
    have h2 : cp.isNil = false := by
      cases cp <;> simp_all [WN.isNil, WN.weight]
    simp [h1, h2]
  by_cases heq : cp.hashField H = g.root.hashField H
  · have hr : r = g := by
      simp only [r, rollbackTrie, htoE, heq, Bool.not_false, Bool.true_and, decide_true, if_true]
    rw [hr]
    exact ⟨hs, .inl ⟨heq, rfl⟩⟩
  · have hstore : r.store = g.store.apply (g.created.map StoreOp.del) := by
      simp only [r, rollbackTrie, htoE, heq, Bool.not_false, Bool.true_and, decide_false, Bool.false_eq_true, if_false]
    have hroot : r.root = cp := by
      simp only [r, rollbackTrie, htoE, heq, Bool.not_false, Bool.true_and, decide_false, Bool.false_eq_true, if_false]
    have hq : r.created = [] ∧ r.tempDeleted = [] ∧ r.pending = [] ∧ r.deleted = [] := by
      simp only [r, rollbackTrie, htoE, heq, Bool.not_false, Bool.true_and, decide_false, Bool.false_eq_true, if_false,
        and_self]
    have hst : StoredAll H r.store t0 := by
      rw [hstore]
      exact storedAll_apply_dels _ hfresh hs
    refine ⟨hst, .inr ⟨hroot, ?_, ?_, hq⟩⟩
    · rw [hroot]
      exact hcp.toStore hst
    · intro k hk
      rw [hstore]
      exact get_apply_dels_mem _ _ _ hk

/-- after the commit's batch is applied the checkpoint is still stored, and none of its nodes is in `created` -/
theorem commit_keeps_checkpoint (H : Bytes → Bytes) (hlen : ∀ x, (H x).length = 32) {S : PT → Prop} (hcl : SubClosed S)
    (hinj : HashInj H S) (lvl : Int) (t : WT) (t0 t1 : PT) (hdb : t.hasDb = true)
    (hcp : StoredAll H t.store t0)
    (h1 : RepS H t.store t.root t1) (hp : Proper t.root) (hd : t.root.dirty = true) (hS0 : S t0) (hS1 : S t1) :
    StoredAll H ((commit H t lvl).1.store.apply (commit H t lvl).2) t0 ∧
      ∀ x, PT.Sub x t0 → x.isNone = false → PT.hash H x ∉ (commit H t lvl).1.created := by
  obtain ⟨_, _, _, _, _, hst, hmono⟩ := rep_commit hlen hcl hinj lvl t h1 hp hS1
  refine ⟨?_, ?_⟩
  · have := hmono t0 hS0 hcp
    simpa [hst] using this
  · intro x hx hn hm
    have := commit_created_fresh H t lvl _ hdb hm hd
    rw [hcp.sub_get hx hn] at this
    cases this

/-- GOAL 2. The analogue of `rollbackTrie_restores` for a checkpoint NODE `cp` instead of a bare reference: any node
    that represents the checkpoint tree `t0` (for any `P`: `RepS H t.store cp t0`, `Rep H (fun x => PT.Sub x t0) cp t0`,
    … — the `P`-facts are re-derived from `StoredAll H r.store t0`). `AllClean cp`, `Proper cp` and `cp.isNil = false`
    are not needed (the last follows from `0 < t0.weight`). -/
theorem rollbackTrie_copy_restores (H : Bytes → Bytes) (hlen : ∀ x, (H x).length = 32) {S : PT → Prop}
    (hcl : SubClosed S) (hinj : HashInj H S) (lvl : Int) (t : WT) (t0 t1 : PT) {P : PT → Prop} (cp : WN)
    (hdb : t.hasDb = true) (hcp : StoredAll H t.store t0) (hw0 : 0 < t0.weight) (hrcp : Rep H P cp t0)
    (h1 : RepS H t.store t.root t1) (hp : Proper t.root) (hd : t.root.dirty = true) (hS0 : S t0) (hS1 : S t1) :
    let c := commit H t lvl
    let c' : WT := { c.1 with store := c.1.store.apply c.2 }
    let r := (rollbackTrie H c' cp).1
    StoredAll H r.store t0 ∧
      ((cp.hashField H = c'.root.hashField H ∧ r = c') ∨
       (r.root = cp ∧ RepS H r.store r.root t0 ∧ (∀ k ∈ c.1.created, r.store.get k = none) ∧
         r.created = [] ∧ r.tempDeleted = [] ∧ r.pending = [] ∧ r.deleted = [])) := by
  intro c c' r
  obtain ⟨hs1, hfresh⟩ := commit_keeps_checkpoint H hlen hcl hinj lvl t t0 t1 hdb hcp h1 hp hd hS0 hS1
  exact rollbackTrie_core H c' t0 cp hw0 hrcp hs1 hfresh

/-- GOAL 1 + 2: the checkpoint node is `CopyRoot(lvl0, collapse0)` of a clean, proper node `n0` that represents `t0` -/
theorem rollbackTrie_copyRoot_restores (H : Bytes → Bytes) (hlen : ∀ x, (H x).length = 32) {S : PT → Prop}
    (hcl : SubClosed S) (hinj : HashInj H S) (lvl : Int) (t : WT) (t0 t1 : PT) {P : PT → Prop} (n0 : WN)
    (collapse0 : Int) (lvl0 : Nat)
    (hdb : t.hasDb = true) (hcp : StoredAll H t.store t0) (hw0 : 0 < t0.weight) (hr0 : Rep H P n0 t0)
    (hac0 : AllClean n0) (hp0 : Proper n0)
    (h1 : RepS H t.store t.root t1) (hp : Proper t.root) (hd : t.root.dirty = true) (hS0 : S t0) (hS1 : S t1) :
    let cp := copyRoot H collapse0 lvl0 n0
    let c := commit H t lvl
    let c' : WT := { c.1 with store := c.1.store.apply c.2 }
    let r := (rollbackTrie H c' cp).1
    StoredAll H r.store t0 ∧
      ((n0.hashField H = c'.root.hashField H ∧ r = c') ∨
       (r.root = cp ∧ RepS H r.store r.root t0 ∧ AllClean r.root ∧ Proper r.root ∧
         (∀ k ∈ c.1.created, r.store.get k = none) ∧
         r.created = [] ∧ r.tempDeleted = [] ∧ r.pending = [] ∧ r.deleted = [])) := by
  intro cp c c' r
  obtain ⟨q1, q2, q3, _, q5, _⟩ := rep_copyRoot hr0 hac0 hp0 collapse0 lvl0
  obtain ⟨a, b⟩ := rollbackTrie_copy_restores H hlen hcl hinj lvl t t0 t1 cp hdb hcp hw0 q1 h1 hp hd hS0 hS1
  refine ⟨a, ?_⟩
  rcases b with ⟨b1, b2⟩ | ⟨b1, b2, b3⟩
  · exact .inl ⟨by rw [← q5]; exact b1, b2⟩
  · refine .inr ⟨b1, b2, ?_, ?_, b3⟩
    · show AllClean r.root
      rw [b1]; exact q2
    · show Proper r.root
      rw [b1]; exact q3

/-! ### 3. one GC pass (`DeleteNodes`) between the commit and the rollback -/

theorem commit_deleted_sub (H : Bytes → Bytes) (t : WT) (lvl : Int) (k : Bytes)
    (hk : k ∈ (commit H t lvl).1.deleted) : k ∈ t.deleted := by
  unfold commit at hk
  by_cases hd : t.root.dirty = true
  · simp only [hd, Bool.not_true, Bool.false_eq_true, if_false] at hk
    exact (mem_eraseAll.mp hk).1
  · simp only [hd, Bool.not_false, if_true] at hk
    split at hk <;> exact hk

theorem deleteNodes_store (t : WT) : (deleteNodes t).1.store = t.store.apply (t.deleted.map StoreOp.del) := rfl
theorem deleteNodes_created (t : WT) : (deleteNodes t).1.created = t.created := rfl
theorem deleteNodes_oldRoot (t : WT) : (deleteNodes t).1.oldRoot = t.oldRoot := rfl

/-- after the commit's batch is applied and `DeleteNodes` ran, the checkpoint is still stored (GC-safety: nothing
    staged for deletion is a node of the checkpoint) and none of its nodes is in `created` -/
theorem gc_keeps_checkpoint (H : Bytes → Bytes) (hlen : ∀ x, (H x).length = 32) {S : PT → Prop} (hcl : SubClosed S)
    (hinj : HashInj H S) (lvl : Int) (t : WT) (t0 t1 : PT) (hdb : t.hasDb = true)
    (hcp : StoredAll H t.store t0)
    (h1 : RepS H t.store t.root t1) (hp : Proper t.root) (hd : t.root.dirty = true) (hS0 : S t0) (hS1 : S t1)
    (hq : ∀ k ∈ t.deleted, ∀ x, PT.Sub x t0 → x.isNone = false → k ≠ PT.hash H x) :
    let c := commit H t lvl
    let c' : WT := { c.1 with store := c.1.store.apply c.2 }
    let g := (deleteNodes c').1
    StoredAll H g.store t0 ∧ (∀ x, PT.Sub x t0 → x.isNone = false → PT.hash H x ∉ g.created) ∧
      g.created = c.1.created ∧ g.oldRoot = t.oldRoot ∧ g.root = c.1.root := by
  intro c c' g
  obtain ⟨hs1, hfresh⟩ := commit_keeps_checkpoint H hlen hcl hinj lvl t t0 t1 hdb hcp h1 hp hd hS0 hS1
  refine ⟨?_, hfresh, rfl, commit_oldRoot H t lvl, rfl⟩
  show StoredAll H (c'.store.apply (c'.deleted.map StoreOp.del)) t0
  refine storedAll_apply_dels _ ?_ hs1
  intro x hx hn hm
  exact hq _ (commit_deleted_sub H t lvl _ hm) x hx hn rfl

/-- GOAL 3 (`Rollback`). `rollback_restores` with one `DeleteNodes()` between the commit (batch applied) and the
    rollback, under the GC-safety side condition `hq` on what is staged for deletion before the commit (the commit only
    removes entries from `deleted`). -/
theorem rollback_after_gc_restores (H : Bytes → Bytes) (hlen : ∀ x, (H x).length = 32) {S : PT → Prop}
    (hcl : SubClosed S) (hinj : HashInj H S) (lvl : Int) (t : WT) (t0 t1 : PT) (hdb : t.hasDb = true)
    (hcp : StoredAll H t.store t0) (hold : t.oldRoot = (PT.hash H t0, t0.weight)) (hw0 : 0 < t0.weight)
    (h1 : RepS H t.store t.root t1) (hp : Proper t.root) (hd : t.root.dirty = true) (hS0 : S t0) (hS1 : S t1)
    (hq : ∀ k ∈ t.deleted, ∀ x, PT.Sub x t0 → x.isNone = false → k ≠ PT.hash H x) :
    let c := commit H t lvl
    let c' : WT := { c.1 with store := c.1.store.apply c.2 }
    let g := (deleteNodes c').1
    let r := (rollback g).1
    r.root = .hashRef (PT.hash H t0) t0.weight ∧ StoredAll H r.store t0 ∧
      (∀ k ∈ c.1.created, r.store.get k = none) ∧ r.created = [] ∧ r.tempDeleted = [] ∧ r.pending = [] ∧ r.deleted = [] := by
  intro c c' g r
  obtain ⟨hs, hfresh, hcr, hor, _⟩ := gc_keeps_checkpoint H hlen hcl hinj lvl t t0 t1 hdb hcp h1 hp hd hS0 hS1 hq
  refine ⟨?_, ?_, ?_, rfl, rfl, rfl, rfl⟩
  · show (if g.oldRoot.2 > 0 then WN.hashRef g.oldRoot.1 g.oldRoot.2 else WN.empty) = _
    have : g.oldRoot = (PT.hash H t0, t0.weight) := by rw [← hold]; exact hor
    simp only [this, hw0, if_true]
  · show StoredAll H (g.store.apply (g.created.map StoreOp.del)) t0
    exact storedAll_apply_dels _ hfresh hs
  · intro k hk
    show (g.store.apply (g.created.map StoreOp.del)).get k = none
    exact get_apply_dels_mem _ _ _ (by rw [hcr]; exact hk)

/-- GOAL 3 (`RollbackTrie`, checkpoint node form): `rollbackTrie_copy_restores` with one `DeleteNodes()` in between -/
theorem rollbackTrie_copy_after_gc_restores (H : Bytes → Bytes) (hlen : ∀ x, (H x).length = 32) {S : PT → Prop}
    (hcl : SubClosed S) (hinj : HashInj H S) (lvl : Int) (t : WT) (t0 t1 : PT) {P : PT → Prop} (cp : WN)
    (hdb : t.hasDb = true) (hcp : StoredAll H t.store t0) (hw0 : 0 < t0.weight) (hrcp : Rep H P cp t0)
    (h1 : RepS H t.store t.root t1) (hp : Proper t.root) (hd : t.root.dirty = true) (hS0 : S t0) (hS1 : S t1)
    (hq : ∀ k ∈ t.deleted, ∀ x, PT.Sub x t0 → x.isNone = false → k ≠ PT.hash H x) :
    let c := commit H t lvl
    let c' : WT := { c.1 with store := c.1.store.apply c.2 }
    let g := (deleteNodes c').1
    let r := (rollbackTrie H g cp).1
    StoredAll H r.store t0 ∧
      ((cp.hashField H = c'.root.hashField H ∧ r = g) ∨
       (r.root = cp ∧ RepS H r.store r.root t0 ∧ (∀ k ∈ c.1.created, r.store.get k = none) ∧
         r.created = [] ∧ r.tempDeleted = [] ∧ r.pending = [] ∧ r.deleted = [])) := by
  intro c c' g r
  obtain ⟨hs, hfresh, _, _, _⟩ := gc_keeps_checkpoint H hlen hcl hinj lvl t t0 t1 hdb hcp h1 hp hd hS0 hS1 hq
  exact rollbackTrie_core H g t0 cp hw0 hrcp hs hfresh

/-- GOAL 3 (`RollbackTrie`, reference form): `rollbackTrie_restores` with one `DeleteNodes()` in between -/
theorem rollbackTrie_after_gc_restores (H : Bytes → Bytes) (hlen : ∀ x, (H x).length = 32) {S : PT → Prop}
    (hcl : SubClosed S) (hinj : HashInj H S) (lvl : Int) (t : WT) (t0 t1 : PT) (hdb : t.hasDb = true)
    (hcp : StoredAll H t.store t0) (hw0 : 0 < t0.weight)
    (h1 : RepS H t.store t.root t1) (hp : Proper t.root) (hd : t.root.dirty = true) (hS0 : S t0) (hS1 : S t1)
    (hq : ∀ k ∈ t.deleted, ∀ x, PT.Sub x t0 → x.isNone = false → k ≠ PT.hash H x) :
    let c := commit H t lvl
    let c' : WT := { c.1 with store := c.1.store.apply c.2 }
    let g := (deleteNodes c').1
    let r := (rollbackTrie H g (.hashRef (PT.hash H t0) t0.weight)).1
    StoredAll H r.store t0 ∧
      ((c'.root.hashField H = PT.hash H t0 ∧ r = g) ∨
       (r.root = .hashRef (PT.hash H t0) t0.weight ∧ (∀ k ∈ c.1.created, r.store.get k = none) ∧
         r.created = [] ∧ r.tempDeleted = [] ∧ r.pending = [] ∧ r.deleted = [])) := by
  intro c c' g r
  have hn0 : t0.isNone = false := by
    cases t0 <;> simp_all [PT.isNone, PT.weight]
  have hrcp : Rep H (fun _ => True) (.hashRef (PT.hash H t0) t0.weight) t0 := Rep.ref t0 hn0 trivial
  obtain ⟨a, b⟩ := rollbackTrie_copy_after_gc_restores H hlen hcl hinj lvl t t0 t1 _ hdb hcp hw0 hrcp h1 hp hd hS0 hS1 hq
  refine ⟨a, ?_⟩
  rcases b with ⟨b1, b2⟩ | ⟨b1, _, b3⟩
  · exact .inl ⟨b1.symm, b2⟩
  · exact .inr ⟨b1, b3⟩

end Verif.Wmpt
