/-
C12, the two collection strategies of `GetPath(keys)` (core/util/wmpt/path.go).  Below a branch root Go marks the
requested paths either sequentially (`markAll`: every key walks from the root) or, for more than
`pathParallelThreshold` keys, per branch (`markParallel`: the root is marked first, then every key walks from the child
of its first nibble, `markKids`).
  * `markToCollect_routing_cons`   : one step of the sequential walk at a branch root;
  * `markAll_routing`              : the sequential loop at a branch root in terms of `markKids`;
  * `mark_parallel_eq_sequential`  : for non-empty keys both strategies report the same error, and when they succeed on
                                     a non-empty list of keys they produce the same node (an EMPTY key is marked at
                                     the branch root by the sequential walk, while the per-branch loop, which takes
                                     `k[0]`, panics: hence the hypothesis `∀ k ∈ keys, k ≠ []`; the keys of GetPath
                                     are 32-byte keys, 64 nibbles);
  * `markRoot_eq_markAll`          : the same for the choice `getPath` makes (`markRoot`);
  * `getPath_strategy_irrelevant`  : `getPath` against `getPathSeq` (= `getPath` with `markAll` in both branches);
  * `markKids_comm`                : keys with different first nibbles commute (the goroutines of the Go code touch
                                     different children), so the list order of the model is irrelevant across branches.
Core Lean only.
-/
import Verif.Model.WmptProof
namespace Verif.Wmpt

/-! ### one step of the sequential walk at a branch root -/

theorem fuelFor_cons (k : Nib) (ks : List Nib) : fuelFor (k :: ks) = (fuelFor (k :: ks) - 1) + 1 := by
  simp only [fuelFor, List.length_cons]; omega

theorem markToCollect_routing_cons (hasDb : Bool) (s : Store) (h : Bytes) (ch : Nib → WN) (w : Nat) (d tc : Bool)
    (k : Nib) (ks : List Nib) :
    markToCollect hasDb s (fuelFor (k :: ks)) (.routing h ch w d tc) (k :: ks) =
      (match (markToCollect hasDb s (fuelFor (k :: ks) - 1) (ch k) ks).err with
        | some e => { node := .routing h (upd ch k (markToCollect hasDb s (fuelFor (k :: ks) - 1) (ch k) ks).node) w d tc,
                      err := some e }
        | none => { node := .routing h (upd ch k (markToCollect hasDb s (fuelFor (k :: ks) - 1) (ch k) ks).node) w d true }) := by
  obtain ⟨f, hf⟩ : ∃ f, fuelFor (k :: ks) = f + 1 := ⟨_, fuelFor_cons k ks⟩
  have hf' : fuelFor (k :: ks) - 1 = f := by omega
  rw [hf', hf]
  simp only [markToCollect]
  rfl

theorem markToCollect_routing_nil (hasDb : Bool) (s : Store) (h : Bytes) (ch : Nib → WN) (w : Nat) (d tc : Bool) :
    markToCollect hasDb s (fuelFor []) (.routing h ch w d tc) [] =
      { node := .routing h ch w d true } := by
  simp [fuelFor, markToCollect]

/-! ### the sequential loop at a branch root -/

/-- the sequential loop at a branch root, in terms of the per-branch loop, for non-empty keys: same error; on success the
children are those of `markKids` and the root carries the mark as soon as there was a key.  (An empty key is marked at
the root by the sequential walk and makes the per-branch loop panic.) -/
theorem markAll_routing (hasDb : Bool) (s : Store) (h : Bytes) (w : Nat) (d : Bool) :
    ∀ (keys : List (List Nib)) (ch : Nib → WN) (tc : Bool), (∀ k ∈ keys, k ≠ []) →
    (markAll hasDb s (.routing h ch w d tc) keys).err = (markKids hasDb s ch keys).2 ∧
    ((markAll hasDb s (.routing h ch w d tc) keys).err = none →
      (markAll hasDb s (.routing h ch w d tc) keys).node =
        .routing h (markKids hasDb s ch keys).1 w d (tc || !keys.isEmpty)) := by
  intro keys
  induction keys with
  | nil =>
    intro ch tc _
    simp [markAll, markKids]
  | cons key rest ih =>
    intro ch tc hne
    have hne' : ∀ k ∈ rest, k ≠ [] := fun x hx => hne x (List.mem_cons_of_mem _ hx)
    cases key with
    | nil => exact absurd rfl (hne [] List.mem_cons_self)
    | cons k ks =>
      simp only [markAll, markKids, markToCollect_routing_cons]
      cases hr : (markToCollect hasDb s (fuelFor (k :: ks) - 1) (ch k) ks).err with
      | some e => simp
      | none =>
        simp only
        obtain ⟨i1, i2⟩ := ih (upd ch k (markToCollect hasDb s (fuelFor (k :: ks) - 1) (ch k) ks).node) true hne'
        refine ⟨i1, fun he => ?_⟩
        rw [i2 he]
        simp

/-- the two collection strategies of `GetPath` below a branch root, for non-empty keys: they report the same error, and
when the marking succeeds for at least one key they yield the same node.  (For `keys = []` the sequential strategy
leaves the root mark alone while the parallel one sets it; `GetPath` takes the parallel strategy for more than
`pathParallelThreshold` keys only.  An empty key is marked at the root by the sequential strategy, the parallel one
panics on it.) -/
theorem mark_parallel_eq_sequential (hasDb : Bool) (s : Store) (h : Bytes) (ch : Nib → WN) (w : Nat) (d tc : Bool)
    (keys : List (List Nib)) (hne : ∀ k ∈ keys, k ≠ []) :
    (markParallel hasDb s (.routing h ch w d tc) keys).err = (markAll hasDb s (.routing h ch w d tc) keys).err ∧
    ((markAll hasDb s (.routing h ch w d tc) keys).err = none → keys ≠ [] →
      (markParallel hasDb s (.routing h ch w d tc) keys).node = (markAll hasDb s (.routing h ch w d tc) keys).node) := by
  obtain ⟨h1, h2⟩ := markAll_routing hasDb s h w d keys ch tc hne
  refine ⟨h1.symm, fun he hk => ?_⟩
  rw [h2 he]
  cases keys with
  | nil => exact absurd rfl hk
  | cons k ks => simp [markParallel]

/-! ### the choice `getPath` makes -/

/-- the marking of `getPath`: per branch below a branch root with more than `pathParallelThreshold` keys, sequential
otherwise -/
def markRoot (hasDb : Bool) (s : Store) (root : WN) (keys : List (List Nib)) : MRes :=
  if root.isRouting && keys.length > Verif.Gen.Constants.pathParallelThreshold
    then markParallel hasDb s root keys else markAll hasDb s root keys

theorem markRoot_eq_markAll (hasDb : Bool) (s : Store) (root : WN) (keys : List (List Nib))
    (hne : ∀ k ∈ keys, k ≠ []) :
    (markRoot hasDb s root keys).err = (markAll hasDb s root keys).err ∧
    ((markAll hasDb s root keys).err = none → (markRoot hasDb s root keys).node = (markAll hasDb s root keys).node) := by
  unfold markRoot
  split
  · rename_i hc
    simp only [Bool.and_eq_true, decide_eq_true_eq] at hc
    obtain ⟨hr, hl⟩ := hc
    have hk : keys ≠ [] := by
      intro e; subst e; simp at hl
    cases root with
    | routing h ch w d tc =>
      obtain ⟨h1, h2⟩ := mark_parallel_eq_sequential hasDb s h ch w d tc keys hne
      exact ⟨h1, fun he => h2 he hk⟩
    | _ => simp [WN.isRouting] at hr
  · exact ⟨rfl, fun _ => rfl⟩

theorem markRoot_of_not_routing {hasDb : Bool} {s : Store} {root : WN} (keys : List (List Nib))
    (hr : root.isRouting = false) : markRoot hasDb s root keys = markAll hasDb s root keys := by
  simp [markRoot, hr]

/-- a successful marking: the strategy is irrelevant -/
theorem markRoot_of_markAll {hasDb : Bool} {s : Store} {root : WN} {keys : List (List Nib)}
    (hne : ∀ k ∈ keys, k ≠ []) (he : (markAll hasDb s root keys).err = none) : markRoot hasDb s root keys = markAll hasDb s root keys := by
  obtain ⟨h1, h2⟩ := markRoot_eq_markAll hasDb s root keys hne
  have e1 := h1
  have e2 := h2 he
  cases hm : markRoot hasDb s root keys with
  | mk n1 e1' =>
    cases hs : markAll hasDb s root keys with
    | mk n2 e2' =>
      rw [hm, hs] at e1
      rw [hm, hs] at e2
      simp only at e1 e2
      rw [e1, e2]

section
variable (H : Bytes → Bytes)

/-- `getPath` in terms of `markRoot` -/
theorem getPath_eq_markRoot (t : WT) (keys : List (List Nib)) :
    getPath H t keys =
      (match (match t.root with
          | .hashRef h _ => resolveHash t.hasDb t.store h
          | n => .ok n) with
        | .err e => (t, .err e)
        | .ok root =>
          match (markRoot t.hasDb t.store root keys).err with
          | some .kvNotFound => ({ t with root := (markRoot t.hasDb t.store root keys).node }, .err .notFound)
          | some e => ({ t with root := (markRoot t.hasDb t.store root keys).node }, .err e)
          | none =>
            ({ t with root := (collectNodes H (markRoot t.hasDb t.store root keys).node).1 },
              .ok (Cbor.encTrie (collectNodes H (markRoot t.hasDb t.store root keys).node).2))) := rfl

/-- `GetPath(keys)` with the sequential strategy in every case -/
def getPathSeq (t : WT) (keys : List (List Nib)) : WT × Res Bytes :=
  let r0 : Res WN := match t.root with
    | .hashRef h _ => resolveHash t.hasDb t.store h
    | n => .ok n
  match r0 with
  | .err e => (t, .err e)
  | .ok root =>
    let m := markAll t.hasDb t.store root keys
    match m.err with
    | some .kvNotFound => ({ t with root := m.node }, .err .notFound)
    | some e => ({ t with root := m.node }, .err e)
    | none =>
      let c := collectNodes H m.node
      ({ t with root := c.1 }, .ok (Cbor.encTrie c.2))

/-- the collection strategy of `GetPath` is irrelevant for non-empty keys: the result (`Res`) is that of the sequential
strategy in every case, and a successful call also leaves the same trie behind.  (After a failed call the two strategies
may leave different export marks on the nodes visited before the failure; store, database flag and pending lists agree.) -/
theorem getPath_strategy_irrelevant (t : WT) (keys : List (List Nib)) (hne : ∀ k ∈ keys, k ≠ []) :
    (getPath H t keys).2 = (getPathSeq H t keys).2 ∧
    (∀ data, (getPathSeq H t keys).2 = .ok data → getPath H t keys = getPathSeq H t keys) ∧
    (∀ n, { (getPath H t keys).1 with root := n } = { (getPathSeq H t keys).1 with root := n }) := by
  rw [getPath_eq_markRoot]
  unfold getPathSeq
  generalize (match t.root with
    | .hashRef h _ => resolveHash t.hasDb t.store h
    | n => Res.ok n) = r0
  cases r0 with
  | err e => exact ⟨rfl, fun _ _ => rfl, fun _ => rfl⟩
  | ok root =>
    simp only
    obtain ⟨h1, h2⟩ := markRoot_eq_markAll t.hasDb t.store root keys hne
    cases hs : (markAll t.hasDb t.store root keys).err with
    | none =>
      rw [markRoot_of_markAll hne hs, hs]
      exact ⟨rfl, fun _ _ => rfl, fun _ => rfl⟩
    | some e =>
      rw [hs] at h1
      rw [h1]
      cases e <;> exact ⟨rfl, fun _ hd => (by cases hd), fun _ => rfl⟩

/-- below a root that is no branch `getPath` takes the sequential strategy, whatever the keys are -/
theorem getPath_eq_getPathSeq_of_not_routing (t : WT) (keys : List (List Nib))
    (hnr : ∀ root, (match t.root with
        | .hashRef h _ => resolveHash t.hasDb t.store h
        | n => Res.ok n) = .ok root → root.isRouting = false) :
    getPath H t keys = getPathSeq H t keys := by
  rw [getPath_eq_markRoot]
  unfold getPathSeq
  generalize (match t.root with
    | .hashRef h _ => resolveHash t.hasDb t.store h
    | n => Res.ok n) = r0 at hnr
  cases r0 with
  | err e => rfl
  | ok root => simp only [markRoot_of_not_routing keys (hnr root rfl)]

end

/-! ### keys below different children commute -/

theorem upd_comm (ch : Nib → WN) {k1 k2 : Nib} (x1 x2 : WN) (hne : k1 ≠ k2) :
    upd (upd ch k1 x1) k2 x2 = upd (upd ch k2 x2) k1 x1 := by
  funext j
  unfold upd
  by_cases h1 : j = k1
  · by_cases h2 : j = k2
    · exact absurd (h1.symm.trans h2) hne
    · simp [h1, hne]
  · by_cases h2 : j = k2
    · have : ¬ k2 = k1 := fun e => hne e.symm
      simp [h2, this]
    · simp [h1, h2]

/-- two keys with different first nibbles: the per-branch loop may run them in either order.  (Go runs the keys in
goroutines that are serialised per first nibble only; this is why the list order of the model does not matter across
branches.) -/
theorem markKids_comm (hasDb : Bool) (s : Store) (ch : Nib → WN) (k1 k2 : Nib) (ks1 ks2 : List Nib)
    (rest : List (List Nib)) (hne : k1 ≠ k2)
    (h1 : (markToCollect hasDb s (fuelFor (k1 :: ks1) - 1) (ch k1) ks1).err = none)
    (h2 : (markToCollect hasDb s (fuelFor (k2 :: ks2) - 1) (ch k2) ks2).err = none) :
    markKids hasDb s ch ((k1 :: ks1) :: (k2 :: ks2) :: rest) =
      markKids hasDb s ch ((k2 :: ks2) :: (k1 :: ks1) :: rest) := by
  have hne' : k2 ≠ k1 := fun e => hne e.symm
  have e21 : ∀ x, upd ch k1 x k2 = ch k2 := fun x => by simp [upd, hne']
  have e12 : ∀ x, upd ch k2 x k1 = ch k1 := fun x => by simp [upd, hne]
  simp only [markKids, h1, h2, e21, e12]
  rw [upd_comm ch _ _ hne]

end Verif.Wmpt
