/- Rolling back a commit restores the checkpoint in storage (C13), on top of the representation lemmas. -/
import Verif.Lemmas.WmptRepCommit
namespace Verif.Wmpt

theorem commit_created_fresh (H : Bytes → Bytes) (t : WT) (lvl : Int) (h : Bytes) (hdb : t.hasDb = true)
    (hc : h ∈ (commit H t lvl).1.created) (hd : t.root.dirty = true) : t.store.get h = none := by
  unfold commit at hc
  simp only [hd, Bool.not_true, Bool.false_eq_true, if_false, hdb, if_true, List.mem_filter] at hc
  simpa using hc.2

theorem commit_oldRoot (H : Bytes → Bytes) (t : WT) (lvl : Int) : (commit H t lvl).1.oldRoot = t.oldRoot := by
  unfold commit
  by_cases hd : t.root.dirty
  · simp [hd]
  · simp only [hd, Bool.not_false, if_true]
    split <;> rfl

theorem StoredAll.sub_get {H : Bytes → Bytes} {s : Store} {t x : PT} (h : StoredAll H s t) (hx : PT.Sub x t)
    (hn : x.isNone = false) : s.get (PT.hash H x) = some (Cbor.encBase (PT.persist H x)) := by
  induction t with
  | none => simp only [PT.Sub] at hx; subst hx; simp [PT.isNone] at hn
  | value v w => simp only [PT.Sub] at hx; subst hx; exact h
  | short k c ih =>
    rcases hx with hx | hx
    · subst hx; exact h.1
    · exact ih h.2 hx
  | branch ch ih =>
    rcases hx with hx | ⟨i, hx⟩
    · subst hx; exact h.1
    · exact ih i (h.2 i) hx

theorem get_apply_dels_mem (s : Store) (ks : List Bytes) (k : Bytes) (h : k ∈ ks) :
    (s.apply (ks.map StoreOp.del)).get k = none := by
  induction ks generalizing s with
  | nil => cases h
  | cons a tl ih =>
    simp only [List.map_cons, Store.apply]
    by_cases hk : k ∈ tl
    · exact ih _ hk
    · have hka : k = a := by
        cases h with
        | head => rfl
        | tail _ h' => exact absurd h' hk
      subst hka
      rw [get_apply_dels _ _ _ hk]
      simp only [Store.del, Store.get, List.lookup_eq_none_iff, List.mem_filter]
      intro a b
      have := b.2
      simp only [bne_iff_ne, ne_eq] at this ⊢
      exact fun e => this e.symm

/-- Checkpoint `t0` (stored, remembered by SaveRoot), arbitrary changes leading to a trie for `t1`, `Commit(lvl)` with its
    batch applied, `Rollback()`: the trie shows the checkpoint reference again, every node of the checkpoint is still in
    storage, every storage key that only the rolled-back commit created is gone, and the bookkeeping is empty. -/
theorem rollback_restores (H : Bytes → Bytes) (hlen : ∀ x, (H x).length = 32) {S : PT → Prop} (hcl : SubClosed S)
    (hinj : HashInj H S) (lvl : Int) (t : WT) (t0 t1 : PT) (hdb : t.hasDb = true)
    (hcp : StoredAll H t.store t0) (hold : t.oldRoot = (PT.hash H t0, t0.weight)) (hw0 : 0 < t0.weight)
    (h1 : RepS H t.store t.root t1) (hp : Proper t.root) (hd : t.root.dirty = true) (hS0 : S t0) (hS1 : S t1) :
    let c := commit H t lvl
    let r := (rollback { c.1 with store := c.1.store.apply c.2 }).1
    r.root = .hashRef (PT.hash H t0) t0.weight ∧ StoredAll H r.store t0 ∧
      (∀ k ∈ c.1.created, r.store.get k = none) ∧ r.created = [] ∧ r.tempDeleted = [] ∧ r.pending = [] ∧ r.deleted = [] := by
  intro c r
  obtain ⟨_, _, _, _, _, hst, hmono⟩ := rep_commit hlen hcl hinj lvl t h1 hp hS1
  have hs1 : StoredAll H (c.1.store.apply c.2) t0 := by
    have := hmono t0 hS0 hcp
    simpa [c, hst] using this
  refine ⟨?_, ?_, ?_, rfl, rfl, rfl, rfl⟩
  · simp only [r, rollback, commit_oldRoot, c, hold, hw0, if_true]
  · simp only [r, rollback]
    refine StoredAll.of_sub ?_ hs1
    intro x hx hn hg
    have hnot : PT.hash H x ∉ c.1.created := by
      intro hm
      have := commit_created_fresh H t lvl _ hdb hm hd
      rw [hcp.sub_get hx hn] at this
      cases this
    rw [get_apply_dels _ _ _ hnot]
    exact hg
  · intro k hk
    simp only [r, rollback]
    exact get_apply_dels_mem _ _ _ hk

/-- the same for `RollbackTrie(NewHashNode(hash t0, weight t0))`: either the committed root already has the
    checkpoint's hash (nothing is touched), or the checkpoint reference is installed and exactly the created keys go -/
theorem rollbackTrie_restores (H : Bytes → Bytes) (hlen : ∀ x, (H x).length = 32) {S : PT → Prop} (hcl : SubClosed S)
    (hinj : HashInj H S) (lvl : Int) (t : WT) (t0 t1 : PT) (hdb : t.hasDb = true)
    (hcp : StoredAll H t.store t0) (hw0 : 0 < t0.weight)
    (h1 : RepS H t.store t.root t1) (hp : Proper t.root) (hd : t.root.dirty = true) (hS0 : S t0) (hS1 : S t1) :
    let c := commit H t lvl
    let c' : WT := { c.1 with store := c.1.store.apply c.2 }
    let r := (rollbackTrie H c' (.hashRef (PT.hash H t0) t0.weight)).1
    StoredAll H r.store t0 ∧
      ((c'.root.hashField H = PT.hash H t0 ∧ r = c') ∨
       (r.root = .hashRef (PT.hash H t0) t0.weight ∧ (∀ k ∈ c.1.created, r.store.get k = none) ∧
         r.created = [] ∧ r.tempDeleted = [] ∧ r.pending = [] ∧ r.deleted = [])) := by
  intro c c' r
  obtain ⟨_, _, _, _, _, hst, hmono⟩ := rep_commit hlen hcl hinj lvl t h1 hp hS1
  have hs1 : StoredAll H c'.store t0 := by
    have := hmono t0 hS0 hcp
    simpa [c', c, hst] using this
  have htoE : ((WN.hashRef (PT.hash H t0) t0.weight).isNil || decide ((WN.hashRef (PT.hash H t0) t0.weight).weight = 0)) = false := by
    have : t0.weight ≠ 0 := by omega
    simp [WN.isNil, WN.weight, this]
  by_cases heq : (WN.hashRef (PT.hash H t0) t0.weight).hashField H = c'.root.hashField H
  · have hr : r = c' := by
      simp only [r, rollbackTrie, htoE, heq, Bool.not_false, Bool.true_and, decide_true, if_true]
    rw [hr]
    exact ⟨hs1, .inl ⟨heq.symm, rfl⟩⟩
  · have hstore : r.store = c'.store.apply (c'.created.map StoreOp.del) := by
      simp only [r, rollbackTrie, htoE, heq, Bool.not_false, Bool.true_and, decide_false, Bool.false_eq_true, if_false]
    have hroot : r.root = .hashRef (PT.hash H t0) t0.weight := by
      simp only [r, rollbackTrie, htoE, heq, Bool.not_false, Bool.true_and, decide_false, Bool.false_eq_true, if_false]
    have hq : r.created = [] ∧ r.tempDeleted = [] ∧ r.pending = [] ∧ r.deleted = [] := by
      simp only [r, rollbackTrie, htoE, heq, Bool.not_false, Bool.true_and, decide_false, Bool.false_eq_true, if_false,
        and_self]
    refine ⟨?_, .inr ⟨hroot, ?_, hq⟩⟩
    · rw [hstore]
      refine StoredAll.of_sub ?_ hs1
      intro x hx hn hg
      have hnot : PT.hash H x ∉ c.1.created := by
        intro hm
        have := commit_created_fresh H t lvl _ hdb hm hd
        rw [hcp.sub_get hx hn] at this
        cases this
      show (c'.store.apply (c.1.created.map StoreOp.del)).get _ = _
      rw [get_apply_dels _ _ _ hnot]
      exact hg
    · intro k hk
      rw [hstore]
      exact get_apply_dels_mem _ _ _ hk

end Verif.Wmpt
