/- `Root()` before `Commit` does not change what the commit writes (the content of fix 8a63293). -/
import Verif.Lemmas.WmptProof
namespace Verif.Wmpt

theorem calcHash_fst_dirty (H : Bytes → Bytes) (n : WN) : (calcHash H n).1.dirty = n.dirty := by
  cases n with
  | nil => rfl
  | empty => rfl
  | hashRef h w => rfl
  | value h v w d => cases d <;> rfl
  | routing h ch w d tc => cases d <;> rfl
  | short k h c d tc =>
    cases d with
    | false => rfl
    | true => by_cases hn : c.isNil <;> simp only [calcHash, hn, if_true, if_false, Bool.false_eq_true] <;> rfl

theorem calcHash_of_clean (H : Bytes → Bytes) (n : WN) (h : n.dirty = false) : (calcHash H n).1 = n := by
  cases n with
  | nil => rfl
  | empty => rfl
  | hashRef h w => rfl
  | value hh v w d => simp only [WN.dirty] at h; subst h; rfl
  | routing hh ch w d tc => simp only [WN.dirty] at h; subst h; rfl
  | short k hh c d tc => simp only [WN.dirty] at h; subst h; rfl

/-- two commit results that agree on everything a reader of the storage can see -/
def CRes.same (a b : CRes) : Prop := a.node = b.node ∧ a.puts = b.puts ∧ a.created = b.created

/-- for a dirty node the cached hash is irrelevant to `Save` -/
theorem saveNode_value_hash (H : Bytes → Bytes) (h h' v : Bytes) (w : Nat) :
    saveNode H (.value h v w true) = saveNode H (.value h' v w true) := by
  simp [saveNode, serializeP, calcHash, WN.hashField]

theorem saveNode_short_hash (H : Bytes → Bytes) (k h h' : Bytes) (c : WN) (tc : Bool) :
    saveNode H (.short k h c true tc) = saveNode H (.short k h' c true tc) := by
  by_cases hn : c.isNil <;> simp [saveNode, serializeP, calcHash, hn, WN.hashField]

theorem saveNode_routing_hash (H : Bytes → Bytes) (h h' : Bytes) (ch : Nib → WN) (w : Nat) (tc : Bool) :
    saveNode H (.routing h ch w true tc) = saveNode H (.routing h' ch w true tc) := by
  simp [saveNode, serializeP, calcHash, WN.hashField]

theorem commitNode_refresh (H : Bytes → Bytes) (collapse : Int) (n : WN) (lvl : Nat) :
    CRes.same (commitNode H collapse lvl (calcHash H n).1) (commitNode H collapse lvl n) := by
  induction n generalizing lvl with
  | nil => exact ⟨rfl, rfl, rfl⟩
  | empty => exact ⟨rfl, rfl, rfl⟩
  | hashRef h w => exact ⟨rfl, rfl, rfl⟩
  | value h v w d =>
    cases d with
    | false => exact ⟨rfl, rfl, rfl⟩
    | true =>
      simp only [calcHash, if_true, commitNode, Bool.not_true, Bool.false_eq_true, if_false]
      rw [saveNode_value_hash H (H (be64 w ++ v)) h]
      exact ⟨rfl, rfl, rfl⟩
  | short k h c d tc ih =>
    cases d with
    | false => exact ⟨rfl, rfl, rfl⟩
    | true =>
      by_cases hn : c.isNil
      · have hc : c = .nil := by cases c <;> simp_all [WN.isNil]
        subst hc
        simp only [calcHash, WN.isNil, if_true, commitNode, Bool.not_true, Bool.false_eq_true, if_false]
        rw [saveNode_short_hash H k (H k) h]
        exact ⟨rfl, rfl, rfl⟩
      · have hn' : (calcHash H c).1.isNil = false := by rw [calcHash_fst_isNil]; simpa using hn
        have hnf : c.isNil = false := by simpa using hn
        obtain ⟨e1, e2, e3⟩ := ih (lvl + 1)
        simp only [calcHash, hnf, Bool.false_eq_true, if_false, if_true, commitNode, Bool.not_true, hn']
        rw [e1, saveNode_short_hash H k _ h]
        refine ⟨rfl, by rw [e2], by rw [e3]⟩
  | routing h ch w d tc ih =>
    cases d with
    | false => exact ⟨rfl, rfl, rfl⟩
    | true =>
      simp only [calcHash, if_true, commitNode, Bool.not_true, Bool.false_eq_true, if_false, List.map_map]
      -- the per-child results agree
      have hkids : ∀ i : Nib,
          CRes.same
            (if (ofList (allNib.map ((fun r => r.1) ∘ fun i => calcHash H (ch i))) i).isNil ||
                !(ofList (allNib.map ((fun r => r.1) ∘ fun i => calcHash H (ch i))) i).dirty
              then ({ node := ofList (allNib.map ((fun r => r.1) ∘ fun i => calcHash H (ch i))) i } : CRes)
              else commitNode H collapse (lvl + 1) (ofList (allNib.map ((fun r => r.1) ∘ fun i => calcHash H (ch i))) i))
            (if (ch i).isNil || !(ch i).dirty then ({ node := ch i } : CRes) else commitNode H collapse (lvl + 1) (ch i)) := by
        intro i
        rw [ofList_map_allNib]
        simp only [Function.comp, calcHash_fst_isNil, calcHash_fst_dirty]
        by_cases hc : (ch i).isNil || !(ch i).dirty
        · simp only [hc, if_true]
          have : (calcHash H (ch i)).1 = ch i := by
            by_cases hnil : (ch i).isNil
            · cases hx : ch i <;> simp_all [WN.isNil, calcHash]
            · apply calcHash_of_clean; simpa [hnil] using hc
          exact ⟨this, rfl, rfl⟩
        · simp only [hc, Bool.false_eq_true, if_false]
          exact ih i (lvl + 1)
      have hnode := List.map_congr_left (l := allNib) (fun i _ => (hkids i).1)
      have hputs := List.map_congr_left (l := allNib) (fun i _ => (hkids i).2.1)
      have hcre := List.map_congr_left (l := allNib) (fun i _ => (hkids i).2.2)
      simp only [List.flatMap_def, List.map_map, Function.comp_def] at hnode hputs hcre ⊢
      rw [hnode, hputs, hcre, saveNode_routing_hash H _ h]
      exact ⟨rfl, rfl, rfl⟩

/-- per-child commit results of a refreshed children table -/
theorem commitKids_refresh (H : Bytes → Bytes) (collapse : Int) (ch : Nib → WN) (lvl : Nat) (i : Nib) :
    CRes.same
      (if (ofList (allNib.map (fun i => (calcHash H (ch i)).1)) i).isNil || !(ofList (allNib.map (fun i => (calcHash H (ch i)).1)) i).dirty
        then ({ node := ofList (allNib.map (fun i => (calcHash H (ch i)).1)) i } : CRes)
        else commitNode H collapse lvl (ofList (allNib.map (fun i => (calcHash H (ch i)).1)) i))
      (if (ch i).isNil || !(ch i).dirty then ({ node := ch i } : CRes) else commitNode H collapse lvl (ch i)) := by
  rw [ofList_map_allNib]
  simp only [calcHash_fst_isNil, calcHash_fst_dirty]
  by_cases hc : (ch i).isNil || !(ch i).dirty
  · simp only [hc, if_true]
    have : (calcHash H (ch i)).1 = ch i := by
      by_cases hnil : (ch i).isNil
      · cases hx : ch i <;> simp_all [WN.isNil, calcHash]
      · apply calcHash_of_clean; simpa [hnil] using hc
    exact ⟨this, rfl, rfl⟩
  · simp only [hc, Bool.false_eq_true, if_false]
    exact commitNode_refresh H collapse (ch i) lvl

/-- `Root()` followed by `Commit(lvl)` writes exactly the batch that `Commit(lvl)` alone writes, leaves the same trie in
    memory and lists the same hashes as created: reading the root hash of a modified trie is harmless (fix 8a63293). -/
theorem commit_after_root (H : Bytes → Bytes) (t : WT) (lvl : Int) :
    (commit H (rootHash H t).1 lvl).2 = (commit H t lvl).2 ∧
    (commit H (rootHash H t).1 lvl).1.root = (commit H t lvl).1.root ∧
    (commit H (rootHash H t).1 lvl).1.created = (commit H t lvl).1.created ∧
    (commit H (rootHash H t).1 lvl).1.store = (commit H t lvl).1.store := by
  unfold rootHash
  by_cases hd : t.root.dirty
  · simp only [hd, if_true]
    have hd' : (calcHash H t.root).1.dirty = true := by rw [calcHash_fst_dirty]; exact hd
    unfold commit
    simp only [hd, hd', Bool.not_true, Bool.false_eq_true, if_false]
    cases hr : t.root with
    | nil => simp [hr, WN.dirty] at hd
    | empty => simp [hr, WN.dirty] at hd
    | hashRef h w => simp [hr, WN.dirty] at hd
    | value h v w d =>
      have hdt : d = true := by simpa [hr, WN.dirty] using hd
      subst hdt
      obtain ⟨e1, e2, e3⟩ := commitNode_refresh H lvl (.value h v w true) 0
      simp only [calcHash, if_true] at e1 e2 e3 ⊢
      simp only [e1, e2, e3, and_self]
    | short k h c d tc =>
      have hdt : d = true := by simpa [hr, WN.dirty] using hd
      subst hdt
      obtain ⟨e1, e2, e3⟩ := commitNode_refresh H lvl (.short k h c true tc) 0
      by_cases hn : c.isNil
      · simp only [calcHash, hn, if_true] at e1 e2 e3 ⊢
        simp only [e1, e2, e3, and_self]
      · simp only [calcHash, hn, if_true, if_false, Bool.false_eq_true] at e1 e2 e3 ⊢
        simp only [e1, e2, e3, and_self]
    | routing h ch w d tc =>
      have hdt : d = true := by simpa [hr, WN.dirty] using hd
      subst hdt
      simp only [calcHash, if_true, List.map_map, Function.comp_def]
      have hnode := List.map_congr_left (l := allNib) (fun i _ => (commitKids_refresh H lvl ch 1 i).1)
      have hputs := List.map_congr_left (l := allNib) (fun i _ => (commitKids_refresh H lvl ch 1 i).2.1)
      have hcre := List.map_congr_left (l := allNib) (fun i _ => (commitKids_refresh H lvl ch 1 i).2.2)
      simp only [List.flatMap_def, List.map_map, Function.comp_def] at hnode hputs hcre ⊢
      rw [hnode, hputs, hcre, saveNode_routing_hash H _ h]
      simp
  · simp [hd]

end Verif.Wmpt
