/-
Origins along a `TrieRun` with per-segment versions (own rounds of a trie and of its nested children run at versions
satisfying `Vok`): the nodes of the final tree are nodes of the start tree or NEW nodes of the run's events, the new
nodes carry versions satisfying `Vok`, and every node an event mentions is a node of the start tree or was created at a
version satisfying `Vok`.
-/
import Verif.Lemmas.NotStuck
import Verif.Lemmas.MptChain
namespace Verif.MptStore
open Verif.Mpt Collector

namespace Collector
variable {κ N : Type} [DecidableEq κ]

/-- every pending NEW node satisfies `Pn` -/
def NewsIn (Pn : N → Prop) (cc : Collector κ N) : Prop := ∀ e ∈ cc.changes, Pn e.2.new

def CallNew (Pn : N → Prop) : Call N → Prop
  | .add _ n => Pn n
  | .del _ => True

theorem newsIn_step (k : N → κ) (Pn : N → Prop) {cc : Collector κ N} (h : NewsIn Pn cc) (c : Call N) (hc : CallNew Pn c) :
    NewsIn Pn (step k cc c) := by
  cases c with
  | del o =>
    simp only [step, deleteChange]
    cases hg : Map.get cc.changes (k o) with
    | some c0 => exact fun e he => h e (Map.mem_del he)
    | none => exact h
  | add o n =>
    have hput : ∀ (m : Map κ (Change N)) (po : Option N), (∀ e ∈ m, Pn e.2.new) →
        ∀ e ∈ Map.put m (k n) ⟨po, n⟩, Pn e.2.new := by
      intro m po hm e he
      rcases Map.mem_put he with rfl | he
      · exact hc
      · exact hm e he
    have herased : ∀ e ∈ Map.del cc.changes (match o with | some o => k o | none => k n), Pn e.2.new :=
      fun e he => h e (Map.mem_del he)
    cases o with
    | none => simp only [step, addChange]; exact hput _ _ h
    | some o =>
      simp only [step, addChange]
      cases hg : Map.get cc.changes (k o) with
      | none => simp only; exact hput _ _ h
      | some prev =>
        simp only
        cases hpo : prev.old with
        | none => simp only; exact hput _ _ herased
        | some po =>
          simp only
          by_cases hback : k n = k po
          · simp only [hback, if_true]; exact herased
          · simp only [hback, if_false]; exact hput _ _ herased

theorem newsIn_run (k : N → κ) (Pn : N → Prop) (cs : List (Call N)) :
    ∀ {cc : Collector κ N}, NewsIn Pn cc → (∀ c ∈ cs, CallNew Pn c) → NewsIn Pn (run k cc cs) := by
  induction cs with
  | nil => intro cc h _; exact h
  | cons c cs ih =>
    intro cc h hc
    exact ih (newsIn_step k Pn h c (hc c (List.mem_cons_self ..))) (fun c' hc' => hc c' (List.mem_cons_of_mem _ hc'))

/-- a key live after some calls was live before or is the key of a NEW node of a call -/
theorem liveRun_sub_news (k : N → κ) (Pn : N → Prop) (cs : List (Call N)) :
    ∀ (L : κ → Prop), (∀ c ∈ cs, CallNew Pn c) → ∀ x, liveRun k L cs x → L x ∨ ∃ n, Pn n ∧ k n = x := by
  induction cs with
  | nil => intro L _ x h; exact Or.inl h
  | cons c cs ih =>
    intro L hc x h
    rcases ih _ (fun c' hc' => hc c' (List.mem_cons_of_mem _ hc')) x h with h1 | h1
    · have hcn := hc c (List.mem_cons_self ..)
      cases c with
      | del o => exact Or.inl h1.1
      | add o n =>
        cases o with
        | none => exact h1.elim (fun e => Or.inr ⟨n, hcn, e.symm⟩) Or.inl
        | some o => exact h1.elim (fun e => Or.inr ⟨n, hcn, e.symm⟩) (fun h => Or.inl h.1)
    · exact Or.inr h1

end Collector

theorem mem_newRefs_of_put {o : Option Ref} {n : Ref} : ∀ {es : List Event}, Event.put o n ∈ es → n ∈ newRefs es := by
  intro es
  induction es with
  | nil => intro h; cases h
  | cons e es ih =>
    intro h
    rcases List.mem_cons.mp h with h1 | h1
    · subst h1; simp [newRefs]
    · have := ih h1
      cases e <;> simp [newRefs, this]

theorem callNew_callsOf (H : Bytes → Bytes) (es : List Event) : ∀ c ∈ callsOf H es, CallNew (fun r => r ∈ newRefs es) c := by
  intro c hc
  simp only [callsOf, List.mem_filterMap] at hc
  obtain ⟨e, he, hce⟩ := hc
  cases e with
  | del o => simp [callOf] at hce; subst hce; trivial
  | put o n =>
    have hn := mem_newRefs_of_put he
    cases o with
    | none => simp [callOf] at hce; subst hce; exact hn
    | some o =>
      simp only [callOf] at hce
      by_cases hk : o.key H = n.key H
      · simp [hk] at hce
      · simp [hk] at hce; subst hce; exact hn

theorem newRefs_mergeEvents (cs : List (Change Ref)) (ds : List Ref) : newRefs (mergeEvents cs ds) = cs.map (·.new) := by
  simp only [mergeEvents, newRefs_append]
  have h1 : ∀ l : List (Change Ref), newRefs (l.map (fun c => Event.put c.old c.new)) = l.map (·.new) := by
    intro l; induction l with
    | nil => rfl
    | cons c l ih => simp [newRefs, ih]
  have h2 : ∀ l : List Ref, newRefs (l.map Event.del) = [] := by
    intro l; induction l with
    | nil => rfl
    | cons d l ih => simp [newRefs, ih]
  rw [h1, h2]; simp

/-- origins and provenance along a run -/
theorem trieRun_origins (H : Bytes → Bytes) (U : Ref → Prop) (hU : KeyInjOn H U) {Vok : Nat → Prop} {t t' : Node}
    {es : List Event} (h : TrieRun H U Vok t es t') : WF t → (∀ r ∈ refs t [], U r) →
    (∀ r ∈ refs t' [], r ∈ refs t [] ∨ r ∈ newRefs es) ∧
    (∀ n ∈ newRefs es, Vok (origin n.t)) ∧
    (∀ r ∈ eventRefs es, r ∈ refs t [] ∨ Vok (origin r.t)) := by
  induction h with
  | nil t => intro _ _; exact ⟨fun r hr => Or.inl hr, fun n hn => (by cases hn), fun r hr => (by cases hr)⟩
  | own v t t1 t' es1 es hv hr hE _ ih =>
    intro hw hUt
    obtain ⟨hd, hc, hw1⟩ := round_ok hr hw (fun r => r ∈ refs t []) (fun _ h => h)
    have h1sub : ∀ r ∈ refs t1 [], r ∈ refs t [] ∨ r ∈ newRefs es1 := fun r hr' => liveRunR_new es1 _ r (hc r hr')
    have hUt1 : ∀ r ∈ refs t1 [], U r := by
      intro r hr'
      rcases liveRunR_sub es1 _ r (hc r hr') with h1 | h1
      · exact hUt r h1
      · exact hE r h1
    have hnew1 : ∀ n ∈ newRefs es1, Vok (origin n.t) := fun n hn => by rw [round_new_origin hr n hn]; exact hv
    obtain ⟨i1, i2, i3⟩ := ih hw1 hUt1
    refine ⟨?_, ?_, ?_⟩
    · intro r hr'
      rw [newRefs_append, List.mem_append]
      rcases i1 r hr' with h | h
      · rcases h1sub r h with h | h
        · exact Or.inl h
        · exact Or.inr (Or.inl h)
      · exact Or.inr (Or.inr h)
    · intro n hn
      rw [newRefs_append, List.mem_append] at hn
      rcases hn with hn | hn
      · exact hnew1 n hn
      · exact i2 n hn
    · intro r hr'
      rcases (eventRefs_append _ _ r).mp hr' with h | h
      · rcases eventRefs_sub_of_disc es1 _ hd r h with h | h
        · exact Or.inl h
        · exact Or.inr (hnew1 r h)
      · rcases i3 r h with h | h
        · rcases h1sub r h with h | h
          · exact Or.inl h
          · exact Or.inr (hnew1 r h)
        · exact Or.inr h
  | merge t t2 t' c0 esC es cs hfreshC hchild hpermcs _ _ ihC ih =>
    intro hw hUt
    obtain ⟨c1, c2, c3⟩ := ihC hw hUt
    obtain ⟨hdC, hcC, hw2, hEC, hUt2⟩ := trieRun_discipline H U hU hchild hw hUt (fun x => x ∈ (refs t []).map (Ref.key H))
      (fun r hr => List.mem_map.mpr ⟨r, hr, rfl⟩)
      (by intro x hx; obtain ⟨r, hr, hk⟩ := List.mem_map.mp hx; exact ⟨r, hUt r hr, hk⟩)
    obtain ⟨inv, inv2, prov⟩ := collector_invs H _ c0 esC hfreshC hdC
    have hperm := (orderChanges_perm H cs).trans hpermcs
    -- the NEW nodes of the child's pending changes are new nodes of the child's events
    have hnews : NewsIn (fun r => r ∈ newRefs esC) (c0.applyEvents H esC).cc := by
      have hcc0 : c0.cc = { startRoot := c0.cc.startRoot } := by
        cases hb : c0.cc with
        | mk s c d => rw [hb] at hfreshC; simp at hfreshC; simp [hfreshC.1, hfreshC.2]
      rw [applyEvents_cc, hcc0]
      exact newsIn_run (Ref.key H) _ (callsOf H esC) (by intro e he; cases he) (callNew_callsOf H esC)
    have hmnew : ∀ n ∈ newRefs (mergeEvents (orderChanges H cs) (c0.applyEvents H esC).cc.getDeletes), n ∈ newRefs esC := by
      intro n hn
      rw [newRefs_mergeEvents] at hn
      obtain ⟨c, hc, rfl⟩ := List.mem_map.mp hn
      have hc' : c ∈ (c0.applyEvents H esC).cc.getChanges := hperm.mem_iff.mp hc
      simp only [getChanges] at hc'
      obtain ⟨e, he, rfl⟩ := List.mem_map.mp hc'
      exact hnews e he
    -- every node the replay mentions is mentioned by the child's events
    have hmrefs : ∀ r ∈ eventRefs (mergeEvents (orderChanges H cs) (c0.applyEvents H esC).cc.getDeletes), r ∈ eventRefs esC := by
      intro r hr'
      simp only [mergeEvents] at hr'
      rcases (eventRefs_append _ _ r).mp hr' with h1 | h1
      · have : ∀ (l : List (Change Ref)), (∀ c ∈ l, c.new ∈ eventRefs esC ∧ ∀ o, c.old = some o → o ∈ eventRefs esC) →
            r ∈ eventRefs (l.map (fun c => Event.put c.old c.new)) → r ∈ eventRefs esC := by
          intro l
          induction l with
          | nil => intro _ h; cases h
          | cons c l ihl =>
            intro hl h
            rcases c with ⟨_ | o, n⟩
            · simp only [List.map_cons, eventRefs, List.mem_cons] at h
              rcases h with rfl | h
              · exact (hl _ (List.mem_cons_self ..)).1
              · exact ihl (fun c' hc' => hl c' (List.mem_cons_of_mem _ hc')) h
            · simp only [List.map_cons, eventRefs, List.mem_cons] at h
              rcases h with rfl | rfl | h
              · exact (hl _ (List.mem_cons_self ..)).2 _ rfl
              · exact (hl _ (List.mem_cons_self ..)).1
              · exact ihl (fun c' hc' => hl c' (List.mem_cons_of_mem _ hc')) h
        apply this _ _ h1
        intro c hc
        have hc' : c ∈ (c0.applyEvents H esC).cc.getChanges := hperm.mem_iff.mp hc
        obtain ⟨e, he, rfl⟩ := List.mem_map.mp hc'
        exact (prov.changes e he).2
      · have : ∀ (l : List Ref), (∀ d ∈ l, d ∈ eventRefs esC) → r ∈ eventRefs (l.map Event.del) → r ∈ eventRefs esC := by
          intro l
          induction l with
          | nil => intro _ h; cases h
          | cons d l ihl =>
            intro hl h
            simp only [List.map_cons, eventRefs, List.mem_cons] at h
            rcases h with rfl | h
            · exact hl _ (List.mem_cons_self ..)
            · exact ihl (fun d' hd' => hl d' (List.mem_cons_of_mem _ hd')) h
        apply this _ _ h1
        intro d hd'
        simp only [getDeletes] at hd'
        obtain ⟨e, he, rfl⟩ := List.mem_map.mp hd'
        exact (prov.deletes e he).2
    -- a node of the child's tree is a node of the start tree or the NEW node of a pending change
    have h2sub : ∀ r ∈ refs t2 [], r ∈ refs t [] ∨
        r ∈ newRefs (mergeEvents (orderChanges H cs) (c0.applyEvents H esC).cc.getDeletes) := by
      intro r hr'
      rcases inv.live_cover (r.key H) (hcC r hr') with h0 | hp
      · obtain ⟨r0, hr0, hk0⟩ := List.mem_map.mp h0
        have := hU r0 r (hUt r0 hr0) (hUt2 r hr') hk0
        exact Or.inl (this ▸ hr0)
      · right
        cases hg : Map.get (c0.applyEvents H esC).cc.changes (r.key H) with
        | none => rw [hg] at hp; simp at hp
        | some c =>
          have hmem := Map.mem_of_get hg
          have hkc := (prov.changes _ hmem).1
          have hcU : U c.new := hEC _ (prov.changes _ hmem).2.1
          have hcr : c.new = r := hU c.new r hcU (hUt2 r hr') hkc
          rw [newRefs_mergeEvents]
          exact List.mem_map.mpr ⟨c, hperm.mem_iff.mpr (List.mem_map.mpr ⟨_, hmem, rfl⟩), hcr⟩
    obtain ⟨i1, i2, i3⟩ := ih hw2 hUt2
    refine ⟨?_, ?_, ?_⟩
    · intro r hr'
      rw [newRefs_append, List.mem_append]
      rcases i1 r hr' with h | h
      · rcases h2sub r h with h | h
        · exact Or.inl h
        · exact Or.inr (Or.inl h)
      · exact Or.inr (Or.inr h)
    · intro n hn
      rw [newRefs_append, List.mem_append] at hn
      rcases hn with hn | hn
      · exact c2 n (hmnew n hn)
      · exact i2 n hn
    · intro r hr'
      rcases (eventRefs_append _ _ r).mp hr' with h | h
      · exact c3 r (hmrefs r h)
      · rcases i3 r h with h | h
        · rcases h2sub r h with h | h
          · exact Or.inl h
          · exact Or.inr (c2 r (hmnew r h))
        · exact Or.inr h

end Verif.MptStore
