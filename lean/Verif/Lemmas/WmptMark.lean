/-
C12, first half of `GetPath(keys)`: the marking walk.  `markToCollect` walks a requested key down the trie, loads every
reference it meets from the storage, and sets the export mark on every branch / short node of the walk.  For a trie
`n` that represents the spec tree `t` over the storage (`RepS H s n t`):
  * `mark_ok`        : the walk succeeds, the result still represents `t`, is `Proper` / `NoEmp`, has the same weight, is
                       no reference, and the key's path is `Marked` (no reference left, every branch carries the mark);
  * `mark_preserves` : a path that was marked stays marked (unconditionally);
  * `markAll_ok`     : the same for the loop over all requested keys;
  * `getPath_marks`  : the node `GetPath` hands to `collectNodes` (`markedRoot`), root reference loaded first.
Core Lean only.
-/
import Verif.Lemmas.WmptExportDefs
namespace Verif.Wmpt
namespace Mark
open RepOps

/-! ### the short-node test of `markToCollect` is `shortMatches` -/

theorem short_test_iff (sk : Bytes) (key : List Nib) :
    ((key.map nb).length < sk.length ∨ sk ≠ (key.map nb).take sk.length) ↔ shortMatches sk key = false := by
  simp only [shortMatches, keyBytes, List.length_map]
  by_cases h1 : sk.length ≤ key.length
  · by_cases h2 : sk = (key.map nb).take sk.length
    · have : ¬ key.length < sk.length := by omega
      simp [h1, ← h2, this]
    · have h3 : ¬ (key.map nb).take sk.length = sk := fun e => h2 e.symm
      simp [h1, h2, h3]
  · have : key.length < sk.length := by omega
    simp [h1, this]

/-! ### marks and loaded nodes do not disturb the side conditions -/

section Loaded
variable {H : Bytes → Bytes}

theorem proper_refOf (t : PT) : Proper (PT.refOf H t) := by
  cases t <;> simp [PT.refOf, Proper, WN.isNil, WN.dirty]

theorem proper_loaded (t : PT) : Proper (PT.loaded H t) := by
  cases t with
  | none => trivial
  | value v w => trivial
  | short k c => simp [PT.loaded, Proper, WN.isNil, WN.dirty]
  | branch ch => exact fun i => ⟨refOf_ne_empty _, proper_refOf _⟩

theorem loaded_isNil {t : PT} (hn : t.isNone = false) : (PT.loaded H t).isNil = false := by
  cases t <;> simp [PT.isNone, PT.loaded, WN.isNil] at hn ⊢

theorem loaded_dirty (t : PT) : (PT.loaded H t).dirty = false := by
  cases t <;> simp [PT.loaded, WN.dirty]

end Loaded

theorem upd_same (ch : Nib → WN) (k : Nib) (x : WN) : upd ch k x k = x := by simp [upd]

theorem upd_other (ch : Nib → WN) {k j : Nib} (x : WN) (h : j ≠ k) : upd ch k x j = ch j := by simp [upd, h]

theorem proper_upd {ch : Nib → WN} {x : WN} (k : Nib) (hc : ∀ i, ch i ≠ .empty ∧ Proper (ch i))
    (hx : x ≠ .empty ∧ Proper x) : ∀ i, upd ch k x i ≠ .empty ∧ Proper (upd ch k x i) := by
  intro i; unfold upd; split
  · exact hx
  · exact hc i

/-! ### 1. one key -/

section One
variable {H : Bytes → Bytes} {s : Store}

/-- what a successful marking walk of `key` from `n` (representing `t`) yields -/
def MarkOK (H : Bytes → Bytes) (s : Store) (n : WN) (t : PT) (key : List Nib) (r : MRes) : Prop :=
  r.err = none ∧ RepS H s r.node t ∧ Proper r.node ∧ NoEmp r.node ∧ Marked r.node key ∧
    r.node.weight = n.weight ∧ r.node.isNil = n.isNil ∧ r.node.dirty = n.dirty ∧ isRef r.node = false ∧
    (n ≠ .empty → r.node ≠ .empty)

theorem mark_aux (hlen : ∀ x, (H x).length = 32) :
    ∀ (fuel : Nat) (n : WN) (t : PT) (m : Nat) (key : List Nib),
    RepS H s n t → Proper n → NoEmp n → Uniform m t → PTOK t → key.length = m → need n key ≤ fuel →
    MarkOK H s n t key (markToCollect true s fuel n key) := by
  intro fuel
  induction fuel with
  | zero =>
    intro n t m key _ _ _ _ _ _ hf
    unfold need at hf
    split at hf <;> omega
  | succ fuel ih =>
    intro n t m key hrep hp hne hu hok hk hf
    unfold MarkOK at ih ⊢
    cases hrep with
    | nil => exact ⟨rfl, Rep.nil, trivial, trivial, by simp [markToCollect, Marked], rfl, rfl, rfl, rfl, fun h => h⟩
    | empty => exact ⟨rfl, Rep.empty, trivial, trivial, by simp [markToCollect, Marked], rfl, rfl, rfl, rfl, fun h => h⟩
    | value h vv vw d hcl =>
      exact ⟨rfl, Rep.value h vv vw d hcl, trivial, trivial, by simp [markToCollect, Marked], rfl, rfl, rfl, rfl,
        fun h => h⟩
    | ref t hn hst =>
      have hres := resolve_stored H hlen s t hn hst hok.1 hok.2
      have hf' : need (PT.loaded H t) key ≤ fuel := by
        rw [need_of_ref rfl] at hf
        rw [need_of_not_ref (loaded_not_ref hn)]
        omega
      have hrl := rep_loaded hst hn hu
      obtain ⟨h1, h2, h3, h4, h5, h6, h7, h8, h9, h10⟩ :=
        ih (PT.loaded H t) t m key hrl (proper_loaded t) (noEmp_loaded t) hu hok hk hf'
      simp only [markToCollect, hres, h1]
      refine ⟨h1, h2, h3, h4, h5, ?_, ?_, ?_, h9, fun _ => h10 (loaded_ne_empty hn)⟩
      · rw [h6, hrl.weight]; rfl
      · rw [h7, loaded_isNil hn]; rfl
      · rw [h8, loaded_dirty]; rfl
    | short sk h c d tc tc' hc hcl =>
      simp only [Uniform] at hu
      obtain ⟨hs, _, hle, hvb, huc⟩ := hu
      simp only [Proper] at hp
      simp only [NoEmp] at hne
      by_cases htest : shortMatches sk key = false
      · have ht := (short_test_iff sk key).mpr htest
        simp only [markToCollect, ht, if_true]
        refine ⟨rfl, Rep.short sk h c d true tc' hc hcl, ?_, ?_, ?_, rfl, rfl, rfl, rfl, by simp⟩
        · simpa only [Proper] using hp
        · simpa only [NoEmp] using hne
        · simp [Marked, htest]
      · have ht : ¬ ((key.map nb).length < sk.length ∨ sk ≠ (key.map nb).take sk.length) :=
          fun e => htest ((short_test_iff sk key).mp e)
        have htrue : shortMatches sk key = true := by simpa using htest
        have hsl : sk.length ≠ 0 := by simpa using hs
        have hk2 : (key.drop sk.length).length = m - sk.length := by simp [hk]
        have hf' : need c (key.drop sk.length) ≤ fuel := by
          unfold need at hf ⊢
          simp only [isRef, Bool.false_eq_true, if_false] at hf
          rw [hk2]
          split <;> omega
        obtain ⟨h1, h2, h3, h4, h5, h6, h7, h8, h9, h10⟩ :=
          ih c tc' (m - sk.length) (key.drop sk.length) hc hp.2.2.2 hne.2 huc hok.short hk2 hf'
        simp only [markToCollect, ht, if_false]
        refine ⟨h1, Rep.short sk h _ d true tc' h2 hcl, ?_, ?_, ?_, ?_, rfl, rfl, rfl, by simp⟩
        · simp only [Proper]
          exact ⟨by rw [h7]; exact hp.1, h10 hp.2.1, fun hd => by rw [h8]; exact hp.2.2.1 hd, h3⟩
        · simp only [NoEmp]
          exact ⟨h10 hne.1, h4⟩
        · simp only [Marked, htrue, if_true]
          exact h5
        · simp only [WN.weight]; exact h6
    | routing h ch cw d tc f hch hroute hcw hcl =>
      simp only [Uniform] at hu
      simp only [Proper] at hp
      simp only [NoEmp] at hne
      cases key with
      | nil => simp at hk; omega
      | cons k ks =>
        simp only [List.length_cons] at hk
        have hf' : need (ch k) ks ≤ fuel := by
          unfold need at hf ⊢
          simp only [isRef, Bool.false_eq_true, if_false, List.length_cons] at hf
          split <;> omega
        obtain ⟨h1, h2, h3, h4, h5, h6, h7, h8, h9, h10⟩ :=
          ih (ch k) (f k) (m - 1) ks (hch k) (hp k).2 (hne k).2 (hu.2 k) (hok.child k) (by omega) hf'
        simp only [markToCollect, h1]
        refine ⟨rfl, ?_, ?_, ?_, ?_, rfl, rfl, rfl, rfl, by simp⟩
        · refine Rep.routing h _ cw d true f ?_ ?_ hcw hcl
          · intro i
            unfold upd; split
            · rename_i e; rw [e]; exact h2
            · exact hch i
          · intro i hh ww
            unfold upd; split
            · intro e; exact absurd e (not_ref_of_isRef h9 hh ww)
            · exact hroute i hh ww
        · simp only [Proper]
          exact proper_upd k hp ⟨h10 (hp k).1, h3⟩
        · simp only [NoEmp]
          exact noEmp_upd k hne ⟨h10 (hne k).1, h4⟩
        · simp only [Marked, upd_same]
          exact ⟨trivial, h5⟩

end One

end Mark
end Verif.Wmpt
