/-
C12, first half of `GetPath(keys)`: the marking walk.  `markToCollect` walks a requested key down the trie, loads every
reference it meets from the storage, and sets the export mark on every branch / short node of the walk.  For a trie
`n` that represents the spec tree `t` over the storage (`RepS H s n t`):
  * `mark_ok`        : the walk succeeds, the result still represents `t`, is `Proper` / `NoEmp`, has the same weight, is
                       no reference, and the key's path is `Marked` (no reference left, every branch carries the mark);
  * `mark_preserves` : a path that was marked stays marked (unconditionally);
  * `markAll_ok`     : the same for the loop over all requested keys;
  * `getPath_marks`  : the node `GetPath` hands to `collectNodes` (`markedRoot`), root reference loaded first; `markedRoot`
                       is stated with the sequential strategy, Verif.Lemmas.WmptMarkPar shows the per-branch parallel
                       one yields the same node.
Core Lean only.
-/
import Verif.Lemmas.WmptExportDefs
import Verif.Lemmas.WmptMarkPar
namespace Verif.Wmpt
namespace Mark
open RepOps

/-! ### the short-node test of `markToCollect` is `shortMatches` -/

theorem short_test_iff (sk : Bytes) (key : List Nib) :
    ((key.map nb).length < sk.length ∨ sk ≠ (key.map nb).take sk.length) ↔ shortMatches sk key = false := by
  simp only [shortMatches, keyBytes, List.length_map]
  by_cases h1 : sk.length ≤ key.length
  · by_cases h2 : sk = (key.map nb).take sk.length
    · have : ¬ key.length < sk.length := by omega
      simp [h1, ← h2, this]
    · have h3 : ¬ (key.map nb).take sk.length = sk := fun e => h2 e.symm
      simp [h1, h2, h3]
  · have : key.length < sk.length := by omega
    simp [h1, this]

/-! ### marks and loaded nodes do not disturb the side conditions -/

section Loaded
variable {H : Bytes → Bytes}

theorem proper_refOf (t : PT) : Proper (PT.refOf H t) := by
  cases t <;> simp [PT.refOf, Proper, WN.isNil, WN.dirty]

theorem proper_loaded (t : PT) : Proper (PT.loaded H t) := by
  cases t with
  | none => trivial
  | value v w => trivial
  | short k c => simp [PT.loaded, Proper, WN.isNil, WN.dirty]
  | branch ch => exact fun i => ⟨refOf_ne_empty _, proper_refOf _⟩

theorem loaded_isNil {t : PT} (hn : t.isNone = false) : (PT.loaded H t).isNil = false := by
  cases t <;> simp [PT.isNone, PT.loaded, WN.isNil] at hn ⊢

theorem loaded_dirty (t : PT) : (PT.loaded H t).dirty = false := by
  cases t <;> simp [PT.loaded, WN.dirty]

end Loaded

theorem upd_same (ch : Nib → WN) (k : Nib) (x : WN) : upd ch k x k = x := by simp [upd]

theorem upd_other (ch : Nib → WN) {k j : Nib} (x : WN) (h : j ≠ k) : upd ch k x j = ch j := by simp [upd, h]

theorem proper_upd {ch : Nib → WN} {x : WN} (k : Nib) (hc : ∀ i, ch i ≠ .empty ∧ Proper (ch i))
    (hx : x ≠ .empty ∧ Proper x) : ∀ i, upd ch k x i ≠ .empty ∧ Proper (upd ch k x i) := by
  intro i; unfold upd; split
  · exact hx
  · exact hc i

/-! ### 1. one key -/

section One
variable {H : Bytes → Bytes} {s : Store}

/-- what a successful marking walk of `key` from `n` (representing `t`) yields -/
def MarkOK (H : Bytes → Bytes) (s : Store) (n : WN) (t : PT) (key : List Nib) (r : MRes) : Prop :=
  r.err = none ∧ RepS H s r.node t ∧ Proper r.node ∧ NoEmp r.node ∧ Marked r.node key ∧
    r.node.weight = n.weight ∧ r.node.isNil = n.isNil ∧ r.node.dirty = n.dirty ∧ isRef r.node = false ∧
    (n ≠ .empty → r.node ≠ .empty)

theorem mark_aux (hlen : ∀ x, (H x).length = 32) :
    ∀ (fuel : Nat) (n : WN) (t : PT) (m : Nat) (key : List Nib),
    RepS H s n t → Proper n → NoEmp n → Uniform m t → PTOK t → key.length = m → need n key ≤ fuel →
    MarkOK H s n t key (markToCollect true s fuel n key) := by
  intro fuel
  induction fuel with
  | zero =>
    intro n t m key _ _ _ _ _ _ hf
    unfold need at hf
    split at hf <;> omega
  | succ fuel ih =>
    intro n t m key hrep hp hne hu hok hk hf
    unfold MarkOK at ih ⊢
    cases hrep with
    | nil => exact ⟨rfl, Rep.nil, trivial, trivial, by simp [markToCollect, Marked], rfl, rfl, rfl, rfl, fun h => h⟩
    | empty => exact ⟨rfl, Rep.empty, trivial, trivial, by simp [markToCollect, Marked], rfl, rfl, rfl, rfl, fun h => h⟩
    | value h vv vw d hcl =>
      exact ⟨rfl, Rep.value h vv vw d hcl, trivial, trivial, by simp [markToCollect, Marked], rfl, rfl, rfl, rfl,
        fun h => h⟩
    | ref t hn hst =>
      have hres := resolve_stored H hlen s t hn hst hok.1 hok.2
      have hf' : need (PT.loaded H t) key ≤ fuel := by
        rw [need_of_ref rfl] at hf
        rw [need_of_not_ref (loaded_not_ref hn)]
        omega
      have hrl := rep_loaded hst hn hu
      obtain ⟨h1, h2, h3, h4, h5, h6, h7, h8, h9, h10⟩ :=
        ih (PT.loaded H t) t m key hrl (proper_loaded t) (noEmp_loaded t) hu hok hk hf'
      simp only [markToCollect, hres, h1]
      refine ⟨trivial, h2, h3, h4, h5, ?_, ?_, ?_, h9, fun _ => h10 (loaded_ne_empty hn)⟩
      · rw [h6, hrl.weight]; rfl
      · rw [h7, loaded_isNil hn]; rfl
      · rw [h8, loaded_dirty]; rfl
    | short sk h c d tc tc' hc hcl =>
      simp only [Uniform] at hu
      obtain ⟨hs, _, hle, hvb, huc⟩ := hu
      simp only [Proper] at hp
      simp only [NoEmp] at hne
      by_cases htest : shortMatches sk key = false
      · have ht := (short_test_iff sk key).mpr htest
        simp only [markToCollect, ht, if_true]
        refine ⟨trivial, Rep.short sk h c d true tc' hc hcl, ?_, ?_, ?_, rfl, rfl, rfl, rfl, by simp⟩
        · simpa only [Proper] using hp
        · simpa only [NoEmp] using hne
        · simp [Marked, htest]
      · have ht : ¬ ((key.map nb).length < sk.length ∨ sk ≠ (key.map nb).take sk.length) :=
          fun e => htest ((short_test_iff sk key).mp e)
        have htrue : shortMatches sk key = true := by simpa using htest
        have hsl : sk.length ≠ 0 := by simpa using hs
        have hk2 : (key.drop sk.length).length = m - sk.length := by simp [hk]
        have hf' : need c (key.drop sk.length) ≤ fuel := by
          unfold need at hf ⊢
          simp only [isRef, Bool.false_eq_true, if_false] at hf
          rw [hk2]
          split <;> omega
        obtain ⟨h1, h2, h3, h4, h5, h6, h7, h8, h9, h10⟩ :=
          ih c tc' (m - sk.length) (key.drop sk.length) hc hp.2.2.2 hne.2 huc hok.short hk2 hf'
        simp only [markToCollect, ht, if_false]
        refine ⟨h1, Rep.short sk h _ d true tc' h2 hcl, ?_, ?_, ?_, ?_, rfl, rfl, rfl, by simp⟩
        · simp only [Proper]
          exact ⟨by rw [h7]; exact hp.1, h10 hp.2.1, fun hd => by rw [h8]; exact hp.2.2.1 hd, h3⟩
        · simp only [NoEmp]
          exact ⟨h10 hne.1, h4⟩
        · simp only [Marked, htrue, if_true]
          exact h5
        · simp only [WN.weight]; exact h6
    | routing h ch cw d tc f hch hroute hcw hcl =>
      simp only [Uniform] at hu
      simp only [Proper] at hp
      simp only [NoEmp] at hne
      cases key with
      | nil => simp at hk; omega
      | cons k ks =>
        simp only [List.length_cons] at hk
        have hf' : need (ch k) ks ≤ fuel := by
          unfold need at hf ⊢
          simp only [isRef, Bool.false_eq_true, if_false, List.length_cons] at hf
          split <;> omega
        obtain ⟨h1, h2, h3, h4, h5, h6, h7, h8, h9, h10⟩ :=
          ih (ch k) (f k) (m - 1) ks (hch k) (hp k).2 (hne k).2 (hu.2 k) (hok.child k) (by omega) hf'
        simp only [markToCollect, h1]
        refine ⟨trivial, ?_, ?_, ?_, ?_, rfl, rfl, rfl, rfl, by simp⟩
        · refine Rep.routing h _ cw d true f ?_ ?_ hcw hcl
          · intro i
            unfold upd; split
            · rename_i e; rw [e]; exact h2
            · exact hch i
          · intro i hh ww
            unfold upd; split
            · intro e; exact absurd e (not_ref_of_isRef h9 hh ww)
            · exact hroute i hh ww
        · simp only [Proper]
          exact proper_upd k hp ⟨h10 (hp k).1, h3⟩
        · simp only [NoEmp]
          exact noEmp_upd k hne ⟨h10 (hne k).1, h4⟩
        · simp only [Marked, upd_same]
          exact ⟨trivial, h5⟩

/-- 1. the marking walk of one key through a trie with references into the storage.  A reference at the top is
replaced by the loaded (and marked) node, so the result is never a reference. -/
theorem mark_ok (hlen : ∀ x, (H x).length = 32) {n : WN} {t : PT} {m fuel : Nat} {key : List Nib}
    (hrep : RepS H s n t) (hp : Proper n) (hne : NoEmp n) (hu : Uniform m t) (hok : PTOK t) (hk : key.length = m)
    (hf : 2 * m + 2 ≤ fuel) :
    let r := markToCollect true s fuel n key
    r.err = none ∧ RepS H s r.node t ∧ Proper r.node ∧ NoEmp r.node ∧ Marked r.node key ∧
      r.node.weight = n.weight ∧ r.node.isNil = n.isNil ∧ r.node.dirty = n.dirty ∧ isRef r.node = false ∧
      (n ≠ .empty → r.node ≠ .empty) :=
  mark_aux hlen fuel n t m key hrep hp hne hu hok hk (Nat.le_trans (need_le n key) (by omega))

end One

/-! ### 2. marking only adds marks -/

/-- 2. a path that is reference-free and marked stays so, whatever the walk does (also when it fails) -/
theorem mark_preserves (hasDb : Bool) (s : Store) :
    ∀ (fuel : Nat) (n : WN) (key q : List Nib), Marked n q → Marked (markToCollect hasDb s fuel n key).node q := by
  intro fuel
  induction fuel with
  | zero => intro n key q h; exact h
  | succ fuel ih =>
    intro n key q hm
    cases n with
    | nil => exact hm
    | empty => exact hm
    | value h v w d => exact hm
    | hashRef h w => simp [Marked] at hm
    | short sk h c d tc =>
      simp only [markToCollect]
      split
      · simpa only [Marked] using hm
      · simp only [Marked] at hm ⊢
        split
        · rename_i hq
          rw [if_pos hq] at hm
          exact ih c _ _ hm
        · trivial
    | routing h ch w d tc =>
      cases key with
      | nil =>
        simp only [markToCollect]
        cases q with
        | nil => simp [Marked]
        | cons q0 qs =>
          simp only [Marked] at hm ⊢
          exact ⟨trivial, hm.2⟩
      | cons k ks =>
        cases q with
        | nil =>
          simp only [markToCollect]
          split <;> simp [Marked]
        | cons q0 qs =>
          simp only [Marked] at hm
          obtain ⟨htc, hmq⟩ := hm
          have hch : Marked (upd ch k (markToCollect hasDb s fuel (ch k) ks).node q0) qs := by
            unfold upd; split
            · rename_i e; rw [e] at hmq; exact ih (ch k) ks qs hmq
            · exact hmq
          simp only [markToCollect]
          split
          · simp only [Marked]; exact ⟨htc, hch⟩
          · simp only [Marked]; exact ⟨trivial, hch⟩

/-! ### 3. all requested keys -/

section All
variable {H : Bytes → Bytes} {s : Store}

/-- 3. the marking loop of `GetPath` over keys of the one length `m` of the trie -/
theorem markAll_ok (hlen : ∀ x, (H x).length = 32) {t : PT} {m : Nat} (hu : Uniform m t) (hok : PTOK t) :
    ∀ (keys : List (List Nib)) (n : WN), (∀ k ∈ keys, k.length = m) →
    RepS H s n t → Proper n → NoEmp n →
    let r := markAll true s n keys
    r.err = none ∧ RepS H s r.node t ∧ Proper r.node ∧ NoEmp r.node ∧ r.node.weight = n.weight ∧
      r.node.isNil = n.isNil ∧ r.node.dirty = n.dirty ∧ (n ≠ .empty → r.node ≠ .empty) ∧
      (keys ≠ [] → isRef r.node = false) ∧
      (∀ q, Marked n q → Marked r.node q) ∧ ∀ k ∈ keys, Marked r.node k := by
  intro keys
  induction keys with
  | nil =>
    intro n _ hrep hp hne
    exact ⟨rfl, hrep, hp, hne, rfl, rfl, rfl, fun h => h, fun h => absurd rfl h, fun _ h => h, fun _ h => by cases h⟩
  | cons k ks ih =>
    intro n hlk hrep hp hne
    have hk : k.length = m := hlk k List.mem_cons_self
    obtain ⟨h1, h2, h3, h4, h5, h6, h7, h8, h9, h10⟩ :=
      mark_ok (fuel := fuelFor k) hlen hrep hp hne hu hok hk (by have := fuelFor_ok k; omega)
    obtain ⟨g1, g2, g3, g4, g5, g6, g7, g8, g9, g10, g11⟩ :=
      ih (markToCollect true s (fuelFor k) n k).node (fun x hx => hlk x (List.mem_cons_of_mem _ hx)) h2 h3 h4
    simp only [markAll, h1]
    refine ⟨g1, g2, g3, g4, g5.trans h6, g6.trans h7, g7.trans h8, fun e => g8 (h10 e), fun _ => ?_,
      fun q hq => g10 q (mark_preserves true s _ n k q hq), ?_⟩
    · cases ks with
      | nil => exact h9
      | cons k2 ks2 => exact g9 (by simp)
    · intro x hx
      rcases List.mem_cons.mp hx with rfl | hx
      · exact g10 _ h5
      · exact g11 x hx

end All

/-! ### 4. the root of `GetPath` -/

/-- the first step of `getPath`: a root that is a reference is loaded from the storage -/
def loadRoot (t : WT) : Res WN :=
  match t.root with
  | .hashRef h _ => resolveHash t.hasDb t.store h
  | n => .ok n

/-- the node `getPath` hands to `collectNodes` (`none`: loading the root or the marking walk failed) -/
def markedRoot (t : WT) (keys : List (List Nib)) : Option WN :=
  match loadRoot t with
  | .err _ => none
  | .ok root =>
    let m := markAll t.hasDb t.store root keys
    match m.err with
    | some _ => none
    | none => some m.node

section Root
variable (H : Bytes → Bytes)

/-- `markedRoot` is the first half of `getPathSeq`, `getPath` with the sequential strategy -/
theorem getPathSeq_of_markedRoot (t : WT) (keys : List (List Nib)) (n' : WN) (h : markedRoot t keys = some n') :
    getPathSeq H t keys =
      ({ t with root := (collectNodes H n').1 }, .ok (Cbor.encTrie (collectNodes H n').2)) := by
  unfold markedRoot at h
  have e : getPathSeq H t keys = (match loadRoot t with
    | .err e => (t, .err e)
    | .ok root =>
      let m := markAll t.hasDb t.store root keys
      match m.err with
      | some .kvNotFound => ({ t with root := m.node }, .err .notFound)
      | some e => ({ t with root := m.node }, .err e)
      | none =>
        let c := collectNodes H m.node
        ({ t with root := c.1 }, .ok (Cbor.encTrie c.2))) := rfl
  rw [e]
  cases hl : loadRoot t with
  | err e => rw [hl] at h; cases h
  | ok root =>
    rw [hl] at h
    simp only at h ⊢
    cases hm : (markAll t.hasDb t.store root keys).err with
    | some e => rw [hm] at h; cases h
    | none =>
      rw [hm] at h
      simp only [Option.some.injEq] at h
      subst h
      rfl

/-- `markedRoot` is the first half of `getPath`, for non-empty keys (the per-branch parallel strategy panics on an empty
key, the sequential one marks the root) -/
theorem getPath_of_markedRoot (t : WT) (keys : List (List Nib)) (n' : WN) (hne : ∀ k ∈ keys, k ≠ [])
    (h : markedRoot t keys = some n') :
    getPath H t keys =
      ({ t with root := (collectNodes H n').1 }, .ok (Cbor.encTrie (collectNodes H n').2)) := by
  -- the strategy `getPath` takes is irrelevant for a successful marking (`getPath_strategy_irrelevant`)
  have hseq := getPathSeq_of_markedRoot H t keys n' h
  rw [(getPath_strategy_irrelevant H t keys hne).2.1 _ (by rw [hseq]), hseq]

/-- the same for any keys when the loaded root is no branch: `getPath` takes the sequential strategy then -/
theorem getPath_of_markedRoot_of_not_routing (t : WT) (keys : List (List Nib)) (n' : WN)
    (hnr : ∀ root, loadRoot t = .ok root → root.isRouting = false) (h : markedRoot t keys = some n') :
    getPath H t keys =
      ({ t with root := (collectNodes H n').1 }, .ok (Cbor.encTrie (collectNodes H n').2)) := by
  rw [getPath_eq_getPathSeq_of_not_routing H t keys hnr]
  exact getPathSeq_of_markedRoot H t keys n' h

variable {H}

theorem loadRoot_eq (t : WT) : loadRoot t = (match t.root with
    | .hashRef h _ => resolveHash t.hasDb t.store h
    | n => .ok n) := rfl

/-- loading the root: the loaded node represents the same tree and is no reference -/
theorem loadRoot_ok (hlen : ∀ x, (H x).length = 32) (t : WT) {ts : PT} {m : Nat} (hdb : t.hasDb = true)
    (hrep : RepS H t.store t.root ts) (hp : Proper t.root) (hne : NoEmp t.root) (hu : Uniform m ts) (hok : PTOK ts) :
    ∃ root, loadRoot t = .ok root ∧ RepS H t.store root ts ∧ Proper root ∧ NoEmp root ∧ isRef root = false ∧
      root.weight = t.root.weight := by
  rw [loadRoot_eq, hdb]
  generalize t.root = n at hrep hp hne
  cases hrep with
  | nil => exact ⟨_, rfl, Rep.nil, hp, hne, rfl, rfl⟩
  | empty => exact ⟨_, rfl, Rep.empty, hp, hne, rfl, rfl⟩
  | value h v w d hcl => exact ⟨_, rfl, Rep.value h v w d hcl, hp, hne, rfl, rfl⟩
  | short k h c d tc tc' hc hcl => exact ⟨_, rfl, Rep.short k h c d tc tc' hc hcl, hp, hne, rfl, rfl⟩
  | routing h ch w d tc f hch hroute hw hcl => exact ⟨_, rfl, Rep.routing h ch w d tc f hch hroute hw hcl, hp, hne, rfl, rfl⟩
  | ref _ hn hst =>
    have hres := resolve_stored H hlen t.store ts hn hst hok.1 hok.2
    have hrl := rep_loaded hst hn hu
    exact ⟨PT.loaded H ts, hres, hrl, proper_loaded ts, noEmp_loaded ts, loaded_not_ref hn, hrl.weight⟩

/-- 4. `GetPath(keys)` on a trie with a storage: the node handed to `collectNodes` represents the same tree, is no
reference, and the path of every requested key is marked -/
theorem getPath_marks (hlen : ∀ x, (H x).length = 32) (t : WT) {ts : PT} {m : Nat} (keys : List (List Nib))
    (hdb : t.hasDb = true) (hrep : RepS H t.store t.root ts) (hp : Proper t.root) (hne : NoEmp t.root)
    (hu : Uniform m ts) (hok : PTOK ts) (hlk : ∀ k ∈ keys, k.length = m) :
    ∃ n', markedRoot t keys = some n' ∧
      getPath H t keys = ({ t with root := (collectNodes H n').1 }, .ok (Cbor.encTrie (collectNodes H n').2)) ∧
      RepS H t.store n' ts ∧ Proper n' ∧ NoEmp n' ∧ isRef n' = false ∧ n'.weight = t.root.weight ∧
      ∀ k ∈ keys, Marked n' k := by
  obtain ⟨root, hl, r1, r2, r3, r4, r5⟩ := loadRoot_ok hlen t hdb hrep hp hne hu hok
  obtain ⟨g1, g2, g3, g4, g5, g6, g7, g8, g9, g10, g11⟩ := markAll_ok (s := t.store) hlen hu hok keys root hlk r1 r2 r3
  have hmr : markedRoot t keys = some (markAll true t.store root keys).node := by
    simp only [markedRoot, hl, hdb, g1]
  have hgp : getPath H t keys = ({ t with root := (collectNodes H (markAll true t.store root keys).node).1 },
      .ok (Cbor.encTrie (collectNodes H (markAll true t.store root keys).node).2)) := by
    cases m with
    | succ m' =>
      exact getPath_of_markedRoot H t keys _ (fun k hk e => by have := hlk k hk; rw [e] at this; cases this) hmr
    | zero =>
      -- keys of length 0: a uniform spec tree of depth 0 is no branch, `getPath` walks sequentially
      refine getPath_of_markedRoot_of_not_routing H t keys _ (fun root' hl' => ?_) hmr
      rw [hl] at hl'
      cases hl'
      cases r1 with
      | routing h ch w d tc f hch hroute hw hcl => simp [Uniform] at hu
      | _ => rfl
  refine ⟨_, hmr, hgp, g2, g3, g4, ?_, g5.trans r5, g11⟩
  cases keys with
  | nil => exact r4
  | cons k ks => exact g9 (by simp)

end Root

end Mark
end Verif.Wmpt
