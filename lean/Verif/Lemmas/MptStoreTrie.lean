/-
From the trie-level events (`insertNode` / `deleteNode` calls) to the collector calls they cause, and the effect of a
save batch on lookups.
-/
import Verif.Lemmas.Collector
namespace Verif.MptStore
open Verif.Mpt Collector

/-- the collector call caused by one trie event (`insertNode` skips the collector when old and new have one key) -/
def callOf (H : Bytes → Bytes) : Event → Option (Call Ref)
  | .put none n => some (.add none n)
  | .put (some o) n => if o.key H = n.key H then none else some (.add (some o) n)
  | .del o => some (.del o)

def callsOf (H : Bytes → Bytes) (es : List Event) : List (Call Ref) := es.filterMap (callOf H)

/-- all node references occurring in an event list -/
def eventRefs : List Event → List Ref
  | [] => []
  | .put none n :: es => n :: eventRefs es
  | .put (some o) n :: es => o :: n :: eventRefs es
  | .del o :: es => o :: eventRefs es

theorem applyEvent_cc (H : Bytes → Bytes) (t : Trie) (e : Event) :
    (t.applyEvent H e).cc = match callOf H e with
      | some c => step (Ref.key H) t.cc c
      | none => t.cc := by
  cases e with
  | del o => simp [Trie.applyEvent, Trie.deleteNode, callOf, step]
  | put o n =>
    cases o with
    | none => simp [Trie.applyEvent, Trie.insertNode, callOf, step]
    | some o =>
      simp only [Trie.applyEvent, Trie.insertNode, callOf]
      by_cases h : o.key H = n.key H <;> simp [h, step]

theorem applyEvents_cc (H : Bytes → Bytes) (es : List Event) :
    ∀ t : Trie, (t.applyEvents H es).cc = run (Ref.key H) t.cc (callsOf H es) := by
  induction es with
  | nil => intro t; rfl
  | cons e es ih =>
    intro t
    have h1 : t.applyEvents H (e :: es) = (t.applyEvent H e).applyEvents H es := rfl
    rw [h1, ih, applyEvent_cc]
    cases hc : callOf H e with
    | none => simp [callsOf, hc]
    | some c => simp [callsOf, hc, run]

theorem callNodes_callsOf (H : Bytes → Bytes) (es : List Event) :
    ∀ c ∈ callsOf H es, CallNodes (fun r => r ∈ eventRefs es) c := by
  induction es with
  | nil => intro c hc; simp [callsOf] at hc
  | cons e es ih =>
    intro c hc
    have mono : ∀ c, CallNodes (fun r => r ∈ eventRefs es) c → CallNodes (fun r => r ∈ eventRefs (e :: es)) c := by
      intro c hcn
      have sub : ∀ r, r ∈ eventRefs es → r ∈ eventRefs (e :: es) := by
        intro r hr
        cases e with
        | del o => simp [eventRefs, hr]
        | put o n => cases o <;> simp [eventRefs, hr]
      cases c with
      | del o => exact sub _ hcn
      | add o n => exact ⟨sub _ hcn.1, fun o' ho' => sub _ (hcn.2 o' ho')⟩
    simp only [callsOf, List.filterMap_cons] at hc
    cases hce : callOf H e with
    | none => rw [hce] at hc; exact mono c (ih c hc)
    | some c0 =>
      rw [hce] at hc
      rcases List.mem_cons.mp hc with rfl | hc
      · cases e with
        | del o => simp [callOf] at hce; subst hce; simp [CallNodes, eventRefs]
        | put o n =>
          cases o with
          | none => simp [callOf] at hce; subst hce; simp [CallNodes, eventRefs]
          | some o =>
            simp only [callOf] at hce
            by_cases hk : o.key H = n.key H
            · simp [hk] at hce
            · simp [hk] at hce; subst hce; simp [CallNodes, eventRefs]
      · exact mono c (ih c hc)

/-- the node store after the write stream of a save -/
theorem save_nodes (H : Bytes → Bytes) (P : PStore) (b : Trie) :
    (P.applyAll (saveStream H b)).nodes
      = Map.putAll P.nodes (b.cc.getChanges.map (fun c => (c.new.key H, c.new.encode H))) := rfl

theorem save_prefix_nodes (H : Bytes → Bytes) (P : PStore) (b : Trie) (n : Nat) :
    (P.applyAll ((saveStream H b).take n)).nodes = P.nodes ∨
    (P.applyAll ((saveStream H b).take n)).nodes
      = Map.putAll P.nodes (b.cc.getChanges.map (fun c => (c.new.key H, c.new.encode H))) := by
  match n with
  | 0 => left; rfl
  | 1 => right; rfl
  | n + 2 => right; simp [saveStream, PStore.applyAll, PStore.apply]

/-- lookups after the batch of a save: a key of the batch gets the encoding of a pending node with that key,
    every other key is untouched -/
theorem get_after_batch (H : Bytes → Bytes) (nodes : Store) (cc : Collector Bytes Ref) (x : Bytes) :
    let nodes' := Map.putAll nodes (cc.getChanges.map (fun c => (c.new.key H, c.new.encode H)))
    (∃ e ∈ cc.changes, e.2.new.key H = x ∧ Map.get nodes' x = some (e.2.new.encode H)) ∨
    ((∀ e ∈ cc.changes, e.2.new.key H ≠ x) ∧ Map.get nodes' x = Map.get nodes x) := by
  intro nodes'
  by_cases h : ∃ e ∈ cc.changes, e.2.new.key H = x
  · left
    have hb : ∃ e ∈ cc.getChanges.map (fun c => (c.new.key H, c.new.encode H)), e.1 = x := by
      obtain ⟨e, he, hx⟩ := h
      exact ⟨(e.2.new.key H, e.2.new.encode H), List.mem_map.mpr ⟨e.2, List.mem_map.mpr ⟨e, he, rfl⟩, rfl⟩, hx⟩
    obtain ⟨e', he', hx', hg⟩ := Map.get_putAll_of_mem nodes _ x hb
    obtain ⟨c, hc, rfl⟩ := List.mem_map.mp he'
    obtain ⟨e, he, rfl⟩ := List.mem_map.mp hc
    exact ⟨e, he, hx', hg⟩
  · right
    have hno : ∀ e ∈ cc.changes, e.2.new.key H ≠ x := fun e he hx => h ⟨e, he, hx⟩
    refine ⟨hno, Map.get_putAll_of_not_mem nodes _ x ?_⟩
    intro e' he'
    obtain ⟨c, hc, rfl⟩ := List.mem_map.mp he'
    obtain ⟨e, he, rfl⟩ := List.mem_map.mp hc
    exact hno e he

end Verif.MptStore
