/-
Well-formedness (canonical form) of state-trie nodes and the "all nodes created at version v" predicate.
Definitions only; shared by the C01 and C02 proof developments.
-/
import Verif.Model.Mpt
namespace Verif.Mpt

def Node.isFull : Node → Bool
  | .full .. => true
  | _ => false

/-- number of entries (children + own value) of a branch -/
def entryCount (ch : Nib → Node) (val : Option Bytes) : Nat := countCh ch + (if val.isSome then 1 else 0)

/-- canonical form of a non-empty subtree:
    * stored values are non-empty;
    * a branch has at least two entries (children + own value) and every child is empty or canonical;
    * an extension has a non-empty path and its child is a canonical branch. -/
def WFn : Node → Prop
  | .empty => False
  | .leaf _ _ lv => lv ≠ []
  | .full _ ch val => (∀ i, (ch i).isEmpty = true ∨ WFn (ch i)) ∧ (∀ b, val = some b → b ≠ []) ∧ 2 ≤ entryCount ch val
  | .ext _ ep c => ep ≠ [] ∧ c.isFull = true ∧ WFn c

/-- canonical form of a whole trie (the empty trie is canonical) -/
def WF (t : Node) : Prop := t.isEmpty = true ∨ WFn t

/-- every node of the tree carries origin `v` (all operations were executed at trie version `v`) -/
def AllOrigin (v : Nat) : Node → Prop
  | .empty => True
  | .leaf o _ _ => o = v
  | .full o ch _ => o = v ∧ ∀ i, AllOrigin v (ch i)
  | .ext o _ c => o = v ∧ AllOrigin v c

end Verif.Mpt
