/-
Shared definitions for the path-export theorems (C12): what "the requested key's path is marked" means for the source
trie, and the partial trie (`prune`) that the importer rebuilds from the export of a marked trie.
-/
import Verif.Lemmas.WmptRepCommit
import Verif.Lemmas.WmptRepOps
namespace Verif.Wmpt

/-- nibble-byte form of a key -/
def keyBytes (key : List Nib) : Bytes := key.map nb

/-- `sk` is a prefix of the key (the walk continues below a short node with key `sk`) -/
def shortMatches (sk : Bytes) (key : List Nib) : Bool :=
  sk.length ≤ key.length && (keyBytes key).take sk.length == sk

/-- Walking `key` down the trie meets no hash reference, and every BRANCH on the walk carries the export mark
    (`toCollect`). Short nodes need no mark: they are always exported in full. -/
def Marked : WN → List Nib → Prop
  | .hashRef _ _, _ => False
  | .routing _ ch _ _ tc, k :: ks => tc = true ∧ Marked (ch k) ks
  | .short sk _ c _ _, key => if shortMatches sk key then Marked c (key.drop sk.length) else True
  | _, _ => True

/-- Walking `key` down the trie meets no hash reference. -/
def Clear : WN → List Nib → Prop
  | .hashRef _ _, _ => False
  | .routing _ ch _ _ _, k :: ks => Clear (ch k) ks
  | .short sk _ c _ _, key => if shortMatches sk key then Clear c (key.drop sk.length) else True
  | _, _ => True

section
variable (H : Bytes → Bytes)

/-- The trie the importer rebuilds from `collectNodes`: an unmarked branch becomes its (current hash, weight) reference,
    everything else is kept, with current hashes cached and all flags cleared. -/
def prune : WN → WN
  | .nil => .nil
  | .empty => .empty
  | .hashRef h w => .hashRef h w
  | .value h v w d => .value (calcHash H (.value h v w d)).2 v w false
  | .short k h c d tc => .short k (calcHash H (.short k h c d tc)).2 (prune c) false false
  | .routing h ch w d tc =>
    if tc then .routing (calcHash H (.routing h ch w d tc)).2 (fun i => prune (ch i)) w false false
    else .hashRef (calcHash H (.routing h ch w d tc)).2 w

/-- `Deserialize` leaves a branch / short root flagged dirty (its hash was just recomputed) -/
def importedRoot : WN → WN
  | .routing h ch w _ tc => .routing h ch w true tc
  | .short k h c _ tc => .short k h c true tc
  | n => n

end
end Verif.Wmpt
