import Verif.Lemmas.StateCacheHeap
import Verif.Lemmas.MptCache
/-!
# Clone of the real value types at the cache's client boundary (C07)

`HSys.step` copies the *content* at the two clone sites. The Go code calls `Clone()`, which for trie nodes is
`CreateNode(Encode(n))` — `cloneR = decode ∘ encode` on the codec model. Here: as long as every content in the heap is in
a class `P` on which the clone function is the identity (for nodes: `ReprOK`, everything `decode` accepts and every
well-formed node), the reference implementation that really runs the clone function (`HSys.stepC`) is step for step the
one that copies the content, so `separation` carries over to it.
-/
namespace Verif.SC

variable {H K B C : Type} [DecidableEq H] [DecidableEq K] [DecidableEq B]

def HeapAll (P : C → Prop) (hs : HSys H K B C) : Prop := ∀ r, P (hs.heap r)

/-- the contents the client writes (allocation, in-place mutation) -/
def HOp.InP (P : C → Prop) : HOp H K B C → Prop
  | .new c => P c
  | .mutate _ c => P c
  | .op _ => True

theorem upd_all {P : C → Prop} {heap : Nat → C} (h : ∀ r, P (heap r)) (x : Nat) {c : C} (hc : P c) :
    ∀ r, P (upd heap x c r) := by
  intro r; unfold upd; split
  · exact hc
  · exact h r

theorem HSys.stepC_eq (cl : C → C) (P : C → Prop) (hcl : ∀ c, P c → cl c = c) (hs : HSys H K B C)
    (hP : HeapAll P hs) (hop : HOp H K B C) : hs.stepC cl hop = hs.step hop := by
  cases hop with
  | new c => rfl
  | mutate r c => rfl
  | op o =>
    simp only [HSys.stepC, HSys.step]
    cases ho : o.valArg with
    | some r => simp only [hcl _ (hP r)]
    | none =>
      simp only
      cases hx : (hs.sys.step o).2 with
      | hit r => simp only [hcl _ (hP r)]
      | miss => rfl
      | ok => rfl
      | bad => rfl
      | panic => rfl

theorem HSys.step_heapAll (P : C → Prop) (hs : HSys H K B C) (hP : HeapAll P hs) (hop : HOp H K B C)
    (hin : hop.InP P) : HeapAll P (hs.step hop).1 := by
  cases hop with
  | new c => exact upd_all hP _ hin
  | mutate r c =>
    simp only [HSys.step]; split
    · exact upd_all hP _ hin
    · exact hP
  | op o =>
    simp only [HSys.step]
    cases ho : o.valArg with
    | some r => exact upd_all hP _ (hP r)
    | none =>
      simp only
      cases hx : (hs.sys.step o).2 with
      | hit r => exact upd_all hP _ (hP r)
      | miss => exact hP
      | ok => exact hP
      | bad => exact hP
      | panic => exact hP

/-- `HSys.traces` for the implementation that runs the clone function -/
def HSys.tracesC (cl : C → C) : HSys H K B C → Sys H K B C → List (HOp H K B C) → List (Out C) × List (Out C)
  | _, _, [] => ([], [])
  | hs, sp, .op o :: rest =>
    let t := HSys.tracesC cl (hs.stepC cl (.op o)).1 (sp.step (o.map hs.heap)).1 rest
    ((hs.stepC cl (.op o)).2.content (hs.stepC cl (.op o)).1.heap :: t.1, (sp.step (o.map hs.heap)).2 :: t.2)
  | hs, sp, .new c :: rest => HSys.tracesC cl (hs.stepC cl (.new c)).1 sp rest
  | hs, sp, .mutate r c :: rest => HSys.tracesC cl (hs.stepC cl (.mutate r c)).1 sp rest

theorem HSys.tracesC_eq (cl : C → C) (P : C → Prop) (hcl : ∀ c, P c → cl c = c) (hs : HSys H K B C)
    (hP : HeapAll P hs) (sp : Sys H K B C) (ops : List (HOp H K B C)) (hin : ∀ hop ∈ ops, hop.InP P) :
    HSys.tracesC cl hs sp ops = HSys.traces hs sp ops := by
  induction ops generalizing hs sp with
  | nil => rfl
  | cons hop rest ih =>
    have h1 := HSys.stepC_eq cl P hcl hs hP hop
    have h2 := HSys.step_heapAll P hs hP hop (hin hop (List.mem_cons_self ..))
    have hr : ∀ hop' ∈ rest, hop'.InP P := fun x hx => hin x (List.mem_cons_of_mem _ hx)
    cases hop with
    | new c => simp only [HSys.tracesC, HSys.traces, h1]; exact ih _ h2 _ hr
    | mutate r c => simp only [HSys.tracesC, HSys.traces, h1]; exact ih _ h2 _ hr
    | op o => simp only [HSys.tracesC, HSys.traces, h1]; rw [ih _ h2 _ hr]

end Verif.SC
