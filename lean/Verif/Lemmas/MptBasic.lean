/-
Basic facts about the state-trie model: `splitCommon`, `upd`, `countCh`/`firstCh`, and lookups through
extensions / `wrap` / `extRest`.  Core Lean only.
-/
import Verif.Lemmas.MptWF
namespace Verif.Mpt

/-! ### `splitCommon` -/

theorem splitCommon_spec (p q : List Nib) :
    p = (splitCommon p q).1 ++ (splitCommon p q).2.1 ∧ q = (splitCommon p q).1 ++ (splitCommon p q).2.2 ∧
      (∀ x y pr qr, (splitCommon p q).2.1 = x :: pr → (splitCommon p q).2.2 = y :: qr → x ≠ y) := by
  fun_induction splitCommon p q with
  | case1 a p q r ih =>
    obtain ⟨h1, h2, h3⟩ := ih
    refine ⟨?_, ?_, h3⟩
    · simp only [List.cons_append]; rw [← h1]
    · simp only [List.cons_append]; rw [← h2]
  | case2 a p b q hab =>
    refine ⟨rfl, rfl, ?_⟩
    intro x y pr qr h1 h2
    simp only [List.cons.injEq] at h1 h2
    obtain ⟨rfl, _⟩ := h1
    obtain ⟨rfl, _⟩ := h2
    exact hab
  | case3 p q hn =>
    refine ⟨rfl, rfl, ?_⟩
    intro x y pr qr h1 h2
    simp only at h1 h2
    subst h1 h2
    exact (hn _ _ _ _ rfl rfl).elim

/-- characterisation of `splitCommon`: common prefix plus remainders that differ at their heads -/
theorem splitCommon_eq {p q c p' q' : List Nib} (h : splitCommon p q = (c, p', q')) :
    p = c ++ p' ∧ q = c ++ q' ∧ (∀ x y pr qr, p' = x :: pr → q' = y :: qr → x ≠ y) := by
  have := splitCommon_spec p q
  rw [h] at this
  exact this

theorem not_append_cons_prefix_self (c : List Nib) (y : Nib) (r : List Nib) : ¬ c ++ y :: r <+: c := by
  intro h
  have := h.length_le
  simp at this
  omega

/-! ### `upd` -/

@[simp] theorem upd_same (ch : Nib → Node) (i : Nib) (t : Node) : upd ch i t i = t := by simp [upd]

theorem upd_other (ch : Nib → Node) (i j : Nib) (t : Node) (h : j ≠ i) : upd ch i t j = ch j := by simp [upd, h]

@[simp] theorem emptyCh_apply (i : Nib) : emptyCh i = .empty := rfl

/-! ### counting children -/

theorem countP_split {α : Type} [DecidableEq α] (p : α → Bool) (x : α) :
    ∀ l : List α, l.Nodup → x ∈ l →
      l.countP p = (if p x then 1 else 0) + l.countP (fun i => decide (i ≠ x) && p i) := by
  intro l
  induction l with
  | nil => intro _ h; cases h
  | cons a l ih =>
    intro hnd hx
    rw [List.nodup_cons] at hnd
    obtain ⟨hal, hnd⟩ := hnd
    by_cases hxa : a = x
    · subst hxa
      have : l.countP (fun i => decide (i ≠ a) && p i) = l.countP p := by
        apply List.countP_congr
        intro i hi
        have : i ≠ a := fun e => hal (e ▸ hi)
        simp [this]
      rw [List.countP_cons, List.countP_cons, this]
      simp
      omega
    · have hx' : x ∈ l := by
        rcases List.mem_cons.mp hx with h | h
        · exact (hxa h.symm).elim
        · exact h
      rw [List.countP_cons, List.countP_cons, ih hnd hx']
      simp [hxa]
      omega

/-- number of non-empty children other than `x` -/
def cntOther (ch : Nib → Node) (x : Nib) : Nat :=
  (List.finRange 16).countP (fun i => decide (i ≠ x) && !(ch i).isEmpty)

theorem countCh_eq (ch : Nib → Node) (x : Nib) :
    countCh ch = (if (ch x).isEmpty then 0 else 1) + cntOther ch x := by
  unfold countCh cntOther
  rw [countP_split _ x _ (List.nodup_finRange 16) (List.mem_finRange x)]
  cases (ch x).isEmpty <;> simp

theorem cntOther_upd (ch : Nib → Node) (x : Nib) (n : Node) : cntOther (upd ch x n) x = cntOther ch x := by
  unfold cntOther
  apply List.countP_congr
  intro i _
  by_cases h : i = x <;> simp [h, upd]

theorem countCh_upd (ch : Nib → Node) (x : Nib) (n : Node) :
    countCh (upd ch x n) = (if n.isEmpty then 0 else 1) + cntOther ch x := by
  rw [countCh_eq _ x, cntOther_upd, upd_same]

theorem cntOther_eq_zero {ch : Nib → Node} {x : Nib} :
    cntOther ch x = 0 ↔ ∀ i, i ≠ x → (ch i).isEmpty = true := by
  unfold cntOther
  rw [List.countP_eq_zero]
  constructor
  · intro h i hi
    have := h i (List.mem_finRange i)
    simpa [hi] using this
  · intro h i _
    by_cases hi : i = x
    · simp [hi]
    · simp [h i hi]

theorem cntOther_pos {ch : Nib → Node} {x i : Nib} (hi : i ≠ x) (hne : (ch i).isEmpty = false) :
    1 ≤ cntOther ch x := by
  apply Nat.pos_of_ne_zero
  intro h
  have := cntOther_eq_zero.mp h i hi
  simp [hne] at this

@[simp] theorem countCh_emptyCh : countCh emptyCh = 0 := by
  unfold countCh
  rw [List.countP_eq_zero]
  intro i _
  simp [Node.isEmpty]

@[simp] theorem cntOther_emptyCh (x : Nib) : cntOther emptyCh x = 0 :=
  cntOther_eq_zero.mpr (fun _ _ => rfl)

theorem firstCh_some {ch : Nib → Node} {i : Nib} (h : firstCh ch = some i) : (ch i).isEmpty = false := by
  have := List.find?_some h
  simpa using this

theorem firstCh_none {ch : Nib → Node} (h : firstCh ch = none) : countCh ch = 0 := by
  unfold firstCh at h
  unfold countCh
  rw [List.find?_eq_none] at h
  rw [List.countP_eq_zero]
  intro i hi
  exact h i hi

theorem WFn_ne_empty {n : Node} (h : WFn n) : n.isEmpty = false := by
  cases n <;> simp [WFn, Node.isEmpty] at h ⊢

/-! ### `lookup` unfolding -/

@[simp] theorem lookup_empty (q : List Nib) : lookup .empty q = none := by simp [lookup]

theorem lookup_leaf (o : Nat) (lp : List Nib) (lv : Bytes) (q : List Nib) :
    lookup (.leaf o lp lv) q = if q = lp then (if lv = [] then none else some lv) else none := by simp [lookup]

theorem lookup_leaf_ne {o : Nat} {lp : List Nib} {lv : Bytes} (h : lv ≠ []) (q : List Nib) :
    lookup (.leaf o lp lv) q = if q = lp then some lv else none := by simp [lookup, h]

/-- the value a branch's own slot contributes to lookups (an empty stored value reads as absent) -/
def live : Option Bytes → Option Bytes
  | some b => if b = [] then none else some b
  | none => none

@[simp] theorem live_none : live none = none := rfl

theorem live_some {b : Bytes} (h : b ≠ []) : live (some b) = some b := by simp [live, h]

theorem lookup_full_nil (o : Nat) (ch : Nib → Node) (val : Option Bytes) :
    lookup (.full o ch val) [] = live val := by
  cases val <;> simp [lookup, live]

@[simp] theorem lookup_full_cons (o : Nat) (ch : Nib → Node) (val : Option Bytes) (x : Nib) (r : List Nib) :
    lookup (.full o ch val) (x :: r) = lookup (ch x) r := by simp [lookup]

theorem lookup_upd (ch : Nib → Node) (x : Nib) (n : Node) (z : Nib) (r : List Nib) :
    lookup (upd ch x n z) r = if z = x then lookup n r else lookup (ch z) r := by
  unfold upd; split <;> rfl

theorem lookup_ext_append {o : Nat} {ep : List Nib} (c : Node) (h : ep ≠ []) (r : List Nib) :
    lookup (.ext o ep c) (ep ++ r) = lookup c r := by
  rw [lookup]
  generalize hs : splitCommon (ep ++ r) ep = s
  obtain ⟨cm, q', e'⟩ := s
  obtain ⟨h1, h2, h3⟩ := splitCommon_eq hs
  cases e' with
  | nil =>
    simp only [List.append_nil] at h2
    subst h2
    simp only [List.append_cancel_left_eq] at h1
    subst h1
    simp [h]
  | cons y er =>
    exfalso
    rw [h2, List.append_assoc, List.append_cancel_left_eq] at h1
    simp only [List.cons_append] at h1
    exact h3 _ _ _ _ h1.symm rfl rfl

theorem lookup_ext_of_not_prefix {o : Nat} {ep : List Nib} (c : Node) {q : List Nib} (h : ¬ ep <+: q) :
    lookup (.ext o ep c) q = none := by
  rw [lookup]
  generalize hs : splitCommon q ep = s
  obtain ⟨cm, q', e'⟩ := s
  obtain ⟨h1, h2, h3⟩ := splitCommon_eq hs
  cases e' with
  | nil =>
    exfalso
    simp only [List.append_nil] at h2
    subst h2
    exact h ⟨q', h1.symm⟩
  | cons y er => rfl

theorem extRest_eq_wrap (v : Nat) (er : List Nib) (c : Node) : extRest v er c = wrap v er c := by
  cases er <;> rfl

theorem lookup_wrap_append (v : Nat) (c : List Nib) (n : Node) (r : List Nib) :
    lookup (wrap v c n) (c ++ r) = lookup n r := by
  cases c with
  | nil => rfl
  | cons x c => exact lookup_ext_append n (by simp) r

theorem lookup_wrap_of_not_prefix (v : Nat) {c : List Nib} (n : Node) {q : List Nib} (h : ¬ c <+: q) :
    lookup (wrap v c n) q = none := by
  cases c with
  | nil => exact (h (List.nil_prefix)).elim
  | cons x c => exact lookup_ext_of_not_prefix n h

/-- an extension whose path is `cm ++ y :: er`, looked up below `cm ++ [y]`, behaves like the remainder extension -/
theorem lookup_ext_split {o : Nat} (v : Nat) (cm : List Nib) (y : Nib) (er : List Nib) (c : Node) (r : List Nib) :
    lookup (.ext o (cm ++ y :: er) c) (cm ++ y :: r) = lookup (wrap v er c) r := by
  by_cases h : er <+: r
  · obtain ⟨s, rfl⟩ := h
    have e : cm ++ y :: (er ++ s) = (cm ++ y :: er) ++ s := by simp
    rw [e, lookup_ext_append _ (by simp), lookup_wrap_append]
  · rw [lookup_wrap_of_not_prefix _ _ h, lookup_ext_of_not_prefix]
    simpa [List.prefix_append_right_inj, List.cons_prefix_cons] using h

theorem WF_child {o : Nat} {ch : Nib → Node} {val : Option Bytes} (h : WF (.full o ch val)) (i : Nib) : WF (ch i) := by
  rcases h with h | h
  · simp [Node.isEmpty] at h
  · exact h.1 i

theorem WFn_of_WF_full {o : Nat} {ch : Nib → Node} {val : Option Bytes} (h : WF (.full o ch val)) :
    WFn (.full o ch val) := by
  rcases h with h | h
  · simp [Node.isEmpty] at h
  · exact h

theorem WFn_of_WF_ext {o : Nat} {ep : List Nib} {c : Node} (h : WF (.ext o ep c)) :
    ep ≠ [] ∧ c.isFull = true ∧ WFn c := by
  rcases h with h | h
  · simp [Node.isEmpty] at h
  · exact h

theorem WFn_of_WF_leaf {o : Nat} {lp : List Nib} {lv : Bytes} (h : WF (.leaf o lp lv)) : lv ≠ [] := by
  rcases h with h | h
  · simp [Node.isEmpty] at h
  · exact h

end Verif.Mpt
