import Verif.Lemmas.Round
import Verif.Lemmas.F64
import Verif.Model.Dec
/-! Lemmas for `zcn_roundtrip` (C18): the decimal-side view of rounding and the 15-digit argument
(`10^15 < 2^52`: two decimals with at most 15 significant digits cannot round to the same binary64). -/
namespace Verif.Lemmas.Zcn
open Verif.F64 Verif.Dec Verif.Lemmas.Round

/-- the fraction `Dec.float64` rounds: `a · 10^x` -/
def fracOf (a : ℕ) (x : ℤ) : ℕ × ℕ := if 0 ≤ x then (a * 10 ^ x.toNat, 1) else (a, 10 ^ (-x).toNat)

theorem float64_eq (d : Dec) :
    Dec.float64 d = roundNE (decide (d.coeff < 0)) (fracOf d.coeff.natAbs d.exp).1 (fracOf d.coeff.natAbs d.exp).2 := by
  unfold Dec.float64 fracOf
  split <;> rfl

theorem fracOf_val (a : ℕ) (x : ℤ) : ((fracOf a x).1 : ℚ) / (fracOf a x).2 = a * (10:ℚ) ^ x := by
  unfold fracOf
  split
  · rename_i h
    obtain ⟨k, rfl⟩ := Int.eq_ofNat_of_zero_le h
    simp
  · rename_i h
    obtain ⟨k, hk⟩ : ∃ k : ℕ, -x = (k : ℤ) := ⟨(-x).toNat, by omega⟩
    have hx : x = -(k:ℤ) := by omega
    rw [hk, hx]
    simp [zpow_neg, div_eq_mul_inv]

theorem fracOf_snd_pos (a : ℕ) (x : ℤ) : 0 < (fracOf a x).2 := by
  unfold fracOf; split <;> simp

theorem fracOf_fst_pos (a : ℕ) (x : ℤ) (ha : 0 < a) : 0 < (fracOf a x).1 := by
  unfold fracOf; split <;> simp <;> positivity

theorem fracOf_fst_zero (x : ℤ) : (fracOf 0 x).1 = 0 := by
  unfold fracOf; split <;> simp

/-- equal bit patterns: equal signs and equal magnitudes -/
theorem roundNE_inj (s s' : Bool) (n d n' d' : ℕ) (h : roundNE s n d = roundNE s' n' d') :
    s = s' ∧ magOf n d = magOf n' d' := by
  have h1 := Verif.Lemmas.F64.magOf_le n d
  have h2 := Verif.Lemmas.F64.magOf_le n' d'
  rw [Verif.Lemmas.F64.infMag_eq] at h1 h2
  unfold roundNE at h
  have hb := congrArg (fun x => x.bits.toNat) h
  simp only [BitVec.toNat_ofNat] at hb
  cases s <;> cases s'
  all_goals simp only [Bool.false_eq_true, if_true, if_false, Nat.add_zero] at hb
  · exact ⟨rfl, by omega⟩
  · exfalso; omega
  · exfalso; omega
  · exact ⟨rfl, by omega⟩

theorem log2_ten10 : Nat.log2 (10 ^ 10) = 33 := by
  have h1 := Nat.log2_self_le (n := 10 ^ 10) (by norm_num)
  have h2 := Nat.lt_log2_self (n := 10 ^ 10)
  have a : Nat.log2 (10^10) < 34 := by
    by_contra hc
    have : 2 ^ 34 ≤ 2 ^ Nat.log2 (10 ^ 10) := Nat.pow_le_pow_right (by norm_num) (by omega)
    norm_num at this h1
    omega
  have b : 33 ≤ Nat.log2 (10^10) := by
    by_contra hc
    have : 2 ^ (Nat.log2 (10 ^ 10) + 1) ≤ 2 ^ 33 := Nat.pow_le_pow_right (by norm_num) (by omega)
    norm_num at this h2
    omega
  omega

/-- the binade of `N / 10^10` for a 64-bit amount -/
theorem expOf_c_bounds (N : ℕ) (h1 : 0 < N) (h2 : N < 2 ^ 64) : -86 ≤ expOf N (10 ^ 10) ∧ expOf N (10 ^ 10) ≤ -22 := by
  have hl : Nat.log2 N < 64 := (Nat.log2_lt (by omega)).mpr h2
  unfold expOf
  simp only []
  rw [log2_ten10]
  split <;> omega

theorem mag_c_bounds (N : ℕ) (h1 : 0 < N) (h2 : N < 2 ^ 64) :
    2 ^ 53 < magOf N (10 ^ 10) ∧ magOf N (10 ^ 10) < infMag := by
  obtain ⟨e1, e2⟩ := expOf_c_bounds N h1 h2
  obtain ⟨q1, q2⟩ := roundQ_bounds N (10 ^ 10) h1 (by norm_num)
  have q3 := q2 (by omega)
  unfold magOf clampInf
  rw [if_neg (by omega)]
  simp only []
  rw [infMag_val]
  split <;> omega

/-- strip trailing zeros -/
theorem strip_zeros (C : ℕ) (hC : 0 < C) : ∃ C' i, C = C' * 10 ^ i ∧ C' % 10 ≠ 0 := by
  induction C using Nat.strong_induction_on with
  | _ C ih =>
    by_cases h : C % 10 = 0
    · have hlt : C / 10 < C := Nat.div_lt_self hC (by norm_num)
      have hpos : 0 < C / 10 := by omega
      obtain ⟨C', i, h1, h2⟩ := ih (C / 10) hlt hpos
      refine ⟨C', i + 1, ?_, h2⟩
      have : C = 10 * (C / 10) := by omega
      rw [this, h1, pow_succ]; ring
    · exact ⟨C, 0, by simp, h⟩

/-- two decimals with at most 15 significant digits and no trailing zeros that are `2^-53`-close are equal
    (case `x ≤ y`; the claim is symmetric) -/
theorem grid_le (a C : ℕ) (x y : ℤ) (hxy : x ≤ y) (ha : a < 10 ^ 15)
    (ha10 : a % 10 ≠ 0)
    (h : |(a:ℚ) * (10:ℚ) ^ x - (C:ℚ) * (10:ℚ) ^ y| * 2 ^ 53 ≤ (a:ℚ) * (10:ℚ) ^ x + (C:ℚ) * (10:ℚ) ^ y) :
    a = C ∧ x = y := by
  obtain ⟨k, hk⟩ : ∃ k : ℕ, y = x + (k:ℤ) := ⟨(y - x).toNat, by omega⟩
  have hpx : (0:ℚ) < (10:ℚ) ^ x := by positivity
  have hy : (10:ℚ) ^ y = ((10 ^ k : ℕ) : ℚ) * (10:ℚ) ^ x := by
    rw [hk, zpow_add₀ (by norm_num : (10:ℚ) ≠ 0), zpow_natCast]; push_cast; ring
  rw [hy] at h
  set B : ℕ := C * 10 ^ k with hB
  have e1 : (a:ℚ) * (10:ℚ) ^ x - (C:ℚ) * (((10 ^ k : ℕ) : ℚ) * (10:ℚ) ^ x) = ((a:ℚ) - (B:ℚ)) * (10:ℚ) ^ x := by
    rw [hB]; push_cast; ring
  have e2 : (a:ℚ) * (10:ℚ) ^ x + (C:ℚ) * (((10 ^ k : ℕ) : ℚ) * (10:ℚ) ^ x) = ((a:ℚ) + (B:ℚ)) * (10:ℚ) ^ x := by
    rw [hB]; push_cast; ring
  rw [e1, e2, abs_mul, abs_of_pos hpx, mul_right_comm] at h
  have h' : |(a:ℚ) - (B:ℚ)| * 2 ^ 53 ≤ (a:ℚ) + (B:ℚ) := le_of_mul_le_mul_right h hpx
  have hab : a = B := by
    rcases le_total a B with hle | hle
    · have : (a:ℚ) ≤ B := by exact_mod_cast hle
      rw [abs_of_nonpos (by linarith)] at h'
      have h'' : ((B:ℚ) - a) * 2 ^ 53 ≤ a + B := by linarith
      have : (B - a) * 2 ^ 53 ≤ a + B := by
        have : ((B - a : ℕ) : ℚ) = (B:ℚ) - a := by push_cast [Nat.cast_sub hle]; ring
        exact_mod_cast (by rw [this]; push_cast; exact h'' : ((B - a : ℕ) : ℚ) * 2 ^ 53 ≤ ((a + B : ℕ) : ℚ))
      omega
    · have : (B:ℚ) ≤ a := by exact_mod_cast hle
      rw [abs_of_nonneg (by linarith)] at h'
      have : (a - B) * 2 ^ 53 ≤ a + B := by
        have hc : ((a - B : ℕ) : ℚ) = (a:ℚ) - B := by push_cast [Nat.cast_sub hle]; ring
        exact_mod_cast (by rw [hc]; push_cast; exact h' : ((a - B : ℕ) : ℚ) * 2 ^ 53 ≤ ((a + B : ℕ) : ℚ))
      omega
  have hk0 : k = 0 := by
    by_contra hne
    obtain ⟨k', rfl⟩ : ∃ k', k = k' + 1 := ⟨k - 1, by omega⟩
    apply ha10
    rw [hab, hB, pow_succ, ← mul_assoc]
    exact Nat.mul_mod_left _ _
  subst hk0
  simp at hB hk
  exact ⟨by omega, by omega⟩

theorem roundNE_false_eq (n d n' d' : ℕ) (h : magOf n d = magOf n' d') : roundNE false n d = roundNE false n' d' := by
  unfold roundNE; rw [h]

theorem amount_val (N C j : ℕ) (hNC : N = C * 10 ^ j) :
    (N:ℚ) / ((10 ^ 10 : ℕ) : ℚ) = (C:ℚ) * (10:ℚ) ^ ((j:ℤ) - 10) := by
  rw [hNC, zpow_sub₀ (by norm_num : (10:ℚ) ≠ 0), zpow_natCast]
  push_cast
  ring

/-- the only shortest round-trip decimal (in normal form) of the float of an amount with at most 15 significant
    digits is the amount itself, written without trailing zeros -/
theorem shortest_unique (N : ℕ) (hN : 0 < N) (hN2 : N < 2 ^ 64) (C j : ℕ) (hNC : N = C * 10 ^ j)
    (hC15 : C < 10 ^ 15) (hC10 : C % 10 ≠ 0) (d : Dec)
    (hrt : Dec.float64 d = roundNE false N (10 ^ 10))
    (hnorm : d.coeff % 10 ≠ 0 ∨ d = ⟨0, 0⟩)
    (hshort : ∀ d' : Dec, Dec.float64 d' = roundNE false N (10 ^ 10) →
      ∀ k : ℕ, d'.coeff.natAbs < 10 ^ k → d.coeff.natAbs < 10 ^ k) :
    d = ⟨(C:ℤ), (j:ℤ) - 10⟩ := by
  have hCpos : 0 < C := by
    rcases Nat.eq_zero_or_pos C with h | h
    · rw [h] at hNC; simp at hNC; omega
    · exact h
  obtain ⟨hMlo, hMhi⟩ := mag_c_bounds N hN hN2
  have hq0 := amount_val N C j hNC
  -- the amount itself, without trailing zeros, rounds to the same float
  have hd0 : Dec.float64 ⟨(C:ℤ), (j:ℤ) - 10⟩ = roundNE false N (10 ^ 10) := by
    rw [float64_eq]
    simp only [Int.natAbs_natCast]
    have : decide ((C:ℤ) < 0) = false := by simp
    rw [this]
    apply roundNE_false_eq
    apply magOf_congr _ _ _ _ (fracOf_fst_pos C _ hCpos) (fracOf_snd_pos C _) hN (by norm_num)
    rw [fracOf_val, hq0]
  have ha15 : d.coeff.natAbs < 10 ^ 15 := hshort _ hd0 15 (by simpa using hC15)
  -- sign and magnitude of d
  rw [float64_eq] at hrt
  obtain ⟨hsign, hmag⟩ := roundNE_inj _ _ _ _ _ _ hrt
  have hnn : 0 ≤ d.coeff := by
    by_contra hc
    have : decide (d.coeff < 0) = true := by simp; omega
    rw [this] at hsign; cases hsign
  have hane : d.coeff.natAbs ≠ 0 := by
    intro h0
    rw [h0] at hmag
    have : magOf (fracOf 0 d.exp).1 (fracOf 0 d.exp).2 = 0 := by
      rw [fracOf_fst_zero]; simp [magOf]
    omega
  set a := d.coeff.natAbs with ha
  have hapos : 0 < a := by omega
  have hcoeff : d.coeff = (a:ℤ) := by omega
  have ha10 : a % 10 ≠ 0 := by
    rcases hnorm with h | h
    · omega
    · rw [h] at ha; simp at ha; omega
  -- the two values are 2^-53-close
  have hclose := round_close _ _ N (10 ^ 10) (fracOf_fst_pos a d.exp hapos) (fracOf_snd_pos a d.exp) hN (by norm_num)
    hmag (hmag ▸ hMlo) (hmag ▸ hMhi)
  rw [fracOf_val, hq0] at hclose
  have hres : a = C ∧ d.exp = (j:ℤ) - 10 := by
    rcases le_total d.exp ((j:ℤ) - 10) with hle | hle
    · exact grid_le a C _ _ hle ha15 ha10 hclose
    · rw [abs_sub_comm, add_comm] at hclose
      obtain ⟨h1, h2⟩ := grid_le C a _ _ hle hC15 hC10 hclose
      exact ⟨h1.symm, h2.symm⟩
  obtain ⟨h1, h2⟩ := hres
  cases d with
  | mk co ex =>
    simp only at hcoeff h2
    rw [hcoeff, h1, h2]

/-- a decimal `a·10^x` (at most 15 digits, no trailing zero) that rounds to the float of the amount `N = C·10^j`
    (same shape) is that amount -/
theorem same_round_eq (N : ℕ) (hN : 0 < N) (hN2 : N < 2 ^ 64) (C j : ℕ) (hNC : N = C * 10 ^ j)
    (hC15 : C < 10 ^ 15) (hC10 : C % 10 ≠ 0) (a : ℕ) (x : ℤ) (hapos : 0 < a) (ha15 : a < 10 ^ 15) (ha10 : a % 10 ≠ 0)
    (hmag : magOf (fracOf a x).1 (fracOf a x).2 = magOf N (10 ^ 10)) : a = C ∧ x = (j:ℤ) - 10 := by
  obtain ⟨hMlo, hMhi⟩ := mag_c_bounds N hN hN2
  have hq0 := amount_val N C j hNC
  have hclose := round_close _ _ N (10 ^ 10) (fracOf_fst_pos a x hapos) (fracOf_snd_pos a x) hN (by norm_num)
    hmag (hmag ▸ hMlo) (hmag ▸ hMhi)
  rw [fracOf_val, hq0] at hclose
  rcases le_total x ((j:ℤ) - 10) with hle | hle
  · exact grid_le a C _ _ hle ha15 ha10 hclose
  · rw [abs_sub_comm, add_comm] at hclose
    obtain ⟨h1, h2⟩ := grid_le C a _ _ hle hC15 hC10 hclose
    exact ⟨h1.symm, h2.symm⟩

/-- the amount written without trailing zeros IS a shortest round-trip decimal of its float: no decimal with
    fewer digits rounds to the same float -/
theorem shortest_exists (N : ℕ) (hN : 0 < N) (hN2 : N < 2 ^ 64) (C j : ℕ) (hNC : N = C * 10 ^ j)
    (hC15 : C < 10 ^ 15) (hC10 : C % 10 ≠ 0) :
    Dec.float64 ⟨(C:ℤ), (j:ℤ) - 10⟩ = roundNE false N (10 ^ 10) ∧
    ∀ d' : Dec, Dec.float64 d' = roundNE false N (10 ^ 10) → ∀ k : ℕ, d'.coeff.natAbs < 10 ^ k → C < 10 ^ k := by
  have hCpos : 0 < C := by
    rcases Nat.eq_zero_or_pos C with h | h
    · rw [h] at hNC; simp at hNC; omega
    · exact h
  obtain ⟨hMlo, hMhi⟩ := mag_c_bounds N hN hN2
  have hq0 := amount_val N C j hNC
  constructor
  · rw [float64_eq]
    simp only [Int.natAbs_natCast]
    have : decide ((C:ℤ) < 0) = false := by simp
    rw [this]
    apply roundNE_false_eq
    apply magOf_congr _ _ _ _ (fracOf_fst_pos C _ hCpos) (fracOf_snd_pos C _) hN (by norm_num)
    rw [fracOf_val, hq0]
  · intro d' hrt k hk
    by_cases hk15 : 15 ≤ k
    · exact lt_of_lt_of_le hC15 (Nat.pow_le_pow_right (by norm_num) hk15)
    · rw [float64_eq] at hrt
      obtain ⟨_, hmag⟩ := roundNE_inj _ _ _ _ _ _ hrt
      have hane : d'.coeff.natAbs ≠ 0 := by
        intro h0
        rw [h0] at hmag
        have : magOf (fracOf 0 d'.exp).1 (fracOf 0 d'.exp).2 = 0 := by
          rw [fracOf_fst_zero]; simp [magOf]
        omega
      set b := d'.coeff.natAbs with hb
      obtain ⟨a, i, hbi, ha10⟩ := strip_zeros b (by omega)
      have hapos : 0 < a := by
        rcases Nat.eq_zero_or_pos a with h | h
        · rw [h] at hbi; simp at hbi; omega
        · exact h
      have hab : a ≤ b := by rw [hbi]; exact Nat.le_mul_of_pos_right _ (by positivity)
      have hk' : (10:ℕ) ^ k ≤ 10 ^ 15 := Nat.pow_le_pow_right (by norm_num) (by omega)
      -- a·10^(exp+i) is the same value, hence the same rounding
      have hval : ((fracOf a (d'.exp + i)).1 : ℚ) / (fracOf a (d'.exp + i)).2 =
          ((fracOf b d'.exp).1 : ℚ) / (fracOf b d'.exp).2 := by
        rw [fracOf_val, fracOf_val, hbi, zpow_add₀ (by norm_num : (10:ℚ) ≠ 0), zpow_natCast]
        push_cast; ring
      have hmag' := magOf_congr _ _ _ _ (fracOf_fst_pos a _ hapos) (fracOf_snd_pos a _)
        (fracOf_fst_pos b d'.exp (by omega)) (fracOf_snd_pos b _) hval
      obtain ⟨h1, _⟩ := same_round_eq N hN hN2 C j hNC hC15 hC10 a (d'.exp + i) hapos (by omega) ha10
        (hmag'.trans hmag)
      omega

end Verif.Lemmas.Zcn
