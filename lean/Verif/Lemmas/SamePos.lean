/-
Every `insertNode(old, new)` event of an insert or delete replaces a node AT ITS OWN POSITION.
-/
import Verif.Lemmas.MptStoreEvents
namespace Verif.MptStore
open Verif.Mpt

/-- a replacement happens in place -/
def SamePosEv : Event → Prop
  | .put (some o) n => o.pos = n.pos
  | _ => True

theorem wrapE_samePos (v : Nat) (old : Ref) (pre c : List Nib) (n : Node) (hn : old.pos = pre) :
    ∀ e ∈ wrapE v old pre c n, SamePosEv e := by
  intro e he
  cases c with
  | nil => simp [wrapE] at he; subst he; simpa [SamePosEv] using hn
  | cons x c =>
    simp [wrapE] at he
    rcases he with he | he
    · subst he; simp [SamePosEv]
    · subst he; simpa [SamePosEv] using hn

theorem extRestE_samePos (v : Nat) (pos er : List Nib) (c : Node) : ∀ e ∈ extRestE v pos er c, SamePosEv e := by
  intro e he
  cases er with
  | nil => simp [extRestE] at he
  | cons x er => simp [extRestE] at he; subst he; simp [SamePosEv]

theorem insertE_samePos (v : Nat) (b : Bytes) (t : Node) :
    ∀ (pre p : List Nib), ∀ e ∈ (insertE v b t pre p).2, SamePosEv e := by
  induction t with
  | empty => intro pre p e he; simp [insertE] at he; subst he; simp [SamePosEv]
  | leaf o lp lv =>
    intro pre p e he
    simp only [insertE] at he
    split at he
    · simp at he; subst he; simp [SamePosEv]
    · simp only [List.mem_cons] at he
      rcases he with he | he
      · subst he; simp [SamePosEv]
      · exact wrapE_samePos v _ _ _ _ rfl e he
    · simp only [List.mem_cons] at he
      rcases he with he | he
      · subst he; simp [SamePosEv]
      · exact wrapE_samePos v _ _ _ _ rfl e he
    · simp only [List.mem_cons] at he
      rcases he with he | he | he
      · subst he; simp [SamePosEv]
      · subst he; simp [SamePosEv]
      · exact wrapE_samePos v _ _ _ _ rfl e he
  | full o ch val ih =>
    intro pre p e he
    cases p with
    | nil => simp [insertE] at he; subst he; simp [SamePosEv]
    | cons x pr =>
      simp only [insertE, List.mem_append, List.mem_singleton] at he
      rcases he with he | he
      · exact ih x _ _ e he
      · subst he; simp [SamePosEv]
  | ext o ep c ih =>
    intro pre p e he
    simp only [insertE] at he
    split at he
    · simp only [List.mem_append, List.mem_singleton] at he
      rcases he with he | he
      · exact ih _ _ e he
      · subst he; simp [SamePosEv]
    · simp only [List.mem_append] at he
      rcases he with he | he
      · exact extRestE_samePos v _ _ _ e he
      · exact wrapE_samePos v _ _ _ _ rfl e he
    · simp only [List.mem_cons, List.mem_append] at he
      rcases he with he | he | he
      · subst he; simp [SamePosEv]
      · exact extRestE_samePos v _ _ _ e he
      · exact wrapE_samePos v _ _ _ _ rfl e he

theorem liftE_samePos (v : Nat) (old : Ref) (pre : List Nib) (i : Nib) (n : Node) (hpos : old.pos = pre) :
    ∀ e ∈ (liftE v old pre i n).2, SamePosEv e := by
  intro e he
  cases n with
  | empty => simp [liftE] at he
  | leaf o p lv => simp [liftE] at he; rcases he with he | he <;> subst he <;> simp [SamePosEv, hpos]
  | ext o p c => simp [liftE] at he; rcases he with he | he <;> subst he <;> simp [SamePosEv, hpos]
  | full o ch val => simp [liftE] at he; subst he; simp [SamePosEv, hpos]

theorem liftFirstE_samePos (v : Nat) (old : Ref) (pre : List Nib) (ch : Nib → Node) (hpos : old.pos = pre) :
    ∀ e ∈ (liftFirstE v old pre ch).2, SamePosEv e := by
  intro e he
  simp only [liftFirstE] at he
  split at he
  · exact liftE_samePos v _ _ _ _ hpos e he
  · simp at he

theorem deleteE_samePos (v : Nat) (t : Node) :
    ∀ (pre p : List Nib), ∀ e ∈ (deleteE v t pre p).2, SamePosEv e := by
  induction t with
  | empty => intro pre p e he; simp [deleteE] at he
  | leaf o lp lv =>
    intro pre p e he
    simp only [deleteE] at he
    split at he
    · simp at he; subst he; simp [SamePosEv]
    · simp at he
  | full o ch val ih =>
    intro pre p e he
    cases p with
    | nil =>
      simp only [deleteE] at he
      cases val with
      | none => simp at he
      | some bv =>
        simp only at he
        split at he
        · exact liftFirstE_samePos v _ _ _ rfl e he
        · simp at he; subst he; simp [SamePosEv]
    | cons x pr =>
      simp only [deleteE] at he
      have hrec := ih x (pre ++ [x]) pr
      cases hE : deleteE v (ch x) (pre ++ [x]) pr with
      | mk r es =>
        rw [hE] at he hrec
        simp only at hrec
        cases r with
        | notPresent => simp at he
        | panic => simp at he
        | node c' =>
          simp only [List.mem_append, List.mem_singleton] at he
          rcases he with he | he
          · exact hrec e he
          · subst he; simp [SamePosEv]
        | removed =>
          simp only at he
          split at he
          · cases val with
            | none => simp only at he; exact hrec e he
            | some bv =>
              simp only [List.mem_append, List.mem_singleton] at he
              rcases he with he | he
              · exact hrec e he
              · subst he; simp [SamePosEv]
          · split at he
            · simp only [List.mem_append] at he
              rcases he with he | he
              · exact hrec e he
              · exact liftFirstE_samePos v _ _ _ rfl e he
            · simp only [List.mem_append, List.mem_singleton] at he
              rcases he with he | he
              · exact hrec e he
              · subst he; simp [SamePosEv]
  | ext o ep c ih =>
    intro pre p e he
    simp only [deleteE] at he
    rcases hs : splitCommon p ep with ⟨cm, p', er⟩
    rw [hs] at he
    cases er with
    | cons y er' => simp at he
    | nil =>
      simp only at he
      have hrec := ih (pre ++ ep) p'
      cases hE : deleteE v c (pre ++ ep) p' with
      | mk r es =>
        rw [hE] at he hrec
        simp only at hrec
        cases r with
        | notPresent => simp at he
        | panic => simp at he
        | removed => simp at he
        | node n =>
          cases n with
          | empty => simp at he
          | leaf o2 lp lv =>
            simp only [List.mem_append, List.mem_cons] at he
            rcases he with he | he | he
            · exact hrec e he
            · subst he; simp [SamePosEv]
            · rcases he with he | he
              · subst he; simp [SamePosEv]
              · cases he
          | ext o2 p2 c2 =>
            simp only [List.mem_append, List.mem_cons] at he
            rcases he with he | he | he
            · exact hrec e he
            · subst he; simp [SamePosEv]
            · rcases he with he | he
              · subst he; simp [SamePosEv]
              · cases he
          | full o2 ch val =>
            simp only [List.mem_append, List.mem_singleton] at he
            rcases he with he | he
            · exact hrec e he
            · subst he; simp [SamePosEv]


end Verif.MptStore
