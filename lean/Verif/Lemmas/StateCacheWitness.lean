import Verif.Lemmas.StateCacheSys
/-! Concrete witness histories (evaluated by the kernel) used by the negative theorems of C06 and C08. -/
namespace Verif.SC

/-- keys, blocks, values and handles are numbers: key 0; blocks A=10, C=11, D=12, S=13 (root hash 0); values 1 (A's), 2 (C's), 3 (S's) -/
def witnessCap : List (Op Nat Nat Nat Nat) :=
  [.blk 0 10 0, .bset 0 0 1, .bcommit 0,        -- A writes k
   .blk 1 11 10, .bset 1 0 2, .bcommit 1,       -- C child of A writes k
   .blk 2 12 11, .bcommit 2,                    -- D child of C
   .sget 0 10,                                  -- a lookup at A refreshes A's entry
   .blk 3 13 10, .bset 3 0 3, .bcommit 3]       -- sibling S of C writes k: with capacity 2, C's entry is evicted

theorem witnessCap_hit : ((((Sys.new 2 8 : Sys Nat Nat Nat Nat).run witnessCap).1).step (.sget 0 12)).2 = .hit 1 := by
  decide

theorem witnessCap_oracle :
    Chain ((Sys.new 2 8 : Sys Nat Nat Nat Nat).treeRun [] witnessCap) 0 12 (.val 2) :=
  oracleN_sound (n := 3) (by decide)

end Verif.SC
