/-
Frame lemmas of the interpreter `Forest.step` (Model/MptInterp): which tries of the forest an op can change or close.
-/
import Verif.Model.MptInterp
namespace Verif.MptStore
open Verif.Mpt
namespace Forest

theorem list_find_set_ne (l : List (Nat × Nat × Trie)) (id id' : Nat) (t : Trie) (h : id' ≠ id) :
    (l.map (fun e => if e.1 = id then (e.1, e.2.1, t) else e)).find? (fun e => decide (e.1 = id')) =
      l.find? (fun e => decide (e.1 = id')) := by
  induction l with
  | nil => rfl
  | cons e l ih =>
    by_cases he : e.1 = id
    · have h1 : ¬ e.1 = id' := fun h2 => h (h2 ▸ he)
      rw [List.map_cons, if_pos he, List.find?_cons_of_neg (by simpa using h1), List.find?_cons_of_neg (by simpa using h1)]
      exact ih
    · rw [List.map_cons, if_neg he]
      by_cases h2 : e.1 = id'
      · rw [List.find?_cons_of_pos (by simpa using h2), List.find?_cons_of_pos (by simpa using h2)]
      · rw [List.find?_cons_of_neg (by simpa using h2), List.find?_cons_of_neg (by simpa using h2)]
        exact ih

theorem find_set_ne (f : Forest) (id id' : Nat) (t : Trie) (h : id' ≠ id) : (f.set id t).find id' = f.find id' := by
  simp only [find, set]
  rw [list_find_set_ne f.tries id id' t h]

theorem list_find_set_eq (l : List (Nat × Nat × Trie)) (id pid : Nat) (t0 t : Trie) (a : Nat)
    (h : l.find? (fun e => decide (e.1 = id)) = some (a, pid, t0)) :
    (l.map (fun e => if e.1 = id then (e.1, e.2.1, t) else e)).find? (fun e => decide (e.1 = id)) = some (a, pid, t) := by
  induction l with
  | nil => cases h
  | cons e l ih =>
    by_cases he : e.1 = id
    · rw [List.find?_cons_of_pos (by simpa using he)] at h
      rw [List.map_cons, if_pos he, List.find?_cons_of_pos (by simpa using he)]
      cases h
      rfl
    · rw [List.find?_cons_of_neg (by simpa using he)] at h
      rw [List.map_cons, if_neg he, List.find?_cons_of_neg (by simpa using he)]
      exact ih h

theorem find_set_eq (f : Forest) (id pid : Nat) (t0 t : Trie) (h : f.find id = some (pid, t0)) :
    (f.set id t).find id = some (pid, t) := by
  simp only [find, Option.map_eq_some_iff] at h
  obtain ⟨⟨a, pid', t0'⟩, h1, h2⟩ := h
  cases h2
  simp only [find, set]
  rw [list_find_set_eq f.tries id pid t0 t a h1]; rfl

theorem find_append_ne (f : Forest) (e : Nat × Nat × Trie) (id' : Nat) (h : id' ≠ e.1) :
    (Forest.mk (f.tries ++ [e])).find id' = f.find id' := by
  simp only [find, List.find?_append]
  have : ([e].find? (fun x => decide (x.1 = id'))) = none := by simp [Ne.symm h]
  rw [this]; simp

theorem list_find_set_parent (l : List (Nat × Nat × Trie)) (id x : Nat) (t : Trie) :
    ((l.map (fun e => if e.1 = id then (e.1, e.2.1, t) else e)).find? (fun e => decide (e.1 = x))).map (fun e => e.2.1) =
      (l.find? (fun e => decide (e.1 = x))).map (fun e => e.2.1) := by
  induction l with
  | nil => rfl
  | cons e l ih =>
    by_cases he : e.1 = id
    · rw [List.map_cons, if_pos he]
      by_cases h2 : e.1 = x
      · rw [List.find?_cons_of_pos (by simpa using h2), List.find?_cons_of_pos (by simpa using h2)]; rfl
      · rw [List.find?_cons_of_neg (by simpa using h2), List.find?_cons_of_neg (by simpa using h2)]; exact ih
    · rw [List.map_cons, if_neg he]
      by_cases h2 : e.1 = x
      · rw [List.find?_cons_of_pos (by simpa using h2), List.find?_cons_of_pos (by simpa using h2)]
      · rw [List.find?_cons_of_neg (by simpa using h2), List.find?_cons_of_neg (by simpa using h2)]; exact ih

/-- `set` keeps the parent links -/
theorem find_set_parent (f : Forest) (id x : Nat) (t : Trie) :
    ((f.set id t).find x).map (·.1) = (f.find x).map (·.1) := by
  have := list_find_set_parent f.tries id x t
  simp only [find, set, Option.map_map] at this ⊢
  exact this

theorem isDesc_set (f : Forest) (pid : Nat) (t : Trie) (id : Nat) : ∀ (fuel x : Nat),
    isDesc (f.set pid t) id fuel x = isDesc f id fuel x := by
  intro fuel
  induction fuel with
  | zero => intro x; rfl
  | succ n ih =>
    intro x
    have hp := find_set_parent f pid x t
    simp only [isDesc]
    cases h1 : f.find x with
    | none =>
      rw [h1] at hp
      cases h2 : (f.set pid t).find x with
      | none => rfl
      | some e => rw [h2] at hp; cases hp
    | some e =>
      rw [h1] at hp
      cases h2 : (f.set pid t).find x with
      | none => rw [h2] at hp; cases hp
      | some e' =>
        rw [h2] at hp
        simp only [Option.map_some, Option.some.injEq] at hp
        obtain ⟨px, tt⟩ := e
        obtain ⟨px', tt'⟩ := e'
        simp only at hp
        subst hp
        simp only [ih]

/-- is `id'` removed when `id` is closed? -/
def closed (f : Forest) (id id' : Nat) : Bool := id' = id || isDesc f id f.tries.length id'

theorem list_find_filter (l : List (Nat × Nat × Trie)) (q : Nat → Bool) (id' : Nat) :
    (l.filter (fun e => q e.1)).find? (fun e => decide (e.1 = id')) =
      if q id' then l.find? (fun e => decide (e.1 = id')) else none := by
  induction l with
  | nil => simp
  | cons e l ih =>
    by_cases h2 : e.1 = id'
    · by_cases hq : q e.1 = true
      · rw [List.filter_cons_of_pos (p := fun e : Nat × Nat × Trie => q e.1) (by simpa using hq), List.find?_cons_of_pos (by simpa using h2), List.find?_cons_of_pos (by simpa using h2)]
        rw [h2] at hq; simp [hq]
      · rw [List.filter_cons_of_neg (p := fun e : Nat × Nat × Trie => q e.1) (by simpa using hq), ih]
        rw [h2] at hq; simp [hq]
    · by_cases hq : q e.1 = true
      · rw [List.filter_cons_of_pos (p := fun e : Nat × Nat × Trie => q e.1) (by simpa using hq), List.find?_cons_of_neg (by simpa using h2), List.find?_cons_of_neg (by simpa using h2)]
        exact ih
      · rw [List.filter_cons_of_neg (p := fun e : Nat × Nat × Trie => q e.1) (by simpa using hq), List.find?_cons_of_neg (by simpa using h2)]
        exact ih

theorem find_close (f : Forest) (id id' : Nat) :
    (f.close id).find id' = if closed f id id' then none else f.find id' := by
  simp only [find, close, closed]
  rw [list_find_filter f.tries (fun x => !(decide (x = id) || isDesc f id f.tries.length x)) id']
  by_cases hc : (decide (id' = id) || isDesc f id f.tries.length id') = true
  · simp [hc]
  · simp only [Bool.not_eq_true] at hc; simp [hc]

/-- the trie an op may change: its own target; for a merge the parent of the merged trie -/
def target (f : Forest) : TOp → Option Nat
  | .child id _ => some id
  | .ins id _ _ => some id
  | .del id _ => some id
  | .ver id _ => some id
  | .merge id _ => (f.find id).map (·.1)
  | .discard _ => none

/-- the tries an op may close: the merged / discarded trie and its descendants -/
def closes (f : Forest) : TOp → Nat → Bool
  | .merge id _, id' => closed f id id'
  | .discard id, id' => closed f id id'
  | _, _ => false

end Forest
end Verif.MptStore
