import Verif.Lemmas.StateCacheDrop
import Verif.Lemmas.StateCacheLink
/-! Histories that mix key-map drops (`Remove` / outer-LRU evictions) with evictions from the link cache: the pruned-tree
argument of `StateCacheDrop` run over the link-eviction-tolerant invariant `Inv0` of `StateCacheLink`. Side conditions: no
per-key version map evicts, blocks are committed in ancestor order, and no block is committed again after its link was
lost (`NoRecommit`) — the last one is necessary (corpus/C06/finding_recommit_after_remove.ops). -/
set_option linter.unusedSectionVars false
namespace Verif.SC

variable {H K B V : Type} [DecidableEq H] [DecidableEq K] [DecidableEq B]

theorem Inv0.remove {sc : SC K B V} {T : Tree K B V} (hI : Inv0 sc T) (k : K) :
    Inv0 (sc.remove k) (eraseKey k T) := by
  have hlink : ∀ b, linkAt (sc.remove k) b = linkAt sc b := by
    intro b; unfold SC.remove linkAt; cases alookup sc.cache k <;> rfl
  refine ⟨fun k' b e h => ?_, fun b p h => ?_⟩
  · rw [entryAt_remove] at h
    by_cases hkk : k = k'
    · simp [hkk] at h
    · simp [hkk] at h
      exact (hI.sound k' b e h).eraseKey (fun e => hkk e.symm)
  · rw [hlink] at h
    obtain ⟨x, hx, hp, hw⟩ := hI.linked b p h
    refine ⟨Blk.erase k x, by rw [eraseKey_find, hx]; rfl, hp, fun k' e hk' => ?_⟩
    rw [Blk.erase_lookup] at hk'
    by_cases hkk : k' = k
    · simp [hkk] at hk'
    · simp [hkk] at hk'
      rw [entryAt_remove]
      have : ¬ k = k' := fun e => hkk e.symm
      simp [this]; exact hw k' e hk'

theorem SC.remove_entryEv (sc : SC K B V) (k : K) : (sc.remove k).entryEv = sc.entryEv := by
  unfold SC.remove; cases alookup sc.cache k <;> rfl

theorem prune_find_none (dt : K → Nat) (T : Tree K B V) (b : B) : (prune dt T).find b = none ↔ T.find b = none := by
  rw [prune_find]; cases T.find b <;> simp

theorem Sys.run_ok_drops_links (s : Sys H K B V) (T : Tree K B V) (dt : K → Nat) (ops : List (Op H K B V))
    (hS : SysInv0 s (prune dt T)) (hD : ∀ k, dt k ≤ T.length)
    (hne : (s.run ops).1.sc.entryEv = s.sc.entryEv) (hio : InOrderRun s T ops) (hrc : NoRecommit s T ops) :
    AllOK s T ops := by
  induction ops generalizing s T dt with
  | nil => trivial
  | cons op ops ih =>
    simp only [Sys.run] at hne
    have h1 : (s.step op).1.sc.entryEv = s.sc.entryEv :=
      Nat.le_antisymm (by rw [← hne]; exact Sys.run_entryEv_le _ _) (Sys.step_entryEv_le s op)
    obtain ⟨hO, hio'⟩ := hio
    obtain ⟨hrc1, hrc'⟩ := hrc
    by_cases hr : op.isRemove = true
    · cases op with
      | srem k =>
        refine ⟨fun pend b k' hc => by simp [Sys.ctx] at hc, ?_⟩
        have hstep : (s.step (.srem k)).1 = { s with sc := s.sc.remove k } := rfl
        have htree : s.treeStep T (.srem k) = T := rfl
        rw [htree] at hio' hrc' ⊢
        apply ih (s.step (.srem k)).1 T (fun k' => if k' = k then T.length else dt k') ?_ ?_ (by rw [hne, h1]) hio' hrc'
        · rw [hstep, prune_drop]
          exact ⟨hS.inv.remove k, hS.nodup⟩
        · intro k'; by_cases hk : k' = k <;> simp [hk, hD k']
      | _ => simp [Op.isRemove] at hr
    · have hr' : op.isRemove = false := by simpa using hr
      have hfresh : ∀ h bc, op = .bcommit h → alookup s.bcs h = some bc → linkAt s.sc bc.hash = none →
          (prune dt T).find bc.hash = none := by
        intro h bc ho hb hl
        rw [prune_find_none]; exact recommitOK_spec hrc1 h bc ho hb hl
      have hok := Sys.step_ok0 s op hS h1
      have hinv := Sys.step_inv0 s op hS h1 hr' hfresh
      rw [Sys.treeStep_prune s T dt op hD] at hinv
      refine ⟨?_, ih _ _ dt hinv (fun k => Nat.le_trans (hD k) (Sys.treeStep_length_le s T op)) (by rw [hne, h1]) hio' hrc'⟩
      intro pend b k hc
      obtain ⟨h2, _⟩ := hok pend b k hc
      refine ⟨fun v hv => Answer.of_prune hO (h2 v hv), fun ht => ?_⟩
      obtain ⟨r, hr⟩ := Sys.ctx_out s op hc
      cases r with
      | none => exact hr
      | some v =>
        have := Answer.of_prune hO (h2 v hr)
        exact absurd (Answer.det this ht) (by intro hh; cases hh)

end Verif.SC
