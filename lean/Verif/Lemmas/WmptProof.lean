/- Helper lemmas for the block-proof theorems (C10): big-endian weights, children tables, `CalcHash` idempotence,
   decoding of honestly persisted nodes. -/
import Verif.Model.WmptToy
namespace Verif.Wmpt

theorem be64_length (n : Nat) : (be64 n).length = 8 := by simp [be64]

theorem be64_eq (n : Nat) : be64 n =
    [UInt8.ofNat (n >>> 56 % 256), UInt8.ofNat (n >>> 48 % 256), UInt8.ofNat (n >>> 40 % 256), UInt8.ofNat (n >>> 32 % 256),
     UInt8.ofNat (n >>> 24 % 256), UInt8.ofNat (n >>> 16 % 256), UInt8.ofNat (n >>> 8 % 256), UInt8.ofNat (n >>> 0 % 256)] := by
  simp [be64, List.range, List.range.loop]

theorem toNat_ofNat_mod (x : Nat) : (UInt8.ofNat (x % 256)).toNat = x % 256 := by
  simp

/-- `binary.BigEndian.Uint64` reads back what `AppendUint64` wrote -/
theorem be64Dec_be64 (n : Nat) (rest : Bytes) (h : n < 2 ^ 64) : be64Dec (be64 n ++ rest) = n := by
  rw [be64_eq]
  simp only [be64Dec, List.cons_append, List.nil_append, List.take, List.foldl, toNat_ofNat_mod, Nat.shiftRight_eq_div_pow]
  omega

theorem ofList_map_allNib (g : Nib → WN) (i : Nib) : ofList (allNib.map g) i = g i := by
  have hi : i.val < (allNib.map g).length := by simp [allNib]
  simp only [ofList, List.getD_eq_getElem?_getD]
  rw [List.getElem?_eq_getElem hi]
  simp [allNib]

theorem ofList_map_allNib' (g : Nib → WN) : ofList (allNib.map g) = g := funext (ofList_map_allNib g)

theorem calcHash_fst_isNil (H : Bytes → Bytes) (c : WN) : (calcHash H c).1.isNil = c.isNil := by
  cases c with
  | nil => rfl
  | empty => rfl
  | hashRef h w => rfl
  | value h v w d => cases d <;> rfl
  | routing h ch w d tc => cases d <;> rfl
  | short k h c' d tc =>
    cases d with
    | false => rfl
    | true =>
      by_cases hn : c'.isNil <;> simp only [calcHash, hn, if_true, if_false, Bool.false_eq_true] <;> rfl

/-- `CalcHash` is idempotent: a second call changes nothing and returns the same hash (the dirty flags are not
    touched since fix 8a63293) -/
theorem calcHash_idem (H : Bytes → Bytes) (n : WN) : calcHash H (calcHash H n).1 = calcHash H n := by
  induction n with
  | nil => rfl
  | empty => rfl
  | hashRef h w => rfl
  | value h v w d => cases d <;> simp [calcHash]
  | short k h c d tc ih =>
    cases d with
    | false => simp [calcHash]
    | true =>
      by_cases hn : c.isNil
      · cases c <;> simp_all [calcHash, WN.isNil]
      · have hn' : (calcHash H c).1.isNil = false := by
          rw [calcHash_fst_isNil]; simpa using hn
        simp only [calcHash, hn, hn', if_true, Bool.false_eq_true, if_false, ih]
  | routing h ch w d tc ih =>
    cases d with
    | false => simp [calcHash]
    | true =>
      simp only [calcHash, if_true, List.map_map]
      have key : allNib.map (fun i => calcHash H (ofList (allNib.map ((fun r => r.1) ∘ fun i => calcHash H (ch i))) i)) =
          allNib.map (fun i => calcHash H (ch i)) := by
        apply List.map_congr_left
        intro i _
        rw [ofList_map_allNib]
        exact ih i
      simp only [Function.comp_def] at key
      have key2 := congrArg (List.map (fun r => r.1)) key
      simp only [List.map_map, Function.comp_def] at key2
      simp only [Function.comp_def, key, key2]

/-! ### decoding honestly persisted nodes -/

theorem deserializeChild_ref (h : Bytes) (w : Nat) (hh : h.length = 32) (hw : w < 2 ^ 64) :
    deserializeChild (h ++ be64 w) = .ok (some (.hashRef h w)) := by
  have hl : (h ++ be64 w).length = 40 := by simp [hh, be64_length]
  unfold deserializeChild
  simp only [show hashWithWeightLength = 40 from rfl, hl, ge_iff_le, Nat.le_refl, if_true]
  have s1 : slice (h ++ be64 w) 0 32 = .ok h := by
    unfold slice; simp [hl, List.take_left' hh]
  have s2 : sliceFrom (h ++ be64 w) 32 = .ok (be64 w) := by
    unfold sliceFrom; simp [hl, List.drop_left' hh]
  have s3 : uint64At (be64 w) = .ok w := by
    unfold uint64At
    have := be64Dec_be64 w [] hw
    simp only [List.append_nil] at this
    simp [be64_length, this]
  simp [s1, s2, s3]

theorem deserializeChild_short (h h' k : Bytes) (w : Nat) (hh : h.length = 32) (hh' : h'.length = 32) (hw : w < 2 ^ 64)
    (hk : isNibbles k = true) :
    deserializeChild (h ++ be64 w ++ h' ++ k) = .ok (some (.short k h (.hashRef h' w) false false)) := by
  have hl : (h ++ be64 w ++ h' ++ k).length = 72 + k.length := by simp [hh, hh', be64_length]; omega
  have h40 : (h ++ be64 w).length = 40 := by simp [hh, be64_length]
  have h72 : (h ++ be64 w ++ h').length = 72 := by simp [hh, hh', be64_length]
  unfold deserializeChild
  simp only [show hashWithWeightLength = 40 from rfl, hl]
  have c1 : 72 + k.length ≥ 40 := by omega
  have c2 : ¬ (72 + k.length = 40) := by omega
  have c3 : ¬ (72 + k.length < 40 + 32) := by omega
  simp only [c1, c2, c3, if_true, if_false]
  have s1 : slice (h ++ be64 w ++ h' ++ k) 0 32 = .ok h := by
    unfold slice
    have : (h ++ be64 w ++ h' ++ k) = h ++ (be64 w ++ h' ++ k) := by simp [List.append_assoc]
    simp only [hl, Nat.zero_le, true_and]
    rw [if_pos (by omega), this, List.take_left' hh]; rfl
  have s2 : sliceFrom (h ++ be64 w ++ h' ++ k) 32 = .ok (be64 w ++ (h' ++ k)) := by
    unfold sliceFrom
    have : (h ++ be64 w ++ h' ++ k) = h ++ (be64 w ++ (h' ++ k)) := by simp [List.append_assoc]
    rw [if_pos (by rw [hl]; omega), this, List.drop_left' hh]
  have s3 : uint64At (be64 w ++ (h' ++ k)) = .ok w := by
    unfold uint64At
    rw [if_pos (by simp [be64_length]), be64Dec_be64 w _ hw]
  have s4 : slice (h ++ be64 w ++ h' ++ k) 40 (40 + 32) = .ok h' := by
    unfold slice
    rw [if_pos (by rw [hl]; omega)]
    have e1 : (h ++ be64 w ++ h' ++ k).take 72 = h ++ be64 w ++ h' := List.take_left' h72
    rw [show 40 + 32 = 72 from rfl, e1, List.drop_left' h40]
  have s5 : sliceFrom (h ++ be64 w ++ h' ++ k) (40 + 32) = .ok k := by
    unfold sliceFrom
    rw [if_pos (by rw [hl]; omega), show 40 + 32 = 72 from rfl, List.drop_left' h72]
  simp only [s1, s2, s3, s4, s5, hk, Bool.not_true, Bool.false_eq_true, if_false]

/-- the keys of all short nodes are nibble lists (what `DeserializeNode` insists on since fix f270208) -/
def KeysNib : PT → Prop
  | .none => True
  | .value _ _ => True
  | .short k c => isNibbles k = true ∧ KeysNib c
  | .branch ch => ∀ i, KeysNib (ch i)

theorem isNibbles_iff {k : Bytes} : isNibbles k = true ↔ ∀ b ∈ k, b.toNat < 16 := by
  simp [isNibbles, List.all_eq_true]

theorem isNibbles_nil : isNibbles [] = true := rfl

theorem isNibbles_append {a b : Bytes} : isNibbles (a ++ b) = (isNibbles a && isNibbles b) := by
  simp [isNibbles, List.all_append]

theorem isNibbles_cons {x : UInt8} {a : Bytes} : isNibbles (x :: a) = (decide (x.toNat < 16) && isNibbles a) := by
  simp [isNibbles]

theorem isNibbles_take {a : Bytes} (n : Nat) (h : isNibbles a = true) : isNibbles (a.take n) = true :=
  isNibbles_iff.mpr fun b hb => isNibbles_iff.mp h b (List.mem_of_mem_take hb)

theorem isNibbles_drop {a : Bytes} (n : Nat) (h : isNibbles a = true) : isNibbles (a.drop n) = true :=
  isNibbles_iff.mpr fun b hb => isNibbles_iff.mp h b (List.mem_of_mem_drop hb)

theorem nb_toNat (i : Nib) : (nb i).toNat = i.val := by
  have : i.val < 256 := by omega
  simp [nb, Nat.mod_eq_of_lt this]

theorem isNibbles_map_nb (ks : List Nib) : isNibbles (ks.map nb) = true := by
  apply isNibbles_iff.mpr
  intro b hb
  obtain ⟨i, _, rfl⟩ := List.mem_map.mp hb
  rw [nb_toNat]; exact i.isLt

theorem PT.hash_length (H : Bytes → Bytes) (hlen : ∀ x, (H x).length = 32) (t : PT) : (t.hash H).length = 32 := by
  cases t <;> simp [PT.hash, emptyHash, hlen]

theorem pad32_of_length (b : Bytes) (h : b.length = 32) : pad32 b = b := by
  simp [pad32, h]

/-- what `DeserializeNode` makes of the entry of child `c` in an honestly persisted branch -/
def PT.refOf (H : Bytes → Bytes) : PT → WN
  | .none => .nil
  | .short k c => .short k (PT.hash H (.short k c)) (.hashRef (PT.hash H c) c.weight) false false
  | .value v w => .hashRef (PT.hash H (.value v w)) w
  | .branch ch => .hashRef (PT.hash H (.branch ch)) (PT.weight (.branch ch))

theorem PT.refOf_weight (H : Bytes → Bytes) (c : PT) : (PT.refOf H c).weight = c.weight := by
  cases c <;> simp [PT.refOf, WN.weight, PT.weight]

theorem PT.refOf_isNil (H : Bytes → Bytes) (c : PT) : (PT.refOf H c).isNil = c.isNone := by
  cases c <;> simp [PT.refOf, WN.isNil, PT.isNone]

theorem PT.calcHash_refOf (H : Bytes → Bytes) (c : PT) : (calcHash H (PT.refOf H c)).2 = c.hash H := by
  cases c <;> simp [PT.refOf, calcHash, PT.hash]

theorem deserializeChild_childEntry (H : Bytes → Bytes) (hlen : ∀ x, (H x).length = 32) (c : PT) (hw : c.weight < 2 ^ 64)
    (hk : KeysNib c) :
    deserializeChild (PT.childEntry H c) = .ok (if c.isNone then none else some (PT.refOf H c)) := by
  cases c with
  | none => simp [PT.childEntry, deserializeChild, PT.isNone, hashWithWeightLength]
  | value v w =>
    simp only [PT.childEntry, PT.isNone, Bool.false_eq_true, if_false, PT.refOf]
    exact deserializeChild_ref _ _ (PT.hash_length H hlen _) (by simpa [PT.weight] using hw)
  | branch ch =>
    simp only [PT.childEntry, PT.isNone, Bool.false_eq_true, if_false, PT.refOf]
    exact deserializeChild_ref _ _ (PT.hash_length H hlen _) hw
  | short k c' =>
    simp only [PT.childEntry, PT.isNone, Bool.false_eq_true, if_false, PT.refOf]
    exact deserializeChild_short _ _ _ _ (PT.hash_length H hlen _) (PT.hash_length H hlen _) (by simpa [PT.weight] using hw)
      hk.1

theorem deserializeChildren_map (H : Bytes → Bytes) (hlen : ∀ x, (H x).length = 32) (cs : List PT)
    (hw : ∀ c ∈ cs, c.weight < 2 ^ 64) (hk : ∀ c ∈ cs, KeysNib c) :
    deserializeChildren (cs.map (PT.childEntry H)) = .ok (cs.map (PT.refOf H), (cs.map PT.weight).sum) := by
  induction cs with
  | nil => rfl
  | cons c tl ih =>
    have hc := deserializeChild_childEntry H hlen c (hw c List.mem_cons_self) (hk c List.mem_cons_self)
    have ht := ih (fun x hx => hw x (List.mem_cons_of_mem _ hx)) (fun x hx => hk x (List.mem_cons_of_mem _ hx))
    simp only [List.map_cons, deserializeChildren, hc, ht, List.sum_cons]
    cases c <;> simp [PT.isNone, PT.refOf, WN.weight, PT.weight]

theorem pickChild_refOf (H : Bytes → Bytes) (ch : Nib → PT) (is : List Nib) (b : Nat) :
    pickChild (fun i => PT.refOf H (ch i)) is b = PT.pick ch is b := by
  induction is generalizing b with
  | nil => rfl
  | cons i tl ih =>
    simp only [pickChild, PT.pick, PT.refOf_isNil, PT.refOf_weight, ih]

theorem nat_mem_le_sum (l : List Nat) (a : Nat) (h : a ∈ l) : a ≤ l.sum := by
  induction l with
  | nil => cases h
  | cons x tl ih =>
    simp only [List.sum_cons]
    cases h with
    | head => omega
    | tail _ h' => have := ih h'; omega

theorem PT.weight_child_le (ch : Nib → PT) (i : Nib) : (ch i).weight ≤ (PT.branch ch).weight := by
  simp only [PT.weight]
  have : (ch i).weight ∈ allNib.map (fun i => (ch i).weight) := List.mem_map.mpr ⟨i, by simp [allNib], rfl⟩
  exact nat_mem_le_sum _ _ this

theorem deserializeNode_branch (H : Bytes → Bytes) (hlen : ∀ x, (H x).length = 32) (ch : Nib → PT)
    (hw : (PT.branch ch).weight < 2 ^ 64) (hk : KeysNib (.branch ch)) :
    deserializeNode (PT.persist H (.branch ch)) =
      .ok (.routing (PT.hash H (.branch ch)) (fun i => PT.refOf H (ch i)) (PT.branch ch).weight false false) := by
  have hws : ∀ c ∈ allNib.map ch, c.weight < 2 ^ 64 := by
    intro c hc
    obtain ⟨i, _, rfl⟩ := List.mem_map.mp hc
    exact Nat.lt_of_le_of_lt (PT.weight_child_le ch i) hw
  have hks : ∀ c ∈ allNib.map ch, KeysNib c := by
    intro c hc
    obtain ⟨i, _, rfl⟩ := List.mem_map.mp hc
    exact hk i
  have hd := deserializeChildren_map H hlen (allNib.map ch) hws hks
  simp only [List.map_map] at hd
  have hl : ¬ (allNib.map (fun i => PT.childEntry H (ch i))).length > branchNodeLength := by
    simp [allNib, branchNodeLength]
  have e1 : (allNib.map (fun i => PT.childEntry H (ch i))) = allNib.map (PT.childEntry H ∘ ch) := rfl
  have hl' : ¬ (allNib.map (PT.childEntry H ∘ ch)).length > branchNodeLength := by rw [← e1]; exact hl
  simp only [deserializeNode, PT.persist, e1, hd, if_neg hl']
  have e2 : ofList (allNib.map (PT.refOf H ∘ ch)) = fun i => PT.refOf H (ch i) := ofList_map_allNib' _
  have e3 : (allNib.map (PT.weight ∘ ch)).sum = (PT.branch ch).weight := rfl
  rw [e2, e3, u64, Nat.mod_eq_of_lt hw]

theorem deserializeNode_short (H : Bytes → Bytes) (hlen : ∀ x, (H x).length = 32) (k : Bytes) (c : PT)
    (hw : c.weight < 2 ^ 64) (hk : isNibbles k = true) :
    deserializeNode (PT.persist H (.short k c)) =
      .ok (.short k (PT.hash H (.short k c)) (.hashRef (PT.hash H c) c.weight) false false) := by
  have hh := PT.hash_length H hlen c
  have hl : (pad32 (PT.hash H c) ++ be64 c.weight).length = 40 := by simp [pad32_of_length _ hh, hh, be64_length]
  simp only [deserializeNode, PT.persist, show hashWithWeightLength = 40 from rfl, hl, ne_eq, not_true_eq_false, if_false,
    hk, Bool.not_true, Bool.false_eq_true]
  rw [pad32_of_length _ hh]
  have s1 : slice (PT.hash H c ++ be64 c.weight) 0 32 = .ok (PT.hash H c) := by
    unfold slice
    rw [if_pos (by simp [hh, be64_length]), List.take_left' hh]; rfl
  have s2 : sliceFrom (PT.hash H c ++ be64 c.weight) 32 = .ok (be64 c.weight) := by
    unfold sliceFrom
    rw [if_pos (by simp [hh, be64_length]), List.drop_left' hh]
  have s3 : uint64At (be64 c.weight) = .ok c.weight := by
    unfold uint64At
    have := be64Dec_be64 c.weight [] hw
    simp only [List.append_nil] at this
    rw [if_pos (by simp [be64_length]), this]
  simp [s1, s2, s3]

theorem PT.pick_some_of_le (ch : Nib → PT) (is : List Nib) (b : Nat) (hb1 : 1 ≤ b)
    (hb : b ≤ (is.map (fun i => (ch i).weight)).sum) :
    ∃ i b', PT.pick ch is b = some (i, b') ∧ 1 ≤ b' ∧ b' ≤ (ch i).weight := by
  induction is generalizing b with
  | nil => simp at hb; omega
  | cons i tl ih =>
    simp only [List.map_cons, List.sum_cons] at hb
    unfold PT.pick
    by_cases hn : (ch i).isNone
    · have hw : (ch i).weight = 0 := by cases h : ch i <;> simp_all [PT.isNone, PT.weight]
      simp only [hn, if_true]
      exact ih b hb1 (by omega)
    · simp only [hn]
      by_cases hle : b ≤ (ch i).weight
      · exact ⟨i, b, by simp [hle], hb1, hle⟩
      · simp only [hle, if_false]
        exact ih _ (by omega) (by omega)

/-- the honest proof verifies: the verifier rebuilds a node whose hash is the hash of the trie and returns the value
    of the leaf the weight-ordered descent reaches -/
theorem verify_honest (H : Bytes → Bytes) (hlen : ∀ x, (H x).length = 32) (t : PT) (b : Nat) (tail : List PairD)
    (hb1 : 1 ≤ b) (hb : b ≤ t.weight) (hw : t.weight < 2 ^ 64) (hkn : KeysNib t) :
    ∃ n k v, t.owner b = some (k, v) ∧
      verifyProof H ((t.proofPairs H b).map PairD.ok ++ tail) b = .ok (n, v, tail) ∧
      (calcHash H n).2 = t.hash H ∧ n.hashField H = t.hash H ∧ n.isNil = false := by
  induction t generalizing b tail with
  | none => simp [PT.weight] at hb; omega
  | value v w =>
    simp only [PT.weight] at hb hw
    have hnb : ¬ b > w := by omega
    refine ⟨.value (H (be64 w ++ v)) v w true, [], v, rfl, ?_, ?_, rfl, rfl⟩
    · simp [PT.proofPairs, PT.persist, verifyProof, deserializeNode, hnb, rehash, calcHash]
    · simp [calcHash, PT.hash]
  | short k c ih =>
    simp only [PT.weight] at hb hw
    obtain ⟨n', k', v, ho, hv, hc, _, hnil⟩ := ih b tail hb1 hb hw hkn.2
    have hnb : ¬ b > (WN.hashRef (PT.hash H c) c.weight).weight := by simp [WN.weight]; omega
    have hcn : (if n'.isNil = true then (WN.short k (H k) WN.nil true false, H k)
        else (WN.short k (H (k ++ (calcHash H n').2)) (calcHash H n').1 true false, H (k ++ (calcHash H n').2))) =
        (WN.short k (H (k ++ (calcHash H n').2)) (calcHash H n').1 true false, H (k ++ (calcHash H n').2)) := by
      simp [hnil]
    refine ⟨rehash H (.short k (PT.hash H (.short k c)) n' true false), k ++ k', v, ?_, ?_, ?_, ?_, ?_⟩
    · have : ¬ b > c.weight := by omega
      simp [PT.owner, this, ho]
    · simp only [PT.proofPairs, List.map_cons, List.cons_append, verifyProof, deserializeNode_short H hlen k c hw hkn.1, hnb,
        if_false, hv]
    · simp only [rehash, calcHash, if_true, hcn]
      have h2 := calcHash_idem H n'
      have hnil' : (calcHash H n').1.isNil = false := by rw [calcHash_fst_isNil]; exact hnil
      simp [calcHash, hnil', h2, hc, PT.hash]
    · simp [rehash, calcHash, hnil, WN.hashField, hc, PT.hash]
    · rw [rehash, calcHash_fst_isNil]; rfl
  | branch ch ih =>
    have hsum : b ≤ (allNib.map (fun i => (ch i).weight)).sum := hb
    obtain ⟨i, b', hp, hb1', hb'⟩ := PT.pick_some_of_le ch allNib b hb1 hsum
    have hwi : (ch i).weight < 2 ^ 64 := Nat.lt_of_le_of_lt (PT.weight_child_le ch i) hw
    obtain ⟨n', k', v, ho, hv, hc, _, hnil⟩ := ih i b' tail hb1' hb' hwi (hkn i)
    have hpc : pickChild (fun i => PT.refOf H (ch i)) allNib b = some (i, b') := by rw [pickChild_refOf]; exact hp
    -- the children hashes the rebuilt branch is hashed from are the true ones
    have hkids : allNib.flatMap (fun j => (calcHash H (upd (fun i => PT.refOf H (ch i)) i n' j)).2) =
        allNib.flatMap (fun j => PT.hash H (ch j)) := by
      rw [List.flatMap_def, List.flatMap_def]
      congr 1
      apply List.map_congr_left
      intro j _
      by_cases hj : j = i
      · subst hj; simp [upd, hc]
      · simp [upd, hj, PT.calcHash_refOf]
    refine ⟨rehash H (.routing (PT.hash H (.branch ch)) (upd (fun i => PT.refOf H (ch i)) i n') (PT.branch ch).weight true false),
      nb i :: k', v, ?_, ?_, ?_, ?_, ?_⟩
    · simp [PT.owner, hp, ho]
    · simp only [PT.proofPairs, hp, List.map_cons, List.cons_append, verifyProof, deserializeNode_branch H hlen ch hw hkn,
        hpc, hv]
    · have : (calcHash H (rehash H (.routing (PT.hash H (.branch ch)) (upd (fun i => PT.refOf H (ch i)) i n') (PT.branch ch).weight true false))).2
          = (calcHash H (.routing (PT.hash H (.branch ch)) (upd (fun i => PT.refOf H (ch i)) i n') (PT.branch ch).weight true false)).2 := by
        rw [rehash, calcHash_idem]
      rw [this]
      simp only [calcHash, if_true, List.flatMap_map, hkids, PT.hash]
    · simp only [rehash, calcHash, if_true, WN.hashField, List.flatMap_map, hkids, PT.hash]
    · rw [rehash, calcHash_fst_isNil]; rfl

end Verif.Wmpt
