/- Helper lemmas for the block-proof theorems (C10): big-endian weights, children tables, `CalcHash` idempotence,
   decoding of honestly persisted nodes. -/
import Verif.Model.WmptToy
namespace Verif.Wmpt

theorem be64_length (n : Nat) : (be64 n).length = 8 := by simp [be64]

theorem be64_eq (n : Nat) : be64 n =
    [UInt8.ofNat (n >>> 56 % 256), UInt8.ofNat (n >>> 48 % 256), UInt8.ofNat (n >>> 40 % 256), UInt8.ofNat (n >>> 32 % 256),
     UInt8.ofNat (n >>> 24 % 256), UInt8.ofNat (n >>> 16 % 256), UInt8.ofNat (n >>> 8 % 256), UInt8.ofNat (n >>> 0 % 256)] := by
  simp [be64, List.range, List.range.loop]

theorem toNat_ofNat_mod (x : Nat) : (UInt8.ofNat (x % 256)).toNat = x % 256 := by
  simp

/-- `binary.BigEndian.Uint64` reads back what `AppendUint64` wrote -/
theorem be64Dec_be64 (n : Nat) (rest : Bytes) (h : n < 2 ^ 64) : be64Dec (be64 n ++ rest) = n := by
  rw [be64_eq]
  simp only [be64Dec, List.cons_append, List.nil_append, List.take, List.foldl, toNat_ofNat_mod, Nat.shiftRight_eq_div_pow]
  omega

theorem ofList_map_allNib (g : Nib → WN) (i : Nib) : ofList (allNib.map g) i = g i := by
  have hi : i.val < (allNib.map g).length := by simp [allNib]
  simp only [ofList, List.getD_eq_getElem?_getD]
  rw [List.getElem?_eq_getElem hi]
  simp [allNib]

theorem ofList_map_allNib' (g : Nib → WN) : ofList (allNib.map g) = g := funext (ofList_map_allNib g)

theorem calcHash_fst_isNil (H : Bytes → Bytes) (c : WN) : (calcHash H c).1.isNil = c.isNil := by
  cases c with
  | nil => rfl
  | empty => rfl
  | hashRef h w => rfl
  | value h v w d => cases d <;> rfl
  | routing h ch w d tc => cases d <;> rfl
  | short k h c' d tc =>
    cases d with
    | false => rfl
    | true =>
      by_cases hn : c'.isNil <;> simp only [calcHash, hn, if_true, if_false, Bool.false_eq_true] <;> rfl

/-- `CalcHash` is idempotent: a second call changes nothing and returns the same hash (the dirty flags are not
    touched since fix 8a63293) -/
theorem calcHash_idem (H : Bytes → Bytes) (n : WN) : calcHash H (calcHash H n).1 = calcHash H n := by
  induction n with
  | nil => rfl
  | empty => rfl
  | hashRef h w => rfl
  | value h v w d => cases d <;> simp [calcHash]
  | short k h c d tc ih =>
    cases d with
    | false => simp [calcHash]
    | true =>
      by_cases hn : c.isNil
      · cases c <;> simp_all [calcHash, WN.isNil]
      · have hn' : (calcHash H c).1.isNil = false := by
          rw [calcHash_fst_isNil]; simpa using hn
        simp only [calcHash, hn, hn', if_true, Bool.false_eq_true, if_false, ih]
  | routing h ch w d tc ih =>
    cases d with
    | false => simp [calcHash]
    | true =>
      simp only [calcHash, if_true, List.map_map]
      have key : allNib.map (fun i => calcHash H (ofList (allNib.map ((fun r => r.1) ∘ fun i => calcHash H (ch i))) i)) =
          allNib.map (fun i => calcHash H (ch i)) := by
        apply List.map_congr_left
        intro i _
        rw [ofList_map_allNib]
        exact ih i
      simp only [Function.comp_def] at key
      have key2 := congrArg (List.map (fun r => r.1)) key
      simp only [List.map_map, Function.comp_def] at key2
      simp only [Function.comp_def, key, key2]

/-! ### decoding honestly persisted nodes -/

theorem deserializeChild_ref (h : Bytes) (w : Nat) (hh : h.length = 32) (hw : w < 2 ^ 64) :
    deserializeChild (h ++ be64 w) = .ok (some (.hashRef h w)) := by
  have hl : (h ++ be64 w).length = 40 := by simp [hh, be64_length]
  unfold deserializeChild
  simp only [show hashWithWeightLength = 40 from rfl, hl, ge_iff_le, Nat.le_refl, if_true]
  have s1 : slice (h ++ be64 w) 0 32 = .ok h := by
    unfold slice; simp [hl, List.take_left' hh]
  have s2 : sliceFrom (h ++ be64 w) 32 = .ok (be64 w) := by
    unfold sliceFrom; simp [hl, List.drop_left' hh]
  have s3 : uint64At (be64 w) = .ok w := by
    unfold uint64At
    have := be64Dec_be64 w [] hw
    simp only [List.append_nil] at this
    simp [be64_length, this]
  simp [s1, s2, s3]

theorem deserializeChild_short (h h' k : Bytes) (w : Nat) (hh : h.length = 32) (hh' : h'.length = 32) (hw : w < 2 ^ 64) :
    deserializeChild (h ++ be64 w ++ h' ++ k) = .ok (some (.short k h (.hashRef h' w) false false)) := by
  have hl : (h ++ be64 w ++ h' ++ k).length = 72 + k.length := by simp [hh, hh', be64_length]; omega
  have h40 : (h ++ be64 w).length = 40 := by simp [hh, be64_length]
  have h72 : (h ++ be64 w ++ h').length = 72 := by simp [hh, hh', be64_length]
  unfold deserializeChild
  simp only [show hashWithWeightLength = 40 from rfl, hl]
  have c1 : 72 + k.length ≥ 40 := by omega
  have c2 : ¬ (72 + k.length = 40) := by omega
  have c3 : ¬ (72 + k.length < 40 + 32) := by omega
  simp only [c1, c2, c3, if_true, if_false]
  have s1 : slice (h ++ be64 w ++ h' ++ k) 0 32 = .ok h := by
    unfold slice
    have : (h ++ be64 w ++ h' ++ k) = h ++ (be64 w ++ h' ++ k) := by simp [List.append_assoc]
    simp only [hl, Nat.zero_le, true_and]
    rw [if_pos (by omega), this, List.take_left' hh]; rfl
  have s2 : sliceFrom (h ++ be64 w ++ h' ++ k) 32 = .ok (be64 w ++ (h' ++ k)) := by
    unfold sliceFrom
    have : (h ++ be64 w ++ h' ++ k) = h ++ (be64 w ++ (h' ++ k)) := by simp [List.append_assoc]
    rw [if_pos (by rw [hl]; omega), this, List.drop_left' hh]
  have s3 : uint64At (be64 w ++ (h' ++ k)) = .ok w := by
    unfold uint64At
    rw [if_pos (by simp [be64_length]), be64Dec_be64 w _ hw]
  have s4 : slice (h ++ be64 w ++ h' ++ k) 40 (40 + 32) = .ok h' := by
    unfold slice
    rw [if_pos (by rw [hl]; omega)]
    have e1 : (h ++ be64 w ++ h' ++ k).take 72 = h ++ be64 w ++ h' := List.take_left' h72
    rw [show 40 + 32 = 72 from rfl, e1, List.drop_left' h40]
  have s5 : sliceFrom (h ++ be64 w ++ h' ++ k) (40 + 32) = .ok k := by
    unfold sliceFrom
    rw [if_pos (by rw [hl]; omega), show 40 + 32 = 72 from rfl, List.drop_left' h72]
  simp only [s1, s2, s3, s4, s5]

theorem PT.hash_length (H : Bytes → Bytes) (hlen : ∀ x, (H x).length = 32) (t : PT) : (t.hash H).length = 32 := by
  cases t <;> simp [PT.hash, emptyHash, hlen]

theorem pad32_of_length (b : Bytes) (h : b.length = 32) : pad32 b = b := by
  simp [pad32, List.take_append_of_le_length, h]

/-- what `DeserializeNode` makes of the entry of child `c` in an honestly persisted branch -/
def PT.refOf (H : Bytes → Bytes) : PT → WN
  | .none => .nil
  | .short k c => .short k (PT.hash H (.short k c)) (.hashRef (PT.hash H c) c.weight) false false
  | .value v w => .hashRef (PT.hash H (.value v w)) w
  | .branch ch => .hashRef (PT.hash H (.branch ch)) (PT.weight (.branch ch))

theorem PT.refOf_weight (H : Bytes → Bytes) (c : PT) : (PT.refOf H c).weight = c.weight := by
  cases c <;> simp [PT.refOf, WN.weight, PT.weight]

theorem PT.refOf_isNil (H : Bytes → Bytes) (c : PT) : (PT.refOf H c).isNil = c.isNone := by
  cases c <;> simp [PT.refOf, WN.isNil, PT.isNone]

theorem PT.calcHash_refOf (H : Bytes → Bytes) (c : PT) : (calcHash H (PT.refOf H c)).2 = c.hash H := by
  cases c <;> simp [PT.refOf, calcHash, PT.hash]

theorem deserializeChild_childEntry (H : Bytes → Bytes) (hlen : ∀ x, (H x).length = 32) (c : PT) (hw : c.weight < 2 ^ 64) :
    deserializeChild (PT.childEntry H c) = .ok (if c.isNone then none else some (PT.refOf H c)) := by
  cases c with
  | none => simp [PT.childEntry, deserializeChild, PT.isNone, hashWithWeightLength]
  | value v w =>
    simp only [PT.childEntry, PT.isNone, Bool.false_eq_true, if_false, PT.refOf]
    exact deserializeChild_ref _ _ (PT.hash_length H hlen _) (by simpa [PT.weight] using hw)
  | branch ch =>
    simp only [PT.childEntry, PT.isNone, Bool.false_eq_true, if_false, PT.refOf]
    exact deserializeChild_ref _ _ (PT.hash_length H hlen _) hw
  | short k c' =>
    simp only [PT.childEntry, PT.isNone, Bool.false_eq_true, if_false, PT.refOf]
    exact deserializeChild_short _ _ _ _ (PT.hash_length H hlen _) (PT.hash_length H hlen _) (by simpa [PT.weight] using hw)

theorem deserializeChildren_map (H : Bytes → Bytes) (hlen : ∀ x, (H x).length = 32) (cs : List PT)
    (hw : ∀ c ∈ cs, c.weight < 2 ^ 64) :
    deserializeChildren (cs.map (PT.childEntry H)) = .ok (cs.map (PT.refOf H), (cs.map PT.weight).sum) := by
  induction cs with
  | nil => rfl
  | cons c tl ih =>
    have hc := deserializeChild_childEntry H hlen c (hw c List.mem_cons_self)
    have ht := ih (fun x hx => hw x (List.mem_cons_of_mem _ hx))
    simp only [List.map_cons, deserializeChildren, hc, ht, List.sum_cons]
    cases c <;> simp [PT.isNone, PT.refOf, WN.weight, PT.weight]

theorem pickChild_refOf (H : Bytes → Bytes) (ch : Nib → PT) (is : List Nib) (b : Nat) :
    pickChild (fun i => PT.refOf H (ch i)) is b = PT.pick ch is b := by
  induction is generalizing b with
  | nil => rfl
  | cons i tl ih =>
    simp only [pickChild, PT.pick, PT.refOf_isNil, PT.refOf_weight, ih]

theorem PT.weight_child_le (ch : Nib → PT) (i : Nib) : (ch i).weight ≤ (PT.branch ch).weight := by
  simp only [PT.weight]
  have : (ch i).weight ∈ allNib.map (fun i => (ch i).weight) := List.mem_map.mpr ⟨i, by simp [allNib], rfl⟩
  exact List.le_sum_of_mem this

theorem deserializeNode_branch (H : Bytes → Bytes) (hlen : ∀ x, (H x).length = 32) (ch : Nib → PT)
    (hw : (PT.branch ch).weight < 2 ^ 64) :
    deserializeNode (PT.persist H (.branch ch)) =
      .ok (.routing (PT.hash H (.branch ch)) (fun i => PT.refOf H (ch i)) (PT.branch ch).weight false false) := by
  have hws : ∀ c ∈ allNib.map ch, c.weight < 2 ^ 64 := by
    intro c hc
    obtain ⟨i, _, rfl⟩ := List.mem_map.mp hc
    exact Nat.lt_of_le_of_lt (PT.weight_child_le ch i) hw
  have hd := deserializeChildren_map H hlen (allNib.map ch) hws
  simp only [List.map_map] at hd
  have hl : ¬ (allNib.map (fun i => PT.childEntry H (ch i))).length > branchNodeLength := by
    simp [allNib, branchNodeLength]
  have e1 : (allNib.map (fun i => PT.childEntry H (ch i))) = allNib.map (PT.childEntry H ∘ ch) := rfl
  simp only [deserializeNode, PT.persist, hl, if_false, e1, hd]
  have e2 : ofList (allNib.map (PT.refOf H ∘ ch)) = fun i => PT.refOf H (ch i) := ofList_map_allNib' _
  have e3 : (allNib.map (PT.weight ∘ ch)).sum = (PT.branch ch).weight := rfl
  rw [e2, e3, u64, Nat.mod_eq_of_lt hw]

theorem deserializeNode_short (H : Bytes → Bytes) (hlen : ∀ x, (H x).length = 32) (k : Bytes) (c : PT)
    (hw : c.weight < 2 ^ 64) :
    deserializeNode (PT.persist H (.short k c)) =
      .ok (.short k (PT.hash H (.short k c)) (.hashRef (PT.hash H c) c.weight) false false) := by
  have hh := PT.hash_length H hlen c
  have hl : (pad32 (PT.hash H c) ++ be64 c.weight).length = 40 := by simp [pad32_of_length _ hh, hh, be64_length]
  simp only [deserializeNode, PT.persist, show hashWithWeightLength = 40 from rfl, hl, ne_eq, not_true_eq_false, if_false]
  rw [pad32_of_length _ hh]
  have s1 : slice (PT.hash H c ++ be64 c.weight) 0 32 = .ok (PT.hash H c) := by
    unfold slice
    rw [if_pos (by simp [hh, be64_length]), List.take_left' hh]; rfl
  have s2 : sliceFrom (PT.hash H c ++ be64 c.weight) 32 = .ok (be64 c.weight) := by
    unfold sliceFrom
    rw [if_pos (by simp [hh, be64_length]), List.drop_left' hh]
  have s3 : uint64At (be64 c.weight) = .ok c.weight := by
    unfold uint64At
    have := be64Dec_be64 c.weight [] hw
    simp only [List.append_nil] at this
    rw [if_pos (by simp [be64_length]), this]
  simp only [s1, s2, s3]

end Verif.Wmpt
