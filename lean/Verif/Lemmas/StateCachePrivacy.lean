import Verif.Lemmas.StateCacheBasic
/-! Privacy of uncommitted writes (C07): simulation relations that ignore one transaction cache / one block cache. -/
set_option linter.unusedSectionVars false
namespace Verif.SC

variable {H K B V : Type} [DecidableEq H] [DecidableEq K] [DecidableEq B]

/-- the operation addresses transaction-cache handle `t` -/
def Op.usesTxn (t : H) : Op H K B V → Bool
  | .txn t' _ => decide (t' = t)
  | .qtxn t' _ => decide (t' = t)
  | .tset t' _ _ => decide (t' = t)
  | .trem t' _ => decide (t' = t)
  | .tget t' _ => decide (t' = t)
  | .tcommit t' => decide (t' = t)
  | _ => false

/-- equal except for the pending writes of transaction cache `t` -/
structure TxnEq (t : H) (s s' : Sys H K B V) : Prop where
  sc : s'.sc = s.sc
  bcs : s'.bcs = s.bcs
  tcs : ∀ t', t' ≠ t → alookup s'.tcs t' = alookup s.tcs t'

theorem TxnEq.aset {t : H} {s s' : Sys H K B V} (h : TxnEq t s s') (t' : H) (x : TC H K B V) :
    ∀ t'', t'' ≠ t → alookup (aset s'.tcs t' x) t'' = alookup (aset s.tcs t' x) t'' := by
  intro t'' ht''
  rw [alookup_aset, alookup_aset, h.tcs t'' ht'']

theorem Sys.step_txnEq {t : H} {s s' : Sys H K B V} (h : TxnEq t s s') (op : Op H K B V)
    (hu : op.usesTxn t = false) :
    (s'.step op).2 = (s.step op).2 ∧ TxnEq t (s.step op).1 (s'.step op).1 := by
  have hsc := h.sc
  have hbcs := h.bcs
  have htcs := h.tcs
  cases op with
  | blk hh hash prev => simp only [Sys.step]; exact ⟨trivial, ⟨hsc, by simp [hbcs], htcs⟩⟩
  | bhash hh hash =>
    simp only [Sys.step, hbcs]
    cases alookup s.bcs hh with
    | none => exact ⟨rfl, h⟩
    | some bc => exact ⟨rfl, ⟨hsc, rfl, htcs⟩⟩
  | txn t' hh =>
    simp only [Sys.step, hbcs]
    cases alookup s.bcs hh with
    | none => exact ⟨rfl, h⟩
    | some bc => exact ⟨rfl, ⟨hsc, rfl, h.aset t' _⟩⟩
  | qtxn t' b =>
    simp only [Sys.step]
    exact ⟨trivial, ⟨hsc, hbcs, h.aset t' _⟩⟩
  | tset t' k v =>
    have ht : t' ≠ t := by simpa [Op.usesTxn] using hu
    simp only [Sys.step, htcs t' ht]
    cases alookup s.tcs t' with
    | none => exact ⟨rfl, h⟩
    | some tc => exact ⟨rfl, ⟨hsc, hbcs, h.aset t' _⟩⟩
  | trem t' k =>
    have ht : t' ≠ t := by simpa [Op.usesTxn] using hu
    simp only [Sys.step, htcs t' ht]
    cases alookup s.tcs t' with
    | none => exact ⟨rfl, h⟩
    | some tc => exact ⟨rfl, ⟨hsc, hbcs, h.aset t' _⟩⟩
  | tget t' k =>
    have ht : t' ≠ t := by simpa [Op.usesTxn] using hu
    simp only [Sys.step, htcs t' ht, hbcs, hsc]
    cases alookup s.tcs t' with
    | none => exact ⟨rfl, h⟩
    | some tc =>
      simp only
      cases alookup tc.cache k with
      | some e => exact ⟨rfl, h⟩
      | none =>
        simp only
        cases tc.main with
        | block hh =>
          simp only
          cases alookup s.bcs hh with
          | none => exact ⟨rfl, h⟩
          | some bc => exact ⟨rfl, ⟨rfl, rfl, htcs⟩⟩
        | query b => exact ⟨rfl, ⟨rfl, rfl, htcs⟩⟩
  | tcommit t' =>
    have ht : t' ≠ t := by simpa [Op.usesTxn] using hu
    simp only [Sys.step, htcs t' ht, hbcs]
    cases alookup s.tcs t' with
    | none => exact ⟨rfl, h⟩
    | some tc =>
      simp only
      cases tc.main with
      | block hh =>
        simp only
        cases alookup s.bcs hh with
        | none => exact ⟨rfl, h⟩
        | some bc => exact ⟨rfl, ⟨hsc, rfl, h.aset t' _⟩⟩
      | query b => simp only; cases tc.cache <;> exact ⟨rfl, h⟩
  | bset hh k v =>
    simp only [Sys.step, hbcs]
    cases alookup s.bcs hh with
    | none => exact ⟨rfl, h⟩
    | some bc => exact ⟨rfl, ⟨hsc, rfl, htcs⟩⟩
  | bget hh k =>
    simp only [Sys.step, hbcs, hsc]
    cases alookup s.bcs hh with
    | none => exact ⟨rfl, h⟩
    | some bc => exact ⟨rfl, ⟨rfl, rfl, htcs⟩⟩
  | bcommit hh =>
    simp only [Sys.step, hbcs, hsc]
    cases alookup s.bcs hh with
    | none => exact ⟨rfl, h⟩
    | some bc => exact ⟨rfl, ⟨rfl, rfl, htcs⟩⟩
  | qget b k => simp only [Sys.step, hsc]; exact ⟨trivial, ⟨rfl, hbcs, htcs⟩⟩
  | sget k b => simp only [Sys.step, hsc]; exact ⟨trivial, ⟨rfl, hbcs, htcs⟩⟩
  | srem k => simp only [Sys.step, hsc]; exact ⟨trivial, ⟨rfl, hbcs, htcs⟩⟩

theorem Sys.run_txnEq {t : H} {s s' : Sys H K B V} (h : TxnEq t s s') (ops : List (Op H K B V))
    (hu : ∀ op ∈ ops, op.usesTxn t = false) : (s'.run ops).2 = (s.run ops).2 := by
  induction ops generalizing s s' with
  | nil => rfl
  | cons op ops ih =>
    simp only [Sys.run]
    obtain ⟨h1, h2⟩ := Sys.step_txnEq h op (hu op (by simp))
    rw [h1, ih h2 (fun o ho => hu o (by simp [ho]))]

/-! ### privacy of a block cache -/

def TC.onBlk (h : H) (tc : TC H K B V) : Bool :=
  match tc.main with
  | .block h' => decide (h' = h)
  | .query _ => false

/-- the operation goes through block-cache handle `h` (directly, or through a transaction cache that sits on it) -/
def Sys.usesBlk (s : Sys H K B V) (h : H) : Op H K B V → Bool
  | .blk h' _ _ => decide (h' = h)
  | .bhash h' _ => decide (h' = h)
  | .bset h' _ _ => decide (h' = h)
  | .bget h' _ => decide (h' = h)
  | .bcommit h' => decide (h' = h)
  | .tset t _ _ => match alookup s.tcs t with | some tc => tc.onBlk h | none => false
  | .trem t _ => match alookup s.tcs t with | some tc => tc.onBlk h | none => false
  | .tget t _ => match alookup s.tcs t with | some tc => tc.onBlk h | none => false
  | .tcommit t => match alookup s.tcs t with | some tc => tc.onBlk h | none => false
  | _ => false

/-- equal except for the pending writes of block cache `h` and of the transaction caches on it -/
structure BlkEq (h : H) (s s' : Sys H K B V) : Prop where
  sc : s'.sc = s.sc
  bcs : ∀ h', h' ≠ h → alookup s'.bcs h' = alookup s.bcs h'
  here : (alookup s'.bcs h).isSome = (alookup s.bcs h).isSome
  tcs : ∀ t, alookup s'.tcs t = alookup s.tcs t ∨
    ∃ tc tc', alookup s.tcs t = some tc ∧ alookup s'.tcs t = some tc' ∧ tc.onBlk h = true ∧ tc'.onBlk h = true

theorem BlkEq.refl (h : H) (s : Sys H K B V) : BlkEq h s s := ⟨rfl, fun _ _ => rfl, rfl, fun _ => .inl rfl⟩

theorem BlkEq.tcs_eq {h : H} {s s' : Sys H K B V} (e : BlkEq h s s') (t : H)
    (hn : ∀ tc, alookup s.tcs t = some tc → tc.onBlk h = false) : alookup s'.tcs t = alookup s.tcs t := by
  rcases e.tcs t with h1 | ⟨tc, tc', h1, _, h3, _⟩
  · exact h1
  · rw [hn tc h1] at h3; cases h3

theorem BlkEq.tcs_aset {h : H} {s s' : Sys H K B V} (e : BlkEq h s s') (t1 : H) (x : TC H K B V) (t : H) :
    alookup (aset s'.tcs t1 x) t = alookup (aset s.tcs t1 x) t ∨
    ∃ tc tc', alookup (aset s.tcs t1 x) t = some tc ∧ alookup (aset s'.tcs t1 x) t = some tc' ∧
      tc.onBlk h = true ∧ tc'.onBlk h = true := by
  rw [alookup_aset, alookup_aset]
  by_cases ht : t1 = t
  · simp [ht]
  · simp only [ht, if_false]; exact e.tcs t

theorem BlkEq.bcs_aset {h : H} {s s' : Sys H K B V} (e : BlkEq h s s') (h1 : H) (hne : h1 ≠ h) (x : BC K B V) :
    (∀ h', h' ≠ h → alookup (aset s'.bcs h1 x) h' = alookup (aset s.bcs h1 x) h') ∧
    ((alookup (aset s'.bcs h1 x) h).isSome = (alookup (aset s.bcs h1 x) h).isSome) := by
  constructor
  · intro h' hh'; rw [alookup_aset, alookup_aset, e.bcs h' hh']
  · rw [alookup_aset, alookup_aset]; simp only [hne, if_false]; exact e.here

theorem Sys.usesBlk_eq {h : H} {s s' : Sys H K B V} (e : BlkEq h s s') (op : Op H K B V) :
    s'.usesBlk h op = s.usesBlk h op := by
  have key : ∀ t, (match alookup s'.tcs t with | some tc => tc.onBlk h | none => false)
      = (match alookup s.tcs t with | some tc => tc.onBlk h | none => false) := by
    intro t
    rcases e.tcs t with h1 | ⟨tc, tc', h1, h2, h3, h4⟩
    · rw [h1]
    · rw [h1, h2]; simp only [h3, h4]
  cases op <;> simp only [Sys.usesBlk] <;> exact key _

theorem Sys.step_blkEq {h : H} {s s' : Sys H K B V} (e : BlkEq h s s') (op : Op H K B V)
    (hu : s.usesBlk h op = false) :
    (s'.step op).2 = (s.step op).2 ∧ BlkEq h (s.step op).1 (s'.step op).1 := by
  have hsc := e.sc
  cases op with
  | blk h1 hash prev =>
    have hne : h1 ≠ h := by simpa [Sys.usesBlk] using hu
    simp only [Sys.step]
    exact ⟨trivial, ⟨hsc, (e.bcs_aset h1 hne _).1, (e.bcs_aset h1 hne _).2, e.tcs⟩⟩
  | bhash h1 hash =>
    have hne : h1 ≠ h := by simpa [Sys.usesBlk] using hu
    simp only [Sys.step, e.bcs h1 hne]
    cases alookup s.bcs h1 with
    | none => exact ⟨rfl, e⟩
    | some bc => exact ⟨rfl, ⟨hsc, (e.bcs_aset h1 hne _).1, (e.bcs_aset h1 hne _).2, e.tcs⟩⟩
  | txn t h1 =>
    simp only [Sys.step]
    have hsome : (alookup s'.bcs h1).isSome = (alookup s.bcs h1).isSome := by
      by_cases hh : h1 = h
      · rw [hh]; exact e.here
      · rw [e.bcs h1 hh]
    cases h1s : alookup s.bcs h1 with
    | none =>
      rw [h1s] at hsome
      cases h2s : alookup s'.bcs h1 with
      | none => exact ⟨rfl, e⟩
      | some _ => rw [h2s] at hsome; cases hsome
    | some bc =>
      rw [h1s] at hsome
      cases h2s : alookup s'.bcs h1 with
      | none => rw [h2s] at hsome; cases hsome
      | some bc' => exact ⟨rfl, ⟨hsc, e.bcs, e.here, e.tcs_aset t _⟩⟩
  | qtxn t b =>
    simp only [Sys.step]
    exact ⟨trivial, ⟨hsc, e.bcs, e.here, e.tcs_aset t _⟩⟩
  | tset t k v =>
    have ht : alookup s'.tcs t = alookup s.tcs t := e.tcs_eq t (fun tc htc => by simpa [Sys.usesBlk, htc] using hu)
    simp only [Sys.step, ht]
    cases alookup s.tcs t with
    | none => exact ⟨rfl, e⟩
    | some tc => exact ⟨rfl, ⟨hsc, e.bcs, e.here, e.tcs_aset t _⟩⟩
  | trem t k =>
    have ht : alookup s'.tcs t = alookup s.tcs t := e.tcs_eq t (fun tc htc => by simpa [Sys.usesBlk, htc] using hu)
    simp only [Sys.step, ht]
    cases alookup s.tcs t with
    | none => exact ⟨rfl, e⟩
    | some tc => exact ⟨rfl, ⟨hsc, e.bcs, e.here, e.tcs_aset t _⟩⟩
  | tget t k =>
    have ht : alookup s'.tcs t = alookup s.tcs t := e.tcs_eq t (fun tc htc => by simpa [Sys.usesBlk, htc] using hu)
    simp only [Sys.step, ht, hsc]
    cases htc : alookup s.tcs t with
    | none => exact ⟨rfl, e⟩
    | some tc =>
      simp only
      cases alookup tc.cache k with
      | some e' => exact ⟨rfl, e⟩
      | none =>
        simp only
        cases hm : tc.main with
        | block h1 =>
          have hne : h1 ≠ h := by
            have : tc.onBlk h = false := by simpa [Sys.usesBlk, htc] using hu
            unfold TC.onBlk at this; rw [hm] at this; simpa using this
          simp only [e.bcs h1 hne]
          cases alookup s.bcs h1 with
          | none => exact ⟨rfl, e⟩
          | some bc => exact ⟨rfl, ⟨rfl, e.bcs, e.here, e.tcs⟩⟩
        | query b => exact ⟨rfl, ⟨rfl, e.bcs, e.here, e.tcs⟩⟩
  | tcommit t =>
    have ht : alookup s'.tcs t = alookup s.tcs t := e.tcs_eq t (fun tc htc => by simpa [Sys.usesBlk, htc] using hu)
    simp only [Sys.step, ht]
    cases htc : alookup s.tcs t with
    | none => exact ⟨rfl, e⟩
    | some tc =>
      simp only
      cases hm : tc.main with
      | block h1 =>
        have hne : h1 ≠ h := by
          have : tc.onBlk h = false := by simpa [Sys.usesBlk, htc] using hu
          unfold TC.onBlk at this; rw [hm] at this; simpa using this
        simp only [e.bcs h1 hne]
        cases alookup s.bcs h1 with
        | none => exact ⟨rfl, e⟩
        | some bc => exact ⟨rfl, ⟨hsc, (e.bcs_aset h1 hne _).1, (e.bcs_aset h1 hne _).2, e.tcs_aset t _⟩⟩
      | query b => simp only; cases tc.cache <;> exact ⟨rfl, e⟩
  | bset h1 k v =>
    have hne : h1 ≠ h := by simpa [Sys.usesBlk] using hu
    simp only [Sys.step, e.bcs h1 hne]
    cases alookup s.bcs h1 with
    | none => exact ⟨rfl, e⟩
    | some bc => exact ⟨rfl, ⟨hsc, (e.bcs_aset h1 hne _).1, (e.bcs_aset h1 hne _).2, e.tcs⟩⟩
  | bget h1 k =>
    have hne : h1 ≠ h := by simpa [Sys.usesBlk] using hu
    simp only [Sys.step, e.bcs h1 hne, hsc]
    cases alookup s.bcs h1 with
    | none => exact ⟨rfl, e⟩
    | some bc => exact ⟨rfl, ⟨rfl, e.bcs, e.here, e.tcs⟩⟩
  | bcommit h1 =>
    have hne : h1 ≠ h := by simpa [Sys.usesBlk] using hu
    simp only [Sys.step, e.bcs h1 hne, hsc]
    cases alookup s.bcs h1 with
    | none => exact ⟨rfl, e⟩
    | some bc => exact ⟨rfl, ⟨rfl, (e.bcs_aset h1 hne _).1, (e.bcs_aset h1 hne _).2, e.tcs⟩⟩
  | qget b k => simp only [Sys.step, hsc]; exact ⟨trivial, ⟨rfl, e.bcs, e.here, e.tcs⟩⟩
  | sget k b => simp only [Sys.step, hsc]; exact ⟨trivial, ⟨rfl, e.bcs, e.here, e.tcs⟩⟩
  | srem k => simp only [Sys.step, hsc]; exact ⟨trivial, ⟨rfl, e.bcs, e.here, e.tcs⟩⟩

/-- the history never goes through block-cache handle `h` -/
def AvoidsBlk (h : H) : Sys H K B V → List (Op H K B V) → Prop
  | _, [] => True
  | s, op :: ops => s.usesBlk h op = false ∧ AvoidsBlk h (s.step op).1 ops

theorem Sys.run_blkEq {h : H} {s s' : Sys H K B V} (e : BlkEq h s s') (ops : List (Op H K B V))
    (hu : AvoidsBlk h s ops) : (s'.run ops).2 = (s.run ops).2 := by
  induction ops generalizing s s' with
  | nil => rfl
  | cons op ops ih =>
    simp only [Sys.run]
    obtain ⟨h1, h2⟩ := Sys.step_blkEq e op hu.1
    rw [h1, ih h2 hu.2]

/-- writes into block cache `h` — `Set`, or the commit of a transaction cache that sits on it — and writes into such a
    transaction cache leave everything else equal -/
theorem BlkEq.of_write (h : H) (s : Sys H K B V) (op : Op H K B V)
    (hw : (∃ k v, op = .bset h k v) ∨ (∃ t, op = .tcommit t ∧ ∃ tc, alookup s.tcs t = some tc ∧ tc.main = .block h)
        ∨ (∃ t k v, op = .tset t k v ∧ ∃ tc, alookup s.tcs t = some tc ∧ tc.main = .block h)
        ∨ (∃ t k, op = .trem t k ∧ ∃ tc, alookup s.tcs t = some tc ∧ tc.main = .block h)) :
    BlkEq h s (s.step op).1 := by
  have honb : ∀ (x : TC H K B V), x.main = .block h → TC.onBlk h x = true := by
    intro x hm; unfold TC.onBlk; simp [hm]
  have tcsAt : ∀ (t : H) (tc x : TC H K B V), alookup s.tcs t = some tc → tc.main = .block h → x.main = .block h →
      ∀ t', alookup (aset s.tcs t x) t' = alookup s.tcs t' ∨
        ∃ a a', alookup s.tcs t' = some a ∧ alookup (aset s.tcs t x) t' = some a' ∧
          a.onBlk h = true ∧ a'.onBlk h = true := by
    intro t tc x htc hm hx t'
    rw [alookup_aset]
    by_cases ht : t = t'
    · subst ht; simp only [if_true]
      exact .inr ⟨tc, x, htc, rfl, honb tc hm, honb x hx⟩
    · simp [ht]
  have bcsAt : ∀ (x : BC K B V) (h' : H), h' ≠ h → alookup (aset s.bcs h x) h' = alookup s.bcs h' := by
    intro x h' hh'
    rw [alookup_aset]
    have : ¬ h = h' := fun e => hh' e.symm
    simp [this]
  rcases hw with ⟨k, v, rfl⟩ | ⟨t, rfl, tc, htc, hm⟩ | ⟨t, k, v, rfl, tc, htc, hm⟩ | ⟨t, k, rfl, tc, htc, hm⟩
  · simp only [Sys.step]
    cases hb : alookup s.bcs h with
    | none => exact BlkEq.refl h s
    | some bc =>
      refine ⟨rfl, fun h' hh' => bcsAt _ h' hh', ?_, fun _ => .inl rfl⟩
      simp only; rw [alookup_aset]; simp [hb]
  · simp only [Sys.step, htc, hm]
    cases hb : alookup s.bcs h with
    | none => exact BlkEq.refl h s
    | some bc =>
      refine ⟨rfl, fun h' hh' => bcsAt _ h' hh', ?_, tcsAt t tc _ htc hm rfl⟩
      simp only; rw [alookup_aset]; simp [hb]
  · simp only [Sys.step, htc]
    exact ⟨rfl, fun _ _ => rfl, rfl, tcsAt t tc _ htc hm hm⟩
  · simp only [Sys.step, htc]
    exact ⟨rfl, fun _ _ => rfl, rfl, tcsAt t tc _ htc hm hm⟩

theorem TxnEq.of_write (t : H) (s : Sys H K B V) (op : Op H K B V)
    (hw : (∃ k v, op = .tset t k v) ∨ (∃ k, op = .trem t k)) : TxnEq t s (s.step op).1 := by
  rcases hw with ⟨k, v, rfl⟩ | ⟨k, rfl⟩ <;>
  · simp only [Sys.step]
    cases alookup s.tcs t with
    | none => exact ⟨rfl, rfl, fun _ _ => rfl⟩
    | some tc =>
      refine ⟨rfl, rfl, fun t' ht' => ?_⟩
      have : ¬ t = t' := fun e => ht' e.symm
      simp only; rw [alookup_aset]; simp [this]

end Verif.SC
