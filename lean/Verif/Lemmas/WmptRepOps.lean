/-
C09 "also through collapsed references (resolve-on-demand)": `insert` / `delete` on a trie whose subtrees may be
`(hash, weight)` references into the storage behave like the pure operations `PT.insert` / `PT.delete` on the spec
tree the trie represents (`RepS`, Verif.Lemmas.WmptRep).  Core Lean only.
-/
import Verif.Lemmas.WmptRep
namespace Verif.Wmpt
namespace RepOps

/-! ### side conditions -/

/-- a `(hash, weight)` reference -/
def isRef : WN → Bool
  | .hashRef _ _ => true
  | _ => false

/-- `.empty` (the `*nilNode` of an empty trie) occurs at the root only -/
def NoEmp : WN → Prop
  | .short _ _ c _ _ => c ≠ .empty ∧ NoEmp c
  | .routing _ ch _ _ _ => ∀ i, ch i ≠ .empty ∧ NoEmp (ch i)
  | _ => True

/-- the bound that lets `resolve_stored` fire on every subtree: the weight fits 64 bits, the byte strings fit CBOR -/
def PTOK (t : PT) : Prop := t.weight < 2 ^ 64 ∧ PTSize t

theorem PTOK.child {ch : Nib → PT} (h : PTOK (.branch ch)) (i : Nib) : PTOK (ch i) :=
  ⟨Nat.lt_of_le_of_lt (PT.weight_child_le ch i) h.1, h.2 i⟩

theorem PTOK.short {k : Bytes} {c : PT} (h : PTOK (.short k c)) : PTOK c := ⟨h.1, h.2.2.2⟩

theorem isVB_isNone {t : PT} (h : t.isVB) : t.isNone = false := by
  cases t <;> simp [PT.isVB, PT.isNone] at h ⊢

theorem isVB_isShort {t : PT} (h : t.isVB) : t.isShort = false := by
  cases t <;> simp [PT.isVB, PT.isShort] at h ⊢

/-! ### 1. a loaded node represents the stored tree -/

section Loaded
variable {H : Bytes → Bytes} {s : Store}

theorem rep_refOf {m : Nat} {t : PT} (hst : StoredAll H s t) (hu : Uniform m t) : RepS H s (PT.refOf H t) t := by
  cases t with
  | none => exact Rep.nil
  | value v w => exact Rep.ref (.value v w) rfl hst
  | branch ch => exact Rep.ref (.branch ch) rfl hst
  | short k c =>
    exact Rep.short k _ _ false false c (Rep.ref c (isVB_isNone hu.2.2.2.1) hst.2) (fun _ => ⟨rfl, hst⟩)

theorem refOf_isRef_not_short {t : PT} {hh : Bytes} {ww : Nat} (h : PT.refOf H t = .hashRef hh ww) :
    t.isShort = false := by
  cases t <;> simp [PT.refOf, PT.isShort] at h ⊢

theorem refOf_ne_empty (t : PT) : PT.refOf H t ≠ .empty := by
  cases t <;> simp [PT.refOf]

theorem noEmp_refOf (t : PT) : NoEmp (PT.refOf H t) := by
  cases t <;> simp [PT.refOf, NoEmp]

/-- 1. the clean node `DeserializeNode` makes of a stored spec node represents it -/
theorem rep_loaded {m : Nat} {t : PT} (hst : StoredAll H s t) (hn : t.isNone = false) (hu : Uniform m t) :
    RepS H s (PT.loaded H t) t := by
  cases t with
  | none => simp [PT.isNone] at hn
  | value v w => exact Rep.value _ v w false (fun _ => ⟨rfl, hst⟩)
  | short k c =>
    exact Rep.short k _ _ false false c (Rep.ref c (isVB_isNone hu.2.2.2.1) hst.2) (fun _ => ⟨rfl, hst⟩)
  | branch ch =>
    exact Rep.routing _ _ _ false false ch (fun i => rep_refOf (hst.2 i) (hu.2 i))
      (fun i hh ww h => refOf_isRef_not_short h) rfl (fun _ => ⟨rfl, hst⟩)

theorem loaded_not_ref {t : PT} (hn : t.isNone = false) : isRef (PT.loaded H t) = false := by
  cases t <;> simp [PT.isNone, PT.loaded, isRef] at hn ⊢

theorem loaded_ne_empty {t : PT} (hn : t.isNone = false) : PT.loaded H t ≠ .empty := by
  cases t <;> simp [PT.isNone, PT.loaded] at hn ⊢

theorem noEmp_loaded (t : PT) : NoEmp (PT.loaded H t) := by
  cases t with
  | none => trivial
  | value v w => trivial
  | short k c => simp [PT.loaded, NoEmp]
  | branch ch => exact fun i => ⟨refOf_ne_empty _, noEmp_refOf _⟩

end Loaded

/-! ### sums over the sixteen children -/

theorem sum_map_upd_aux {α} [DecidableEq α] (l : List α) (hnd : l.Nodup) (g : α → Nat) (k : α) (a : Nat) :
    (l.map (fun i => if i = k then a else g i)).sum + (if k ∈ l then g k else 0) =
      (l.map g).sum + (if k ∈ l then a else 0) := by
  induction l with
  | nil => simp
  | cons x xs ih =>
    have hx : x ∉ xs := (List.nodup_cons.mp hnd).1
    have := ih (List.nodup_cons.mp hnd).2
    by_cases h : x = k
    · subst h
      simp only [hx, if_false, Nat.add_zero] at this
      simp [this]; omega
    · have hk : (k ∈ x :: xs) ↔ k ∈ xs := by simp [Ne.symm h]
      simp only [List.map_cons, List.sum_cons, h, if_false, hk]
      omega

theorem weight_updP (f : Nib → PT) (k : Nib) (y : PT) :
    (PT.branch (PT.updP f k y)).weight + (f k).weight = (PT.branch f).weight + y.weight := by
  have := sum_map_upd_aux allNib (List.nodup_finRange 16) (fun i => (f i).weight) k y.weight
  simp only [allNib, List.mem_finRange, if_true] at this
  simp only [PT.weight, allNib]
  rw [← this]
  congr 2
  apply List.map_congr_left
  intro i _
  unfold PT.updP
  split <;> rfl

theorem weight_noChP : (PT.branch PT.noChP).weight = 0 := by
  have : ∀ l : List Nib, (l.map (fun _ => 0)).sum = 0 := by
    intro l; induction l <;> simp_all
  simp [PT.weight, PT.noChP, this]

theorem weight_mkShortP (k : Bytes) (c : PT) : (PT.mkShort k c).weight = c.weight := by
  unfold PT.mkShort; split <;> rfl

theorem weight_mkShort (k : Bytes) (c : WN) : (mkShort k c).weight = c.weight := by
  unfold mkShort; split <;> rfl

theorem weight_split (i1 i2 : Nib) (hne : i1 ≠ i2) (a b : PT) :
    (PT.branch (PT.updP (PT.updP PT.noChP i1 a) i2 b)).weight = a.weight + b.weight := by
  have e1 := weight_updP (PT.updP PT.noChP i1 a) i2 b
  have e2 := weight_updP PT.noChP i1 a
  have e3 := weight_noChP
  have e4 : (PT.updP PT.noChP i1 a i2).weight = 0 := by simp [PT.updP, Ne.symm hne, PT.noChP, PT.weight]
  have e5 : (PT.noChP i1).weight = 0 := rfl
  omega

theorem sum_sole_aux {α} [DecidableEq α] (l : List α) (hnd : l.Nodup) (g : α → Nat) (pos : α)
    (h : ∀ j, j ≠ pos → g j = 0) : (l.map g).sum = if pos ∈ l then g pos else 0 := by
  induction l with
  | nil => simp
  | cons x xs ih =>
    have hx : x ∉ xs := (List.nodup_cons.mp hnd).1
    have := ih (List.nodup_cons.mp hnd).2
    by_cases hxp : x = pos
    · subst hxp
      simp only [hx, if_false] at this
      simp [this]
    · have hk : (pos ∈ x :: xs) ↔ pos ∈ xs := by simp [Ne.symm hxp]
      simp only [List.map_cons, List.sum_cons, hk, this, h x hxp]
      omega

theorem weight_sole (f : Nib → PT) (pos : Nib) (h : ∀ j, j ≠ pos → f j = .none) :
    (PT.branch f).weight = (f pos).weight := by
  simp only [PT.weight]
  rw [sum_sole_aux allNib (List.nodup_finRange 16) (fun i => (f i).weight) pos
    (fun j hj => by simp only [h j hj, PT.weight])]
  simp [allNib]

/-! ### `Rep` through `mkShort` / `upd` -/

section RepBasics
variable {H : Bytes → Bytes} {P : PT → Prop}

theorem rep_mkShort {k : Bytes} {c : WN} {t : PT} (h : Rep H P c t) : Rep H P (mkShort k c) (PT.mkShort k t) := by
  unfold mkShort PT.mkShort
  split
  · exact h
  · exact Rep.short k [] c true false t h (by simp)

theorem rep_upd {ch : Nib → WN} {f : Nib → PT} {x : WN} {y : PT} (k : Nib) (hf : ∀ i, Rep H P (ch i) (f i))
    (hx : Rep H P x y) : ∀ i, Rep H P (upd ch k x i) (PT.updP f k y i) := by
  intro i
  unfold upd PT.updP
  split
  · exact hx
  · exact hf i

theorem rep_noCh (i : Nib) : Rep H P (noCh i) (PT.noChP i) := Rep.nil

/-- the embedded-short-node rule is kept when a child is replaced by a node that is no reference -/
theorem route_upd {ch : Nib → WN} {f : Nib → PT} {x : WN} {y : PT} (k : Nib)
    (hf : ∀ i hh ww, ch i = .hashRef hh ww → (f i).isShort = false)
    (hx : ∀ hh ww, x = .hashRef hh ww → y.isShort = false) :
    ∀ i hh ww, upd ch k x i = .hashRef hh ww → (PT.updP f k y i).isShort = false := by
  intro i hh ww
  unfold upd PT.updP
  split
  · exact hx hh ww
  · exact hf i hh ww

theorem not_ref_of_isRef {x : WN} (h : isRef x = false) (hh : Bytes) (ww : Nat) : x ≠ .hashRef hh ww := by
  intro e; subst e; simp [isRef] at h

theorem noEmp_mkShort {k : Bytes} {c : WN} (h1 : c ≠ .empty) (h2 : NoEmp c) :
    mkShort k c ≠ .empty ∧ NoEmp (mkShort k c) := by
  unfold mkShort; split
  · exact ⟨h1, h2⟩
  · exact ⟨by simp, h1, h2⟩

theorem noEmp_upd {ch : Nib → WN} {x : WN} (k : Nib) (hc : ∀ i, ch i ≠ .empty ∧ NoEmp (ch i))
    (hx : x ≠ .empty ∧ NoEmp x) : ∀ i, upd ch k x i ≠ .empty ∧ NoEmp (upd ch k x i) := by
  intro i; unfold upd; split
  · exact hx
  · exact hc i

end RepBasics

/-! ### model-level equations for a short node whose key is a nibble string -/

section ModelEq
variable {hasDb : Bool} {s : Store}

theorem insert_short_eq_m (fuel : Nat) (sk h : Bytes) (c : WN) (d tc : Bool) (key : List Nib) (hk : key ≠ [])
    (value : WN) :
    insert hasDb s (fuel + 1) (.short sk h c d tc) key value =
      (let kb := key.map nb
       let p := commonPrefix sk kb
       if p = sk.length then
         let r := insert hasDb s fuel c (key.drop p) value
         { node := .short sk h r.node true tc, change := r.change, err := r.err, td := r.td }
       else
         match nibOf (sk.getD p 0), key[p]? with
         | some i1, some i2 =>
           let branch := WN.routing [] (upd (upd noCh i1 (mkShort (sk.drop (p + 1)) c)) i2 (mkShort (kb.drop (p + 1)) value))
             ((WN.short sk h c d tc).weight + value.weight) true false
           if p = 0 then { node := branch, change := value.weight, td := [h] }
           else { node := .short (kb.take p) [] branch true false, change := value.weight, td := [h] }
         | _, _ => { node := .short sk h c true tc, err := some .panic, td := [h] }) := by
  cases key with
  | nil => exact absurd rfl hk
  | cons k ks => rfl

theorem insert_short_prefix_m (fuel : Nat) (sn K2 : List Nib) (hs : sn ≠ []) (h : Bytes) (c : WN) (d tc : Bool)
    (value : WN) :
    insert hasDb s (fuel + 1) (.short (sn.map nb) h c d tc) (sn ++ K2) value =
      { node := .short (sn.map nb) h (insert hasDb s fuel c K2 value).node true tc,
        change := (insert hasDb s fuel c K2 value).change,
        err := (insert hasDb s fuel c K2 value).err,
        td := (insert hasDb s fuel c K2 value).td } := by
  rw [insert_short_eq_m _ _ _ _ _ _ _ (by simp [hs])]
  simp only [cp_prefix]
  simp

theorem insert_short_split_m (fuel : Nat) (a s' K' : List Nib) (i1 i2 : Nib) (hne : i1 ≠ i2) (h : Bytes) (c : WN)
    (d tc : Bool) (value : WN) :
    insert hasDb s (fuel + 1) (.short ((a ++ i1 :: s').map nb) h c d tc) (a ++ i2 :: K') value =
      { node := mkShort (a.map nb) (.routing [] (upd (upd noCh i1 (mkShort (s'.map nb) c)) i2 (mkShort (K'.map nb) value))
          (c.weight + value.weight) true false),
        change := value.weight, td := [h] } := by
  rw [insert_short_eq_m _ _ _ _ _ _ _ (by simp)]
  simp only [cp_split _ _ _ _ _ hne]
  have h1 : a.length ≠ ((a ++ i1 :: s').map nb).length := by simp
  simp only [h1, if_false]
  have h2 : ((a ++ i1 :: s').map nb).getD a.length 0 = nb i1 := by simp [List.getD]
  have h3 : (a ++ i2 :: K')[a.length]? = some i2 := by simp
  rw [h2, h3, nibOf_nb]
  simp only
  have h4 : ((a ++ i1 :: s').map nb).drop (a.length + 1) = s'.map nb := by
    rw [← List.map_drop, drop_len_succ]
  have h5 : ((a ++ i2 :: K').map nb).drop (a.length + 1) = K'.map nb := by
    rw [← List.map_drop, drop_len_succ]
  have h6 : ((a ++ i2 :: K').map nb).take a.length = a.map nb := by simp
  rw [h4, h5, h6]
  by_cases ha : a = []
  · subst ha; simp [mkShort, WN.weight]
  · have : a.length ≠ 0 := by simpa using ha
    simp [ha, this, mkShort, WN.weight]

end ModelEq

/-! ### 2. insert -/

/-- fuel needed: one step per nibble, one per resolved reference (a resolved node is never a reference) -/
def need (n : WN) (key : List Nib) : Nat := 2 * key.length + (if isRef n then 2 else 1)

theorem need_of_ref {n : WN} {key : List Nib} (h : isRef n = true) : need n key = 2 * key.length + 2 := by
  simp [need, h]

theorem need_of_not_ref {n : WN} {key : List Nib} (h : isRef n = false) : need n key = 2 * key.length + 1 := by
  simp [need, h]

theorem need_le (n : WN) (key : List Nib) : need n key ≤ 2 * key.length + 2 := by
  unfold need; split <;> omega

section Insert
variable {H : Bytes → Bytes} {s : Store}

/-- what a successful insert into `n` yields: the node represents `t'`, is no reference and not `.empty`, and the
reported change is the weight difference -/
def InsOK (H : Bytes → Bytes) (s : Store) (n : WN) (t' : PT) (r : IRes) : Prop :=
  r.err = none ∧ RepS H s r.node t' ∧ isRef r.node = false ∧ r.node ≠ .empty ∧ (NoEmp n → NoEmp r.node) ∧
    (r.node.weight : Int) = (n.weight : Int) + r.change

theorem uniform_zero {t : PT} (hu : Uniform 0 t) : t = .none ∨ ∃ vv vw, t = .value vv vw := by
  cases t with
  | none => exact .inl rfl
  | value vv vw => exact .inr ⟨vv, vw, rfl⟩
  | short sk c =>
    have h1 := hu.1
    have h2 := hu.2.2.1
    have : sk.length ≠ 0 := by simpa using h1
    omega
  | branch ch => have := hu.1; omega

theorem rep_insert_aux (hlen : ∀ x, (H x).length = 32) (v : Bytes) (w : Nat) :
    ∀ (fuel : Nat) (n : WN) (t : PT) (m : Nat) (key : List Nib),
    RepS H s n t → Uniform m t → PTOK t → key.length = m → need n key ≤ fuel →
    InsOK H s n (t.insert key v w) (insert true s fuel n key (.value [] v w true)) := by
  intro fuel
  induction fuel with
  | zero =>
    intro n t m key _ _ _ _ hf
    unfold need at hf
    split at hf <;> omega
  | succ fuel ih =>
    intro n t m key hrep hu hok hk hf
    cases key with
    | nil =>
      simp only [List.length_nil] at hk
      subst hk
      rcases uniform_zero hu with rfl | ⟨vv, vw, rfl⟩
      · cases hrep with
        | nil =>
          refine ⟨rfl, Rep.value [] v w true (by simp), rfl, by simp [insert], fun _ => trivial, ?_⟩
          simp [insert, WN.weight]
        | empty =>
          refine ⟨rfl, Rep.value [] v w true (by simp), rfl, by simp [insert], fun _ => trivial, ?_⟩
          simp [insert, WN.weight]
        | ref t hn hst => simp [PT.isNone] at hn
      · cases hrep with
        | ref t hn hst =>
          have hres := resolve_stored H hlen s (.value vv vw) rfl hst hok.1 hok.2
          simp only [insert, hres, PT.loaded, PT.insert]
          by_cases hv : vv = v
          · simp only [hv, if_true]
            subst hv
            exact ⟨rfl, Rep.value _ vv vw false (fun _ => ⟨rfl, hst⟩), rfl, by simp, fun _ => trivial, by simp [WN.weight, PT.weight]⟩
          · simp only [hv, if_false]
            refine ⟨rfl, Rep.value _ v w true (by simp), rfl, by simp, fun _ => trivial, ?_⟩
            simp only [WN.weight, PT.weight]
            omega
        | value h _ _ d hcl =>
          simp only [insert, PT.insert]
          by_cases hv : vv = v
          · simp only [hv, if_true]
            subst hv
            exact ⟨rfl, Rep.value _ vv vw d hcl, rfl, by simp, fun _ => trivial, by simp [WN.weight]⟩
          · simp only [hv, if_false]
            refine ⟨rfl, Rep.value _ v w true (by simp), rfl, by simp, fun _ => trivial, ?_⟩
            simp only [WN.weight]
            omega
    | cons k ks =>
      cases hrep with
      | nil =>
        refine ⟨rfl, ?_, rfl, by simp [insert], ?_, ?_⟩
        · exact Rep.short _ [] _ true false _ (Rep.value [] v w true (by simp)) (by simp)
        · simp [insert, NoEmp]
        · simp [insert, WN.weight]
      | empty =>
        refine ⟨rfl, ?_, rfl, by simp [insert], ?_, ?_⟩
        · exact Rep.short _ [] _ true false _ (Rep.value [] v w true (by simp)) (by simp)
        · simp [insert, NoEmp]
        · simp [insert, WN.weight]
      | value h vv vw d hcl =>
        simp only [Uniform] at hu
        subst hu
        simp at hk
      | ref t hn hst =>
        have hres := resolve_stored H hlen s t hn hst hok.1 hok.2
        have hf' : need (PT.loaded H t) (k :: ks) ≤ fuel := by
          rw [need_of_ref rfl] at hf
          rw [need_of_not_ref (loaded_not_ref hn)]
          omega
        have IH := ih (PT.loaded H t) t m (k :: ks) (rep_loaded hst hn hu) hu hok hk hf'
        obtain ⟨h1, h2, h3, h4, h5, h6⟩ := IH
        have hwl : (PT.loaded H t).weight = t.weight := (rep_loaded hst hn hu).weight
        simp only [insert, hres, h1]
        exact ⟨h1, h2, h3, h4, fun _ => h5 (noEmp_loaded t), by rw [h6, hwl]; rfl⟩
      | short sk h c d tc tc' hc hcl =>
        obtain ⟨sn, rfl⟩ := exists_nibs sk hu.2.1
        obtain ⟨hs, hle, hvb, huc⟩ := uniform_short_iff.mp hu
        rcases cp_cases sn (k :: ks) (by omega) with ⟨K2, hK⟩ | ⟨a, i1, s', i2, K', rfl, hK, hni⟩
        · rw [hK, insert_short_prefix_m _ _ _ hs, PT.insert_short_prefix _ _ hs]
          have hk2 : K2.length = m - sn.length := by rw [hK] at hk; simp at hk; omega
          have hsl : sn.length ≠ 0 := by simpa using hs
          have hf' : need c K2 ≤ fuel := by
            unfold need at hf ⊢
            rw [hK] at hf
            simp only [isRef, Bool.false_eq_true, if_false, List.length_append] at hf
            split <;> omega
          obtain ⟨h1, h2, h3, h4, h5, h6⟩ := ih c tc' _ K2 hc huc hok.short hk2 hf'
          exact ⟨h1, Rep.short _ _ _ true tc _ h2 (by simp), rfl, by simp, fun hne => ⟨h4, h5 hne.2⟩, h6⟩
        · rw [hK, insert_short_split_m _ _ _ _ _ _ hni, PT.insert_short_split _ _ _ _ _ hni]
          have hcw : c.weight = tc'.weight := hc.weight
          refine ⟨rfl, rep_mkShort ?_, ?_, ?_, ?_, ?_⟩
          · refine Rep.routing _ _ _ true false _
              (rep_upd i2 (rep_upd i1 rep_noCh (rep_mkShort hc)) (rep_mkShort (Rep.value [] v w true (by simp))))
              (route_upd i2 (route_upd i1 (fun i hh ww e => by simp [noCh] at e) ?_) ?_) ?_ (by simp)
            · intro hh ww e
              unfold mkShort at e
              unfold PT.mkShort
              split at e
              · rename_i hnil
                simp only [hnil, if_true]
                exact isVB_isShort hvb
              · cases e
            · intro hh ww e
              unfold mkShort at e
              split at e <;> cases e
            · rw [weight_split _ _ hni, weight_mkShortP, weight_mkShortP, hcw]
              rfl
          · unfold mkShort; split <;> rfl
          · unfold mkShort; split <;> simp
          · intro hne
            have hb : NoEmp (.routing [] (upd (upd noCh i1 (mkShort (s'.map nb) c)) i2
                (mkShort (K'.map nb) (.value [] v w true))) (c.weight + (WN.value [] v w true).weight) true false) :=
              noEmp_upd i2 (noEmp_upd i1 (fun _ => ⟨by simp [noCh], trivial⟩) (noEmp_mkShort hne.1 hne.2))
                (noEmp_mkShort (by simp) trivial)
            exact (noEmp_mkShort (by simp) hb).2
          · simp [weight_mkShort, WN.weight]
      | routing h ch cw d tc f hch hroute hcw hcl =>
        simp only [Uniform] at hu
        simp only [List.length_cons] at hk
        have hf' : need (ch k) ks ≤ fuel := by
          unfold need at hf ⊢
          simp only [isRef, Bool.false_eq_true, if_false, List.length_cons] at hf
          split <;> omega
        obtain ⟨h1, h2, h3, h4, h5, h6⟩ := ih (ch k) (f k) (m - 1) ks (hch k) (hu.2 k) (hok.child k)
          (by omega) hf'
        simp only [insert, h1, PT.insert]
        have hwk : (ch k).weight = (f k).weight := (hch k).weight
        have hwr := h2.weight
        have e1 := weight_updP f k ((f k).insert ks v w)
        refine ⟨rfl, ?_, rfl, by simp, fun hne => noEmp_upd k hne ⟨h4, h5 (hne k).2⟩, ?_⟩
        · refine Rep.routing _ _ _ true tc _ (rep_upd k hch h2)
            (route_upd k hroute (fun hh ww e => absurd e (not_ref_of_isRef h3 hh ww))) ?_ (by simp)
          omega
        · simp only [WN.weight]
          omega

/-- 2. an update through references: `insert` succeeds and yields a node representing `PT.insert`; the reported change is
the weight difference.  `.empty` (the root of an empty trie) is handled like `.nil`. -/
theorem rep_insert (hlen : ∀ x, (H x).length = 32) {n : WN} {t : PT} {m fuel : Nat} {key : List Nib} (v : Bytes) (w : Nat)
    (hrep : RepS H s n t) (hu : Uniform m t) (hok : PTOK t) (hk : key.length = m) (hf : 2 * m + 2 ≤ fuel) :
    let r := insert true s fuel n key (.value [] v w true)
    r.err = none ∧ RepS H s r.node (t.insert key v w) ∧ (r.node.weight : Int) = (n.weight : Int) + r.change ∧
      r.node ≠ .empty ∧ isRef r.node = false ∧ (NoEmp n → NoEmp r.node) := by
  have hf' : need n key ≤ fuel := Nat.le_trans (need_le n key) (by omega)
  obtain ⟨h1, h2, h3, h4, h5, h6⟩ := rep_insert_aux hlen v w fuel n t m key hrep hu hok hk hf'
  exact ⟨h1, h2, h6, h4, h3, h5⟩

end Insert

/-! ### 3. delete -/

theorem upd_self (ch : Nib → WN) (k : Nib) : upd ch k (ch k) = ch := by
  funext i; unfold upd; split
  · rename_i h; rw [h]
  · rfl

theorem soleChild_eq_sole {H : Bytes → Bytes} {P : PT → Prop} {ch : Nib → WN} {f : Nib → PT}
    (hf : ∀ i, Rep H P (ch i) (f i)) (hne : ∀ i, ch i ≠ .empty) : soleChild ch = PT.sole f := by
  unfold soleChild PT.sole
  have : (fun i => !(ch i).isNil) = (fun i => !(f i).isNone) := by
    funext i; rw [(hf i).isNil_iff (hne i)]
  rw [this]
  generalize List.filter (fun i => !(f i).isNone) allNib = l
  match l with
  | [] => rfl
  | [_] => rfl
  | _ :: _ :: _ => rfl

section DeleteEq
variable {H : Bytes → Bytes} {hasDb : Bool} {s : Store}

theorem delete_short_split_m (fuel : Nat) (a s' K' : List Nib) (i1 i2 : Nib) (hne : i1 ≠ i2) (h : Bytes) (c : WN)
    (d tc : Bool) :
    delete H hasDb s (fuel + 1) (.short ((a ++ i1 :: s').map nb) h c d tc) (a ++ i2 :: K') =
      { node := .short ((a ++ i1 :: s').map nb) h c d tc, err := some .notFound } := by
  simp only [delete, cp_split _ _ _ _ _ hne]
  simp

theorem delete_short_prefix_m (fuel : Nat) (sn K2 : List Nib) (h : Bytes) (c : WN) (d tc : Bool) :
    delete H hasDb s (fuel + 1) (.short (sn.map nb) h c d tc) (sn ++ K2) =
      if K2 = [] then { node := .nil, change := c.weight, td := [h, c.hashField H] }
      else
        match (delete H hasDb s fuel c K2).err with
        | some e => { node := .short (sn.map nb) h (delete H hasDb s fuel c K2).node d tc, err := some e,
                      td := (delete H hasDb s fuel c K2).td }
        | none =>
          match (delete H hasDb s fuel c K2).node with
          | .nil => { node := .nil, change := (delete H hasDb s fuel c K2).change,
                      td := (delete H hasDb s fuel c K2).td ++ [h] }
          | .short ck _ cc _ _ => { node := .short (sn.map nb ++ ck) h cc true tc,
                                    change := (delete H hasDb s fuel c K2).change, td := (delete H hasDb s fuel c K2).td }
          | n' => { node := .short (sn.map nb) h n' true tc, change := (delete H hasDb s fuel c K2).change,
                    td := (delete H hasDb s fuel c K2).td } := by
  simp only [delete, cp_prefix]
  by_cases hK : K2 = []
  · subst hK; simp [WN.weight]
  · have : ¬ sn.length = sn.length + K2.length := by
      have : K2.length ≠ 0 := by simpa using hK
      omega
    simp only [List.length_map, Nat.lt_irrefl, if_false, List.length_append, this, hK, List.drop_left]
    generalize delete H hasDb s fuel c K2 = r
    obtain ⟨node, change, err, td⟩ := r
    cases err with
    | some e => rfl
    | none => cases node <;> rfl

end DeleteEq

section Delete
variable {H : Bytes → Bytes} {s : Store}

/-- the outcome of `delete` on `n` (representing `t`): not found (node untouched), or the node of `PT.delete` -/
def DelOK (H : Bytes → Bytes) (s : Store) (n : WN) (t : PT) (key : List Nib) (r : DRes) : Prop :=
  (r.err = some .notFound ∧ t.delete key = none ∧ r.node = n) ∨
  (r.err = none ∧ isRef r.node = false ∧ r.node ≠ .empty ∧ NoEmp r.node ∧
    ∃ t', t.delete key = some t' ∧ RepS H s r.node t' ∧ r.node.weight + r.change = n.weight)

theorem rep_delete_aux (hlen : ∀ x, (H x).length = 32) :
    ∀ (fuel : Nat) (n : WN) (t : PT) (m : Nat) (key : List Nib),
    RepS H s n t → NoEmp n → Uniform m t → PTOK t → key.length = m → need n key ≤ fuel →
    DelOK H s n t key (delete H true s fuel n key) := by
  intro fuel
  induction fuel with
  | zero =>
    intro n t m key _ _ _ _ _ hf
    unfold need at hf
    split at hf <;> omega
  | succ fuel ih =>
    intro n t m key hrep hne hu hok hk hf
    unfold DelOK at ih ⊢
    cases hrep with
    | nil => left; simp [delete, PT.delete]
    | empty => left; simp [delete, PT.delete]
    | value h vv vw d hcl =>
      have hkn : key = [] := by
        simp only [Uniform] at hu
        exact List.eq_nil_of_length_eq_zero (hk.trans hu)
      subst hkn
      right
      refine ⟨rfl, rfl, by simp [delete], trivial, .none, by simp [PT.delete], Rep.nil, ?_⟩
      simp [delete, WN.weight]
    | ref t hn hst =>
      have hres := resolve_stored H hlen s t hn hst hok.1 hok.2
      have hf' : need (PT.loaded H t) key ≤ fuel := by
        rw [need_of_ref rfl] at hf
        rw [need_of_not_ref (loaded_not_ref hn)]
        omega
      have IH := ih (PT.loaded H t) t m key (rep_loaded hst hn hu) (noEmp_loaded t) hu hok hk hf'
      have hwl : (PT.loaded H t).weight = t.weight := (rep_loaded hst hn hu).weight
      simp only [delete, hres]
      generalize delete H true s fuel (PT.loaded H t) key = r at IH ⊢
      rcases IH with ⟨h1, h2, h3⟩ | ⟨h1, h2, h3, h4, t', h5, h6, h7⟩
      · left
        simp only [h1]
        exact ⟨trivial, h2, trivial⟩
      · right
        simp only [h1]
        exact ⟨trivial, h2, h3, h4, t', h5, h6, by rw [h7, hwl]; rfl⟩
    | short sk h c d tc tc' hc hcl =>
      obtain ⟨sn, rfl⟩ := exists_nibs sk hu.2.1
      obtain ⟨hs, hle, hvb, huc⟩ := uniform_short_iff.mp hu
      simp only [NoEmp] at hne
      rcases cp_cases sn key (by omega) with ⟨K2, rfl⟩ | ⟨a, i1, s', i2, K', rfl, rfl, hni⟩
      · rw [delete_short_prefix_m, PT.delete_short_prefix]
        by_cases hK : K2 = []
        · subst hK
          right
          simp only [if_true]
          exact ⟨by trivial, by trivial, by simp, trivial, .none, rfl, Rep.nil, by simp [WN.weight]⟩
        · simp only [hK, if_false]
          have hk2 : K2.length = m - sn.length := by simp at hk; omega
          have hsl : sn.length ≠ 0 := by simpa using hs
          have hf' : need c K2 ≤ fuel := by
            unfold need at hf ⊢
            simp only [isRef, Bool.false_eq_true, if_false, List.length_append] at hf
            split <;> omega
          have IH := ih c tc' _ K2 hc hne.2 huc hok.short hk2 hf'
          generalize delete H true s fuel c K2 = r at IH ⊢
          rcases IH with ⟨h1, h2, h3⟩ | ⟨h1, h2, h3, h4, t'', h5, h6, h7⟩
          · left
            simp only [h1, h2, h3]
            exact ⟨trivial, trivial, trivial⟩
          · right
            obtain ⟨node, change, err, td⟩ := r
            simp only at h1 h2 h3 h4 h6 h7
            subst h1
            simp only [h5]
            have hw : (WN.short (sn.map nb) h c d tc).weight = c.weight := rfl
            rw [hw]
            cases h6 with
            | nil =>
              -- the child of a uniform short node is a value (then `K2 = []`) or a branch (never deleted to nothing)
              exfalso
              cases tc' with
              | none => simp [PT.isVB] at hvb
              | short _ _ => simp [PT.isVB] at hvb
              | value vv vw =>
                simp only [Uniform] at huc
                have : K2.length ≠ 0 := by simpa using hK
                omega
              | branch bch => exact PT.delete_branch_ne bch K2 h5
            | empty => exact absurd rfl h3
            | ref t0 hn0 hst0 => simp [isRef] at h2
            | value vh vv vw vd hcl0 =>
              exact ⟨rfl, rfl, by simp, ⟨by simp, trivial⟩, _, rfl,
                Rep.short _ _ _ true tc _ (Rep.value vh vv vw vd hcl0) (by simp), h7⟩
            | routing rh rch rw rd rtc g hg hgr hgw hgcl =>
              exact ⟨rfl, rfl, by simp, ⟨by simp, h4⟩, _, rfl,
                Rep.short _ _ _ true tc _ (Rep.routing rh rch rw rd rtc g hg hgr hgw hgcl) (by simp), h7⟩
            | short ck chh cc cd ctc tcc hcc hccl =>
              simp only [NoEmp] at h4
              exact ⟨rfl, rfl, by simp, h4, _, rfl, Rep.short _ _ _ true tc _ hcc (by simp), h7⟩
      · left
        rw [delete_short_split_m _ _ _ _ _ _ hni, PT.delete_short_split _ _ _ _ _ hni]
        exact ⟨rfl, rfl, rfl⟩
    | routing h ch cw d tc f hch hroute hcw hcl =>
      simp only [Uniform] at hu
      simp only [NoEmp] at hne
      cases key with
      | nil => simp at hk; omega
      | cons k ks =>
        simp only [List.length_cons] at hk
        have hf' : need (ch k) ks ≤ fuel := by
          unfold need at hf ⊢
          simp only [isRef, Bool.false_eq_true, if_false, List.length_cons] at hf
          split <;> omega
        have IH := ih (ch k) (f k) (m - 1) ks (hch k) (hne k).2 (hu.2 k) (hok.child k) (by omega) hf'
        rw [PT.delete_branch_cons]
        simp only [delete]
        generalize delete H true s fuel (ch k) ks = r at IH ⊢
        rcases IH with ⟨h1, h2, h3⟩ | ⟨h1, h2, h3, h4, t'', h5, h6, h7⟩
        · left
          simp only [h1, h2, h3, upd_self]
          exact ⟨trivial, rfl, trivial⟩
        · right
          simp only [h1, h5, Option.map_some]
          have hch' : ∀ i, RepS H s (upd ch k r.node i) (PT.updP f k t'' i) := rep_upd k hch h6
          have hroute' := route_upd (y := t'') k hroute (fun hh ww e => absurd e (not_ref_of_isRef h2 hh ww))
          have hne' : ∀ i, upd ch k r.node i ≠ .empty ∧ NoEmp (upd ch k r.node i) := noEmp_upd k hne ⟨h3, h4⟩
          have hokp : ∀ i, isRef (upd ch k r.node i) = true → PTOK (PT.updP f k t'' i) := by
            intro i
            unfold upd PT.updP
            split
            · intro e; rw [h2] at e; cases e
            · intro _; exact hok.child i
          have hnil : r.node.isNil = t''.isNone := h6.isNil_iff h3
          have hsole := soleChild_eq_sole hch' (fun i => (hne' i).1)
          have hwk : (ch k).weight = (f k).weight := (hch k).weight
          have hwr : r.node.weight = t''.weight := h6.weight
          have e1 := weight_updP f k t''
          have hw' : cw - r.change = (PT.branch (PT.updP f k t'')).weight := by omega
          have hrout : isRef (WN.routing h (upd ch k r.node) (cw - r.change) true tc) = false ∧
              WN.routing h (upd ch k r.node) (cw - r.change) true tc ≠ .empty ∧
              NoEmp (WN.routing h (upd ch k r.node) (cw - r.change) true tc) ∧
              ∃ t', some (PT.branch (PT.updP f k t'')) = some t' ∧
                RepS H s (WN.routing h (upd ch k r.node) (cw - r.change) true tc) t' ∧
                (WN.routing h (upd ch k r.node) (cw - r.change) true tc).weight + r.change =
                  (WN.routing h ch cw d tc).weight := by
            refine ⟨rfl, by simp, hne', _, rfl, Rep.routing _ _ _ true tc _ hch' hroute' hw' (by simp), ?_⟩
            simp only [WN.weight]; omega
          rw [hnil, hsole]
          by_cases hn0 : t''.isNone = true
          · simp only [hn0, Bool.not_true, Bool.false_eq_true, if_false]
            cases hs : PT.sole (PT.updP f k t'') with
            | none => exact ⟨rfl, hrout⟩
            | some pos =>
              obtain ⟨hpne, hpz⟩ := PT.sole_spec hs
              have hwp : (upd ch k r.node pos).weight + r.change = (WN.routing h ch cw d tc).weight := by
                have := weight_sole _ pos hpz
                have := (hch' pos).weight
                simp only [WN.weight]; omega
              have hp := hch' pos
              have hnp := hne' pos
              have hrp := hroute' pos
              have hop := hokp pos
              simp only [PT.collapse]
              generalize upd ch k r.node pos = cp at hp hnp hrp hop hwp ⊢
              generalize PT.updP f k t'' pos = tp at hp hrp hop hpne ⊢
              cases hp with
              | nil => exact absurd rfl hpne
              | empty => exact absurd rfl hpne
              | ref _ hn0' hst0 =>
                have hns := hrp _ _ rfl
                have hok0 := hop rfl
                have hres := resolve_stored H hlen s tp hn0' hst0 hok0.1 hok0.2
                simp only [resolveNode, Bool.not_true, Bool.false_eq_true, if_false, hres]
                cases tp with
                | none => simp [PT.isNone] at hn0'
                | short _ _ => simp [PT.isShort] at hns
                | value vv vw =>
                  exact ⟨rfl, rfl, by simp [PT.loaded], ⟨by simp, trivial⟩, _, rfl,
                    Rep.short _ _ _ true false _ (Rep.ref _ rfl hst0) (by simp), hwp⟩
                | branch g =>
                  exact ⟨rfl, rfl, by simp [PT.loaded], ⟨by simp, trivial⟩, _, rfl,
                    Rep.short _ _ _ true false _ (Rep.ref _ rfl hst0) (by simp), hwp⟩
              | value vh vv vw vd hcl0 =>
                exact ⟨rfl, rfl, by simp [resolveNode], ⟨by simp, trivial⟩, _, rfl,
                  Rep.short _ _ _ true false _ (Rep.value vh vv vw vd hcl0) (by simp), hwp⟩
              | routing rh rch rw rd rtc g hg hgr hgw hgcl =>
                exact ⟨rfl, rfl, by simp [resolveNode], ⟨by simp, hnp.2⟩, _, rfl,
                  Rep.short _ _ _ true false _ (Rep.routing rh rch rw rd rtc g hg hgr hgw hgcl) (by simp), hwp⟩
              | short ck chh cc cd ctc tcc hcc hccl =>
                exact ⟨rfl, rfl, by simp [resolveNode], hnp.2, _, rfl,
                  Rep.short _ _ _ true false _ hcc (by simp), hwp⟩
          · simp only [hn0, Bool.not_false, if_true]
            exact ⟨trivial, hrout⟩

/-- 3. a delete through references: not found exactly when `PT.delete` says so (the node is untouched), otherwise the
node represents the tree of `PT.delete` (`.nil` for a removed subtree) and the reported change is the removed weight.
Side condition `NoEmp n`: `.empty` occurs at the root only (`soleChild` counts an inner `.empty` as a child). -/
theorem rep_delete (hlen : ∀ x, (H x).length = 32) {n : WN} {t : PT} {m fuel : Nat} {key : List Nib}
    (hrep : RepS H s n t) (hne : NoEmp n) (hu : Uniform m t) (hok : PTOK t) (hk : key.length = m)
    (hf : 2 * m + 2 ≤ fuel) :
    let r := delete H true s fuel n key
    (r.err = some .notFound ∧ t.delete key = none ∧ r.node = n) ∨
    (r.err = none ∧ ∃ t', t.delete key = some t' ∧ RepS H s r.node t' ∧ r.node.weight + r.change = n.weight ∧
      (r.node = .nil ↔ t' = .none) ∧ r.node ≠ .empty ∧ isRef r.node = false ∧ NoEmp r.node) := by
  have hf' : need n key ≤ fuel := Nat.le_trans (need_le n key) (by omega)
  rcases rep_delete_aux hlen fuel n t m key hrep hne hu hok hk hf' with h | ⟨h1, h2, h3, h4, t', h5, h6, h7⟩
  · exact .inl h
  · refine .inr ⟨h1, t', h5, h6, h7, ?_, h3, h2, h4⟩
    have := h6.isNil_iff h3
    constructor
    · intro e; rw [e] at this; exact (PT.isNone_iff t').mp this.symm
    · intro e; rw [e] at this
      cases hd : (delete H true s fuel n key).node <;> simp [hd, WN.isNil, PT.isNone] at this ⊢

end Delete

/-! ### 4. whole tries: `Update` / `Delete` with resolve-on-demand -/

section Trie
variable {H : Bytes → Bytes}

theorem rep_normRoot {P : PT → Prop} {n : WN} {t : PT} (h : Rep H P n t) : Rep H P (normRoot n) t := by
  cases h <;> first | exact Rep.empty | (simp only [normRoot, WN.isNil, Bool.false_eq_true, if_false]; constructor <;> assumption)

theorem rep_of_normRoot {P : PT → Prop} {n : WN} {t : PT} (h : Rep H P (normRoot n) t) (hn : n ≠ .empty) :
    Rep H P n t := by
  cases n with
  | nil => cases h; exact Rep.nil
  | empty => exact absurd rfl hn
  | hashRef _ _ => exact h
  | value _ _ _ _ => exact h
  | short _ _ _ _ _ => exact h
  | routing _ _ _ _ _ => exact h

theorem noEmp_normRoot (n : WN) : NoEmp (normRoot n) ↔ NoEmp n := by
  cases n <;> simp [normRoot, WN.isNil, NoEmp]

theorem weight_normRoot (n : WN) : (normRoot n).weight = n.weight := by
  cases n <;> rfl

theorem normRoot_idem (n : WN) : normRoot (normRoot n) = normRoot n := by
  cases n <;> rfl

theorem fuelFor_ok (key : List Nib) : 2 * key.length + 2 ≤ fuelFor key := by
  unfold fuelFor; omega

/-- `Update(key, value ≠ "", weight)` on a trie with references into its storage -/
theorem rep_update_insert (hlen : ∀ x, (H x).length = 32) (t : WT) (ts : PT) (key : List Nib) (value : Bytes) (w : Nat)
    (hdb : t.hasDb = true) (hrep : RepS H t.store (normRoot t.root) ts) (hne : NoEmp t.root)
    (hu : Uniform 64 ts) (hok : PTOK ts) (hk : key.length = 64) (hv : value ≠ []) :
    (update H t key value w).2 = .ok () ∧
    (update H t key value w).1.store = t.store ∧ (update H t key value w).1.hasDb = true ∧
    RepS H t.store (normRoot (update H t key value w).1.root) (ts.insert key value w) ∧
    NoEmp (update H t key value w).1.root ∧
    (update H t key value w).1.root.weight = (ts.insert key value w).weight := by
  have hf : 2 * 64 + 2 ≤ fuelFor key := by have := fuelFor_ok key; omega
  obtain ⟨h1, h2, h3, h4, h5, h6⟩ := rep_insert (s := t.store) (fuel := fuelFor key) hlen value w hrep hu hok hk hf
  have e : update H t key value w =
      ({ t with root := (insert true t.store (fuelFor key) (normRoot t.root) key (.value [] value w true)).node,
                pending := t.pending ++ (insert true t.store (fuelFor key) (normRoot t.root) key (.value [] value w true)).td },
       .ok ()) := by
    simp only [update, hk, ne_eq, not_true_eq_false, if_false, hv, not_false_eq_true, if_true, hdb, h1]
  rw [e]
  exact ⟨rfl, rfl, hdb, rep_normRoot h2, h6 ((noEmp_normRoot _).mpr hne), h2.weight⟩

/-- `Update(key, "", _)` = delete -/
theorem rep_update_delete (hlen : ∀ x, (H x).length = 32) (t : WT) (ts : PT) (key : List Nib) (w : Nat)
    (hdb : t.hasDb = true) (hrep : RepS H t.store (normRoot t.root) ts) (hne : NoEmp t.root)
    (hu : Uniform 64 ts) (hok : PTOK ts) (hk : key.length = 64) :
    (update H t key [] w).1.store = t.store ∧ (update H t key [] w).1.hasDb = true ∧
    NoEmp (update H t key [] w).1.root ∧
    (((update H t key [] w).2 = .err .notFound ∧ ts.delete key = none ∧
        RepS H t.store (normRoot (update H t key [] w).1.root) ts) ∨
     ((update H t key [] w).2 = .ok () ∧ ∃ ts', ts.delete key = some ts' ∧
        RepS H t.store (normRoot (update H t key [] w).1.root) ts' ∧
        (update H t key [] w).1.root.weight = ts'.weight)) := by
  have hf : 2 * 64 + 2 ≤ fuelFor key := by have := fuelFor_ok key; omega
  have hd := rep_delete (s := t.store) (fuel := fuelFor key) hlen hrep ((noEmp_normRoot _).mpr hne) hu hok hk hf
  rcases hd with ⟨h1, h2, h3⟩ | ⟨h1, t', h2, h3, h4, h5, h6, h7, h8⟩
  · have e : update H t key [] w =
        ({ t with root := normRoot (normRoot t.root),
                  pending := t.pending ++ (delete H true t.store (fuelFor key) (normRoot t.root) key).td },
         .err .notFound) := by
      simp only [update, hk, ne_eq, not_true_eq_false, if_false, hdb, h1, h3]
    rw [e]
    exact ⟨rfl, hdb, (noEmp_normRoot _).mpr ((noEmp_normRoot _).mpr hne),
      .inl ⟨rfl, h2, by simp only [normRoot_idem]; exact hrep⟩⟩
  · have e : update H t key [] w =
        ({ t with root := normRoot (delete H true t.store (fuelFor key) (normRoot t.root) key).node,
                  pending := t.pending ++ (delete H true t.store (fuelFor key) (normRoot t.root) key).td },
         .ok ()) := by
      simp only [update, hk, ne_eq, not_true_eq_false, if_false, hdb, h1]
    rw [e]
    refine ⟨rfl, hdb, (noEmp_normRoot _).mpr h8, .inr ⟨rfl, t', h2, ?_, ?_⟩⟩
    · simp only [normRoot_idem]; exact rep_normRoot h3
    · simp only [weight_normRoot]; exact h3.weight

/-- `Delete(key)` (keys of the one length `m` of the trie) -/
theorem rep_deleteKey (hlen : ∀ x, (H x).length = 32) (t : WT) (ts : PT) (m : Nat) (key : List Nib)
    (hdb : t.hasDb = true) (hrep : RepS H t.store (normRoot t.root) ts) (hne : NoEmp t.root)
    (hu : Uniform m ts) (hok : PTOK ts) (hk : key.length = m) :
    (deleteKey H t key).1.store = t.store ∧ (deleteKey H t key).1.hasDb = true ∧
    NoEmp (deleteKey H t key).1.root ∧
    (((deleteKey H t key).2 = .err .notFound ∧ ts.delete key = none ∧ (deleteKey H t key).1.root = t.root) ∨
     (∃ ts', (deleteKey H t key).2 = .ok (ts.weight - ts'.weight) ∧ ts.delete key = some ts' ∧
        RepS H t.store (normRoot (deleteKey H t key).1.root) ts' ∧
        (deleteKey H t key).1.root.weight = ts'.weight)) := by
  have hf : 2 * m + 2 ≤ fuelFor key := by have := fuelFor_ok key; omega
  by_cases he : t.root = .empty
  · have hts : ts = .none := by rw [he] at hrep; cases hrep; rfl
    subst hts
    have e : deleteKey H t key = ({ t with root := .empty, pending := t.pending ++ [] }, .err .notFound) := by
      simp only [deleteKey, he, hdb, fuelFor, delete]
    rw [e]
    exact ⟨rfl, hdb, trivial, .inl ⟨rfl, by simp [PT.delete], he.symm⟩⟩
  · have hrep' := rep_of_normRoot hrep he
    have hd := rep_delete (s := t.store) (fuel := fuelFor key) hlen hrep' hne hu hok hk hf
    have hwt := hrep'.weight
    rcases hd with ⟨h1, h2, h3⟩ | ⟨h1, t', h2, h3, h4, h5, h6, h7, h8⟩
    · have e : deleteKey H t key =
          ({ t with root := t.root, pending := t.pending ++ (delete H true t.store (fuelFor key) t.root key).td },
           .err .notFound) := by
        simp only [deleteKey, hdb, h1, h3]
      rw [e]
      exact ⟨rfl, hdb, hne, .inl ⟨rfl, h2, rfl⟩⟩
    · have e : deleteKey H t key =
          ({ t with root := normRoot (delete H true t.store (fuelFor key) t.root key).node,
                    pending := t.pending ++ (delete H true t.store (fuelFor key) t.root key).td },
           .ok (delete H true t.store (fuelFor key) t.root key).change) := by
        simp only [deleteKey, hdb, h1]
      rw [e]
      refine ⟨rfl, hdb, (noEmp_normRoot _).mpr h8, .inr ⟨t', ?_, h2, ?_, ?_⟩⟩
      · have := h3.weight
        show Res.ok _ = Res.ok _
        congr 1; omega
      · simp only [normRoot_idem]; exact rep_normRoot h3
      · simp only [weight_normRoot]; exact h3.weight

theorem allNib_eq : allNib = [0, 1, 2, 3, 4, 5, 6, 7, 8, 9, 10, 11, 12, 13, 14, 15] := by decide

/-- Without `NoEmp` statement 3 fails: a branch with an inner `.empty` child (which `Rep` lets stand for an absent
subtree) and two values; after deleting one value `soleChild` still sees two children and keeps the branch, whereas
`PT.delete` collapses it into a short node. -/
theorem rep_delete_needs_noEmp (s : Store) :
    ∃ (n : WN) (t : PT) (key : List Nib), RepS H s n t ∧ Uniform 1 t ∧ PTOK t ∧ key.length = 1 ∧
      (delete H true s 4 n key).err = none ∧
      ∃ t', t.delete key = some t' ∧ ¬ RepS H s (delete H true s 4 n key).node t' := by
  let ch : Nib → WN := upd (upd (upd noCh 0 .empty) 1 (.value [] [1] 1 true)) 2 (.value [] [2] 1 true)
  let f : Nib → PT := PT.updP (PT.updP PT.noChP 1 (.value [1] 1)) 2 (.value [2] 1)
  have hw : (PT.branch f).weight = 2 := by
    have := weight_split 1 2 (by decide) (.value [1] 1) (.value [2] 1)
    simpa [PT.weight] using this
  have hrep : RepS H s (.routing [] ch 2 true false) (.branch f) := by
    refine Rep.routing _ _ _ true false f ?_ ?_ hw.symm (by simp)
    · intro i
      show Rep H _ (upd (upd (upd noCh 0 .empty) 1 _) 2 _ i) (PT.updP (PT.updP PT.noChP 1 _) 2 _ i)
      unfold upd PT.updP
      split
      · exact Rep.value _ _ _ true (by simp)
      · split
        · exact Rep.value _ _ _ true (by simp)
        · split
          · exact Rep.empty
          · exact Rep.nil
    · intro i hh ww e
      simp only [ch, upd, noCh] at e
      split at e
      · cases e
      · split at e
        · cases e
        · split at e <;> cases e
  have hu : Uniform 1 (.branch f) := by
    refine ⟨by omega, fun i => ?_⟩
    simp only [f, PT.updP, PT.noChP]
    split
    · simp [Uniform]
    · split <;> simp [Uniform]
  have hok : PTOK (.branch f) := by
    refine ⟨by rw [hw]; omega, fun i => ?_⟩
    simp only [f, PT.updP, PT.noChP]
    split
    · simp [PTSize]
    · split <;> simp [PTSize]
  have hsole : soleChild (upd ch 2 .nil) = none := by
    simp [soleChild, ch, upd, noCh, allNib_eq, WN.isNil, List.filter]
  have hsoleP : PT.sole (PT.updP f 2 .none) = some 1 := by
    simp [PT.sole, f, PT.updP, PT.noChP, allNib_eq, PT.isNone, List.filter]
  refine ⟨.routing [] ch 2 true false, .branch f, [2], hrep, hu, hok, rfl, ?_⟩
  have hd : delete H true s 4 (.routing [] ch 2 true false) [2] =
      { node := .routing [] (upd ch 2 .nil) 1 true false, change := 1, td := [[]] } := by
    have e0 : ch 2 = .value [] [2] 1 true := by simp [ch, upd]
    simp only [delete, e0, WN.isNil, Bool.not_true, Bool.false_eq_true, if_false, hsole, ne_eq, not_true_eq_false]
  have hdP : (PT.branch f).delete [2] = some (.short [nb 1] (.value [1] 1)) := by
    have e0 : f 2 = .value [2] 1 := by simp [f, PT.updP]
    have e1 : PT.updP f 2 .none 1 = .value [1] 1 := by simp [f, PT.updP]
    rw [PT.delete_branch_cons, e0]
    simp only [PT.delete, Option.map_some, PT.isNone, Bool.not_true, Bool.false_eq_true, if_false, hsoleP,
      PT.collapse, e1]
  rw [hd]
  exact ⟨rfl, _, hdP, fun h => by cases h⟩

end Trie

end RepOps
end Verif.Wmpt
