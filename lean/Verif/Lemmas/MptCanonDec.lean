/-
Boolean checkers for `WFn`, `WF`, `AllOrigin`, so that these predicates can be decided on closed terms
(used for the non-vacuity examples and the C02 counterexample).  Core Lean only.
-/
import Verif.Lemmas.MptWF
namespace Verif.Mpt

def wfnB : Node → Bool
  | .empty => false
  | .leaf _ _ lv => !(lv == [])
  | .full _ ch val =>
    (List.finRange 16).all (fun i => (ch i).isEmpty || wfnB (ch i))
      && (match val with | some b => !(b == []) | none => true)
      && decide (2 ≤ entryCount ch val)
  | .ext _ ep c => !(ep == []) && c.isFull && wfnB c

theorem wfnB_iff : ∀ t : Node, wfnB t = true ↔ WFn t := by
  intro t
  induction t with
  | empty => simp [wfnB, WFn]
  | leaf o lp lv => simp [wfnB, WFn]
  | full o ch val ih =>
    simp only [wfnB, WFn, Bool.and_eq_true, List.all_eq_true, Bool.or_eq_true, decide_eq_true_eq]
    constructor
    · rintro ⟨⟨h1, h2⟩, h3⟩
      refine ⟨fun i => ?_, ?_, h3⟩
      · cases h1 i (List.mem_finRange i) with
        | inl h => exact Or.inl h
        | inr h => exact Or.inr ((ih i).mp h)
      · intro b hb; subst hb; simpa using h2
    · rintro ⟨h1, h2, h3⟩
      refine ⟨⟨fun i _ => ?_, ?_⟩, h3⟩
      · cases h1 i with
        | inl h => exact Or.inl h
        | inr h => exact Or.inr ((ih i).mpr h)
      · cases val with
        | none => rfl
        | some b => simpa using h2 b rfl
  | ext o ep c ih =>
    simp only [wfnB, WFn, Bool.and_eq_true, ih]
    simp [and_assoc]

instance (t : Node) : Decidable (WFn t) := decidable_of_iff _ (wfnB_iff t)

instance (t : Node) : Decidable (WF t) := by unfold WF; infer_instance

def allOriginB (v : Nat) : Node → Bool
  | .empty => true
  | .leaf o _ _ => o == v
  | .full o ch _ => o == v && (List.finRange 16).all (fun i => allOriginB v (ch i))
  | .ext o _ c => o == v && allOriginB v c

theorem allOriginB_iff (v : Nat) : ∀ t : Node, allOriginB v t = true ↔ AllOrigin v t := by
  intro t
  induction t with
  | empty => simp [allOriginB, AllOrigin]
  | leaf o lp lv => simp [allOriginB, AllOrigin]
  | full o ch val ih =>
    simp only [allOriginB, AllOrigin, Bool.and_eq_true, List.all_eq_true, beq_iff_eq, ih]
    constructor
    · rintro ⟨h1, h2⟩; exact ⟨h1, fun i => h2 i (List.mem_finRange i)⟩
    · rintro ⟨h1, h2⟩; exact ⟨h1, fun i _ => h2 i⟩
  | ext o ep c ih => simp [allOriginB, AllOrigin, ih]

instance (v : Nat) (t : Node) : Decidable (AllOrigin v t) := decidable_of_iff _ (allOriginB_iff v t)

end Verif.Mpt
