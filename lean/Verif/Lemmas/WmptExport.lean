/-
C12 "a partial trie built from a path export evolves like the full trie": assembly of the export (`GetPath`), import
(`Deserialize`) and simulation (`Update` / `Delete` on a requested key) lemmas.
-/
import Verif.Lemmas.WmptDirtyUp
import Verif.Lemmas.WmptPartial
import Verif.Lemmas.WmptRepMore
namespace Verif.Wmpt
open RepOps (NoEmp PTOK isRef)
open RepMore (UpDirty)

/-! ### 1. `UpDirty` and `DirtyUp` -/

theorem dirtyUp_of_upDirty : ∀ {n : WN}, UpDirty n → DirtyUp n
  | .nil, _ => trivial
  | .empty, _ => trivial
  | .hashRef _ _, _ => trivial
  | .value _ _ _ _, _ => trivial
  | .short _ _ c _ _, h => (dirtyUp_of_upDirty (n := c) h.2 : DirtyUp c)
  | .routing _ _ _ _ _, h => ⟨h.1, fun i => dirtyUp_of_upDirty (h.2 i)⟩

/-- the short-node clause of `UpDirty` is part of `Proper` -/
theorem upDirty_of_dirtyUp : ∀ {n : WN}, Proper n → DirtyUp n → UpDirty n
  | .nil, _, _ => trivial
  | .empty, _, _ => trivial
  | .hashRef _ _, _, _ => trivial
  | .value _ _ _ _, _, _ => trivial
  | .short _ _ c _ _, hp, h => ⟨hp.2.2.1, upDirty_of_dirtyUp (n := c) hp.2.2.2 h⟩
  | .routing _ _ _ _ _, hp, h => ⟨h.1, fun i => upDirty_of_dirtyUp (hp i).2 (h.2 i)⟩

/-! ### 2. the source trie after `GetPath` -/

section Collect
variable {H : Bytes → Bytes}

theorem collectNodes_isNil (n : WN) : (collectNodes H n).1.isNil = n.isNil := by
  cases n with
  | routing h ch w d tc => cases tc <;> cases d <;> simp [collectNodes, calcHash, WN.isNil]
  | value h v w d => cases d <;> simp [collectNodes, serializeP, calcHash, WN.isNil]
  | _ => simp [collectNodes, WN.isNil]

theorem collectNodes_eq_empty (n : WN) : (collectNodes H n).1 = .empty ↔ n = .empty := by
  cases n with
  | routing h ch w d tc => cases tc <;> cases d <;> simp [collectNodes, calcHash]
  | value h v w d => cases d <;> simp [collectNodes, serializeP, calcHash]
  | _ => simp [collectNodes]

theorem collectNodes_hashRef {n : WN} {hh : Bytes} {ww : Nat} (h : (collectNodes H n).1 = .hashRef hh ww) :
    n = .hashRef hh ww := by
  cases n with
  | routing h ch w d tc => cases tc <;> cases d <;> simp [collectNodes, calcHash] at h
  | value h v w d => cases d <;> simp [collectNodes, serializeP, calcHash] at h
  | hashRef a b => simpa [collectNodes] using h
  | _ => simp [collectNodes] at h

theorem serializeP_short_hash_clean (k h : Bytes) (c : WN) (tc : Bool) :
    (serializeP H (.short k h c false tc)).1.hashField H = h := by
  simp [serializeP, calcHash, WN.hashField]

theorem serializeP_routing_hash_clean (h : Bytes) (ch : Nib → WN) (w : Nat) (tc : Bool) :
    (serializeP H (.routing h ch w false tc)).1.hashField H = h := by
  simp [serializeP, calcHash, WN.hashField]

/-- 2. `collectNodes` (the second half of `GetPath`) leaves a node that represents the same tree: cached hashes are
    refreshed like `CalcHash` does, export marks cleared, dirty flags untouched. -/
theorem rep_collectNodes {P : PT → Prop} {n : WN} {t : PT} (h : Rep H P n t) :
    Proper n → Rep H P (collectNodes H n).1 t ∧ Proper (collectNodes H n).1 ∧
      (collectNodes H n).1.weight = n.weight := by
  induction h with
  | nil => intro _; exact ⟨Rep.nil, trivial, rfl⟩
  | empty => intro _; exact ⟨Rep.empty, trivial, rfl⟩
  | ref t hn hp => intro _; exact ⟨Rep.ref t hn hp, trivial, rfl⟩
  | value h v w d hc =>
    intro hp
    have e : (collectNodes H (.value h v w d)).1 = (calcHash H (.value h v w d)).1 := rfl
    rw [e]
    exact ⟨(rep_calcHash (Rep.value h v w d hc) hp).1, (RepMore.proper_calcHash H _).mpr hp,
      RepMore.calcHash_fst_weight H _⟩
  | short k h c d tc tc' hr hc ih =>
    intro hp
    obtain ⟨hnil, hemp, hdc, hpc⟩ := hp
    obtain ⟨i1, i2, i3⟩ := ih hpc
    have e : (collectNodes H (.short k h c d tc)).1 =
        .short k ((serializeP H (.short k h c d tc)).1.hashField H) (collectNodes H c).1 d false := rfl
    rw [e]
    refine ⟨Rep.short k _ _ d false tc' i1 (fun hd => ?_), ⟨?_, ?_, ?_, i2⟩, ?_⟩
    · subst hd; rw [serializeP_short_hash_clean]; exact hc rfl
    · rw [collectNodes_isNil]; exact hnil
    · exact fun he => hemp ((collectNodes_eq_empty c).mp he)
    · intro hd; rw [collectNodes_dirty]; exact hdc hd
    · simpa [WN.weight] using i3
  | routing h ch w d tc f hr href hw hc ih =>
    intro hp
    cases tc with
    | false =>
      have e : (collectNodes H (.routing h ch w d false)).1 = (calcHash H (.routing h ch w d false)).1 := rfl
      rw [e]
      exact ⟨(rep_calcHash (Rep.routing h ch w d false f hr href hw hc) hp).1, (RepMore.proper_calcHash H _).mpr hp,
        RepMore.calcHash_fst_weight H _⟩
    | true =>
      have e : (collectNodes H (.routing h ch w d true)).1 =
          .routing ((serializeP H (.routing h ch w d true)).1.hashField H) (fun i => (collectNodes H (ch i)).1) w d false := by
        simp only [collectNodes, Bool.not_true, Bool.false_eq_true, if_false, List.map_map, Function.comp_def,
          ofList_map_allNib']
      rw [e]
      refine ⟨Rep.routing _ _ w d false f (fun i => (ih i (hp i).2).1) (fun i hh ww hi => ?_) hw (fun hd => ?_),
        fun i => ⟨fun he => (hp i).1 ((collectNodes_eq_empty _).mp he), (ih i (hp i).2).2.1⟩, rfl⟩
      · exact href i hh ww (collectNodes_hashRef hi)
      · subst hd; rw [serializeP_routing_hash_clean]; exact hc rfl

theorem collectNodes_upDirty {n : WN} (hp : Proper n) (hu : UpDirty n) {P : PT → Prop} {t : PT} (h : Rep H P n t) :
    UpDirty (collectNodes H n).1 :=
  upDirty_of_dirtyUp (rep_collectNodes h hp).2.1 (collectNodes_dirtyUp H n (dirtyUp_of_upDirty hu))

/-- 2, all together -/
theorem rep_collectNodes_all {P : PT → Prop} {n : WN} {t : PT} (h : Rep H P n t) (hp : Proper n) (hu : UpDirty n) :
    Rep H P (collectNodes H n).1 t ∧ Proper (collectNodes H n).1 ∧ NoEmp (collectNodes H n).1 ∧
      UpDirty (collectNodes H n).1 ∧ DirtyUp (collectNodes H n).1 ∧
      (collectNodes H n).1.weight = n.weight ∧ (collectNodes H n).1.isNil = n.isNil ∧
      (collectNodes H n).1.dirty = n.dirty := by
  obtain ⟨h1, h2, h3⟩ := rep_collectNodes h hp
  have h4 := collectNodes_upDirty hp hu h
  exact ⟨h1, h2, RepMore.noEmp_of_proper h2, h4, dirtyUp_of_upDirty h4, h3, collectNodes_isNil n,
    collectNodes_dirty H n⟩

end Collect

/-! ### 3. `GetPath` on the source, `Deserialize` of the export into a fresh storage-less trie -/

section Export
variable {H : Bytes → Bytes}

theorem importedRoot_isNil (n : WN) : (importedRoot n).isNil = n.isNil := by
  cases n <;> rfl

/-- a non-nil root that stands for the empty tree is the `*nilNode` -/
theorem Rep.root_eq_empty {P : PT → Prop} {n : WN} {t : PT} (h : Rep H P n t) (hn : n.isNil = false)
    (ht : t.isNone = true) : n = .empty := by
  cases h <;> simp_all [PT.isNone, WN.isNil]

/-- the node `GetPath` hands to `collectNodes` is not nil when the root is not -/
theorem markedRoot_isNil (hlen : ∀ x, (H x).length = 32) (t : WT) {ts : PT} {m : Nat} (keys : List (List Nib))
    (hdb : t.hasDb = true) (hrep : RepS H t.store t.root ts) (hnil : t.root.isNil = false) (hp : Proper t.root)
    (hu : Uniform m ts) (hok : PTOK ts) (hlk : ∀ k ∈ keys, k.length = m) {n' : WN}
    (hm : Mark.markedRoot t keys = some n') : n'.isNil = false := by
  have hne := RepMore.noEmp_of_proper hp
  obtain ⟨root, hl, r1, r2, r3, _, _⟩ := Mark.loadRoot_ok hlen t hdb hrep hp hne hu hok
  obtain ⟨g1, _, _, _, _, g6, _⟩ := Mark.markAll_ok (s := t.store) hlen hu hok keys root hlk r1 r2 r3
  have hmr : Mark.markedRoot t keys = some (markAll true t.store root keys).node := by
    simp only [Mark.markedRoot, hl, hdb, g1]
  have e : n' = (markAll true t.store root keys).node := Option.some.inj (hm.symm.trans hmr)
  rw [e, g6]
  cases hts : ts.isNone with
  | false => exact (r1.not_nil_empty hts).1
  | true =>
    have he := hrep.root_eq_empty hnil hts
    simp only [Mark.loadRoot, he, Res.ok.injEq] at hl
    rw [← hl]; rfl

/-- `Root()` of a trie whose (non-nil, `Proper`) root represents `ts` -/
theorem rootHash_rep {P : PT → Prop} (t : WT) {ts : PT} (h : Rep H P t.root ts) (hp : Proper t.root)
    (hn : t.root.isNil = false) : (rootHash H t).2 = PT.hash H ts := (rep_rootHash t h hp hn).2

/-- 3. `getPath_import` -/
theorem getPath_import (hlen : ∀ x, (H x).length = 32) (t : WT) (ts : PT) (keys : List (List Nib))
    (hdb : t.hasDb = true) (hrep : RepS H t.store t.root ts) (hnil : t.root.isNil = false)
    (hp : Proper t.root) (hud : UpDirty t.root) (hu : Uniform 64 ts) (hok : PTOK ts)
    (hlk : ∀ k ∈ keys, k.length = 64)
    (hsz : ∀ n', Mark.markedRoot t keys = some n' →
      (∀ b ∈ (collectNodes H n').2, b.length < 2 ^ 64) ∧ (collectNodes H n').2.length < 2 ^ 64) :
    ∃ data r, (getPath H t keys).2 = .ok data ∧
      importTrie H { hasDb := false } data = ({ hasDb := false, root := r }, .ok ()) ∧
      RepP H r ts ∧ Proper r ∧ NoEmp r ∧ r.isNil = false ∧ r.weight = t.root.weight ∧
      (calcHash H r).2 = PT.hash H ts ∧ (∀ k ∈ keys, Clear r k) ∧
      (getPath H t keys).1.store = t.store ∧ (getPath H t keys).1.hasDb = true ∧
      RepS H t.store (getPath H t keys).1.root ts ∧ Proper (getPath H t keys).1.root ∧
      UpDirty (getPath H t keys).1.root ∧ (getPath H t keys).1.root.isNil = false ∧
      (rootHash H { hasDb := false, root := r }).2 = (rootHash H (getPath H t keys).1).2 ∧
      WT.weight { hasDb := false, root := r } = (getPath H t keys).1.weight := by
  have hne := RepMore.noEmp_of_proper hp
  obtain ⟨n', hmr, hgp, m1, m2, m3, _, m5, m6⟩ := Mark.getPath_marks hlen t keys hdb hrep hp hne hu hok hlk
  have hdu : DirtyUp n' := (markedRoot_dirtyUp t keys hmr (dirtyUp_of_upDirty hud)).1
  have hn' : n'.isNil = false := markedRoot_isNil hlen t keys hdb hrep hnil hp hu hok hlk hmr
  obtain ⟨c1, c2, _, c4, _, c6, c7, _⟩ := rep_collectNodes_all m1 m2 (upDirty_of_dirtyUp m2 hdu)
  obtain ⟨s1, s2⟩ := hsz n' hmr
  have himp := import_bytes hlen m1 m2 hdu hok hn' s1 s2 { hasDb := false }
  obtain ⟨i1, i2, i3, i4, i5⟩ := importedRoot_prune_rep (H := H) m1 m2
  have hrn : (importedRoot (prune H n')).isNil = false := by rw [importedRoot_isNil, prune_isNil]; exact hn'
  have hcn : (collectNodes H n').1.isNil = false := by rw [c7]; exact hn'
  rw [hgp]
  refine ⟨_, importedRoot (prune H n'), rfl, himp, i1, i2, i3, hrn, i4.trans m5, i5,
    fun k hk => prune_clear_root m1 64 k hu (hlk k hk) (m6 k hk), rfl, hdb, c1, c2, c4, hcn, ?_, ?_⟩
  · rw [rootHash_rep (P := fun _ => True) _ i1 i2 hrn, rootHash_rep (P := StoredAll H t.store) _ c1 c2 hcn]
  · show (importedRoot (prune H n')).weight = (collectNodes H n').1.weight
    rw [i1.weight, c1.weight]

end Export

/-! ### 4. mirrored operations -/

/-- `Update(key, v, w)`, `Delete(key)`, `Update(key, "", _)` -/
inductive MOp where
  | upd (key : List Nib) (v : Bytes) (w : Nat)
  | del (key : List Nib)
  | updel (key : List Nib)

def MOp.key : MOp → List Nib
  | .upd k _ _ => k
  | .del k => k
  | .updel k => k

/-- the trie after the call -/
def mstep (H : Bytes → Bytes) (t : WT) : MOp → WT
  | .upd k v w => (update H t k v w).1
  | .del k => (deleteKey H t k).1
  | .updel k => (update H t k [] 0).1

/-- what the call returned: the removed weight for `Delete`, `0` for a successful `Update`, or the error -/
def mout (H : Bytes → Bytes) (t : WT) : MOp → Res Nat
  | .upd k v w => match (update H t k v w).2 with
    | .ok _ => .ok 0
    | .err e => .err e
  | .del k => (deleteKey H t k).2
  | .updel k => match (update H t k [] 0).2 with
    | .ok _ => .ok 0
    | .err e => .err e

/-- whether the call returned ok (as opposed to an error) -/
def mres (H : Bytes → Bytes) (t : WT) (op : MOp) : Bool :=
  match mout H t op with
  | .ok _ => true
  | .err _ => false

/-- the spec tree after the call (unchanged when a key to delete is absent) -/
def sstep (ts : PT) : MOp → PT
  | .upd k v w => ts.insert k v w
  | .del k => (ts.delete k).getD ts
  | .updel k => (ts.delete k).getD ts

section Mirror
variable {H : Bytes → Bytes}

theorem normRoot_of_not_nil {n : WN} (h : n.isNil = false) : normRoot n = n := by simp [normRoot, h]

theorem normRoot_not_nil (n : WN) : (normRoot n).isNil = false := by
  cases n <;> simp [normRoot, WN.isNil]

theorem isNil_of_rep_normRoot {P : PT → Prop} {n : WN} {t : PT} (h : Rep H P (normRoot n) t)
    (ht : t.isNone = false) : n.isNil = false := by
  cases n with
  | nil =>
    have h' : Rep H P .empty t := h
    cases h'
    simp [PT.isNone] at ht
  | _ => rfl

theorem PT.insert_isNone (t : PT) (key : List Nib) (v : Bytes) (w : Nat) : (t.insert key v w).isNone = false := by
  cases t <;> cases key <;> simp only [PT.insert] <;> (repeat' split) <;> simp [PT.isNone]

theorem update_delete_isNil (t : WT) (key : List Nib) (w : Nat) (hk : key.length = 64) :
    (update H t key [] w).1.root.isNil = false := by
  simp only [update, hk, ne_eq, not_true_eq_false, if_false]
  split <;> exact normRoot_not_nil _

theorem deleteKey_ok_isNil (t : WT) (key : List Nib) (c : Nat) (h : (deleteKey H t key).2 = .ok c) :
    (deleteKey H t key).1.root.isNil = false := by
  cases he : (delete H t.hasDb t.store (fuelFor key) t.root key).err with
  | some e => simp [deleteKey, he] at h
  | none => simp only [deleteKey, he]; exact normRoot_not_nil _

/-- `Root()` of a trie whose non-nil root represents a uniform tree (no `Proper` needed) -/
theorem rootHash_uniform {P : PT → Prop} (t : WT) {ts : PT} {m : Nat} (h : Rep H P t.root ts) (hu : Uniform m ts)
    (hn : t.root.isNil = false) : (rootHash H t).2 = PT.hash H ts := by
  by_cases hd : t.root.dirty = true
  · simp only [rootHash, hd, if_true]
    exact (Partial.rep_calcHash_uniform h m hu).2
  · simp only [rootHash, hd, Bool.false_eq_true, if_false]
    exact h.hashField_of_clean (by simpa using hd) hn

/-- `Delete(key)` of a requested key on the partial trie -/
theorem partial_deleteKey (t : WT) (ts : PT) (key : List Nib)
    (hdb : t.hasDb = false) (hrep : RepP H t.root ts) (hnil : t.root.isNil = false) (hne : NoEmp t.root)
    (hu : Uniform 64 ts) (hk : key.length = 64) (hcl : Clear t.root key) :
    (deleteKey H t key).1.store = t.store ∧ (deleteKey H t key).1.hasDb = false ∧
    NoEmp (deleteKey H t key).1.root ∧ (deleteKey H t key).1.root.isNil = false ∧
    (∀ q, Clear t.root q → Clear (deleteKey H t key).1.root q) ∧
    (((deleteKey H t key).2 = .err .notFound ∧ ts.delete key = none ∧ (deleteKey H t key).1.root = t.root) ∨
     (∃ ts', (deleteKey H t key).2 = .ok (ts.weight - ts'.weight) ∧ ts.delete key = some ts' ∧ Uniform 64 ts' ∧
        RepP H (deleteKey H t key).1.root ts')) := by
  have hf : 64 + 1 ≤ fuelFor key := by have := Partial.fuelFor_partial key; omega
  have hd := Partial.partial_delete (H := H) (fuel := fuelFor key) t.store hrep hu hk hcl hne hf
  rcases hd with ⟨h1, h2, h3⟩ | ⟨h1, t', h2, h3, h4, h5, h6, h7, _⟩
  · have e : deleteKey H t key =
        ({ t with root := t.root, pending := t.pending ++ (delete H false t.store (fuelFor key) t.root key).td },
         .err .notFound) := by
      simp only [deleteKey, hdb, h1, h3]
    rw [e]
    exact ⟨rfl, hdb, hne, hnil, fun q hq => hq, .inl ⟨rfl, h2, rfl⟩⟩
  · have e : deleteKey H t key =
        ({ t with root := normRoot (delete H false t.store (fuelFor key) t.root key).node,
                  pending := t.pending ++ (delete H false t.store (fuelFor key) t.root key).td },
         .ok (delete H false t.store (fuelFor key) t.root key).change) := by
      simp only [deleteKey, hdb, h1]
    rw [e]
    refine ⟨rfl, hdb, (RepOps.noEmp_normRoot _).mpr h5, normRoot_not_nil _,
      fun q hq => (Partial.clear_normRoot _ _).mpr (h6 q hq), .inr ⟨t', ?_, h2, h7, RepOps.rep_normRoot h3⟩⟩
    have w1 := h3.weight
    have w2 := hrep.weight
    show Res.ok _ = Res.ok _
    congr 1; omega

/-- the invariant of a mirrored run: the source `tf` (with its storage) and the partial trie `tp` (without one) represent
    the same uniform spec tree `ts`, and no requested key meets a reference in the partial trie -/
structure MInv (H : Bytes → Bytes) (R : List Nib → Prop) (tf tp : WT) (ts : PT) : Prop where
  fdb : tf.hasDb = true
  frep : RepS H tf.store tf.root ts
  fnil : tf.root.isNil = false
  fproper : Proper tf.root
  fup : UpDirty tf.root
  fne : NoEmp tf.root
  pdb : tp.hasDb = false
  prep : RepP H tp.root ts
  pnil : tp.root.isNil = false
  pne : NoEmp tp.root
  pclear : ∀ q, R q → Clear tp.root q
  uni : Uniform 64 ts

/-- what the invariant says about the exported API: equal `Root()` and `Weight()`, those of the spec tree -/
theorem MInv.agree {R : List Nib → Prop} {tf tp : WT} {ts : PT} (inv : MInv H R tf tp ts) :
    (rootHash H tf).2 = (rootHash H tp).2 ∧ tf.weight = tp.weight ∧
    (rootHash H tf).2 = PT.hash H ts ∧ tf.weight = ts.weight := by
  have h1 := rootHash_uniform tf inv.frep inv.uni inv.fnil
  have h2 := rootHash_uniform tp inv.prep inv.uni inv.pnil
  have w1 : tf.weight = ts.weight := inv.frep.weight
  have w2 : tp.weight = ts.weight := inv.prep.weight
  exact ⟨h1.trans h2.symm, w1.trans w2.symm, h1, w1⟩

/-- the empty spec tree: both roots are the `*nilNode` and `Root()` is the hash of the empty string -/
theorem MInv.empty {R : List Nib → Prop} {tf tp : WT} {ts : PT} (inv : MInv H R tf tp ts) (h : ts = .none) :
    tf.root = .empty ∧ tp.root = .empty ∧ (rootHash H tf).2 = emptyHash H ∧ (rootHash H tp).2 = emptyHash H := by
  subst h
  have e1 := inv.frep.root_eq_empty inv.fnil rfl
  have e2 := inv.prep.root_eq_empty inv.pnil rfl
  refine ⟨e1, e2, ?_, ?_⟩
  · simp [rootHash, e1, WN.dirty, WN.hashField]
  · simp [rootHash, e2, WN.dirty, WN.hashField]

/-- 4. `mirror_step`: one mirrored call on a requested key keeps the invariant (for the spec tree after the call), and
    both calls return the same thing: ok (with the same removed weight for `Delete`) or `ErrNotFound` (and then nothing
    changed in the spec tree) -/
theorem mirror_step (hlen : ∀ x, (H x).length = 32) {R : List Nib → Prop} {tf tp : WT} {ts : PT}
    (inv : MInv H R tf tp ts) (hok : PTOK ts) (op : MOp) (hR : R op.key) (hk : op.key.length = 64)
    (hv : ∀ k v w, op = .upd k v w → v ≠ []) :
    MInv H R (mstep H tf op) (mstep H tp op) (sstep ts op) ∧
    mout H tf op = mout H tp op ∧
    ((∃ c, mout H tf op = .ok c) ∨ (mout H tf op = .err .notFound ∧ sstep ts op = ts)) := by
  obtain ⟨fdb, frep, fnil, fproper, fup, fne, pdb, prep, pnil, pne, pclear, uni⟩ := inv
  have frepN : RepS H tf.store (normRoot tf.root) ts := RepOps.rep_normRoot frep
  have prepN : RepP H (normRoot tp.root) ts := RepOps.rep_normRoot prep
  have fgood : RepMore.Good tf.root := ⟨fproper, fup⟩
  cases op with
  | upd key v w =>
    have hk : key.length = 64 := hk
    have hv : v ≠ [] := hv key v w rfl
    have hcl : Clear tp.root key := pclear key hR
    obtain ⟨f1, f2, f3, f4, f5, _⟩ := RepOps.rep_update_insert hlen tf ts key v w fdb frepN fne uni hok hk hv
    obtain ⟨p1, _, p3, p4, p5, p6, _, _, p9⟩ :=
      Partial.partial_update_insert (H := H) tp ts key v w pdb prepN pne uni hk hv hcl
    have hg := RepMore.good_update_insert (H := H) tf key v w hv fgood
    have hnone := PT.insert_isNone ts key v w
    have fn' := isNil_of_rep_normRoot f4 hnone
    have pn' := isNil_of_rep_normRoot p4 hnone
    rw [normRoot_of_not_nil fn'] at f4
    rw [normRoot_of_not_nil pn'] at p4
    refine ⟨⟨f3, ?_, fn', hg.1, hg.2, f5, p3, p4, pn', p6, fun q hq => p9 q (pclear q hq), p5⟩, ?_, .inl ⟨0, ?_⟩⟩
    · show RepS H (update H tf key v w).1.store _ _
      rw [f2]; exact f4
    · simp only [mout, f1, p1]
    · simp only [mout, f1]
  | del key =>
    have hk : key.length = 64 := hk
    have hcl : Clear tp.root key := pclear key hR
    obtain ⟨f2, f3, f5, hf⟩ := RepOps.rep_deleteKey hlen tf ts 64 key fdb frepN fne uni hok hk
    obtain ⟨_, p3, p6, pn', p9, hp⟩ := partial_deleteKey (H := H) tp ts key pdb prep pnil pne uni hk hcl
    have hg := RepMore.good_deleteKey hlen tf ts 64 key fdb frepN fne uni hok hk fgood
    rcases hf with ⟨f1, fd, fr⟩ | ⟨ts', f1, fd, f4, _⟩
    · rcases hp with ⟨p1, _, pr⟩ | ⟨ts'', _, pd, _⟩
      · have es : sstep ts (.del key) = ts := by simp [sstep, fd]
        rw [es]
        refine ⟨⟨f3, ?_, ?_, hg.1, hg.2, f5, p3, ?_, pn', p6, fun q hq => p9 q (pclear q hq), uni⟩, ?_, .inr ⟨f1, rfl⟩⟩
        · show RepS H (deleteKey H tf key).1.store (deleteKey H tf key).1.root ts
          rw [f2, fr]; exact frep
        · show (deleteKey H tf key).1.root.isNil = false
          rw [fr]; exact fnil
        · show RepP H (deleteKey H tp key).1.root ts
          rw [pr]; exact prep
        · show (deleteKey H tf key).2 = (deleteKey H tp key).2
          rw [f1, p1]
      · rw [fd] at pd; cases pd
    · rcases hp with ⟨_, pd, _⟩ | ⟨ts'', p1, pd, p5, p4⟩
      · rw [fd] at pd; cases pd
      · rw [fd] at pd; cases pd
        have es : sstep ts (.del key) = ts' := by simp [sstep, fd]
        rw [es]
        have fn' := deleteKey_ok_isNil tf key _ f1
        rw [normRoot_of_not_nil fn'] at f4
        refine ⟨⟨f3, ?_, fn', hg.1, hg.2, f5, p3, p4, pn', p6, fun q hq => p9 q (pclear q hq), p5⟩, ?_, .inl ⟨_, f1⟩⟩
        · show RepS H (deleteKey H tf key).1.store _ _
          rw [f2]; exact f4
        · show (deleteKey H tf key).2 = (deleteKey H tp key).2
          rw [f1, p1]
  | updel key =>
    have hk : key.length = 64 := hk
    have hcl : Clear tp.root key := pclear key hR
    obtain ⟨f2, f3, f5, hf⟩ := RepOps.rep_update_delete hlen tf ts key 0 fdb frepN fne uni hok hk
    obtain ⟨_, p3, p6, p9, hp⟩ := Partial.partial_update_delete (H := H) tp ts key 0 pdb prepN pne uni hk hcl
    have hg := RepMore.good_update_delete hlen tf ts key 0 fdb frepN fne uni hok hk fgood
    have fn' := update_delete_isNil (H := H) tf key 0 hk
    have pn' := update_delete_isNil (H := H) tp key 0 hk
    rw [normRoot_of_not_nil fn'] at hf
    rw [normRoot_of_not_nil pn'] at hp
    rcases hf with ⟨f1, fd, f4⟩ | ⟨f1, ts', fd, f4, _⟩
    · rcases hp with ⟨p1, _, p4⟩ | ⟨_, ts'', pd, _⟩
      · have es : sstep ts (.updel key) = ts := by simp [sstep, fd]
        rw [es]
        refine ⟨⟨f3, ?_, fn', hg.1, hg.2, f5, p3, p4, pn', p6, fun q hq => p9 q (pclear q hq), uni⟩, ?_, .inr ⟨?_, rfl⟩⟩
        · show RepS H (update H tf key [] 0).1.store _ _
          rw [f2]; exact f4
        · simp only [mout, f1, p1]
        · simp only [mout, f1]
      · rw [fd] at pd; cases pd
    · rcases hp with ⟨_, pd, _⟩ | ⟨p1, ts'', pd, p5, p4, _⟩
      · rw [fd] at pd; cases pd
      · rw [fd] at pd; cases pd
        have es : sstep ts (.updel key) = ts' := by simp [sstep, fd]
        rw [es]
        refine ⟨⟨f3, ?_, fn', hg.1, hg.2, f5, p3, p4, pn', p6, fun q hq => p9 q (pclear q hq), p5⟩, ?_, .inl ⟨0, ?_⟩⟩
        · show RepS H (update H tf key [] 0).1.store _ _
          rw [f2]; exact f4
        · simp only [mout, f1, p1]
        · simp only [mout, f1]

theorem mres_eq_of_mout {tf tp : WT} {op : MOp} (h : mout H tf op = mout H tp op) : mres H tf op = mres H tp op := by
  simp only [mres, h]

end Mirror

/-! ### 4'. runs of mirrored operations -/

/-- the trie after a sequence of calls -/
def mrun (H : Bytes → Bytes) (t : WT) : List MOp → WT
  | [] => t
  | op :: ops => mrun H (mstep H t op) ops

/-- what the calls of a sequence returned, in order -/
def mouts (H : Bytes → Bytes) (t : WT) : List MOp → List (Res Nat)
  | [] => []
  | op :: ops => mout H t op :: mouts H (mstep H t op) ops

/-- the spec tree after a sequence of calls -/
def srun (ts : PT) : List MOp → PT
  | [] => ts
  | op :: ops => srun (sstep ts op) ops

/-- the side conditions of a mirrored run from the spec tree `ts`: every call is on a requested key (of 64 nibbles), an
    `Update` that is not a delete has a non-empty value, and every spec tree a call is applied to is within the size
    bounds `PTOK` (weight below `2^64`, byte strings that fit CBOR) -/
def RunOK (R : List Nib → Prop) : PT → List MOp → Prop
  | _, [] => True
  | ts, op :: ops =>
    PTOK ts ∧ R op.key ∧ op.key.length = 64 ∧ (∀ k v w, op = .upd k v w → v ≠ []) ∧ RunOK R (sstep ts op) ops

/-- the same side conditions, stated with prefixes: `PTOK` of every intermediate spec tree -/
theorem runOK_of_prefixes {R : List Nib → Prop} : ∀ (ops : List MOp) (ts : PT),
    (∀ op ∈ ops, R op.key ∧ op.key.length = 64 ∧ (∀ k v w, op = .upd k v w → v ≠ [])) →
    (∀ pre, pre <+: ops → PTOK (srun ts pre)) → RunOK R ts ops
  | [], _, _, _ => trivial
  | op :: ops, ts, h1, h2 =>
    ⟨h2 [] (List.nil_prefix), (h1 op List.mem_cons_self).1, (h1 op List.mem_cons_self).2.1,
      (h1 op List.mem_cons_self).2.2,
      runOK_of_prefixes ops (sstep ts op) (fun o ho => h1 o (List.mem_cons_of_mem _ ho))
        (fun pre hp => h2 (op :: pre) (List.cons_prefix_cons.mpr ⟨rfl, hp⟩))⟩

section Run
variable {H : Bytes → Bytes}

/-- 4'. `mirror_run`: along a mirrored run the invariant holds after EVERY prefix, and the two tries return the same
    results call by call -/
theorem mirror_run (hlen : ∀ x, (H x).length = 32) {R : List Nib → Prop} : ∀ (ops : List MOp) {tf tp : WT} {ts : PT},
    MInv H R tf tp ts → RunOK R ts ops →
    (∀ pre, pre <+: ops → MInv H R (mrun H tf pre) (mrun H tp pre) (srun ts pre)) ∧
    mouts H tf ops = mouts H tp ops
  | [], tf, tp, ts, inv, _ => by
    refine ⟨fun pre hp => ?_, rfl⟩
    have : pre = [] := List.prefix_nil.mp hp
    subst this
    exact inv
  | op :: ops, tf, tp, ts, inv, hrun => by
    obtain ⟨hok, hR, hk, hv, hrest⟩ := hrun
    obtain ⟨inv', ho, _⟩ := mirror_step hlen inv hok op hR hk hv
    obtain ⟨ih1, ih2⟩ := mirror_run hlen ops inv' hrest
    refine ⟨fun pre hp => ?_, ?_⟩
    · rcases List.prefix_cons_iff.mp hp with rfl | ⟨pre', rfl, hp'⟩
      · exact inv
      · exact ih1 pre' hp'
    · simp only [mouts, ho, ih2]

/-- 4'. in terms of the exported API: after every prefix of a mirrored run the two tries agree on `Root()` and
    `Weight()` (which are those of the spec tree) -/
theorem mirror_run_agree (hlen : ∀ x, (H x).length = 32) {R : List Nib → Prop} (ops : List MOp) {tf tp : WT} {ts : PT}
    (inv : MInv H R tf tp ts) (hrun : RunOK R ts ops) :
    (∀ pre, pre <+: ops →
      (rootHash H (mrun H tf pre)).2 = (rootHash H (mrun H tp pre)).2 ∧
      (mrun H tf pre).weight = (mrun H tp pre).weight ∧
      (rootHash H (mrun H tf pre)).2 = PT.hash H (srun ts pre) ∧
      (mrun H tf pre).weight = (srun ts pre).weight) ∧
    mouts H tf ops = mouts H tp ops :=
  ⟨fun pre hp => ((mirror_run hlen ops inv hrun).1 pre hp).agree, (mirror_run hlen ops inv hrun).2⟩

/-! ### 5. C12 -/

/-- 5. `C12_main`: `GetPath(keys)` on a live trie with a storage succeeds; `Deserialize` of its output into a fresh
    storage-less trie succeeds; and along any sequence of `Update` / `Delete` calls on requested keys, applied to both
    tries, the source (as `GetPath` left it) and the partial trie return the same results and agree on `Root()` and
    `Weight()` after every prefix. -/
theorem C12_main (hlen : ∀ x, (H x).length = 32) (t : WT) (ts : PT) (keys : List (List Nib))
    (hdb : t.hasDb = true) (hrep : RepS H t.store t.root ts) (hnil : t.root.isNil = false)
    (hp : Proper t.root) (hud : UpDirty t.root) (hu : Uniform 64 ts) (hok : PTOK ts)
    (hlk : ∀ k ∈ keys, k.length = 64)
    (hsz : ∀ n', Mark.markedRoot t keys = some n' →
      (∀ b ∈ (collectNodes H n').2, b.length < 2 ^ 64) ∧ (collectNodes H n').2.length < 2 ^ 64)
    (ops : List MOp) (hrun : RunOK (fun k => k ∈ keys) ts ops) :
    ∃ data r, (getPath H t keys).2 = .ok data ∧
      importTrie H { hasDb := false } data = ({ hasDb := false, root := r }, .ok ()) ∧
      MInv H (fun k => k ∈ keys) (getPath H t keys).1 { hasDb := false, root := r } ts ∧
      (∀ pre, pre <+: ops →
        (rootHash H (mrun H (getPath H t keys).1 pre)).2 = (rootHash H (mrun H { hasDb := false, root := r } pre)).2 ∧
        (mrun H (getPath H t keys).1 pre).weight = (mrun H { hasDb := false, root := r } pre).weight ∧
        (rootHash H (mrun H (getPath H t keys).1 pre)).2 = PT.hash H (srun ts pre) ∧
        (mrun H (getPath H t keys).1 pre).weight = (srun ts pre).weight) ∧
      mouts H (getPath H t keys).1 ops = mouts H { hasDb := false, root := r } ops := by
  obtain ⟨data, r, g1, g2, g3, _, g5, g6, _, _, g9, g10, g11, g12, g13, g14, g15, _, _⟩ :=
    getPath_import hlen t ts keys hdb hrep hnil hp hud hu hok hlk hsz
  have inv : MInv H (fun k => k ∈ keys) (getPath H t keys).1 { hasDb := false, root := r } ts :=
    { fdb := g11, frep := by rw [g10]; exact g12, fnil := g15, fproper := g13, fup := g14,
      fne := RepMore.noEmp_of_proper g13, pdb := rfl, prep := g3, pnil := g6, pne := g5,
      pclear := fun q hq => g9 q hq, uni := hu }
  obtain ⟨h1, h2⟩ := mirror_run_agree hlen ops inv hrun
  exact ⟨data, r, g1, g2, inv, h1, h2⟩

end Run

end Verif.Wmpt
