/-
`orderChanges` (the replay order of `mergeChanges`) produces a `GoodOrder` unless its Kahn passes get stuck
(a whole pass blocked = a cycle of replacements, or the fuel runs out): `orderStuck` is the executable test.
-/
import Verif.Lemmas.MergeRound
namespace Verif.MptStore
open Verif.Mpt Collector

/-- the change records a predecessor of key `key` -/
def oldIs (H : Bytes → Bytes) (key : Bytes) (c : Change Ref) : Bool :=
  match c.old with
  | some o => decide (o.key H = key)
  | none => false

def cnt (H : Bytes → Bytes) (key : Bytes) (l : List (Change Ref)) : Nat := l.countP (oldIs H key)

theorem cnt_cons (H : Bytes → Bytes) (key : Bytes) (c : Change Ref) (l : List (Change Ref)) :
    cnt H key (c :: l) = cnt H key l + (if oldIs H key c then 1 else 0) := by
  simp [cnt, List.countP_cons]

theorem cnt_append (H : Bytes → Bytes) (key : Bytes) (a b : List (Change Ref)) :
    cnt H key (a ++ b) = cnt H key a + cnt H key b := by simp [cnt, List.countP_append]

theorem replCount_put (m : Map Bytes Nat) (k : Bytes) (n : Nat) (key : Bytes) :
    replCount (Map.put m k n) key = if k = key then n else replCount m key := by
  simp only [replCount, Map.get_put]
  split <;> simp

/-- does the ordering get stuck (a pass that applies nothing, or no fuel left with changes pending)? -/
def orderStuckLoop (H : Bytes → Bytes) : Nat → List (Change Ref) → Map Bytes Nat → Bool
  | 0, pending, _ => !pending.isEmpty
  | fuel + 1, pending, m =>
    if pending.isEmpty then false
    else
      let r := orderPass H pending m
      if r.2.1.length = pending.length then true
      else orderStuckLoop H fuel r.2.1 r.2.2

def initCounts (H : Bytes → Bytes) (changes : List (Change Ref)) : Map Bytes Nat :=
  changes.foldl (fun m c =>
    match c.old with
    | some o => Map.put m (o.key H) (replCount m (o.key H) + 1)
    | none => m) ([] : Map Bytes Nat)

def orderStuck (H : Bytes → Bytes) (changes : List (Change Ref)) : Bool :=
  orderStuckLoop H (changes.length + 1) changes (initCounts H changes)

theorem initCounts_spec (H : Bytes → Bytes) : ∀ (changes : List (Change Ref)) (m0 : Map Bytes Nat) (key : Bytes),
    replCount (changes.foldl (fun m c =>
      match c.old with
      | some o => Map.put m (o.key H) (replCount m (o.key H) + 1)
      | none => m) m0) key = replCount m0 key + cnt H key changes := by
  intro changes
  induction changes with
  | nil => intro m0 key; simp [cnt]
  | cons c cs ih =>
    intro m0 key
    simp only [List.foldl_cons]
    rw [ih, cnt_cons]
    rcases c with ⟨_ | o, n⟩
    · simp [oldIs]
    · simp only [oldIs, replCount_put]
      by_cases e : o.key H = key <;> simp [e] <;> omega

/-- a change `a` may precede `b`: `b` does not replace the key `a` (re)creates -/
def Before (H : Bytes → Bytes) (a b : Change Ref) : Prop := ∀ o, b.old = some o → o.key H ≠ a.new.key H

theorem before_of_oldIs {H : Bytes → Bytes} {a b : Change Ref} (h : oldIs H (a.new.key H) b = false) : Before H a b := by
  intro o ho e
  simp [oldIs, ho, e] at h

theorem orderPass_spec (H : Bytes → Bytes) : ∀ (cs : List (Change Ref)) (m : Map Bytes Nat) (X : List (Change Ref)),
    (∀ key, replCount m key = cnt H key (cs ++ X)) →
    (∀ key, replCount (orderPass H cs m).2.2 key = cnt H key ((orderPass H cs m).2.1 ++ X)) ∧
    (orderPass H cs m).1.Pairwise (Before H) ∧
    (∀ a ∈ (orderPass H cs m).1, ∀ b ∈ (orderPass H cs m).2.1 ++ X, Before H a b) := by
  intro cs
  induction cs with
  | nil => intro m X hm; simpa [orderPass] using hm
  | cons c cs ih =>
    intro m X hm
    simp only [orderPass]
    split
    · -- blocked
      have hm' : ∀ key, replCount m key = cnt H key (cs ++ (c :: X)) := by
        intro key
        rw [hm key]
        simp only [List.cons_append, cnt_cons, cnt_append]
        omega
      obtain ⟨h1, h2, h3⟩ := ih m (c :: X) hm'
      refine ⟨?_, h2, ?_⟩
      · intro key
        rw [h1 key]
        simp only [List.cons_append, cnt_cons, cnt_append]
        omega
      · intro a ha b hb
        apply h3 a ha b
        simp only [List.cons_append, List.mem_cons, List.mem_append] at hb ⊢
        rcases hb with rfl | hb | hb
        · exact Or.inr (Or.inl rfl)
        · exact Or.inl hb
        · exact Or.inr (Or.inr hb)
    · -- applied
      rename_i hnb
      have hzero : cnt H (c.new.key H) (c :: cs ++ X) = 0 := by
        have := hm (c.new.key H)
        simp only [List.cons_append] at this ⊢
        omega
      have hall : ∀ b ∈ c :: cs ++ X, oldIs H (c.new.key H) b = false := by
        intro b hb
        have := List.countP_eq_zero.mp hzero b hb
        simpa using this
      have hm' : ∀ key, replCount (match c.old with
            | some o => Map.put m (o.key H) (replCount m (o.key H) - 1)
            | none => m) key = cnt H key (cs ++ X) := by
        intro key
        have hk := hm key
        simp only [List.cons_append, cnt_cons] at hk
        rcases c with ⟨_ | o, n⟩
        · simp only [oldIs] at hk; simpa using hk
        · simp only [replCount_put]
          have hko := hm (o.key H)
          simp only [List.cons_append, cnt_cons, oldIs] at hko hk
          by_cases e : o.key H = key
          · subst e; simp at hko hk ⊢; omega
          · simp [e] at hk ⊢; exact hk
      obtain ⟨h1, h2, h3⟩ := ih _ X hm'
      refine ⟨h1, ?_, ?_⟩
      · refine List.pairwise_cons.mpr ⟨?_, h2⟩
        intro b hb
        apply before_of_oldIs
        apply hall b
        have hp := (orderPass_perm H cs (match c.old with
            | some o => Map.put m (o.key H) (replCount m (o.key H) - 1)
            | none => m)).subset (List.mem_append_left _ hb)
        simp [hp]
      · intro a ha b hb
        rcases List.mem_cons.mp ha with rfl | ha
        · apply before_of_oldIs
          apply hall b
          rcases List.mem_append.mp hb with hb | hb
          · have hp := (orderPass_perm H cs (match a.old with
                | some o => Map.put m (o.key H) (replCount m (o.key H) - 1)
                | none => m)).subset (List.mem_append_right _ hb)
            simp [hp]
          · simp [hb]
        · exact h3 a ha b hb

theorem orderLoop_good (H : Bytes → Bytes) : ∀ (fuel : Nat) (pending : List (Change Ref)) (m : Map Bytes Nat),
    (∀ key, replCount m key = cnt H key pending) → orderStuckLoop H fuel pending m = false →
    (orderLoop H fuel pending m).Pairwise (Before H) := by
  intro fuel
  induction fuel with
  | zero =>
    intro pending m _ hs
    simp only [orderStuckLoop, Bool.not_eq_false'] at hs
    have : pending = [] := by cases pending <;> simp_all
    simp [orderLoop, this]
  | succ fuel ih =>
    intro pending m hm hs
    simp only [orderStuckLoop] at hs
    simp only [orderLoop]
    split
    · exact List.Pairwise.nil
    · rename_i hne
      simp only [hne] at hs
      have hm0 : ∀ key, replCount m key = cnt H key (pending ++ []) := by simpa using hm
      obtain ⟨h1, h2, h3⟩ := orderPass_spec H pending m [] hm0
      split
      · rename_i hl; simp [hl] at hs
      · rename_i hl
        simp only [hl, if_false] at hs
        have hrest := ih _ _ (by simpa using h1) hs
        refine List.pairwise_append.mpr ⟨h2, hrest, ?_⟩
        intro a ha b hb
        apply h3 a ha b
        simpa using (orderLoop_perm H fuel _ _).subset hb

/-- **`orderChanges` produces a `GoodOrder` unless it gets stuck.** -/
theorem orderChanges_good (H : Bytes → Bytes) (changes : List (Change Ref)) (hs : orderStuck H changes = false) :
    GoodOrder (Ref.key H) (orderChanges H changes) := by
  have hm : ∀ key, replCount (initCounts H changes) key = cnt H key changes := by
    intro key
    have := initCounts_spec H changes [] key
    simpa [initCounts, replCount] using this
  have := orderLoop_good H (changes.length + 1) changes (initCounts H changes) hm hs
  simp only [GoodOrder, orderChanges]
  exact this

end Verif.MptStore
