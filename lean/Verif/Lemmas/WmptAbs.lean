/-
The abstraction function `abs : WN → Option PT` commutes with `insert` / `delete` on in-memory tries (no hash
references), and the cached weight fields of routing nodes are maintained.  Core Lean only.
-/
import Verif.Model.WmptOps
import Verif.Model.WmptSpecOps
import Verif.Lemmas.WmptSpecOps
namespace Verif.Wmpt

/-! ### invariants -/

/-- every routing node's cached weight is the sum of the weights of its children -/
def WInv : WN → Prop
  | .short _ _ c _ _ => WInv c
  | .routing _ ch w _ _ => (∀ i, WInv (ch i)) ∧ w = (allNib.map (fun i => (ch i).weight)).sum
  | _ => True

/-- `.empty` (the `*nilNode` of an empty trie) occurs at the root only -/
def NoEmpty : WN → Prop
  | .short _ _ c _ _ => c ≠ .empty ∧ NoEmpty c
  | .routing _ ch _ _ _ => ∀ i, ch i ≠ .empty ∧ NoEmpty (ch i)
  | _ => True

/-! ### sums over the sixteen children -/

theorem sum_map_upd_aux {α} [DecidableEq α] (l : List α) (hnd : l.Nodup) (g : α → Nat) (k : α) (a : Nat) :
    (l.map (fun i => if i = k then a else g i)).sum + (if k ∈ l then g k else 0) =
      (l.map g).sum + (if k ∈ l then a else 0) := by
  induction l with
  | nil => simp
  | cons x xs ih =>
    have hx : x ∉ xs := (List.nodup_cons.mp hnd).1
    have := ih (List.nodup_cons.mp hnd).2
    by_cases h : x = k
    · subst h
      simp only [hx, if_false, Nat.add_zero] at this
      simp [this]; omega
    · have hk : (k ∈ x :: xs) ↔ k ∈ xs := by simp [Ne.symm h]
      simp only [List.map_cons, List.sum_cons, h, if_false, hk]
      omega

theorem sum_upd (g : WN → Nat) (ch : Nib → WN) (k : Nib) (x : WN) :
    (allNib.map (fun i => g (upd ch k x i))).sum + g (ch k) = (allNib.map (fun i => g (ch i))).sum + g x := by
  have := sum_map_upd_aux allNib (List.nodup_finRange 16) (fun i => g (ch i)) k (g x)
  simp only [allNib, List.mem_finRange, if_true] at this ⊢
  rw [← this]
  congr 2
  apply List.map_congr_left
  intro i _
  unfold upd
  split <;> rfl

theorem sum_noCh (g : WN → Nat) (h0 : g .nil = 0) : (allNib.map (fun i => g (noCh i))).sum = 0 := by
  have : ∀ l : List Nib, (l.map (fun _ => 0)).sum = 0 := by
    intro l; induction l <;> simp_all
  simp [noCh, h0, this]

/-! ### `abs` equations -/

theorem abs_routing_some {h : Bytes} {ch : Nib → WN} {w : Nat} {d tc : Bool} {t : PT} :
    abs (.routing h ch w d tc) = some t ↔ ∃ f : Nib → PT, (∀ i, abs (ch i) = some (f i)) ∧ t = .branch f := by
  simp only [abs]
  constructor
  · intro hh
    split at hh
    · rename_i hall
      refine ⟨fun i => (abs (ch i)).getD .none, fun i => ?_, by simpa using hh.symm⟩
      have := List.all_eq_true.mp hall i (List.mem_finRange i)
      obtain ⟨x, hx⟩ := Option.isSome_iff_exists.mp this
      simp [hx]
    · cases hh
  · rintro ⟨f, hf, rfl⟩
    simp [hf]

theorem abs_routing_of {h : Bytes} {ch : Nib → WN} {w : Nat} {d tc : Bool} {f : Nib → PT}
    (hf : ∀ i, abs (ch i) = some (f i)) : abs (.routing h ch w d tc) = some (.branch f) :=
  abs_routing_some.mpr ⟨f, hf, rfl⟩

theorem abs_short_some {k h : Bytes} {c : WN} {d tc : Bool} {t : PT} :
    abs (.short k h c d tc) = some t ↔ ∃ t', abs c = some t' ∧ t = .short k t' := by
  simp only [abs, Option.map_eq_some_iff]
  constructor
  · rintro ⟨a, h1, h2⟩; exact ⟨a, h1, h2.symm⟩
  · rintro ⟨a, h1, h2⟩; exact ⟨a, h1, h2.symm⟩

theorem abs_mkShort (k : Bytes) (c : WN) : abs (mkShort k c) = (abs c).map (PT.mkShort k) := by
  unfold mkShort PT.mkShort
  by_cases h : k = []
  · simp [h]
  · simp only [h, if_false, abs]

theorem abs_upd {ch : Nib → WN} {f : Nib → PT} {x : WN} {y : PT} (k : Nib) (hf : ∀ i, abs (ch i) = some (f i))
    (hx : abs x = some y) : ∀ i, abs (upd ch k x i) = some (PT.updP f k y i) := by
  intro i
  unfold upd PT.updP
  split
  · exact hx
  · exact hf i

theorem abs_noCh (i : Nib) : abs (noCh i) = some (PT.noChP i) := rfl

/-- 1. the weight of an in-memory node with correct cached weights is the weight of its spec tree -/
theorem weight_abs {n : WN} {t : PT} (hw : WInv n) (ha : abs n = some t) : n.weight = t.weight := by
  induction n generalizing t with
  | nil => simp only [abs, Option.some.injEq] at ha; subst ha; rfl
  | empty => simp only [abs, Option.some.injEq] at ha; subst ha; rfl
  | hashRef h w => simp [abs] at ha
  | value h v w d => simp only [abs, Option.some.injEq] at ha; subst ha; rfl
  | short k h c d tc ih =>
    obtain ⟨t', hc, rfl⟩ := abs_short_some.mp ha
    show c.weight = t'.weight
    exact ih (by simpa only [WInv] using hw) hc
  | routing h ch w d tc ih =>
    obtain ⟨f, hf, rfl⟩ := abs_routing_some.mp ha
    simp only [WInv] at hw
    simp only [WN.weight, PT.weight, hw.2]
    congr 1
    apply List.map_congr_left
    intro i _
    exact ih i (hw.1 i) (hf i)

/-! ### insert -/

section Insert
variable {hasDb : Bool} {s : Store} {v : Bytes} {w : Nat}

/-- 2. `abs` commutes with a successful insert (no domain hypothesis: `insert` and `PT.insert` agree case by case) -/
theorem abs_insert : ∀ (fuel : Nat) (n : WN) (t : PT) (key : List Nib), abs n = some t →
    (insert hasDb s fuel n key (.value [] v w true)).err = none →
    abs (insert hasDb s fuel n key (.value [] v w true)).node = some (t.insert key v w) := by
  intro fuel
  induction fuel with
  | zero => intro n t key _ he; simp [insert] at he
  | succ fuel ih =>
    intro n t key ha he
    cases key with
    | nil =>
      cases n with
      | hashRef h cw => simp [abs] at ha
      | nil =>
        simp only [abs, Option.some.injEq] at ha; subst ha
        simp [insert, abs, PT.insert]
      | empty =>
        simp only [abs, Option.some.injEq] at ha; subst ha
        simp [insert, abs, PT.insert]
      | value vh vv vw vd =>
        simp only [abs, Option.some.injEq] at ha; subst ha
        simp only [insert, PT.insert]
        split <;> simp [abs]
      | short k h c d tc =>
        obtain ⟨t', hc, rfl⟩ := abs_short_some.mp ha
        simp [insert, abs, PT.insert]
      | routing h ch cw d tc =>
        obtain ⟨f, hf, rfl⟩ := abs_routing_some.mp ha
        simp [insert, abs, PT.insert]
    | cons k ks =>
      cases n with
      | hashRef h cw => simp [abs] at ha
      | nil =>
        simp only [abs, Option.some.injEq] at ha; subst ha
        simp [insert, abs, PT.insert]
      | empty =>
        simp only [abs, Option.some.injEq] at ha; subst ha
        simp [insert, abs, PT.insert]
      | value vh vv vw vd => simp [insert] at he
      | routing h ch cw d tc =>
        obtain ⟨f, hf, rfl⟩ := abs_routing_some.mp ha
        simp only [insert] at he ⊢
        cases hr : (insert hasDb s fuel (ch k) ks (.value [] v w true)).err with
        | some e => rw [hr] at he; simp at he
        | none =>
          simp only [PT.insert]
          exact abs_routing_of (abs_upd k hf (ih _ _ _ (hf k) hr))
      | short sk h c d tc =>
        obtain ⟨t', hc, rfl⟩ := abs_short_some.mp ha
        simp only [insert] at he ⊢
        simp only [PT.insert]
        generalize commonPrefix sk (List.map nb (k :: ks)) = p at he ⊢
        split
        · rename_i hp
          subst hp
          simp only [if_true] at he
          exact abs_short_some.mpr ⟨_, ih _ _ _ hc he, rfl⟩
        · rename_i hp
          simp only [hp, if_false] at he
          generalize nibOf (sk.getD p 0) = o1 at he ⊢
          generalize (k :: ks)[p]? = o2 at he ⊢
          cases o1 with
          | none => simp at he
          | some i1 =>
            cases o2 with
            | none => simp at he
            | some i2 =>
              have hb : ∀ kk kk' : Bytes, abs (WN.routing [] (upd (upd noCh i1 (mkShort kk c)) i2
                  (mkShort kk' (WN.value [] v w true))) ((WN.short sk h c d tc).weight + (WN.value [] v w true).weight)
                  true false) = some (PT.branch (PT.updP (PT.updP PT.noChP i1 (PT.mkShort kk t')) i2
                    (PT.mkShort kk' (PT.value v w)))) := by
                intro kk kk'
                refine abs_routing_of (abs_upd i2 (abs_upd i1 abs_noCh ?_) ?_)
                · rw [abs_mkShort, hc]; rfl
                · rw [abs_mkShort]; rfl
              simp only
              split
              · exact hb _ _
              · exact abs_short_some.mpr ⟨_, hb _ _, rfl⟩

/-! model-level equations for a short node whose key is a nibble string -/

theorem insert_short_eq_m (fuel : Nat) (sk h : Bytes) (c : WN) (d tc : Bool) (key : List Nib) (hk : key ≠ [])
    (value : WN) :
    insert hasDb s (fuel + 1) (.short sk h c d tc) key value =
      (let kb := key.map nb
       let p := commonPrefix sk kb
       if p = sk.length then
         let r := insert hasDb s fuel c (key.drop p) value
         { node := .short sk h r.node true tc, change := r.change, err := r.err, td := r.td }
       else
         match nibOf (sk.getD p 0), key[p]? with
         | some i1, some i2 =>
           let branch := WN.routing [] (upd (upd noCh i1 (mkShort (sk.drop (p + 1)) c)) i2 (mkShort (kb.drop (p + 1)) value))
             ((WN.short sk h c d tc).weight + value.weight) true false
           if p = 0 then { node := branch, change := value.weight, td := [h] }
           else { node := .short (kb.take p) [] branch true false, change := value.weight, td := [h] }
         | _, _ => { node := .short sk h c true tc, err := some .panic, td := [h] }) := by
  cases key with
  | nil => exact absurd rfl hk
  | cons k ks => rfl

theorem insert_short_prefix_m (fuel : Nat) (sn K2 : List Nib) (hs : sn ≠ []) (h : Bytes) (c : WN) (d tc : Bool)
    (value : WN) :
    insert hasDb s (fuel + 1) (.short (sn.map nb) h c d tc) (sn ++ K2) value =
      { node := .short (sn.map nb) h (insert hasDb s fuel c K2 value).node true tc,
        change := (insert hasDb s fuel c K2 value).change,
        err := (insert hasDb s fuel c K2 value).err,
        td := (insert hasDb s fuel c K2 value).td } := by
  rw [insert_short_eq_m _ _ _ _ _ _ _ (by simp [hs])]
  simp only [cp_prefix]
  simp

theorem insert_short_split_m (fuel : Nat) (a s' K' : List Nib) (i1 i2 : Nib) (hne : i1 ≠ i2) (h : Bytes) (c : WN)
    (d tc : Bool) (value : WN) :
    insert hasDb s (fuel + 1) (.short ((a ++ i1 :: s').map nb) h c d tc) (a ++ i2 :: K') value =
      { node := mkShort (a.map nb) (.routing [] (upd (upd noCh i1 (mkShort (s'.map nb) c)) i2 (mkShort (K'.map nb) value))
          (c.weight + value.weight) true false),
        change := value.weight, td := [h] } := by
  rw [insert_short_eq_m _ _ _ _ _ _ _ (by simp)]
  simp only [cp_split _ _ _ _ _ hne]
  have h1 : a.length ≠ ((a ++ i1 :: s').map nb).length := by simp
  simp only [h1, if_false]
  have h2 : ((a ++ i1 :: s').map nb).getD a.length 0 = nb i1 := by simp [List.getD]
  have h3 : (a ++ i2 :: K')[a.length]? = some i2 := by simp
  rw [h2, h3, nibOf_nb]
  simp only
  have h4 : ((a ++ i1 :: s').map nb).drop (a.length + 1) = s'.map nb := by
    rw [← List.map_drop, drop_len_succ]
  have h5 : ((a ++ i2 :: K').map nb).drop (a.length + 1) = K'.map nb := by
    rw [← List.map_drop, drop_len_succ]
  have h6 : ((a ++ i2 :: K').map nb).take a.length = a.map nb := by simp
  rw [h4, h5, h6]
  by_cases ha : a = []
  · subst ha; simp [mkShort, WN.weight]
  · have : a.length ≠ 0 := by simpa using ha
    simp [ha, this, mkShort, WN.weight]

theorem weight_mkShort (k : Bytes) (c : WN) : (mkShort k c).weight = c.weight := by
  unfold mkShort; split <;> rfl

theorem winv_mkShort (k : Bytes) (c : WN) : WInv (mkShort k c) ↔ WInv c := by
  unfold mkShort; split <;> simp [WInv]

theorem winv_upd {ch : Nib → WN} {x : WN} (k : Nib) (hc : ∀ i, WInv (ch i)) (hx : WInv x) :
    ∀ i, WInv (upd ch k x i) := by
  intro i; unfold upd; split
  · exact hx
  · exact hc i

theorem winv_split (h : Bytes) (d tc : Bool) (i1 i2 : Nib) (hne : i1 ≠ i2) (a b : WN) (ha : WInv a) (hb : WInv b) :
    WInv (.routing h (upd (upd noCh i1 a) i2 b) (a.weight + b.weight) d tc) := by
  refine ⟨winv_upd i2 (winv_upd i1 (fun _ => trivial) ha) hb, ?_⟩
  have e1 := sum_upd WN.weight (upd noCh i1 a) i2 b
  have e2 := sum_upd WN.weight noCh i1 a
  have e3 := sum_noCh WN.weight rfl
  have e4 : (upd noCh i1 a i2).weight = 0 := by simp [upd, Ne.symm hne, noCh, WN.weight]
  have e5 : (noCh i1).weight = 0 := rfl
  omega

/-- 2b/3. on a uniform trie an insert with a key of the right length succeeds, keeps the cached weights right, and
reports the weight change -/
theorem insert_uniform_spec : ∀ (fuel : Nat) (n : WN) (t : PT) (m : Nat) (key : List Nib), abs n = some t →
    Uniform m t → key.length = m → key.length + 1 ≤ fuel →
    (insert hasDb s fuel n key (.value [] v w true)).err = none ∧
    (WInv n → WInv (insert hasDb s fuel n key (.value [] v w true)).node ∧
      ((insert hasDb s fuel n key (.value [] v w true)).node.weight : Int) =
        n.weight + (insert hasDb s fuel n key (.value [] v w true)).change) := by
  intro fuel
  induction fuel with
  | zero => intro n t m key _ _ _ hf; omega
  | succ fuel ih =>
    intro n t m key ha hu hk hf
    cases n with
    | hashRef h cw => simp [abs] at ha
    | nil =>
      cases key <;> simp [insert, WInv, WN.weight]
    | empty =>
      cases key <;> simp [insert, WInv, WN.weight]
    | value vh vv vw vd =>
      simp only [abs, Option.some.injEq] at ha; subst ha
      simp only [Uniform] at hu
      subst hu
      have : key = [] := List.eq_nil_of_length_eq_zero hk
      subst this
      simp only [insert]
      split <;> simp [WInv, WN.weight] <;> omega
    | short sk h c d tc =>
      obtain ⟨t', hc, rfl⟩ := abs_short_some.mp ha
      obtain ⟨sn, rfl⟩ := exists_nibs sk hu.2.1
      obtain ⟨hs, hle, hvb, huc⟩ := uniform_short_iff.mp hu
      rcases cp_cases sn key (by omega) with ⟨K2, rfl⟩ | ⟨a, i1, s', i2, K', rfl, rfl, hne⟩
      · rw [insert_short_prefix_m _ _ _ hs]
        have hk2 : K2.length = m - sn.length := by simp at hk; omega
        have hsl : sn.length ≠ 0 := by simpa using hs
        obtain ⟨h1, h2⟩ := ih c t' _ K2 hc huc hk2 (by simp at hf; omega)
        exact ⟨h1, fun hw => h2 hw⟩
      · rw [insert_short_split_m _ _ _ _ _ _ hne]
        refine ⟨rfl, fun hw => ?_⟩
        simp only [winv_mkShort, weight_mkShort]
        refine ⟨?_, ?_⟩
        · have := winv_split [] true false i1 i2 hne (mkShort (s'.map nb) c)
            (mkShort (K'.map nb) (.value [] v w true)) ((winv_mkShort _ _).mpr hw) ((winv_mkShort _ _).mpr trivial)
          simpa only [weight_mkShort] using this
        · simp [WN.weight]
    | routing h ch cw d tc =>
      obtain ⟨f, hf', rfl⟩ := abs_routing_some.mp ha
      simp only [Uniform] at hu
      cases key with
      | nil => simp at hk; omega
      | cons k ks =>
        simp only [List.length_cons] at hk hf
        obtain ⟨h1, h2⟩ := ih (ch k) (f k) (m - 1) ks (hf' k) (hu.2 k) (by omega) (by omega)
        simp only [insert, h1]
        refine ⟨trivial, fun hw => ?_⟩
        obtain ⟨hwc, hws⟩ := hw
        obtain ⟨h3, h4⟩ := h2 (hwc k)
        have e1 := sum_upd WN.weight ch k (insert hasDb s fuel (ch k) ks (.value [] v w true)).node
        simp only [WN.weight]
        refine ⟨⟨winv_upd k hwc h3, ?_⟩, ?_⟩ <;> omega

theorem noEmpty_mkShort {k : Bytes} {c : WN} (h1 : c ≠ .empty) (h2 : NoEmpty c) :
    mkShort k c ≠ .empty ∧ NoEmpty (mkShort k c) := by
  unfold mkShort; split
  · exact ⟨h1, h2⟩
  · exact ⟨by simp, h1, h2⟩

theorem noEmpty_upd {ch : Nib → WN} {x : WN} (k : Nib) (hc : ∀ i, ch i ≠ .empty ∧ NoEmpty (ch i))
    (hx : x ≠ .empty ∧ NoEmpty x) : ∀ i, upd ch k x i ≠ .empty ∧ NoEmpty (upd ch k x i) := by
  intro i; unfold upd; split
  · exact hx
  · exact hc i

/-- a successful insert into an in-memory trie never creates `.empty` (not even at the root) -/
theorem noEmpty_insert : ∀ (fuel : Nat) (n : WN) (t : PT) (key : List Nib), abs n = some t → NoEmpty n →
    (insert hasDb s fuel n key (.value [] v w true)).err = none →
    (insert hasDb s fuel n key (.value [] v w true)).node ≠ .empty ∧
      NoEmpty (insert hasDb s fuel n key (.value [] v w true)).node := by
  intro fuel
  induction fuel with
  | zero => intro n t key _ _ he; simp [insert] at he
  | succ fuel ih =>
    intro n t key ha hn he
    cases key with
    | nil =>
      cases n with
      | hashRef h cw => simp [abs] at ha
      | nil => simp [insert, NoEmpty]
      | empty => simp [insert, NoEmpty]
      | value vh vv vw vd =>
        simp only [insert]
        split <;> simp [NoEmpty]
      | short k h c d tc => simp [insert, NoEmpty]
      | routing h ch cw d tc => simp [insert, NoEmpty]
    | cons k ks =>
      cases n with
      | hashRef h cw => simp [abs] at ha
      | nil => simp [insert, NoEmpty]
      | empty => simp [insert, NoEmpty]
      | value vh vv vw vd => simp [insert] at he
      | routing h ch cw d tc =>
        obtain ⟨f, hf, rfl⟩ := abs_routing_some.mp ha
        simp only [insert] at he ⊢
        cases hr : (insert hasDb s fuel (ch k) ks (.value [] v w true)).err with
        | some e => rw [hr] at he; simp at he
        | none =>
          simp only [NoEmpty] at hn ⊢
          exact ⟨by simp, noEmpty_upd k hn (ih _ _ _ (hf k) (hn k).2 hr)⟩
      | short sk h c d tc =>
        obtain ⟨t', hc, rfl⟩ := abs_short_some.mp ha
        simp only [insert] at he ⊢
        generalize commonPrefix sk (List.map nb (k :: ks)) = p at he ⊢
        simp only [NoEmpty] at hn
        split
        · rename_i hp
          subst hp
          simp only [if_true] at he
          exact ⟨by simp, ih _ _ _ hc hn.2 he⟩
        · rename_i hp
          simp only [hp, if_false] at he
          generalize nibOf (sk.getD p 0) = o1 at he ⊢
          generalize (k :: ks)[p]? = o2 at he ⊢
          cases o1 with
          | none => simp at he
          | some i1 =>
            cases o2 with
            | none => simp at he
            | some i2 =>
              have hb : ∀ (kk kk' : Bytes) (ww : Nat), NoEmpty (WN.routing [] (upd (upd noCh i1 (mkShort kk c)) i2
                  (mkShort kk' (WN.value [] v w true))) ww true false) := by
                intro kk kk' ww
                simp only [NoEmpty]
                refine noEmpty_upd i2 (noEmpty_upd i1 (fun _ => ⟨by simp [noCh], trivial⟩) ?_) ?_
                · exact noEmpty_mkShort hn.1 hn.2
                · exact noEmpty_mkShort (by simp) trivial
              simp only
              split
              · exact ⟨by simp, hb _ _ _⟩
              · exact ⟨by simp, by simp, hb _ _ _⟩

/-- 2. corollary: on a uniform trie, with a key of the right length, insert succeeds and commutes with `abs` -/
theorem insert_ok {fuel : Nat} {n : WN} {t : PT} {m : Nat} {key : List Nib} (ha : abs n = some t)
    (hu : Uniform m t) (hk : key.length = m) (hf : key.length + 1 ≤ fuel) :
    (insert hasDb s fuel n key (.value [] v w true)).err = none ∧
      abs (insert hasDb s fuel n key (.value [] v w true)).node = some (t.insert key v w) :=
  have h := (insert_uniform_spec fuel n t m key ha hu hk hf).1
  ⟨h, abs_insert fuel n t key ha h⟩

/-- 3. the cached weights stay right and `change` is the weight difference -/
theorem winv_insert {fuel : Nat} {n : WN} {t : PT} {m : Nat} {key : List Nib} (hw : WInv n) (ha : abs n = some t)
    (hu : Uniform m t) (hk : key.length = m) (hf : key.length + 1 ≤ fuel) :
    WInv (insert hasDb s fuel n key (.value [] v w true)).node ∧
      ((insert hasDb s fuel n key (.value [] v w true)).node.weight : Int) =
        n.weight + (insert hasDb s fuel n key (.value [] v w true)).change :=
  (insert_uniform_spec fuel n t m key ha hu hk hf).2 hw

end Insert

/-! ### delete -/

theorem isNil_eq_isNone {n : WN} {t : PT} (ha : abs n = some t) (hne : n ≠ .empty) : n.isNil = t.isNone := by
  cases n with
  | nil => simp only [abs, Option.some.injEq] at ha; subst ha; rfl
  | empty => exact absurd rfl hne
  | hashRef h cw => simp [abs] at ha
  | value vh vv vw vd => simp only [abs, Option.some.injEq] at ha; subst ha; rfl
  | short k h c d tc => obtain ⟨t', _, rfl⟩ := abs_short_some.mp ha; rfl
  | routing h ch cw d tc => obtain ⟨f, _, rfl⟩ := abs_routing_some.mp ha; rfl

theorem soleChild_eq_sole {ch : Nib → WN} {f : Nib → PT} (hf : ∀ i, abs (ch i) = some (f i))
    (hne : ∀ i, ch i ≠ .empty) : soleChild ch = PT.sole f := by
  unfold soleChild PT.sole
  have : (fun i => !(ch i).isNil) = (fun i => !(f i).isNone) := by
    funext i; rw [isNil_eq_isNone (hf i) (hne i)]
  rw [this]
  generalize List.filter (fun i => !(f i).isNone) allNib = l
  match l with
  | [] => rfl
  | [_] => rfl
  | _ :: _ :: _ => rfl

theorem soleChild_spec {ch : Nib → WN} {pos : Nib} (h : soleChild ch = some pos) : ∀ j, j ≠ pos → ch j = .nil := by
  unfold soleChild at h
  split at h
  · rename_i i hfl
    simp only [Option.some.injEq] at h
    subst h
    intro j hj
    cases hc : ch j with
    | nil => rfl
    | _ =>
      exfalso
      have : j ∈ allNib.filter (fun i => !(ch i).isNil) :=
        List.mem_filter.mpr ⟨List.mem_finRange j, by simp [hc, WN.isNil]⟩
      rw [hfl] at this
      simp at this
      exact hj this
  · simp at h

theorem sum_sole_aux {α} [DecidableEq α] (l : List α) (hnd : l.Nodup) (g : α → Nat) (pos : α)
    (h : ∀ j, j ≠ pos → g j = 0) : (l.map g).sum = if pos ∈ l then g pos else 0 := by
  induction l with
  | nil => simp
  | cons x xs ih =>
    have hx : x ∉ xs := (List.nodup_cons.mp hnd).1
    have := ih (List.nodup_cons.mp hnd).2
    by_cases hxp : x = pos
    · subst hxp
      simp only [hx, if_false] at this
      simp [this]
    · have hk : (pos ∈ x :: xs) ↔ pos ∈ xs := by simp [Ne.symm hxp]
      simp only [List.map_cons, List.sum_cons, hk, this, h x hxp]
      omega

theorem sum_sole (g : Nib → Nat) (pos : Nib) (h : ∀ j, j ≠ pos → g j = 0) : (allNib.map g).sum = g pos := by
  rw [sum_sole_aux allNib (List.nodup_finRange 16) g pos h]
  simp [allNib]

theorem resolveNode_mem {hasDb : Bool} {s : Store} {n : WN} {t : PT} (ha : abs n = some t) :
    resolveNode hasDb s n = .ok n := by
  unfold resolveNode
  split
  · rfl
  · cases n <;> first | rfl | simp [abs] at ha

theorem upd_self (ch : Nib → WN) (k : Nib) : upd ch k (ch k) = ch := by
  funext i; unfold upd; split
  · rename_i h; rw [h]
  · rfl

section Delete
variable {H : Bytes → Bytes} {hasDb : Bool} {s : Store}

theorem delete_short_split_m (fuel : Nat) (a s' K' : List Nib) (i1 i2 : Nib) (hne : i1 ≠ i2) (h : Bytes) (c : WN)
    (d tc : Bool) :
    delete H hasDb s (fuel + 1) (.short ((a ++ i1 :: s').map nb) h c d tc) (a ++ i2 :: K') =
      { node := .short ((a ++ i1 :: s').map nb) h c d tc, err := some .notFound } := by
  simp only [delete, cp_split _ _ _ _ _ hne]
  simp

theorem delete_short_prefix_m (fuel : Nat) (sn K2 : List Nib) (h : Bytes) (c : WN) (d tc : Bool) :
    delete H hasDb s (fuel + 1) (.short (sn.map nb) h c d tc) (sn ++ K2) =
      if K2 = [] then { node := .nil, change := c.weight, td := [h, c.hashField H] }
      else
        match (delete H hasDb s fuel c K2).err with
        | some e => { node := .short (sn.map nb) h (delete H hasDb s fuel c K2).node d tc, err := some e,
                      td := (delete H hasDb s fuel c K2).td }
        | none =>
          match (delete H hasDb s fuel c K2).node with
          | .nil => { node := .nil, change := (delete H hasDb s fuel c K2).change,
                      td := (delete H hasDb s fuel c K2).td ++ [h] }
          | .short ck _ cc _ _ => { node := .short (sn.map nb ++ ck) h cc true tc,
                                    change := (delete H hasDb s fuel c K2).change, td := (delete H hasDb s fuel c K2).td }
          | n' => { node := .short (sn.map nb) h n' true tc, change := (delete H hasDb s fuel c K2).change,
                    td := (delete H hasDb s fuel c K2).td } := by
  simp only [delete, cp_prefix]
  by_cases hK : K2 = []
  · subst hK; simp [WN.weight]
  · have : ¬ sn.length = sn.length + K2.length := by
      have : K2.length ≠ 0 := by simpa using hK
      omega
    simp only [List.length_map, Nat.lt_irrefl, if_false, List.length_append, this, hK, List.drop_left]
    generalize delete H hasDb s fuel c K2 = r
    obtain ⟨node, change, err, td⟩ := r
    cases err with
    | some e => rfl
    | none => cases node <;> rfl

/-- 4/5 (combined): on a uniform in-memory trie without inner `.empty`, with a key of the right length, delete either
reports not-found and leaves the node as it is, or succeeds with the node of `PT.delete`, keeps the invariants and
reports the removed weight -/
theorem delete_uniform_spec : ∀ (fuel : Nat) (n : WN) (t : PT) (m : Nat) (key : List Nib), abs n = some t → NoEmpty n →
    Uniform m t → key.length = m → key.length + 1 ≤ fuel →
    ((delete H hasDb s fuel n key).err = some .notFound ∧ t.delete key = none ∧
        (delete H hasDb s fuel n key).node = n) ∨
    ((delete H hasDb s fuel n key).err = none ∧ (delete H hasDb s fuel n key).node ≠ .empty ∧
      NoEmpty (delete H hasDb s fuel n key).node ∧
      (∃ t', t.delete key = some t' ∧ abs (delete H hasDb s fuel n key).node = some t') ∧
      (WInv n → WInv (delete H hasDb s fuel n key).node ∧
        (delete H hasDb s fuel n key).node.weight + (delete H hasDb s fuel n key).change = n.weight)) := by
  intro fuel
  induction fuel with
  | zero => intro n t m key _ _ _ _ hf; omega
  | succ fuel ih =>
    intro n t m key ha hn hu hk hf
    cases n with
    | hashRef h cw => simp [abs] at ha
    | nil =>
      simp only [abs, Option.some.injEq] at ha; subst ha
      left; simp [delete, PT.delete]
    | empty =>
      simp only [abs, Option.some.injEq] at ha; subst ha
      left; simp [delete, PT.delete]
    | value vh vv vw vd =>
      simp only [abs, Option.some.injEq] at ha; subst ha
      have hkn : key = [] := by
        simp only [Uniform] at hu
        exact List.eq_nil_of_length_eq_zero (hk.trans hu)
      subst hkn
      right; simp [delete, PT.delete, abs, NoEmpty, WInv, WN.weight]
    | short sk h c d tc =>
      obtain ⟨t', hc, rfl⟩ := abs_short_some.mp ha
      obtain ⟨sn, rfl⟩ := exists_nibs sk hu.2.1
      obtain ⟨hs, hle, hvb, huc⟩ := uniform_short_iff.mp hu
      simp only [NoEmpty] at hn
      rcases cp_cases sn key (by omega) with ⟨K2, rfl⟩ | ⟨a, i1, s', i2, K', rfl, rfl, hne⟩
      · rw [delete_short_prefix_m, PT.delete_short_prefix]
        by_cases hK : K2 = []
        · subst hK
          right
          simp [abs, NoEmpty, WInv, WN.weight]
        · simp only [hK, if_false]
          have hk2 : K2.length = m - sn.length := by simp at hk; omega
          have hsl : sn.length ≠ 0 := by simpa using hs
          have IH := ih c t' _ K2 hc hn.2 huc hk2 (by simp at hf; omega)
          generalize delete H hasDb s fuel c K2 = r at IH ⊢
          rcases IH with ⟨h1, h2, h3⟩ | ⟨h1, h2, h3, ⟨t'', h4, h5⟩, h6⟩
          · left
            simp only [h1, h2, h3]
            exact ⟨trivial, trivial, trivial⟩
          · right
            obtain ⟨node, change, err, td⟩ := r
            simp only at h1 h2 h3 h5 h6
            subst h1
            simp only [h4]
            cases node with
            | hashRef hh hw => simp [abs] at h5
            | empty => exact absurd rfl h2
            | nil =>
              -- the child of a uniform short node is a value (then `K2 = []`) or a branch (never deleted to nothing)
              exfalso
              simp only [abs, Option.some.injEq] at h5; subst h5
              cases t' with
              | none => simp [PT.isVB] at hvb
              | short _ _ => simp [PT.isVB] at hvb
              | value vv vw =>
                simp only [Uniform] at huc
                have : K2.length ≠ 0 := by simpa using hK
                omega
              | branch bch => exact PT.delete_branch_ne bch K2 h4
            | value vh vv vw vd =>
              simp only [abs, Option.some.injEq] at h5; subst h5
              exact ⟨rfl, by simp, ⟨by simp, trivial⟩, ⟨_, rfl, rfl⟩, fun hw => h6 hw⟩
            | routing rh rch rw rd rtc =>
              obtain ⟨f, hf', rfl⟩ := abs_routing_some.mp h5
              refine ⟨rfl, by simp, ⟨by simp, h3⟩, ⟨_, rfl, abs_short_some.mpr ⟨_, h5, rfl⟩⟩, ?_⟩
              intro hw
              exact h6 hw
            | short ck chh cc cd ctc =>
              obtain ⟨tc', hcc, rfl⟩ := abs_short_some.mp h5
              simp only [NoEmpty] at h3
              refine ⟨rfl, by simp, h3, ⟨_, rfl, abs_short_some.mpr ⟨_, hcc, rfl⟩⟩, ?_⟩
              intro hw
              exact h6 hw
      · left
        rw [delete_short_split_m _ _ _ _ _ _ hne, PT.delete_short_split _ _ _ _ _ hne]
        exact ⟨rfl, rfl, rfl⟩
    | routing h ch cw d tc =>
      obtain ⟨f, hf', rfl⟩ := abs_routing_some.mp ha
      simp only [Uniform] at hu
      simp only [NoEmpty] at hn
      cases key with
      | nil => simp at hk; omega
      | cons k ks =>
        simp only [List.length_cons] at hk hf
        have IH := ih (ch k) (f k) (m - 1) ks (hf' k) (hn k).2 (hu.2 k) (by omega) (by omega)
        rw [PT.delete_branch_cons]
        simp only [delete]
        generalize delete H hasDb s fuel (ch k) ks = r at IH ⊢
        rcases IH with ⟨h1, h2, h3⟩ | ⟨h1, h2, h3, ⟨t'', h4, h5⟩, h6⟩
        · left
          simp only [h1, h2, h3, upd_self]
          exact ⟨trivial, rfl, trivial⟩
        · right
          simp only [h1, h4, Option.map_some]
          have hch' : ∀ i, abs (upd ch k r.node i) = some (PT.updP f k t'' i) := abs_upd k hf' h5
          have hne' : ∀ i, upd ch k r.node i ≠ .empty ∧ NoEmpty (upd ch k r.node i) := noEmpty_upd k hn ⟨h2, h3⟩
          have hnil : r.node.isNil = t''.isNone := isNil_eq_isNone h5 h2
          have hsole := soleChild_eq_sole hch' (fun i => (hne' i).1)
          have hwt : WInv (.routing h ch cw d tc) → (∀ i, WInv (upd ch k r.node i)) ∧
              (allNib.map (fun i => (upd ch k r.node i).weight)).sum + r.change = cw := by
            intro hw
            obtain ⟨hwc, hws⟩ := hw
            obtain ⟨h7, h8⟩ := h6 (hwc k)
            have e1 := sum_upd WN.weight ch k r.node
            exact ⟨winv_upd k hwc h7, by omega⟩
          have hrout : WN.routing h (upd ch k r.node) (cw - r.change) true tc ≠ .empty ∧
              NoEmpty (WN.routing h (upd ch k r.node) (cw - r.change) true tc) ∧
              (∃ t', some (PT.branch (PT.updP f k t'')) = some t' ∧
                abs (WN.routing h (upd ch k r.node) (cw - r.change) true tc) = some t') ∧
              (WInv (.routing h ch cw d tc) →
                WInv (WN.routing h (upd ch k r.node) (cw - r.change) true tc) ∧
                (WN.routing h (upd ch k r.node) (cw - r.change) true tc).weight + r.change =
                  (WN.routing h ch cw d tc).weight) := by
            refine ⟨by simp, hne', ⟨_, rfl, abs_routing_of hch'⟩, fun hw => ?_⟩
            obtain ⟨h7, h8⟩ := hwt hw
            exact ⟨⟨h7, by omega⟩, by simp only [WN.weight]; omega⟩
          rw [hnil, hsole]
          by_cases hn0 : t''.isNone = true
          · simp only [hn0, Bool.not_true, Bool.false_eq_true, if_false]
            cases hs : PT.sole (PT.updP f k t'') with
            | none => exact ⟨rfl, hrout⟩
            | some pos =>
              simp only [resolveNode_mem (hch' pos)]
              have hp := hch' pos
              have hnp := hne' pos
              have hwp : WInv (.routing h ch cw d tc) →
                  WInv (upd ch k r.node pos) ∧ (upd ch k r.node pos).weight + r.change = cw := by
                intro hw
                obtain ⟨h7, h8⟩ := hwt hw
                have hz := soleChild_spec (hsole.trans hs)
                have := sum_sole (fun i => (upd ch k r.node i).weight) pos
                  (fun j hj => by simp only [hz j hj, WN.weight])
                exact ⟨h7 pos, by omega⟩
              simp only [PT.collapse]
              generalize upd ch k r.node pos = cp at hp hnp hwp ⊢
              generalize PT.updP f k t'' pos = tp at hp ⊢
              cases cp with
              | hashRef hh hw => simp [abs] at hp
              | empty => exact absurd rfl hnp.1
              | nil =>
                simp only [abs, Option.some.injEq] at hp; subst hp
                exact ⟨rfl, by simp, ⟨by simp, trivial⟩, ⟨_, rfl, rfl⟩, fun hw => hwp hw⟩
              | value vh vv vw vd =>
                simp only [abs, Option.some.injEq] at hp; subst hp
                exact ⟨rfl, by simp, ⟨by simp, trivial⟩, ⟨_, rfl, rfl⟩, fun hw => hwp hw⟩
              | routing rh rch rw rd rtc =>
                obtain ⟨g, hg, rfl⟩ := abs_routing_some.mp hp
                exact ⟨rfl, by simp, ⟨by simp, hnp.2⟩, ⟨_, rfl, abs_short_some.mpr ⟨_, hp, rfl⟩⟩, fun hw => hwp hw⟩
              | short ck chh cc cd ctc =>
                obtain ⟨tc', hcc, rfl⟩ := abs_short_some.mp hp
                exact ⟨rfl, by simp, hnp.2, ⟨_, rfl, abs_short_some.mpr ⟨_, hcc, rfl⟩⟩, fun hw => hwp hw⟩
          · simp only [hn0, Bool.not_false, if_true]
            exact ⟨trivial, hrout⟩

section
variable {fuel : Nat} {n : WN} {t : PT} {m : Nat} {key : List Nib}

/-- 4. `abs` commutes with delete: not-found exactly when `PT.delete` says so (node untouched), otherwise the node of
`PT.delete` -/
theorem abs_delete (ha : abs n = some t) (hn : NoEmpty n) (hu : Uniform m t) (hk : key.length = m)
    (hf : key.length + 1 ≤ fuel) :
    ((delete H hasDb s fuel n key).err = some .notFound ∧ t.delete key = none ∧
        (delete H hasDb s fuel n key).node = n ∧ abs (delete H hasDb s fuel n key).node = some t) ∨
    ((delete H hasDb s fuel n key).err = none ∧
      ∃ t', t.delete key = some t' ∧ abs (delete H hasDb s fuel n key).node = some t' ∧
        ((delete H hasDb s fuel n key).node = .nil ↔ t' = .none)) := by
  rcases delete_uniform_spec (H := H) (hasDb := hasDb) (s := s) fuel n t m key ha hn hu hk hf with
    ⟨h1, h2, h3⟩ | ⟨h1, h2, _, ⟨t', h4, h5⟩, _⟩
  · exact .inl ⟨h1, h2, h3, by rw [h3]; exact ha⟩
  · refine .inr ⟨h1, t', h4, h5, ?_⟩
    have := isNil_eq_isNone h5 h2
    constructor
    · intro e; rw [e] at this; exact (PT.isNone_iff t').mp this.symm
    · intro e; rw [e] at this
      cases hd : (delete H hasDb s fuel n key).node <;> simp [hd, WN.isNil, PT.isNone] at this ⊢

/-- a successful delete leaves no `.empty` anywhere (a removed trie is `.nil`) -/
theorem noEmpty_delete (ha : abs n = some t) (hn : NoEmpty n) (hu : Uniform m t) (hk : key.length = m)
    (hf : key.length + 1 ≤ fuel) (he : (delete H hasDb s fuel n key).err = none) :
    (delete H hasDb s fuel n key).node ≠ .empty ∧ NoEmpty (delete H hasDb s fuel n key).node := by
  rcases delete_uniform_spec (H := H) (hasDb := hasDb) (s := s) fuel n t m key ha hn hu hk hf with
    ⟨h1, _, _⟩ | ⟨_, h2, h3, _, _⟩
  · rw [h1] at he; cases he
  · exact ⟨h2, h3⟩

/-- 5. the cached weights stay right and `change` is the removed weight -/
theorem winv_delete (hw : WInv n) (ha : abs n = some t) (hn : NoEmpty n) (hu : Uniform m t) (hk : key.length = m)
    (hf : key.length + 1 ≤ fuel) (he : (delete H hasDb s fuel n key).err = none) :
    WInv (delete H hasDb s fuel n key).node ∧
      (delete H hasDb s fuel n key).node.weight + (delete H hasDb s fuel n key).change = n.weight := by
  rcases delete_uniform_spec (H := H) (hasDb := hasDb) (s := s) fuel n t m key ha hn hu hk hf with
    ⟨h1, _, _⟩ | ⟨_, _, _, _, h6⟩
  · rw [h1] at he; cases he
  · exact h6 hw

end

end Delete

/-! ### the root: `normRoot`, the empty trie -/

theorem abs_normRoot (n : WN) : abs (normRoot n) = abs n := by
  cases n <;> rfl

theorem weight_normRoot (n : WN) : (normRoot n).weight = n.weight := by
  cases n <;> rfl

theorem winv_normRoot (n : WN) : WInv (normRoot n) ↔ WInv n := by
  cases n <;> simp [normRoot, WN.isNil, WInv]

theorem noEmpty_normRoot (n : WN) : NoEmpty (normRoot n) ↔ NoEmpty n := by
  cases n <;> simp [normRoot, WN.isNil, NoEmpty]

theorem inv_empty : abs .empty = some .none ∧ WInv .empty ∧ NoEmpty .empty ∧ ∀ m, Uniform m .none :=
  ⟨rfl, trivial, trivial, uniform_none⟩

theorem fuelFor_ok (key : List Nib) : key.length + 1 ≤ fuelFor key := by
  unfold fuelFor; omega

/-! ### the combined invariant, maintained from the empty trie by insert / delete with keys of one length -/

/-- `n` is an in-memory trie for the uniform spec tree `t` (all keys of length `m`) with right cached weights -/
structure Good (m : Nat) (n : WN) (t : PT) : Prop where
  abs_eq : abs n = some t
  winv : WInv n
  noEmpty : NoEmpty n
  uniform : Uniform m t

theorem good_empty (m : Nat) : Good m .empty .none := ⟨rfl, trivial, trivial, uniform_none m⟩

theorem Good.weight {m : Nat} {n : WN} {t : PT} (g : Good m n t) : n.weight = t.weight :=
  weight_abs g.winv g.abs_eq

theorem Good.normRoot {m : Nat} {n : WN} {t : PT} (g : Good m n t) : Good m (normRoot n) t :=
  ⟨by rw [abs_normRoot]; exact g.abs_eq, (winv_normRoot n).mpr g.winv, (noEmpty_normRoot n).mpr g.noEmpty, g.uniform⟩

theorem good_insert {hasDb : Bool} {s : Store} {v : Bytes} {w : Nat} {fuel m : Nat} {n : WN} {t : PT}
    {key : List Nib} (g : Good m n t) (hk : key.length = m) (hf : key.length + 1 ≤ fuel) :
    (insert hasDb s fuel n key (.value [] v w true)).err = none ∧
      Good m (insert hasDb s fuel n key (.value [] v w true)).node (t.insert key v w) ∧
      ((insert hasDb s fuel n key (.value [] v w true)).node.weight : Int) =
        n.weight + (insert hasDb s fuel n key (.value [] v w true)).change := by
  obtain ⟨h1, h2⟩ := insert_ok (hasDb := hasDb) (s := s) (v := v) (w := w) g.abs_eq g.uniform hk hf
  obtain ⟨h3, h4⟩ := winv_insert (hasDb := hasDb) (s := s) (v := v) (w := w) g.winv g.abs_eq g.uniform hk hf
  exact ⟨h1, ⟨h2, h3, (noEmpty_insert fuel n t key g.abs_eq g.noEmpty h1).2, uniform_insert g.uniform hk v w⟩, h4⟩

theorem good_delete {H : Bytes → Bytes} {hasDb : Bool} {s : Store} {fuel m : Nat} {n : WN} {t : PT}
    {key : List Nib} (g : Good m n t) (hk : key.length = m) (hf : key.length + 1 ≤ fuel) :
    ((delete H hasDb s fuel n key).err = some .notFound ∧ t.delete key = none ∧
        (delete H hasDb s fuel n key).node = n) ∨
    ((delete H hasDb s fuel n key).err = none ∧
      ∃ t', t.delete key = some t' ∧ Good m (delete H hasDb s fuel n key).node t' ∧
        (delete H hasDb s fuel n key).node.weight + (delete H hasDb s fuel n key).change = n.weight) := by
  rcases delete_uniform_spec (H := H) (hasDb := hasDb) (s := s) fuel n t m key g.abs_eq g.noEmpty g.uniform hk hf with
    ⟨h1, h2, h3⟩ | ⟨h1, _, h3, ⟨t', h4, h5⟩, h6⟩
  · exact .inl ⟨h1, h2, h3⟩
  · obtain ⟨h7, h8⟩ := h6 g.winv
    exact .inr ⟨h1, t', h4, ⟨h5, h7, h3, uniform_delete g.uniform hk h4⟩, h8⟩

/-- without a domain hypothesis statement 3 fails: an empty key at a routing node replaces the node by the value and
reports the value's weight as the change -/
theorem winv_insert_counterexample (hasDb : Bool) (s : Store) :
    ∃ (n : WN) (t : PT), WInv n ∧ abs n = some t ∧ NoEmpty n ∧
      (insert hasDb s 1 n [] (.value [] [2] 3 true)).err = none ∧
      ((insert hasDb s 1 n [] (.value [] [2] 3 true)).node.weight : Int) ≠
        n.weight + (insert hasDb s 1 n [] (.value [] [2] 3 true)).change := by
  refine ⟨.routing [] (upd noCh 0 (.value [] [1] 5 true)) 5 true false, _,
    ?_, abs_routing_of (abs_upd 0 abs_noCh rfl), ?_, rfl, ?_⟩
  · refine ⟨winv_upd 0 (fun _ => trivial) trivial, ?_⟩
    have e2 := sum_upd WN.weight noCh 0 (.value [] [1] 5 true)
    have e3 := sum_noCh WN.weight rfl
    have e5 : (noCh 0).weight = 0 := rfl
    have e6 : (WN.value [] [1] 5 true).weight = 5 := rfl
    omega
  · exact noEmpty_upd 0 (fun _ => ⟨by simp [noCh], trivial⟩) ⟨by simp, trivial⟩
  · simp [insert, WN.weight]

end Verif.Wmpt
