/-
The abstraction function `abs : WN → Option PT` commutes with `insert` / `delete` on in-memory tries (no hash
references), and the cached weight fields of routing nodes are maintained.  Core Lean only.
-/
import Verif.Model.WmptOps
import Verif.Model.WmptSpecOps
import Verif.Lemmas.WmptSpecOps
namespace Verif.Wmpt

/-! ### invariants -/

/-- every routing node's cached weight is the sum of the weights of its children -/
def WInv : WN → Prop
  | .short _ _ c _ _ => WInv c
  | .routing _ ch w _ _ => (∀ i, WInv (ch i)) ∧ w = (allNib.map (fun i => (ch i).weight)).sum
  | _ => True

/-- `.empty` (the `*nilNode` of an empty trie) occurs at the root only -/
def NoEmpty : WN → Prop
  | .short _ _ c _ _ => c ≠ .empty ∧ NoEmpty c
  | .routing _ ch _ _ _ => ∀ i, ch i ≠ .empty ∧ NoEmpty (ch i)
  | _ => True

/-! ### sums over the sixteen children -/

theorem sum_map_upd_aux {α} [DecidableEq α] (l : List α) (hnd : l.Nodup) (g : α → Nat) (k : α) (a : Nat) :
    (l.map (fun i => if i = k then a else g i)).sum + (if k ∈ l then g k else 0) =
      (l.map g).sum + (if k ∈ l then a else 0) := by
  induction l with
  | nil => simp
  | cons x xs ih =>
    have hx : x ∉ xs := (List.nodup_cons.mp hnd).1
    have := ih (List.nodup_cons.mp hnd).2
    by_cases h : x = k
    · subst h
      simp only [hx, if_false, Nat.add_zero] at this
      simp [this]; omega
    · have hk : (k ∈ x :: xs) ↔ k ∈ xs := by simp [Ne.symm h]
      simp only [List.map_cons, List.sum_cons, h, if_false, hk]
      omega

theorem sum_upd (g : WN → Nat) (ch : Nib → WN) (k : Nib) (x : WN) :
    (allNib.map (fun i => g (upd ch k x i))).sum + g (ch k) = (allNib.map (fun i => g (ch i))).sum + g x := by
  have := sum_map_upd_aux allNib (List.nodup_finRange 16) (fun i => g (ch i)) k (g x)
  simp only [allNib, List.mem_finRange, if_true] at this ⊢
  rw [← this]
  congr 2
  apply List.map_congr_left
  intro i _
  unfold upd
  split <;> rfl

theorem sum_noCh (g : WN → Nat) (h0 : g .nil = 0) : (allNib.map (fun i => g (noCh i))).sum = 0 := by
  have : ∀ l : List Nib, (l.map (fun _ => 0)).sum = 0 := by
    intro l; induction l <;> simp_all
  simp [noCh, h0, this]

/-! ### `abs` equations -/

theorem abs_routing_some {h : Bytes} {ch : Nib → WN} {w : Nat} {d tc : Bool} {t : PT} :
    abs (.routing h ch w d tc) = some t ↔ ∃ f : Nib → PT, (∀ i, abs (ch i) = some (f i)) ∧ t = .branch f := by
  simp only [abs]
  constructor
  · intro hh
    split at hh
    · rename_i hall
      refine ⟨fun i => (abs (ch i)).getD .none, fun i => ?_, by simpa using hh.symm⟩
      have := List.all_eq_true.mp hall i (List.mem_finRange i)
      obtain ⟨x, hx⟩ := Option.isSome_iff_exists.mp this
      simp [hx]
    · cases hh
  · rintro ⟨f, hf, rfl⟩
    simp [hf]

theorem abs_routing_of {h : Bytes} {ch : Nib → WN} {w : Nat} {d tc : Bool} {f : Nib → PT}
    (hf : ∀ i, abs (ch i) = some (f i)) : abs (.routing h ch w d tc) = some (.branch f) :=
  abs_routing_some.mpr ⟨f, hf, rfl⟩

theorem abs_short_some {k h : Bytes} {c : WN} {d tc : Bool} {t : PT} :
    abs (.short k h c d tc) = some t ↔ ∃ t', abs c = some t' ∧ t = .short k t' := by
  simp only [abs, Option.map_eq_some_iff]
  constructor
  · rintro ⟨a, h1, h2⟩; exact ⟨a, h1, h2.symm⟩
  · rintro ⟨a, h1, h2⟩; exact ⟨a, h1, h2.symm⟩

theorem abs_mkShort (k : Bytes) (c : WN) : abs (mkShort k c) = (abs c).map (PT.mkShort k) := by
  unfold mkShort PT.mkShort
  by_cases h : k = []
  · simp [h]
  · simp only [h, if_false, abs]

theorem abs_upd {ch : Nib → WN} {f : Nib → PT} {x : WN} {y : PT} (k : Nib) (hf : ∀ i, abs (ch i) = some (f i))
    (hx : abs x = some y) : ∀ i, abs (upd ch k x i) = some (PT.updP f k y i) := by
  intro i
  unfold upd PT.updP
  split
  · exact hx
  · exact hf i

theorem abs_noCh (i : Nib) : abs (noCh i) = some (PT.noChP i) := rfl

/-- 1. the weight of an in-memory node with correct cached weights is the weight of its spec tree -/
theorem weight_abs {n : WN} {t : PT} (hw : WInv n) (ha : abs n = some t) : n.weight = t.weight := by
  induction n generalizing t with
  | nil => simp only [abs, Option.some.injEq] at ha; subst ha; rfl
  | empty => simp only [abs, Option.some.injEq] at ha; subst ha; rfl
  | hashRef h w => simp [abs] at ha
  | value h v w d => simp only [abs, Option.some.injEq] at ha; subst ha; rfl
  | short k h c d tc ih =>
    obtain ⟨t', hc, rfl⟩ := abs_short_some.mp ha
    show c.weight = t'.weight
    exact ih (by simpa only [WInv] using hw) hc
  | routing h ch w d tc ih =>
    obtain ⟨f, hf, rfl⟩ := abs_routing_some.mp ha
    simp only [WInv] at hw
    simp only [WN.weight, PT.weight, hw.2]
    congr 1
    apply List.map_congr_left
    intro i _
    exact ih i (hw.1 i) (hf i)

/-! ### insert -/

section Insert
variable {hasDb : Bool} {s : Store} {v : Bytes} {w : Nat}

/-- 2. `abs` commutes with a successful insert (no domain hypothesis: `insert` and `PT.insert` agree case by case) -/
theorem abs_insert : ∀ (fuel : Nat) (n : WN) (t : PT) (key : List Nib), abs n = some t →
    (insert hasDb s fuel n key (.value [] v w true)).err = none →
    abs (insert hasDb s fuel n key (.value [] v w true)).node = some (t.insert key v w) := by
  intro fuel
  induction fuel with
  | zero => intro n t key _ he; simp [insert] at he
  | succ fuel ih =>
    intro n t key ha he
    cases key with
    | nil =>
      cases n with
      | hashRef h cw => simp [abs] at ha
      | nil =>
        simp only [abs, Option.some.injEq] at ha; subst ha
        simp [insert, abs, PT.insert]
      | empty =>
        simp only [abs, Option.some.injEq] at ha; subst ha
        simp [insert, abs, PT.insert]
      | value vh vv vw vd =>
        simp only [abs, Option.some.injEq] at ha; subst ha
        simp only [insert, PT.insert]
        split <;> simp [abs]
      | short k h c d tc =>
        obtain ⟨t', hc, rfl⟩ := abs_short_some.mp ha
        simp [insert, abs, PT.insert]
      | routing h ch cw d tc =>
        obtain ⟨f, hf, rfl⟩ := abs_routing_some.mp ha
        simp [insert, abs, PT.insert]
    | cons k ks =>
      cases n with
      | hashRef h cw => simp [abs] at ha
      | nil =>
        simp only [abs, Option.some.injEq] at ha; subst ha
        simp [insert, abs, PT.insert]
      | empty =>
        simp only [abs, Option.some.injEq] at ha; subst ha
        simp [insert, abs, PT.insert]
      | value vh vv vw vd => simp [insert] at he
      | routing h ch cw d tc =>
        obtain ⟨f, hf, rfl⟩ := abs_routing_some.mp ha
        simp only [insert] at he ⊢
        cases hr : (insert hasDb s fuel (ch k) ks (.value [] v w true)).err with
        | some e => rw [hr] at he; simp at he
        | none =>
          simp only [PT.insert]
          exact abs_routing_of (abs_upd k hf (ih _ _ _ (hf k) hr))
      | short sk h c d tc =>
        obtain ⟨t', hc, rfl⟩ := abs_short_some.mp ha
        simp only [insert] at he ⊢
        simp only [PT.insert]
        generalize commonPrefix sk (List.map nb (k :: ks)) = p at he ⊢
        split
        · rename_i hp
          subst hp
          simp only [if_true] at he
          exact abs_short_some.mpr ⟨_, ih _ _ _ hc he, rfl⟩
        · rename_i hp
          simp only [hp, if_false] at he
          generalize nibOf (sk.getD p 0) = o1 at he ⊢
          generalize (k :: ks)[p]? = o2 at he ⊢
          cases o1 with
          | none => simp at he
          | some i1 =>
            cases o2 with
            | none => simp at he
            | some i2 =>
              have hb : ∀ kk kk' : Bytes, abs (WN.routing [] (upd (upd noCh i1 (mkShort kk c)) i2
                  (mkShort kk' (WN.value [] v w true))) ((WN.short sk h c d tc).weight + (WN.value [] v w true).weight)
                  true false) = some (PT.branch (PT.updP (PT.updP PT.noChP i1 (PT.mkShort kk t')) i2
                    (PT.mkShort kk' (PT.value v w)))) := by
                intro kk kk'
                refine abs_routing_of (abs_upd i2 (abs_upd i1 abs_noCh ?_) ?_)
                · rw [abs_mkShort, hc]; rfl
                · rw [abs_mkShort]; rfl
              simp only
              split
              · exact hb _ _
              · exact abs_short_some.mpr ⟨_, hb _ _, rfl⟩

/-! model-level equations for a short node whose key is a nibble string -/

theorem insert_short_eq (fuel : Nat) (sk h : Bytes) (c : WN) (d tc : Bool) (key : List Nib) (hk : key ≠ [])
    (value : WN) :
    insert hasDb s (fuel + 1) (.short sk h c d tc) key value =
      (let kb := key.map nb
       let p := commonPrefix sk kb
       if p = sk.length then
         let r := insert hasDb s fuel c (key.drop p) value
         { node := .short sk h r.node true tc, change := r.change, err := r.err, td := r.td }
       else
         match nibOf (sk.getD p 0), key[p]? with
         | some i1, some i2 =>
           let branch := WN.routing [] (upd (upd noCh i1 (mkShort (sk.drop (p + 1)) c)) i2 (mkShort (kb.drop (p + 1)) value))
             ((WN.short sk h c d tc).weight + value.weight) true false
           if p = 0 then { node := branch, change := value.weight, td := [h] }
           else { node := .short (kb.take p) [] branch true false, change := value.weight, td := [h] }
         | _, _ => { node := .short sk h c true tc, err := some .panic, td := [h] }) := by
  cases key with
  | nil => exact absurd rfl hk
  | cons k ks => rfl

theorem insert_short_prefix (fuel : Nat) (sn K2 : List Nib) (hs : sn ≠ []) (h : Bytes) (c : WN) (d tc : Bool)
    (value : WN) :
    insert hasDb s (fuel + 1) (.short (sn.map nb) h c d tc) (sn ++ K2) value =
      { node := .short (sn.map nb) h (insert hasDb s fuel c K2 value).node true tc,
        change := (insert hasDb s fuel c K2 value).change,
        err := (insert hasDb s fuel c K2 value).err,
        td := (insert hasDb s fuel c K2 value).td } := by
  rw [insert_short_eq _ _ _ _ _ _ _ (by simp [hs])]
  simp only [cp_prefix]
  simp

theorem insert_short_split (fuel : Nat) (a s' K' : List Nib) (i1 i2 : Nib) (hne : i1 ≠ i2) (h : Bytes) (c : WN)
    (d tc : Bool) (value : WN) :
    insert hasDb s (fuel + 1) (.short ((a ++ i1 :: s').map nb) h c d tc) (a ++ i2 :: K') value =
      { node := mkShort (a.map nb) (.routing [] (upd (upd noCh i1 (mkShort (s'.map nb) c)) i2 (mkShort (K'.map nb) value))
          (c.weight + value.weight) true false),
        change := value.weight, td := [h] } := by
  rw [insert_short_eq _ _ _ _ _ _ _ (by simp)]
  simp only [cp_split _ _ _ _ _ hne]
  have h1 : a.length ≠ ((a ++ i1 :: s').map nb).length := by simp
  simp only [h1, if_false]
  have h2 : ((a ++ i1 :: s').map nb).getD a.length 0 = nb i1 := by simp [List.getD]
  have h3 : (a ++ i2 :: K')[a.length]? = some i2 := by simp
  rw [h2, h3, nibOf_nb]
  simp only
  have h4 : ((a ++ i1 :: s').map nb).drop (a.length + 1) = s'.map nb := by
    rw [← List.map_drop, drop_len_succ]
  have h5 : ((a ++ i2 :: K').map nb).drop (a.length + 1) = K'.map nb := by
    rw [← List.map_drop, drop_len_succ]
  have h6 : ((a ++ i2 :: K').map nb).take a.length = a.map nb := by simp
  rw [h4, h5, h6]
  by_cases ha : a = []
  · subst ha; simp [mkShort, WN.weight]
  · have : a.length ≠ 0 := by simpa using ha
    simp [ha, this, mkShort, WN.weight]

end Insert

end Verif.Wmpt
