/-
Lemmas about the partial-tree model (Verif.Model.MptPartial): occurrences of missing nodes vs. the traversals, lookups
crossing a missing node, MergeDB.
-/
import Verif.Lemmas.MptCodec
import Verif.Model.MptPartial
import Verif.Lemmas.MptWF
namespace Verif.Partial
open Verif.Mpt (Bytes Nib Node key nibChar WFn splitCommon lookup)
open Verif.Codec


/-- `missing k` occurs in the partial tree -/
inductive Occurs (k : Bytes) : PTree → Prop where
  | here : Occurs k (.missing k)
  | full (ch : Nib → PTree) (v : Option Bytes) (i : Nib) : Occurs k (ch i) → Occurs k (.full ch v)
  | ext (p : Bytes) (c : PTree) : Occurs k c → Occurs k (.ext p c)

/-- the walk of `getNodeValueRaw` along path `q` reaches a missing node -/
inductive Crosses : PTree → Bytes → Prop where
  | here (k q : Bytes) : Crosses (.missing k) q
  | full (ch : Nib → PTree) (v : Option Bytes) (c : UInt8) (r : Bytes) (i : Nib) :
      nibOf c = some i → Crosses (ch i) r → Crosses (.full ch v) (c :: r)
  | ext (ep : Bytes) (c : PTree) (r : Bytes) : ep ≠ [] → Crosses c r → Crosses (.ext ep c) (ep ++ r)

theorem iterErr_ne_none_iff (m : IterErr) (hm : m ≠ .none) (t : PTree) :
    iterErr m t ≠ .none ↔ ∃ k, Occurs k t := by
  induction t with
  | empty => simp [iterErr]; intro k h; cases h
  | missing k => simp [iterErr, hm]; exact ⟨k, .here⟩
  | leaf p v => simp [iterErr]; intro k h; cases h
  | full ch v ih =>
    simp only [iterErr]
    constructor
    · intro h
      by_cases ha : (List.finRange 16).any (fun i => iterErr m (ch i) != .none) = true
      · obtain ⟨i, _, hi⟩ := List.any_eq_true.mp ha
        obtain ⟨k, hk⟩ := (ih i).mp (by simpa using hi)
        exact ⟨k, .full ch v i hk⟩
      · simp [ha] at h
    · rintro ⟨k, hk⟩
      cases hk with
      | full _ _ i hi =>
        have : (List.finRange 16).any (fun i => iterErr m (ch i) != .none) = true := by
          apply List.any_eq_true.mpr
          exact ⟨i, List.mem_finRange i, by simpa using (ih i).mpr ⟨k, hi⟩⟩
        simp [this]
  | ext p c ih =>
    simp only [iterErr]
    rw [ih]
    constructor
    · rintro ⟨k, hk⟩; exact ⟨k, .ext p c hk⟩
    · rintro ⟨k, hk⟩; cases hk with | ext _ _ h => exact ⟨k, h⟩

theorem mem_allMissing_iff (k : Bytes) (t : PTree) : k ∈ allMissing t ↔ Occurs k t := by
  induction t with
  | empty => simp [allMissing]; intro h; cases h
  | missing k' =>
    simp only [allMissing, List.mem_singleton]
    constructor
    · rintro rfl; exact .here
    · intro h; cases h; rfl
  | leaf p v => simp [allMissing]; intro h; cases h
  | full ch v ih =>
    simp only [allMissing, List.mem_flatMap]
    constructor
    · rintro ⟨i, _, hi⟩; exact .full ch v i ((ih i).mp hi)
    · intro h; cases h with | full _ _ i hi => exact ⟨i, List.mem_finRange i, (ih i).mpr hi⟩
  | ext p c ih =>
    simp only [allMissing]
    rw [ih]
    constructor
    · intro h; exact .ext p c h
    · intro h; cases h with | ext _ _ h => exact h

theorem matchLen_append (ep r : Bytes) : matchLen (ep ++ r) ep = ep.length := by
  induction ep with
  | nil => cases r <;> simp [matchLen]
  | cons a ep ih => simp [matchLen, ih]

theorem crosses_not_empty (t : PTree) (q : Bytes) (h : Crosses t q) : t.isEmpty = false := by
  cases h <;> rfl

theorem lookupP_crosses (t : PTree) (q : Bytes) (h : Crosses t q) : lookupP t q = .nodeNotFound := by
  induction h with
  | here k q => simp [lookupP]
  | full ch v c r i hc hcr ih =>
    simp only [lookupP, hc, crosses_not_empty _ _ hcr]
    simpa using ih
  | ext ep c r hne hcr ih =>
    have h0 : ¬ (ep.length = 0) := by simpa using hne
    simp only [lookupP, matchLen_append, h0, if_false, if_true, List.drop_left]
    exact ih


theorem valRes_ne (v : Option Bytes) : valRes v ≠ .nodeNotFound := by
  cases v with
  | none => simp [valRes]
  | some b => by_cases h : b = [] <;> simp [valRes, h]

theorem matchLen_le (p ep : Bytes) : matchLen p ep ≤ ep.length := by
  induction ep generalizing p with
  | nil => cases p <;> simp [matchLen]
  | cons a ep ih =>
    cases p with
    | nil => simp [matchLen]
    | cons b p =>
      simp only [matchLen]
      split
      · have := ih p; simp; omega
      · simp

theorem matchLen_eq_length (p ep : Bytes) (h : matchLen p ep = ep.length) : p = ep ++ p.drop ep.length := by
  induction ep generalizing p with
  | nil => simp
  | cons a ep ih =>
    cases p with
    | nil => simp [matchLen] at h
    | cons b p =>
      simp only [matchLen] at h
      split at h
      · rename_i hab
        subst hab
        simp only [List.length_cons, Nat.add_right_cancel_iff] at h
        have := ih p h
        simp only [List.cons_append, List.length_cons, List.drop_succ_cons]
        rw [← this]
      · simp at h

/-- a lookup answers "node not found" ONLY when its walk reaches a missing node -/
theorem crosses_of_lookupP (t : PTree) (q : Bytes) (h : lookupP t q = .nodeNotFound) : Crosses t q := by
  induction t generalizing q with
  | empty => simp [lookupP] at h
  | missing k => exact .here k q
  | leaf lp v =>
    simp only [lookupP] at h
    split at h
    · exact absurd h (valRes_ne v)
    · simp at h
  | full ch v ih =>
    cases q with
    | nil => simp only [lookupP] at h; exact absurd h (valRes_ne v)
    | cons c r =>
      simp only [lookupP] at h
      split at h
      · simp at h
      · rename_i i hi
        split at h
        · simp at h
        · exact .full ch v c r i hi (ih i r h)
  | ext ep c ih =>
    simp only [lookupP] at h
    split at h
    · simp at h
    · rename_i h0
      split at h
      · rename_i hl
        have hp := matchLen_eq_length q ep hl
        have hne : ep ≠ [] := by
          intro he; subst he; simp at hl; exact h0 hl
        rw [hp]
        exact .ext ep c _ hne (ih _ h)
      · simp at h

theorem Store.get_put (s : Store) (k b k' : Bytes) :
    (s.put k b).get k' = if k = k' then some b else s.get k' := by
  by_cases h : k = k' <;> simp [Store.get, Store.put, List.find?_cons, h]

/-- every node of the structural trie `t` (located at `pre`) is in the store under its key, with its encoding -/
def Resolves (H : Bytes → Bytes) (get : Bytes → Option Bytes) (t : Node) (pre : List Nib) : Prop :=
  ∀ e ∈ nodesOf H t pre, get e.1 = some (encode e.2)

theorem mergeDB_cons (v : Nat) (s : Store) (e : Bytes × Repr) (donor : List (Bytes × Repr)) :
    mergeDB v s (e :: donor) = mergeDB v (s.put e.1 (encode e.2)) donor := by simp [mergeDB]

/-- after merging a donor whose entries agree with a reference store, every key that the damaged store or the donor
    holds reads as in the reference store -/
theorem mergeDB_get (v : Nat) (ref : Bytes → Option Bytes) (donor : List (Bytes × Repr)) (s : Store)
    (hsub : ∀ k b, s.get k = some b → ref k = some b)
    (hdonor : ∀ e ∈ donor, ref e.1 = some (encode e.2)) :
    (∀ k b, (mergeDB v s donor).get k = some b → ref k = some b) ∧
    (∀ k b, ref k = some b → (s.get k = some b ∨ ∃ r, (k, r) ∈ donor) → (mergeDB v s donor).get k = some b) := by
  induction donor generalizing s with
  | nil =>
    refine ⟨fun k b h => hsub k b (by simpa [mergeDB] using h), fun k b hr h => ?_⟩
    rcases h with h | ⟨r, hm⟩
    · simpa [mergeDB] using h
    · cases hm
  | cons e donor ih =>
    have hsub' : ∀ k b, (s.put e.1 (encode e.2)).get k = some b → ref k = some b := by
      intro k b h
      rw [Store.get_put] at h
      by_cases hk : e.1 = k
      · simp only [hk, if_true, Option.some.injEq] at h
        rw [← h, ← hk]; exact hdonor e (by simp)
      · simp only [hk, if_false] at h; exact hsub k b h
    have hd' : ∀ e' ∈ donor, ref e'.1 = some (encode e'.2) := fun e' h => hdonor e' (List.mem_cons_of_mem _ h)
    obtain ⟨i1, i2⟩ := ih (s.put e.1 (encode e.2)) hsub' hd'
    rw [mergeDB_cons]
    refine ⟨i1, fun k b hr h => i2 k b hr ?_⟩
    rcases h with h | ⟨r, hm⟩
    · left
      rw [Store.get_put]
      by_cases hk : e.1 = k
      · simp only [hk, if_true]
        have := hdonor e (by simp)
        rw [hk, hr] at this
        exact this.symm ▸ rfl
      · simp only [hk, if_false]; exact h
    · rcases List.mem_cons.mp hm with rfl | hm
      · left
        rw [Store.get_put]
        simp only [if_true]
        have := hdonor (k, r) (by simp)
        simp only at this
        rw [hr] at this
        exact this.symm ▸ rfl
      · right; exact ⟨r, hm⟩



/-! ### The partial tree as unfolding of a store -/

/-- the keys a decoded node refers to -/
def childKeys : Body → List Bytes
  | .full ch _ => ch.filterMap id
  | .ext _ k => [k]
  | _ => []

/-- `k'` is reachable from `k` through nodes that the store holds (each step: a present, decodable node refers to the
    next key) -/
inductive Reach (get : Bytes → Option Bytes) : Bytes → Bytes → Prop where
  | refl (k : Bytes) : Reach get k k
  | step (k ck k' bs : Bytes) (r : Repr) : get k = some bs → decode bs = .ok r → ck ∈ childKeys r.body →
      Reach get ck k' → Reach get k k'

/-- `t` is the unfolding of the store from key `k` (the relation computed by `buildP` with enough fuel) -/
inductive Unfolds (get : Bytes → Option Bytes) : Bytes → PTree → Prop where
  | missing (k : Bytes) : get k = none → Unfolds get k (.missing k)
  | leaf (k bs : Bytes) (v o : Nat) (pre p : Bytes) (val : Option Bytes) :
      get k = some bs → decode bs = .ok ⟨v, o, .leaf pre p val⟩ → Unfolds get k (.leaf p val)
  | full (k bs : Bytes) (v o : Nat) (ch : List (Option Bytes)) (val : Option Bytes) (pch : Nib → PTree) :
      get k = some bs → decode bs = .ok ⟨v, o, .full ch val⟩ →
      (∀ (i : Nib) (ck : Bytes), ch[i.val]? = some (some ck) → Unfolds get ck (pch i)) →
      (∀ (i : Nib), ch[i.val]? = some none → pch i = .empty) →
      Unfolds get k (.full pch val)
  | ext (k bs : Bytes) (v o : Nat) (p ck : Bytes) (c : PTree) :
      get k = some bs → decode bs = .ok ⟨v, o, .ext p ck⟩ → Unfolds get ck c → Unfolds get k (.ext p c)

theorem occurs_of_unfolds (get : Bytes → Option Bytes) (root : Bytes) (t : PTree) (h : Unfolds get root t) (k : Bytes) :
    Occurs k t ↔ (get k = none ∧ Reach get root k) := by
  induction h with
  | missing k0 hn =>
    constructor
    · intro ho; cases ho; exact ⟨hn, .refl _⟩
    · rintro ⟨hk, hr⟩
      cases hr with
      | refl => exact .here
      | step _ ck _ bs r hg => rw [hn] at hg; cases hg
  | leaf k0 bs v o pre p val hg hd =>
    constructor
    · intro ho; cases ho
    · rintro ⟨hk, hr⟩
      cases hr with
      | refl => rw [hg] at hk; cases hk
      | step _ ck _ bs' r hg' hd' hm =>
        rw [hg] at hg'; cases hg'
        rw [hd] at hd'; cases hd'
        simp [childKeys] at hm
  | full k0 bs v o ch val pch hg hd hch hemp ih =>
    have hl := decode_full_length bs v o ch val hd
    constructor
    · intro ho
      cases ho with
      | full _ _ i hi =>
        have hlt : i.val < ch.length := by rw [hl]; exact i.isLt
        cases hc : ch[i.val] with
        | none =>
          have : ch[i.val]? = some none := by rw [List.getElem?_eq_getElem hlt, hc]
          rw [hemp i this] at hi; cases hi
        | some ck =>
          have hq : ch[i.val]? = some (some ck) := by rw [List.getElem?_eq_getElem hlt, hc]
          obtain ⟨hn, hr⟩ := (ih i ck hq).mp hi
          refine ⟨hn, .step k0 ck k bs _ hg hd ?_ hr⟩
          simp only [childKeys, List.mem_filterMap, id]
          exact ⟨some ck, List.mem_of_getElem? hq, rfl⟩
    · rintro ⟨hk, hr⟩
      cases hr with
      | refl => rw [hg] at hk; cases hk
      | step _ ck _ bs' r hg' hd' hm hr' =>
        rw [hg] at hg'; cases hg'
        rw [hd] at hd'; cases hd'
        simp only [childKeys, List.mem_filterMap, id] at hm
        obtain ⟨x, hx, rfl⟩ := hm
        obtain ⟨j, hj, hjx⟩ := List.getElem_of_mem hx
        have hj16 : j < 16 := by omega
        have hq : ch[(⟨j, hj16⟩ : Nib).val]? = some (some ck) := by
          simp only [List.getElem?_eq_getElem hj, hjx]
        exact .full pch val ⟨j, hj16⟩ ((ih ⟨j, hj16⟩ ck hq).mpr ⟨hk, hr'⟩)
  | ext k0 bs v o p ck c hg hd hc ih =>
    constructor
    · intro ho
      cases ho with
      | ext _ _ hi =>
        obtain ⟨hn, hr⟩ := ih.mp hi
        exact ⟨hn, .step k0 ck k bs _ hg hd (by simp [childKeys]) hr⟩
    · rintro ⟨hk, hr⟩
      cases hr with
      | refl => rw [hg] at hk; cases hk
      | step _ ck' _ bs' r hg' hd' hm hr' =>
        rw [hg] at hg'; cases hg'
        rw [hd] at hd'; cases hd'
        simp only [childKeys, List.mem_singleton] at hm
        subst hm
        exact .ext p c (ih.mpr ⟨hk, hr'⟩)



/-! ### Fuel, and the unfolding of a complete store -/

def depth : PTree → Nat
  | .empty => 0
  | .missing _ => 0
  | .leaf _ _ => 0
  | .full ch _ => 1 + ((List.finRange 16).map (fun i => depth (ch i))).sum
  | .ext _ c => 1 + depth c

theorem le_sum_of_mem (l : List Nat) (a : Nat) (h : a ∈ l) : a ≤ l.sum := by
  induction l with
  | nil => cases h
  | cons b l ih =>
    rcases List.mem_cons.mp h with rfl | h
    · simp
    · have := ih h; simp; omega

/-- with enough fuel the executable `buildP` computes the unfolding -/
theorem buildP_complete (get : Bytes → Option Bytes) (k : Bytes) (t : PTree) (h : Unfolds get k t) :
    ∀ n, depth t < n → buildP get n k = t := by
  induction h with
  | missing k0 hn =>
    intro n _
    cases n with
    | zero => rfl
    | succ n => simp [buildP, hn]
  | leaf k0 bs v o pre p val hg hd =>
    intro n hn
    cases n with
    | zero => simp [depth] at hn
    | succ n => simp [buildP, hg, hd]
  | full k0 bs v o ch val pch hg hd hch hemp ih =>
    intro n hn
    have hl := decode_full_length bs v o ch val hd
    cases n with
    | zero => simp [depth] at hn
    | succ n =>
      simp only [buildP, hg, hd]
      congr 1
      funext i
      have hlt : i.val < ch.length := by rw [hl]; exact i.isLt
      have hdi : depth (pch i) < n := by
        have := le_sum_of_mem ((List.finRange 16).map (fun i => depth (pch i))) (depth (pch i))
          (List.mem_map.mpr ⟨i, List.mem_finRange i, rfl⟩)
        simp only [depth] at hn
        omega
      cases hc : ch[i.val] with
      | none =>
        have hq : ch[i.val]? = some none := by rw [List.getElem?_eq_getElem hlt, hc]
        simp only [hq, hemp i hq]
      | some ck =>
        have hq : ch[i.val]? = some (some ck) := by rw [List.getElem?_eq_getElem hlt, hc]
        simp only [hq]
        exact ih i ck hq n hdi
  | ext k0 bs v o p ck c hg hd hc ih =>
    intro n hn
    cases n with
    | zero => simp [depth] at hn
    | succ n =>
      simp only [buildP, hg, hd]
      congr 1
      exact ih n (by simp only [depth] at hn; omega)

/-- the partial tree of a complete store: the structural trie itself, without missing nodes -/
def toP : Node → PTree
  | .empty => .empty
  | .leaf _ lp lv => .leaf (lp.map nibChar) (if lv = [] then none else some lv)
  | .full _ ch val => .full (fun i => toP (ch i)) (match val with | some b => if b = [] then none else some b | none => none)
  | .ext _ ep c => .ext (ep.map nibChar) (toP c)

theorem finRange_getElem? (i : Fin 16) : (List.finRange 16)[i.val]? = some i := by simp

theorem not_occurs_toP (k : Bytes) (t : Node) : ¬ Occurs k (toP t) := by
  induction t with
  | empty => intro h; cases h
  | leaf o lp lv => intro h; cases h
  | full o ch val ih => intro h; cases h with | full _ _ i hi => exact ih i hi
  | ext o ep c ih => intro h; cases h with | ext _ _ hi => exact ih hi

theorem resolves_child_full (H : Bytes → Bytes) (get : Bytes → Option Bytes) (o : Nat) (ch : Nib → Node)
    (val : Option Bytes) (pre : List Nib) (h : Resolves H get (.full o ch val) pre) (i : Nib) :
    Resolves H get (ch i) (pre ++ [i]) := by
  intro e he
  apply h
  simp only [nodesOf, List.mem_cons, List.mem_flatMap]
  exact Or.inr ⟨i, List.mem_finRange i, he⟩

theorem resolves_child_ext (H : Bytes → Bytes) (get : Bytes → Option Bytes) (o : Nat) (ep : List Nib) (c : Node)
    (pre : List Nib) (h : Resolves H get (.ext o ep c) pre) : Resolves H get c (pre ++ ep) := by
  intro e he
  apply h
  simp only [nodesOf, List.mem_cons]
  exact Or.inr he

/-- a store that holds every node of the trie `t` unfolds, from the key of `t`, to `t` itself -/
theorem unfolds_of_resolves (H : Bytes → Bytes) (hH : ∀ b, (H b).length = 32) (get : Bytes → Option Bytes)
    (t : Node) (pre : List Nib) (hw : WFn t) (h : Resolves H get t pre) :
    Unfolds get (key H t pre) (toP t) := by
  induction t generalizing pre with
  | empty => simp [WFn] at hw
  | leaf o lp lv =>
    have hg := h (key H (.leaf o lp lv) pre, reprOf H (.leaf o lp lv) pre) (by simp [nodesOf])
    have hd := decode_encode _ (reprOf_wf H hH (.leaf o lp lv) pre)
    simp only [reprOf] at hd hg
    exact .leaf _ _ _ _ _ _ _ hg hd
  | full o ch val ih =>
    have hg := h (key H (.full o ch val) pre, reprOf H (.full o ch val) pre) (by simp [nodesOf])
    have hd := decode_encode _ (reprOf_wf H hH (.full o ch val) pre)
    simp only [reprOf] at hd hg
    refine .full _ _ _ _ _ _ (fun i => toP (ch i)) hg hd ?_ ?_
    · intro i ck hq
      simp only [List.getElem?_map, finRange_getElem?, Option.map_some] at hq
      by_cases he : (ch i).isEmpty = true
      · simp [he] at hq
      · simp [he] at hq
        rw [← hq]
        have hwi : WFn (ch i) := by
          rcases hw.1 i with h1 | h1
          · exact absurd h1 he
          · exact h1
        exact ih i (pre ++ [i]) hwi (resolves_child_full H get o ch val pre h i)
    · intro i hq
      simp only [List.getElem?_map, finRange_getElem?, Option.map_some] at hq
      by_cases he : (ch i).isEmpty = true
      · cases hc : ch i <;> simp_all [Node.isEmpty, toP]
      · simp [he] at hq
  | ext o ep c ih =>
    have hg := h (key H (.ext o ep c) pre, reprOf H (.ext o ep c) pre) (by simp [nodesOf])
    have hd := decode_encode _ (reprOf_wf H hH (.ext o ep c) pre)
    simp only [reprOf] at hd hg
    exact .ext _ _ _ _ _ _ _ hg hd (ih (pre ++ ep) hw.2.2 (resolves_child_ext H get o ep c pre h))



/-! ### Lookups in the unfolding of a complete store -/

theorem nibChar_injective : ∀ a b : Nib, nibChar a = nibChar b → a = b := by decide

theorem map_nibChar_inj (p q : List Nib) : p.map nibChar = q.map nibChar ↔ p = q := by
  constructor
  · intro h
    induction p generalizing q with
    | nil => cases q <;> simp_all
    | cons a p ih =>
      cases q with
      | nil => simp at h
      | cons b q =>
        simp only [List.map_cons, List.cons.injEq] at h
        rw [nibChar_injective a b h.1, ih q h.2]
  · intro h; rw [h]

theorem nibOf_nibChar : ∀ x : Nib, nibOf (nibChar x) = some x := by decide

theorem toP_isEmpty (t : Node) : (toP t).isEmpty = t.isEmpty := by cases t <;> rfl

/-- `splitCommon` vs `matchLen` on the character paths -/
theorem splitCommon_matchLen (p q : List Nib) :
    matchLen (p.map nibChar) (q.map nibChar) = (splitCommon p q).1.length ∧
    p = (splitCommon p q).1 ++ (splitCommon p q).2.1 ∧ q = (splitCommon p q).1 ++ (splitCommon p q).2.2 := by
  induction p generalizing q with
  | nil => cases q <;> simp [splitCommon, matchLen]
  | cons a p ih =>
    cases q with
    | nil => simp [splitCommon, matchLen]
    | cons b q =>
      by_cases hab : a = b
      · subst hab
        obtain ⟨h1, h2, h3⟩ := ih q
        simp only [splitCommon, List.map_cons, matchLen, if_true, List.length_cons, List.cons_append]
        exact ⟨by rw [h1], by rw [← h2], by rw [← h3]⟩
      · have hc : nibChar a ≠ nibChar b := fun h => hab (nibChar_injective a b h)
        simp [splitCommon, matchLen, hab, hc]

def ofOpt : Option Bytes → LRes
  | some b => .ok b
  | none => .notPresent

theorem valRes_ifEmpty (lv : Bytes) : valRes (if lv = [] then none else some lv) = ofOpt (if lv = [] then none else some lv) := by
  by_cases h : lv = [] <;> simp [h, valRes, ofOpt]

/-- lookups in the unfolding of a complete store are the lookups of the structural trie -/
theorem lookupP_toP (t : Node) (p : List Nib) : lookupP (toP t) (p.map nibChar) = ofOpt (lookup t p) := by
  induction t generalizing p with
  | empty => simp [toP, lookupP, lookup, ofOpt]
  | leaf o lp lv =>
    simp only [toP, lookupP, lookup, map_nibChar_inj]
    by_cases h : p = lp
    · subst h; simp only [if_true]; exact valRes_ifEmpty lv
    · have h' : ¬ lp = p := fun e => h e.symm
      simp [h, h', ofOpt]
  | full o ch val ih =>
    cases p with
    | nil =>
      simp only [toP, List.map_nil, lookupP, lookup]
      cases val with
      | none => simp [valRes, ofOpt]
      | some b => by_cases hb : b = [] <;> simp [hb, valRes, ofOpt]
    | cons x pr =>
      simp only [toP, List.map_cons, lookupP, lookup, nibOf_nibChar, toP_isEmpty]
      by_cases he : (ch x).isEmpty = true
      · cases hc : ch x <;> simp_all [Node.isEmpty, lookup, ofOpt]
      · simp only [he]
        exact ih x pr
  | ext o ep c ih =>
    obtain ⟨h1, h2, h3⟩ := splitCommon_matchLen p ep
    simp only [toP, lookupP, lookup, h1, List.length_map]
    rcases hs : splitCommon p ep with ⟨cm, p', e'⟩
    rw [hs] at h1 h2 h3
    simp only at h1 h2 h3 ⊢
    cases e' with
    | nil =>
      simp only [List.append_nil] at h3
      subst h3
      by_cases hep : ep = []
      · subst hep; simp [ofOpt]
      · have h0 : ¬ (ep.length = 0) := by simpa using hep
        simp only [h0, if_false, if_true, hep]
        rw [← ih p']
        congr 1
        rw [h2]
        simp
    | cons y e'' =>
      have hlen : cm.length < ep.length := by rw [h3]; simp
      have hne : ¬ (cm.length = ep.length) := by omega
      by_cases h0 : cm.length = 0 <;> simp [h0, hne, ofOpt]



/-! ### which error value `iterate` returns -/

/-- the first node that is not an extension, going down from the root, is missing: the root itself is absent, or it is
    reached from the root through extensions only -/
inductive SpineMissing : PTree → Prop where
  | here (k : Bytes) : SpineMissing (.missing k)
  | ext (p : Bytes) (c : PTree) : SpineMissing c → SpineMissing (.ext p c)

theorem spineMissing_occurs (t : PTree) (h : SpineMissing t) : ∃ k, Occurs k t := by
  induction h with
  | here k => exact ⟨k, .here⟩
  | ext p c _ ih => obtain ⟨k, hk⟩ := ih; exact ⟨k, .ext p c hk⟩

theorem iterErr_values (m : IterErr) (t : PTree) : iterErr m t = .none ∨ iterErr m t = m ∨ iterErr m t = .iterChild := by
  induction t with
  | empty => simp [iterErr]
  | missing k => simp [iterErr]
  | leaf p v => simp [iterErr]
  | full ch v ih => simp only [iterErr]; split <;> simp
  | ext p c ih => simpa [iterErr] using ih

theorem iterErr_spine (m : IterErr) (hm : m ≠ .none) (hm2 : m ≠ .iterChild) (t : PTree) :
    iterErr m t = m ↔ SpineMissing t := by
  induction t with
  | empty => simp [iterErr]; exact ⟨fun h => absurd h.symm hm, fun h => by cases h⟩
  | missing k => simp [iterErr]; exact .here k
  | leaf p v => simp [iterErr]; exact ⟨fun h => absurd h.symm hm, fun h => by cases h⟩
  | full ch v ih =>
    simp only [iterErr]
    constructor
    · intro h
      split at h
      · exact absurd h.symm hm2
      · exact absurd h.symm hm
    · intro h; cases h
  | ext p c ih =>
    simp only [iterErr]
    rw [ih]
    exact ⟨fun h => .ext p c h, fun h => by cases h with | ext _ _ h => exact h⟩



/-! ### donors that hold more than the trie; the API function GetAllMissingNodes -/

/-- `mergeDB` with a donor that may hold ANYTHING under keys the reference store does not use, and agrees with it on the
    keys it does use -/
theorem mergeDB_get_superset (v : Nat) (ref : Bytes → Option Bytes) (donor : List (Bytes × Repr)) (s : Store)
    (hsub : ∀ k b b', ref k = some b → s.get k = some b' → b' = b)
    (hdonor : ∀ e ∈ donor, ∀ b, ref e.1 = some b → encode e.2 = b) :
    ∀ k b, ref k = some b → (s.get k = some b ∨ ∃ r, (k, r) ∈ donor) → (mergeDB v s donor).get k = some b := by
  induction donor generalizing s with
  | nil =>
    intro k b hr h
    rcases h with h | ⟨r, hm⟩
    · simpa [mergeDB] using h
    · cases hm
  | cons e donor ih =>
    have hsub' : ∀ k b b', ref k = some b → (s.put e.1 (encode e.2)).get k = some b' → b' = b := by
      intro k b b' hr h
      rw [Store.get_put] at h
      by_cases hk : e.1 = k
      · simp only [hk, if_true, Option.some.injEq] at h
        rw [← h]; exact hdonor e (by simp) b (hk ▸ hr)
      · simp only [hk, if_false] at h; exact hsub k b b' hr h
    have hd' : ∀ e' ∈ donor, ∀ b, ref e'.1 = some b → encode e'.2 = b :=
      fun e' h => hdonor e' (List.mem_cons_of_mem _ h)
    intro k b hr h
    rw [mergeDB_cons]
    apply ih _ hsub' hd' k b hr
    rcases h with h | ⟨r, hm⟩
    · left
      rw [Store.get_put]
      by_cases hk : e.1 = k
      · simp only [hk, if_true]
        rw [hdonor e (by simp) b (hk ▸ hr)]
      · simp only [hk, if_false]; exact h
    · rcases List.mem_cons.mp hm with rfl | hm
      · left
        rw [Store.get_put]
        simp only [if_true]
        rw [hdonor (k, r) (by simp) b hr]
      · right; exact ⟨r, hm⟩

theorem getAllMissing_of_unfolds (get : Bytes → Option Bytes) (root : Bytes) (pt : PTree) (h : Unfolds get root pt) :
    (get root = none → getAllMissing pt = none) ∧
    (get root ≠ none → getAllMissing pt = some (allMissing pt)) := by
  cases h with
  | missing k hn => exact ⟨fun _ => rfl, fun hne => absurd hn hne⟩
  | leaf k bs v o pre p val hg hd => exact ⟨fun hn => absurd (hg.symm.trans hn) (by simp), fun _ => rfl⟩
  | full k bs v o ch val pch hg hd h1 h2 => exact ⟨fun hn => absurd (hg.symm.trans hn) (by simp), fun _ => rfl⟩
  | ext k bs v o p ck c hg hd hc => exact ⟨fun hn => absurd (hg.symm.trans hn) (by simp), fun _ => rfl⟩



/-! ### re-computing the root from the decoded store -/

/-- re-derive the key of the node stored under `k` bottom-up from the DECODED store contents: every child key is
    replaced by the key recomputed for that child, then the node is hashed (what a reader that trusts nothing but the
    bytes does; `none` = a node is absent / undecodable / fuel exhausted) -/
def recomputeKey (H : Bytes → Bytes) (get : Bytes → Option Bytes) : Nat → Bytes → Option Bytes
  | 0, _ => none
  | n + 1, k =>
    match get k with
    | none => none
    | some bs =>
      match decode bs with
      | .ok ⟨v, o, .leaf p q val⟩ => some (H (hashBytes ⟨v, o, .leaf p q val⟩))
      | .ok ⟨v, o, .full ch val⟩ =>
        (ch.mapM (fun c => match c with
          | none => some none
          | some ck => (recomputeKey H get n ck).map some)).map (fun ch' => H (hashBytes ⟨v, o, .full ch' val⟩))
      | .ok ⟨v, o, .ext p ck⟩ => (recomputeKey H get n ck).map (fun k' => H (hashBytes ⟨v, o, .ext p k'⟩))
      | _ => none

theorem mapM_some_self {α : Type} (l : List α) (f : α → Option α) (h : ∀ a ∈ l, f a = some a) : l.mapM f = some l := by
  induction l with
  | nil => rfl
  | cons a l ih =>
    simp [List.mapM_cons, h a (by simp), ih (fun b hb => h b (List.mem_cons_of_mem _ hb))]

theorem depth_toP_child_full (o : Nat) (ch : Nib → Node) (val : Option Bytes) (i : Nib) :
    depth (toP (ch i)) < depth (toP (.full o ch val)) := by
  simp only [toP, depth]
  have := le_sum_of_mem ((List.finRange 16).map (fun j => depth (toP (ch j)))) (depth (toP (ch i)))
    (List.mem_map.mpr ⟨i, List.mem_finRange i, rfl⟩)
  omega

/-- a store that holds every node of the canonical trie `t` re-computes, from the decoded bytes alone, to the key it
    was saved under -/
theorem recomputeKey_of_resolves (H : Bytes → Bytes) (hH : ∀ b, (H b).length = 32) (get : Bytes → Option Bytes)
    (t : Node) (pre : List Nib) (hw : WFn t) (h : Resolves H get t pre) :
    ∀ n, depth (toP t) < n → recomputeKey H get n (key H t pre) = some (key H t pre) := by
  induction t generalizing pre with
  | empty => simp [WFn] at hw
  | leaf o lp lv =>
    intro n hn
    cases n with
    | zero => simp at hn
    | succ n =>
      have hg := h (key H (.leaf o lp lv) pre, reprOf H (.leaf o lp lv) pre) (by simp [nodesOf])
      have hd := decode_encode _ (reprOf_wf H hH (.leaf o lp lv) pre)
      have hk := key_eq_hash_reprOf H (.leaf o lp lv) pre rfl
      simp only [reprOf] at hd hg hk
      simp only [recomputeKey, hg, hd]
      rw [hk]
  | full o ch val ih =>
    intro n hn
    cases n with
    | zero => simp at hn
    | succ n =>
      have hg := h (key H (.full o ch val) pre, reprOf H (.full o ch val) pre) (by simp [nodesOf])
      have hd := decode_encode _ (reprOf_wf H hH (.full o ch val) pre)
      have hk := key_eq_hash_reprOf H (.full o ch val) pre rfl
      simp only [reprOf] at hd hg hk
      simp only [recomputeKey, hg, hd]
      rw [mapM_some_self]
      · simp only [Option.map_some]; rw [hk]
      · intro c hc
        obtain ⟨i, _, rfl⟩ := List.mem_map.mp hc
        by_cases he : (ch i).isEmpty = true
        · simp [he]
        · simp only [he, Bool.false_eq_true, if_false]
          have hwi : WFn (ch i) := by
            rcases hw.1 i with h1 | h1
            · exact absurd h1 he
            · exact h1
          have hdi := depth_toP_child_full o ch val i
          rw [ih i (pre ++ [i]) hwi (resolves_child_full H get o ch val pre h i) n (by omega)]
          rfl
  | ext o ep c ih =>
    intro n hn
    cases n with
    | zero => simp at hn
    | succ n =>
      have hg := h (key H (.ext o ep c) pre, reprOf H (.ext o ep c) pre) (by simp [nodesOf])
      have hd := decode_encode _ (reprOf_wf H hH (.ext o ep c) pre)
      have hk := key_eq_hash_reprOf H (.ext o ep c) pre rfl
      simp only [reprOf] at hd hg hk
      simp only [recomputeKey, hg, hd]
      rw [ih (pre ++ ep) hw.2.2 (resolves_child_ext H get o ep c pre h) n (by simp only [toP, depth] at hn; omega)]
      simp only [Option.map_some]; rw [hk]


end Verif.Partial
