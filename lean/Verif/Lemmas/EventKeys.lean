/-
Transfer of the reference-level event discipline (`Lemmas/EventDisc`) to node keys, i.e. to what the change collector
sees, under injectivity of the key on the references that are ever live (`KeyInjOn`).
-/
import Verif.Lemmas.EventDisc
import Verif.Lemmas.MptStoreTrie
namespace Verif.MptStore
open Verif.Mpt Collector

/-- equal key ⇒ equal (position, subtree), on the set `U` of references -/
def KeyInjOn (H : Bytes → Bytes) (U : Ref → Prop) : Prop := ∀ a b, U a → U b → a.key H = b.key H → a = b

/-- the keys of a set of references -/
def keyImg (H : Bytes → Bytes) (L : Ref → Prop) : Bytes → Prop := fun x => ∃ r, L r ∧ r.key H = x

theorem eventRefs_cons_sub (e : Event) (es : List Event) (r : Ref) (h : r ∈ eventRefs es) : r ∈ eventRefs (e :: es) := by
  cases e with
  | del o => simp [eventRefs, h]
  | put o n => cases o <;> simp [eventRefs, h]

theorem disc_keys (H : Bytes → Bytes) (U : Ref → Prop) (hU : KeyInjOn H U) :
    ∀ (es : List Event) (L : Ref → Prop) (LK : Bytes → Prop), (∀ x, LK x ↔ keyImg H L x) → (∀ r, L r → U r) →
      (∀ r ∈ eventRefs es, U r) → DiscR L es →
      Disc (Ref.key H) LK (callsOf H es) ∧
      ∀ x, liveRun (Ref.key H) LK (callsOf H es) x ↔ keyImg H (liveRunR L es) x := by
  intro es
  induction es with
  | nil => intro L LK hLK _ _ _; exact ⟨trivial, hLK⟩
  | cons e es ih =>
    intro L LK hLK hLU hEU hd
    have hEU' : ∀ r ∈ eventRefs es, U r := fun r hr => hEU r (eventRefs_cons_sub e es r hr)
    obtain ⟨hok, hd'⟩ := hd
    cases e with
    | del o =>
      have hoU : U o := hEU o (by simp [eventRefs])
      have hstep : ∀ x, liveStep (Ref.key H) LK (.del o) x ↔ keyImg H (liveR L (.del o)) x := by
        intro x
        simp only [liveStep, liveR, keyImg, hLK x]
        constructor
        · rintro ⟨⟨r, hr, rfl⟩, hne⟩
          exact ⟨r, ⟨hr, fun e => hne (by rw [e])⟩, rfl⟩
        · rintro ⟨r, ⟨hr, hne⟩, rfl⟩
          exact ⟨⟨r, hr, rfl⟩, fun e => hne (hU r o (hLU r hr) hoU e)⟩
      have := ih (liveR L (.del o)) _ hstep (fun r hr => hLU r hr.1) hEU' hd'
      simpa [callsOf, callOf, Disc, CallOk, liveRun, liveRunR] using this
    | put o n =>
      have hnU : U n := hEU n (by cases o <;> simp [eventRefs])
      cases o with
      | none =>
        have hstep : ∀ x, liveStep (Ref.key H) LK (.add none n) x ↔ keyImg H (liveR L (.put none n)) x := by
          intro x
          simp only [liveStep, liveR, keyImg, hLK x]
          constructor
          · rintro (rfl | ⟨r, hr, rfl⟩)
            · exact ⟨n, Or.inl rfl, rfl⟩
            · exact ⟨r, Or.inr hr, rfl⟩
          · rintro ⟨r, (rfl | hr), rfl⟩
            · exact Or.inl rfl
            · exact Or.inr ⟨r, hr, rfl⟩
        have := ih (liveR L (.put none n)) _ hstep
          (fun r hr => hr.elim (fun e => e ▸ hnU) (hLU r)) hEU' hd'
        simpa [callsOf, callOf, Disc, CallOk, liveRun, liveRunR] using this
      | some o =>
        have hoU : U o := hEU o (by simp [eventRefs])
        have hLo : L o := hok
        by_cases hk : o.key H = n.key H
        · -- `insertNode` skips the collector: old and new are the same node
          have hon : o = n := hU o n hoU hnU hk
          have hsame : ∀ x, LK x ↔ keyImg H (liveR L (.put (some o) n)) x := by
            intro x
            rw [hLK x]
            simp only [keyImg, liveR]
            constructor
            · rintro ⟨r, hr, rfl⟩
              by_cases e : r = o
              · exact ⟨r, Or.inl (e.trans hon), rfl⟩
              · exact ⟨r, Or.inr ⟨hr, e⟩, rfl⟩
            · rintro ⟨r, (e | ⟨hr, _⟩), rfl⟩
              · exact ⟨r, by rw [e, ← hon]; exact hLo, rfl⟩
              · exact ⟨r, hr, rfl⟩
          have := ih (liveR L (.put (some o) n)) LK hsame
            (fun r hr => hr.elim (fun e => e ▸ hnU) (fun h => hLU r h.1)) hEU' hd'
          simpa [callsOf, callOf, hk, liveRunR] using this
        · have hstep : ∀ x, liveStep (Ref.key H) LK (.add (some o) n) x ↔ keyImg H (liveR L (.put (some o) n)) x := by
            intro x
            simp only [liveStep, liveR, keyImg, hLK x]
            constructor
            · rintro (rfl | ⟨⟨r, hr, rfl⟩, hne⟩)
              · exact ⟨n, Or.inl rfl, rfl⟩
              · exact ⟨r, Or.inr ⟨hr, fun e => hne (by rw [e])⟩, rfl⟩
            · rintro ⟨r, (rfl | ⟨hr, hne⟩), rfl⟩
              · exact Or.inl rfl
              · exact Or.inr ⟨⟨r, hr, rfl⟩, fun e => hne (hU r o (hLU r hr) hoU e)⟩
          have := ih (liveR L (.put (some o) n)) _ hstep
            (fun r hr => hr.elim (fun e => e ▸ hnU) (fun h => hLU r h.1)) hEU' hd'
          have hcall : CallOk (Ref.key H) LK (.add (some o) n) := ⟨(hLK _).mpr ⟨o, hLo, rfl⟩, hk⟩
          simpa [callsOf, callOf, hk, Disc, hcall, liveRun, liveRunR] using this

end Verif.MptStore
