import Mathlib.Tactic.Linarith
import Mathlib.Tactic.Positivity
import Mathlib.Tactic.FieldSimp
import Mathlib.Tactic.Ring
import Mathlib.Tactic.NormNum
import Mathlib.Algebra.Order.Field.Power
import Mathlib.Data.Rat.Cast.Order
import Verif.Model.F64
/-! Correctness of the rounding of `Verif/Model/F64.lean` as statements about rationals: `expOf` finds the binade,
`roundQ` is round-half-even, the rounded magnitude depends only on the value `n/d`, and two positive rationals that
round to the same normal binary64 are within `2^-53` (relative) of each other. Used by `zcn_roundtrip` (C18). -/
namespace Verif.Lemmas.Round
open Verif.F64

/-- `n/d · 2^(-e)` -/
def T (n d : ℕ) (e : ℤ) : ℚ := (n : ℚ) / d * (2 : ℚ) ^ (-e)

theorem scale_val (n d : ℕ) (hd : 0 < d) (e : ℤ) :
    ((scale n d e).1 : ℚ) / ((scale n d e).2 : ℚ) = T n d e := by
  have hd' : (d : ℚ) ≠ 0 := by positivity
  unfold scale T
  split
  · rename_i h
    obtain ⟨k, rfl⟩ := Int.eq_ofNat_of_zero_le h
    simp only [Int.toNat_natCast, Nat.cast_mul, Nat.cast_pow, Nat.cast_ofNat, zpow_neg, zpow_natCast]
    field_simp
  · rename_i h
    obtain ⟨k, hk⟩ : ∃ k : ℕ, -e = (k : ℤ) := ⟨(-e).toNat, by omega⟩
    rw [hk]
    simp only [Int.toNat_natCast, Nat.cast_mul, Nat.cast_pow, Nat.cast_ofNat, zpow_natCast]
    field_simp

theorem scale_snd_pos (n d : ℕ) (hd : 0 < d) (e : ℤ) : 0 < (scale n d e).2 := by
  unfold scale; split <;> simp <;> positivity

theorem T_pred (n d : ℕ) (e : ℤ) : T n d (e - 1) = 2 * T n d e := by
  unfold T
  rw [show -(e - 1) = -e + 1 by ring, zpow_add₀ (by norm_num : (2:ℚ) ≠ 0)]
  ring

theorem T_pos (n d : ℕ) (hn : 0 < n) (hd : 0 < d) (e : ℤ) : 0 < T n d e := by
  unfold T; positivity

theorem T_anti (n d : ℕ) (hn : 0 < n) (hd : 0 < d) (e e' : ℤ) (h : e < e') : 2 * T n d e' ≤ T n d e := by
  unfold T
  have h2 : (2:ℚ) ^ (-e') * 2 ≤ (2:ℚ) ^ (-e) := by
    rw [← zpow_add_one₀ (by norm_num : (2:ℚ) ≠ 0)]
    exact zpow_le_zpow_right₀ (by norm_num) (by omega)
  have hq : (0:ℚ) < (n:ℚ)/d := by positivity
  nlinarith

theorem log2_bounds (n : ℕ) (hn : 0 < n) : ((2:ℚ) ^ (Nat.log2 n) ≤ n) ∧ ((n:ℚ) < 2 ^ (Nat.log2 n + 1)) := by
  constructor
  · exact_mod_cast Nat.log2_self_le (by omega)
  · exact_mod_cast Nat.lt_log2_self

/-- Nat quotient test of `expOf` as a statement about the rational -/
theorem div_lt_iff_T (n d : ℕ) (hd : 0 < d) (e : ℤ) (k : ℕ) :
    (scale n d e).1 / (scale n d e).2 < k ↔ T n d e < k := by
  have hp := scale_snd_pos n d hd e
  rw [Nat.div_lt_iff_lt_mul hp, ← scale_val n d hd e, div_lt_iff₀ (by exact_mod_cast hp)]
  exact_mod_cast Iff.rfl

theorem T_e1 (n d : ℕ) (hn : 0 < n) (hd : 0 < d) :
    (2:ℚ)^51 < T n d ((Nat.log2 n : ℤ) - (Nat.log2 d : ℤ) - 52) ∧
    T n d ((Nat.log2 n : ℤ) - (Nat.log2 d : ℤ) - 52) < 2^53 := by
  obtain ⟨hn1, hn2⟩ := log2_bounds n hn
  obtain ⟨hd1, hd2⟩ := log2_bounds d hd
  have hz : (2:ℚ) ^ (-((Nat.log2 n : ℤ) - (Nat.log2 d : ℤ) - 52)) = 2^52 * 2^(Nat.log2 d) / 2^(Nat.log2 n) := by
    rw [show -((Nat.log2 n : ℤ) - (Nat.log2 d : ℤ) - 52) = ((52:ℕ):ℤ) + (Nat.log2 d : ℤ) - (Nat.log2 n : ℤ) by push_cast; ring,
      zpow_sub₀ (by norm_num), zpow_add₀ (by norm_num), zpow_natCast, zpow_natCast, zpow_natCast]
  unfold T
  rw [hz]
  rw [pow_succ] at hn2 hd2
  set X : ℚ := 2 ^ Nat.log2 n with hX
  set Y : ℚ := 2 ^ Nat.log2 d with hY
  have hXp : 0 < X := by positivity
  have hYp : 0 < Y := by positivity
  have hdp : (0:ℚ) < d := by positivity
  have hnp : (0:ℚ) < n := by positivity
  rw [div_mul_div_comm]
  constructor
  · rw [lt_div_iff₀ (by positivity)]
    nlinarith [mul_pos hdp hXp, mul_pos hnp hYp]
  · rw [div_lt_iff₀ (by positivity)]
    nlinarith [mul_pos hdp hXp, mul_pos hnp hYp]

theorem expOf_spec (n d : ℕ) (hn : 0 < n) (hd : 0 < d) :
    T n d (expOf n d) < 2^53 ∧ (expOf n d = -1074 ∨ (2:ℚ)^52 ≤ T n d (expOf n d)) ∧ -1074 ≤ expOf n d := by
  obtain ⟨hlo, hhi⟩ := T_e1 n d hn hd
  unfold expOf
  simp only []
  set e1 : ℤ := (Nat.log2 n : ℤ) - (Nat.log2 d : ℤ) - 52 with he1
  have hcond := div_lt_iff_T n d hd e1 (2^52)
  -- e2 satisfies both bounds
  have key : ∀ e2 : ℤ, (e2 = if (scale n d e1).1 / (scale n d e1).2 < 2 ^ 52 then e1 - 1 else e1) →
      T n d e2 < 2^53 ∧ (2:ℚ)^52 ≤ T n d e2 := by
    intro e2 h2
    by_cases hc : (scale n d e1).1 / (scale n d e1).2 < 2 ^ 52
    · rw [if_pos hc] at h2
      have := hcond.mp hc
      push_cast at this
      rw [h2, T_pred]
      constructor <;> linarith
    · rw [if_neg hc] at h2
      have : ¬ (T n d e1 < ((2^52 : ℕ) : ℚ)) := fun h => hc (hcond.mpr h)
      push_cast at this
      rw [h2]
      constructor <;> linarith
  obtain ⟨k1, k2⟩ := key _ rfl
  set e2 : ℤ := if (scale n d e1).1 / (scale n d e1).2 < 2 ^ 52 then e1 - 1 else e1 with he2
  by_cases hge : -1074 ≤ e2
  · rw [max_eq_left hge]
    exact ⟨k1, Or.inr k2, hge⟩
  · have hlt : e2 < -1074 := by omega
    rw [max_eq_right (by omega)]
    refine ⟨?_, Or.inl rfl, le_refl _⟩
    have := T_anti n d hn hd e2 (-1074) hlt
    have hp := T_pos n d hn hd (-1074)
    linarith

/-- `roundQ` is round-half-even of the rational `n2/d2` -/
theorem roundQ_spec (n2 d2 : ℕ) (hd : 0 < d2) :
    (|(roundQ n2 d2 : ℚ) - (n2:ℚ)/d2| < 1/2) ∨
    (|(roundQ n2 d2 : ℚ) - (n2:ℚ)/d2| = 1/2 ∧ roundQ n2 d2 % 2 = 0) := by
  have hdq : (0:ℚ) < d2 := by positivity
  have hdiv := Nat.div_add_mod n2 d2
  have hr := Nat.mod_lt n2 hd
  set q := n2 / d2 with hq
  set r := n2 % d2 with hrdef
  have ht : (n2:ℚ)/d2 = q + (r:ℚ)/d2 := by
    rw [← hdiv]; push_cast; field_simp
  have hrq : (r:ℚ) < d2 := by exact_mod_cast hr
  have hr0 : (0:ℚ) ≤ r := by positivity
  unfold roundQ
  simp only []
  rw [← hq, ← hrdef, ht]
  by_cases h1 : d2 < 2 * r
  · rw [if_pos (Or.inl h1)]
    left
    have h1q : (d2:ℚ) < 2 * r := by exact_mod_cast h1
    have e : ((q + 1 : ℕ) : ℚ) - (q + (r:ℚ)/d2) = ((d2:ℚ) - r) / d2 := by push_cast; field_simp; ring
    rw [e, abs_of_nonneg (by apply div_nonneg <;> linarith), div_lt_iff₀ hdq]
    linarith
  · by_cases h2 : 2 * r = d2
    · have h2q : 2 * (r:ℚ) = d2 := by exact_mod_cast h2
      by_cases h3 : q % 2 = 1
      · rw [if_pos (Or.inr ⟨h2, h3⟩)]
        right
        have e : ((q + 1 : ℕ) : ℚ) - (q + (r:ℚ)/d2) = ((d2:ℚ) - r) / d2 := by push_cast; field_simp; ring
        refine ⟨?_, by omega⟩
        rw [e, abs_of_nonneg (by apply div_nonneg <;> linarith), div_eq_iff (ne_of_gt hdq)]
        linarith
      · rw [if_neg (by rintro (h | ⟨_, h⟩); exact h1 h; exact h3 h)]
        right
        have e : (q : ℚ) - (q + (r:ℚ)/d2) = -((r:ℚ) / d2) := by ring
        refine ⟨?_, by omega⟩
        rw [e, abs_neg, abs_of_nonneg (by positivity), div_eq_iff (ne_of_gt hdq)]
        linarith
    · rw [if_neg (by rintro (h | ⟨h, _⟩); exact h1 h; exact h2 h)]
      left
      have h4 : 2 * r < d2 := by omega
      have h4q : 2 * (r:ℚ) < d2 := by exact_mod_cast h4
      have e : (q : ℚ) - (q + (r:ℚ)/d2) = -((r:ℚ) / d2) := by ring
      rw [e, abs_neg, abs_of_nonneg (by positivity), div_lt_iff₀ hdq]
      linarith

theorem roundQ_abs_le (n2 d2 : ℕ) (hd : 0 < d2) : |(roundQ n2 d2 : ℚ) - (n2:ℚ)/d2| ≤ 1/2 := by
  rcases roundQ_spec n2 d2 hd with h | ⟨h, _⟩
  · exact le_of_lt h
  · exact le_of_eq h

/-- half-even rounding is unique -/
theorem halfEven_unique (t : ℚ) (a b : ℕ)
    (ha : |(a:ℚ) - t| < 1/2 ∨ (|(a:ℚ) - t| = 1/2 ∧ a % 2 = 0))
    (hb : |(b:ℚ) - t| < 1/2 ∨ (|(b:ℚ) - t| = 1/2 ∧ b % 2 = 0)) : a = b := by
  by_contra hne
  have hdiff : (1:ℚ) ≤ |(a:ℚ) - b| := by
    rcases Nat.lt_or_gt_of_ne hne with h | h
    · have : (a:ℚ) + 1 ≤ b := by exact_mod_cast h
      rw [abs_of_nonpos (by linarith)]; linarith
    · have : (b:ℚ) + 1 ≤ a := by exact_mod_cast h
      rw [abs_of_nonneg (by linarith)]; linarith
  have htri : |(a:ℚ) - b| ≤ |(a:ℚ) - t| + |(b:ℚ) - t| := by
    have := abs_sub_le (a:ℚ) t b
    rwa [abs_sub_comm t (b:ℚ)] at this
  rcases ha with ha | ⟨ha, hae⟩
  · rcases hb with hb | ⟨hb, _⟩ <;> linarith
  · rcases hb with hb | ⟨hb, hbe⟩
    · linarith
    · -- both ties: a and b differ by exactly one, cannot both be even
      have h1 : |(a:ℚ) - b| ≤ 1 := by linarith
      rcases Nat.lt_or_gt_of_ne hne with h | h
      · have h2 : (a:ℚ) + 1 ≤ b := by exact_mod_cast h
        rw [abs_of_nonpos (by linarith)] at h1
        have : (b:ℚ) ≤ a + 1 := by linarith
        have : b ≤ a + 1 := by exact_mod_cast this
        omega
      · have h2 : (b:ℚ) + 1 ≤ a := by exact_mod_cast h
        rw [abs_of_nonneg (by linarith)] at h1
        have : (a:ℚ) ≤ b + 1 := by linarith
        have : a ≤ b + 1 := by exact_mod_cast this
        omega

theorem T_congr (n d n' d' : ℕ) (h : (n:ℚ)/d = (n':ℚ)/d') (e : ℤ) : T n d e = T n' d' e := by
  unfold T; rw [h]

/-- the binade exponent is determined by the value -/
theorem expOf_congr (n d n' d' : ℕ) (hn : 0 < n) (hd : 0 < d) (hn' : 0 < n') (hd' : 0 < d')
    (h : (n:ℚ)/d = (n':ℚ)/d') : expOf n d = expOf n' d' := by
  obtain ⟨a1, b1, c1⟩ := expOf_spec n d hn hd
  obtain ⟨a2, b2, c2⟩ := expOf_spec n' d' hn' hd'
  rw [← T_congr n d n' d' h] at a2 b2
  rcases lt_trichotomy (expOf n d) (expOf n' d') with hlt | heq | hgt
  · exfalso
    have h52 : (2:ℚ)^52 ≤ T n d (expOf n' d') := by
      rcases b2 with b2 | b2
      · omega
      · exact b2
    have := T_anti n d hn hd _ _ hlt
    linarith
  · exact heq
  · exfalso
    have h52 : (2:ℚ)^52 ≤ T n d (expOf n d) := by
      rcases b1 with b1 | b1
      · omega
      · exact b1
    have := T_anti n d hn hd _ _ hgt
    linarith

/-- the rounded magnitude depends only on the value `n/d` -/
theorem magOf_congr (n d n' d' : ℕ) (hn : 0 < n) (hd : 0 < d) (hn' : 0 < n') (hd' : 0 < d')
    (h : (n:ℚ)/d = (n':ℚ)/d') : magOf n d = magOf n' d' := by
  have he := expOf_congr n d n' d' hn hd hn' hd' h
  unfold magOf
  rw [if_neg (by omega), if_neg (by omega)]
  simp only []
  rw [← he]
  have hq : roundQ (scale n d (expOf n d)).1 (scale n d (expOf n d)).2 =
      roundQ (scale n' d' (expOf n d)).1 (scale n' d' (expOf n d)).2 := by
    apply halfEven_unique (T n d (expOf n d))
    · have := roundQ_spec (scale n d (expOf n d)).1 _ (scale_snd_pos n d hd (expOf n d))
      rwa [scale_val n d hd] at this
    · have := roundQ_spec (scale n' d' (expOf n d)).1 _ (scale_snd_pos n' d' hd' (expOf n d))
      rwa [scale_val n' d' hd', ← T_congr n d n' d' h] at this
  rw [hq]

theorem infMag_val : infMag = 9218868437227405312 := by decide

/-- structure of an unclamped result -/
theorem magOf_struct (n d : ℕ) (hn : 0 < n) (hM : magOf n d < infMag) :
    magOf n d = (expOf n d + 1074).toNat * 2 ^ 52 +
      roundQ (scale n d (expOf n d)).1 (scale n d (expOf n d)).2 := by
  unfold magOf clampInf at hM ⊢
  rw [if_neg (by omega)] at hM ⊢
  simp only [] at hM ⊢
  split at hM
  · omega
  · rename_i hc; rw [if_neg hc]

/-- bounds on the rounded significand -/
theorem roundQ_bounds (n d : ℕ) (hn : 0 < n) (hd : 0 < d) :
    roundQ (scale n d (expOf n d)).1 (scale n d (expOf n d)).2 ≤ 2 ^ 53 ∧
    (expOf n d ≠ -1074 → 2 ^ 52 ≤ roundQ (scale n d (expOf n d)).1 (scale n d (expOf n d)).2) := by
  obtain ⟨a1, b1, c1⟩ := expOf_spec n d hn hd
  have habs := roundQ_abs_le (scale n d (expOf n d)).1 _ (scale_snd_pos n d hd (expOf n d))
  rw [scale_val n d hd] at habs
  rw [abs_le] at habs
  set Q := roundQ (scale n d (expOf n d)).1 (scale n d (expOf n d)).2
  constructor
  · have : (Q:ℚ) < 2^53 + 1 := by linarith
    have : Q < 2^53 + 1 := by exact_mod_cast this
    omega
  · intro hne
    have b : (2:ℚ)^52 ≤ T n d (expOf n d) := by
      rcases b1 with b1 | b1
      · exact absurd b1 hne
      · exact b1
    have : (2:ℚ)^52 < (Q:ℚ) + 1 := by linarith
    have : 2^52 < Q + 1 := by exact_mod_cast this
    omega

/-- a normal, finite rounded magnitude decomposes into exponent and significand with the usual error bounds -/
theorem magOf_normal (n d : ℕ) (hn : 0 < n) (hd : 0 < d) (hlo : 2 ^ 53 < magOf n d) (hhi : magOf n d < infMag) :
    ∃ (a Q : ℕ), magOf n d = a * 2 ^ 52 + Q ∧ 2 ^ 52 ≤ Q ∧ Q ≤ 2 ^ 53 ∧
      |(Q:ℚ) * (2:ℚ) ^ ((a:ℤ) - 1074) - (n:ℚ)/d| ≤ (2:ℚ) ^ ((a:ℤ) - 1074) / 2 ∧
      (2:ℚ) ^ 52 * (2:ℚ) ^ ((a:ℤ) - 1074) ≤ (n:ℚ)/d := by
  have hs := magOf_struct n d hn hhi
  obtain ⟨a1, b1, c1⟩ := expOf_spec n d hn hd
  obtain ⟨q1, q2⟩ := roundQ_bounds n d hn hd
  have habs := roundQ_abs_le (scale n d (expOf n d)).1 _ (scale_snd_pos n d hd (expOf n d))
  rw [scale_val n d hd] at habs
  set e := expOf n d with he
  set Q := roundQ (scale n d e).1 (scale n d e).2 with hQ
  have hne : e ≠ -1074 := by
    intro h
    rw [h] at hs
    simp at hs
    omega
  have hQlo := q2 hne
  have hT : (2:ℚ)^52 ≤ T n d e := by
    rcases b1 with b1 | b1
    · exact absurd b1 hne
    · exact b1
  refine ⟨(e + 1074).toNat, Q, hs, hQlo, q1, ?_, ?_⟩
  all_goals
    have hcast : (((e + 1074).toNat : ℕ) : ℤ) - 1074 = e := by omega
    rw [hcast]
    have hpos : (0:ℚ) < (2:ℚ)^e := by positivity
    have hmul : T n d e * (2:ℚ)^e = (n:ℚ)/d := by
      unfold T
      rw [mul_assoc, ← zpow_add₀ (by norm_num : (2:ℚ) ≠ 0)]
      simp
  · have : (Q:ℚ) * (2:ℚ)^e - (n:ℚ)/d = ((Q:ℚ) - T n d e) * (2:ℚ)^e := by rw [sub_mul, hmul]
    rw [this, abs_mul, abs_of_pos hpos]
    have := mul_le_mul_of_nonneg_right habs (le_of_lt hpos)
    linarith
  · rw [← hmul]
    exact mul_le_mul_of_nonneg_right hT (le_of_lt hpos)

/-- two positive rationals that round to the same normal binary64 are within `2^-53` (relative) of each other -/
theorem round_close (n d n' d' : ℕ) (hn : 0 < n) (hd : 0 < d) (hn' : 0 < n') (hd' : 0 < d')
    (h : magOf n d = magOf n' d') (hlo : 2 ^ 53 < magOf n d) (hhi : magOf n d < infMag) :
    |(n:ℚ)/d - (n':ℚ)/d'| * 2 ^ 53 ≤ (n:ℚ)/d + (n':ℚ)/d' := by
  obtain ⟨a, Q, hM, hQ1, hQ2, herr, hrel⟩ := magOf_normal n d hn hd hlo hhi
  obtain ⟨a', Q', hM', hQ1', hQ2', herr', hrel'⟩ := magOf_normal n' d' hn' hd' (h ▸ hlo) (h ▸ hhi)
  set q : ℚ := (n:ℚ)/d
  set q' : ℚ := (n':ℚ)/d'
  -- the two decompositions denote the same value
  have hV : (Q:ℚ) * (2:ℚ) ^ ((a:ℤ) - 1074) = (Q':ℚ) * (2:ℚ) ^ ((a':ℤ) - 1074) := by
    have hcases : (a = a' ∧ Q = Q') ∨ (a' = a + 1 ∧ Q = 2^53 ∧ Q' = 2^52) ∨ (a = a' + 1 ∧ Q' = 2^53 ∧ Q = 2^52) := by
      rw [hM] at h; rw [hM'] at h; omega
    rcases hcases with ⟨h1, h2⟩ | ⟨h1, h2, h3⟩ | ⟨h1, h2, h3⟩
    · rw [h1, h2]
    · rw [h1, h2, h3]
      have : ((a + 1 : ℕ) : ℤ) - 1074 = ((a:ℤ) - 1074) + 1 := by push_cast; ring
      rw [this, zpow_add_one₀ (by norm_num : (2:ℚ) ≠ 0)]
      push_cast; ring
    · rw [h1, h2, h3]
      have : ((a' + 1 : ℕ) : ℤ) - 1074 = ((a':ℤ) - 1074) + 1 := by push_cast; ring
      rw [this, zpow_add_one₀ (by norm_num : (2:ℚ) ≠ 0)]
      push_cast; ring
  set V : ℚ := (Q:ℚ) * (2:ℚ) ^ ((a:ℤ) - 1074)
  rw [← hV] at herr'
  set u : ℚ := (2:ℚ) ^ ((a:ℤ) - 1074)
  set u' : ℚ := (2:ℚ) ^ ((a':ℤ) - 1074)
  have hu : 0 < u := by positivity
  have hu' : 0 < u' := by positivity
  rw [abs_le] at herr herr'
  have hab : |q - q'| ≤ (u + u') / 2 := by
    rw [abs_le]; constructor <;> linarith [herr.1, herr.2, herr'.1, herr'.2]
  norm_num at hrel hrel' ⊢
  linarith

end Verif.Lemmas.Round
