/-
GC safety (C11 with DeleteNodes passes): the invariant `GInv` of Verif.Lemmas.WmptGcDefs is kept by every history of
Update / Delete / Root / Commit / DeleteNodes operations, and its consequences:

  0. `hashInj_of_distinct`  : `Distinct` gives the collision freedom `Commit` needs
  1. `ginv_init`
  2. `ginv_step_other`, `ginv_step_commit`, `ginv_step`
  3. `ginv_run`
  4. `gc_stored`, `gc_recoverable`, `gc_answers_are_spec`, `gc_crash`
Core Lean only.
-/
import Verif.Lemmas.WmptGcOps
import Verif.Lemmas.WmptGcCommit
import Verif.Lemmas.WmptCrash
namespace Verif.Wmpt
open RepOps RepMore

section
variable {H : Bytes → Bytes}

/-! ### 0. `Distinct` gives `HashInj` -/

theorem gcinv_flatMap_disjoint {α β : Type} (g : α → List β) : ∀ (l : List α), (l.flatMap g).Nodup →
    ∀ i j, i ∈ l → j ∈ l → i ≠ j → ∀ x, x ∈ g i → x ∈ g j → False := by
  intro l
  induction l with
  | nil => intro _ i j hi; cases hi
  | cons a tl ih =>
    intro hnd i j hi hj hij x hxi hxj
    simp only [List.flatMap_cons] at hnd
    obtain ⟨_, h2, h3⟩ := List.nodup_append.mp hnd
    rcases List.mem_cons.mp hi with hia | hi'
    · rcases List.mem_cons.mp hj with hja | hj'
      · exact hij (hia.trans hja.symm)
      · subst hia
        exact h3 x hxi x (List.mem_flatMap.mpr ⟨j, hj', hxj⟩) rfl
    · rcases List.mem_cons.mp hj with hja | hj'
      · subst hja
        exact h3 x hxj x (List.mem_flatMap.mpr ⟨i, hi', hxi⟩) rfl
      · exact ih h2 i j hi' hj' hij x hxi hxj

theorem gcinv_mem_allNib (i : Nib) : i ∈ allNib := by simp [allNib]

theorem gcinv_nodup_flatMap_part {α β : Type} (g : α → List β) : ∀ (l : List α), (l.flatMap g).Nodup →
    ∀ i ∈ l, (g i).Nodup := by
  intro l
  induction l with
  | nil => intro _ i hi; cases hi
  | cons a tl ih =>
    intro hnd i hi
    simp only [List.flatMap_cons] at hnd
    obtain ⟨h1, h2, _⟩ := List.nodup_append.mp hnd
    rcases List.mem_cons.mp hi with rfl | hi
    · exact h1
    · exact ih h2 i hi

/-- no two occurrences with the same hash: equal hashes of nodes of `t` are hashes of equal trees -/
theorem sub_eq_of_hash_eq {t : PT} : (NL H t).Nodup → ∀ x y, PT.Sub x t → PT.Sub y t → x.isNone = false →
    y.isNone = false → PT.hash H x = PT.hash H y → x = y := by
  induction t with
  | none =>
    intro _ x y hx _ hxn _ _
    simp only [PT.Sub] at hx; subst hx
    simp [PT.isNone] at hxn
  | value v w =>
    intro _ x y hx hy _ _ _
    simp only [PT.Sub] at hx hy; subst hx; subst hy; rfl
  | short k c ih =>
    intro hnd x y hx hy hxn hyn e
    simp only [NL] at hnd
    obtain ⟨hnot, hndc⟩ := List.nodup_cons.mp hnd
    rcases hx with rfl | hx
    · rcases hy with rfl | hy
      · rfl
      · exact absurd (mem_NL_iff.mpr ⟨y, hy, hyn, e⟩) hnot
    · rcases hy with rfl | hy
      · exact absurd (mem_NL_iff.mpr ⟨x, hx, hxn, e.symm⟩) hnot
      · exact ih hndc x y hx hy hxn hyn e
  | branch f ih =>
    intro hnd x y hx hy hxn hyn e
    simp only [NL] at hnd
    obtain ⟨hnot, hndc⟩ := List.nodup_cons.mp hnd
    rcases hx with rfl | ⟨i, hx⟩
    · rcases hy with rfl | ⟨j, hy⟩
      · rfl
      · exact absurd (List.mem_flatMap.mpr ⟨j, gcinv_mem_allNib j, mem_NL_iff.mpr ⟨y, hy, hyn, e⟩⟩) hnot
    · rcases hy with rfl | ⟨j, hy⟩
      · exact absurd (List.mem_flatMap.mpr ⟨i, gcinv_mem_allNib i, mem_NL_iff.mpr ⟨x, hx, hxn, e.symm⟩⟩) hnot
      · by_cases hij : i = j
        · subst hij
          exact ih i (gcinv_nodup_flatMap_part _ _ hndc i (gcinv_mem_allNib i)) x y hx hy hxn hyn e
        · exact (gcinv_flatMap_disjoint _ _ hndc i j (gcinv_mem_allNib i) (gcinv_mem_allNib j) hij (PT.hash H x)
            (mem_NL_iff.mpr ⟨x, hx, hxn, rfl⟩) (mem_NL_iff.mpr ⟨y, hy, hyn, e⟩)).elim

theorem Distinct.nodup {t : PT} (h : Distinct H t) : (NL H t).Nodup :=
  (List.nodup_cons.mp (List.nodup_cons.mp h).2).2

theorem Distinct.zeros {t : PT} (h : Distinct H t) : zeros32 ∉ NL H t := fun hm =>
  (List.nodup_cons.mp h).1 (List.mem_cons_of_mem _ hm)

theorem Distinct.emptyHash {t : PT} (h : Distinct H t) : emptyHash H ∉ NL H t :=
  (List.nodup_cons.mp (List.nodup_cons.mp h).2).1

theorem gcinv_isNone_eq {x : PT} (h : x.isNone = true) : x = .none := by
  cases x <;> simp [PT.isNone] at h
  rfl

theorem hashInj_of_distinct {t : PT} (hd : Distinct H t) : HashInj H (fun x => PT.Sub x t) := by
  intro x y hx hy e
  by_cases hxn : x.isNone = true
  · by_cases hyn : y.isNone = true
    · rw [gcinv_isNone_eq hxn, gcinv_isNone_eq hyn]
    · have hyn' : y.isNone = false := by simpa using hyn
      have hxe := gcinv_isNone_eq hxn
      subst hxe
      exact absurd (mem_NL_iff.mpr ⟨y, hy, hyn', e⟩) hd.emptyHash
  · have hxn' : x.isNone = false := by simpa using hxn
    by_cases hyn : y.isNone = true
    · have hye := gcinv_isNone_eq hyn
      subst hye
      exact absurd (mem_NL_iff.mpr ⟨x, hx, hxn', e.symm⟩) hd.emptyHash
    · have hyn' : y.isNone = false := by simpa using hyn
      rw [sub_eq_of_hash_eq hd.nodup x y hx hy hxn' hyn' e]

/-! ### 1. the empty trie -/

theorem ginv_init : GInv H {} .none .none where
  hasDb := rfl
  stored := trivial
  rep := Rep.empty
  notNil := rfl
  proper := trivial
  upDirty := trivial
  noEmp := trivial
  uniform := uniform_none 64
  uniformC := uniform_none 64
  queues := fun h hm => by cases hm
  stale := fun h hm => by cases hm
  lens := fun h hm => by cases hm
  lensD := fun h hm => by cases hm

/-! ### 2. one step -/

/-- what the live trie holds clean: distinct hashes of nodes of the live spec trie -/
theorem GInv.cl_facts {st : HState} {ts tc : PT} (hi : GInv H st ts tc) (hd : Distinct H ts) :
    (NL H ts).Perm (cl H st.t.root ts ++ dirtyHashes H st.t.root ts) ∧
    (cl H st.t.root ts ++ dirtyHashes H st.t.root ts).Nodup ∧
    (∀ h ∈ cl H st.t.root ts, h ∈ NL H ts) ∧ (∀ h ∈ dirtyHashes H st.t.root ts, h ∈ NL H ts) ∧
    (cl H st.t.root ts).Nodup := by
  have hnp := NL_perm hi.rep hi.proper hi.upDirty
  have hnd := (hnp.nodup_iff).mp hd.nodup
  exact ⟨hnp, hnd, fun h hm => hnp.mem_iff.mpr (List.mem_append_left _ hm),
    fun h hm => hnp.mem_iff.mpr (List.mem_append_right _ hm), (List.nodup_append.mp hnd).1⟩

/-- `stale` after an operation that only shrinks the clean set -/
theorem gcinv_stale_step {ts ts' : PT} {root root' : WN} {pend pend' lost : List Bytes}
    (hd : Distinct H ts) (hclnl : ∀ h ∈ cl H root ts, h ∈ NL H ts) (hclnd : (cl H root ts).Nodup)
    (hperm : (cl H root ts).Perm (cl H root' ts' ++ lost)) (hlost : ∀ h ∈ lost, h.length = 32)
    (hsrc : ∀ h ∈ pend' ++ dirtyCached root', h ∈ pend ++ dirtyCached root ∨ h ∈ lost ∨ h = [])
    (hstale : ∀ h ∈ pend ++ dirtyCached root, pad32 h ∉ cl H root ts) :
    ∀ h ∈ pend' ++ dirtyCached root', pad32 h ∉ cl H root' ts' := by
  intro h hm hin
  have hin0 : pad32 h ∈ cl H root ts := hperm.mem_iff.mpr (List.mem_append_left _ hin)
  rcases hsrc h hm with ho | hl | hn
  · exact hstale h ho hin0
  · have e : pad32 h = h := pad32_eq_self (hlost h hl)
    rw [e] at hin
    have hnd := (hperm.nodup_iff).mp hclnd
    exact (List.nodup_append.mp hnd).2.2 h hin h hl rfl
  · subst hn
    rw [pad32_nil] at hin0
    exact hd.zeros (hclnl _ hin0)

theorem gcinv_lens_step {root root' : WN} {td pend pend' lost : List Bytes}
    (hlost : ∀ h ∈ lost, h.length = 32)
    (hsrc : ∀ h ∈ pend' ++ dirtyCached root', h ∈ pend ++ dirtyCached root ∨ h ∈ lost ∨ h = [])
    (hlens : ∀ h ∈ td ++ pend ++ dirtyCached root, StaleOK h) :
    ∀ h ∈ td ++ pend' ++ dirtyCached root', StaleOK h := by
  intro h hm
  rw [List.append_assoc] at hm
  rcases List.mem_append.mp hm with hm | hm
  · exact hlens h (List.mem_append_left _ (List.mem_append_left _ hm))
  · rcases hsrc h hm with ho | hl | hn
    · refine hlens h ?_
      rw [List.append_assoc]
      exact List.mem_append_right _ ho
    · exact Or.inr (hlost h hl)
    · exact Or.inl hn

/-- every operation but `Commit` -/
theorem ginv_step_other (hlen : ∀ x, (H x).length = 32) {st : HState} {ts tc : PT} {op : HOp}
    (hi : GInv H st ts tc) (hpl : op.plainGC) (hwf : op.wf) (hok : PTOK ts) (hd : Distinct H ts)
    (hnc : ∀ lvl, op ≠ .commit lvl) : GInv H (hstep H st op) (specStep ts op) tc := by
  have hPS : ∀ x, (fun x => PT.Sub x tc) x → StoredAll H st.t.store x := fun x hx => gc_storedAll_sub hi.stored hx
  have hrepS : RepS H st.t.store st.t.root ts := repS_of_repSub hi.rep hi.stored
  have hrepN : RepS H st.t.store (normRoot st.t.root) ts := by rw [normRoot_of_notNil hi.notNil]; exact hrepS
  obtain ⟨hnp, hnd, hclnl, hdhnl, hclnd⟩ := hi.cl_facts hd
  cases op with
  | saveRoot => exact hpl.elim
  | rollback => exact hpl.elim
  | commit lvl => exact absurd rfl (hnc lvl)
  | upd key v w =>
    obtain ⟨hk, hv⟩ := hwf
    obtain ⟨_, e1, e2, e3, e4, _, _, hnil, hrep', hne', lost, hperm, hlost, hsrc⟩ :=
      GcOps.gc_update_insert (P := fun x => PT.Sub x tc) hlen st.t hPS (subClosed_sub tc) ts key v w hi.hasDb hi.rep
        hi.notNil hi.noEmp hi.upDirty hi.uniform hok hk hv
    have hg := good_update_insert (H := H) st.t key v w hv ⟨hi.proper, hi.upDirty⟩
    exact { hasDb := e2
            stored := by show StoredAll H (update H st.t key v w).1.store tc; rw [e1]; exact hi.stored
            rep := hrep'
            notNil := hnil
            proper := hg.1
            upDirty := hg.2
            noEmp := hne'
            uniform := uniform_insert hi.uniform hk v w
            uniformC := hi.uniformC
            queues := by
              show ∀ h ∈ (update H st.t key v w).1.tempDeleted ++ (update H st.t key v w).1.deleted, _
              rw [e3, e4]; exact hi.queues
            stale := gcinv_stale_step hd hclnl hclnd hperm hlost hsrc hi.stale
            lens := by
              show ∀ h ∈ (update H st.t key v w).1.tempDeleted ++ (update H st.t key v w).1.pending ++
                dirtyCached (update H st.t key v w).1.root, _
              rw [e3]; exact gcinv_lens_step hlost hsrc hi.lens
            lensD := by
              show ∀ h ∈ (update H st.t key v w).1.deleted, _
              rw [e4]; exact hi.lensD }
  | del key =>
    have hk : key.length = 64 := hwf
    obtain ⟨e1, e2, e3, e4, _, _, hnil, hne', ts', hcase, hrep', lost, hperm, hlost, hsrc⟩ :=
      GcOps.gc_deleteKey (P := fun x => PT.Sub x tc) hlen st.t hPS (subClosed_sub tc) ts 64 key hi.hasDb hi.rep
        hi.notNil hi.noEmp hi.upDirty hi.uniform hok hk
    have hg := good_deleteKey hlen st.t ts 64 key hi.hasDb hrepN hi.noEmp hi.uniform hok hk ⟨hi.proper, hi.upDirty⟩
    have hs : specStep ts (.del key) = ts' ∧ Uniform 64 ts' := by
      rcases hcase with ⟨_, hdel, rfl, _, _⟩ | ⟨_, hdel⟩
      · exact ⟨by simp only [specStep, hdel], hi.uniform⟩
      · exact ⟨by simp only [specStep, hdel], uniform_delete hi.uniform hk hdel⟩
    rw [hs.1]
    exact { hasDb := e2
            stored := by show StoredAll H (deleteKey H st.t key).1.store tc; rw [e1]; exact hi.stored
            rep := hrep'
            notNil := hnil
            proper := hg.1
            upDirty := hg.2
            noEmp := hne'
            uniform := hs.2
            uniformC := hi.uniformC
            queues := by
              show ∀ h ∈ (deleteKey H st.t key).1.tempDeleted ++ (deleteKey H st.t key).1.deleted, _
              rw [e3, e4]; exact hi.queues
            stale := gcinv_stale_step hd hclnl hclnd hperm hlost hsrc hi.stale
            lens := by
              show ∀ h ∈ (deleteKey H st.t key).1.tempDeleted ++ (deleteKey H st.t key).1.pending ++
                dirtyCached (deleteKey H st.t key).1.root, _
              rw [e3]; exact gcinv_lens_step hlost hsrc hi.lens
            lensD := by
              show ∀ h ∈ (deleteKey H st.t key).1.deleted, _
              rw [e4]; exact hi.lensD }
  | root =>
    obtain ⟨q1, q2, q3, q4, q5⟩ := rootHash_queues (H := H) st.t
    obtain ⟨r1, _⟩ := rep_rootHash st.t hi.rep hi.proper hi.notNil
    have hp' := (proper_rootHash (H := H) st.t).mpr hi.proper
    have edc := dirtyCached_rootHash st.t hi.rep hi.proper hi.upDirty
    have ecl := cl_rootHash (H := H) st.t ts
    have hdh32 : ∀ h ∈ dirtyHashes H st.t.root ts, h.length = 32 := fun h hm => NL_length32 hlen h (hdhnl h hm)
    exact { hasDb := by show (rootHash H st.t).1.hasDb = true; rw [q5]; exact hi.hasDb
            stored := by show StoredAll H (rootHash H st.t).1.store tc; rw [q4]; exact hi.stored
            rep := r1
            notNil := by show (rootHash H st.t).1.root.isNil = false; rw [rootHash_root_isNil]; exact hi.notNil
            proper := hp'
            upDirty := (upDirty_rootHash (H := H) st.t).mpr hi.upDirty
            noEmp := noEmp_of_proper hp'
            uniform := hi.uniform
            uniformC := hi.uniformC
            queues := by
              show ∀ h ∈ (rootHash H st.t).1.tempDeleted ++ (rootHash H st.t).1.deleted, _
              rw [q1, q2]; exact hi.queues
            stale := by
              show ∀ h ∈ (rootHash H st.t).1.pending ++ dirtyCached (rootHash H st.t).1.root,
                pad32 h ∉ cl H (rootHash H st.t).1.root ts
              rw [q3, edc, ecl]
              intro h hm hin
              rcases List.mem_append.mp hm with hm | hm
              · exact hi.stale h (List.mem_append_left _ hm) hin
              · rw [pad32_eq_self (hdh32 h hm)] at hin
                exact (List.nodup_append.mp hnd).2.2 h hin h hm rfl
            lens := by
              show ∀ h ∈ (rootHash H st.t).1.tempDeleted ++ (rootHash H st.t).1.pending ++
                dirtyCached (rootHash H st.t).1.root, _
              rw [q1, q3, edc]
              intro h hm
              rcases List.mem_append.mp hm with hm | hm
              · exact hi.lens h (List.mem_append_left _ hm)
              · exact Or.inr (hdh32 h hm)
            lensD := by
              show ∀ h ∈ (rootHash H st.t).1.deleted, _
              rw [q2]; exact hi.lensD }
  | gc =>
    have hkeys : ∀ k ∈ st.t.deleted, k ∉ NL H tc := by
      intro k hk
      have := hi.queues k (List.mem_append_right _ hk)
      rwa [pad32_eq_self (hi.lensD k hk)] at this
    have hdel : ∀ h ∈ (deleteNodes st.t).1.deleted, ∃ h0 ∈ st.t.tempDeleted, h = pad32 h0 := by
      intro h hm
      obtain ⟨h0, hm0, e⟩ := List.mem_map.mp ((mem_deleteNodes_deleted st.t).mp hm)
      exact ⟨h0, hm0, e.symm⟩
    exact { hasDb := hi.hasDb
            stored := storedAll_deleteNodes st.t hi.stored hkeys
            rep := hi.rep
            notNil := hi.notNil
            proper := hi.proper
            upDirty := hi.upDirty
            noEmp := hi.noEmp
            uniform := hi.uniform
            uniformC := hi.uniformC
            queues := by
              show ∀ h ∈ (deleteNodes st.t).1.tempDeleted ++ (deleteNodes st.t).1.deleted, _
              rw [gc_deleteNodes_tempDeleted, List.nil_append]
              intro h hm
              obtain ⟨h0, hm0, rfl⟩ := hdel h hm
              rw [pad32_pad32]
              exact hi.queues h0 (List.mem_append_left _ hm0)
            stale := hi.stale
            lens := by
              show ∀ h ∈ (deleteNodes st.t).1.tempDeleted ++ (deleteNodes st.t).1.pending ++
                dirtyCached st.t.root, _
              rw [gc_deleteNodes_tempDeleted, gc_deleteNodes_pending, List.nil_append]
              intro h hm
              rcases List.mem_append.mp hm with hm | hm
              · exact hi.lens h (List.mem_append_left _ (List.mem_append_right _ hm))
              · exact hi.lens h (List.mem_append_right _ hm)
            lensD := by
              intro h hm
              obtain ⟨h0, _, rfl⟩ := hdel h hm
              exact pad32_length h0 }

/-- the GC queues after `Commit`: every entry was queued or pending before, and none is a node of the committed trie -/
theorem gcinv_commit_queues (hlen : ∀ x, (H x).length = 32) {st : HState} {ts tc : PT} (lvl : Int)
    (hi : GInv H st ts tc) (hd : Distinct H ts) :
    (∀ h ∈ (commit H st.t lvl).1.tempDeleted,
      h ∈ st.t.tempDeleted ++ st.t.pending ++ dirtyCached st.t.root ∧ pad32 h ∉ NL H ts) ∧
    (∀ h ∈ (commit H st.t lvl).1.deleted, h ∈ st.t.deleted ∧ pad32 h ∉ NL H ts) := by
  have hrepS : RepS H st.t.store st.t.root ts := repS_of_repSub hi.rep hi.stored
  obtain ⟨hnp, hnd, hclnl, hdhnl, hclnd⟩ := hi.cl_facts hd
  have hcltc := cl_sub_NL hi.rep
  by_cases hdirty : st.t.root.dirty = true
  · obtain ⟨cr, sup, eTd, eDel, _, hcr, hsup⟩ :=
      commit_dirty_queues hlen lvl st.t hrepS hi.proper hi.upDirty hdirty
    rw [eTd, eDel]
    constructor
    · intro h hm
      obtain ⟨hm, hncr⟩ := mem_eraseAll.mp hm
      have hmem : h ∈ st.t.tempDeleted ++ st.t.pending ++ dirtyCached st.t.root := by
        rcases List.mem_append.mp hm with hm | hm
        · exact List.mem_append_left _ hm
        · exact List.mem_append_right _ (hsup h (List.mem_filter.mp hm).1)
      refine ⟨hmem, fun hin => ?_⟩
      rcases List.mem_append.mp (hnp.mem_iff.mp hin) with hc | hdh
      · rw [List.append_assoc] at hmem
        rcases List.mem_append.mp hmem with hm1 | hm1
        · exact hi.queues h (List.mem_append_left _ hm1) (hcltc _ hc)
        · exact hi.stale h hm1 hc
      · rcases hi.lens h hmem with hn | hl
        · subst hn
          rw [pad32_nil] at hin
          exact hd.zeros hin
        · rw [pad32_eq_self hl] at hdh
          exact hncr (hcr h hdh)
    · intro h hm
      obtain ⟨hm, hncr⟩ := mem_eraseAll.mp hm
      refine ⟨hm, fun hin => ?_⟩
      have e := pad32_eq_self (hi.lensD h hm)
      rcases List.mem_append.mp (hnp.mem_iff.mp hin) with hc | hdh
      · exact hi.queues h (List.mem_append_right _ hm) (hcltc _ hc)
      · rw [e] at hdh
        exact hncr (List.mem_map.mpr ⟨h, hcr h hdh, e⟩)
  · have hclean : st.t.root.dirty = false := by simpa using hdirty
    have e := (commit_clean_eq (H := H) lvl st.t hclean).1
    have ecl := cl_eq_NL_of_clean hi.rep hclean
    rw [e]
    constructor
    · intro h hm
      have hm' : h ∈ st.t.tempDeleted ++ st.t.pending := hm
      refine ⟨List.mem_append_left _ hm', fun hin => ?_⟩
      rw [← ecl] at hin
      rcases List.mem_append.mp hm' with hm1 | hm1
      · exact hi.queues h (List.mem_append_left _ hm1) (hcltc _ hin)
      · exact hi.stale h (List.mem_append_left _ hm1) hin
    · intro h hm
      have hm' : h ∈ st.t.deleted := hm
      refine ⟨hm', fun hin => ?_⟩
      rw [← ecl] at hin
      exact hi.queues h (List.mem_append_right _ hm') (hcltc _ hin)

/-- `Commit`: the live trie becomes the committed trie -/
theorem ginv_step_commit (hlen : ∀ x, (H x).length = 32) {st : HState} {ts tc : PT} (lvl : Int)
    (hi : GInv H st ts tc) (hd : Distinct H ts) : GInv H (hstep H st (.commit lvl)) ts ts := by
  have hrepS : RepS H st.t.store st.t.root ts := repS_of_repSub hi.rep hi.stored
  obtain ⟨r1, r2, _, r4, _⟩ := rep_commit_self hlen lvl st.t (hashInj_of_distinct hd) hrepS hi.proper
  obtain ⟨hq1, hq2⟩ := gcinv_commit_queues hlen lvl hi hd
  have hud' := (upDirty_commit (H := H) lvl st.t hi.upDirty).2
  have hnil : (commit H st.t lvl).1.root.isNil = false := by
    by_cases he : st.t.root = .empty
    · have hdd : st.t.root.dirty = false := by rw [he]; rfl
      rw [commit_root_of_clean st.t lvl hdd]; exact hi.notNil
    · exact (r1.not_nil_empty (hrepS.isNone_false hi.notNil he)).1
  have hpend : (commit H st.t lvl).1.pending = [] := gc_commit_pending lvl st.t
  have hdc : dirtyCached (commit H st.t lvl).1.root = [] := commit_dirtyCached lvl st.t hi.proper hi.upDirty
  exact { hasDb := by show (commit H st.t lvl).1.hasDb = true; rw [commit_hasDb]; exact hi.hasDb
          stored := by
            show StoredAll H ((commit H st.t lvl).1.store.apply (commit H st.t lvl).2) ts
            rw [commit_store]; exact r2
          rep := r1.mono (fun x hx _ => hx)
          notNil := hnil
          proper := r4
          upDirty := hud'
          noEmp := noEmp_of_proper r4
          uniform := hi.uniform
          uniformC := hi.uniform
          queues := by
            show ∀ h ∈ (commit H st.t lvl).1.tempDeleted ++ (commit H st.t lvl).1.deleted, _
            intro h hm
            rcases List.mem_append.mp hm with hm | hm
            · exact (hq1 h hm).2
            · exact (hq2 h hm).2
          stale := by
            show ∀ h ∈ (commit H st.t lvl).1.pending ++ dirtyCached (commit H st.t lvl).1.root, _
            rw [hpend, hdc]
            intro h hm; cases hm
          lens := by
            show ∀ h ∈ (commit H st.t lvl).1.tempDeleted ++ (commit H st.t lvl).1.pending ++
              dirtyCached (commit H st.t lvl).1.root, _
            rw [hpend, hdc, List.append_nil, List.append_nil]
            intro h hm
            exact hi.lens h (hq1 h hm).1
          lensD := by
            show ∀ h ∈ (commit H st.t lvl).1.deleted, _
            intro h hm
            exact hi.lensD h (hq2 h hm).1 }

/-- the committed trie after a step -/
def committedStep (ts tc : PT) : HOp → PT
  | .commit _ => ts
  | _ => tc

/-- 2. one step of a history with GC passes keeps the invariant -/
theorem ginv_step (hlen : ∀ x, (H x).length = 32) {st : HState} {ts tc : PT} {op : HOp}
    (hi : GInv H st ts tc) (hpl : op.plainGC) (hwf : op.wf) (hok : PTOK ts) (hd : Distinct H ts) :
    GInv H (hstep H st op) (specStep ts op) (committedStep ts tc op) := by
  by_cases hc : ∃ lvl, op = .commit lvl
  · obtain ⟨lvl, rfl⟩ := hc
    exact ginv_step_commit hlen lvl hi hd
  · have hnc : ∀ lvl, op ≠ .commit lvl := fun lvl e => hc ⟨lvl, e⟩
    have e : committedStep ts tc op = tc := by
      cases op <;> first | rfl | exact absurd rfl (hnc _)
    rw [e]
    exact ginv_step_other hlen hi hpl hwf hok hd hnc

/-! ### 3. a whole history -/

/-- the fold of `committedRun`: its first component is the spec trie -/
theorem gcinv_fold_fst (ops : List HOp) : ∀ acc : PT × PT,
    (ops.foldl (fun (acc : PT × PT) op =>
      match op with
      | .commit _ => (specStep acc.1 op, specStep acc.1 op)
      | _ => (specStep acc.1 op, acc.2)) acc).1 = ops.foldl specStep acc.1 := by
  induction ops with
  | nil => intro acc; rfl
  | cons op ops ih =>
    intro acc
    simp only [List.foldl_cons]
    rw [ih]
    cases op <;> rfl

theorem committedRun_snoc (p : List HOp) (op : HOp) :
    committedRun (p ++ [op]) = committedStep (specRun p) (committedRun p) op := by
  have h1 := gcinv_fold_fst p (PT.none, PT.none)
  simp only [committedRun, List.foldl_append, List.foldl_cons, List.foldl_nil]
  cases op with
  | commit lvl => exact h1
  | _ => rfl

theorem committedRun_nil : committedRun [] = .none := rfl

theorem ginv_run_aux (hlen : ∀ x, (H x).length = 32) (q : List HOp) : ∀ (p : List HOp),
    (∀ op ∈ q, op.plainGC ∧ op.wf) →
    (∀ q1 q2, q = q1 ++ q2 → PTOK (specRun (p ++ q1)) ∧ Distinct H (specRun (p ++ q1))) →
    GInv H (hrun H p) (specRun p) (committedRun p) →
    GInv H (hrun H (p ++ q)) (specRun (p ++ q)) (committedRun (p ++ q)) := by
  induction q with
  | nil => intro p _ _ hi; simpa using hi
  | cons op q ih =>
    intro p hall hok hi
    have e : p ++ op :: q = (p ++ [op]) ++ q := by simp
    rw [e]
    apply ih (p ++ [op])
    · exact fun o ho => hall o (List.mem_cons_of_mem _ ho)
    · intro q1 q2 hq
      have := hok (op :: q1) q2 (by rw [hq]; rfl)
      simpa using this
    · rw [hrun_snoc, specRun_snoc, committedRun_snoc]
      have h0 := hok [] (op :: q) rfl
      simp only [List.append_nil] at h0
      exact ginv_step hlen hi (hall op List.mem_cons_self).1 (hall op List.mem_cons_self).2 h0.1 h0.2

/-- 3. the invariant after a history of Update / Delete / Root / Commit / DeleteNodes operations -/
theorem ginv_run (hlen : ∀ x, (H x).length = 32) (ops : List HOp)
    (hall : ∀ op ∈ ops, op.plainGC ∧ op.wf)
    (hok : ∀ p q, ops = p ++ q → PTOK (specRun p) ∧ Distinct H (specRun p)) :
    GInv H (hrun H ops) (specRun ops) (committedRun ops) := by
  have := ginv_run_aux hlen ops [] hall (by simpa using hok) ginv_init
  simpa using this

/-- the invariant after every prefix -/
theorem ginv_prefix (hlen : ∀ x, (H x).length = 32) (ops : List HOp)
    (hall : ∀ op ∈ ops, op.plainGC ∧ op.wf)
    (hok : ∀ p q, ops = p ++ q → PTOK (specRun p) ∧ Distinct H (specRun p))
    (p q : List HOp) (hsplit : ops = p ++ q) : GInv H (hrun H p) (specRun p) (committedRun p) :=
  ginv_run hlen p (fun o ho => hall o (by rw [hsplit]; exact List.mem_append_left _ ho))
    (fun p1 q1 hq => hok p1 (q1 ++ q) (by rw [hsplit, hq, List.append_assoc]))

/-- the last committed trie is the spec trie after a prefix of the history (the one that ends with the last `Commit`;
    the empty prefix when there is none) -/
theorem committedRun_prefix_aux (q : List HOp) : ∀ (p : List HOp),
    (∃ p' q', p = p' ++ q' ∧ committedRun p = specRun p') →
    ∃ p' q', p ++ q = p' ++ q' ∧ committedRun (p ++ q) = specRun p' := by
  induction q with
  | nil => intro p h; simpa using h
  | cons op q ih =>
    intro p ⟨p', q', e1, e2⟩
    have e : p ++ op :: q = (p ++ [op]) ++ q := by simp
    rw [e]
    apply ih (p ++ [op])
    by_cases hc : ∃ lvl, op = .commit lvl
    · obtain ⟨lvl, rfl⟩ := hc
      exact ⟨p, [.commit lvl], rfl, by rw [committedRun_snoc]; rfl⟩
    · refine ⟨p', q' ++ [op], by rw [e1, List.append_assoc], ?_⟩
      rw [committedRun_snoc, ← e2]
      cases op <;> first | rfl | exact absurd ⟨_, rfl⟩ hc

theorem committedRun_prefix (ops : List HOp) : ∃ p' q', ops = p' ++ q' ∧ committedRun ops = specRun p' := by
  have := committedRun_prefix_aux ops [] ⟨[], [], rfl, rfl⟩
  simpa using this

/-! ### 4. main theorems -/

/-- the `HInv` of the GC-less development, from the GC invariant -/
theorem GInv.hinv {st : HState} {ts tc : PT} (hi : GInv H st ts tc) : HInv H st ts where
  hasDb := hi.hasDb
  rep := repS_of_repSub hi.rep hi.stored
  notNil := hi.notNil
  proper := hi.proper
  upDirty := hi.upDirty
  noEmp := hi.noEmp
  uniform := hi.uniform

/-- MAIN (C11 with GC): after ANY history of `Update` / `Delete` / `Root` / `Commit` / `DeleteNodes` operations, with
    any number of GC passes in any positions, every node of the last committed trie is in storage.
    Hypotheses: 32-byte hash; 32-byte keys, non-empty values; every intermediate spec tree fits the encodings (`PTOK`)
    and has no two node occurrences with equal hash, none hashing to 32 zero bytes or to the hash of the empty string
    (`Distinct`). -/
theorem gc_stored (hlen : ∀ x, (H x).length = 32) (ops : List HOp)
    (hall : ∀ op ∈ ops, op.plainGC ∧ op.wf)
    (hok : ∀ p q, ops = p ++ q → PTOK (specRun p) ∧ Distinct H (specRun p)) :
    StoredAll H (hrun H ops).t.store (committedRun ops) :=
  (ginv_run hlen ops hall hok).stored

/-- MAIN (C11 with GC): if the history ends committed (clean root), the trie reopened from just `(Root(), Weight())`
    over the same storage is observationally identical to the live trie -/
theorem gc_recoverable (hlen : ∀ x, (H x).length = 32) (ops : List HOp)
    (hall : ∀ op ∈ ops, op.plainGC ∧ op.wf)
    (hok : ∀ p q, ops = p ++ q → PTOK (specRun p) ∧ Distinct H (specRun p))
    (hd : (hrun H ops).t.root.dirty = false) :
    sameAnswers H (reopen H (hrun H ops).t) (hrun H ops).t :=
  sameAnswers_of_hinv hlen (ginv_run hlen ops hall hok).hinv hd (hok ops [] (by simp)).1

/-- ... and each of the common answers is the spec's -/
theorem gc_answers_are_spec (hlen : ∀ x, (H x).length = 32) (ops : List HOp)
    (hall : ∀ op ∈ ops, op.plainGC ∧ op.wf)
    (hok : ∀ p q, ops = p ++ q → PTOK (specRun p) ∧ Distinct H (specRun p))
    (hd : (hrun H ops).t.root.dirty = false) (b : Nat) (hb1 : 1 ≤ b) (hb : b ≤ (specRun ops).weight) :
    ∃ k v key, ownerSpec (specRun ops).entries b = some (k, v) ∧ keybytesToHex key = k ∧ key.length = 32 ∧
      (blockProof H (reopen H (hrun H ops).t) b).2 =
        .ok (key, Cbor.encTrie (((specRun ops).proofPairs H b).map Cbor.encBase)) ∧
      (blockProof H (hrun H ops).t b).2 =
        .ok (key, Cbor.encTrie (((specRun ops).proofPairs H b).map Cbor.encBase)) ∧
      verifyPairs H (((specRun ops).proofPairs H b).map PairD.ok) b = .ok ((rootHash H (hrun H ops).t).2, v) :=
  answers_of_hinv hlen (ginv_run hlen ops hall hok).hinv hd (hok ops [] (by simp)).1 b hb1 hb

/-- MAIN (C11 with GC, crash clause): after every prefix `p` of the history (the storages a crash can leave behind),
    the trie opened on the storage from just `(hash, weight)` of the last committed trie answers every block
    `1 ≤ b ≤ weight` like that trie: the 32 key bytes of the owner of the block and the encoded honest proof, which
    verifies against the committed root hash and yields the owner's value. -/
theorem gc_crash (hlen : ∀ x, (H x).length = 32) (ops : List HOp)
    (hall : ∀ op ∈ ops, op.plainGC ∧ op.wf)
    (hok : ∀ p q, ops = p ++ q → PTOK (specRun p) ∧ Distinct H (specRun p))
    (p q : List HOp) (hsplit : ops = p ++ q)
    (b : Nat) (hb1 : 1 ≤ b) (hb : b ≤ (committedRun p).weight) :
    ∃ k v key, ownerSpec (committedRun p).entries b = some (k, v) ∧ keybytesToHex key = k ∧ key.length = 32 ∧
      (getBlockProof H true (hrun H p).t.store 200
          (.hashRef (PT.hash H (committedRun p)) (committedRun p).weight) b []).res =
        .ok (k, ((committedRun p).proofPairs H b).map Cbor.encBase) ∧
      (blockProof H { root := .hashRef (PT.hash H (committedRun p)) (committedRun p).weight,
                      store := (hrun H p).t.store } b).2 =
        .ok (key, Cbor.encTrie (((committedRun p).proofPairs H b).map Cbor.encBase)) ∧
      verifyPairs H (((committedRun p).proofPairs H b).map PairD.ok) b = .ok (PT.hash H (committedRun p), v) := by
  have hi := ginv_prefix hlen ops hall hok p q hsplit
  obtain ⟨p', q', e1, e2⟩ := committedRun_prefix p
  have hokc : PTOK (committedRun p) := by
    rw [e2]
    exact (hok p' (q' ++ q) (by rw [hsplit, e1, List.append_assoc])).1
  have hst := hi.stored
  have hn : (committedRun p).isNone = false := PT.isNone_of_weight (by omega)
  have hdep := depth_le_of_uniform hi.uniformC
  obtain ⟨k, v, ho, hg, hv⟩ := reopen_verifies H hlen (hrun H p).t.store (committedRun p) b 200 hst hokc.1 hokc.2
    hb1 hb (by omega)
  obtain ⟨k', v', key, ho', _, hx, hl, hbp⟩ :=
    blockProof_rep' hlen { root := .hashRef (PT.hash H (committedRun p)) (committedRun p).weight,
                           store := (hrun H p).t.store } (committedRun p) 64 b rfl
      (Rep.ref (committedRun p) hn hst) trivial trivial hi.uniformC (by decide) (by decide) hokc hb1 hb
  rw [ho] at ho'
  cases ho'
  refine ⟨k, v, key, ?_, hx, by omega, hg, hbp, hv⟩
  rw [← owner_eq_ownerSpec (committedRun p) b hb1 hb]; exact ho

end
end Verif.Wmpt
