/-
The two `Resolves`: `Verif.MptStore.Resolves` (store layer: every reference of the tree is stored under `Ref.key` with
`Ref.encode`) gives `Verif.Partial.Resolves` (codec layer: every node of `nodesOf` is stored with the codec's encoding of
its decoded form), by `ref_encode_eq`.  So what the save theorems of C04 establish is what `C14_reload` needs.
-/
import Verif.Lemmas.EventCodec
import Verif.Lemmas.MptPartial
namespace Verif.MptStore
open Verif.Mpt Verif.Codec

theorem nodesOf_refs (H : Bytes → Bytes) (t : Node) : ∀ (pre : List Nib) (e : Bytes × Repr), e ∈ nodesOf H t pre →
    ∃ r ∈ refs t pre, r.t.isEmpty = false ∧ e = (r.key H, reprOf H r.t r.pos) := by
  induction t with
  | empty => intro pre e he; simp [nodesOf] at he
  | leaf o lp lv =>
    intro pre e he
    simp only [nodesOf, List.mem_singleton] at he
    exact ⟨⟨pre, .leaf o lp lv⟩, by simp [refs], rfl, he⟩
  | full o ch val ih =>
    intro pre e he
    simp only [nodesOf, List.mem_cons, List.mem_flatMap] at he
    rcases he with he | ⟨i, _, he⟩
    · exact ⟨⟨pre, .full o ch val⟩, by simp [refs], rfl, he⟩
    · obtain ⟨r, hr, hne, hre⟩ := ih i (pre ++ [i]) e he
      exact ⟨r, by simp only [refs, List.mem_cons, List.mem_flatMap]; exact Or.inr ⟨i, List.mem_finRange i, hr⟩, hne, hre⟩
  | ext o ep c ih =>
    intro pre e he
    simp only [nodesOf, List.mem_cons] at he
    rcases he with he | he
    · exact ⟨⟨pre, .ext o ep c⟩, by simp [refs], rfl, he⟩
    · obtain ⟨r, hr, hne, hre⟩ := ih (pre ++ ep) e he
      exact ⟨r, by simp only [refs, List.mem_cons]; exact Or.inr hr, hne, hre⟩

theorem partial_resolves_of_resolves (H : Bytes → Bytes) (get : Bytes → Option Bytes) (t : Node) (pre : List Nib)
    (h : Resolves H get t pre) : Verif.Partial.Resolves H get t pre := by
  intro e he
  obtain ⟨r, hr, hne, rfl⟩ := nodesOf_refs H t pre e he
  rw [h r hr, ref_encode_eq H r hne]

end Verif.MptStore
