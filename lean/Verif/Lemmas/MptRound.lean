/-
A round of operations on one trie (`RoundEvents`) obeys the event discipline: at the level of references, and,
under key injectivity on the references ever live, at the level of the keys the change collector sees.
-/
import Verif.Lemmas.EventKeys
import Verif.Lemmas.MptInsert
namespace Verif.MptStore
open Verif.Mpt Collector

/-- the concatenated `insertNode`/`deleteNode` events of a sequence of successful `Insert`s (of non-empty values) and
    `Delete`s at version `v`, from tree `t` to tree `t'` -/
inductive RoundEvents (v : Nat) : Node → List Event → Node → Prop where
  | nil (t : Node) : RoundEvents v t [] t
  | ins (t : Node) (p : List Nib) (b : Bytes) (es : List Event) (t' : Node) : b ≠ [] →
      RoundEvents v (insertE v b t [] p).1 es t' → RoundEvents v t ((insertE v b t [] p).2 ++ es) t'
  | del (t n : Node) (p : List Nib) (ev es : List Event) (t' : Node) :
      deleteE v t [] p = (.node n, ev) → RoundEvents v n es t' → RoundEvents v t (ev ++ es) t'
  | delLast (t : Node) (p : List Nib) (ev es : List Event) (t' : Node) :
      deleteE v t [] p = (.removed, ev) → RoundEvents v .empty es t' → RoundEvents v t (ev ++ es) t'

theorem round_ok {v : Nat} {t0 t : Node} {es : List Event} (h : RoundEvents v t0 es t) :
    WF t0 → ∀ L : Ref → Prop, (∀ r ∈ refs t0 [], L r) →
      DiscR L es ∧ (∀ r ∈ refs t [], liveRunR L es r) ∧ WF t := by
  induction h with
  | nil t => intro hw L hL; exact ⟨trivial, hL, hw⟩
  | ins t p b es t' hb _ ih =>
    intro hw L hL
    obtain ⟨hd, hc, _⟩ := insertE_ok v b t [] p L hw hL
    have hw1 : WF (insertE v b t [] p).1 := by rw [insertE_fst]; exact Or.inr (wf_insert v b hb t p hw)
    obtain ⟨hd2, hc2, hw2⟩ := ih hw1 _ hc
    exact ⟨(discR_append _ _ _).mpr ⟨hd, hd2⟩, by intro r hr; rw [liveRunR_append]; exact hc2 r hr, hw2⟩
  | del t n p ev es t' hE _ ih =>
    intro hw L hL
    have hok := deleteE_ok v t [] p L hw hL
    rw [hE] at hok
    obtain ⟨hd, hc, _⟩ := hok
    obtain ⟨hd2, hc2, hw2⟩ := ih (Or.inr (wfn_of_deleteE hw hE)) _ hc
    exact ⟨(discR_append _ _ _).mpr ⟨hd, hd2⟩, by intro r hr; rw [liveRunR_append]; exact hc2 r hr, hw2⟩
  | delLast t p ev es t' hE _ ih =>
    intro hw L hL
    have hok := deleteE_ok v t [] p L hw hL
    rw [hE] at hok
    obtain ⟨hd, hc, _⟩ := hok
    obtain ⟨hd2, hc2, hw2⟩ := ih (Or.inl rfl) _ hc
    exact ⟨(discR_append _ _ _).mpr ⟨hd, hd2⟩, by intro r hr; rw [liveRunR_append]; exact hc2 r hr, hw2⟩

/-- every reference live after an event list was live before or is a NEW of an event -/
theorem liveRunR_sub (es : List Event) : ∀ (L : Ref → Prop) (r : Ref), liveRunR L es r → L r ∨ r ∈ eventRefs es := by
  induction es with
  | nil => intro L r h; exact Or.inl h
  | cons e es ih =>
    intro L r h
    rcases ih _ r h with h | h
    · cases e with
      | del o => exact Or.inl h.1
      | put o n =>
        cases o with
        | none => exact h.elim (fun e => Or.inr (by simp [eventRefs, e])) Or.inl
        | some o => exact h.elim (fun e => Or.inr (by simp [eventRefs, e])) (fun h => Or.inl h.1)
    · exact Or.inr (eventRefs_cons_sub e es r h)

/-- **The event discipline of a round, at the level of keys**: with key injectivity on the references of the start
    tree and of the events, the collector calls of the round obey `Disc` and every node of the final tree is in the
    live key set computed from the calls. -/
theorem round_discipline (H : Bytes → Bytes) {v : Nat} {t0 t : Node} {es : List Event} (h : RoundEvents v t0 es t)
    (hw : WF t0) (hU : KeyInjOn H (fun r => r ∈ refs t0 [] ∨ r ∈ eventRefs es)) :
    Disc (Ref.key H) (fun x => x ∈ (refs t0 []).map (Ref.key H)) (callsOf H es) ∧
    (∀ r ∈ refs t [], liveRun (Ref.key H) (fun x => x ∈ (refs t0 []).map (Ref.key H)) (callsOf H es) (r.key H)) ∧
    WF t := by
  obtain ⟨hd, hc, hwt⟩ := round_ok h hw (fun r => r ∈ refs t0 []) (fun _ hr => hr)
  have hLK : ∀ x, x ∈ (refs t0 []).map (Ref.key H) ↔ keyImg H (fun r => r ∈ refs t0 []) x := by
    intro x
    simp only [List.mem_map, keyImg]
  obtain ⟨hdk, hlk⟩ := disc_keys H _ hU es (fun r => r ∈ refs t0 []) _ hLK (fun r hr => Or.inl hr)
    (fun r hr => Or.inr hr) hd
  exact ⟨hdk, fun r hr => (hlk _).mpr ⟨r, hc r hr, rfl⟩, hwt⟩

end Verif.MptStore
