import Verif.Lemmas.StateCacheSys
import Verif.Lemmas.StateCacheBound
/-! Dropping a key's whole version map (`StateCache.Remove`, or an eviction from the outer key LRU) is safe when blocks
are committed in ancestor order. Proof idea: after a drop of key `k` the cache behaves exactly as if no block committed
so far had ever written `k`; so the unchanged invariant holds for the *pruned* tree `prune dt T` (block `i` keeps its write
of `k` iff it was committed after the last drop of `k`, `dt k ≤ i`), and an answer in the pruned tree is an answer in the
real tree because a forgotten writer can only be passed on the way to an OLDER fresh writer, which ancestor order forbids. -/
set_option linter.unusedSectionVars false
namespace Verif.SC

variable {H K B V : Type} [DecidableEq H] [DecidableEq K] [DecidableEq B]

/-- commit time of a block: its index in the tree (`T.length` if absent) -/
def Tree.ct (T : Tree K B V) (b : B) : Nat := List.findIdx (fun x => decide (x.hash = b)) T

def Blk.keep (dt : K → Nat) (i : Nat) (x : Blk K B V) : Blk K B V :=
  ⟨x.hash, x.prev, x.writes.filter (fun p => decide (dt p.1 ≤ i))⟩

def pruneFrom (dt : K → Nat) : Nat → Tree K B V → Tree K B V
  | _, [] => []
  | i, x :: r => x.keep dt i :: pruneFrom dt (i + 1) r

/-- the tree as the cache remembers it: block `i` keeps its write of `k` iff `dt k ≤ i` -/
def prune (dt : K → Nat) (T : Tree K B V) : Tree K B V := pruneFrom dt 0 T

theorem alookup_filter_key {α β : Type} [DecidableEq α] (l : List (α × β)) (p : α → Bool) (k : α) :
    alookup (l.filter (fun q => p q.1)) k = if p k then alookup l k else none := by
  induction l with
  | nil => simp
  | cons q r ih =>
    obtain ⟨a, b⟩ := q
    by_cases hp : p a = true
    · simp only [List.filter, hp, alookup_cons]
      by_cases hak : a = k
      · subst hak; simp [hp]
      · simp [hak, ih]
    · have hp' : p a = false := by simpa using hp
      simp only [List.filter, hp', alookup_cons]
      by_cases hak : a = k
      · subst hak; simp [hp', ih]
      · simp [hak, ih]

theorem Tree.find_cons_eq (x : Blk K B V) (r : Tree K B V) {b : B} (h : x.hash = b) :
    Tree.find (x :: r) b = some x := by
  unfold Tree.find; simp [h]

theorem Tree.find_cons_ne (x : Blk K B V) (r : Tree K B V) {b : B} (h : x.hash ≠ b) :
    Tree.find (x :: r) b = Tree.find r b := by
  unfold Tree.find; simp [h]

theorem Tree.ct_cons_eq (x : Blk K B V) (r : Tree K B V) {b : B} (h : x.hash = b) : Tree.ct (x :: r) b = 0 := by
  unfold Tree.ct; simp [List.findIdx_cons, h]

theorem Tree.ct_cons_ne (x : Blk K B V) (r : Tree K B V) {b : B} (h : x.hash ≠ b) :
    Tree.ct (x :: r) b = Tree.ct r b + 1 := by
  unfold Tree.ct; simp [List.findIdx_cons, h]

theorem pruneFrom_find (dt : K → Nat) (i : Nat) (T : Tree K B V) (b : B) :
    (pruneFrom dt i T).find b = (T.find b).map (fun x => x.keep dt (i + T.ct b)) := by
  induction T generalizing i with
  | nil => rfl
  | cons x r ih =>
    by_cases hx : x.hash = b
    · have hx' : (x.keep dt i).hash = b := hx
      simp only [pruneFrom]
      rw [Tree.find_cons_eq _ _ hx', Tree.find_cons_eq _ _ hx, Tree.ct_cons_eq _ _ hx]
      rfl
    · have hx' : (x.keep dt i).hash ≠ b := hx
      simp only [pruneFrom]
      rw [Tree.find_cons_ne _ _ hx', Tree.find_cons_ne _ _ hx, Tree.ct_cons_ne _ _ hx, ih (i + 1)]
      have : i + 1 + Tree.ct r b = i + (Tree.ct r b + 1) := by ac_rfl
      rw [this]

theorem prune_find (dt : K → Nat) (T : Tree K B V) (b : B) :
    (prune dt T).find b = (T.find b).map (fun x => x.keep dt (T.ct b)) := by
  unfold prune; rw [pruneFrom_find]; simp

theorem pruneFrom_append (dt : K → Nat) (i : Nat) (T : Tree K B V) (y : Blk K B V) :
    pruneFrom dt i (T ++ [y]) = pruneFrom dt i T ++ [y.keep dt (i + T.length)] := by
  induction T generalizing i with
  | nil => simp [pruneFrom]
  | cons x r ih =>
    simp only [List.cons_append, pruneFrom, ih, List.length_cons]
    have : i + 1 + r.length = i + (r.length + 1) := by ac_rfl
    rw [this]

theorem Blk.keep_all (dt : K → Nat) (i : Nat) (x : Blk K B V) (h : ∀ k, dt k ≤ i) : x.keep dt i = x := by
  unfold Blk.keep
  have : x.writes.filter (fun p => decide (dt p.1 ≤ i)) = x.writes := by
    apply List.filter_eq_self.mpr
    intro p _; simp [h p.1]
  rw [this]

/-- committing a block commutes with pruning, as long as every drop happened no later than now -/
theorem prune_commit (dt : K → Nat) (T : Tree K B V) (y : Blk K B V) (hD : ∀ k, dt k ≤ T.length) :
    (prune dt T).commit y = prune dt (T.commit y) := by
  unfold Tree.commit
  rw [prune_find]
  cases hf : T.find y.hash with
  | some x => simp
  | none =>
    simp only [Option.map_none]
    unfold prune
    rw [pruneFrom_append, Blk.keep_all dt _ y (by simpa using hD)]

def Blk.erase (k : K) (x : Blk K B V) : Blk K B V :=
  ⟨x.hash, x.prev, x.writes.filter (fun p => decide (p.1 ≠ k))⟩

/-- forgetting key `k` in every block -/
def eraseKey (k : K) (T : Tree K B V) : Tree K B V := T.map (Blk.erase k)

theorem pruneFrom_drop (dt : K → Nat) (k : K) (N i : Nat) (T : Tree K B V) (hN : i + T.length ≤ N) :
    pruneFrom (fun k' => if k' = k then N else dt k') i T = eraseKey k (pruneFrom dt i T) := by
  induction T generalizing i with
  | nil => rfl
  | cons x r ih =>
    simp only [pruneFrom, eraseKey, List.map_cons]
    simp only [List.length_cons] at hN
    congr 1
    · unfold Blk.keep Blk.erase
      simp only [List.filter_filter]
      congr 1
      apply List.filter_congr
      intro p _
      by_cases hp : p.1 = k
      · simp [hp]; omega
      · simp [hp]
    · exact ih (i + 1) (by omega)

theorem prune_drop (dt : K → Nat) (k : K) (T : Tree K B V) :
    prune (fun k' => if k' = k then T.length else dt k') T = eraseKey k (prune dt T) := by
  unfold prune; exact pruneFrom_drop dt k T.length 0 T (by omega)

theorem eraseKey_find (k : K) (T : Tree K B V) (b : B) :
    (eraseKey k T).find b = (T.find b).map (Blk.erase k) := by
  induction T with
  | nil => rfl
  | cons x r ih =>
    unfold eraseKey at *
    simp only [List.map_cons]
    by_cases hx : x.hash = b
    · have hx' : (Blk.erase k x).hash = b := hx
      rw [Tree.find_cons_eq _ _ hx', Tree.find_cons_eq _ _ hx]; rfl
    · have hx' : (Blk.erase k x).hash ≠ b := hx
      rw [Tree.find_cons_ne _ _ hx', Tree.find_cons_ne _ _ hx]; exact ih

theorem Blk.erase_lookup (k k' : K) (x : Blk K B V) :
    alookup (Blk.erase k x).writes k' = if k' = k then none else alookup x.writes k' := by
  unfold Blk.erase
  have := alookup_filter_key x.writes (fun a => decide (a ≠ k)) k'
  rw [this]
  by_cases h : k' = k <;> simp [h]

/-- answers for other keys do not see the erasure -/
theorem Chain.eraseKey {T : Tree K B V} {k k' : K} (hk : k' ≠ k) {b : B} {e : Entry V}
    (h : Chain T k' b e) : Chain (eraseKey k T) k' b e := by
  induction h with
  | here hf hwr =>
    rename_i _b x _e
    exact .here (x := Blk.erase k x) (by rw [eraseKey_find, hf]; rfl) (by rw [Blk.erase_lookup]; simp [hk]; exact hwr)
  | up hf hwr hc ih =>
    rename_i _b x _e
    exact .up (x := Blk.erase k x) (by rw [eraseKey_find, hf]; rfl) (by rw [Blk.erase_lookup]; simp [hk]; exact hwr) ih

theorem entryAt_remove (sc : SC K B V) (k k' : K) (b : B) :
    entryAt (sc.remove k) k' b = if k = k' then none else entryAt sc k' b := by
  unfold SC.remove
  cases hk : alookup sc.cache k with
  | none =>
    by_cases hkk : k = k'
    · subst hkk; simp [entryAt, hk]
    · simp [hkk]
  | some m =>
    unfold entryAt
    simp only [alookup_aerase]
    by_cases hkk : k = k' <;> simp [hkk]

/-- `Remove(k)` keeps the invariant for the tree that has forgotten `k` -/
theorem Inv.remove {sc : SC K B V} {T : Tree K B V} (hI : Inv sc T none) (k : K) :
    Inv (sc.remove k) (eraseKey k T) none := by
  have hlink : ∀ b, linkAt (sc.remove k) b = linkAt sc b := by
    intro b; unfold SC.remove linkAt; cases alookup sc.cache k <;> rfl
  refine ⟨fun k' b e h => ?_, fun b p h => ?_, fun b x h => ?_⟩
  · rw [entryAt_remove] at h
    by_cases hkk : k = k'
    · simp [hkk] at h
    · simp [hkk] at h
      exact (hI.sound k' b e h).eraseKey (fun e => hkk e.symm)
  · rw [hlink] at h
    obtain ⟨x, hx, hp, hw⟩ := hI.linked b p h
    refine ⟨Blk.erase k x, by rw [eraseKey_find, hx]; rfl, hp, fun k' e hk' => ?_⟩
    rw [Blk.erase_lookup] at hk'
    by_cases hkk : k' = k
    · simp [hkk] at hk'
    · simp [hkk] at hk'
      rw [entryAt_remove]
      have : ¬ k = k' := fun e => hkk e.symm
      simp [this]; exact hw k' e hk'
  · rw [eraseKey_find] at h
    cases hf : T.find b with
    | none => rw [hf] at h; cases h
    | some y =>
      rcases hI.committed b y hf with h' | h'
      · exact .inl (by rw [hlink]; exact h')
      · cases h'

/-! ### answers in the pruned tree are answers in the real tree, when blocks are committed in ancestor order -/

/-- no block is committed after one of its descendants: a committed parent is older than its committed child -/
def InOrder (T : Tree K B V) : Prop :=
  ∀ b x xp, T.find b = some x → T.find x.prev = some xp → T.ct x.prev < T.ct b

/-- `o` is reached from `b` by following parent links through committed blocks (zero or more steps) -/
inductive Reach (T : Tree K B V) : B → B → Prop where
  | refl (b : B) : Reach T b b
  | step {b o : B} {x : Blk K B V} : T.find b = some x → Reach T x.prev o → Reach T b o

theorem ct_lt_of_reach' {T : Tree K B V} (hO : InOrder T) {p o : B} (hr : Reach T p o) :
    ∀ (b : B) (x xo : Blk K B V), T.find b = some x → x.prev = p → T.find o = some xo → T.ct o < T.ct b := by
  induction hr with
  | refl c => intro b x xo hb hp ho; subst hp; exact hO b x xo hb ho
  | step hf hr' ih =>
    rename_i c o' xc
    intro b x xo hb hp ho
    subst hp
    have h1 := ih _ xc xo hf rfl ho
    have h2 := hO b x xc hb hf
    exact Nat.lt_trans h1 h2

theorem ct_lt_of_reach {T : Tree K B V} (hO : InOrder T) {b o : B} {x xo : Blk K B V}
    (hb : T.find b = some x) (hr : Reach T x.prev o) (ho : T.find o = some xo) : T.ct o < T.ct b :=
  ct_lt_of_reach' hO hr b x xo hb rfl ho

theorem prune_find_some {dt : K → Nat} {T : Tree K B V} {b : B} {x' : Blk K B V}
    (h : (prune dt T).find b = some x') :
    ∃ x, T.find b = some x ∧ x' = x.keep dt (T.ct b) := by
  rw [prune_find] at h
  cases hf : T.find b with
  | none => rw [hf] at h; cases h
  | some x => rw [hf] at h; simp at h; exact ⟨x, rfl, h.symm⟩

theorem Blk.keep_lookup (dt : K → Nat) (i : Nat) (x : Blk K B V) (k : K) :
    alookup (x.keep dt i).writes k = if dt k ≤ i then alookup x.writes k else none := by
  unfold Blk.keep
  have := alookup_filter_key x.writes (fun a => decide (dt a ≤ i)) k
  rw [this]
  by_cases h : dt k ≤ i <;> simp [h]

theorem Chain.of_prune {dt : K → Nat} {T : Tree K B V} (hO : InOrder T) {k : K} {b : B} {e : Entry V}
    (h : Chain (prune dt T) k b e) :
    Chain T k b e ∧ ∃ o xo, Reach T b o ∧ T.find o = some xo ∧ dt k ≤ T.ct o := by
  induction h with
  | here hf hw =>
    rename_i b x' e
    obtain ⟨x, hx, rfl⟩ := prune_find_some hf
    rw [Blk.keep_lookup] at hw
    by_cases hd : dt k ≤ T.ct b
    · simp only [hd, if_true] at hw
      exact ⟨.here hx hw, b, x, .refl b, hx, hd⟩
    · simp [hd] at hw
  | up hf hw hc ih =>
    rename_i b x' e
    obtain ⟨x, hx, rfl⟩ := prune_find_some hf
    obtain ⟨hch, o, xo, hr, ho, hfresh⟩ := ih
    have hprev : (x.keep dt (T.ct b)).prev = x.prev := rfl
    rw [hprev] at hch hr
    cases hwx : alookup x.writes k with
    | none => exact ⟨.up hx hwx hch, o, xo, .step hx hr, ho, hfresh⟩
    | some e0 =>
      -- the block wrote `k` but the cache forgot it: then it is older than the last drop, yet a proper descendant of
      -- the fresh origin — impossible when blocks are committed in ancestor order
      rw [Blk.keep_lookup, hwx] at hw
      by_cases hd : dt k ≤ T.ct b
      · simp [hd] at hw
      · have := ct_lt_of_reach hO hx hr ho
        omega

/-! ### histories with `Remove` -/

/-- no LRU evicts: the eviction counter moves only at `Remove` operations -/
def NoLRUEviction : Sys H K B V → List (Op H K B V) → Prop
  | _, [] => True
  | s, op :: ops =>
    (op.isRemove = false → (s.step op).1.sc.evictions = s.sc.evictions) ∧ NoLRUEviction (s.step op).1 ops

/-- every tree reached along the history is in ancestor order -/
def InOrderRun : Sys H K B V → Tree K B V → List (Op H K B V) → Prop
  | _, T, [] => InOrder T
  | s, T, op :: ops => InOrder T ∧ InOrderRun (s.step op).1 (s.treeStep T op) ops

theorem Sys.ctx_out (s : Sys H K B V) (op : Op H K B V) {c : List (List (K × Entry V)) × B × K}
    (h : s.ctx op = some c) : ∃ r, (s.step op).2 = Out.ofOption r := by
  cases op with
  | tget t k =>
    simp only [Sys.ctx] at h
    simp only [Sys.step]
    cases h1 : alookup s.tcs t with
    | none => simp [h1] at h
    | some tc =>
      simp only [h1] at h ⊢
      cases alookup tc.cache k with
      | some e => exact ⟨_, rfl⟩
      | none =>
        simp only
        cases h3 : tc.main with
        | block hh =>
          simp only [h3] at h ⊢
          cases h4 : alookup s.bcs hh with
          | none => simp [h4] at h
          | some bc => exact ⟨_, rfl⟩
        | query b => exact ⟨_, rfl⟩
  | bget hh k =>
    simp only [Sys.ctx] at h
    simp only [Sys.step]
    cases h4 : alookup s.bcs hh with
    | none => simp [h4] at h
    | some bc => exact ⟨_, rfl⟩
  | qget b k => exact ⟨_, rfl⟩
  | sget k b => exact ⟨_, rfl⟩
  | blk _ _ _ => simp [Sys.ctx] at h
  | bhash _ _ => simp [Sys.ctx] at h
  | txn _ _ => simp [Sys.ctx] at h
  | qtxn _ _ => simp [Sys.ctx] at h
  | tset _ _ _ => simp [Sys.ctx] at h
  | trem _ _ => simp [Sys.ctx] at h
  | tcommit _ => simp [Sys.ctx] at h
  | bset _ _ _ => simp [Sys.ctx] at h
  | bcommit _ => simp [Sys.ctx] at h
  | srem _ => simp [Sys.ctx] at h

/-- executable check of `InOrder` -/
def inOrderB (T : Tree K B V) : Bool :=
  T.all (fun x => match T.find x.prev with
    | some _ => decide (T.ct x.prev < T.ct x.hash)
    | none => true)

theorem Tree.find_mem {T : Tree K B V} {b : B} {x : Blk K B V} (h : T.find b = some x) : x ∈ T ∧ x.hash = b := by
  unfold Tree.find at h
  exact ⟨List.mem_of_find?_eq_some h, by simpa using List.find?_some h⟩

theorem InOrder.of_b {T : Tree K B V} (h : inOrderB T = true) : InOrder T := by
  intro b x xp hb hp
  obtain ⟨hm, hh⟩ := Tree.find_mem hb
  unfold inOrderB at h
  have := List.all_eq_true.mp h x hm
  simp only [hp, decide_eq_true_eq] at this
  rw [hh] at this; exact this

def inOrderRunB : Sys H K B V → Tree K B V → List (Op H K B V) → Bool
  | _, T, [] => inOrderB T
  | s, T, op :: ops => inOrderB T && inOrderRunB (s.step op).1 (s.treeStep T op) ops

theorem InOrderRun.of_b {s : Sys H K B V} {T : Tree K B V} {ops : List (Op H K B V)}
    (h : inOrderRunB s T ops = true) : InOrderRun s T ops := by
  induction ops generalizing s T with
  | nil => exact InOrder.of_b h
  | cons op ops ih =>
    simp only [inOrderRunB, Bool.and_eq_true] at h
    exact ⟨InOrder.of_b h.1, ih h.2⟩

/-- an answer in the pruned tree is an answer in the real tree -/
theorem Answer.of_prune {dt : K → Nat} {T : Tree K B V} (hO : InOrder T) {pend : List (List (K × Entry V))}
    {b : B} {k : K} {e : Entry V} (h : Answer (prune dt T) pend b k e) : Answer T pend b k e := by
  unfold Answer at *
  cases hp : pendLookup pend k with
  | some e' => rw [hp] at h; exact h
  | none => rw [hp] at h; exact (Chain.of_prune hO h).1

theorem Sys.treeStep_prune (s : Sys H K B V) (T : Tree K B V) (dt : K → Nat) (op : Op H K B V)
    (hD : ∀ k, dt k ≤ T.length) : s.treeStep (prune dt T) op = prune dt (s.treeStep T op) := by
  cases op <;> simp only [Sys.treeStep]
  rename_i h
  cases alookup s.bcs h with
  | none => rfl
  | some bc => exact prune_commit dt T _ hD

theorem Tree.commit_length_le (T : Tree K B V) (x : Blk K B V) : T.length ≤ (T.commit x).length := by
  unfold Tree.commit
  cases T.find x.hash <;> simp

theorem Sys.treeStep_length_le (s : Sys H K B V) (T : Tree K B V) (op : Op H K B V) :
    T.length ≤ (s.treeStep T op).length := by
  cases op <;> simp only [Sys.treeStep] <;> try exact Nat.le_refl _
  rename_i h
  cases alookup s.bcs h with
  | none => exact Nat.le_refl _
  | some bc => exact Tree.commit_length_le _ _

/-- the drop times after an operation: `Remove(k)` sets the drop time of `k` to "now" -/
def dropStep (T : Tree K B V) (dt : K → Nat) : Op H K B V → K → Nat
  | .srem k => fun k' => if k' = k then T.length else dt k'
  | _ => dt

/-- histories with `Remove`s anywhere: if no LRU evicts and blocks are committed in ancestor order, every lookup is
    correct -/
theorem Sys.run_ok_drops (s : Sys H K B V) (T : Tree K B V) (dt : K → Nat) (ops : List (Op H K B V))
    (hS : SysInv s (prune dt T)) (hD : ∀ k, dt k ≤ T.length)
    (hne : NoLRUEviction s ops) (hio : InOrderRun s T ops) : AllOK s T ops := by
  induction ops generalizing s T dt with
  | nil => trivial
  | cons op ops ih =>
    obtain ⟨hev, hne'⟩ := hne
    obtain ⟨hO, hio'⟩ := hio
    by_cases hr : op.isRemove = true
    · -- a Remove
      cases op with
      | srem k =>
        refine ⟨fun pend b k' hc => by simp [Sys.ctx] at hc, ?_⟩
        have hstep : (s.step (.srem k)).1 = { s with sc := s.sc.remove k } := rfl
        have htree : s.treeStep T (.srem k) = T := rfl
        rw [htree] at hio' ⊢
        apply ih (s.step (.srem k)).1 T (fun k' => if k' = k then T.length else dt k') ?_ ?_ hne' hio'
        · rw [hstep, prune_drop]
          exact ⟨hS.inv.remove k, hS.nodup⟩
        · intro k'; by_cases hk : k' = k <;> simp [hk, hD k']
      | _ => simp [Op.isRemove] at hr
    · have hr' : op.isRemove = false := by simpa using hr
      have h1 := hev hr'
      have hok := Sys.step_ok s op hS h1
      have hinv := Sys.step_inv s op hS h1
      rw [Sys.treeStep_prune s T dt op hD] at hinv
      refine ⟨?_, ih _ _ dt hinv (fun k => Nat.le_trans (hD k) (Sys.treeStep_length_le s T op)) hne' hio'⟩
      intro pend b k hc
      obtain ⟨h2, _⟩ := hok pend b k hc
      refine ⟨fun v hv => Answer.of_prune hO (h2 v hv), fun ht => ?_⟩
      obtain ⟨r, hr⟩ := Sys.ctx_out s op hc
      cases r with
      | none => exact hr
      | some v =>
        have := Answer.of_prune hO (h2 v hr)
        exact absurd (Answer.det this ht) (by intro hh; cases hh)

end Verif.SC
