/-
Lemmas about the stored-node codec model (Verif.Model.MptCodec): no decoder path panics, accepted input re-encodes,
encode/decode round trip on well-formed nodes.
-/
import Verif.Model.MptCodec
namespace Verif.Codec
open Verif.Mpt (Bytes le64 hexBytes hexDigit sep Nib nibChar Node key)

/-! ### Slice primitives -/

theorem indexByte_neg_or (b : Bytes) (c : UInt8) :
    indexByte b c = -1 ∨ (0 ≤ indexByte b c ∧ indexByte b c < (b.length : Int)) := by
  unfold indexByte
  by_cases h : c ∈ b
  · right
    simp only [h, if_true]
    refine ⟨by omega, ?_⟩
    have := List.idxOf_lt_length_iff.mpr h
    omega
  · left; simp [h]

theorem sliceTo_ok (b : Bytes) (n : Int) (h0 : 0 ≤ n) (h1 : n ≤ (b.length : Int)) :
    sliceTo b n = .ok (b.take n.toNat) := by simp [sliceTo, h0, h1]

theorem sliceFrom_ok (b : Bytes) (n : Int) (h0 : 0 ≤ n) (h1 : n ≤ (b.length : Int)) :
    sliceFrom b n = .ok (b.drop n.toNat) := by simp [sliceFrom, h0, h1]

theorem hexDecodeInto_no_panic (cap : Nat) (src : Bytes) (i : Nat) (acc : Bytes)
    (h : i + src.length / 2 ≤ cap) : hexDecodeInto cap src i acc ≠ .panic := by
  fun_induction hexDecodeInto cap src i acc with
  | case1 p q rest i acc a b ha hb hlt ih =>
    apply ih
    simp at h; omega
  | case2 p q rest i acc a b ha hb hlt =>
    simp at h; omega
  | case3 => simp
  | case4 => simp
  | case5 => simp

theorem decodeLeaf_no_panic (buf : Bytes) : decodeLeaf buf ≠ .panic := by
  unfold decodeLeaf
  rcases indexByte_neg_or buf sep with h | ⟨h0, h1⟩
  · simp [h]
  · have hn : ¬ indexByte buf sep < 0 := by omega
    simp only [hn, if_false]
    rw [sliceTo_ok _ _ h0 (by omega), sliceFrom_ok _ _ (by omega) (by omega)]
    simp only
    generalize List.drop (indexByte buf sep + 1).toNat buf = buf2
    rcases indexByte_neg_or buf2 sep with h | ⟨h0, h1⟩
    · simp [h]
    · have hn : ¬ indexByte buf2 sep < 0 := by omega
      simp only [hn, if_false]
      rw [sliceTo_ok _ _ h0 (by omega), sliceFrom_ok _ _ (by omega) (by omega)]
      simp

theorem decodeExt_no_panic (buf : Bytes) : decodeExt buf ≠ .panic := by
  unfold decodeExt
  rcases indexByte_neg_or buf sep with h | ⟨h0, h1⟩
  · simp [h]
  · have hn : ¬ indexByte buf sep < 0 := by omega
    simp only [hn, if_false]
    rw [sliceTo_ok _ _ h0 (by omega), sliceFrom_ok _ _ (by omega) (by omega)]
    simp

theorem decodeFullLoop_no_panic (n : Nat) (buf : Bytes) (acc : List (Option Bytes)) :
    decodeFullLoop n buf acc ≠ .panic := by
  induction n generalizing buf acc with
  | zero => simp [decodeFullLoop]
  | succ n ih =>
    unfold decodeFullLoop
    rcases indexByte_neg_or buf sep with h | ⟨h0, h1⟩
    · simp [h]
    · have hn : ¬ indexByte buf sep < 0 := by omega
      simp only [hn, if_false]
      by_cases hpos : indexByte buf sep > 0
      · simp only [hpos, if_true]
        by_cases hbig : indexByte buf sep / 2 > 32
        · simp [hbig]
        · simp only [hbig, if_false]
          rw [sliceTo_ok _ _ h0 (by omega), sliceFrom_ok _ _ (by omega) (by omega)]
          simp only
          have hlen : (List.take (indexByte buf sep).toNat buf).length / 2 ≤ 32 := by
            rw [List.length_take]
            omega
          have := hexDecodeInto_no_panic 32 (List.take (indexByte buf sep).toNat buf) 0 [] (by omega)
          split
          · exact ih _ _
          · simp
          · contradiction
      · simp only [hpos, if_false]
        rw [sliceFrom_ok _ _ (by omega) (by omega)]
        exact ih _ _

theorem decodeFull_no_panic (buf : Bytes) : decodeFull buf ≠ .panic := by
  unfold decodeFull
  have := decodeFullLoop_no_panic 16 buf []
  split <;> simp_all

theorem decode_no_panic (bs : Bytes) : decode bs ≠ .panic := by
  unfold decode
  cases bs with
  | nil => simp
  | cons t rest =>
    simp only
    split
    · split
      · simp
      · simp
      · rename_i h
        split at h
        · simp at h
        · split at h
          · exact absurd h (decodeLeaf_no_panic _)
          · split at h
            · exact absurd h (decodeFull_no_panic _)
            · exact absurd h (decodeExt_no_panic _)
    · simp

theorem decodeFullLoop_length (n : Nat) (buf : Bytes) (acc ch : List (Option Bytes)) (rest : Bytes)
    (h : decodeFullLoop n buf acc = .ok (ch, rest)) : ch.length = acc.length + n := by
  induction n generalizing buf acc with
  | zero => simp [decodeFullLoop] at h; simp [← h.1]
  | succ n ih =>
    unfold decodeFullLoop at h
    simp only at h
    split at h
    · simp at h
    · split at h
      · split at h
        · simp at h
        · split at h
          · split at h
            · split at h
              · have := ih _ _ h; simp at this; omega
              · simp at h
              · simp at h
            · simp at h
            · simp at h
          · simp at h
          · simp at h
      · split at h
        · have := ih _ _ h; simp at this; omega
        · simp at h
        · simp at h


theorem decodeLeaf_kind (buf : Bytes) (b : Body) (h : decodeLeaf buf = .ok b) : ∃ p q v, b = .leaf p q v := by
  unfold decodeLeaf at h
  simp only at h
  repeat' (split at h)
  all_goals first
    | (simp at h; done)
    | (simp only [DRes.ok.injEq] at h; exact ⟨_, _, _, h.symm⟩)

theorem decodeExt_kind (buf : Bytes) (b : Body) (h : decodeExt buf = .ok b) : ∃ p k, b = .ext p k := by
  unfold decodeExt at h
  simp only at h
  repeat' (split at h)
  all_goals first
    | (simp at h; done)
    | (simp only [DRes.ok.injEq] at h; exact ⟨_, _, h.symm⟩)

theorem encFullChecked_ok (ch : List (Option Bytes)) (n : Nat) (h : n ≤ ch.length) :
    encFullChecked ch n = .ok ((ch.take n).flatMap childField) := by
  induction n with
  | zero => simp [encFullChecked]
  | succ n ih =>
    have hn : n < ch.length := by omega
    simp only [encFullChecked, ih (by omega)]
    rw [List.getElem?_eq_getElem hn]
    simp only
    have e : List.take (n + 1) ch = List.take n ch ++ [ch[n]] := by
      rw [List.take_add_one]; simp [List.getElem?_eq_getElem hn]
    rw [e, List.flatMap_append]
    simp

theorem decode_full_length (bs : Bytes) (ver org : Nat) (ch : List (Option Bytes)) (v : Option Bytes)
    (h : decode bs = .ok ⟨ver, org, .full ch v⟩) : ch.length = 16 := by
  unfold decode at h
  cases bs with
  | nil => simp at h
  | cons t rest =>
    simp only at h
    split at h
    · split at h
      · rename_i b hb
        simp only [DRes.ok.injEq, Repr.mk.injEq] at h
        obtain ⟨_, _, rfl⟩ := h
        split at hb
        · simp at hb
        · split at hb
          · obtain ⟨p, q, v', e⟩ := decodeLeaf_kind _ _ hb
            simp at e
          · split at hb
            · unfold decodeFull at hb
              split at hb
              · rename_i ch' rest' hl
                simp only [DRes.ok.injEq, Body.full.injEq] at hb
                have := decodeFullLoop_length 16 _ [] ch' rest' hl
                simp at this
                rw [← hb.1]; exact this
              · simp at hb
              · simp at hb
            · obtain ⟨p, k, e⟩ := decodeExt_kind _ _ hb
              simp at e
      · simp at h
      · simp at h
    · simp at h

theorem reencode_ok (bs : Bytes) (r : Repr) (h : decode bs = .ok r) : encodeChecked r = .ok (encode r) := by
  obtain ⟨ver, org, body⟩ := r
  cases body with
  | full ch v =>
    have hl := decode_full_length bs ver org ch v h
    simp only [encodeChecked, encFullChecked_ok ch 16 (by omega)]
    simp [encode, typeByte, encBody, ← hl]
  | value v => simp [encodeChecked]
  | leaf p q v => simp [encodeChecked]
  | ext p k => simp [encodeChecked]


/-! ### Round trip -/

theorem le64_length (n : Nat) : (le64 n).length = 8 := by simp [le64]

theorem fromLE_le64 (n : Nat) (h : n < 2 ^ 64) : fromLE (le64 n) = n := by
  simp only [le64, List.range, List.range.loop, List.map, fromLE, UInt8.toNat_ofNat', Nat.shiftRight_eq_div_pow]
  omega

theorem readTracker_le64 (v o : Nat) (hv : v < 2 ^ 64) (ho : o < 2 ^ 64) (body : Bytes) :
    readTracker (le64 v ++ (le64 o ++ body)) = (v, o, body) := by
  have h1 : (le64 v ++ (le64 o ++ body)).take 8 = le64 v := by
    rw [List.take_append_of_le_length (by simp [le64_length])]; simp [List.take_of_length_le, le64_length]
  have h2 : (le64 v ++ (le64 o ++ body)).drop 8 = le64 o ++ body := by
    rw [List.drop_append_of_le_length (by simp [le64_length])]; simp [List.drop_of_length_le, le64_length]
  have h3 : (le64 o ++ body).take 8 = le64 o := by
    rw [List.take_append_of_le_length (by simp [le64_length])]; simp [List.take_of_length_le, le64_length]
  have h4 : (le64 o ++ body).drop 8 = body := by
    rw [List.drop_append_of_le_length (by simp [le64_length])]; simp [List.drop_of_length_le, le64_length]
  unfold readTracker
  simp only [h1, h2, h3, h4, fromLE_le64 _ hv, fromLE_le64 _ ho]
  have a : ¬ ((le64 v ++ (le64 o ++ body)).length < 8) := by simp [le64_length]
  have b : ¬ ((le64 o ++ body).length < 8) := by simp [le64_length]
  simp only [a, b, if_false]

theorem indexByte_append (p rest : Bytes) (c : UInt8) (h : c ∉ p) :
    indexByte (p ++ c :: rest) c = (p.length : Int) := by
  unfold indexByte
  have hm : c ∈ p ++ c :: rest := by simp
  simp only [hm, if_true]
  rw [List.idxOf_append]
  simp [h]


theorem take_append_len (p rest : Bytes) : (p ++ rest).take p.length = p := by simp

theorem drop_append_len1 (p rest : Bytes) (c : UInt8) : (p ++ c :: rest).drop (p.length + 1) = rest := by
  rw [show p ++ c :: rest = (p ++ [c]) ++ rest by simp]
  rw [List.drop_append_of_le_length (by simp)]
  simp

theorem optBytes_length (v : Option Bytes) (h : optNonEmpty v) :
    (if (optBytes v).length = 0 then none else some (optBytes v)) = v := by
  cases v with
  | none => simp [optBytes]
  | some b => simp [optBytes, optNonEmpty] at *; exact h

theorem sep_not_hex (p : Bytes) (h : ∀ c ∈ p, isHexDigit c = true) : sep ∉ p := by
  intro hm
  have := h _ hm
  simp [isHexDigit, sep] at this

theorem decodeLeaf_enc (p q : Bytes) (v : Option Bytes) (hp : sep ∉ p) (hq : sep ∉ q) (hv : optNonEmpty v) :
    decodeLeaf (p ++ [sep] ++ q ++ [sep] ++ optBytes v) = .ok (.leaf p q v) := by
  have e : p ++ [sep] ++ q ++ [sep] ++ optBytes v = p ++ sep :: (q ++ sep :: optBytes v) := by simp
  rw [e]
  unfold decodeLeaf
  simp only [indexByte_append _ _ _ hp]
  have hn : ¬ ((p.length : Int) < 0) := by omega
  simp only [hn, if_false]
  rw [sliceTo_ok _ _ (by omega) (by simp; omega), sliceFrom_ok _ _ (by omega) (by simp; omega)]
  simp only [Int.toNat_natCast, take_append_len]
  rw [show ((p.length : Int) + 1).toNat = p.length + 1 by omega, drop_append_len1]
  simp only [indexByte_append _ _ _ hq]
  have hn : ¬ ((q.length : Int) < 0) := by omega
  simp only [hn, if_false]
  rw [sliceTo_ok _ _ (by omega) (by simp; omega), sliceFrom_ok _ _ (by omega) (by simp; omega)]
  simp only [Int.toNat_natCast, take_append_len]
  rw [show ((q.length : Int) + 1).toNat = q.length + 1 by omega, drop_append_len1]
  simp only [optBytes_length v hv]

theorem decodeExt_enc (p k : Bytes) (hp : sep ∉ p) : decodeExt (p ++ [sep] ++ k) = .ok (.ext p k) := by
  have e : p ++ [sep] ++ k = p ++ sep :: k := by simp
  rw [e]
  unfold decodeExt
  simp only [indexByte_append _ _ _ hp]
  have hn : ¬ ((p.length : Int) < 0) := by omega
  simp only [hn, if_false]
  rw [sliceTo_ok _ _ (by omega) (by simp; omega), sliceFrom_ok _ _ (by omega) (by simp; omega)]
  simp only [Int.toNat_natCast, take_append_len]
  rw [show ((p.length : Int) + 1).toNat = p.length + 1 by omega, drop_append_len1]


theorem fromHexChar_hexDigit (n : Nat) (h : n < 16) : fromHexChar (hexDigit n) = some (UInt8.ofNat n) := by
  have : ∀ m : Fin 16, fromHexChar (hexDigit m.val) = some (UInt8.ofNat m.val) := by decide
  exact this ⟨n, h⟩

theorem hexDigit_ne_sep (n : Nat) (h : n < 16) : hexDigit n ≠ sep := by
  have : ∀ m : Fin 16, hexDigit m.val ≠ sep := by decide
  exact this ⟨n, h⟩

theorem nibble_join (x : UInt8) : UInt8.ofNat (x.toNat / 16) * 16 + UInt8.ofNat (x.toNat % 16) = x := by
  apply UInt8.toNat_inj.mp
  have := x.toNat_lt
  simp only [UInt8.toNat_add, UInt8.toNat_mul, UInt8.toNat_ofNat']
  simp
  omega

theorem hexDecodeInto_hexBytes (cap : Nat) (k : Bytes) (i : Nat) (acc : Bytes) (h : i + k.length ≤ cap) :
    hexDecodeInto cap (hexBytes k) i acc = .ok (acc ++ k ++ List.replicate (cap - i - k.length) 0) := by
  induction k generalizing i acc with
  | nil => simp [hexBytes, hexDecodeInto]
  | cons x k ih =>
    have hx := x.toNat_lt
    simp only [hexBytes, List.flatMap_cons, List.cons_append, List.nil_append]
    unfold hexDecodeInto
    rw [fromHexChar_hexDigit _ (by omega), fromHexChar_hexDigit _ (by omega)]
    simp only [List.length_cons] at h
    have hi : i < cap := by omega
    simp only [hi, if_true, nibble_join]
    have := ih (i + 1) (acc ++ [x]) (by omega)
    simp only [hexBytes] at this
    rw [this]
    have e : cap - (i + 1) - k.length = cap - i - (k.length + 1) := by omega
    simp [e]

theorem sep_not_mem_hexBytes (k : Bytes) : sep ∉ hexBytes k := by
  induction k with
  | nil => simp [hexBytes]
  | cons x k ih =>
    have hx := x.toNat_lt
    simp only [hexBytes, List.flatMap_cons, List.mem_append, not_or] at *
    refine ⟨?_, ih⟩
    simp
    exact ⟨(hexDigit_ne_sep _ (by omega)).symm, (hexDigit_ne_sep _ (by omega)).symm⟩

theorem hexBytes_length (k : Bytes) : (hexBytes k).length = 2 * k.length := by
  induction k with
  | nil => simp [hexBytes]
  | cons x k ih =>
    have e : hexBytes (x :: k) = [hexDigit (x.toNat / 16), hexDigit (x.toNat % 16)] ++ hexBytes k := by
      simp [hexBytes]
    rw [e, List.length_append, ih]
    simp
    omega


theorem decodeFullLoop_step_none (n : Nat) (rest : Bytes) (acc : List (Option Bytes)) :
    decodeFullLoop (n + 1) (sep :: rest) acc = decodeFullLoop n rest (none :: acc) := by
  rw [decodeFullLoop]
  have hi : indexByte (sep :: rest) sep = 0 := by
    have := indexByte_append [] rest sep (by simp)
    simpa using this
  simp only [hi, Int.lt_irrefl, if_false, gt_iff_lt]
  rw [sliceFrom_ok _ _ (by omega) (by simp only [List.length_cons]; omega)]
  simp

theorem decodeFullLoop_step_some (n : Nat) (k rest : Bytes) (acc : List (Option Bytes)) (hl : k.length = 32) :
    decodeFullLoop (n + 1) (hexBytes k ++ sep :: rest) acc = decodeFullLoop n rest (some k :: acc) := by
  rw [decodeFullLoop]
  have hhl : (hexBytes k).length = 64 := by rw [hexBytes_length, hl]
  have hi : indexByte (hexBytes k ++ sep :: rest) sep = 64 := by
    rw [indexByte_append _ _ sep (sep_not_mem_hexBytes k), hhl]; rfl
  simp only [hi]
  have h1 : ¬ ((64 : Int) < 0) := by omega
  have h2 : ((64 : Int) > 0) := by omega
  have h3 : ¬ ((64 : Int) / 2 > 32) := by omega
  simp only [h1, h2, h3, if_false, if_true]
  rw [sliceTo_ok _ _ (by omega) (by simp only [List.length_append, List.length_cons, hhl]; omega),
    sliceFrom_ok _ _ (by omega) (by simp only [List.length_append, List.length_cons, hhl]; omega)]
  have e1 : (64 : Int).toNat = (hexBytes k).length := by rw [hhl]; rfl
  have e2 : ((64 : Int) + 1).toNat = (hexBytes k).length + 1 := by rw [hhl]; rfl
  rw [e1, e2, take_append_len, drop_append_len1]
  simp only [hexDecodeInto_hexBytes 32 k 0 [] (by omega)]
  simp [hl]

theorem decodeFullLoop_enc (ch : List (Option Bytes)) (hk : ∀ k, some k ∈ ch → k.length = 32) (m : Nat)
    (tail : Bytes) (acc : List (Option Bytes)) :
    decodeFullLoop (ch.length + m) (ch.flatMap childField ++ tail) acc = decodeFullLoop m tail (ch.reverse ++ acc) := by
  induction ch generalizing acc with
  | nil => simp
  | cons c ch ih =>
    have hk' : ∀ k, some k ∈ ch → k.length = 32 := fun k hm => hk k (List.mem_cons_of_mem _ hm)
    rw [show (c :: ch).length + m = (ch.length + m) + 1 by simp only [List.length_cons]; omega]
    cases c with
    | none =>
      have e : List.flatMap childField (none :: ch) ++ tail = sep :: (ch.flatMap childField ++ tail) := by
        simp [childField]
      rw [e, decodeFullLoop_step_none, ih hk']
      simp
    | some k =>
      have e : List.flatMap childField (some k :: ch) ++ tail = hexBytes k ++ sep :: (ch.flatMap childField ++ tail) := by
        simp [childField]
      rw [e, decodeFullLoop_step_some _ _ _ _ (hk k (by simp)), ih hk']
      simp

theorem decodeFull_enc (ch : List (Option Bytes)) (v : Option Bytes) (hl : ch.length = 16)
    (hk : ∀ k, some k ∈ ch → k.length = 32) (hv : optNonEmpty v) :
    decodeFull (ch.flatMap childField ++ optBytes v) = .ok (.full ch v) := by
  unfold decodeFull
  have := decodeFullLoop_enc ch hk 0 (optBytes v) []
  simp only [Nat.add_zero, hl, List.append_nil] at this
  rw [this]
  simp only [decodeFullLoop, List.reverse_reverse, optBytes_length v hv]

theorem typeByte_and (b : Body) : typeByte b &&& 15 = typeByte b := by cases b <;> (simp only [typeByte]; decide)

theorem decode_encode (r : Repr) (h : ReprWF r) : decode (encode r) = .ok r := by
  obtain ⟨ver, org, body⟩ := r
  obtain ⟨hv, ho, hb⟩ := h
  simp only at hv ho hb
  unfold decode encode
  simp only [typeByte_and, List.append_assoc, readTracker_le64 ver org hv ho]
  cases body with
  | value v => simp [typeByte, encBody]
  | leaf p q v =>
    obtain ⟨hp, hq, hvv⟩ := hb
    have := decodeLeaf_enc p q v (sep_not_hex p hp) (sep_not_hex q hq) hvv
    have this' : decodeLeaf (p ++ sep :: (q ++ sep :: optBytes v)) = .ok (.leaf p q v) := by simpa using this
    simp [typeByte, encBody, this']
  | full ch v =>
    obtain ⟨hl, hk, hvv⟩ := hb
    simp [typeByte, encBody, decodeFull_enc ch v hl hk hvv]
  | ext p k =>
    have := decodeExt_enc p k (sep_not_hex p hb)
    have this' : decodeExt (p ++ sep :: k) = .ok (.ext p k) := by simpa using this
    simp [typeByte, encBody, this']



/-! ### Tie to the structural trie model -/

theorem le64_w64 (n : Nat) : le64 (w64 n) = le64 n := by
  unfold le64 w64
  apply List.map_congr_left
  intro k hk
  have hk8 : k < 8 := by simpa using hk
  congr 1
  simp only [Nat.shiftRight_eq_div_pow]
  have : k = 0 ∨ k = 1 ∨ k = 2 ∨ k = 3 ∨ k = 4 ∨ k = 5 ∨ k = 6 ∨ k = 7 := by omega
  rcases this with rfl | rfl | rfl | rfl | rfl | rfl | rfl | rfl <;> omega

theorem w64_lt (n : Nat) : w64 n < 2 ^ 64 := Nat.mod_lt _ (by decide)

theorem nibChar_hex (n : Nib) : isHexDigit (nibChar n) = true := by revert n; decide

theorem optBytes_ifEmpty (lv : Bytes) : optBytes (if lv = [] then none else some lv) = lv := by
  by_cases h : lv = [] <;> simp [h, optBytes]

theorem optNonEmpty_ifEmpty (lv : Bytes) : optNonEmpty (if lv = [] then none else some lv) := by
  by_cases h : lv = [] <;> simp [h, optNonEmpty]

/-- the key of a (non-empty) subtree is the hash of the hash input of its stored root node -/
theorem key_eq_hash_reprOf (H : Bytes → Bytes) (t : Node) (pre : List Nib) (ht : t.isEmpty = false) :
    key H t pre = H (hashBytes (reprOf H t pre)) := by
  cases t with
  | empty => simp [Node.isEmpty] at ht
  | leaf o lp lv =>
    simp only [key, reprOf, hashBytes, encBody, le64_w64, optBytes_ifEmpty]
    simp
  | full o ch val =>
    simp only [key, reprOf, hashBytes, encBody, le64_w64]
    congr 1
    rw [List.flatMap_map]
    simp only [List.append_assoc]
    congr 1
    congr 1
    · congr 1
      funext i
      by_cases he : (ch i).isEmpty = true <;> simp [he, childField]
    · cases val with
      | none => simp [optBytes]
      | some b => by_cases hb : b = [] <;> simp [hb, optBytes]
  | ext o ep c =>
    simp only [key, reprOf, hashBytes, encBody, le64_w64]
    simp


theorem key_length (H : Bytes → Bytes) (hH : ∀ b, (H b).length = 32) (t : Node) (pre : List Nib)
    (ht : t.isEmpty = false) : (key H t pre).length = 32 := by
  cases t <;> simp_all [key, Node.isEmpty]

/-- the stored root node of any non-empty subtree is well-formed -/
theorem reprOf_wf (H : Bytes → Bytes) (hH : ∀ b, (H b).length = 32) (t : Node) (pre : List Nib) :
    ReprWF (reprOf H t pre) := by
  cases t with
  | empty => simp [reprOf, ReprWF, BodyWF]
  | leaf o lp lv =>
    refine ⟨w64_lt _, w64_lt _, ?_⟩
    simp only [reprOf, BodyWF]
    refine ⟨?_, ?_, optNonEmpty_ifEmpty lv⟩ <;>
    · intro c hc
      obtain ⟨n, _, rfl⟩ := List.mem_map.mp hc
      exact nibChar_hex n
  | full o ch val =>
    refine ⟨w64_lt _, w64_lt _, ?_⟩
    simp only [reprOf, BodyWF]
    refine ⟨by simp, ?_, ?_⟩
    · intro k hk
      obtain ⟨i, _, hi⟩ := List.mem_map.mp hk
      by_cases he : (ch i).isEmpty = true
      · simp [he] at hi
      · simp only [he] at hi
        simp only [Bool.false_eq_true, if_false, Option.some.injEq] at hi
        rw [← hi]
        exact key_length H hH _ _ (by simpa using he)
    · cases val with
      | none => simp [optNonEmpty]
      | some b => by_cases hb : b = [] <;> simp [hb, optNonEmpty]
  | ext o ep c =>
    refine ⟨w64_lt _, w64_lt _, ?_⟩
    simp only [reprOf, BodyWF]
    intro c hc
    obtain ⟨n, _, rfl⟩ := List.mem_map.mp hc
    exact nibChar_hex n

/-- every stored node of a trie is well-formed and stored under the hash of its own content -/
theorem nodesOf_spec (H : Bytes → Bytes) (hH : ∀ b, (H b).length = 32) (t : Node) (pre : List Nib) :
    ∀ e ∈ nodesOf H t pre, ReprWF e.2 ∧ e.1 = H (hashBytes e.2) := by
  induction t generalizing pre with
  | empty => simp [nodesOf]
  | leaf o lp lv =>
    intro e he
    simp only [nodesOf, List.mem_singleton] at he
    subst he
    exact ⟨reprOf_wf H hH _ _, key_eq_hash_reprOf H _ _ rfl⟩
  | full o ch val ih =>
    intro e he
    simp only [nodesOf, List.mem_cons, List.mem_flatMap] at he
    rcases he with rfl | ⟨i, _, hi⟩
    · exact ⟨reprOf_wf H hH _ _, key_eq_hash_reprOf H _ _ rfl⟩
    · exact ih i _ e hi
  | ext o ep c ih =>
    intro e he
    simp only [nodesOf, List.mem_cons] at he
    rcases he with rfl | hi
    · exact ⟨reprOf_wf H hH _ _, key_eq_hash_reprOf H _ _ rfl⟩
    · exact ih _ e hi

/-- the one-pass `entries` (run by the model driver) computes the key and the stored nodes -/
theorem entries_spec (H : Bytes → Bytes) (t : Node) (pre : List Nib) :
    entries H t pre = (key H t pre, nodesOf H t pre) := by
  induction t generalizing pre with
  | empty => simp [entries, key, nodesOf]
  | leaf o lp lv =>
    simp only [entries, nodesOf, ← key_eq_hash_reprOf H (.leaf o lp lv) pre rfl]
  | full o ch val ih =>
    have hk := key_eq_hash_reprOf H (.full o ch val) pre rfl
    simp only [entries, nodesOf, ih, List.map_map, List.flatMap_map]
    rw [hk]
    simp only [reprOf, Function.comp_def]
  | ext o ep c ih =>
    have hk := key_eq_hash_reprOf H (.ext o ep c) pre rfl
    simp only [entries, nodesOf, ih]
    rw [hk]
    simp only [reprOf]



/-! ### What `decode` guarantees about its result; idempotent re-encoding -/

/-- what `decode` guarantees about its result: enough for the round trip (`ReprWF` without the hex-digit requirement) -/
def BodyOK : Body → Prop
  | .value _ => True
  | .leaf p q v => sep ∉ p ∧ sep ∉ q ∧ optNonEmpty v
  | .full ch v => ch.length = 16 ∧ (∀ k, some k ∈ ch → k.length = 32) ∧ optNonEmpty v
  | .ext p _ => sep ∉ p

def ReprOK (r : Repr) : Prop := r.version < 2 ^ 64 ∧ r.origin < 2 ^ 64 ∧ BodyOK r.body

theorem reprOK_of_wf (r : Repr) (h : ReprWF r) : ReprOK r := by
  obtain ⟨hv, ho, hb⟩ := h
  refine ⟨hv, ho, ?_⟩
  cases hr : r.body with
  | value v => simp [BodyOK]
  | leaf p q v => rw [hr] at hb; exact ⟨sep_not_hex p hb.1, sep_not_hex q hb.2.1, hb.2.2⟩
  | full ch v => rw [hr] at hb; exact hb
  | ext p k => rw [hr] at hb; exact sep_not_hex p hb

theorem decode_encode_ok (r : Repr) (h : ReprOK r) : decode (encode r) = .ok r := by
  obtain ⟨ver, org, body⟩ := r
  obtain ⟨hv, ho, hb⟩ := h
  simp only at hv ho hb
  unfold decode encode
  simp only [typeByte_and, List.append_assoc, readTracker_le64 ver org hv ho]
  cases body with
  | value v => simp [typeByte, encBody]
  | leaf p q v =>
    obtain ⟨hp, hq, hvv⟩ := hb
    have := decodeLeaf_enc p q v hp hq hvv
    have this' : decodeLeaf (p ++ sep :: (q ++ sep :: optBytes v)) = .ok (.leaf p q v) := by simpa using this
    simp [typeByte, encBody, this']
  | full ch v =>
    obtain ⟨hl, hk, hvv⟩ := hb
    simp [typeByte, encBody, decodeFull_enc ch v hl hk hvv]
  | ext p k =>
    have := decodeExt_enc p k hb
    have this' : decodeExt (p ++ sep :: k) = .ok (.ext p k) := by simpa using this
    simp [typeByte, encBody, this']

theorem not_mem_take_idxOf (l : Bytes) (a : UInt8) : a ∉ l.take (l.idxOf a) := by
  induction l with
  | nil => simp
  | cons x r ih =>
    by_cases hx : x = a
    · subst hx; simp
    · have : (x == a) = false := by simpa using hx
      simp only [List.idxOf_cons, this, cond_false, List.take_succ_cons, List.mem_cons, not_or]
      exact ⟨fun h => hx h.symm, ih⟩

theorem sep_not_mem_take_index (b : Bytes) (h : 0 ≤ indexByte b sep) : sep ∉ b.take (indexByte b sep).toNat := by
  unfold indexByte at h ⊢
  by_cases hm : sep ∈ b
  · simp only [hm, if_true, Int.toNat_natCast]; exact not_mem_take_idxOf b sep
  · simp [hm] at h

theorem fromLE_lt (b : Bytes) : fromLE b < 256 ^ b.length := by
  induction b with
  | nil => simp [fromLE]
  | cons x r ih =>
    have := x.toNat_lt
    simp only [fromLE, List.length_cons, Nat.pow_succ]
    omega

theorem readTracker_lt (b : Bytes) : (readTracker b).1 < 2 ^ 64 ∧ (readTracker b).2.1 < 2 ^ 64 := by
  have h8 : ∀ c : Bytes, fromLE (c.take 8) < 2 ^ 64 := by
    intro c
    have := fromLE_lt (c.take 8)
    have hl : (c.take 8).length ≤ 8 := by simp [List.length_take]; omega
    calc fromLE (c.take 8) < 256 ^ (c.take 8).length := this
      _ ≤ 256 ^ 8 := Nat.pow_le_pow_right (by decide) hl
      _ = 2 ^ 64 := by decide
  unfold readTracker
  by_cases h1 : b.length < 8
  · simp [h1]
  · simp only [h1, if_false]
    by_cases h2 : (b.drop 8).length < 8
    · simp only [h2, if_true]; exact ⟨h8 _, by simp⟩
    · simp only [h2, if_false]; exact ⟨h8 _, h8 _⟩

theorem hexDecodeInto_length (cap : Nat) (src : Bytes) (i : Nat) (acc out : Bytes) (hacc : acc.length = i) (hi : i ≤ cap)
    (h : hexDecodeInto cap src i acc = .ok out) : out.length = cap := by
  fun_induction hexDecodeInto cap src i acc with
  | case1 p q rest i acc a b ha hb hlt ih => exact ih (by simp [hacc]) (by omega) h
  | case2 => simp at h
  | case3 => simp at h
  | case4 => simp at h
  | case5 i acc => simp at h; rw [← h]; simp [hacc]; omega


theorem optNonEmpty_ofLength (b : Bytes) : optNonEmpty (if b.length = 0 then none else some b) := by
  by_cases h : b.length = 0
  · simp [h, optNonEmpty]
  · simp only [h, if_false, optNonEmpty]; intro e; simp [e] at h

theorem decodeLeaf_bodyOK (buf : Bytes) (b : Body) (h : decodeLeaf buf = .ok b) : BodyOK b := by
  unfold decodeLeaf at h
  rcases indexByte_neg_or buf sep with h1 | ⟨h0, h1⟩
  · simp [h1] at h
  · have hn : ¬ indexByte buf sep < 0 := by omega
    simp only [hn, if_false] at h
    rw [sliceTo_ok _ _ h0 (by omega), sliceFrom_ok _ _ (by omega) (by omega)] at h
    simp only at h
    generalize List.drop (indexByte buf sep + 1).toNat buf = buf2 at h
    rcases indexByte_neg_or buf2 sep with h2 | ⟨h20, h21⟩
    · simp [h2] at h
    · have hn2 : ¬ indexByte buf2 sep < 0 := by omega
      simp only [hn2, if_false] at h
      rw [sliceTo_ok _ _ h20 (by omega), sliceFrom_ok _ _ (by omega) (by omega)] at h
      simp only [DRes.ok.injEq] at h
      subst h
      exact ⟨sep_not_mem_take_index buf h0, sep_not_mem_take_index buf2 h20, optNonEmpty_ofLength _⟩

theorem decodeExt_bodyOK (buf : Bytes) (b : Body) (h : decodeExt buf = .ok b) : BodyOK b := by
  unfold decodeExt at h
  rcases indexByte_neg_or buf sep with h1 | ⟨h0, h1⟩
  · simp [h1] at h
  · have hn : ¬ indexByte buf sep < 0 := by omega
    simp only [hn, if_false] at h
    rw [sliceTo_ok _ _ h0 (by omega), sliceFrom_ok _ _ (by omega) (by omega)] at h
    simp only [DRes.ok.injEq] at h
    subst h
    exact sep_not_mem_take_index buf h0

theorem decodeFullLoop_keys (n : Nat) (buf : Bytes) (acc ch : List (Option Bytes)) (rest : Bytes)
    (h : decodeFullLoop n buf acc = .ok (ch, rest)) : ∀ k, some k ∈ ch → (some k ∈ acc ∨ k.length = 32) := by
  induction n generalizing buf acc with
  | zero =>
    simp [decodeFullLoop] at h
    intro k hk; left; rw [← h.1] at hk; simpa using hk
  | succ n ih =>
    unfold decodeFullLoop at h
    simp only at h
    split at h
    · simp at h
    · split at h
      · split at h
        · simp at h
        · split at h
          · split at h
            · rename_i field hf key hkey
              split at h
              · intro k hk
                rcases ih _ _ h k hk with hm | hl
                · rcases List.mem_cons.mp hm with he | hm'
                  · right
                    simp only [Option.some.injEq] at he
                    rw [he]
                    exact hexDecodeInto_length 32 _ 0 [] key rfl (by omega) hkey
                  · left; exact hm'
                · right; exact hl
              · simp at h
              · simp at h
            · simp at h
            · simp at h
          · simp at h
          · simp at h
      · split at h
        · intro k hk
          rcases ih _ _ h k hk with hm | hl
          · rcases List.mem_cons.mp hm with he | hm'
            · cases he
            · left; exact hm'
          · right; exact hl
        · simp at h
        · simp at h

/-- whatever `decode` accepts satisfies `ReprOK` -/
theorem decode_reprOK (bs : Bytes) (r : Repr) (h : decode bs = .ok r) : ReprOK r := by
  unfold decode at h
  cases bs with
  | nil => simp at h
  | cons t rest =>
    simp only at h
    split at h
    · split at h
      · rename_i b hb
        simp only [DRes.ok.injEq] at h
        subst h
        refine ⟨(readTracker_lt rest).1, (readTracker_lt rest).2, ?_⟩
        simp only
        split at hb
        · simp only [DRes.ok.injEq] at hb; subst hb; simp [BodyOK]
        · split at hb
          · exact decodeLeaf_bodyOK _ _ hb
          · split at hb
            · unfold decodeFull at hb
              split at hb
              · rename_i ch' rest' hl
                simp only [DRes.ok.injEq] at hb
                subst hb
                refine ⟨by simpa using decodeFullLoop_length 16 _ [] ch' rest' hl, ?_, optNonEmpty_ofLength _⟩
                intro k hk
                rcases decodeFullLoop_keys 16 _ [] ch' rest' hl k hk with hm | hl'
                · cases hm
                · exact hl'
              · simp at hb
              · simp at hb
            · exact decodeExt_bodyOK _ _ hb
      · simp at h
      · simp at h
    · simp at h

/-- re-encoding is idempotent on everything `decode` accepts, for ALL inputs -/
theorem decode_encode_of_decode (bs : Bytes) (r : Repr) (h : decode bs = .ok r) : decode (encode r) = .ok r :=
  decode_encode_ok r (decode_reprOK bs r h)


end Verif.Codec
