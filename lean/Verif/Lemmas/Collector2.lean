/-
Further invariants of the literal `AddChange` / `DeleteChange` machine, needed to replay one collector's pending
changes on another trie (merge): recorded predecessors are pairwise different, differ from the key of their entry, and
are dead or pending again; the change map has no duplicate keys.
-/
import Verif.Lemmas.Collector
namespace Verif.MptStore
namespace Map
variable {κ ν : Type} [DecidableEq κ]

theorem get_put_some {m : Map κ ν} {k x : κ} {v c : ν} (h : Map.get (Map.put m k v) x = some c) :
    (k = x ∧ c = v) ∨ (k ≠ x ∧ Map.get m x = some c) := by
  rw [get_put] at h
  by_cases e : k = x
  · simp [e] at h; exact Or.inl ⟨e, h.symm⟩
  · simp [e] at h; exact Or.inr ⟨e, h⟩

theorem get_del_some {m : Map κ ν} {k x : κ} {c : ν} (h : Map.get (Map.del m k) x = some c) :
    k ≠ x ∧ Map.get m x = some c := by
  rw [get_del] at h
  by_cases e : k = x
  · simp [e] at h
  · simp [e] at h; exact ⟨e, h⟩

theorem keys_del (m : Map κ ν) (k : κ) : Map.keys (Map.del m k) = (Map.keys m).filter (fun x => x ≠ k) := by
  simp only [Map.del, Map.keys, List.filter_map]
  rfl

theorem nodup_keys_del {m : Map κ ν} (k : κ) (h : (Map.keys m).Nodup) : (Map.keys (Map.del m k)).Nodup := by
  rw [keys_del]; exact h.filter _

theorem nodup_keys_put {m : Map κ ν} (k : κ) (v : ν) (h : (Map.keys m).Nodup) : (Map.keys (Map.put m k v)).Nodup := by
  simp only [Map.put, Map.keys, List.map_cons, List.nodup_cons]
  refine ⟨?_, nodup_keys_del k h⟩
  have := keys_del m k
  simp only [Map.keys] at this
  rw [this]
  simp

/-- with duplicate-free keys, every element of the list is what `get` finds -/
theorem get_of_mem_nodup {m : Map κ ν} (h : (Map.keys m).Nodup) {e : κ × ν} (he : e ∈ m) : Map.get m e.1 = some e.2 := by
  induction m with
  | nil => cases he
  | cons a m ih =>
    simp only [Map.keys, List.map_cons, List.nodup_cons] at h
    rw [get_cons]
    rcases List.mem_cons.mp he with rfl | he'
    · simp
    · have hne : a.1 ≠ e.1 := by
        intro e1
        exact h.1 (e1 ▸ List.mem_map_of_mem he')
      simp only [hne, if_false]
      exact ih h.2 he'

end Map

namespace Collector
variable {κ N : Type} [DecidableEq κ]

structure Inv2 (k : N → κ) (L : κ → Prop) (cc : Collector κ N) : Prop where
  /-- a recorded predecessor does not have the key of its own entry -/
  old_ne : ∀ x c o, Map.get cc.changes x = some c → c.old = some o → k o ≠ x
  /-- two entries never record predecessors of the same key -/
  old_unique : ∀ x y c d o o', Map.get cc.changes x = some c → Map.get cc.changes y = some d →
    c.old = some o → d.old = some o' → k o = k o' → x = y
  /-- a recorded predecessor is dead, or pending again -/
  old_dead : ∀ x c o, Map.get cc.changes x = some c → c.old = some o → ¬ L (k o) ∨ (Map.get cc.changes (k o)).isSome = true
  nodup : (Map.keys cc.changes).Nodup

theorem inv2_init (k : N → κ) (L : κ → Prop) (r : κ) : Inv2 k L ({ startRoot := r } : Collector κ N) where
  old_ne := by intro x c o h; simp at h
  old_unique := by intro x y c d o o' h; simp at h
  old_dead := by intro x c o h; simp at h
  nodup := by simp [Map.keys]

theorem inv2_add_none {k : N → κ} {L : κ → Prop} {cc : Collector κ N} (h2 : Inv2 k L cc) (n : N) :
    Inv2 k (liveStep k L (.add none n)) (cc.addChange k none n) := by
  simp only [addChange, liveStep]
  refine ⟨?_, ?_, ?_, Map.nodup_keys_put _ _ h2.nodup⟩
  · intro x c o hg ho
    rcases Map.get_put_some hg with ⟨_, rfl⟩ | ⟨_, hg'⟩
    · cases ho
    · exact h2.old_ne x c o hg' ho
  · intro x y c d o o' hx hy ho ho' hk
    rcases Map.get_put_some hx with ⟨_, rfl⟩ | ⟨_, hx'⟩
    · cases ho
    · rcases Map.get_put_some hy with ⟨_, rfl⟩ | ⟨_, hy'⟩
      · cases ho'
      · exact h2.old_unique x y c d o o' hx' hy' ho ho' hk
  · intro x c o hg ho
    rcases Map.get_put_some hg with ⟨_, rfl⟩ | ⟨_, hg'⟩
    · cases ho
    · rw [Map.get_put]
      by_cases e : k n = k o
      · right; simp [e]
      · simp only [e, if_false]
        rcases h2.old_dead x c o hg' ho with hd | hp
        · left; intro hl; rcases hl with hl | hl
          · exact e hl.symm
          · exact hd hl
        · exact Or.inr hp

theorem inv2_del {k : N → κ} {L : κ → Prop} {cc : Collector κ N} (h2 : Inv2 k L cc) (o : N) :
    Inv2 k (liveStep k L (.del o)) (cc.deleteChange k o) := by
  simp only [deleteChange, liveStep]
  cases hg0 : Map.get cc.changes (k o) with
  | none =>
    simp only
    refine ⟨h2.old_ne, h2.old_unique, ?_, h2.nodup⟩
    intro x c o1 hg ho
    rcases h2.old_dead x c o1 hg ho with hd | hp
    · exact Or.inl (fun hl => hd hl.1)
    · exact Or.inr hp
  | some c0 =>
    simp only
    refine ⟨?_, ?_, ?_, Map.nodup_keys_del _ h2.nodup⟩
    · intro x c o1 hg ho
      exact h2.old_ne x c o1 (Map.get_del_some hg).2 ho
    · intro x y c d o1 o2 hx hy ho ho' hk
      exact h2.old_unique x y c d o1 o2 (Map.get_del_some hx).2 (Map.get_del_some hy).2 ho ho' hk
    · intro x c o1 hg ho
      obtain ⟨_, hg'⟩ := Map.get_del_some hg
      by_cases e : k o = k o1
      · left; intro hl; exact hl.2 e.symm
      · rcases h2.old_dead x c o1 hg' ho with hd | hp
        · exact Or.inl (fun hl => hd hl.1)
        · right; rw [Map.get_del]; simp [e, hp]

theorem inv2_add_some {k : N → κ} {L0 L : κ → Prop} {cc : Collector κ N} (h : Inv k L0 L cc) (h2 : Inv2 k L cc) (o n : N)
    (hlive : L (k o)) (hne : k o ≠ k n) :
    Inv2 k (liveStep k L (.add (some o) n)) (cc.addChange k (some o) n) := by
  simp only [addChange, liveStep]
  -- no entry records a predecessor with the key of `o` unless `o` is pending
  have hno : ∀ x c o1, Map.get cc.changes x = some c → c.old = some o1 → k o1 = k o →
      (Map.get cc.changes (k o)).isSome = true := by
    intro x c o1 hg ho1 hk
    rcases h2.old_dead x c o1 hg ho1 with hd | hp
    · exact absurd (hk ▸ hlive) hd
    · rw [← hk]; exact hp
  cases hg0 : Map.get cc.changes (k o) with
  | none =>
    simp only
    refine ⟨?_, ?_, ?_, Map.nodup_keys_put _ _ h2.nodup⟩
    · intro x c o1 hg ho
      rcases Map.get_put_some hg with ⟨e, rfl⟩ | ⟨_, hg'⟩
      · simp only [Option.some.injEq] at ho; subst ho; rw [← e]; exact hne
      · exact h2.old_ne x c o1 hg' ho
    · intro x y c d o1 o2 hx hy ho ho' hk
      rcases Map.get_put_some hx with ⟨ex, rfl⟩ | ⟨_, hx'⟩
      · rcases Map.get_put_some hy with ⟨ey, rfl⟩ | ⟨_, hy'⟩
        · rw [← ex, ← ey]
        · simp only [Option.some.injEq] at ho; subst ho
          have := hno y d o2 hy' ho' hk.symm
          rw [hg0] at this; simp at this
      · rcases Map.get_put_some hy with ⟨ey, rfl⟩ | ⟨_, hy'⟩
        · simp only [Option.some.injEq] at ho'; subst ho'
          have := hno x c o1 hx' ho hk
          rw [hg0] at this; simp at this
        · exact h2.old_unique x y c d o1 o2 hx' hy' ho ho' hk
    · intro x c o1 hg ho
      rw [Map.get_put]
      rcases Map.get_put_some hg with ⟨_, rfl⟩ | ⟨_, hg'⟩
      · simp only [Option.some.injEq] at ho; subst ho
        left; intro hl
        rcases hl with hl | hl
        · exact hne hl
        · exact hl.2 rfl
      · by_cases e : k n = k o1
        · right; simp [e]
        · simp only [e, if_false]
          by_cases e2 : k o1 = k o
          · have := hno x c o1 hg' ho e2
            rw [hg0] at this; simp at this
          · rcases h2.old_dead x c o1 hg' ho with hd | hp
            · left; intro hl
              rcases hl with hl | hl
              · exact e hl.symm
              · exact hd hl.1
            · exact Or.inr hp
  | some prev =>
    simp only
    -- facts about the map with the entry of `o` erased
    have herase : ∀ x c, Map.get (Map.del cc.changes (k o)) x = some c → k o ≠ x ∧ Map.get cc.changes x = some c :=
      fun x c hg => Map.get_del_some hg
    have hprev_ne : ∀ po, prev.old = some po → k po ≠ k o := fun po hpo => h2.old_ne (k o) prev po hg0 hpo
    -- another entry never records the same predecessor as `prev`
    have hprev_unique : ∀ po x c o1, prev.old = some po → Map.get cc.changes x = some c → c.old = some o1 →
        k o1 = k po → x = k o := by
      intro po x c o1 hpo hg ho1 hk
      exact h2.old_unique x (k o) c prev o1 po hg hg0 ho1 hpo hk
    have erased_case : ∀ (Lp : κ → Prop), (∀ z, Lp z ↔ (z = k n ∨ (L z ∧ z ≠ k o))) →
        (∀ x c o1, Map.get cc.changes x = some c → k o ≠ x → c.old = some o1 → k o1 ≠ k n) →
        Inv2 k Lp { cc with deletes := Map.del cc.deletes (k n), changes := Map.del cc.changes (k o) } := by
      intro Lp hLp hnew
      refine ⟨?_, ?_, ?_, Map.nodup_keys_del _ h2.nodup⟩
      · intro x c o1 hg ho; exact h2.old_ne x c o1 (herase x c hg).2 ho
      · intro x y c d o1 o2 hx hy ho ho' hk
        exact h2.old_unique x y c d o1 o2 (herase x c hx).2 (herase y d hy).2 ho ho' hk
      · intro x c o1 hg ho
        obtain ⟨hxo, hg'⟩ := herase x c hg
        by_cases e : k o1 = k o
        · left; rw [hLp]; intro hl
          rcases hl with hl | hl
          · exact hnew x c o1 hg' hxo ho hl
          · exact hl.2 e
        · rcases h2.old_dead x c o1 hg' ho with hd | hp
          · left; rw [hLp]; intro hl
            rcases hl with hl | hl
            · exact hnew x c o1 hg' hxo ho hl
            · exact hd hl.1
          · right; rw [Map.get_del]; simp [Ne.symm e, hp]
    have put_case : ∀ (po : Option N), (∀ p, po = some p → prev.old = some p) → (∀ p, po = some p → k p ≠ k n) →
        Inv2 k (fun x => x = k n ∨ (L x ∧ x ≠ k o))
          { cc with deletes := Map.del cc.deletes (k n),
                    changes := Map.put (Map.del cc.changes (k o)) (k n) ⟨po, n⟩ } := by
      intro po hpo hpon
      refine ⟨?_, ?_, ?_, Map.nodup_keys_put _ _ (Map.nodup_keys_del _ h2.nodup)⟩
      · intro x c o1 hg ho
        rcases Map.get_put_some hg with ⟨e, rfl⟩ | ⟨_, hg'⟩
        · rw [← e]; exact hpon o1 ho
        · exact h2.old_ne x c o1 (herase x c hg').2 ho
      · intro x y c d o1 o2 hx hy ho ho' hk
        rcases Map.get_put_some hx with ⟨ex, rfl⟩ | ⟨_, hx'⟩
        · rcases Map.get_put_some hy with ⟨ey, rfl⟩ | ⟨_, hy'⟩
          · rw [← ex, ← ey]
          · obtain ⟨hyo, hy''⟩ := herase y d hy'
            exact absurd (hprev_unique o1 y d o2 (hpo o1 ho) hy'' ho' hk.symm) (Ne.symm hyo)
        · rcases Map.get_put_some hy with ⟨ey, rfl⟩ | ⟨_, hy'⟩
          · obtain ⟨hxo, hx''⟩ := herase x c hx'
            exact absurd (hprev_unique o2 x c o1 (hpo o2 ho') hx'' ho hk) (Ne.symm hxo)
          · exact h2.old_unique x y c d o1 o2 (herase x c hx').2 (herase y d hy').2 ho ho' hk
      · intro x c o1 hg ho
        rw [Map.get_put]
        by_cases e : k n = k o1
        · right; simp [e]
        · simp only [e, if_false]
          have hdead_of : ∀ x' c', Map.get cc.changes x' = some c' → c'.old = some o1 →
              ¬ (k o1 = k n ∨ (L (k o1) ∧ k o1 ≠ k o)) ∨ (Map.get (Map.del cc.changes (k o)) (k o1)).isSome = true := by
            intro x' c' hg' ho'
            by_cases e2 : k o1 = k o
            · left; intro hl
              rcases hl with hl | hl
              · exact e hl.symm
              · exact hl.2 e2
            · rcases h2.old_dead x' c' o1 hg' ho' with hd | hp
              · left; intro hl
                rcases hl with hl | hl
                · exact e hl.symm
                · exact hd hl.1
              · right; rw [Map.get_del]; simp [Ne.symm e2, hp]
          rcases Map.get_put_some hg with ⟨_, rfl⟩ | ⟨_, hg'⟩
          · exact hdead_of (k o) prev hg0 (hpo o1 ho)
          · exact hdead_of x c (herase x c hg').2 ho
    cases hpo : prev.old with
    | none =>
      simp only
      exact put_case none (by intro p hp; cases hp) (by intro p hp; cases hp)
    | some po =>
      simp only
      by_cases hback : k n = k po
      · simp only [hback, if_true]
        have := erased_case (fun x => x = k po ∨ (L x ∧ x ≠ k o)) (fun z => by rw [hback]) (by
          intro x c o1 hg hxo ho1 hk
          exact hxo (hprev_unique po x c o1 hpo hg ho1 (hk.trans hback)).symm)
        simpa [hback] using this
      · simp only [hback, if_false]
        exact put_case (some po) (by intro p hp; cases hp; exact hpo) (by intro p hp; cases hp; exact fun e => hback e.symm)

theorem inv2_step {k : N → κ} {L0 L : κ → Prop} {cc : Collector κ N} (h : Inv k L0 L cc) (h2 : Inv2 k L cc) (c : Call N)
    (hok : CallOk k L c) : Inv2 k (liveStep k L c) (step k cc c) := by
  cases c with
  | add o n =>
    cases o with
    | none => exact inv2_add_none h2 n
    | some o => exact inv2_add_some h h2 o n hok.1 hok.2
  | del o => exact inv2_del h2 o

theorem inv2_run {k : N → κ} {L0 : κ → Prop} (cs : List (Call N)) :
    ∀ {L : κ → Prop} {cc : Collector κ N}, Inv k L0 L cc → Inv2 k L cc → Disc k L cs →
      Inv2 k (liveRun k L cs) (run k cc cs) := by
  induction cs with
  | nil => intro L cc _ h2 _; exact h2
  | cons c cs ih =>
    intro L cc h h2 hd
    exact ih (inv_step h c hd.1) (inv2_step h h2 c hd.1) hd.2

end Collector
end Verif.MptStore
