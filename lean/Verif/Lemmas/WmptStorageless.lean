/-
C12 for a source trie WITHOUT storage (`New(nil, nil)`, everything in memory), and the re-export of an imported partial
trie.

1. `NoRef n`: no hash reference anywhere in `n`. On such a node the database flag and the storage are irrelevant for the
   marking walk, `GetPath`, `insert`, `delete`, `Update`, `Delete`. Hence `export_import_storageless` /
   `C12_storageless` by reduction to the storage case (`{ t with hasDb := true, store := [] }`).
2. marking along `Clear` paths of a storage-less partial trie never resolves anything: `reexport_of_import`.
-/
import Verif.Lemmas.WmptExport
import Verif.Props.C12
namespace Verif.Wmpt
open RepOps (NoEmp PTOK isRef)
open RepMore (UpDirty)

/-! ### 1. no reference: storage irrelevant -/

/-- no hash reference anywhere in the node -/
def NoRef : WN → Prop
  | .hashRef _ _ => False
  | .short _ _ c _ _ => NoRef c
  | .routing _ ch _ _ _ => ∀ i, NoRef (ch i)
  | _ => True

theorem noRef_of_rep {H : Bytes → Bytes} {n : WN} {t : PT} (h : Rep H (fun _ => False) n t) : NoRef n := by
  induction h with
  | nil => trivial
  | empty => trivial
  | ref t _ hp => exact hp
  | value h v w d _ => trivial
  | short k h c d tc tc' _ _ ih => exact ih
  | routing h ch w d tc f _ _ _ _ ih => exact ih

theorem noRef_upd {ch : Nib → WN} {x : WN} (k : Nib) (hc : ∀ i, NoRef (ch i)) (hx : NoRef x) :
    ∀ i, NoRef (upd ch k x i) := by
  intro i; unfold upd; split
  · exact hx
  · exact hc i

/-- the marking walk on a reference-free node does not look at the storage, and leaves a reference-free node -/
theorem mark_noRef (a b : Bool) (s s' : Store) : ∀ (fuel : Nat) (n : WN) (key : List Nib), NoRef n →
    markToCollect a s fuel n key = markToCollect b s' fuel n key ∧ NoRef (markToCollect a s fuel n key).node := by
  intro fuel
  induction fuel with
  | zero => intro n key h; exact ⟨rfl, h⟩
  | succ fuel ih =>
    intro n key hn
    cases n with
    | nil => exact ⟨rfl, trivial⟩
    | empty => exact ⟨rfl, trivial⟩
    | value h v w d => exact ⟨rfl, trivial⟩
    | hashRef h w => exact absurd hn (by simp [NoRef])
    | short sk h c d tc =>
      simp only [NoRef] at hn
      simp only [markToCollect]
      split
      · exact ⟨rfl, by simpa only [NoRef] using hn⟩
      · obtain ⟨e, hr⟩ := ih c (key.drop sk.length) hn
        rw [e]
        refine ⟨rfl, ?_⟩
        rw [← e]
        simpa only [NoRef] using hr
    | routing h ch w d tc =>
      simp only [NoRef] at hn
      cases key with
      | nil => exact ⟨rfl, by simpa only [markToCollect, NoRef] using hn⟩
      | cons k ks =>
        obtain ⟨e, hr⟩ := ih (ch k) ks (hn k)
        simp only [markToCollect]
        rw [← e]
        refine ⟨rfl, ?_⟩
        split <;> (simp only [NoRef]; exact noRef_upd k hn hr)

theorem markAll_noRef (a b : Bool) (s s' : Store) : ∀ (keys : List (List Nib)) (n : WN), NoRef n →
    markAll a s n keys = markAll b s' n keys ∧ NoRef (markAll a s n keys).node := by
  intro keys
  induction keys with
  | nil => intro n h; exact ⟨rfl, h⟩
  | cons k ks ih =>
    intro n hn
    obtain ⟨e, hr⟩ := mark_noRef a b s s' (fuelFor k) n k hn
    simp only [markAll]
    rw [← e]
    cases he : (markToCollect a s (fuelFor k) n k).err with
    | some x => exact ⟨rfl, hr⟩
    | none => exact ih _ hr

theorem markKids_noRef (a b : Bool) (s s' : Store) : ∀ (keys : List (List Nib)) (ch : Nib → WN), (∀ i, NoRef (ch i)) →
    markKids a s ch keys = markKids b s' ch keys ∧ ∀ i, NoRef ((markKids a s ch keys).1 i) := by
  intro keys
  induction keys with
  | nil => intro ch h; exact ⟨rfl, h⟩
  | cons key rest ih =>
    intro ch hn
    cases key with
    | nil => exact ⟨rfl, hn⟩
    | cons k ks =>
      obtain ⟨e, hr⟩ := mark_noRef a b s s' (fuelFor (k :: ks) - 1) (ch k) ks (hn k)
      simp only [markKids]
      rw [← e]
      cases he : (markToCollect a s (fuelFor (k :: ks) - 1) (ch k) ks).err with
      | some x => exact ⟨rfl, noRef_upd k hn hr⟩
      | none => exact ih _ (noRef_upd k hn hr)

theorem markParallel_noRef (a b : Bool) (s s' : Store) (keys : List (List Nib)) (n : WN) (hn : NoRef n) :
    markParallel a s n keys = markParallel b s' n keys ∧ NoRef (markParallel a s n keys).node := by
  cases n with
  | routing h ch w d tc =>
    simp only [NoRef] at hn
    obtain ⟨e, hr⟩ := markKids_noRef a b s s' keys ch hn
    simp only [markParallel]
    rw [← e]
    exact ⟨rfl, by simpa only [NoRef] using hr⟩
  | nil => exact markAll_noRef a b s s' keys _ hn
  | empty => exact markAll_noRef a b s s' keys _ hn
  | hashRef h w => exact markAll_noRef a b s s' keys _ hn
  | value h v w d => exact markAll_noRef a b s s' keys _ hn
  | short k h c d tc => exact markAll_noRef a b s s' keys _ hn

theorem markRoot_noRef (a b : Bool) (s s' : Store) (keys : List (List Nib)) (n : WN) (hn : NoRef n) :
    markRoot a s n keys = markRoot b s' n keys ∧ NoRef (markRoot a s n keys).node := by
  unfold markRoot
  split
  · exact markParallel_noRef a b s s' keys n hn
  · exact markAll_noRef a b s s' keys n hn

/-- the root load of `GetPath` on a reference-free root -/
theorem loadRoot_noRef (t : WT) (hn : NoRef t.root) :
    (match t.root with
      | .hashRef h _ => resolveHash t.hasDb t.store h
      | n => Res.ok n) = .ok t.root := by
  cases hr : t.root with
  | hashRef h w => rw [hr] at hn; exact absurd hn (by simp [NoRef])
  | _ => rfl

/-- `GetPath` on a reference-free trie does not depend on the database flag and the storage -/
theorem getPath_noRef (H : Bytes → Bytes) (t : WT) (b : Bool) (s' : Store) (keys : List (List Nib)) (hn : NoRef t.root) :
    getPath H t keys =
      ({ (getPath H { t with hasDb := b, store := s' } keys).1 with hasDb := t.hasDb, store := t.store },
        (getPath H { t with hasDb := b, store := s' } keys).2) := by
  obtain ⟨root, hasDb, store, o, d, td, p, c⟩ := t
  have hm := (markRoot_noRef hasDb b store s' keys root hn).1
  rw [getPath_eq_markRoot, getPath_eq_markRoot]
  cases root with
  | hashRef h w => exact absurd hn (by simp [NoRef])
  | _ =>
    simp only
    rw [hm]
    generalize (markRoot b s' _ keys) = m
    obtain ⟨mn, me⟩ := m
    cases me with
    | none => rfl
    | some e => cases e <;> rfl

theorem getPath_noRef_root (H : Bytes → Bytes) (t : WT) (b : Bool) (s' : Store) (keys : List (List Nib))
    (hn : NoRef t.root) :
    (getPath H t keys).1.root = (getPath H { t with hasDb := b, store := s' } keys).1.root ∧
      (getPath H t keys).2 = (getPath H { t with hasDb := b, store := s' } keys).2 := by
  rw [getPath_noRef H t b s' keys hn]
  exact ⟨rfl, rfl⟩

theorem markedRoot_noRef (t : WT) (b : Bool) (s' : Store) (keys : List (List Nib)) (hn : NoRef t.root) :
    Mark.markedRoot t keys = Mark.markedRoot { t with hasDb := b, store := s' } keys := by
  have h1 : Mark.loadRoot t = .ok t.root := loadRoot_noRef t hn
  have h2 : Mark.loadRoot { t with hasDb := b, store := s' } = .ok t.root :=
    loadRoot_noRef { t with hasDb := b, store := s' } hn
  simp only [Mark.markedRoot, h1, h2]
  rw [(markAll_noRef t.hasDb b t.store s' keys t.root hn).1]

/-! ### 1b. `insert` / `delete` on reference-free nodes -/

theorem resolveNode_noRef (a : Bool) (s : Store) {x : WN} (hx : NoRef x) : resolveNode a s x = .ok x := by
  cases a <;> cases x <;> simp_all [resolveNode, NoRef]

theorem noRef_mkShort (k : Bytes) {c : WN} (hc : NoRef c) : NoRef (mkShort k c) := by
  unfold mkShort; split
  · exact hc
  · simpa only [NoRef] using hc

theorem insert_noRef (a b : Bool) (s s' : Store) : ∀ (fuel : Nat) (n : WN) (key : List Nib) (value : WN),
    NoRef n → NoRef value →
    insert a s fuel n key value = insert b s' fuel n key value ∧ NoRef (insert a s fuel n key value).node := by
  intro fuel
  induction fuel with
  | zero => intro n key value hn _; exact ⟨rfl, hn⟩
  | succ fuel ih =>
    intro n key value hn hv
    cases key with
    | nil =>
      cases n with
      | hashRef h w => exact absurd hn (by simp [NoRef])
      | value vh vv vw vd =>
        cases value <;> simp only [insert] <;> refine ⟨(by first | rfl | trivial), ?_⟩ <;> (try split) <;> simp_all [NoRef]
      | _ => simp only [insert] <;> exact ⟨(by first | rfl | trivial), by first | exact hv | exact hn⟩
    | cons k ks =>
      cases n with
      | hashRef h w => exact absurd hn (by simp [NoRef])
      | nil => simp only [insert]; exact ⟨(by first | rfl | trivial), by simpa only [NoRef] using hv⟩
      | empty => simp only [insert]; exact ⟨(by first | rfl | trivial), by simpa only [NoRef] using hv⟩
      | value vh vv vw vd => simp only [insert]; exact ⟨(by first | rfl | trivial), trivial⟩
      | routing h ch w d tc =>
        simp only [NoRef] at hn
        obtain ⟨e, hr⟩ := ih (ch k) ks value (hn k) hv
        simp only [insert]
        rw [← e]
        refine ⟨rfl, ?_⟩
        split <;> (simp only [NoRef]; exact noRef_upd k hn hr)
      | short sk h c d tc =>
        simp only [NoRef] at hn
        simp only [insert]
        split
        · obtain ⟨e, hr⟩ := ih c ((k :: ks).drop (commonPrefix sk ((k :: ks).map nb))) value hn hv
          rw [← e]
          exact ⟨rfl, by simpa only [NoRef] using hr⟩
        · split
          · exact ⟨rfl, by simpa only [NoRef] using hn⟩
          · refine ⟨rfl, ?_⟩
            have hb : ∀ (i1 i2 : Nib) (k1 k2 : Bytes) (i : Nib),
                NoRef (upd (upd noCh i1 (mkShort k1 c)) i2 (mkShort k2 value) i) :=
              fun i1 i2 k1 k2 => noRef_upd i2 (noRef_upd i1 (fun _ => trivial) (noRef_mkShort k1 hn)) (noRef_mkShort k2 hv)
            split
            · split
              · simp only [NoRef]; exact hb _ _ _ _
              · simp only [NoRef]; exact hb _ _ _ _
            · simpa only [NoRef] using hn

theorem delete_noRef (H : Bytes → Bytes) (a b : Bool) (s s' : Store) : ∀ (fuel : Nat) (n : WN) (key : List Nib),
    NoRef n →
    delete H a s fuel n key = delete H b s' fuel n key ∧ NoRef (delete H a s fuel n key).node := by
  intro fuel
  induction fuel with
  | zero => intro n key hn; exact ⟨rfl, hn⟩
  | succ fuel ih =>
    intro n key hn
    cases n with
    | hashRef h w => exact absurd hn (by simp [NoRef])
    | nil => exact ⟨rfl, trivial⟩
    | empty => exact ⟨rfl, trivial⟩
    | value vh vv vw vd =>
      simp only [delete]
      refine ⟨(by first | rfl | trivial), ?_⟩
      split <;> trivial
    | short sk h c d tc =>
      simp only [NoRef] at hn
      obtain ⟨e, hr⟩ := ih c (key.drop sk.length) hn
      simp only [delete]
      rw [← e]
      refine ⟨rfl, ?_⟩
      split
      · simpa only [NoRef] using hn
      · split
        · trivial
        · split
          · simpa only [NoRef] using hr
          · split
            · trivial
            · rename_i heq
              rw [heq] at hr
              simpa only [NoRef] using hr
            · simpa only [NoRef] using hr
    | routing h ch w d tc =>
      simp only [NoRef] at hn
      cases key with
      | nil => simp only [delete]; exact ⟨(by first | rfl | trivial), by simpa only [NoRef] using hn⟩
      | cons k ks =>
        obtain ⟨e, hr⟩ := ih (ch k) ks (hn k)
        have hu := noRef_upd k hn hr
        simp only [delete]
        rw [← e]
        simp only [resolveNode_noRef a s (hu _), resolveNode_noRef b s' (hu _)]
        refine ⟨(by first | rfl | trivial), ?_⟩
        split
        · simpa only [NoRef] using hu
        · split
          · simpa only [NoRef] using hu
          · split
            · simpa only [NoRef] using hu
            · rename_i pos _
              have hpos := hu pos
              split
              · rename_i heq
                rw [heq] at hpos
                simpa only [NoRef] using hpos
              · simpa only [NoRef] using hpos

theorem noRef_normRoot {n : WN} (h : NoRef n) : NoRef (normRoot n) := by
  unfold normRoot; split
  · trivial
  · exact h

/-! ### 1c. `Update` / `Delete` and runs on reference-free tries -/

/-- two tries with the same reference-free root (flag, storage and bookkeeping lists may differ) -/
def SameMem (t t' : WT) : Prop := t.root = t'.root ∧ NoRef t.root

theorem update_noRef (H : Bytes → Bytes) {t t' : WT} (h : SameMem t t') (key : List Nib) (v : Bytes) (w : Nat) :
    SameMem (update H t key v w).1 (update H t' key v w).1 ∧ (update H t key v w).2 = (update H t' key v w).2 := by
  obtain ⟨hr, hn⟩ := h
  have hnn := noRef_normRoot hn
  unfold update
  rw [← hr]
  split
  · exact ⟨⟨hr, hn⟩, rfl⟩
  · split
    · obtain ⟨e, hx⟩ := insert_noRef t.hasDb t'.hasDb t.store t'.store (fuelFor key) (normRoot t.root) key
        (.value [] v w true) hnn trivial
      rw [← e]
      generalize insert t.hasDb t.store (fuelFor key) (normRoot t.root) key (.value [] v w true) = r at hx
      obtain ⟨rn, rc, re, rtd⟩ := r
      cases re with
      | some x => exact ⟨⟨rfl, noRef_normRoot hx⟩, rfl⟩
      | none => exact ⟨⟨rfl, hx⟩, rfl⟩
    · obtain ⟨e, hx⟩ := delete_noRef H t.hasDb t'.hasDb t.store t'.store (fuelFor key) (normRoot t.root) key hnn
      rw [← e]
      generalize delete H t.hasDb t.store (fuelFor key) (normRoot t.root) key = r at hx
      obtain ⟨rn, rc, re, rtd⟩ := r
      cases re with
      | some x => exact ⟨⟨rfl, noRef_normRoot hx⟩, rfl⟩
      | none => exact ⟨⟨rfl, noRef_normRoot hx⟩, rfl⟩

theorem deleteKey_noRef (H : Bytes → Bytes) {t t' : WT} (h : SameMem t t') (key : List Nib) :
    SameMem (deleteKey H t key).1 (deleteKey H t' key).1 ∧ (deleteKey H t key).2 = (deleteKey H t' key).2 := by
  obtain ⟨hr, hn⟩ := h
  unfold deleteKey
  rw [← hr]
  obtain ⟨e, hx⟩ := delete_noRef H t.hasDb t'.hasDb t.store t'.store (fuelFor key) t.root key hn
  rw [← e]
  generalize delete H t.hasDb t.store (fuelFor key) t.root key = r at hx
  obtain ⟨rn, rc, re, rtd⟩ := r
  cases re with
  | some x => exact ⟨⟨rfl, hx⟩, rfl⟩
  | none => exact ⟨⟨rfl, noRef_normRoot hx⟩, rfl⟩

theorem mstep_noRef (H : Bytes → Bytes) {t t' : WT} (h : SameMem t t') (op : MOp) :
    SameMem (mstep H t op) (mstep H t' op) ∧ mout H t op = mout H t' op := by
  cases op with
  | upd k v w =>
    obtain ⟨h1, h2⟩ := update_noRef H h k v w
    exact ⟨h1, by simp only [mout, h2]⟩
  | del k => exact deleteKey_noRef H h k
  | updel k =>
    obtain ⟨h1, h2⟩ := update_noRef H h k [] 0
    exact ⟨h1, by simp only [mout, h2]⟩

theorem mrun_noRef (H : Bytes → Bytes) : ∀ (ops : List MOp) {t t' : WT}, SameMem t t' →
    SameMem (mrun H t ops) (mrun H t' ops) ∧ mouts H t ops = mouts H t' ops
  | [], _, _, h => ⟨h, rfl⟩
  | op :: ops, _, _, h => by
    obtain ⟨h1, h2⟩ := mstep_noRef H h op
    obtain ⟨i1, i2⟩ := mrun_noRef H ops h1
    exact ⟨i1, by simp only [mouts, h2, i2]⟩

theorem rootHash_of_root (H : Bytes → Bytes) {t t' : WT} (h : t.root = t'.root) :
    (rootHash H t).2 = (rootHash H t').2 := by
  unfold rootHash
  rw [h]
  split <;> rfl

theorem weight_of_root {t t' : WT} (h : t.root = t'.root) : t.weight = t'.weight := by
  unfold WT.weight; rw [h]

/-! ### 1d. the marking walk keeps `Rep` on a reference-free node, for any `P` -/

theorem mark_rep_noRef {H : Bytes → Bytes} {P : PT → Prop} (a : Bool) (s : Store) :
    ∀ (fuel : Nat) (n : WN) (key : List Nib) (t : PT), Rep H P n t → NoRef n →
      Rep H P (markToCollect a s fuel n key).node t := by
  intro fuel
  induction fuel with
  | zero => intro n key t h _; exact h
  | succ fuel ih =>
    intro n key t hrep hn
    cases hrep with
    | nil => exact Rep.nil
    | empty => exact Rep.empty
    | value h v w d hc => exact Rep.value h v w d hc
    | ref t hnn hp => exact absurd hn (by simp [NoRef])
    | short sk h c d tc tc' hc hcl =>
      simp only [NoRef] at hn
      simp only [markToCollect]
      split
      · exact Rep.short sk h c d true tc' hc hcl
      · exact Rep.short sk h _ d true tc' (ih c _ tc' hc hn) hcl
    | routing h ch w d tc f hch hroute hw hcl =>
      simp only [NoRef] at hn
      cases key with
      | nil => simp only [markToCollect]; exact Rep.routing h ch w d true f hch hroute hw hcl
      | cons k ks =>
        have hr := ih (ch k) ks (f k) (hch k) (hn k)
        have hnr := (mark_noRef a a s s fuel (ch k) ks (hn k)).2
        have h1 : ∀ i, Rep H P (upd ch k (markToCollect a s fuel (ch k) ks).node i) (f i) := by
          intro i; unfold upd; split
          · rename_i e; rw [e]; exact hr
          · exact hch i
        have h2 : ∀ i hh ww, upd ch k (markToCollect a s fuel (ch k) ks).node i = .hashRef hh ww →
            (f i).isShort = false := by
          intro i hh ww; unfold upd; split
          · intro e; rw [e] at hnr; exact absurd hnr (by simp [NoRef])
          · exact hroute i hh ww
        simp only [markToCollect]
        split
        · exact Rep.routing h _ w d tc f h1 h2 hw hcl
        · exact Rep.routing h _ w d true f h1 h2 hw hcl

theorem markAll_rep_noRef {H : Bytes → Bytes} {P : PT → Prop} (a : Bool) (s : Store) {t : PT} :
    ∀ (keys : List (List Nib)) (n : WN), Rep H P n t → NoRef n → Rep H P (markAll a s n keys).node t := by
  intro keys
  induction keys with
  | nil => intro n h _; exact h
  | cons k ks ih =>
    intro n hrep hn
    have h1 := mark_rep_noRef a s (fuelFor k) n k t hrep hn
    have h2 := (mark_noRef a a s s (fuelFor k) n k hn).2
    simp only [markAll]
    split
    · exact h1
    · exact ih _ h1 h2

/-! ### 1e. C12 for a source trie without storage -/

/-- a trie that is entirely in memory and was never committed (`Rep` with `P := False`: no reference, no clean node)
    satisfies `UpDirty` -/
theorem upDirty_of_rep_false {H : Bytes → Bytes} {n : WN} {t : PT} (h : Rep H (fun _ => False) n t) : UpDirty n := by
  induction h with
  | nil => trivial
  | empty => trivial
  | ref t _ hp => exact hp.elim
  | value h v w d _ => trivial
  | short k h c d tc tc' _ hc ih => exact ⟨fun hd => (hc hd).2.elim, ih⟩
  | routing h ch w d tc f _ _ _ hc ih => exact ⟨fun hd => (hc hd).2.elim, ih⟩

theorem repS_of_rep_false {H : Bytes → Bytes} {n : WN} {t : PT} (s : Store) (h : Rep H (fun _ => False) n t) :
    RepS H s n t := h.mono (fun _ _ hf => hf.elim)

/-- `GetPath` leaves a never-committed in-memory trie as such: still `Rep` with `P := False` -/
theorem getPath_rep_false {H : Bytes → Bytes} (hlen : ∀ x, (H x).length = 32) (t : WT) (ts : PT)
    (keys : List (List Nib)) (hrep : Rep H (fun _ => False) t.root ts) (hp : Proper t.root)
    (hu : Uniform 64 ts) (hok : PTOK ts) (hlk : ∀ k ∈ keys, k.length = 64) :
    Rep H (fun _ => False) (getPath H t keys).1.root ts := by
  have hn := noRef_of_rep hrep
  rw [(getPath_noRef_root H t true [] keys hn).1]
  have hne := RepMore.noEmp_of_proper hp
  obtain ⟨n', hmr, hgp, _, m2, _⟩ := Mark.getPath_marks (H := H) hlen { t with hasDb := true, store := [] } keys rfl
    (repS_of_rep_false [] hrep) hp hne hu hok hlk
  rw [hgp]
  have hl : Mark.loadRoot { t with hasDb := true, store := [] } = .ok t.root :=
    loadRoot_noRef { t with hasDb := true, store := [] } hn
  simp only [Mark.markedRoot, hl] at hmr
  have hn' : Rep H (fun _ => False) n' ts := by
    cases he : (markAll true [] t.root keys).err with
    | some e => rw [he] at hmr; cases hmr
    | none =>
      rw [he] at hmr
      simp only [Option.some.injEq] at hmr
      rw [← hmr]
      exact markAll_rep_noRef true [] keys t.root hrep hn
  exact (rep_collectNodes hn' m2).1

/-- **export / import for a source trie without storage** (`New(nil, nil)` built by updates, never committed:
    `Rep H (fun _ => False)`, i.e. no hash reference and no clean node). No hypothesis on `t.hasDb` / `t.store` is needed:
    nothing is ever resolved. Same conclusions as `C12.export_import`; the source is intact afterwards (still `Rep` with
    `P := False`, flag and storage untouched). -/
theorem export_import_storageless (H : Bytes → Bytes) (hlen : ∀ x, (H x).length = 32) (t : WT) (ts : PT)
    (keys : List (List Nib))
    (hrep : Rep H (fun _ => False) t.root ts) (hnil : t.root.isNil = false)
    (hp : Proper t.root) (hu : Uniform 64 ts) (hok : PTOK ts)
    (hlk : ∀ k ∈ keys, k.length = 64)
    (hsz : ∀ n', Mark.markedRoot t keys = some n' →
      (∀ b ∈ (collectNodes H n').2, b.length < 2 ^ 64) ∧ (collectNodes H n').2.length < 2 ^ 64) :
    ∃ data r, (getPath H t keys).2 = .ok data ∧
      importTrie H { hasDb := false } data = ({ hasDb := false, root := r }, .ok ()) ∧
      RepP H r ts ∧ (∀ k ∈ keys, Clear r k) ∧
      (rootHash H { hasDb := false, root := r }).2 = (rootHash H (getPath H t keys).1).2 ∧
      WT.weight { hasDb := false, root := r } = (getPath H t keys).1.weight ∧
      (calcHash H r).2 = PT.hash H ts ∧ r.weight = ts.weight ∧
      Rep H (fun _ => False) (getPath H t keys).1.root ts ∧
      (getPath H t keys).1.hasDb = t.hasDb ∧ (getPath H t keys).1.store = t.store := by
  have hn := noRef_of_rep hrep
  obtain ⟨e1, e2⟩ := getPath_noRef_root H t true [] keys hn
  have hsz' : ∀ n', Mark.markedRoot { t with hasDb := true, store := [] } keys = some n' →
      (∀ b ∈ (collectNodes H n').2, b.length < 2 ^ 64) ∧ (collectNodes H n').2.length < 2 ^ 64 := by
    intro n' h; exact hsz n' (by rw [markedRoot_noRef t true [] keys hn]; exact h)
  obtain ⟨data, r, g1, g2, g3, g4, g5, g6, g7, g8, _⟩ :=
    Verif.Props.C12.export_import H hlen { t with hasDb := true, store := [] } ts keys rfl
      (repS_of_rep_false [] hrep) hnil hp (upDirty_of_rep_false hrep) hu hok hlk hsz'
  refine ⟨data, r, by rw [e2]; exact g1, g2, g3, g4, ?_, ?_, g7, g8,
    getPath_rep_false hlen t ts keys hrep hp hu hok hlk, ?_, ?_⟩
  · rw [g5]; exact (rootHash_of_root H e1).symm
  · rw [g6]; exact (weight_of_root e1).symm
  · rw [getPath_noRef H t true [] keys hn]
  · rw [getPath_noRef H t true [] keys hn]

/-- **C12 for a source trie without storage**: export, import, then any sequence of mirrored updates / deletes of
    requested keys on the source (as `GetPath` left it) and on the import — after every prefix the same root hash and
    weight (those of the spec tree), and the same results call by call -/
theorem C12_storageless (H : Bytes → Bytes) (hlen : ∀ x, (H x).length = 32) (t : WT) (ts : PT) (keys : List (List Nib))
    (hrep : Rep H (fun _ => False) t.root ts) (hnil : t.root.isNil = false)
    (hp : Proper t.root) (hu : Uniform 64 ts) (hok : PTOK ts)
    (hlk : ∀ k ∈ keys, k.length = 64)
    (hsz : ∀ n', Mark.markedRoot t keys = some n' →
      (∀ b ∈ (collectNodes H n').2, b.length < 2 ^ 64) ∧ (collectNodes H n').2.length < 2 ^ 64)
    (ops : List MOp) (hrun : RunOK (fun k => k ∈ keys) ts ops) :
    ∃ data r, (getPath H t keys).2 = .ok data ∧
      importTrie H { hasDb := false } data = ({ hasDb := false, root := r }, .ok ()) ∧
      (∀ pre, pre <+: ops →
        (rootHash H (mrun H (getPath H t keys).1 pre)).2 = (rootHash H (mrun H { hasDb := false, root := r } pre)).2 ∧
        (mrun H (getPath H t keys).1 pre).weight = (mrun H { hasDb := false, root := r } pre).weight ∧
        (rootHash H (mrun H (getPath H t keys).1 pre)).2 = PT.hash H (srun ts pre) ∧
        (mrun H (getPath H t keys).1 pre).weight = (srun ts pre).weight) ∧
      mouts H (getPath H t keys).1 ops = mouts H { hasDb := false, root := r } ops := by
  have hn := noRef_of_rep hrep
  obtain ⟨e1, e2⟩ := getPath_noRef_root H t true [] keys hn
  have hsz' : ∀ n', Mark.markedRoot { t with hasDb := true, store := [] } keys = some n' →
      (∀ b ∈ (collectNodes H n').2, b.length < 2 ^ 64) ∧ (collectNodes H n').2.length < 2 ^ 64 := by
    intro n' h; exact hsz n' (by rw [markedRoot_noRef t true [] keys hn]; exact h)
  obtain ⟨data, r, g1, g2, g3, g4⟩ :=
    Verif.Props.C12.C12 H hlen { t with hasDb := true, store := [] } ts keys rfl
      (repS_of_rep_false [] hrep) hnil hp (upDirty_of_rep_false hrep) hu hok hlk hsz' ops hrun
  have hsame : SameMem (getPath H t keys).1 (getPath H { t with hasDb := true, store := [] } keys).1 :=
    ⟨e1, noRef_of_rep (getPath_rep_false hlen t ts keys hrep hp hu hok hlk)⟩
  refine ⟨data, r, by rw [e2]; exact g1, g2, fun pre hpre => ?_, ?_⟩
  · obtain ⟨a1, a2, a3, a4⟩ := g3 pre hpre
    have hs := (mrun_noRef H pre hsame).1.1
    rw [rootHash_of_root H hs, weight_of_root hs]
    exact ⟨a1, a2, a3, a4⟩
  · rw [(mrun_noRef H ops hsame).2]; exact g4

/-! ### 2. re-export of an imported partial trie -/

section Reexport
variable {H : Bytes → Bytes}

/-- what a successful marking walk of `key` along a reference-free path yields -/
def MarkCOK (H : Bytes → Bytes) (P : PT → Prop) (n : WN) (t : PT) (key : List Nib) (r : MRes) : Prop :=
  r.err = none ∧ Rep H P r.node t ∧ Proper r.node ∧ NoEmp r.node ∧ Marked r.node key ∧
    r.node.weight = n.weight ∧ r.node.isNil = n.isNil ∧ r.node.dirty = n.dirty ∧ isRef r.node = false ∧
    (n ≠ .empty → r.node ≠ .empty) ∧ (∀ q, Clear n q → Clear r.node q)

/-- the marking walk along a `Clear` path resolves nothing (whatever the database flag and the storage are), succeeds,
    and the result represents the same tree (for any `P`), with the key's path marked and every clear path still clear -/
theorem mark_clear_aux {P : PT → Prop} (a : Bool) (s : Store) :
    ∀ (fuel : Nat) (n : WN) (t : PT) (m : Nat) (key : List Nib),
    Rep H P n t → Proper n → NoEmp n → Uniform m t → key.length = m → Clear n key → 2 * key.length + 1 ≤ fuel →
    MarkCOK H P n t key (markToCollect a s fuel n key) := by
  intro fuel
  induction fuel with
  | zero => intro n t m key _ _ _ _ _ _ hf; omega
  | succ fuel ih =>
    intro n t m key hrep hp hne hu hk hclear hf
    unfold MarkCOK at ih ⊢
    cases hrep with
    | nil =>
      exact ⟨rfl, Rep.nil, trivial, trivial, by simp [markToCollect, Marked], rfl, rfl, rfl, rfl, fun h => h,
        fun q hq => hq⟩
    | empty =>
      exact ⟨rfl, Rep.empty, trivial, trivial, by simp [markToCollect, Marked], rfl, rfl, rfl, rfl, fun h => h,
        fun q hq => hq⟩
    | value h vv vw d hcl =>
      exact ⟨rfl, Rep.value h vv vw d hcl, trivial, trivial, by simp [markToCollect, Marked], rfl, rfl, rfl, rfl,
        fun h => h, fun q hq => hq⟩
    | ref t hn hst => simp [Clear] at hclear
    | short sk h c d tc tc' hc hcl =>
      simp only [Uniform] at hu
      obtain ⟨hs, _, hle, hvb, huc⟩ := hu
      simp only [Proper] at hp
      simp only [NoEmp] at hne
      by_cases htest : shortMatches sk key = false
      · have ht := (Mark.short_test_iff sk key).mpr htest
        simp only [markToCollect, ht, if_true]
        refine ⟨trivial, Rep.short sk h c d true tc' hc hcl, ?_, ?_, ?_, rfl, rfl, rfl, rfl, by simp,
          fun q hq => by simpa only [Clear] using hq⟩
        · simpa only [Proper] using hp
        · simpa only [NoEmp] using hne
        · simp [Marked, htest]
      · have ht : ¬ ((key.map nb).length < sk.length ∨ sk ≠ (key.map nb).take sk.length) :=
          fun e => htest ((Mark.short_test_iff sk key).mp e)
        have htrue : shortMatches sk key = true := by simpa using htest
        have hsl : sk.length ≠ 0 := by simpa using hs
        have hk2 : (key.drop sk.length).length = m - sk.length := by simp [hk]
        have hf' : 2 * (key.drop sk.length).length + 1 ≤ fuel := by rw [hk2]; omega
        simp only [Clear, htrue, if_true] at hclear
        obtain ⟨h1, h2, h3, h4, h5, h6, h7, h8, h9, h10, h11⟩ :=
          ih c tc' (m - sk.length) (key.drop sk.length) hc hp.2.2.2 hne.2 huc hk2 hclear hf'
        simp only [markToCollect, ht, if_false]
        refine ⟨h1, Rep.short sk h _ d true tc' h2 hcl, ?_, ?_, ?_, ?_, rfl, rfl, rfl, by simp, ?_⟩
        · simp only [Proper]
          exact ⟨by rw [h7]; exact hp.1, h10 hp.2.1, fun hd => by rw [h8]; exact hp.2.2.1 hd, h3⟩
        · simp only [NoEmp]
          exact ⟨h10 hne.1, h4⟩
        · simp only [Marked, htrue, if_true]
          exact h5
        · simp only [WN.weight]; exact h6
        · intro q hq
          simp only [Clear] at hq ⊢
          split
          · rename_i hsq
            rw [if_pos hsq] at hq
            exact h11 _ hq
          · trivial
    | routing h ch cw d tc f hch hroute hcw hcl =>
      simp only [Uniform] at hu
      simp only [Proper] at hp
      simp only [NoEmp] at hne
      cases key with
      | nil => simp at hk; omega
      | cons k ks =>
        simp only [List.length_cons] at hk hf
        simp only [Clear] at hclear
        obtain ⟨h1, h2, h3, h4, h5, h6, h7, h8, h9, h10, h11⟩ :=
          ih (ch k) (f k) (m - 1) ks (hch k) (hp k).2 (hne k).2 (hu.2 k) (by omega) hclear (by omega)
        simp only [markToCollect, h1]
        refine ⟨trivial, ?_, ?_, ?_, ?_, rfl, rfl, rfl, rfl, by simp, ?_⟩
        · refine Rep.routing h _ cw d true f ?_ ?_ hcw hcl
          · intro i
            unfold upd; split
            · rename_i e; rw [e]; exact h2
            · exact hch i
          · intro i hh ww
            unfold upd; split
            · intro e; exact absurd e (RepOps.not_ref_of_isRef h9 hh ww)
            · exact hroute i hh ww
        · simp only [Proper]
          exact Mark.proper_upd k hp ⟨h10 (hp k).1, h3⟩
        · simp only [NoEmp]
          exact RepOps.noEmp_upd k hne ⟨h10 (hne k).1, h4⟩
        · simp only [Marked, Mark.upd_same]
          exact ⟨trivial, h5⟩
        · intro q hq
          cases q with
          | nil => simp [Clear]
          | cons q0 qs =>
            simp only [Clear] at hq ⊢
            unfold upd; split
            · rename_i e; rw [e] at hq; exact h11 qs hq
            · exact hq

/-- the marking loop only adds marks (also when it fails) -/
theorem markAll_preserves (a : Bool) (s : Store) : ∀ (keys : List (List Nib)) (x : WN) (q : List Nib),
    Marked x q → Marked (markAll a s x keys).node q := by
  intro keys
  induction keys with
  | nil => intro x q hq; exact hq
  | cons k2 ks2 ih2 =>
    intro x q hq
    simp only [markAll]
    split
    · exact Mark.mark_preserves a s _ x k2 q hq
    · exact ih2 _ q (Mark.mark_preserves a s _ x k2 q hq)

/-- the marking loop over keys whose paths are all clear -/
theorem markAll_clear_ok {P : PT → Prop} (a : Bool) (s : Store) {t : PT} {m : Nat} (hu : Uniform m t) :
    ∀ (keys : List (List Nib)) (n : WN), (∀ k ∈ keys, k.length = m) → (∀ k ∈ keys, Clear n k) →
    Rep H P n t → Proper n → NoEmp n →
    let r := markAll a s n keys
    r.err = none ∧ Rep H P r.node t ∧ Proper r.node ∧ NoEmp r.node ∧ r.node.weight = n.weight ∧
      r.node.isNil = n.isNil ∧ (∀ q, Clear n q → Clear r.node q) ∧ ∀ k ∈ keys, Marked r.node k := by
  intro keys
  induction keys with
  | nil =>
    intro n _ _ hrep hp hne
    exact ⟨rfl, hrep, hp, hne, rfl, rfl, fun _ h => h, fun _ h => by cases h⟩
  | cons k ks ih =>
    intro n hlk hcl hrep hp hne
    have hk : k.length = m := hlk k List.mem_cons_self
    obtain ⟨h1, h2, h3, h4, h5, h6, h7, _, _, _, h11⟩ :=
      mark_clear_aux a s (fuelFor k) n t m k hrep hp hne hu hk (hcl k List.mem_cons_self)
        (by have := RepOps.fuelFor_ok k; omega)
    obtain ⟨g1, g2, g3, g4, g5, g6, g7, g8⟩ :=
      ih (markToCollect a s (fuelFor k) n k).node (fun x hx => hlk x (List.mem_cons_of_mem _ hx))
        (fun x hx => h11 x (hcl x (List.mem_cons_of_mem _ hx))) h2 h3 h4
    have g10 : ∀ q, Marked (markToCollect a s (fuelFor k) n k).node q →
        Marked (markAll a s (markToCollect a s (fuelFor k) n k).node ks).node q :=
      fun q hq => markAll_preserves a s ks _ q hq
    simp only [markAll, h1]
    refine ⟨g1, g2, g3, g4, g5.trans h6, g6.trans h7, fun q hq => g7 q (h11 q hq), ?_⟩
    intro x hx
    rcases List.mem_cons.mp hx with rfl | hx
    · exact g10 _ h5
    · exact g8 x hx

theorem dirtyUp_prune (n : WN) : DirtyUp (prune H n) := by
  induction n with
  | nil => trivial
  | empty => trivial
  | hashRef h w => trivial
  | value h v w d => trivial
  | short k h c d tc ih => simpa only [prune, DirtyUp] using ih
  | routing h ch w d tc ih =>
    cases tc with
    | false => simp only [prune, Bool.false_eq_true, if_false]; trivial
    | true =>
      simp only [prune, if_true, DirtyUp]
      exact ⟨fun _ i => prune_dirty (ch i), ih⟩

theorem dirtyUp_importedRoot {n : WN} (h : DirtyUp n) : DirtyUp (importedRoot n) := by
  cases n with
  | routing hh ch w d tc =>
    have h2 : ∀ i, DirtyUp (ch i) := h.2
    show (true = false → ∀ i, (ch i).dirty = false) ∧ ∀ i, DirtyUp (ch i)
    exact ⟨fun e => Bool.noConfusion e, h2⟩
  | short k hh c d tc => simpa only [importedRoot, DirtyUp] using h
  | _ => exact h

/-- **re-export of a partial trie.** `r` is the root of a storage-less partial trie (what `Deserialize` built from a path
    export) that represents `ts`; the paths of the keys `keys'` (64 nibbles) meet no reference in it. Then `GetPath(keys')`
    on it succeeds (nothing has to be resolved), `Deserialize` of the output succeeds, and the second-generation partial
    trie again represents `ts` (same root hash and weight), with the paths of `keys'` free of references; it satisfies the
    side conditions again, so it can be re-exported in turn. The first partial trie still represents `ts` after the call (same `Root()`). -/
theorem reexport_of_import (hlen : ∀ x, (H x).length = 32) (r : WN) (ts : PT) (keys' : List (List Nib))
    (hrep : RepP H r ts) (hp : Proper r) (hdu : DirtyUp r) (hnil : r.isNil = false) (hnr : isRef r = false)
    (hu : Uniform 64 ts) (hok : PTOK ts)
    (hlk : ∀ k ∈ keys', k.length = 64) (hcl : ∀ k ∈ keys', Clear r k)
    (hsz : ∀ n', Mark.markedRoot { hasDb := false, root := r } keys' = some n' →
      (∀ b ∈ (collectNodes H n').2, b.length < 2 ^ 64) ∧ (collectNodes H n').2.length < 2 ^ 64) :
    ∃ data' r', (getPath H { hasDb := false, root := r } keys').2 = .ok data' ∧
      importTrie H { hasDb := false } data' = ({ hasDb := false, root := r' }, .ok ()) ∧
      RepP H r' ts ∧ (∀ k ∈ keys', Clear r' k) ∧
      (calcHash H r').2 = PT.hash H ts ∧ r'.weight = ts.weight ∧
      (rootHash H { hasDb := false, root := r' }).2 = (rootHash H { hasDb := false, root := r }).2 ∧
      Proper r' ∧ DirtyUp r' ∧ NoEmp r' ∧ r'.isNil = false ∧
      RepP H (getPath H { hasDb := false, root := r } keys').1.root ts ∧
      (rootHash H (getPath H { hasDb := false, root := r } keys').1).2 = PT.hash H ts := by
  have hne := RepMore.noEmp_of_proper hp
  have hl : Mark.loadRoot { hasDb := false, root := r } = .ok r := by
    rw [Mark.loadRoot_eq]
    cases r with
    | hashRef a b => simp [isRef] at hnr
    | _ => rfl
  obtain ⟨m1, m2, m3, m4, m5, m6, _, m8⟩ := markAll_clear_ok (H := H) false [] hu keys' r hlk hcl hrep hp hne
  have hmr : Mark.markedRoot { hasDb := false, root := r } keys' = some (markAll false [] r keys').node := by
    simp only [Mark.markedRoot, hl, m1]
  have hgp := Mark.getPath_of_markedRoot H { hasDb := false, root := r } keys' _
    (fun k hk e => by have := hlk k hk; rw [e] at this; cases this) hmr
  generalize (markAll false [] r keys').node = n' at m2 m3 m4 m5 m6 m8 hmr hgp
  have hdu' : DirtyUp n' := (markedRoot_dirtyUp _ keys' hmr hdu).1
  have hn' : n'.isNil = false := by rw [m6]; exact hnil
  obtain ⟨s1, s2⟩ := hsz n' hmr
  have himp := import_bytes hlen m2 m3 hdu' hok hn' s1 s2 { hasDb := false }
  obtain ⟨i1, i2, i3, i4, i5⟩ := importedRoot_prune_rep (H := H) m2 m3
  have hrn : (importedRoot (prune H n')).isNil = false := by rw [importedRoot_isNil, prune_isNil]; exact hn'
  obtain ⟨c1, c2, _⟩ := rep_collectNodes (H := H) m2 m3
  have hcn : (collectNodes H n').1.isNil = false := by rw [collectNodes_isNil]; exact hn'
  rw [hgp]
  refine ⟨_, importedRoot (prune H n'), rfl, himp, i1,
    fun k hk => prune_clear_root m2 64 k hu (hlk k hk) (m8 k hk), i5, by rw [i1.weight], ?_, i2,
    dirtyUp_importedRoot (dirtyUp_prune n'), i3, hrn, c1, ?_⟩
  · rw [rootHash_rep (P := fun _ => True) _ i1 i2 hrn,
      rootHash_rep (P := fun _ => True) { hasDb := false, root := r } hrep hp hnil]
  · exact rootHash_rep (P := fun _ => True) _ c1 c2 hcn

end Reexport

/-! ### 3. export, import, re-export -/

section Chain
variable {H : Bytes → Bytes}

/-- the side conditions of `reexport_of_import` hold for the root `Deserialize` builds from a path export of a trie with a
    storage (hypotheses of `C12.export_import`) -/
theorem import_side_conditions (hlen : ∀ x, (H x).length = 32) (t : WT) (ts : PT) (keys : List (List Nib))
    (hdb : t.hasDb = true) (hrep : RepS H t.store t.root ts) (hnil : t.root.isNil = false)
    (hp : Proper t.root) (hud : UpDirty t.root) (hu : Uniform 64 ts) (hok : PTOK ts)
    (hlk : ∀ k ∈ keys, k.length = 64)
    (hsz : ∀ n', Mark.markedRoot t keys = some n' →
      (∀ b ∈ (collectNodes H n').2, b.length < 2 ^ 64) ∧ (collectNodes H n').2.length < 2 ^ 64)
    {data : Bytes} {r : WN} (hg : (getPath H t keys).2 = .ok data)
    (hi : importTrie H { hasDb := false } data = ({ hasDb := false, root := r }, .ok ())) :
    Proper r ∧ DirtyUp r ∧ NoEmp r ∧ r.isNil = false := by
  have hne := RepMore.noEmp_of_proper hp
  obtain ⟨n', hmr, hgp, m1, m2, _⟩ := Mark.getPath_marks hlen t keys hdb hrep hp hne hu hok hlk
  have hdu : DirtyUp n' := (markedRoot_dirtyUp t keys hmr (dirtyUp_of_upDirty hud)).1
  have hn' : n'.isNil = false := markedRoot_isNil hlen t keys hdb hrep hnil hp hu hok hlk hmr
  obtain ⟨s1, s2⟩ := hsz n' hmr
  have himp := import_bytes hlen m1 m2 hdu hok hn' s1 s2 { hasDb := false }
  rw [hgp] at hg
  simp only [Res.ok.injEq] at hg
  rw [← hg, himp] at hi
  have e : importedRoot (prune H n') = r := congrArg (fun x : WT × Res Unit => x.1.root) hi
  obtain ⟨_, i2, i3, _⟩ := importedRoot_prune_rep (H := H) m1 m2
  rw [← e]
  exact ⟨i2, dirtyUp_importedRoot (dirtyUp_prune n'), i3, by rw [importedRoot_isNil, prune_isNil]; exact hn'⟩

/-- …and for a source trie without storage -/
theorem import_side_conditions_storageless (hlen : ∀ x, (H x).length = 32) (t : WT) (ts : PT) (keys : List (List Nib))
    (hrep : Rep H (fun _ => False) t.root ts) (hnil : t.root.isNil = false)
    (hp : Proper t.root) (hu : Uniform 64 ts) (hok : PTOK ts)
    (hlk : ∀ k ∈ keys, k.length = 64)
    (hsz : ∀ n', Mark.markedRoot t keys = some n' →
      (∀ b ∈ (collectNodes H n').2, b.length < 2 ^ 64) ∧ (collectNodes H n').2.length < 2 ^ 64)
    {data : Bytes} {r : WN} (hg : (getPath H t keys).2 = .ok data)
    (hi : importTrie H { hasDb := false } data = ({ hasDb := false, root := r }, .ok ())) :
    Proper r ∧ DirtyUp r ∧ NoEmp r ∧ r.isNil = false := by
  have hn := noRef_of_rep hrep
  have hsz' : ∀ n', Mark.markedRoot { t with hasDb := true, store := [] } keys = some n' →
      (∀ b ∈ (collectNodes H n').2, b.length < 2 ^ 64) ∧ (collectNodes H n').2.length < 2 ^ 64 := by
    intro n' h; exact hsz n' (by rw [markedRoot_noRef t true [] keys hn]; exact h)
  rw [(getPath_noRef_root H t true [] keys hn).2] at hg
  exact import_side_conditions hlen { t with hasDb := true, store := [] } ts keys rfl (repS_of_rep_false [] hrep) hnil hp
    (upDirty_of_rep_false hrep) hu hok hlk hsz' hg hi

/-- what the chain delivers for the second-generation partial trie `r'` -/
def ReexportOK (H : Bytes → Bytes) (ts : PT) (keys' : List (List Nib)) (r : WN) : Prop :=
  ∃ data' r', (getPath H { hasDb := false, root := r } keys').2 = .ok data' ∧
    importTrie H { hasDb := false } data' = ({ hasDb := false, root := r' }, .ok ()) ∧
    RepP H r' ts ∧ (∀ k ∈ keys', Clear r' k) ∧
    (calcHash H r').2 = PT.hash H ts ∧ r'.weight = ts.weight ∧
    (rootHash H { hasDb := false, root := r' }).2 = (rootHash H { hasDb := false, root := r }).2 ∧
    RepP H (getPath H { hasDb := false, root := r } keys').1.root ts

theorem reexport_chain (hlen : ∀ x, (H x).length = 32) {r : WN} {ts : PT} {keys keys' : List (List Nib)}
    (hrep : RepP H r ts) (hside : Proper r ∧ DirtyUp r ∧ NoEmp r ∧ r.isNil = false)
    (hu : Uniform 64 ts) (hok : PTOK ts) (hlk : ∀ k ∈ keys, k.length = 64) (hcl : ∀ k ∈ keys, Clear r k)
    (hsub : ∀ k ∈ keys', k ∈ keys) (hne : keys' ≠ [])
    (hsz : ∀ n', Mark.markedRoot { hasDb := false, root := r } keys' = some n' →
      (∀ b ∈ (collectNodes H n').2, b.length < 2 ^ 64) ∧ (collectNodes H n').2.length < 2 ^ 64) :
    ReexportOK H ts keys' r := by
  obtain ⟨k0, hk0⟩ := List.exists_mem_of_ne_nil keys' hne
  have hnr : isRef r = false := Partial.clear_not_ref (hcl k0 (hsub k0 hk0))
  obtain ⟨data', r', g1, g2, g3, g4, g5, g6, g7, _, _, _, _, g12, _⟩ :=
    reexport_of_import hlen r ts keys' hrep hside.1 hside.2.1 hside.2.2.2 hnr hu hok
      (fun k hk => hlk k (hsub k hk)) (fun k hk => hcl k (hsub k hk)) hsz
  exact ⟨data', r', g1, g2, g3, g4, g5, g6, g7, g12⟩

/-- **export, import, re-export** from a trie with a storage: the partial trie built from the export of `keys` can itself
    export any non-empty sub-list `keys'`, and the import of that second export represents the same spec tree (same root
    hash and weight), with the paths of `keys'` free of references -/
theorem export_import_reexport (hlen : ∀ x, (H x).length = 32) (t : WT) (ts : PT) (keys : List (List Nib))
    (hdb : t.hasDb = true) (hrep : RepS H t.store t.root ts) (hnil : t.root.isNil = false)
    (hp : Proper t.root) (hud : UpDirty t.root) (hu : Uniform 64 ts) (hok : PTOK ts)
    (hlk : ∀ k ∈ keys, k.length = 64)
    (hsz : ∀ n', Mark.markedRoot t keys = some n' →
      (∀ b ∈ (collectNodes H n').2, b.length < 2 ^ 64) ∧ (collectNodes H n').2.length < 2 ^ 64)
    (keys' : List (List Nib)) (hsub : ∀ k ∈ keys', k ∈ keys) (hne : keys' ≠ [])
    (hsz' : ∀ r n', Mark.markedRoot { hasDb := false, root := r } keys' = some n' →
      (∀ b ∈ (collectNodes H n').2, b.length < 2 ^ 64) ∧ (collectNodes H n').2.length < 2 ^ 64) :
    ∃ data r, (getPath H t keys).2 = .ok data ∧
      importTrie H { hasDb := false } data = ({ hasDb := false, root := r }, .ok ()) ∧
      RepP H r ts ∧ (∀ k ∈ keys, Clear r k) ∧ ReexportOK H ts keys' r := by
  obtain ⟨data, r, g1, g2, g3, g4, _⟩ :=
    Verif.Props.C12.export_import H hlen t ts keys hdb hrep hnil hp hud hu hok hlk hsz
  have hside := import_side_conditions hlen t ts keys hdb hrep hnil hp hud hu hok hlk hsz g1 g2
  exact ⟨data, r, g1, g2, g3, g4, reexport_chain hlen g3 hside hu hok hlk g4 hsub hne (hsz' r)⟩

/-- the same from a source trie without storage -/
theorem export_import_reexport_storageless (hlen : ∀ x, (H x).length = 32) (t : WT) (ts : PT)
    (keys : List (List Nib))
    (hrep : Rep H (fun _ => False) t.root ts) (hnil : t.root.isNil = false)
    (hp : Proper t.root) (hu : Uniform 64 ts) (hok : PTOK ts)
    (hlk : ∀ k ∈ keys, k.length = 64)
    (hsz : ∀ n', Mark.markedRoot t keys = some n' →
      (∀ b ∈ (collectNodes H n').2, b.length < 2 ^ 64) ∧ (collectNodes H n').2.length < 2 ^ 64)
    (keys' : List (List Nib)) (hsub : ∀ k ∈ keys', k ∈ keys) (hne : keys' ≠ [])
    (hsz' : ∀ r n', Mark.markedRoot { hasDb := false, root := r } keys' = some n' →
      (∀ b ∈ (collectNodes H n').2, b.length < 2 ^ 64) ∧ (collectNodes H n').2.length < 2 ^ 64) :
    ∃ data r, (getPath H t keys).2 = .ok data ∧
      importTrie H { hasDb := false } data = ({ hasDb := false, root := r }, .ok ()) ∧
      RepP H r ts ∧ (∀ k ∈ keys, Clear r k) ∧ ReexportOK H ts keys' r := by
  obtain ⟨data, r, g1, g2, g3, g4, _⟩ := export_import_storageless H hlen t ts keys hrep hnil hp hu hok hlk hsz
  have hside := import_side_conditions_storageless hlen t ts keys hrep hnil hp hu hok hlk hsz g1 g2
  exact ⟨data, r, g1, g2, g3, g4, reexport_chain hlen g3 hside hu hok hlk g4 hsub hne (hsz' r)⟩

end Chain

/-- the hypotheses on a storage-less source are satisfiable: the trie after one `Update` on `New(nil, nil)` -/
theorem storageless_witness (H : Bytes → Bytes) (v : Bytes) (w : Nat) :
    let n : WN := .short (List.replicate 64 1) [] (.value [] v w true) true false
    let ts : PT := .short (List.replicate 64 1) (.value v w)
    Rep H (fun _ => False) n ts ∧ Proper n ∧ n.isNil = false ∧ Uniform 64 ts := by
  refine ⟨Rep.short _ _ _ _ _ _ (Rep.value _ _ _ _ (fun h => by cases h)) (fun h => by cases h), ?_, rfl, ?_⟩
  · exact ⟨rfl, ⟨fun h => WN.noConfusion h, ⟨fun h => Bool.noConfusion h, trivial⟩⟩⟩
  · refine ⟨by simp, ?_, by simp, by simp [PT.isVB], ?_⟩
    · intro b hb
      rw [List.eq_of_mem_replicate hb]
      decide
    · simp [Uniform]

end Verif.Wmpt
