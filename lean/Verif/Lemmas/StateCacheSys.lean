import Verif.Lemmas.StateCacheSeq
/-! Whole histories over the layered system (state / block / transaction / query caches). -/
set_option linter.unusedSectionVars false
namespace Verif.SC

variable {H K B V : Type} [DecidableEq H] [DecidableEq K] [DecidableEq B]

structure SysInv (s : Sys H K B V) (T : Tree K B V) : Prop where
  inv : Inv s.sc T none
  nodup : ∀ h bc, alookup s.bcs h = some bc → (bc.cache.map Prod.fst).Nodup

theorem Answer.det {T : Tree K B V} {pend : List (List (K × Entry V))} {b : B} {k : K} {e e' : Entry V}
    (h : Answer T pend b k e) (h' : Answer T pend b k e') : e = e' := by
  unfold Answer at *
  cases hp : pendLookup pend k with
  | some x => rw [hp] at h h'; simp only at h h'; rw [h, h']
  | none => rw [hp] at h h'; exact Chain.det h h'

theorem nodup_foldl_setValue (l : List (K × Entry V)) (bc : BC K B V) (h : (bc.cache.map Prod.fst).Nodup) :
    ((l.foldl (fun b p => b.setValue p.1 p.2) bc).cache.map Prod.fst).Nodup := by
  induction l generalizing bc with
  | nil => exact h
  | cons p r ih => exact ih _ (nodup_keys_aset _ _ _ h)

theorem SC.remove_ev_le (sc : SC K B V) (k : K) : sc.evictions ≤ (sc.remove k).evictions := by
  unfold SC.remove
  cases alookup sc.cache k with
  | none => exact Nat.le_refl _
  | some _ => exact Nat.le_add_right _ _

/-- a `Remove` that does not count as an eviction removed nothing -/
theorem SC.remove_noev (sc : SC K B V) (k : K) (h : (sc.remove k).evictions = sc.evictions) : sc.remove k = sc := by
  unfold SC.remove at *
  cases hk : alookup sc.cache k with
  | none => rfl
  | some _ => rw [hk] at h; simp at h

theorem BC.get_ev_le (sc : SC K B V) (bc : BC K B V) (k : K) : sc.evictions ≤ (bc.get sc k).1.evictions := by
  unfold BC.get
  cases alookup bc.cache k with
  | some e => exact Nat.le_refl _
  | none => exact SC.get_ev_le _ _ _

theorem BC.commit_ev_le (sc : SC K B V) (bc : BC K B V) : sc.evictions ≤ (bc.commit sc).1.evictions := by
  unfold BC.commit; exact SC.commit_ev_le _ _ _ _

theorem Sys.step_ev_le (s : Sys H K B V) (op : Op H K B V) : s.sc.evictions ≤ (s.step op).1.sc.evictions := by
  cases op with
  | blk h hash prev => exact Nat.le_refl _
  | bhash h hash => simp only [Sys.step]; cases alookup s.bcs h <;> exact Nat.le_refl _
  | txn t h => simp only [Sys.step]; cases alookup s.bcs h <;> exact Nat.le_refl _
  | qtxn t b => exact Nat.le_refl _
  | tset t k v => simp only [Sys.step]; cases alookup s.tcs t <;> exact Nat.le_refl _
  | trem t k => simp only [Sys.step]; cases alookup s.tcs t <;> exact Nat.le_refl _
  | tget t k =>
    simp only [Sys.step]
    cases alookup s.tcs t with
    | none => exact Nat.le_refl _
    | some tc =>
      simp only
      cases alookup tc.cache k with
      | some e => exact Nat.le_refl _
      | none =>
        simp only
        cases tc.main with
        | block h =>
          simp only
          cases alookup s.bcs h with
          | none => exact Nat.le_refl _
          | some bc => exact BC.get_ev_le _ _ _
        | query b => exact SC.get_ev_le _ _ _
  | tcommit t =>
    simp only [Sys.step]
    cases alookup s.tcs t with
    | none => exact Nat.le_refl _
    | some tc =>
      simp only
      cases tc.main with
      | block h => simp only; cases alookup s.bcs h <;> exact Nat.le_refl _
      | query b => simp only; cases tc.cache <;> exact Nat.le_refl _
  | bset h k v => simp only [Sys.step]; cases alookup s.bcs h <;> exact Nat.le_refl _
  | bget h k =>
    simp only [Sys.step]
    cases alookup s.bcs h with
    | none => exact Nat.le_refl _
    | some bc => exact BC.get_ev_le _ _ _
  | bcommit h =>
    simp only [Sys.step]
    cases alookup s.bcs h with
    | none => exact Nat.le_refl _
    | some bc => exact BC.commit_ev_le _ _
  | qget b k => exact SC.get_ev_le _ _ _
  | sget k b => exact SC.get_ev_le _ _ _
  | srem k => exact SC.remove_ev_le _ _

theorem Sys.run_ev_le (s : Sys H K B V) (ops : List (Op H K B V)) : s.sc.evictions ≤ (s.run ops).1.sc.evictions := by
  induction ops generalizing s with
  | nil => exact Nat.le_refl _
  | cons op ops ih =>
    simp only [Sys.run]
    exact Nat.le_trans (Sys.step_ev_le s op) (ih _)

theorem BC.get_correct {T : Tree K B V} (sc : SC K B V) (bc : BC K B V) (k : K)
    (hI : Inv sc T none) (hev : (bc.get sc k).1.evictions = sc.evictions) :
    Inv (bc.get sc k).1 T none ∧ ∀ v, (bc.get sc k).2 = some v → Answer T [bc.cache] bc.base k (.val v) := by
  unfold BC.get at hev ⊢
  unfold Answer pendLookup pendLookup
  cases he : alookup bc.cache k with
  | some e =>
    simp only
    exact ⟨hI, fun v hv => (Entry.result_val hv).symm⟩
  | none =>
    simp only [he] at hev ⊢
    exact SC.get_correct sc k bc.base hI hev

theorem alookup_aset' {α β : Type} [DecidableEq α] (l : List (α × β)) (k k' : α) (v : β) (x : β)
    (h : alookup (aset l k v) k' = some x) : (k = k' ∧ x = v) ∨ (k ≠ k' ∧ alookup l k' = some x) := by
  rw [alookup_aset] at h
  by_cases hk : k = k'
  · simp [hk] at h; exact .inl ⟨hk, h.symm⟩
  · simp [hk] at h; exact .inr ⟨hk, h⟩

theorem SysInv.set_bc {s : Sys H K B V} {T : Tree K B V} (hS : SysInv s T) (h : H) (bc : BC K B V)
    (hn : (bc.cache.map Prod.fst).Nodup) (tcs : List (H × TC H K B V)) :
    SysInv { s with bcs := aset s.bcs h bc, tcs := tcs } T := by
  refine ⟨hS.inv, fun h' bc' hb => ?_⟩
  rcases alookup_aset' _ _ _ _ _ hb with ⟨_, rfl⟩ | ⟨_, hb⟩
  · exact hn
  · exact hS.nodup h' bc' hb

theorem SysInv.set_sc {s : Sys H K B V} {T T' : Tree K B V} (hS : SysInv s T) (sc : SC K B V)
    (hI : Inv sc T' none) : SysInv { s with sc := sc } T' := ⟨hI, hS.nodup⟩

theorem Sys.step_inv {T : Tree K B V} (s : Sys H K B V) (op : Op H K B V) (hS : SysInv s T)
    (hev : (s.step op).1.sc.evictions = s.sc.evictions) : SysInv (s.step op).1 (s.treeStep T op) := by
  cases op with
  | blk h hash prev => exact hS.set_bc h ⟨hash, prev, [], false⟩ (by simp) s.tcs
  | bhash h hash =>
    simp only [Sys.step, Sys.treeStep]
    cases hb : alookup s.bcs h with
    | none => exact hS
    | some bc => exact hS.set_bc h ⟨hash, bc.prev, bc.cache, bc.committed⟩ (hS.nodup h bc hb) s.tcs
  | txn t h =>
    simp only [Sys.step, Sys.treeStep]
    cases hb : alookup s.bcs h with
    | none => exact hS
    | some bc => exact ⟨hS.inv, hS.nodup⟩
  | qtxn t b => exact ⟨hS.inv, hS.nodup⟩
  | tset t k v =>
    simp only [Sys.step, Sys.treeStep]
    cases alookup s.tcs t with
    | none => exact hS
    | some tc => exact ⟨hS.inv, hS.nodup⟩
  | trem t k =>
    simp only [Sys.step, Sys.treeStep]
    cases alookup s.tcs t with
    | none => exact hS
    | some tc => exact ⟨hS.inv, hS.nodup⟩
  | tget t k =>
    simp only [Sys.step, Sys.treeStep] at hev ⊢
    cases h1 : alookup s.tcs t with
    | none => exact hS
    | some tc =>
      simp only [h1] at hev ⊢
      cases h2 : alookup tc.cache k with
      | some e => exact hS
      | none =>
        simp only [h2] at hev ⊢
        cases h3 : tc.main with
        | block h =>
          simp only [h3] at hev ⊢
          cases h4 : alookup s.bcs h with
          | none => exact hS
          | some bc =>
            simp only [h4] at hev ⊢
            exact hS.set_sc _ (BC.get_correct s.sc bc k hS.inv hev).1
        | query b =>
          simp only [h3] at hev ⊢
          exact hS.set_sc _ (SC.get_correct s.sc k b hS.inv hev).1
  | tcommit t =>
    simp only [Sys.step, Sys.treeStep]
    cases alookup s.tcs t with
    | none => exact hS
    | some tc =>
      simp only
      cases tc.main with
      | block h =>
        simp only
        cases hb : alookup s.bcs h with
        | none => exact hS
        | some bc => exact hS.set_bc h _ (nodup_foldl_setValue _ _ (hS.nodup h bc hb)) _
      | query b => simp only; cases tc.cache <;> exact hS
  | bset h k v =>
    simp only [Sys.step, Sys.treeStep]
    cases hb : alookup s.bcs h with
    | none => exact hS
    | some bc => exact hS.set_bc h _ (nodup_keys_aset _ _ _ (hS.nodup h bc hb)) s.tcs
  | bget h k =>
    simp only [Sys.step, Sys.treeStep] at hev ⊢
    cases h1 : alookup s.bcs h with
    | none => exact hS
    | some bc =>
      simp only [h1] at hev ⊢
      exact hS.set_sc _ (BC.get_correct s.sc bc k hS.inv hev).1
  | bcommit h =>
    simp only [Sys.step, Sys.treeStep] at hev ⊢
    cases hb : alookup s.bcs h with
    | none => exact hS
    | some bc =>
      simp only [hb] at hev ⊢
      have hn := hS.nodup h bc hb
      have hI' : Inv (bc.commit s.sc).1 (T.commit ⟨bc.hash, bc.prev, bc.cache⟩) none := by
        unfold BC.commit at hev ⊢
        exact SC.commit_correct s.sc bc.hash bc.prev bc.cache hS.inv hn hev
      refine ⟨hI', fun h' bc' hb' => ?_⟩
      rcases alookup_aset' _ _ _ _ _ hb' with ⟨_, rfl⟩ | ⟨_, hb'⟩
      · unfold BC.commit; simp only
        split
        · simp
        · exact hn
      · exact hS.nodup h' bc' hb'
  | qget b k => exact hS.set_sc _ (SC.get_correct s.sc k b hS.inv hev).1
  | sget k b => exact hS.set_sc _ (SC.get_correct s.sc k b hS.inv hev).1
  | srem k =>
    simp only [Sys.step, Sys.treeStep] at hev ⊢
    rw [SC.remove_noev s.sc k hev]; exact hS

/-- a hit/miss output is correct for the demanded answer when every hit value is the demanded one -/
theorem okOfHits {T : Tree K B V} {pend : List (List (K × Entry V))} {b : B} {k : K} {r : Option V}
    (h : ∀ v, r = some v → Answer T pend b k (.val v)) :
    (∀ v, Out.ofOption r = .hit v → Answer T pend b k (.val v)) ∧
    (Answer T pend b k .tomb → Out.ofOption r = Out.miss) := by
  constructor
  · intro v hv
    cases r with
    | none => simp [Out.ofOption] at hv
    | some w => simp [Out.ofOption] at hv; subst hv; exact h w rfl
  · intro ht
    cases r with
    | none => rfl
    | some w => have := Answer.det (h w rfl) ht; cases this

theorem answer_pending {T : Tree K B V} {m : List (K × Entry V)} {rest : List (List (K × Entry V))} {b : B} {k : K}
    {e : Entry V} (he : alookup m k = some e) (v : V) (hv : e.result = some v) :
    Answer T (m :: rest) b k (.val v) := by
  unfold Answer pendLookup; rw [he]; simp only; exact (Entry.result_val hv).symm

theorem answer_skip {T : Tree K B V} {m : List (K × Entry V)} {rest : List (List (K × Entry V))} {b : B} {k : K}
    {e : Entry V} (he : alookup m k = none) : Answer T (m :: rest) b k e ↔ Answer T rest b k e := by
  unfold Answer; conv => lhs; unfold pendLookup
  rw [he]

theorem Sys.step_ok {T : Tree K B V} (s : Sys H K B V) (op : Op H K B V) (hS : SysInv s T)
    (hev : (s.step op).1.sc.evictions = s.sc.evictions) : OpOK s T op := by
  intro pend b k hctx
  cases op with
  | tget t k' =>
    simp only [Sys.ctx] at hctx
    simp only [Sys.step] at hev ⊢
    cases h1 : alookup s.tcs t with
    | none => simp [h1] at hctx
    | some tc =>
      simp only [h1] at hctx hev ⊢
      cases h3 : tc.main with
      | block h =>
        simp only [h3] at hctx hev ⊢
        cases h4 : alookup s.bcs h with
        | none => simp [h4] at hctx
        | some bc =>
          simp only [h4, Option.some.injEq, Prod.mk.injEq] at hctx hev ⊢
          obtain ⟨rfl, rfl, rfl⟩ := hctx
          cases h2 : alookup tc.cache k' with
          | some e => simp only; exact okOfHits (fun v hv => answer_pending h2 v hv)
          | none =>
            simp only [h2] at hev ⊢
            apply okOfHits
            intro v hv
            rw [answer_skip h2]
            exact (BC.get_correct s.sc bc k' hS.inv hev).2 v hv
      | query qb =>
        simp only [h3, Option.some.injEq, Prod.mk.injEq] at hctx hev ⊢
        obtain ⟨rfl, rfl, rfl⟩ := hctx
        cases h2 : alookup tc.cache k' with
        | some e => simp only; exact okOfHits (fun v hv => answer_pending h2 v hv)
        | none =>
          simp only [h2] at hev ⊢
          apply okOfHits
          intro v hv
          rw [answer_skip h2]
          unfold Answer pendLookup; simp only
          exact (SC.get_correct s.sc k' qb hS.inv hev).2 v hv
  | bget h k' =>
    simp only [Sys.ctx] at hctx
    simp only [Sys.step] at hev ⊢
    cases h4 : alookup s.bcs h with
    | none => simp [h4] at hctx
    | some bc =>
      simp only [h4, Option.some.injEq, Prod.mk.injEq] at hctx hev ⊢
      obtain ⟨rfl, rfl, rfl⟩ := hctx
      exact okOfHits (fun v hv => (BC.get_correct s.sc bc k' hS.inv hev).2 v hv)
  | qget qb k' =>
    simp only [Sys.ctx, Option.some.injEq, Prod.mk.injEq] at hctx
    obtain ⟨rfl, rfl, rfl⟩ := hctx
    simp only [Sys.step] at hev ⊢
    apply okOfHits
    intro v hv
    unfold Answer pendLookup; simp only
    exact (SC.get_correct s.sc k' qb hS.inv hev).2 v hv
  | sget k' qb =>
    simp only [Sys.ctx, Option.some.injEq, Prod.mk.injEq] at hctx
    obtain ⟨rfl, rfl, rfl⟩ := hctx
    simp only [Sys.step] at hev ⊢
    apply okOfHits
    intro v hv
    unfold Answer pendLookup; simp only
    exact (SC.get_correct s.sc k' qb hS.inv hev).2 v hv
  | blk _ _ _ => simp [Sys.ctx] at hctx
  | bhash _ _ => simp [Sys.ctx] at hctx
  | txn _ _ => simp [Sys.ctx] at hctx
  | qtxn _ _ => simp [Sys.ctx] at hctx
  | tset _ _ _ => simp [Sys.ctx] at hctx
  | trem _ _ => simp [Sys.ctx] at hctx
  | tcommit _ => simp [Sys.ctx] at hctx
  | bset _ _ _ => simp [Sys.ctx] at hctx
  | bcommit _ => simp [Sys.ctx] at hctx
  | srem _ => simp [Sys.ctx] at hctx

theorem Sys.run_ok {T : Tree K B V} (s : Sys H K B V) (ops : List (Op H K B V)) (hS : SysInv s T)
    (hne : NoEviction s ops) : AllOK s T ops := by
  induction ops generalizing s T with
  | nil => trivial
  | cons op ops ih =>
    unfold NoEviction at hne
    simp only [Sys.run] at hne
    have h1 : (s.step op).1.sc.evictions = s.sc.evictions :=
      Nat.le_antisymm (by rw [← hne]; exact Sys.run_ev_le _ _) (Sys.step_ev_le s op)
    exact ⟨Sys.step_ok s op hS h1, ih _ (Sys.step_inv s op hS h1) (by unfold NoEviction; rw [hne, h1])⟩

theorem Sys.run_inv {T : Tree K B V} (s : Sys H K B V) (ops : List (Op H K B V)) (hS : SysInv s T)
    (hne : NoEviction s ops) : SysInv (s.run ops).1 (s.treeRun T ops) := by
  induction ops generalizing s T with
  | nil => exact hS
  | cons op ops ih =>
    unfold NoEviction at hne
    simp only [Sys.run] at hne ⊢
    have h1 : (s.step op).1.sc.evictions = s.sc.evictions :=
      Nat.le_antisymm (by rw [← hne]; exact Sys.run_ev_le _ _) (Sys.step_ev_le s op)
    exact ih _ (Sys.step_inv s op hS h1) (by unfold NoEviction; rw [hne, h1])

theorem Sys.run_append (s : Sys H K B V) (pre post : List (Op H K B V)) :
    (s.run (pre ++ post)).1 = ((s.run pre).1.run post).1 := by
  induction pre generalizing s with
  | nil => rfl
  | cons op pre ih => simp only [List.cons_append, Sys.run]; exact ih _

theorem AllOK.nth {s : Sys H K B V} {T : Tree K B V} (pre : List (Op H K B V)) (op : Op H K B V)
    (post : List (Op H K B V)) (h : AllOK s T (pre ++ op :: post)) :
    OpOK (s.run pre).1 (s.treeRun T pre) op := by
  induction pre generalizing s T with
  | nil => exact h.1
  | cons o pre ih => simp only [Sys.run, Sys.treeRun]; exact ih h.2

theorem SysInv.init (capK maxDepth : Nat) : SysInv (Sys.new capK maxDepth : Sys H K B V) [] := by
  refine ⟨⟨fun k b e h => ?_, fun b p h => ?_, fun b x h => ?_⟩, fun h bc hb => ?_⟩
  · simp [entryAt, Sys.new, SC.new] at h
  · simp [linkAt, Sys.new, SC.new, LRU.empty, LRU.peek] at h
  · simp [Tree.find] at h
  · simp [Sys.new] at hb

end Verif.SC
