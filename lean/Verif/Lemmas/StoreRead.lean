/-
Refinement of the store-reading operations (Model/MptStoreRead) to the value-level trie: when every node of the tree is
stored under its key (`ResolvesS`), loading the tree through `get` returns the tree itself, so `insertS`/`deleteS`/
`lookupS` are `insertE`/`deleteE`/`lookup` with the same events; a node `get` does not deliver makes them `nodeNotFound`.
-/
import Verif.Model.MptStoreRead
namespace Verif.MptStore
open Verif.Mpt

/-- every node of `t` is delivered by the shape store under its key -/
def ResolvesS (H : Bytes → Bytes) (getS : Bytes → Option Shape) (t : Node) (pre : List Nib) : Prop :=
  ∀ r ∈ refs t pre, getS (r.key H) = shapeOf H r.t r.pos

theorem loadS_none (getS : Bytes → Option Shape) (fuel : Nat) : loadS getS fuel none = some .empty := by
  cases fuel <;> rfl

theorem le_foldl_max (l : List Nat) (a b : Nat) (h : a ≤ b ∨ a ∈ l) : a ≤ l.foldl max b := by
  induction l generalizing b with
  | nil => rcases h with h | h; exact h; cases h
  | cons x l ih =>
    simp only [List.foldl_cons]
    apply ih
    rcases h with h | h
    · exact Or.inl (Nat.le_trans h (Nat.le_max_left b x))
    · rcases List.mem_cons.mp h with h | h
      · exact Or.inl (h ▸ Nat.le_max_right b x)
      · exact Or.inr h

theorem height_child (o : Nat) (ch : Nib → Node) (val : Option Bytes) (i : Nib) : height (ch i) + 1 ≤ height (.full o ch val) := by
  simp only [height]
  have := le_foldl_max ((List.finRange 16).map (fun i => height (ch i))) (height (ch i)) 0
    (Or.inr (List.mem_map.mpr ⟨i, List.mem_finRange i, rfl⟩))
  omega

theorem allSome_some (f : Nib → Option Node) (ch : Nib → Node) (h : ∀ i, f i = some (ch i)) : allSome f = some ch := by
  have h1 : ∀ i, (f i).isSome := fun i => by rw [h i]; rfl
  simp only [allSome, h1, implies_true, if_true, Option.some.injEq]
  funext i
  rw [h i]; rfl

theorem allSome_none (f : Nib → Option Node) (i : Nib) (h : f i = none) : allSome f = none := by
  have : ¬ ∀ i, (f i).isSome := fun hall => by have := hall i; rw [h] at this; cases this
  simp [allSome, this]

/-- **Loading a stored tree returns the tree.** -/
theorem loadS_resolves (H : Bytes → Bytes) (getS : Bytes → Option Shape) (t : Node) :
    ∀ (pre : List Nib) (fuel : Nat), height t ≤ fuel → ResolvesS H getS t pre → loadS getS fuel (okey H t pre) = some t := by
  induction t with
  | empty => intro pre fuel _ _; simp [okey, Node.isEmpty, loadS_none]
  | leaf o lp lv =>
    intro pre fuel hf hr
    have h := hr ⟨pre, .leaf o lp lv⟩ (by simp [refs])
    cases fuel with
    | zero => simp [height] at hf
    | succ n =>
      simp only [okey, Node.isEmpty, loadS, Bool.false_eq_true, if_false]
      simp only [Ref.key] at h
      rw [h]; rfl
  | full o ch val ih =>
    intro pre fuel hf hr
    have h := hr ⟨pre, .full o ch val⟩ (by simp [refs])
    cases fuel with
    | zero => simp [height] at hf
    | succ n =>
      simp only [okey, Node.isEmpty, loadS, Bool.false_eq_true, if_false]
      simp only [Ref.key] at h
      rw [h]
      simp only [shapeOf]
      have hch : ∀ i, loadS getS n (okey H (ch i) (pre ++ [i])) = some (ch i) := by
        intro i
        apply ih i (pre ++ [i]) n
        · have := height_child o ch val i; omega
        · intro r hr'
          apply hr r
          simp only [refs, List.mem_cons, List.mem_flatMap]
          exact Or.inr ⟨i, List.mem_finRange i, hr'⟩
      rw [allSome_some _ ch hch]; rfl
  | ext o ep c ih =>
    intro pre fuel hf hr
    have h := hr ⟨pre, .ext o ep c⟩ (by simp [refs])
    cases fuel with
    | zero => simp [height] at hf
    | succ n =>
      simp only [okey, Node.isEmpty, loadS, Bool.false_eq_true, if_false]
      simp only [Ref.key] at h
      rw [h]
      simp only [shapeOf]
      have hc : loadS getS n (okey H c (pre ++ ep)) = some c := by
        apply ih (pre ++ ep) n
        · simp only [height] at hf; omega
        · intro r hr'
          apply hr r
          simp only [refs, List.mem_cons]
          exact Or.inr hr'
      rw [hc]; rfl

/-- **A node that `get` does not deliver fails the load**, whatever the fuel: every node of `t` is either delivered
    correctly or not at all, and at least one is not. -/
theorem loadS_missing (H : Bytes → Bytes) (getS : Bytes → Option Shape) (t : Node) :
    ∀ (pre : List Nib) (fuel : Nat),
      (∀ r ∈ refs t pre, getS (r.key H) = shapeOf H r.t r.pos ∨ getS (r.key H) = none) →
      (∃ r ∈ refs t pre, getS (r.key H) = none) → loadS getS fuel (okey H t pre) = none := by
  induction t with
  | empty => intro pre fuel _ ⟨r, hr, _⟩; simp [refs] at hr
  | leaf o lp lv =>
    intro pre fuel _ ⟨r, hr, hn⟩
    simp only [refs, List.mem_singleton] at hr
    subst hr
    cases fuel with
    | zero => simp [okey, Node.isEmpty, loadS]
    | succ n =>
      simp only [okey, Node.isEmpty, loadS, Bool.false_eq_true, if_false]
      simp only [Ref.key] at hn
      rw [hn]
  | full o ch val ih =>
    intro pre fuel hall ⟨r, hr, hn⟩
    cases fuel with
    | zero => simp [okey, Node.isEmpty, loadS]
    | succ n =>
      simp only [okey, Node.isEmpty, loadS, Bool.false_eq_true, if_false]
      rcases hall ⟨pre, .full o ch val⟩ (by simp [refs]) with h | h
      · simp only [Ref.key] at h
        rw [h]
        simp only [shapeOf]
        simp only [refs, List.mem_cons, List.mem_flatMap] at hr
        rcases hr with hr | ⟨i, _, hr⟩
        · subst hr
          simp only [Ref.key] at hn
          rw [hn] at h; cases h
        · have hci : loadS getS n (okey H (ch i) (pre ++ [i])) = none := by
            apply ih i (pre ++ [i]) n
            · intro r' hr'
              apply hall r'
              simp only [refs, List.mem_cons, List.mem_flatMap]
              exact Or.inr ⟨i, List.mem_finRange i, hr'⟩
            · exact ⟨r, hr, hn⟩
          rw [allSome_none _ i hci]; rfl
      · simp only [Ref.key] at h
        rw [h]
  | ext o ep c ih =>
    intro pre fuel hall ⟨r, hr, hn⟩
    cases fuel with
    | zero => simp [okey, Node.isEmpty, loadS]
    | succ n =>
      simp only [okey, Node.isEmpty, loadS, Bool.false_eq_true, if_false]
      rcases hall ⟨pre, .ext o ep c⟩ (by simp [refs]) with h | h
      · simp only [Ref.key] at h
        rw [h]
        simp only [shapeOf]
        simp only [refs, List.mem_cons] at hr
        rcases hr with hr | hr
        · subst hr
          simp only [Ref.key] at hn
          rw [hn] at h; cases h
        · have hc : loadS getS n (okey H c (pre ++ ep)) = none := by
            apply ih (pre ++ ep) n
            · intro r' hr'
              apply hall r'
              simp only [refs, List.mem_cons]
              exact Or.inr hr'
            · exact ⟨r, hr, hn⟩
          rw [hc]; rfl
      · simp only [Ref.key] at h
        rw [h]

/-- the bytes-level `Resolves` gives the shape-level one, for a decoder that reads a node's fields and child keys back
    from its stored encoding -/
theorem resolvesS_of_resolves (H : Bytes → Bytes) (dec : Bytes → Option Shape) (get : Bytes → Option Bytes)
    (t : Node) (pre : List Nib) (hdec : ∀ r ∈ refs t pre, dec (r.encode H) = shapeOf H r.t r.pos)
    (h : Resolves H get t pre) : ResolvesS H (shapesOf dec get) t pre := by
  intro r hr
  simp only [shapesOf, h r hr, Option.bind_some]
  exact hdec r hr

/-- a tree whose paths cross an extension and a branch: keys `[1,2] := 65`, `[1,3] := 66` -/
def xExt : Node := .ext 1 [1] (.full 1 (upd (upd emptyCh 2 (.leaf 1 [] [65])) 3 (.leaf 1 [] [66])) none)

theorem xExt_refs (r : Ref) (hr : r ∈ refs xExt []) :
    r = ⟨[], xExt⟩ ∨ r = ⟨[1], .full 1 (upd (upd emptyCh 2 (.leaf 1 [] [65])) 3 (.leaf 1 [] [66])) none⟩ ∨
    r = ⟨[1, 2], .leaf 1 [] [65]⟩ ∨ r = ⟨[1, 3], .leaf 1 [] [66]⟩ := by
  simp [refs, xExt, upd, emptyCh, List.finRange, List.ofFn] at hr
  rcases hr with h | h | ⟨a, _, ha⟩
  · exact Or.inl h
  · exact Or.inr (Or.inl h)
  · by_cases h3 : a = 3
    · subst h3; simp [refs] at ha; exact Or.inr (Or.inr (Or.inr ha))
    · by_cases h2 : a = 2
      · subst h2; simp [refs] at ha; exact Or.inr (Or.inr (Or.inl ha))
      · simp [h3, h2, refs] at ha

end Verif.MptStore
