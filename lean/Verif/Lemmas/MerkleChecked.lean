import Verif.Model.MerkleChecked
import Verif.Lemmas.MerklePath
import Verif.Lemmas.MerkleSize
/-! The checked Merkle model does not panic on the property's inputs and then agrees with the total model. -/
namespace Verif.Merkle

variable {α : Type}

theorem rd_ok (t : Array α) (z : α) (i : Nat) (h : i < t.size) : rd t i = .ok (t.getD i z) := by
  simp [rd, h, Array.getD_eq_getD_getElem?]

theorem rd_panic (t : Array α) (i : Nat) (h : t.size ≤ i) : rd t i = .panic := by
  simp [rd, Nat.not_lt.mpr h]

theorem wr_ok (t : Array α) (i : Nat) (v : α) (h : i < t.size) : wr t i v = .ok (t.setIfInBounds i v) := by
  simp [wr, h]

theorem rdI_cast (t : Array α) (k : Nat) : rdI t (k : Int) = rd t k := by
  simp [rdI]

theorem rdI_neg (t : Array α) (i : Int) (h : i < 0) : rdI t i = .panic := by
  simp [rdI, Int.not_le.mpr h]

/-! ### `ComputeTree` -/

theorem copyLoopC_spec : ∀ (ls A B C : List α), B.length = ls.length →
    copyLoopC ls A.length (A ++ B ++ C).toArray = .ok (A ++ ls ++ C).toArray
  | [], A, B, C, h => by
    have : B = [] := List.length_eq_zero_iff.mp (by simpa using h)
    subst this; simp [copyLoopC]
  | x :: r, A, B, C, h => by
    match B, h with
    | b :: B', h =>
      have hlt : A.length < (A ++ (b :: B') ++ C).toArray.size := by simp
      have hset : (A ++ (b :: B') ++ C).toArray.setIfInBounds A.length x = ((A ++ [x]) ++ B' ++ C).toArray := by
        simp
      simp only [copyLoopC, wr_ok _ _ _ hlt, hset]
      have := copyLoopC_spec r (A ++ [x]) B' C (by simpa using h)
      simpa using this

theorem size_innerLoop (H : α → α → α) (z : α) (pl0 plsize j : Nat) (t : Array α) :
    (innerLoop H z pl0 plsize (2 * j) j t).size = t.size :=
  (innerLoop_spec H z pl0 plsize (2 * j) j t rfl).1

theorem size_levelPass (H : α → α → α) (z : α) (pl0 plsize : Nat) (t : Array α) :
    (levelPass H z pl0 plsize t).size = t.size := by
  unfold levelPass
  have := size_innerLoop H z pl0 plsize 0 t
  split <;> simp [this]

theorem innerLoopC_eq (H : α → α → α) (z : α) (pl0 plsize : Nat) : ∀ (i j : Nat) (t : Array α), i = 2 * j →
    pl0 + plsize + (plsize + 1) / 2 ≤ t.size →
    innerLoopC H pl0 plsize i j t = .ok (innerLoop H z pl0 plsize i j t) := by
  intro i j t
  induction i, j, t using innerLoop.induct H z pl0 plsize with
  | case1 i j t hlt ih =>
    intro hij hb
    rw [innerLoopC, innerLoop]
    simp only [hlt, dite_true]
    rw [rd_ok t z _ (by omega), rd_ok t z _ (by omega)]
    simp only
    rw [wr_ok _ _ _ (by omega)]
    exact ih (by omega) (by rw [Array.size_setIfInBounds]; exact hb)
  | case2 i j t hlt =>
    intro _ _
    rw [innerLoopC, innerLoop]
    simp only [hlt, dite_false]

theorem levelPassC_eq (H : α → α → α) (z : α) (pl0 plsize : Nat) (t : Array α) (h1 : 1 < plsize)
    (hb : pl0 + plsize + (plsize + 1) / 2 ≤ t.size) :
    levelPassC H pl0 plsize t = .ok (levelPass H z pl0 plsize t) := by
  unfold levelPassC levelPass
  rw [innerLoopC_eq H z pl0 plsize 0 0 t rfl hb]
  have hs := size_innerLoop H z pl0 plsize 0 t
  by_cases hodd : plsize % 2 = 1
  · simp only [hodd, if_true]
    rw [rd_ok _ z _ (by rw [hs]; omega)]
    simp only
    rw [wr_ok _ _ _ (by rw [hs]; omega)]
  · simp only [hodd, if_false]

theorem le_sz (k : Nat) : k ≤ sz k := by
  by_cases h : 1 < k
  · rw [sz_big k h]; omega
  · rw [sz_small k h]; omega

theorem outerLoopC_eq (H : α → α → α) (z : α) : ∀ (pl0 plsize : Nat) (t : Array α), pl0 + sz plsize ≤ t.size →
    outerLoopC H pl0 plsize t = .ok (outerLoop H z pl0 plsize t) := by
  intro pl0 plsize t
  induction pl0, plsize, t using outerLoop.induct H z with
  | case1 pl0 plsize t h1 ih =>
    intro hb
    rw [outerLoopC, outerLoop]
    simp only [h1, dite_true]
    rw [sz_big plsize h1] at hb
    have := le_sz ((plsize + 1) / 2)
    rw [levelPassC_eq H z pl0 plsize t h1 (by omega)]
    simp only
    exact ih (by rw [size_levelPass]; omega)
  | case2 pl0 plsize t h1 =>
    intro _
    rw [outerLoopC, outerLoop]
    simp only [h1, dite_false]

/-- **`ComputeTree` never panics on a non-empty list**, and computes what the total model computes. -/
theorem computeTreeC_eq (H : α → α → α) (z : α) (ls : List α) (hn : 1 ≤ ls.length) :
    computeTreeC H z ls = .ok (computeTree H z ls) := by
  have hsz := computeSize_spec H ls hn
  have hle : ls.length ≤ (computeSize ls.length).1 := by
    rw [computeSize_fst]; split
    · omega
    · exact le_sz _
  have hcopy : copyLoopC ls 0 (Array.replicate (computeSize ls.length).1 z)
      = .ok (ls ++ List.replicate ((computeSize ls.length).1 - ls.length) z).toArray := by
    have := copyLoopC_spec ls [] (List.replicate ls.length z) (List.replicate ((computeSize ls.length).1 - ls.length) z)
      (by simp)
    have e : (Array.replicate (computeSize ls.length).1 z)
        = ([] ++ List.replicate ls.length z ++ List.replicate ((computeSize ls.length).1 - ls.length) z).toArray := by
      apply Array.toList_inj.mp
      simp only [Array.toList_replicate, List.nil_append, List.replicate_append_replicate]
      congr 1; omega
    rw [e]; simpa using this
  unfold computeTreeC computeTree
  simp only [hcopy]
  by_cases h1 : ls.length = 1
  · simp only [h1, if_true]
    have hs : (ls ++ List.replicate ((computeSize 1).1 - 1) z).toArray.size = 2 := by
      simp [computeSize, h1]
    rw [rd_ok _ z 0 (by rw [hs]; omega)]
    simp only
    rw [wr_ok _ _ _ (by rw [hs]; omega)]
  · simp only [h1, if_false]
    rw [outerLoopC_eq H z 0 ls.length _ (by
      simp only [List.size_toArray, List.length_append, List.length_replicate]
      have := computeSize_fst ls.length
      simp only [h1, if_false] at this
      omega)]

/-- `ComputeTree(nil)` does not panic either: it yields the one-slot tree `[""]` with no leaves and one level. -/
theorem computeTreeC_nil (H : α → α → α) (z : α) :
    computeTreeC H z [] = .ok { tree := #[z], leavesCount := 0, levels := 1 } := by
  have hs : computeSize 0 = (1, 1) := by
    simp only [computeSize]; rw [sizeLoop]; simp
  have ho : outerLoopC H 0 0 (Array.replicate 1 z) = .ok (Array.replicate 1 z) := by
    rw [outerLoopC]; simp
  simp only [computeTreeC, List.length_nil, hs, copyLoopC, ho]
  rfl

/-! ### `GetRoot` -/

theorem getRootC_eq (z : α) (t : Tree α) (h : 0 < t.tree.size) : getRootC t = .ok (getRoot z t) := by
  unfold getRootC getRoot
  have e : ((t.tree.size : Int) - 1) = ((t.tree.size - 1 : Nat) : Int) := by omega
  rw [e, rdI_cast, rd_ok _ z _ (by omega)]

theorem getRootC_zero : getRootC (zeroTree : Tree α) = .panic := by
  simp [getRootC, zeroTree, rdI]

theorem size_computeTree_pos (H : α → α → α) (z : α) (ls : List α) (hn : 1 ≤ ls.length) :
    0 < (computeTree H z ls).tree.size := by
  have := computeTree_tree H z ls hn
  have hl : (computeTree H z ls).tree.size = (levels H ls).flatten.length := by
    rw [← this, Array.length_toList]
  rw [hl]
  by_cases h1 : ls.length = 1
  · match ls, h1 with
    | [a], _ => simp [levels]
  · rw [levels_of_ne_one H ls h1]
    have := length_le_flatten H ls
    omega

/-! ### `GetPathByIndex` -/

theorem size_of_drop (arr : Array α) (p : Nat) (A B : List α) (h : arr.toList.drop p = A ++ B) (hA : 0 < A.length) :
    p + A.length ≤ arr.size := by
  have : (arr.toList.drop p).length = (A ++ B).length := by rw [h]
  simp only [List.length_drop, Array.length_toList, List.length_append] at this
  omega

/-- the checked sibling read succeeds and returns the total read -/
theorem sibC_read (H : α → α → α) (z : α) (arr : Array α) (l0 : Nat) (L : List α)
    (h : arr.toList.drop l0 = (levelsFrom H L).flatten) (i : Nat) (hi : i < L.length) :
    (if (i : Int) % 2 = 1 then rdI arr ((l0 : Int) + (i : Int) - 1)
     else if (l0 : Int) + (i : Int) + 1 < (l0 : Int) + (L.length : Int) then rdI arr ((l0 : Int) + (i : Int) + 1)
     else rdI arr ((l0 : Int) + (i : Int))) = .ok (sibOf z L i) := by
  have hd : ∃ B, arr.toList.drop l0 = L ++ B := by
    rw [h, flatten_levelsFrom]; split
    · exact ⟨_, rfl⟩
    · exact ⟨[], by simp⟩
  obtain ⟨B, hB⟩ := hd
  have hsz := size_of_drop arr l0 L B hB (by omega)
  rw [← sib_read H z arr l0 L h i hi]
  by_cases hodd : i % 2 = 1
  · have e1 : (i : Int) % 2 = 1 := by omega
    have e2 : (l0 : Int) + (i : Int) - 1 = ((l0 + i - 1 : Nat) : Int) := by omega
    simp only [e1, hodd, if_true, e2, rdI_cast]
    exact rd_ok _ z _ (by omega)
  · have e1 : ¬ ((i : Int) % 2 = 1) := by omega
    simp only [e1, hodd, if_false]
    by_cases hl : i + 1 < L.length
    · have e3 : (l0 : Int) + (i : Int) + 1 < (l0 : Int) + (L.length : Int) := by omega
      have e4 : l0 + i + 1 < l0 + L.length := by omega
      have e2 : (l0 : Int) + (i : Int) + 1 = ((l0 + i + 1 : Nat) : Int) := by omega
      rw [if_pos e3, if_pos e4, e2, rdI_cast]
      exact rd_ok _ z _ (by omega)
    · have e3 : ¬ ((l0 : Int) + (i : Int) + 1 < (l0 : Int) + (L.length : Int)) := by omega
      have e4 : ¬ (l0 + i + 1 < l0 + L.length) := by omega
      have e2 : (l0 : Int) + (i : Int) = ((l0 + i : Nat) : Int) := by omega
      rw [if_neg e3, if_neg e4, e2, rdI_cast]
      exact rd_ok _ z _ (by omega)

theorem half_cast (i : Nat) : ((i : Int) - (i : Int) % 2) / 2 = ((i / 2 : Nat) : Int) := by omega

/-- the checked loop of `GetPathByIndex` does not panic above an in-range index and appends the sibling path -/
theorem pathLoopC_spec (H : α → α → α) (z : α) (arr : Array α) (L : List α) :
    ∀ (pl0 : Nat) (done : List α) (idx : Nat), 1 < L.length →
      arr.toList.drop pl0 = (levelsFrom H L).flatten → idx < L.length →
      pathLoopC z arr pl0 L.length done.length (idx : Int)
          (done ++ List.replicate ((levelsFrom H (pairUp H L)).length - 1) z)
        = .ok (done ++ specPath z (levelsFrom H (pairUp H L)) (idx / 2)) := by
  induction L using levelsFrom.induct H with
  | case1 L hL ih =>
    intro pl0 done idx _ hrep hidx
    have hlen : (L.length + 1) / 2 = (pairUp H L).length := (length_pairUp H L).symm
    have hnext := drop_next H arr pl0 L hL hrep
    rw [pathLoopC]
    by_cases h2 : 2 < L.length
    · simp only [h2, dite_true]
      have hL' : 1 < (pairUp H L).length := by rw [length_pairUp]; omega
      have hidx' : idx / 2 < (pairUp H L).length := by rw [length_pairUp]; omega
      rw [half_cast, hlen]
      have hs := sibC_read H z arr (pl0 + L.length) (pairUp H L) hnext (idx / 2) hidx'
      simp only [Int.natCast_add] at hs ⊢
      rw [hs]
      simp only
      rw [levelsFrom_cons H (pairUp H L) hL']
      obtain ⟨X, xs, hX⟩ : ∃ X xs, levelsFrom H (pairUp H (pairUp H L)) = X :: xs := by
        cases hx : levelsFrom H (pairUp H (pairUp H L)) with
        | nil => exact absurd hx (levelsFrom_ne_nil H _)
        | cons a b => exact ⟨a, b, rfl⟩
      have hk : (pairUp H L :: levelsFrom H (pairUp H (pairUp H L))).length - 1
          = (levelsFrom H (pairUp H (pairUp H L))).length := by simp
      rw [hk]
      have hpi : done.length < (done ++ List.replicate (levelsFrom H (pairUp H (pairUp H L))).length z).length := by
        rw [hX]; simp
      simp only [hpi, if_true]
      rw [set_append_replicate done _ z _ (by rw [hX]; simp)]
      have := ih (pl0 + L.length) (done ++ [sibOf z (pairUp H L) (idx / 2)]) (idx / 2) hL' hnext hidx'
      rw [List.length_append, List.length_singleton] at this
      rw [this, hX]
      simp [specPath]
    · simp only [h2, dite_false]
      have hL' : ¬ 1 < (pairUp H L).length := by rw [length_pairUp]; omega
      rw [levelsFrom_single H _ hL']
      simp [specPath]
  | case2 L hL => intro _ _ _ h; exact absurd h hL

/-- **`GetPathByIndex(i)` never panics for `0 ≤ i < n` on a computed tree**, and returns the total model's path. -/
theorem pathByIndexC_eq (H : α → α → α) (z : α) (ls : List α) (i : Nat) (hi : i < ls.length) :
    pathByIndexC z (computeTree H z ls) (i : Int) = .ok (pathByIndex z (computeTree H z ls) i) := by
  have hn : 1 ≤ ls.length := by omega
  have ht := computeTree_tree H z ls hn
  have hsz := computeSize_spec H ls hn
  obtain ⟨hspec, _⟩ := pathByIndex_computeTree H z ls i hi
  have hgoal : ∀ nodes, nodes = specPath z (levels H ls) i →
      (Chk.ok ({ nodes := nodes, leafIndex := (i : Int) } : Path α)) = .ok (pathByIndex z (computeTree H z ls) i) := by
    intro nodes hn'
    congr 1
    rw [hn', ← hspec]
    rfl
  by_cases h1 : ls.length = 1
  · match ls, h1 with
    | [a], _ =>
      have : i = 0 := by simpa using hi
      subst this
      simp [pathByIndexC, pathByIndex, computeTree, computeSize, rdI, rd, pathLoopC, pathLoop]
  · have hL : 1 < ls.length := by omega
    rw [levels_of_ne_one H ls h1] at ht hsz hgoal
    have hlv : (computeTree H z ls).levels = (levelsFrom H ls).length := by simp [computeTree, hsz]
    have hlc : (computeTree H z ls).leavesCount = ls.length := rfl
    have hrep : (computeTree H z ls).tree.toList.drop 0 = (levelsFrom H ls).flatten := by simpa using ht
    obtain ⟨X, xs, hX⟩ : ∃ X xs, levelsFrom H (pairUp H ls) = X :: xs := by
      cases hx : levelsFrom H (pairUp H ls) with
      | nil => exact absurd hx (levelsFrom_ne_nil H _)
      | cons a b => exact ⟨a, b, rfl⟩
    have hp0 := sibC_read H z (computeTree H z ls).tree 0 ls hrep i hi
    simp only [Int.natCast_zero, Int.zero_add] at hp0
    unfold pathByIndexC
    have hlv0 : ¬ ((computeTree H z ls).levels = 0) := by
      rw [hlv, levelsFrom_cons H ls hL]; simp
    simp only [hlv0, if_false, hlc, hp0]
    rw [hlv, levelsFrom_cons H ls hL]
    have hk : (ls :: levelsFrom H (pairUp H ls)).length - 1 = (levelsFrom H (pairUp H ls)).length := by simp
    rw [hk]
    have hpos : 0 < (List.replicate (levelsFrom H (pairUp H ls)).length z).length := by rw [hX]; simp
    simp only [hpos, if_true]
    have hset := set_append_replicate ([] : List α) (levelsFrom H (pairUp H ls)).length z (sibOf z ls i)
      (by rw [hX]; simp)
    simp only [List.nil_append, List.length_nil] at hset
    rw [hset]
    have := pathLoopC_spec H z (computeTree H z ls).tree ls 0 [sibOf z ls i] i hL hrep hi
    simp only [List.length_singleton] at this
    rw [this]
    simp only
    apply hgoal
    rw [levelsFrom_cons H ls hL, hX]
    simp [specPath]

/-! ### `GetLeafIndex` / `GetPath` -/

theorem leafIndexLoopC_eq [DecidableEq α] (z : α) (arr : Array α) (h : α) : ∀ (fuel i : Nat), i + fuel ≤ arr.size →
    leafIndexLoopC arr h i fuel = .ok (leafIndexLoop z arr h i fuel)
  | 0, _, _ => rfl
  | fuel + 1, i, hb => by
    simp only [leafIndexLoopC, leafIndexLoop, rd_ok arr z i (by omega)]
    split
    · rfl
    · exact leafIndexLoopC_eq z arr h fuel (i + 1) (by omega)

/-- **`GetPath(hash)` never panics on a computed tree**, whatever the hash. -/
theorem getPathC_eq [DecidableEq α] (H : α → α → α) (z : α) (ls : List α) (hn : 1 ≤ ls.length) (h : α) :
    getPathC z (computeTree H z ls) h = .ok (getPath z (computeTree H z ls) h) := by
  have hle : (computeTree H z ls).leavesCount ≤ (computeTree H z ls).tree.size := by
    have ht := computeTree_tree H z ls hn
    have hl : (computeTree H z ls).tree.size = (levels H ls).flatten.length := by rw [← ht, Array.length_toList]
    show ls.length ≤ _
    rw [hl]
    by_cases h1 : ls.length = 1
    · match ls, h1 with
      | [a], _ => simp [levels]
    · rw [levels_of_ne_one H ls h1]; exact length_le_flatten H ls
  have hli := getLeafIndex_computeTree H z ls hn h
  unfold getPathC getPath
  rw [leafIndexLoopC_eq z _ h _ 0 (by omega)]
  have hgl : leafIndexLoop z (computeTree H z ls).tree h 0 (computeTree H z ls).leavesCount
      = getLeafIndex z (computeTree H z ls) h := rfl
  rw [hgl, hli]
  by_cases hm : h ∈ ls
  · simp only [hm, if_true]
    exact pathByIndexC_eq H z ls _ (List.idxOf_lt_length_of_mem hm)
  · simp only [hm, if_false]

/-! ### `VerifyMerklePath` -/

theorem verifyLoopC_eq (H : α → α → α) : ∀ (rest pre : List α) (h : α) (idx : Int),
    verifyLoopC H (pre ++ rest).toArray pre.length h idx rest.length = .ok (verifyFold H h rest idx)
  | [], _, _, _ => rfl
  | s :: r, pre, h, idx => by
    have hlt : pre.length < (pre ++ s :: r).toArray.size := by simp
    have hrd : rd (pre ++ s :: r).toArray pre.length = .ok s := by
      simp [rd]
    simp only [List.length_cons, verifyLoopC, hrd, verifyFold]
    have := verifyLoopC_eq H r (pre ++ [s]) (if idx % 2 = 1 then H s h else H h s) ((idx - idx % 2) / 2)
    simpa using this

/-- **`VerifyMerklePath` never panics** for a non-nil path — any nodes, any claimed leaf index (negative and huge
included), any hash and root — and returns the total model's verdict. -/
theorem verifyC_eq [DecidableEq α] (H : α → α → α) (h : α) (p : Path α) (root : α) :
    verifyC H h (some p) root = .ok (verify H h p root) := by
  have := verifyLoopC_eq H p.nodes [] h p.leafIndex
  simp only [List.nil_append, List.length_nil] at this
  simp [verifyC, verify, this]

/-! ### Inputs on which Go does panic -/

/-- a negative index always panics (the first read is at a negative position) -/
theorem pathByIndexC_neg (z : α) (t : Tree α) (idx : Int) (h : idx < 0) : pathByIndexC z t idx = .panic := by
  unfold pathByIndexC
  split
  · rfl
  · by_cases hodd : idx % 2 = 1
    · simp only [hodd, if_true, rdI_neg t.tree (idx - 1) (by omega)]
    · have h2 : idx + 1 < (t.leavesCount : Int) := by omega
      simp only [hodd, if_false, h2, if_true, rdI_neg t.tree (idx + 1) (by omega)]

/-- an index beyond the array always panics (for a tree whose leaf count does not exceed its array, as every computed
or loaded tree) -/
theorem pathByIndexC_beyond (z : α) (t : Tree α) (hlc : t.leavesCount ≤ t.tree.size) (idx : Int)
    (h : (t.tree.size : Int) < idx) : pathByIndexC z t idx = .panic := by
  unfold pathByIndexC
  split
  · rfl
  · have rdp : ∀ i : Int, (t.tree.size : Int) ≤ i → rdI t.tree i = .panic := by
      intro i hi
      have : 0 ≤ i := by omega
      simp only [rdI, this, if_true]
      exact rd_panic _ _ (by omega)
    by_cases hodd : idx % 2 = 1
    · simp only [hodd, if_true, rdp (idx - 1) (by omega)]
    · have h2 : ¬ (idx + 1 < (t.leavesCount : Int)) := by omega
      simp only [hodd, if_false, h2, rdp idx (by omega)]

/-- on the tree of the empty list every `GetPathByIndex` panics (the path slice has length 0) -/
theorem pathByIndexC_empty (z : α) (idx : Int) :
    pathByIndexC z ({ tree := #[z], leavesCount := 0, levels := 1 } : Tree α) idx = .panic := by
  unfold pathByIndexC
  simp only [Nat.succ_ne_zero, if_false, Nat.sub_self, List.replicate_zero, List.length_nil, Nat.lt_irrefl]
  split <;> rfl

/-- on the zero value `&MerkleTree{}` `GetPathByIndex` panics (`make([]string, -1)`) -/
theorem pathByIndexC_zero (z : α) (idx : Int) : pathByIndexC z (zeroTree : Tree α) idx = .panic := by
  simp [pathByIndexC, zeroTree]

end Verif.Merkle
