/-
C12 (partial trie rebuilt from a path export): `insert` / `delete` of a requested key on a trie WITHOUT storage whose
unrequested subtrees are `(hash, weight)` references behave like the pure operations on the spec tree the trie
represents (`RepP`, Verif.Lemmas.WmptRep), as long as the walk of the key meets no reference (`Clear`,
Verif.Lemmas.WmptExportDefs).  Core Lean only.
-/
import Verif.Lemmas.WmptExportDefs
namespace Verif.Wmpt
namespace Partial
open RepOps

/-! ### `shortMatches`, prefixes, `Clear` -/

theorem shortMatches_iff_prefix (sk : Bytes) (key : List Nib) :
    shortMatches sk key = true ↔ sk <+: key.map nb := by
  simp only [shortMatches, keyBytes, Bool.and_eq_true, decide_eq_true_eq, beq_iff_eq]
  rw [List.prefix_iff_eq_take]
  constructor
  · rintro ⟨_, h⟩; exact h.symm
  · intro h
    refine ⟨?_, h.symm⟩
    have := congrArg List.length h
    simp at this; omega

theorem map_nb_prefix {s q : List Nib} : s.map nb <+: q.map nb ↔ s <+: q := by
  rw [List.prefix_iff_eq_take, List.prefix_iff_eq_take, List.length_map, ← List.map_take, map_nb_inj]

theorem shortMatches_nib (s q : List Nib) : shortMatches (s.map nb) q = true ↔ s <+: q := by
  rw [shortMatches_iff_prefix, map_nb_prefix]

theorem cp_le_left : ∀ (a b : Bytes), commonPrefix a b ≤ a.length
  | [], _ => by simp [commonPrefix]
  | _ :: _, [] => by simp [commonPrefix]
  | x :: a, y :: b => by
    simp only [commonPrefix]
    split
    · have := cp_le_left a b; simp; omega
    · simp

theorem cp_eq_len_iff : ∀ (a b : Bytes), commonPrefix a b = a.length ↔ a <+: b
  | [], b => by simp [commonPrefix]
  | x :: a, [] => by simp [commonPrefix]
  | x :: a, y :: b => by
    simp only [commonPrefix, List.cons_prefix_cons, List.length_cons]
    by_cases h : x = y
    · simp only [h, if_true, true_and, Nat.add_right_cancel_iff]
      exact cp_eq_len_iff a b
    · simp [h]

/-- bridge to the `commonPrefix` test of `insert` / `delete` -/
theorem shortMatches_iff_cp (sk : Bytes) (key : List Nib) :
    shortMatches sk key = true ↔ commonPrefix sk (key.map nb) = sk.length := by
  rw [shortMatches_iff_prefix, cp_eq_len_iff]

theorem clear_short (sk h : Bytes) (c : WN) (d tc : Bool) (q : List Nib) :
    Clear (.short sk h c d tc) q ↔ (sk <+: q.map nb → Clear c (q.drop sk.length)) := by
  simp only [Clear]
  rw [← shortMatches_iff_prefix]
  by_cases hm : shortMatches sk q = true <;> simp [hm]

theorem clear_short_nib (s : List Nib) (h : Bytes) (c : WN) (d tc : Bool) (q : List Nib) :
    Clear (.short (s.map nb) h c d tc) q ↔ (s <+: q → Clear c (q.drop s.length)) := by
  rw [clear_short, map_nb_prefix, List.length_map]

theorem clear_mkShort_nib (s : List Nib) (c : WN) (q : List Nib) :
    Clear (mkShort (s.map nb) c) q ↔ (s <+: q → Clear c (q.drop s.length)) := by
  unfold mkShort
  by_cases h : s = []
  · subst h; simp
  · simp only [List.map_eq_nil_iff, h, if_false]
    exact clear_short_nib s [] c true false q

theorem clear_routing_cons (h : Bytes) (ch : Nib → WN) (w : Nat) (d tc : Bool) (k : Nib) (ks : List Nib) :
    Clear (.routing h ch w d tc) (k :: ks) ↔ Clear (ch k) ks := by
  simp only [Clear]

theorem clear_not_ref {n : WN} {q : List Nib} (h : Clear n q) : isRef n = false := by
  cases n <;> simp_all [Clear, isRef]

/-! ### `Proper` through `mkShort` / `upd` -/

theorem proper_mkShort {k : Bytes} {c : WN} (h0 : c.isNil = false) (h1 : c ≠ .empty) (h2 : Proper c) :
    mkShort k c ≠ .empty ∧ Proper (mkShort k c) := by
  unfold mkShort; split
  · exact ⟨h1, h2⟩
  · exact ⟨by simp, h0, h1, by simp, h2⟩

theorem proper_upd {ch : Nib → WN} {x : WN} (k : Nib) (hc : ∀ i, ch i ≠ .empty ∧ Proper (ch i))
    (hx : x ≠ .empty ∧ Proper x) : ∀ i, upd ch k x i ≠ .empty ∧ Proper (upd ch k x i) := by
  intro i; unfold upd; split
  · exact hx
  · exact hc i

theorem proper_noEmp : ∀ {n : WN}, Proper n → NoEmp n
  | .nil, _ => trivial
  | .empty, _ => trivial
  | .hashRef _ _, _ => trivial
  | .value _ _ _ _, _ => trivial
  | .short _ _ c _ _, h => ⟨h.2.1, proper_noEmp h.2.2.2⟩
  | .routing _ ch _ _ _, h => fun i => ⟨(h i).1, proper_noEmp (h i).2⟩

theorem isNil_mkShort {k : Bytes} {c : WN} (h : c.isNil = false) : (mkShort k c).isNil = false := by
  unfold mkShort; split
  · exact h
  · rfl

/-! ### 1. insert -/

section Insert
variable {H : Bytes → Bytes}

/-- what a successful insert into `n` yields -/
def PInsOK (H : Bytes → Bytes) (n : WN) (t' : PT) (r : IRes) : Prop :=
  r.err = none ∧ RepP H r.node t' ∧ isRef r.node = false ∧ r.node ≠ .empty ∧ r.node.isNil = false ∧
    (NoEmp n → NoEmp r.node) ∧ (Proper n → Proper r.node) ∧
    (r.node.weight : Int) = (n.weight : Int) + r.change ∧ ∀ q, Clear n q → Clear r.node q

theorem partial_insert_aux (v : Bytes) (w : Nat) (s : Store) :
    ∀ (fuel : Nat) (n : WN) (t : PT) (m : Nat) (key : List Nib),
    RepP H n t → Uniform m t → key.length = m → Clear n key → key.length + 1 ≤ fuel →
    PInsOK H n (t.insert key v w) (insert false s fuel n key (.value [] v w true)) := by
  intro fuel
  induction fuel with
  | zero => intro n t m key _ _ _ _ hf; omega
  | succ fuel ih =>
    intro n t m key hrep hu hk hcl hf
    cases key with
    | nil =>
      simp only [List.length_nil] at hk
      subst hk
      rcases uniform_zero hu with rfl | ⟨vv, vw, rfl⟩
      · cases hrep with
        | nil =>
          refine ⟨rfl, Rep.value [] v w true (by simp), rfl, by simp [insert], rfl, fun _ => trivial,
            fun _ => trivial, ?_, fun q _ => by simp [insert, Clear]⟩
          simp [insert, WN.weight]
        | empty =>
          refine ⟨rfl, Rep.value [] v w true (by simp), rfl, by simp [insert], rfl, fun _ => trivial,
            fun _ => trivial, ?_, fun q _ => by simp [insert, Clear]⟩
          simp [insert, WN.weight]
        | ref t hn hst => simp [PT.isNone] at hn
      · cases hrep with
        | ref t hn hst => simp [Clear] at hcl
        | value h _ _ d hc =>
          simp only [insert, PT.insert]
          by_cases hv : vv = v
          · simp only [hv, if_true]
            subst hv
            exact ⟨rfl, Rep.value _ vv vw d hc, rfl, by simp, rfl, fun _ => trivial, fun _ => trivial,
              by simp [WN.weight], fun q _ => by simp [Clear]⟩
          · simp only [hv, if_false]
            refine ⟨rfl, Rep.value _ v w true (by simp), rfl, by simp, rfl, fun _ => trivial, fun _ => trivial,
              ?_, fun q _ => by simp [Clear]⟩
            simp only [WN.weight]
            omega
    | cons k ks =>
      cases hrep with
      | nil =>
        refine ⟨rfl, ?_, rfl, by simp [insert], rfl, ?_, ?_, ?_, ?_⟩
        · exact Rep.short _ [] _ true false _ (Rep.value [] v w true (by simp)) (by simp)
        · simp [insert, NoEmp]
        · simp [insert, Proper, WN.isNil]
        · simp [insert, WN.weight]
        · intro q _
          simp only [insert]
          rw [clear_short]; intro _; simp [Clear]
      | empty =>
        refine ⟨rfl, ?_, rfl, by simp [insert], rfl, ?_, ?_, ?_, ?_⟩
        · exact Rep.short _ [] _ true false _ (Rep.value [] v w true (by simp)) (by simp)
        · simp [insert, NoEmp]
        · simp [insert, Proper, WN.isNil]
        · simp [insert, WN.weight]
        · intro q _
          simp only [insert]
          rw [clear_short]; intro _; simp [Clear]
      | value h vv vw d hc =>
        simp only [Uniform] at hu
        subst hu
        simp at hk
      | ref t hn hst => simp [Clear] at hcl
      | short sk h c d tc tc' hc hcln =>
        obtain ⟨sn, rfl⟩ := exists_nibs sk hu.2.1
        obtain ⟨hs, hle, hvb, huc⟩ := uniform_short_iff.mp hu
        rcases cp_cases sn (k :: ks) (by omega) with ⟨K2, hK⟩ | ⟨a, i1, s', i2, K', rfl, hK, hni⟩
        · rw [hK, insert_short_prefix_m _ _ _ hs, PT.insert_short_prefix _ _ hs]
          have hk2 : K2.length = m - sn.length := by rw [hK] at hk; simp at hk; omega
          have hsl : sn.length ≠ 0 := by simpa using hs
          have hf' : K2.length + 1 ≤ fuel := by
            rw [hK] at hf; simp only [List.length_append] at hf; omega
          have hcl' : Clear c K2 := by
            rw [hK, clear_short_nib] at hcl
            simpa using hcl (List.prefix_append _ _)
          obtain ⟨h1, h2, h3, h4, h5, h6, h7, h8, h9⟩ := ih c tc' _ K2 hc huc hk2 hcl' hf'
          refine ⟨h1, Rep.short _ _ _ true tc _ h2 (by simp), rfl, by simp, rfl, fun hne => ⟨h4, h6 hne.2⟩,
            fun hp => ⟨h5, h4, by simp, h7 hp.2.2.2⟩, h8, fun q hq => ?_⟩
          rw [clear_short_nib] at hq ⊢
          exact fun hp => h9 _ (hq hp)
        · rw [hK, insert_short_split_m _ _ _ _ _ _ hni, PT.insert_short_split _ _ _ _ _ hni]
          have hcw : c.weight = tc'.weight := hc.weight
          refine ⟨rfl, rep_mkShort ?_, ?_, ?_, ?_, ?_, ?_, ?_, ?_⟩
          · refine Rep.routing _ _ _ true false _
              (rep_upd i2 (rep_upd i1 rep_noCh (rep_mkShort hc)) (rep_mkShort (Rep.value [] v w true (by simp))))
              (route_upd i2 (route_upd i1 (fun i hh ww e => by simp [noCh] at e) ?_) ?_) ?_ (by simp)
            · intro hh ww e
              unfold mkShort at e
              unfold PT.mkShort
              split at e
              · rename_i hnil
                simp only [hnil, if_true]
                exact isVB_isShort hvb
              · cases e
            · intro hh ww e
              unfold mkShort at e
              split at e <;> cases e
            · rw [weight_split _ _ hni, weight_mkShortP, weight_mkShortP, hcw]
              rfl
          · unfold mkShort; split <;> rfl
          · unfold mkShort; split <;> simp
          · unfold mkShort; split <;> rfl
          · intro hne
            have hb : NoEmp (.routing [] (upd (upd noCh i1 (mkShort (s'.map nb) c)) i2
                (mkShort (K'.map nb) (.value [] v w true))) (c.weight + (WN.value [] v w true).weight) true false) :=
              noEmp_upd i2 (noEmp_upd i1 (fun _ => ⟨by simp [noCh], trivial⟩) (noEmp_mkShort hne.1 hne.2))
                (noEmp_mkShort (by simp) trivial)
            exact (noEmp_mkShort (by simp) hb).2
          · intro hp
            have hb : Proper (.routing [] (upd (upd noCh i1 (mkShort (s'.map nb) c)) i2
                (mkShort (K'.map nb) (.value [] v w true))) (c.weight + (WN.value [] v w true).weight) true false) :=
              proper_upd i2 (proper_upd i1 (fun _ => ⟨by simp [noCh], trivial⟩) (proper_mkShort hp.1 hp.2.1 hp.2.2.2))
                (proper_mkShort rfl (by simp) trivial)
            exact (proper_mkShort rfl (by simp) hb).2
          · simp [weight_mkShort, WN.weight]
          · intro q hq
            rw [clear_mkShort_nib]
            rintro ⟨q2, rfl⟩
            rw [List.drop_left]
            cases q2 with
            | nil => simp [Clear]
            | cons j qs =>
              rw [clear_routing_cons]
              unfold upd
              by_cases h2 : j = i2
              · simp only [h2, if_true]
                rw [clear_mkShort_nib]; intro _; simp [Clear]
              · simp only [h2, if_false]
                by_cases h1 : j = i1
                · subst h1
                  simp only [if_true]
                  rw [clear_mkShort_nib]
                  intro hp
                  rw [clear_short_nib] at hq
                  have e4 : (a ++ j :: qs).drop (a ++ j :: s').length = qs.drop s'.length := by
                    rw [List.length_append, List.length_cons, ← Nat.add_assoc, ← List.drop_drop]; simp
                  rw [← e4]
                  apply hq
                  simpa [List.prefix_append_right_inj, List.cons_prefix_cons] using hp
                · simp [h1, noCh, Clear]
      | routing h ch cw d tc f hch hroute hcw hcln =>
        simp only [Uniform] at hu
        simp only [List.length_cons] at hk hf
        rw [clear_routing_cons] at hcl
        obtain ⟨h1, h2, h3, h4, h5, h6, h7, h8, h9⟩ := ih (ch k) (f k) (m - 1) ks (hch k) (hu.2 k)
          (by omega) hcl (by omega)
        simp only [insert, h1, PT.insert]
        have hwk : (ch k).weight = (f k).weight := (hch k).weight
        have hwr := h2.weight
        have e1 := weight_updP f k ((f k).insert ks v w)
        refine ⟨rfl, ?_, rfl, by simp, rfl, fun hne => noEmp_upd k hne ⟨h4, h6 (hne k).2⟩,
          fun hp => proper_upd k hp ⟨h4, h7 (hp k).2⟩, ?_, ?_⟩
        · refine Rep.routing _ _ _ true tc _ (rep_upd k hch h2)
            (route_upd k hroute (fun hh ww e => absurd e (not_ref_of_isRef h3 hh ww))) ?_ (by simp)
          omega
        · simp only [WN.weight]
          omega
        · intro q hq
          cases q with
          | nil => simp [Clear]
          | cons j qs =>
            rw [clear_routing_cons] at hq ⊢
            unfold upd
            by_cases hj : j = k
            · subst hj; simp only [if_true]; exact h9 _ hq
            · simp only [hj, if_false]; exact hq

end Insert

end Partial
end Verif.Wmpt
