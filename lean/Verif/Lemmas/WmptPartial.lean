/-
C12 (partial trie rebuilt from a path export): `insert` / `delete` of a requested key on a trie WITHOUT storage whose
unrequested subtrees are `(hash, weight)` references behave like the pure operations on the spec tree the trie
represents (`RepP`, Verif.Lemmas.WmptRep), as long as the walk of the key meets no reference (`Clear`,
Verif.Lemmas.WmptExportDefs).  Core Lean only.
-/
import Verif.Lemmas.WmptExportDefs
namespace Verif.Wmpt
namespace Partial
open RepOps

/-! ### `shortMatches`, prefixes, `Clear` -/

theorem shortMatches_iff_prefix (sk : Bytes) (key : List Nib) :
    shortMatches sk key = true ↔ sk <+: key.map nb := by
  simp only [shortMatches, keyBytes, Bool.and_eq_true, decide_eq_true_eq, beq_iff_eq]
  rw [List.prefix_iff_eq_take]
  constructor
  · rintro ⟨_, h⟩; exact h.symm
  · intro h
    refine ⟨?_, h.symm⟩
    have := congrArg List.length h
    simp at this; omega

theorem map_nb_prefix {s q : List Nib} : s.map nb <+: q.map nb ↔ s <+: q := by
  rw [List.prefix_iff_eq_take, List.prefix_iff_eq_take, List.length_map, ← List.map_take, map_nb_inj]

theorem shortMatches_nib (s q : List Nib) : shortMatches (s.map nb) q = true ↔ s <+: q := by
  rw [shortMatches_iff_prefix, map_nb_prefix]

theorem cp_le_left : ∀ (a b : Bytes), commonPrefix a b ≤ a.length
  | [], _ => by simp [commonPrefix]
  | _ :: _, [] => by simp [commonPrefix]
  | x :: a, y :: b => by
    simp only [commonPrefix]
    split
    · have := cp_le_left a b; simp; omega
    · simp

theorem cp_eq_len_iff : ∀ (a b : Bytes), commonPrefix a b = a.length ↔ a <+: b
  | [], b => by simp [commonPrefix]
  | x :: a, [] => by simp [commonPrefix]
  | x :: a, y :: b => by
    simp only [commonPrefix, List.cons_prefix_cons, List.length_cons]
    by_cases h : x = y
    · simp only [h, if_true, true_and, Nat.add_right_cancel_iff]
      exact cp_eq_len_iff a b
    · simp [h]

/-- bridge to the `commonPrefix` test of `insert` / `delete` -/
theorem shortMatches_iff_cp (sk : Bytes) (key : List Nib) :
    shortMatches sk key = true ↔ commonPrefix sk (key.map nb) = sk.length := by
  rw [shortMatches_iff_prefix, cp_eq_len_iff]

theorem clear_short (sk h : Bytes) (c : WN) (d tc : Bool) (q : List Nib) :
    Clear (.short sk h c d tc) q ↔ (sk <+: q.map nb → Clear c (q.drop sk.length)) := by
  simp only [Clear]
  rw [← shortMatches_iff_prefix]
  by_cases hm : shortMatches sk q = true <;> simp [hm]

theorem clear_short_nib (s : List Nib) (h : Bytes) (c : WN) (d tc : Bool) (q : List Nib) :
    Clear (.short (s.map nb) h c d tc) q ↔ (s <+: q → Clear c (q.drop s.length)) := by
  rw [clear_short, map_nb_prefix, List.length_map]

theorem clear_mkShort_nib (s : List Nib) (c : WN) (q : List Nib) :
    Clear (mkShort (s.map nb) c) q ↔ (s <+: q → Clear c (q.drop s.length)) := by
  unfold mkShort
  by_cases h : s = []
  · subst h; simp
  · simp only [List.map_eq_nil_iff, h, if_false]
    exact clear_short_nib s [] c true false q

theorem clear_routing_cons (h : Bytes) (ch : Nib → WN) (w : Nat) (d tc : Bool) (k : Nib) (ks : List Nib) :
    Clear (.routing h ch w d tc) (k :: ks) ↔ Clear (ch k) ks := by
  simp only [Clear]

theorem clear_not_ref {n : WN} {q : List Nib} (h : Clear n q) : isRef n = false := by
  cases n <;> simp_all [Clear, isRef]

/-! ### `Proper` through `mkShort` / `upd` -/

theorem proper_mkShort {k : Bytes} {c : WN} (h0 : c.isNil = false) (h1 : c ≠ .empty) (h2 : Proper c) :
    mkShort k c ≠ .empty ∧ Proper (mkShort k c) := by
  unfold mkShort; split
  · exact ⟨h1, h2⟩
  · exact ⟨by simp, h0, h1, by simp, h2⟩

theorem proper_upd {ch : Nib → WN} {x : WN} (k : Nib) (hc : ∀ i, ch i ≠ .empty ∧ Proper (ch i))
    (hx : x ≠ .empty ∧ Proper x) : ∀ i, upd ch k x i ≠ .empty ∧ Proper (upd ch k x i) := by
  intro i; unfold upd; split
  · exact hx
  · exact hc i

theorem proper_noEmp : ∀ {n : WN}, Proper n → NoEmp n
  | .nil, _ => trivial
  | .empty, _ => trivial
  | .hashRef _ _, _ => trivial
  | .value _ _ _ _, _ => trivial
  | .short _ _ _ _ _, h => ⟨h.2.1, proper_noEmp h.2.2.2⟩
  | .routing _ _ _ _ _, h => fun i => ⟨(h i).1, proper_noEmp (h i).2⟩

theorem isNil_mkShort {k : Bytes} {c : WN} (h : c.isNil = false) : (mkShort k c).isNil = false := by
  unfold mkShort; split
  · exact h
  · rfl

/-! ### 1. insert -/

section Insert
variable {H : Bytes → Bytes}

/-- what a successful insert into `n` yields -/
def PInsOK (H : Bytes → Bytes) (n : WN) (t' : PT) (r : IRes) : Prop :=
  r.err = none ∧ RepP H r.node t' ∧ isRef r.node = false ∧ r.node ≠ .empty ∧ r.node.isNil = false ∧
    (NoEmp n → NoEmp r.node) ∧ (Proper n → Proper r.node) ∧
    (r.node.weight : Int) = (n.weight : Int) + r.change ∧ ∀ q, Clear n q → Clear r.node q

theorem partial_insert_aux (v : Bytes) (w : Nat) (s : Store) :
    ∀ (fuel : Nat) (n : WN) (t : PT) (m : Nat) (key : List Nib),
    RepP H n t → Uniform m t → key.length = m → Clear n key → key.length + 1 ≤ fuel →
    PInsOK H n (t.insert key v w) (insert false s fuel n key (.value [] v w true)) := by
  intro fuel
  induction fuel with
  | zero => intro n t m key _ _ _ _ hf; omega
  | succ fuel ih =>
    intro n t m key hrep hu hk hcl hf
    cases key with
    | nil =>
      simp only [List.length_nil] at hk
      subst hk
      rcases uniform_zero hu with rfl | ⟨vv, vw, rfl⟩
      · cases hrep with
        | nil =>
          refine ⟨rfl, Rep.value [] v w true (by simp), rfl, by simp [insert], rfl, fun _ => trivial,
            fun _ => trivial, ?_, fun q _ => by simp [insert, Clear]⟩
          simp [insert, WN.weight]
        | empty =>
          refine ⟨rfl, Rep.value [] v w true (by simp), rfl, by simp [insert], rfl, fun _ => trivial,
            fun _ => trivial, ?_, fun q _ => by simp [insert, Clear]⟩
          simp [insert, WN.weight]
        | ref t hn hst => simp [PT.isNone] at hn
      · cases hrep with
        | ref t hn hst => simp [Clear] at hcl
        | value h _ _ d hc =>
          simp only [insert, PT.insert]
          by_cases hv : vv = v
          · simp only [hv, if_true]
            subst hv
            exact ⟨rfl, Rep.value _ vv vw d hc, rfl, by simp, rfl, fun _ => trivial, fun _ => trivial,
              by simp [WN.weight], fun q _ => by simp [Clear]⟩
          · simp only [hv, if_false]
            refine ⟨rfl, Rep.value _ v w true (by simp), rfl, by simp, rfl, fun _ => trivial, fun _ => trivial,
              ?_, fun q _ => by simp [Clear]⟩
            simp only [WN.weight]
            omega
    | cons k ks =>
      cases hrep with
      | nil =>
        refine ⟨rfl, ?_, rfl, by simp [insert], rfl, ?_, ?_, ?_, ?_⟩
        · exact Rep.short _ [] _ true false _ (Rep.value [] v w true (by simp)) (by simp)
        · simp [insert, NoEmp]
        · simp [insert, Proper, WN.isNil]
        · simp [insert, WN.weight]
        · intro q _
          simp only [insert]
          rw [clear_short]; intro _; simp [Clear]
      | empty =>
        refine ⟨rfl, ?_, rfl, by simp [insert], rfl, ?_, ?_, ?_, ?_⟩
        · exact Rep.short _ [] _ true false _ (Rep.value [] v w true (by simp)) (by simp)
        · simp [insert, NoEmp]
        · simp [insert, Proper, WN.isNil]
        · simp [insert, WN.weight]
        · intro q _
          simp only [insert]
          rw [clear_short]; intro _; simp [Clear]
      | value h vv vw d hc =>
        simp only [Uniform] at hu
        subst hu
        simp at hk
      | ref t hn hst => simp [Clear] at hcl
      | short sk h c d tc tc' hc hcln =>
        obtain ⟨sn, rfl⟩ := exists_nibs sk hu.2.1
        obtain ⟨hs, hle, hvb, huc⟩ := uniform_short_iff.mp hu
        rcases cp_cases sn (k :: ks) (by omega) with ⟨K2, hK⟩ | ⟨a, i1, s', i2, K', rfl, hK, hni⟩
        · rw [hK, insert_short_prefix_m _ _ _ hs, PT.insert_short_prefix _ _ hs]
          have hk2 : K2.length = m - sn.length := by rw [hK] at hk; simp at hk; omega
          have hsl : sn.length ≠ 0 := by simpa using hs
          have hf' : K2.length + 1 ≤ fuel := by
            rw [hK] at hf; simp only [List.length_append] at hf; omega
          have hcl' : Clear c K2 := by
            rw [hK, clear_short_nib] at hcl
            simpa using hcl (List.prefix_append _ _)
          obtain ⟨h1, h2, h3, h4, h5, h6, h7, h8, h9⟩ := ih c tc' _ K2 hc huc hk2 hcl' hf'
          refine ⟨h1, Rep.short _ _ _ true tc _ h2 (by simp), rfl, by simp, rfl, fun hne => ⟨h4, h6 hne.2⟩,
            fun hp => ⟨h5, h4, by simp, h7 hp.2.2.2⟩, h8, fun q hq => ?_⟩
          rw [clear_short_nib] at hq ⊢
          exact fun hp => h9 _ (hq hp)
        · rw [hK, insert_short_split_m _ _ _ _ _ _ hni, PT.insert_short_split _ _ _ _ _ hni]
          have hcw : c.weight = tc'.weight := hc.weight
          refine ⟨rfl, rep_mkShort ?_, ?_, ?_, ?_, ?_, ?_, ?_, ?_⟩
          · refine Rep.routing _ _ _ true false _
              (rep_upd i2 (rep_upd i1 rep_noCh (rep_mkShort hc)) (rep_mkShort (Rep.value [] v w true (by simp))))
              (route_upd i2 (route_upd i1 (fun i hh ww e => by simp [noCh] at e) ?_) ?_) ?_ (by simp)
            · intro hh ww e
              unfold mkShort at e
              unfold PT.mkShort
              split at e
              · rename_i hnil
                simp only [hnil, if_true]
                exact isVB_isShort hvb
              · cases e
            · intro hh ww e
              unfold mkShort at e
              split at e <;> cases e
            · rw [weight_split _ _ hni, weight_mkShortP, weight_mkShortP, hcw]
              rfl
          · unfold mkShort; split <;> rfl
          · unfold mkShort; split <;> simp
          · unfold mkShort; split <;> rfl
          · intro hne
            have hb : NoEmp (.routing [] (upd (upd noCh i1 (mkShort (s'.map nb) c)) i2
                (mkShort (K'.map nb) (.value [] v w true))) (c.weight + (WN.value [] v w true).weight) true false) :=
              noEmp_upd i2 (noEmp_upd i1 (fun _ => ⟨by simp [noCh], trivial⟩) (noEmp_mkShort hne.1 hne.2))
                (noEmp_mkShort (by simp) trivial)
            exact (noEmp_mkShort (by simp) hb).2
          · intro hp
            have hb : Proper (.routing [] (upd (upd noCh i1 (mkShort (s'.map nb) c)) i2
                (mkShort (K'.map nb) (.value [] v w true))) (c.weight + (WN.value [] v w true).weight) true false) :=
              proper_upd i2 (proper_upd i1 (fun _ => ⟨by simp [noCh], trivial⟩) (proper_mkShort hp.1 hp.2.1 hp.2.2.2))
                (proper_mkShort rfl (by simp) trivial)
            exact (proper_mkShort rfl (by simp) hb).2
          · simp [weight_mkShort, WN.weight]
          · intro q hq
            rw [clear_mkShort_nib]
            rintro ⟨q2, rfl⟩
            rw [List.drop_left]
            cases q2 with
            | nil => simp [Clear]
            | cons j qs =>
              rw [clear_routing_cons]
              unfold upd
              by_cases h2 : j = i2
              · simp only [h2, if_true]
                rw [clear_mkShort_nib]; intro _; simp [Clear]
              · simp only [h2, if_false]
                by_cases h1 : j = i1
                · subst h1
                  simp only [if_true]
                  rw [clear_mkShort_nib]
                  intro hp
                  rw [clear_short_nib] at hq
                  have e4 : (a ++ j :: qs).drop (a ++ j :: s').length = qs.drop s'.length := by
                    rw [List.length_append, List.length_cons, ← Nat.add_assoc, ← List.drop_drop]; simp
                  rw [← e4]
                  apply hq
                  simpa [List.prefix_append_right_inj, List.cons_prefix_cons] using hp
                · simp [h1, noCh, Clear]
      | routing h ch cw d tc f hch hroute hcw hcln =>
        simp only [Uniform] at hu
        simp only [List.length_cons] at hk hf
        rw [clear_routing_cons] at hcl
        obtain ⟨h1, h2, h3, h4, h5, h6, h7, h8, h9⟩ := ih (ch k) (f k) (m - 1) ks (hch k) (hu.2 k)
          (by omega) hcl (by omega)
        simp only [insert, h1, PT.insert]
        have hwk : (ch k).weight = (f k).weight := (hch k).weight
        have hwr := h2.weight
        have e1 := weight_updP f k ((f k).insert ks v w)
        refine ⟨rfl, ?_, rfl, by simp, rfl, fun hne => noEmp_upd k hne ⟨h4, h6 (hne k).2⟩,
          fun hp => proper_upd k hp ⟨h4, h7 (hp k).2⟩, ?_, ?_⟩
        · refine Rep.routing _ _ _ true tc _ (rep_upd k hch h2)
            (route_upd k hroute (fun hh ww e => absurd e (not_ref_of_isRef h3 hh ww))) ?_ (by simp)
          omega
        · simp only [WN.weight]
          omega
        · intro q hq
          cases q with
          | nil => simp [Clear]
          | cons j qs =>
            rw [clear_routing_cons] at hq ⊢
            unfold upd
            by_cases hj : j = k
            · subst hj; simp only [if_true]; exact h9 _ hq
            · simp only [hj, if_false]; exact hq

end Insert

/-! ### 2. delete -/

theorem clear_routing_upd {h h' : Bytes} {ch : Nib → WN} {w w' : Nat} {d d' tc tc' : Bool} {k : Nib} {x : WN}
    (hx : ∀ qs, Clear (ch k) qs → Clear x qs) :
    ∀ q, Clear (.routing h ch w d tc) q → Clear (.routing h' (upd ch k x) w' d' tc') q := by
  intro q hq
  cases q with
  | nil => simp [Clear]
  | cons j qs =>
    rw [clear_routing_cons] at hq ⊢
    unfold upd
    by_cases hj : j = k
    · subst hj; simp only [if_true]; exact hx _ hq
    · simp only [hj, if_false]; exact hq

theorem clear_merge {sk ck h h' chh : Bytes} {c cc : WN} {d d' tc tc' cd ctc : Bool}
    (hc : ∀ q2, Clear c q2 → Clear (.short ck chh cc cd ctc) q2) :
    ∀ q, Clear (.short sk h c d tc) q → Clear (.short (sk ++ ck) h' cc d' tc') q := by
  intro q hq
  rw [clear_short] at hq ⊢
  intro hp
  have h1 : sk <+: q.map nb := (List.prefix_append sk ck).trans hp
  have h2 := hc _ (hq h1)
  rw [clear_short] at h2
  have h3 : ck <+: (q.drop sk.length).map nb := by
    obtain ⟨r, hr⟩ := hp
    rw [List.map_drop, ← hr]
    simp
  have := h2 h3
  rw [List.drop_drop] at this
  simpa [List.length_append] using this

theorem clear_collapse_one {h : Bytes} {ch : Nib → WN} {cw : Nat} {d tc : Bool} {pos : Nib} {cp : WN}
    (hclp : ∀ qs, Clear (ch pos) qs → Clear cp qs) :
    ∀ q, Clear (.routing h ch cw d tc) q → Clear (.short [nb pos] [] cp true false) q := by
  intro q hq
  have := clear_short_nib [pos] [] cp true false q
  simp only [List.map_cons, List.map_nil] at this
  rw [this]
  intro hp
  cases q with
  | nil => simp at hp
  | cons j qs =>
    have : pos = j := by simpa [List.cons_prefix_cons] using hp
    subst this
    rw [clear_routing_cons] at hq
    simpa using hclp _ hq

theorem clear_collapse_short {h ck chh : Bytes} {ch : Nib → WN} {cw : Nat} {d tc cd ctc : Bool} {pos : Nib} {cc : WN}
    (hclp : ∀ qs, Clear (ch pos) qs → Clear (.short ck chh cc cd ctc) qs) :
    ∀ q, Clear (.routing h ch cw d tc) q → Clear (.short (nb pos :: ck) [] cc true false) q := by
  intro q hq
  rw [clear_short]
  intro hp
  cases q with
  | nil => simp at hp
  | cons j qs =>
    simp only [List.map_cons, List.cons_prefix_cons, nb_inj] at hp
    obtain ⟨rfl, hp2⟩ := hp
    rw [clear_routing_cons] at hq
    have := hclp _ hq
    rw [clear_short] at this
    simpa using this hp2

/-- below a short node the spec delete never removes the whole child (the child is a value at depth 0 or a branch) -/
theorem delete_child_ne_none {k : Nat} {c : PT} {K2 : List Nib} (hu : Uniform k c) (hvb : c.isVB) (hK : K2 ≠ [])
    (hl : K2.length = k) : c.delete K2 ≠ some .none := by
  cases c with
  | none => simp [PT.isVB] at hvb
  | short _ _ => simp [PT.isVB] at hvb
  | value vv vw =>
    simp only [Uniform] at hu
    have : K2.length ≠ 0 := by simpa using hK
    omega
  | branch ch => exact PT.delete_branch_ne ch K2

section Delete
variable {H : Bytes → Bytes}

/-- the outcome of `delete` on `n` (representing `t`): not found (node untouched), or the node of `PT.delete` -/
def PDelOK (H : Bytes → Bytes) (n : WN) (t : PT) (key : List Nib) (r : DRes) : Prop :=
  (r.err = some .notFound ∧ t.delete key = none ∧ r.node = n) ∨
  (r.err = none ∧ isRef r.node = false ∧ r.node ≠ .empty ∧ NoEmp r.node ∧ (Proper n → Proper r.node) ∧
    (∀ q, Clear n q → Clear r.node q) ∧
    ∃ t', t.delete key = some t' ∧ RepP H r.node t' ∧ r.node.weight + r.change = n.weight)

theorem partial_delete_aux (s : Store) :
    ∀ (fuel : Nat) (n : WN) (t : PT) (m : Nat) (key : List Nib),
    RepP H n t → NoEmp n → Uniform m t → key.length = m → Clear n key → key.length + 1 ≤ fuel →
    PDelOK H n t key (delete H false s fuel n key) := by
  intro fuel
  induction fuel with
  | zero => intro n t m key _ _ _ _ _ hf; omega
  | succ fuel ih =>
    intro n t m key hrep hne hu hk hcl hf
    unfold PDelOK at ih ⊢
    cases hrep with
    | nil => left; simp [delete, PT.delete]
    | empty => left; simp [delete, PT.delete]
    | value h vv vw d hc =>
      have hkn : key = [] := by
        simp only [Uniform] at hu
        exact List.eq_nil_of_length_eq_zero (hk.trans hu)
      subst hkn
      right
      refine ⟨rfl, rfl, by simp [delete], trivial, fun _ => trivial, fun q _ => by simp [delete, Clear],
        .none, by simp [PT.delete], Rep.nil, ?_⟩
      simp [delete, WN.weight]
    | ref t hn hst => simp [Clear] at hcl
    | short sk h c d tc tc' hc hcln =>
      obtain ⟨sn, rfl⟩ := exists_nibs sk hu.2.1
      obtain ⟨hs, hle, hvb, huc⟩ := uniform_short_iff.mp hu
      simp only [NoEmp] at hne
      rcases cp_cases sn key (by omega) with ⟨K2, rfl⟩ | ⟨a, i1, s', i2, K', rfl, rfl, hni⟩
      · rw [delete_short_prefix_m, PT.delete_short_prefix]
        by_cases hK : K2 = []
        · subst hK
          right
          simp only [if_true]
          exact ⟨by trivial, by trivial, by simp, trivial, fun _ => trivial, fun q _ => by simp [Clear],
            .none, rfl, Rep.nil, by simp [WN.weight]⟩
        · simp only [hK, if_false]
          have hk2 : K2.length = m - sn.length := by simp at hk; omega
          have hsl : sn.length ≠ 0 := by simpa using hs
          have hf' : K2.length + 1 ≤ fuel := by
            simp only [List.length_append] at hf; omega
          have hcl' : Clear c K2 := by
            rw [clear_short_nib] at hcl
            simpa using hcl (List.prefix_append _ _)
          have IH := ih c tc' _ K2 hc hne.2 huc hk2 hcl' hf'
          have hnn := delete_child_ne_none huc hvb hK hk2
          generalize delete H false s fuel c K2 = r at IH ⊢
          rcases IH with ⟨h1, h2, h3⟩ | ⟨h1, h2, h3, h4, hP, hC, t'', h5, h6, h7⟩
          · left
            simp only [h1, h2, h3]
            exact ⟨trivial, trivial, trivial⟩
          · right
            obtain ⟨node, change, err, td⟩ := r
            simp only at h1 h2 h3 h4 hP hC h6 h7
            subst h1
            simp only [h5]
            have hw : (WN.short (sn.map nb) h c d tc).weight = c.weight := rfl
            rw [hw]
            cases h6 with
            | nil => exact absurd h5 hnn
            | empty => exact absurd rfl h3
            | ref t0 hn0 hst0 => simp [isRef] at h2
            | value vh vv vw vd hcl0 =>
              refine ⟨rfl, rfl, by simp, ⟨by simp, trivial⟩, fun _ => ⟨rfl, by simp, by simp, trivial⟩, ?_, _, rfl,
                Rep.short _ _ _ true tc _ (Rep.value vh vv vw vd hcl0) (by simp), h7⟩
              intro q hq
              rw [clear_short_nib] at hq ⊢
              exact fun hp => hC _ (hq hp)
            | routing rh rch rw rd rtc g hg hgr hgw hgcl =>
              refine ⟨rfl, rfl, by simp, ⟨by simp, h4⟩, fun hp => ⟨rfl, by simp, by simp, hP hp.2.2.2⟩, ?_, _, rfl,
                Rep.short _ _ _ true tc _ (Rep.routing rh rch rw rd rtc g hg hgr hgw hgcl) (by simp), h7⟩
              intro q hq
              rw [clear_short_nib] at hq ⊢
              exact fun hp => hC _ (hq hp)
            | short ck chh cc cd ctc tcc hcc hccl =>
              simp only [NoEmp] at h4
              refine ⟨rfl, rfl, by simp, h4, fun hp => ?_, clear_merge hC, _, rfl,
                Rep.short _ _ _ true tc _ hcc (by simp), h7⟩
              have := hP hp.2.2.2
              exact ⟨this.1, this.2.1, by simp, this.2.2.2⟩
      · left
        rw [delete_short_split_m _ _ _ _ _ _ hni, PT.delete_short_split _ _ _ _ _ hni]
        exact ⟨rfl, rfl, rfl⟩
    | routing h ch cw d tc f hch hroute hcw hcln =>
      simp only [Uniform] at hu
      simp only [NoEmp] at hne
      cases key with
      | nil => simp at hk; omega
      | cons k ks =>
        simp only [List.length_cons] at hk hf
        rw [clear_routing_cons] at hcl
        have IH := ih (ch k) (f k) (m - 1) ks (hch k) (hne k).2 (hu.2 k) (by omega) hcl (by omega)
        rw [PT.delete_branch_cons]
        simp only [delete]
        generalize delete H false s fuel (ch k) ks = r at IH ⊢
        rcases IH with ⟨h1, h2, h3⟩ | ⟨h1, h2, h3, h4, hP, hC, t'', h5, h6, h7⟩
        · left
          simp only [h1, h2, h3, upd_self]
          exact ⟨trivial, rfl, trivial⟩
        · right
          simp only [h1, h5, Option.map_some]
          have hch' : ∀ i, RepP H (upd ch k r.node i) (PT.updP f k t'' i) := rep_upd k hch h6
          have hroute' := route_upd (y := t'') k hroute (fun hh ww e => absurd e (not_ref_of_isRef h2 hh ww))
          have hne' : ∀ i, upd ch k r.node i ≠ .empty ∧ NoEmp (upd ch k r.node i) := noEmp_upd k hne ⟨h3, h4⟩
          have hnil : r.node.isNil = t''.isNone := h6.isNil_iff h3
          have hsole := soleChild_eq_sole hch' (fun i => (hne' i).1)
          have hwk : (ch k).weight = (f k).weight := (hch k).weight
          have hwr : r.node.weight = t''.weight := h6.weight
          have e1 := weight_updP f k t''
          have hw' : cw - r.change = (PT.branch (PT.updP f k t'')).weight := by omega
          have hrout : isRef (WN.routing h (upd ch k r.node) (cw - r.change) true tc) = false ∧
              WN.routing h (upd ch k r.node) (cw - r.change) true tc ≠ .empty ∧
              NoEmp (WN.routing h (upd ch k r.node) (cw - r.change) true tc) ∧
              (Proper (WN.routing h ch cw d tc) → Proper (WN.routing h (upd ch k r.node) (cw - r.change) true tc)) ∧
              (∀ q, Clear (WN.routing h ch cw d tc) q →
                Clear (WN.routing h (upd ch k r.node) (cw - r.change) true tc) q) ∧
              ∃ t', some (PT.branch (PT.updP f k t'')) = some t' ∧
                RepP H (WN.routing h (upd ch k r.node) (cw - r.change) true tc) t' ∧
                (WN.routing h (upd ch k r.node) (cw - r.change) true tc).weight + r.change =
                  (WN.routing h ch cw d tc).weight := by
            refine ⟨rfl, by simp, hne', fun hp => proper_upd k hp ⟨h3, hP (hp k).2⟩, clear_routing_upd hC,
              _, rfl, Rep.routing _ _ _ true tc _ hch' hroute' hw' (by simp), ?_⟩
            simp only [WN.weight]; omega
          rw [hnil, hsole]
          by_cases hn0 : t''.isNone = true
          · simp only [hn0, Bool.not_true, Bool.false_eq_true, if_false]
            cases hs : PT.sole (PT.updP f k t'') with
            | none => exact ⟨rfl, hrout⟩
            | some pos =>
              obtain ⟨hpne, hpz⟩ := PT.sole_spec hs
              have hwp : (upd ch k r.node pos).weight + r.change = (WN.routing h ch cw d tc).weight := by
                have := weight_sole _ pos hpz
                have := (hch' pos).weight
                simp only [WN.weight]; omega
              have hposk : pos ≠ k := by
                intro e
                subst e
                apply hpne
                simp only [PT.updP, if_true]
                exact (PT.isNone_iff _).mp hn0
              have hclp : ∀ qs, Clear (ch pos) qs → Clear (upd ch k r.node pos) qs := by
                intro qs hq
                simpa [upd, hposk] using hq
              have hpp : Proper (WN.routing h ch cw d tc) → Proper (upd ch k r.node pos) := by
                intro hp
                have := (hp pos).2
                simpa [upd, hposk] using this
              have hp := hch' pos
              have hnp := hne' pos
              have hrp := hroute' pos
              simp only [PT.collapse]
              generalize upd ch k r.node pos = cp at hp hnp hrp hwp hclp hpp ⊢
              generalize PT.updP f k t'' pos = tp at hp hrp hpne ⊢
              cases hp with
              | nil => exact absurd rfl hpne
              | empty => exact absurd rfl hpne
              | ref _ hn0' hst0 =>
                have hns := hrp _ _ rfl
                cases tp with
                | none => simp [PT.isNone] at hn0'
                | short _ _ => simp [PT.isShort] at hns
                | value vv vw =>
                  exact ⟨rfl, rfl, by simp [resolveNode], ⟨by simp, trivial⟩,
                    fun _ => ⟨rfl, by simp, by simp, trivial⟩, clear_collapse_one hclp, _, rfl,
                    Rep.short _ _ _ true false _ (Rep.ref _ rfl trivial) (by simp), hwp⟩
                | branch g =>
                  exact ⟨rfl, rfl, by simp [resolveNode], ⟨by simp, trivial⟩,
                    fun _ => ⟨rfl, by simp, by simp, trivial⟩, clear_collapse_one hclp, _, rfl,
                    Rep.short _ _ _ true false _ (Rep.ref _ rfl trivial) (by simp), hwp⟩
              | value vh vv vw vd hcl0 =>
                exact ⟨rfl, rfl, by simp [resolveNode], ⟨by simp, trivial⟩,
                  fun _ => ⟨rfl, by simp, by simp, trivial⟩, clear_collapse_one hclp, _, rfl,
                  Rep.short _ _ _ true false _ (Rep.value vh vv vw vd hcl0) (by simp), hwp⟩
              | routing rh rch rw rd rtc g hg hgr hgw hgcl =>
                exact ⟨rfl, rfl, by simp [resolveNode], ⟨by simp, hnp.2⟩,
                  fun hp => ⟨rfl, by simp, by simp, hpp hp⟩, clear_collapse_one hclp, _, rfl,
                  Rep.short _ _ _ true false _ (Rep.routing rh rch rw rd rtc g hg hgr hgw hgcl) (by simp), hwp⟩
              | short ck chh cc cd ctc tcc hcc hccl =>
                refine ⟨rfl, rfl, by simp [resolveNode], hnp.2, fun hp => ?_, clear_collapse_short hclp, _, rfl,
                  Rep.short _ _ _ true false _ hcc (by simp), hwp⟩
                have := hpp hp
                exact ⟨this.1, this.2.1, by simp, this.2.2.2⟩
          · simp only [hn0, Bool.not_false, if_true]
            exact ⟨trivial, hrout⟩

end Delete

/-! ### `CalcHash` on a uniform represented node (no `Proper` needed: a uniform short node has a child) -/

section Hash
variable {H : Bytes → Bytes}

theorem rep_calcHash_uniform {P : PT → Prop} {n : WN} {t : PT} (h : Rep H P n t) :
    ∀ m, Uniform m t → Rep H P (calcHash H n).1 t ∧ (calcHash H n).2 = PT.hash H t := by
  induction h with
  | nil => intro _ _; exact ⟨Rep.nil, rfl⟩
  | empty => intro _ _; exact ⟨Rep.empty, rfl⟩
  | ref t hn hp => intro _ _; exact ⟨Rep.ref t hn hp, rfl⟩
  | value h v w d hc =>
    intro _ _
    cases d with
    | false => exact ⟨Rep.value h v w false hc, (hc rfl).1⟩
    | true => exact ⟨Rep.value _ v w true (by simp), rfl⟩
  | short k h c d tc tc' hr hc ih =>
    intro m hu
    cases d with
    | false => exact ⟨Rep.short k h c false tc tc' hr hc, (hc rfl).1⟩
    | true =>
      have hnil : c.isNil = false := (hr.not_nil_empty (isVB_isNone hu.2.2.2.1)).1
      obtain ⟨ih1, ih2⟩ := ih _ hu.2.2.2.2
      simp only [calcHash, hnil, if_true, Bool.false_eq_true, if_false, ih2]
      exact ⟨Rep.short k _ _ true tc tc' ih1 (by simp), rfl⟩
  | routing h ch w d tc f hr href hw hc ih =>
    intro m hu
    cases d with
    | false => exact ⟨Rep.routing h ch w false tc f hr href hw hc, (hc rfl).1⟩
    | true =>
      have ih' := fun i => ih i _ (hu.2 i)
      have e2 : allNib.flatMap (fun i => (calcHash H (ch i)).2) = allNib.flatMap (fun i => PT.hash H (f i)) := by
        simp only [List.flatMap_def]
        congr 1
        exact List.map_congr_left (fun i _ => (ih' i).2)
      simp only [calcHash, if_true, List.map_map, Function.comp_def, List.flatMap_map, e2]
      refine ⟨Rep.routing _ _ w true tc f (fun i => ?_) (fun i hh ww hi => ?_) hw (by simp), by rw [hw]; rfl⟩
      · rw [ofList_map_allNib]; exact (ih' i).1
      · rw [ofList_map_allNib] at hi
        have : ch i = .hashRef hh ww := by
          cases hci : ch i with
          | hashRef a b => simpa [hci, calcHash] using hi
          | nil => simp [hci, calcHash] at hi
          | empty => simp [hci, calcHash] at hi
          | value a b c d => cases d <;> simp [hci, calcHash] at hi
          | routing a b c d e => cases d <;> simp [hci, calcHash] at hi
          | short a b c d e =>
            cases d with
            | false => simp [hci, calcHash] at hi
            | true => by_cases hx : c.isNil <;> simp [hci, calcHash, hx] at hi
        exact href i hh ww this

end Hash

/-! ### main statements -/

section Main
variable {H : Bytes → Bytes}

/-- 1. an update of a requested key on the storage-less partial trie: `insert` succeeds without touching a reference and
yields a node representing `PT.insert`; the walk of every key that met no reference before meets none afterwards. -/
theorem partial_insert {n : WN} {t : PT} {m fuel : Nat} {key : List Nib} (v : Bytes) (w : Nat) (s : Store)
    (hrep : RepP H n t) (hu : Uniform m t) (hk : key.length = m) (hcl : Clear n key) (hne : NoEmp n)
    (hf : m + 1 ≤ fuel) :
    let r := insert false s fuel n key (.value [] v w true)
    r.err = none ∧ RepP H r.node (t.insert key v w) ∧ (r.node.weight : Int) = (n.weight : Int) + r.change ∧
      NoEmp r.node ∧ (∀ q, Clear n q → Clear r.node q) ∧
      Uniform m (t.insert key v w) ∧ r.node ≠ .empty ∧ r.node.isNil = false ∧ isRef r.node = false ∧
      (Proper n → Proper r.node) := by
  obtain ⟨h1, h2, h3, h4, h5, h6, h7, h8, h9⟩ :=
    partial_insert_aux (H := H) v w s fuel n t m key hrep hu hk hcl (by omega)
  exact ⟨h1, h2, h8, h6 hne, h9, uniform_insert hu hk v w, h4, h5, h3, h7⟩

/-- 2. a delete of a requested key on the storage-less partial trie: not found exactly when `PT.delete` says so (the
node is untouched), otherwise the node represents the tree of `PT.delete` (`.nil` for a removed subtree).  In the
branch-reduction step the remaining child may be a reference: it is not resolved, and the embedded-short-node rule of
`Rep` makes `short [pos] <reference>` the right result.  Every key whose walk met no reference before meets none
afterwards (a clear walk never enters a reference child, so it cannot be hurt by the reduction). -/
theorem partial_delete {n : WN} {t : PT} {m fuel : Nat} {key : List Nib} (s : Store)
    (hrep : RepP H n t) (hu : Uniform m t) (hk : key.length = m) (hcl : Clear n key) (hne : NoEmp n)
    (hf : m + 1 ≤ fuel) :
    let r := delete H false s fuel n key
    (r.err = some .notFound ∧ t.delete key = none ∧ r.node = n) ∨
    (r.err = none ∧ ∃ t', t.delete key = some t' ∧ RepP H r.node t' ∧ r.node.weight + r.change = n.weight ∧
      NoEmp r.node ∧ (∀ q, Clear n q → Clear r.node q) ∧
      Uniform m t' ∧ (r.node = .nil ↔ t' = .none) ∧ r.node ≠ .empty ∧ isRef r.node = false ∧
      (Proper n → Proper r.node)) := by
  rcases partial_delete_aux (H := H) s fuel n t m key hrep hne hu hk hcl (by omega) with
    h | ⟨h1, h2, h3, h4, hP, hC, t', h5, h6, h7⟩
  · exact .inl h
  · refine .inr ⟨h1, t', h5, h6, h7, h4, hC, uniform_delete hu hk h5, ?_, h3, h2, hP⟩
    have := h6.isNil_iff h3
    constructor
    · intro e; rw [e] at this; exact (PT.isNone_iff t').mp this.symm
    · intro e; rw [e] at this
      cases hd : (delete H false s fuel n key).node <;> simp [hd, WN.isNil, PT.isNone] at this ⊢

/-- 3a. root hash and weight of the partial trie after an update are those of the spec tree -/
theorem partial_step_root {n : WN} {t : PT} {m fuel : Nat} {key : List Nib} (v : Bytes) (w : Nat) (s : Store)
    (hrep : RepP H n t) (hu : Uniform m t) (hk : key.length = m) (hcl : Clear n key) (hf : m + 1 ≤ fuel) :
    (calcHash H (insert false s fuel n key (.value [] v w true)).node).2 = PT.hash H (t.insert key v w) := by
  obtain ⟨_, h2, _⟩ := partial_insert_aux (H := H) v w s fuel n t m key hrep hu hk hcl (by omega)
  exact (rep_calcHash_uniform h2 m (uniform_insert hu hk v w)).2

theorem partial_step_weight {n : WN} {t : PT} {m fuel : Nat} {key : List Nib} (v : Bytes) (w : Nat) (s : Store)
    (hrep : RepP H n t) (hu : Uniform m t) (hk : key.length = m) (hcl : Clear n key) (hf : m + 1 ≤ fuel) :
    (insert false s fuel n key (.value [] v w true)).node.weight = (t.insert key v w).weight := by
  obtain ⟨_, h2, _⟩ := partial_insert_aux (H := H) v w s fuel n t m key hrep hu hk hcl (by omega)
  exact h2.weight

/-- 3b. the same after a successful delete -/
theorem partial_step_root_delete {n : WN} {t t' : PT} {m fuel : Nat} {key : List Nib} (s : Store)
    (hrep : RepP H n t) (hu : Uniform m t) (hk : key.length = m) (hcl : Clear n key) (hne : NoEmp n)
    (hf : m + 1 ≤ fuel) (hd : t.delete key = some t') :
    (delete H false s fuel n key).err = none ∧
    (calcHash H (delete H false s fuel n key).node).2 = PT.hash H t' ∧
    (delete H false s fuel n key).node.weight = t'.weight := by
  rcases partial_delete_aux (H := H) s fuel n t m key hrep hne hu hk hcl (by omega) with
    ⟨_, h, _⟩ | ⟨h1, _, _, _, _, _, t'', h5, h6, _⟩
  · rw [h] at hd; cases hd
  · rw [hd] at h5; cases h5
    exact ⟨h1, (rep_calcHash_uniform h6 m (uniform_delete hu hk hd)).2, h6.weight⟩

/-- 3c. `covers_step` for an update: the FULL trie `nf` (references resolved from its storage `sf`) and the PARTIAL trie
`np` (no storage) represent the same spec tree `t`; after the same update of a key whose walk is clear in the partial
trie both operations succeed, report the same weight change, and the two tries again represent one spec tree — hence
equal root hash (`CalcHash`) and equal weight. -/
theorem partial_insert_simulates (hlen : ∀ x, (H x).length = 32) {nf np : WN} {t : PT} {m fuelF fuelP : Nat}
    {key : List Nib} (v : Bytes) (w : Nat) (sf sp : Store)
    (hF : RepS H sf nf t) (hP : RepP H np t) (hu : Uniform m t) (hok : RepOps.PTOK t) (hk : key.length = m)
    (hcl : Clear np key) (hfF : 2 * m + 2 ≤ fuelF) (hfP : m + 1 ≤ fuelP) :
    let rf := insert true sf fuelF nf key (.value [] v w true)
    let rp := insert false sp fuelP np key (.value [] v w true)
    rf.err = none ∧ rp.err = none ∧
      RepS H sf rf.node (t.insert key v w) ∧ RepP H rp.node (t.insert key v w) ∧ Uniform m (t.insert key v w) ∧
      (calcHash H rf.node).2 = (calcHash H rp.node).2 ∧ rf.node.weight = rp.node.weight ∧ rf.change = rp.change ∧
      (∀ q, Clear np q → Clear rp.node q) := by
  obtain ⟨f1, f2, f3, _⟩ := rep_insert (s := sf) (fuel := fuelF) hlen v w hF hu hok hk hfF
  obtain ⟨p1, p2, _, _, _, _, _, p8, p9⟩ :=
    partial_insert_aux (H := H) v w sp fuelP np t m key hP hu hk hcl (by omega)
  have hu' := uniform_insert hu hk v w
  refine ⟨f1, p1, f2, p2, hu', ?_, ?_, ?_, p9⟩
  · rw [(rep_calcHash_uniform f2 m hu').2, (rep_calcHash_uniform p2 m hu').2]
  · rw [f2.weight, p2.weight]
  · have h1 := f2.weight
    have h2 := p2.weight
    have h3 := hF.weight
    have h4 := hP.weight
    omega

/-- 3d. `covers_step` for a delete: both tries report not-found together (and stay as they are), or both succeed with
the same removed weight and again represent one spec tree — equal root hash and weight. -/
theorem partial_delete_simulates (hlen : ∀ x, (H x).length = 32) {nf np : WN} {t : PT} {m fuelF fuelP : Nat}
    {key : List Nib} (sf sp : Store)
    (hF : RepS H sf nf t) (hP : RepP H np t) (hneF : NoEmp nf) (hneP : NoEmp np) (hu : Uniform m t)
    (hok : RepOps.PTOK t) (hk : key.length = m) (hcl : Clear np key) (hfF : 2 * m + 2 ≤ fuelF) (hfP : m + 1 ≤ fuelP) :
    let rf := delete H true sf fuelF nf key
    let rp := delete H false sp fuelP np key
    (rf.err = some .notFound ∧ rp.err = some .notFound ∧ t.delete key = none ∧ rf.node = nf ∧ rp.node = np) ∨
    (rf.err = none ∧ rp.err = none ∧ ∃ t', t.delete key = some t' ∧
      RepS H sf rf.node t' ∧ RepP H rp.node t' ∧ Uniform m t' ∧ NoEmp rf.node ∧ NoEmp rp.node ∧
      (calcHash H rf.node).2 = (calcHash H rp.node).2 ∧ rf.node.weight = rp.node.weight ∧ rf.change = rp.change ∧
      (∀ q, Clear np q → Clear rp.node q)) := by
  have hdF := rep_delete (s := sf) (fuel := fuelF) hlen hF hneF hu hok hk hfF
  have hdP := partial_delete_aux (H := H) sp fuelP np t m key hP hneP hu hk hcl (by omega)
  rcases hdF with ⟨f1, f2, f3⟩ | ⟨f1, tf, f2, f3, f4, _, _, _, f8⟩
  · rcases hdP with ⟨p1, p2, p3⟩ | ⟨_, _, _, _, _, _, tp, p5, _, _⟩
    · exact .inl ⟨f1, p1, f2, f3, p3⟩
    · rw [f2] at p5; cases p5
  · rcases hdP with ⟨_, p2, _⟩ | ⟨p1, _, _, p4, _, pC, tp, p5, p6, p7⟩
    · rw [f2] at p2; cases p2
    · rw [f2] at p5; cases p5
      have hu' := uniform_delete hu hk f2
      refine .inr ⟨f1, p1, tf, f2, f3, p6, hu', f8, p4, ?_, ?_, ?_, pC⟩
      · rw [(rep_calcHash_uniform f3 m hu').2, (rep_calcHash_uniform p6 m hu').2]
      · rw [f3.weight, p6.weight]
      · have h1 := f3.weight
        have h2 := p6.weight
        have h3 := hF.weight
        have h4 := hP.weight
        omega

end Main

/-! ### whole tries: `Update` / `Delete` on a partial trie (`hasDb = false`) -/

section Trie
variable {H : Bytes → Bytes}

theorem clear_normRoot (n : WN) (q : List Nib) : Clear (normRoot n) q ↔ Clear n q := by
  cases n <;> simp [normRoot, WN.isNil, Clear]

theorem fuelFor_partial (key : List Nib) : key.length + 1 ≤ fuelFor key := by
  unfold fuelFor; omega

/-- `Update(key, value ≠ "", weight)` of a requested key on the partial trie -/
theorem partial_update_insert (t : WT) (ts : PT) (key : List Nib) (value : Bytes) (w : Nat)
    (hdb : t.hasDb = false) (hrep : RepP H (normRoot t.root) ts) (hne : NoEmp t.root)
    (hu : Uniform 64 ts) (hk : key.length = 64) (hv : value ≠ []) (hcl : Clear t.root key) :
    (update H t key value w).2 = .ok () ∧
    (update H t key value w).1.store = t.store ∧ (update H t key value w).1.hasDb = false ∧
    RepP H (normRoot (update H t key value w).1.root) (ts.insert key value w) ∧
    Uniform 64 (ts.insert key value w) ∧
    NoEmp (update H t key value w).1.root ∧
    (update H t key value w).1.root.weight = (ts.insert key value w).weight ∧
    (calcHash H (update H t key value w).1.root).2 = PT.hash H (ts.insert key value w) ∧
    (∀ q, Clear t.root q → Clear (update H t key value w).1.root q) := by
  have hf : 64 + 1 ≤ fuelFor key := by have := fuelFor_partial key; omega
  obtain ⟨h1, h2, h3, h4, h5, h6, h7, h8, h9, h10⟩ :=
    partial_insert (H := H) (fuel := fuelFor key) value w t.store hrep hu hk ((clear_normRoot _ _).mpr hcl)
      ((noEmp_normRoot _).mpr hne) hf
  have e : update H t key value w =
      ({ t with root := (insert false t.store (fuelFor key) (normRoot t.root) key (.value [] value w true)).node,
                pending := t.pending ++ (insert false t.store (fuelFor key) (normRoot t.root) key (.value [] value w true)).td },
       .ok ()) := by
    simp only [update, hk, ne_eq, not_true_eq_false, if_false, hv, not_false_eq_true, if_true, hdb, h1]
  rw [e]
  exact ⟨rfl, rfl, hdb, rep_normRoot h2, h6, h4, h2.weight, (rep_calcHash_uniform h2 64 h6).2,
    fun q hq => h5 q ((clear_normRoot _ _).mpr hq)⟩

/-- `Update(key, "", _)` = delete of a requested key on the partial trie -/
theorem partial_update_delete (t : WT) (ts : PT) (key : List Nib) (w : Nat)
    (hdb : t.hasDb = false) (hrep : RepP H (normRoot t.root) ts) (hne : NoEmp t.root)
    (hu : Uniform 64 ts) (hk : key.length = 64) (hcl : Clear t.root key) :
    (update H t key [] w).1.store = t.store ∧ (update H t key [] w).1.hasDb = false ∧
    NoEmp (update H t key [] w).1.root ∧
    (∀ q, Clear t.root q → Clear (update H t key [] w).1.root q) ∧
    (((update H t key [] w).2 = .err .notFound ∧ ts.delete key = none ∧
        RepP H (normRoot (update H t key [] w).1.root) ts) ∨
     ((update H t key [] w).2 = .ok () ∧ ∃ ts', ts.delete key = some ts' ∧ Uniform 64 ts' ∧
        RepP H (normRoot (update H t key [] w).1.root) ts' ∧
        (update H t key [] w).1.root.weight = ts'.weight ∧
        (calcHash H (update H t key [] w).1.root).2 = PT.hash H ts')) := by
  have hf : 64 + 1 ≤ fuelFor key := by have := fuelFor_partial key; omega
  have hd := partial_delete (H := H) (fuel := fuelFor key) t.store hrep hu hk ((clear_normRoot _ _).mpr hcl)
    ((noEmp_normRoot _).mpr hne) hf
  rcases hd with ⟨h1, h2, h3⟩ | ⟨h1, t', h2, h3, h4, h5, h6, h7, h8, h9, h10, h11⟩
  · have e : update H t key [] w =
        ({ t with root := normRoot (normRoot t.root),
                  pending := t.pending ++ (delete H false t.store (fuelFor key) (normRoot t.root) key).td },
         .err .notFound) := by
      simp only [update, hk, ne_eq, not_true_eq_false, if_false, hdb, h1, h3]
    rw [e]
    refine ⟨rfl, hdb, (noEmp_normRoot _).mpr ((noEmp_normRoot _).mpr hne), fun q hq => ?_,
      .inl ⟨rfl, h2, by simp only [normRoot_idem]; exact hrep⟩⟩
    exact (clear_normRoot _ _).mpr ((clear_normRoot _ _).mpr hq)
  · have e : update H t key [] w =
        ({ t with root := normRoot (delete H false t.store (fuelFor key) (normRoot t.root) key).node,
                  pending := t.pending ++ (delete H false t.store (fuelFor key) (normRoot t.root) key).td },
         .ok ()) := by
      simp only [update, hk, ne_eq, not_true_eq_false, if_false, hdb, h1]
    rw [e]
    refine ⟨rfl, hdb, (noEmp_normRoot _).mpr h5, fun q hq => ?_, .inr ⟨rfl, t', h2, h7, ?_, ?_, ?_⟩⟩
    · exact (clear_normRoot _ _).mpr (h6 q ((clear_normRoot _ _).mpr hq))
    · simp only [normRoot_idem]; exact rep_normRoot h3
    · simp only [weight_normRoot]; exact h3.weight
    · exact (rep_calcHash_uniform (rep_normRoot h3) 64 h7).2

end Trie

end Partial
end Verif.Wmpt
